/-
  C18 — Enum and Flag representations are bijections on their members.
  Property theorems only; helper lemmas live in `AdaptixProofs/Lemmas/Enum*.lean`.

  The notions used in the statements (`ReprByValue`, `InjectiveNames`, `unionOf`, `ValidValue`,
  `InjectiveCaseNames`, `EveryBitNamed`, `Container`) are defined in
  `AdaptixProofs/Lemmas/EnumSpec.lean`, `EnumClass.WF` in `Lemmas/EnumClass.lean`; `servedRepr`,
  `EnumReprOK`, `FlagReprOK` (providers bound to several predicates) in `Lemmas/EnumBinding.lean`.

  All statements quantify over every class (any number of entries, aliases, values of
  the model's universe), every option combination and every datum.  The `example`s
  next to them are non-vacuity tests on literals.
-/
import AdaptixModel.Morph.Enum
import AdaptixModel.Morph.Flag
import AdaptixProofs.Lemmas.EnumSpec
import AdaptixProofs.Lemmas.EnumProviders
import AdaptixProofs.Lemmas.EnumBinding

namespace Adaptix.Enum.C18

open Adaptix.Enum

/-! ## Enum: representation by exact value -/

/-- **Round trip, exact value**: dumping any member and loading the result returns the
    same member — whichever loader implementation (value table or `enum(data)`) is in use,
    with aliases, unhashable values and an overridden `_missing_`. -/
theorem enum_exact_rt {c : EnumClass} (wf : c.WF) {m : Member} (hm : m ∈ c.iter) :
    ∃ v, enumExactDumper c m = some v ∧ enumExactLoader c v = .ok m := by
  refine ⟨m.value, enumExactDumper_eq hm, ?_⟩
  have hval := wf.values_ok m hm
  have hplain : m.value.isSelf = false := by
    cases hv : m.value <;> simp_all [PyVal.isValue, PyVal.isSelf]
  rw [enumExactLoader_eq wf hplain,
    (EnumClass.lookup_some_iff wf).2 ⟨hm, PyVal.pyEq_refl hval⟩]
  rfl

/-- **The exact-value loader accepts exactly the representations of members** (read up to
    Python `==`) and returns the member represented. -/
theorem enum_exact_accepts_iff {c : EnumClass} (wf : c.WF) {d : PyVal} (hd : d.isSelf = false)
    (m : Member) : enumExactLoader c d = .ok m ↔ ReprByValue c d m := by
  rw [enumExactLoader_eq wf hd, ← reprByValue_iff wf]
  cases (c.lookup d).orElse (fun _ => c.missingHook d) <;> simp

/-- … and answers everything else with `BadVariantLoadError`: no other exception. -/
theorem enum_exact_rejects {c : EnumClass} (wf : c.WF) {d : PyVal} (hd : d.isSelf = false)
    (h : ∀ m, ¬ ReprByValue c d m) :
    enumExactLoader c d = .loadErr (.badVariant (exactVariants c)) := by
  rw [enumExactLoader_eq wf hd]
  cases hr : (c.lookup d).orElse (fun _ => c.missingHook d) with
  | none => rfl
  | some m => exact absurd ((reprByValue_iff wf d m).1 hr) (h m)

/-! ## Enum: representation by value through the loader / dumper of a value type -/

/-- **Round trip, by value**: for every member whose value is covered by the value type. -/
theorem enum_value_rt {c : EnumClass} (wf : c.WF) (k : ValueKind) {m : Member} (hm : m ∈ c.iter)
    (hk : k.accepts m.value = true) :
    enumValueLoader c k (enumValueDumper k m) = .ok m := by
  have hval := wf.values_ok m hm
  have hplain : m.value.isSelf = false := by
    cases hv : m.value <;> simp_all [PyVal.isValue, PyVal.isSelf]
  unfold enumValueLoader enumValueDumper ValueKind.dump ValueKind.load
  simp only [hk, if_true]
  rw [EnumClass.call_eq wf hplain, (EnumClass.lookup_some_iff wf).2 ⟨hm, PyVal.pyEq_refl hval⟩]
  rfl

/-- **The by-value loader accepts exactly** the data of the value type that represent a member. -/
theorem enum_value_accepts_iff {c : EnumClass} (wf : c.WF) (k : ValueKind) {d : PyVal}
    (hd : d.isSelf = false) (m : Member) :
    enumValueLoader c k d = .ok m ↔ k.accepts d = true ∧ ReprByValue c d m := by
  unfold enumValueLoader ValueKind.load
  by_cases hk : k.accepts d = true
  · simp only [hk, if_true, true_and]
    rw [EnumClass.call_eq wf hd, ← reprByValue_iff wf]
    cases (c.lookup d).orElse (fun _ => c.missingHook d) <;> simp
  · simp [hk]

/-- … and every other datum is answered with a `LoadError`. -/
theorem enum_value_rejects {c : EnumClass} (k : ValueKind) (d : PyVal) :
    (∃ m, enumValueLoader c k d = .ok m) ∨ ∃ e, enumValueLoader c k d = .loadErr e := by
  unfold enumValueLoader ValueKind.load
  by_cases hk : k.accepts d = true
  · simp only [hk, if_true]
    cases c.call d with
    | none => exact Or.inr ⟨_, rfl⟩
    | some m => exact Or.inl ⟨m, rfl⟩
  · simp [hk]

/-! ## Enum: representation by name (name_style / map) -/

/-- **Round trip, by name**: whenever loader and dumper can be created and the name
    mapping (map entries by member or by name, name_style, plain name — aliases included)
    is injective, dumping any member and loading the result returns the same member. -/
theorem enum_name_rt {c : EnumClass} {cfg : NameCfg} {ld : PyVal → Outcome Member}
    {dp : Member → Option PyVal} (hl : enumNameLoader c cfg = .ok ld)
    (hd : enumNameDumper c cfg = .ok dp) (hinj : InjectiveNames c cfg)
    {m : Member} (hm : m ∈ c.iter) : ∃ v, dp m = some v ∧ ld v = .ok m := by
  obtain ⟨ml, hml, rfl⟩ := enumNameLoader_ok hl
  obtain ⟨md, hmd, rfl⟩ := enumNameDumper_ok hd
  have hmv := EnumClass.iter_sub_membersValues hm
  obtain ⟨s, hs, hget⟩ := genForDumping_get Member.name cfg hmd hmv
  refine ⟨.atom (.str s), by simp [hget], ?_⟩
  have := genForLoading_get_of_injective Member.name cfg hml hinj hmv hs
  simp [PyVal.hashable, Atom.hashable, PyVal.strKey, Atom.strKey, this]

/-- **The by-name loader accepts exactly the mapped names of members** … -/
theorem enum_name_accepts_iff {c : EnumClass} {cfg : NameCfg} {ld : PyVal → Outcome Member}
    (hl : enumNameLoader c cfg = .ok ld) (hinj : InjectiveNames c cfg) {d : PyVal}
    (hd : d.isSelf = false) (m : Member) :
    ld d = .ok m ↔ m ∈ c.iter ∧ ∃ s, cfg.mapped m.name = some s ∧ d = .atom (.str s) := by
  obtain ⟨ml, hml, rfl⟩ := enumNameLoader_ok hl
  constructor
  · intro h
    simp only at h
    split at h
    · split at h
      · rename_i s hs
        split at h
        · rename_i m' hg
          injection h with h; subst h
          obtain ⟨hmem, hmapped⟩ := genForLoading_get_some Member.name cfg hml hg
          refine ⟨EnumClass.membersValues_sub hmem, s, hmapped, ?_⟩
          cases d with
          | atom a => simp [PyVal.strKey] at hs; rw [Atom.strKey_eq_some hs]
          | self n a => simp [PyVal.isSelf] at hd
          | list xs => simp [PyVal.strKey] at hs
          | tuple xs => simp [PyVal.strKey] at hs
          | mapping xs => simp [PyVal.strKey] at hs
        · cases h
      · cases h
    · cases h
  · rintro ⟨hm, s, hs, rfl⟩
    have hmv := EnumClass.iter_sub_membersValues hm
    have := genForLoading_get_of_injective Member.name cfg hml hinj hmv hs
    simp [PyVal.hashable, Atom.hashable, PyVal.strKey, Atom.strKey, this]

/-- … and answers every other datum with `BadVariantLoadError` (no other exception,
    unhashable data included). -/
theorem enum_name_rejects {c : EnumClass} {cfg : NameCfg} {ld : PyVal → Outcome Member}
    (hl : enumNameLoader c cfg = .ok ld) (d : PyVal) :
    (∃ m, ld d = .ok m) ∨ ∃ vs, ld d = .loadErr (.badVariant vs) := by
  obtain ⟨ml, _, rfl⟩ := enumNameLoader_ok hl
  simp only
  split
  · split
    · split
      · exact Or.inl ⟨_, rfl⟩
      · exact Or.inr ⟨_, rfl⟩
    · exact Or.inr ⟨_, rfl⟩
  · exact Or.inr ⟨_, rfl⟩

/-- creation of the by-name loader and dumper succeeds exactly when every member name
    can be mapped (always without a name_style: `convert_snake_style` is the only
    thing that can raise) -/
theorem enum_name_creation {c : EnumClass} {cfg : NameCfg}
    (h : ∀ m ∈ c.membersValues, (cfg.mapped m.name).isSome = true) :
    (enumNameLoader c cfg).isOk = true ∧ (enumNameDumper c cfg).isOk = true := by
  obtain ⟨r, hr⟩ := genMappingGo_isSome Member.name cfg (acc := []) h
  have hd : genForDumping Member.name cfg c.membersValues = some r := hr
  unfold enumNameLoader enumNameDumper genForLoading
  simp [hd, Create.isOk]


/-! ## Flag: representation by exact value -/

/-- **Round trip, flag by exact value**: for every flag class the loader can be created
    for (no skipped bits) and every union of its members — zero-valued, compound,
    multi-bit members and aliases included. -/
theorem flag_exact_rt {c : FlagClass} {ld : PyVal → Outcome Nat} (hl : flagExactLoader c = .ok ld)
    {S : List FlagCase} (hS : ∀ s ∈ S, s ∈ c.membersValues) :
    ld (flagExactDumper (unionOf S)) = .ok (unionOf S) := by
  obtain ⟨_, rfl⟩ := flagExactLoader_ok hl
  have hle : unionOf S ≤ c.mask := flagIn_le (FlagClass.union_flagIn_mask hS)
  have hcall : c.call (unionOf S) = some (unionOf S) :=
    (call_eq_some_iff c _).2 (fun _ => Or.inr (FlagClass.cover_of_union hS))
  have h1 : ¬ ((unionOf S : Int) < 0) := by omega
  have h2 : ¬ ((unionOf S : Int) > (c.mask : Int)) := by omega
  simp [flagExactDumper, h1, h2, hcall]

/-- **The exact-value flag loader accepts exactly** the `int`s (not `bool`, not look-alikes)
    within `0 … mask` that CPython accepts as a value of the class … -/
theorem flag_exact_accepts_iff {c : FlagClass} {ld : PyVal → Outcome Nat}
    (hl : flagExactLoader c = .ok ld) (d : PyVal) (v : Nat) :
    ld d = .ok v ↔ d = .atom (.int v) ∧ v ≤ c.mask ∧ ValidValue c v := by
  obtain ⟨_, rfl⟩ := flagExactLoader_ok hl
  constructor
  · intro h
    simp only at h
    split at h
    · rename_i i
      split at h
      · cases h
      · rename_i hr
        simp only [Bool.or_eq_true, decide_eq_true_eq, not_or, Int.not_lt, Int.not_lt] at hr
        split at h
        · rename_i v' hc
          injection h with h; subst h
          have hcv : v' = i.toNat := by
            unfold FlagClass.call at hc
            dsimp only at hc
            split at hc
            · cases hc
            · injection hc with hc; exact hc.symm
          subst hcv
          have hi : (i.toNat : Int) = i := Int.toNat_of_nonneg hr.1
          refine ⟨by rw [hi], by omega, (call_eq_some_iff c _).1 hc⟩
        · cases h
    · cases h
  · rintro ⟨rfl, hle, hvalid⟩
    have h1 : ¬ ((v : Int) < 0) := by omega
    have h2 : ¬ ((v : Int) > (c.mask : Int)) := by omega
    simp [h1, h2, (call_eq_some_iff c v).2 hvalid]

/-- … and answers every other datum with a `LoadError` (`TypeLoadError`,
    `OutOfRangeLoadError`, or `MsgLoadError` for what CPython refuses): never another exception. -/
theorem flag_exact_rejects {c : FlagClass} {ld : PyVal → Outcome Nat}
    (hl : flagExactLoader c = .ok ld) (d : PyVal) :
    (∃ v, ld d = .ok v) ∨ ∃ e, ld d = .loadErr e := by
  obtain ⟨_, rfl⟩ := flagExactLoader_ok hl
  simp only
  split
  · split
    · exact Or.inr ⟨_, rfl⟩
    · split
      · exact Or.inl ⟨_, rfl⟩
      · exact Or.inr ⟨_, rfl⟩
  · exact Or.inr ⟨_, rfl⟩

/-- creation of the exact-value flag loader: succeeds for every non-empty class without
    skipped bits and is refused (CannotProvide, as documented) for the others -/
theorem flag_exact_creation (c : FlagClass) (hne : c.entries ≠ []) :
    ((flagExactLoader c).isOk = true ↔ allBits c.mask = c.mask) ∧
    (allBits c.mask ≠ c.mask → ∃ why, flagExactLoader c = .cannotProvide why) := by
  have he : c.entries.isEmpty = false := by
    cases h : c.entries with
    | nil => exact absurd h hne
    | cons _ _ => rfl
  unfold flagExactLoader
  by_cases hg : allBits c.mask = c.mask
  · simp [he, hg, Create.isOk]
  · simp [he, hg, Create.isOk]


/-! ## `ValidValue` in terms of the members (independent of `cover` / `call`)

  `IsUnionOfMembers`, `ContainsNoMember` and the lemmas `cover_eq_self_iff` / `cover_eq_zero_iff`
  are in `Lemmas/EnumSpec.lean`. -/

/-- **What CPython's check amounts to, in terms of members**: a STRICT class refuses exactly the
    values that contain some member without being a combination of members. -/
theorem validValue_iff_members (c : FlagClass) (v : Nat) :
    ValidValue c v ↔ (c.strict = true → ContainsNoMember c v ∨ IsUnionOfMembers c v) := by
  unfold ValidValue
  rw [cover_eq_zero_iff, cover_eq_self_iff]

/-- **The exact-value flag loader, stated with members only.**  It accepts exactly the `int`s
    `0 ≤ v ≤ mask` that are a combination of members — and, what the property statement does not
    say, for a STRICT class also those that contain no member at all (CPython makes a nameless
    pseudo-member of them), for a non-STRICT class (`IntFlag`, boundary KEEP) every `int` in range. -/
theorem flag_exact_accepts_iff_members {c : FlagClass} {ld : PyVal → Outcome Nat}
    (hl : flagExactLoader c = .ok ld) (d : PyVal) (v : Nat) :
    ld d = .ok v ↔ d = .atom (.int v) ∧ v ≤ c.mask ∧
      (c.strict = true → ContainsNoMember c v ∨ IsUnionOfMembers c v) := by
  rw [flag_exact_accepts_iff hl, validValue_iff_members]

/-- every combination of members is accepted … -/
theorem flag_exact_accepts_unions {c : FlagClass} {ld : PyVal → Outcome Nat}
    (hl : flagExactLoader c = .ok ld) {S : List FlagCase} (hS : ∀ s ∈ S, s ∈ c.membersValues) :
    ld (.atom (.int (unionOf S))) = .ok (unionOf S) :=
  flag_exact_rt hl hS

/-- … and **the "exactly" of the property statement fails for the code as it is**: a value that is
    not a combination of members is accepted — `class M(Flag): AB = 3; C = 4`, `load(1, M)` is the
    pseudo-member `M(1)` (CPython refuses only values that contain a member, like 5 = C|1). -/
theorem flag_exact_accepts_non_union :
    ∃ (c : FlagClass) (ld : PyVal → Outcome Nat) (v : Nat), flagExactLoader c = .ok ld ∧
      ld (.atom (.int v)) = .ok v ∧ ¬ IsUnionOfMembers c v := by
  refine ⟨{ entries := [⟨"AB", 3⟩, ⟨"C", 4⟩] }, _, 1, rfl, by decide, ?_⟩
  rw [← cover_eq_self_iff]
  decide

/-! ## Flag: representation by the list of member names -/

/-- **Round trip, flag by member-name list**: for every flag class (zero-valued, compound,
    multi-bit members, aliases, any number of bits), every name configuration that is
    injective on the cases in use, and **every combination of** `allow_single_value`,
    `allow_duplicates`, `allow_compound`, `strict_coercion`: dumping any union of the cases the
    provider uses and loading the list returns the same value.  With `allow_compound = True`
    the cases are all members, so this is the property for every combination of flags. -/
theorem flag_list_rt {c : FlagClass} {cfg : NameCfg} {o : ListOpts} {ld : PyVal → Outcome Nat}
    {dp : Nat → List String} (hl : flagListLoader c cfg o = .ok ld)
    (hd : flagListDumper c cfg o = .ok dp) (hinj : InjectiveCaseNames c cfg o)
    {S : List FlagCase} (hS : ∀ s ∈ S, s ∈ c.getCases o) :
    ld (.list ((dp (unionOf S)).map Atom.str)) = .ok (unionOf S) := by
  obtain ⟨ml, hml, rfl⟩ := flagListLoader_ok hl
  obtain ⟨md, hmd, hdp⟩ := flagListDumper_ok hd
  obtain ⟨chosen, hdump, hnodup, hmem, hsum⟩ := hdp (unionOf S)
  have hunion : orAll (chosen.map (·.bits)) = unionOf S := by
    rw [hsum]
    exact finalSum_eq_of_union (fun s hs => mem_dumpCases.2 (hS s hs))
  -- the dumped names are the mapped names of the chosen cases
  have hname : ∀ s ∈ chosen, cfg.mapped s.name = some ((dictGet (· == ·) md s).getD "") := by
    intro s hs
    obtain ⟨n, hn, hget⟩ := genForDumping_get FlagCase.name cfg hmd (mem_dumpCases.2 (hmem s hs))
    rw [hget, hn]; rfl
  have hitems : chosen.map (fun c => (cfg.mapped c.name).map Atom.str) =
      ((dp (unionOf S)).map Atom.str).map some := by
    rw [hdump, List.map_map, List.map_map]
    apply List.map_congr_left
    intro s hs
    simp [hname s hs]
  have hlook := (map_lookup_eq_names hml hinj _ chosen).2 ⟨hmem, hitems⟩
  obtain ⟨hall, hfm⟩ := (map_lookup_eq_iff ml _ chosen).1 hlook
  simp only
  rw [listLoadItems_ok_iff]
  refine ⟨?_, hall, by rw [hfm, hunion]⟩
  by_cases hdups : o.allowDuplicates = true
  · exact Or.inl hdups
  · refine Or.inr ⟨by simp [List.all_map, Atom.hashable], ?_⟩
    rw [hasDuplicates_strs, hdump]
    -- different chosen cases have different names
    have : (chosen.map fun c => (dictGet (· == ·) md c).getD "").Pairwise (· ≠ ·) := by
      rw [List.pairwise_map]
      apply List.Pairwise.imp_of_mem _ hnodup
      intro a b ha hb hab heq
      apply hab
      exact hinj a (hmem a ha) b (hmem b hb) (by rw [hname a ha, hname b hb, heq])
    exact this


/-- `allow_compound = True`: every combination of members of the class round-trips. -/
theorem flag_list_rt_all_members {c : FlagClass} {cfg : NameCfg} {o : ListOpts}
    {ld : PyVal → Outcome Nat} {dp : Nat → List String} (hc : o.allowCompound = true)
    (hl : flagListLoader c cfg o = .ok ld) (hd : flagListDumper c cfg o = .ok dp)
    (hinj : InjectiveCaseNames c cfg o) {S : List FlagCase} (hS : ∀ s ∈ S, s ∈ c.membersValues) :
    ld (.list ((dp (unionOf S)).map Atom.str)) = .ok (unionOf S) :=
  flag_list_rt hl hd hinj (fun s hs => by simpa [FlagClass.getCases, hc] using hS s hs)

/-- `allow_compound = False`, what does hold: every combination of members round-trips
    provided every member is a union of single-bit members (`EveryBitNamed`).
    The full statement — for *every* flag class — is `FlagListRoundTripFull` below; it is false. -/
theorem flag_list_rt_noncompound_partial {c : FlagClass} {cfg : NameCfg} {o : ListOpts}
    {ld : PyVal → Outcome Nat} {dp : Nat → List String} (hc : o.allowCompound = false)
    (hl : flagListLoader c cfg o = .ok ld) (hd : flagListDumper c cfg o = .ok dp)
    (hinj : InjectiveCaseNames c cfg o) (hbits : EveryBitNamed c)
    {S : List FlagCase} (hS : ∀ s ∈ S, s ∈ c.membersValues) :
    ld (.list ((dp (unionOf S)).map Atom.str)) = .ok (unionOf S) := by
  have hflat : ∃ S' : List FlagCase, (∀ s ∈ S', s ∈ c.nonCompound) ∧ unionOf S = unionOf S' := by
    induction S with
    | nil => exact ⟨[], by simp, rfl⟩
    | cons s t ih =>
      obtain ⟨T, hT, hs⟩ := hbits s (hS s (by simp))
      obtain ⟨S', hS', ht⟩ := ih (fun x hx => hS x (List.mem_cons_of_mem _ hx))
      refine ⟨T ++ S', ?_, ?_⟩
      · intro x hx
        rcases List.mem_append.1 hx with hx | hx
        · exact hT x hx
        · exact hS' x hx
      · rw [unionOf_append, ← hs, ← ht]; rfl
  obtain ⟨S', hS', heq⟩ := hflat
  rw [heq]
  exact flag_list_rt hl hd hinj (fun s hs => by simpa [FlagClass.getCases, hc] using hS' s hs)

/-- The full-strength statement of the property for the name-list provider: *every* flag
    class, *every* option combination, every combination of members. -/
def FlagListRoundTripFull : Prop :=
  ∀ (c : FlagClass) (cfg : NameCfg) (o : ListOpts) (ld : PyVal → Outcome Nat) (dp : Nat → List String),
    flagListLoader c cfg o = .ok ld → flagListDumper c cfg o = .ok dp → InjectiveCaseNames c cfg o →
    ∀ S : List FlagCase, (∀ s ∈ S, s ∈ c.membersValues) →
      ld (.list ((dp (unionOf S)).map Atom.str)) = .ok (unionOf S)

/-- **It does not hold** (known finding): with `allow_compound=False` the bits of a member
    that have no single-bit member of their own are dropped.  Witness: `class F(Flag): AB = 3`
    — `dump(F.AB) == []`, which loads as `F(0)`. -/
theorem flag_list_rt_full_fails : ¬ FlagListRoundTripFull := by
  intro h
  have := h { entries := [⟨"AB", 3⟩] } {} { allowCompound := false } _ _ rfl rfl
    (by intro a ha; simp [FlagClass.getCases, FlagClass.nonCompound, FlagClass.membersValues,
          FlagClass.canonName, isSingleBit] at ha)
    [⟨"AB", 3⟩] (by simp [FlagClass.membersValues, FlagClass.canonName])
  revert this
  decide

/-! ## Flag by member names: the loader accepts exactly the representations -/

/-- **The name-list loader accepts exactly the representations**: a list / tuple (a mapping
    under lax coercion, a single `str` when `allow_single_value`) whose items are, one by
    one, the mapped names of cases the provider uses — without equal items unless
    `allow_duplicates` — and it returns the union of those cases. -/
theorem flag_list_accepts_iff {c : FlagClass} {cfg : NameCfg} {o : ListOpts} {ld : PyVal → Outcome Nat}
    (hl : flagListLoader c cfg o = .ok ld) (hinj : InjectiveCaseNames c cfg o) (d : PyVal) (v : Nat) :
    ld d = .ok v ↔
      ∃ (items : List Atom) (cs : List FlagCase), Container o d items ∧
        (o.allowDuplicates = true ∨ items.Pairwise (fun a b => a.pyEq b = false)) ∧
        (∀ k ∈ cs, k ∈ c.getCases o) ∧
        cs.map (fun k => (cfg.mapped k.name).map Atom.str) = items.map some ∧
        v = unionOf cs := by
  obtain ⟨ml, hml, rfl⟩ := flagListLoader_dispatch hl
  constructor
  · intro hload
    rcases dispatch_cases (o := o) (ml := ml) d with ⟨items, hcont⟩ | ⟨_, h | h⟩
    · rw [dispatch_of_container hcont, listLoadItems_ok_iff] at hload
      obtain ⟨hdup, hall, hv⟩ := hload
      have hlook := (map_lookup_eq_iff ml items _).2 ⟨hall, rfl⟩
      obtain ⟨hmem, hnames⟩ := (map_lookup_eq_names hml hinj items _).1 hlook
      refine ⟨items, _, hcont, ?_, hmem, hnames, hv⟩
      rcases hdup with hdup | ⟨_, hdup⟩
      · exact Or.inl hdup
      · exact Or.inr ((hasDuplicates_eq_false_iff items).1 hdup)
    · rw [h] at hload; cases hload
    · rw [h] at hload; cases hload
  · rintro ⟨items, cs, hcont, hdup, hmem, hnames, hv⟩
    rw [dispatch_of_container hcont]
    have hlook := (map_lookup_eq_names hml hinj items cs).2 ⟨hmem, hnames⟩
    obtain ⟨hall, hfm⟩ := (map_lookup_eq_iff ml items cs).1 hlook
    rw [listLoadItems_ok_iff]
    refine ⟨?_, hall, by rw [hfm]; exact hv⟩
    rcases hdup with hdup | hdup
    · exact Or.inl hdup
    · refine Or.inr ⟨?_, (hasDuplicates_eq_false_iff items).2 hdup⟩
      rw [List.all_eq_true]
      intro i hi
      have : some i ∈ items.map some := List.mem_map.2 ⟨i, hi, rfl⟩
      rw [← hnames, List.mem_map] at this
      obtain ⟨k, _, hk⟩ := this
      cases hm : cfg.mapped k.name with
      | none => simp [hm] at hk
      | some s => simp [hm] at hk; subst hk; rfl

/-- … and answers every other datum with a `LoadError`; the only other exception that can
    leave it is `TypeError` from `set()` when `allow_duplicates=False` meets an unhashable
    item (DESIGN §5 item 9, owned by C04). -/
theorem flag_list_rejects {c : FlagClass} {cfg : NameCfg} {o : ListOpts} {ld : PyVal → Outcome Nat}
    (hl : flagListLoader c cfg o = .ok ld) (d : PyVal) :
    (∃ v, ld d = .ok v) ∨ (∃ e, ld d = .loadErr e) ∨
      (o.allowDuplicates = false ∧ ∃ items, Container o d items ∧ items.all Atom.hashable = false) := by
  obtain ⟨ml, _, rfl⟩ := flagListLoader_dispatch hl
  rcases dispatch_cases (o := o) (ml := ml) d with ⟨items, hcont⟩ | ⟨_, h | h⟩
  · by_cases hok : o.allowDuplicates = true ∨ items.all Atom.hashable = true
    · rw [dispatch_of_container hcont]
      rcases listLoadItems_total o ml items hok with h | h
      · exact Or.inl h
      · exact Or.inr (Or.inl h)
    · refine Or.inr (Or.inr ⟨?_, items, hcont, ?_⟩)
      · cases hd : o.allowDuplicates <;> simp_all
      · cases hh : items.all Atom.hashable <;> simp_all
  · exact Or.inr (Or.inl ⟨_, h⟩)
  · exact Or.inr (Or.inl ⟨_, h⟩)

/-! ## Creation of loader and dumper -/

/-- **Creation is total for the name-list provider**: for every non-empty flag class —
    zero-valued members, aliases, compound and multi-bit members, any bit positions — and
    every option combination, creating the loader and the dumper succeeds as soon as
    every member name can be mapped (the only thing that can raise is
    `convert_snake_style` on a name that is not snake style). -/
theorem creation_total (c : FlagClass) (cfg : NameCfg) (o : ListOpts) (hne : c.entries ≠ [])
    (hnames : ∀ m ∈ c.membersValues, (cfg.mapped m.name).isSome = true) :
    (flagListLoader c cfg o).isOk = true ∧ (flagListDumper c cfg o).isOk = true := by
  have he : c.entries.isEmpty = false := by
    cases h : c.entries with
    | nil => exact absurd h hne
    | cons _ _ => rfl
  constructor
  · obtain ⟨r, hr⟩ := genMappingGo_isSome FlagCase.name cfg (acc := []) (cases := c.getCases o)
      (fun m hm => hnames m (FlagClass.getCases_sub hm))
    have hd : genForDumping FlagCase.name cfg (c.getCases o) = some r := hr
    unfold flagListLoader genForLoading
    simp [hd, he, Create.isOk]
  · obtain ⟨r, hr⟩ := genMappingGo_isSome FlagCase.name cfg (acc := []) (cases := dumpCases c o)
      (fun m hm => hnames m (FlagClass.getCases_sub (mem_dumpCases.1 hm)))
    have hd : genForDumping FlagCase.name cfg (dumpCases c o) = some r := hr
    unfold dumpCases at hd
    unfold flagListDumper
    dsimp only
    rw [hd]
    simp [he, Create.isOk]

/-- in particular without a name_style (plain names and/or a `map`) creation never fails -/
theorem creation_total_no_style (c : FlagClass) (cfg : NameCfg) (o : ListOpts) (hne : c.entries ≠ [])
    (h : cfg.style = none) :
    (flagListLoader c cfg o).isOk = true ∧ (flagListDumper c cfg o).isOk = true :=
  creation_total c cfg o hne (fun m _ => mapped_isSome_of_no_style h m.name)

/-! ## Summary: what is not a representation is rejected with a LoadError -/

/-- **The five loaders reject exactly the non-representations**: a datum from the outside
    world that is not the representation of a member (of a value, for flags) — in the
    sense of the `…_accepts_iff` theorems above — is answered with a `LoadError` by every
    provider; nothing else can leave a loader, except the `TypeError` of `set()` on unhashable
    list items under `allow_duplicates=False` (C04's finding). -/
theorem loader_rejects_exactly_non_representations :
    -- enum, exact value
    (∀ (c : EnumClass) (d : PyVal), c.WF → d.isSelf = false → (∀ m, ¬ ReprByValue c d m) →
      ∃ e, enumExactLoader c d = .loadErr e) ∧
    -- enum, by name
    (∀ (c : EnumClass) (cfg : NameCfg) (ld : PyVal → Outcome Member) (d : PyVal),
      enumNameLoader c cfg = .ok ld → InjectiveNames c cfg → d.isSelf = false →
      (∀ m, ¬ (m ∈ c.iter ∧ ∃ s, cfg.mapped m.name = some s ∧ d = .atom (.str s))) →
      ∃ e, ld d = .loadErr e) ∧
    -- enum, by value
    (∀ (c : EnumClass) (k : ValueKind) (d : PyVal), c.WF → d.isSelf = false →
      (∀ m, ¬ (k.accepts d = true ∧ ReprByValue c d m)) → ∃ e, enumValueLoader c k d = .loadErr e) ∧
    -- flag, exact value
    (∀ (c : FlagClass) (ld : PyVal → Outcome Nat) (d : PyVal), flagExactLoader c = .ok ld →
      (∀ v : Nat, ¬ (d = .atom (.int v) ∧ v ≤ c.mask ∧ ValidValue c v)) → ∃ e, ld d = .loadErr e) ∧
    -- flag, list of member names
    (∀ (c : FlagClass) (cfg : NameCfg) (o : ListOpts) (ld : PyVal → Outcome Nat) (d : PyVal),
      flagListLoader c cfg o = .ok ld → InjectiveCaseNames c cfg o →
      (∀ v, ¬ ∃ (items : List Atom) (cs : List FlagCase), Container o d items ∧
        (o.allowDuplicates = true ∨ items.Pairwise (fun a b => a.pyEq b = false)) ∧
        (∀ k ∈ cs, k ∈ c.getCases o) ∧
        cs.map (fun k => (cfg.mapped k.name).map Atom.str) = items.map some ∧ v = unionOf cs) →
      (∃ e, ld d = .loadErr e) ∨
        (o.allowDuplicates = false ∧ ∃ items, Container o d items ∧ items.all Atom.hashable = false)) := by
  refine ⟨?_, ?_, ?_, ?_, ?_⟩
  · intro c d wf hd h
    exact ⟨_, enum_exact_rejects wf hd h⟩
  · intro c cfg ld d hl hinj hd h
    rcases enum_name_rejects hl d with ⟨m, hm⟩ | ⟨vs, hvs⟩
    · exact absurd ((enum_name_accepts_iff hl hinj hd m).1 hm) (h m)
    · exact ⟨_, hvs⟩
  · intro c k d wf hd h
    rcases enum_value_rejects (c := c) k d with ⟨m, hm⟩ | he
    · exact absurd ((enum_value_accepts_iff wf k hd m).1 hm) (h m)
    · exact he
  · intro c ld d hl h
    rcases flag_exact_rejects hl d with ⟨v, hv⟩ | he
    · exact absurd ((flag_exact_accepts_iff hl d v).1 hv) (h v)
    · exact he
  · intro c cfg o ld d hl hinj h
    rcases flag_list_rejects hl d with ⟨v, hv⟩ | he | hc
    · exact absurd ((flag_list_accepts_iff hl hinj d v).1 hv) (h v)
    · exact Or.inl he
    · exact Or.inr hc

/-! ## Which representation applies: providers bound to several predicates (`bound_by_any`)

  Model: `AdaptixModel/Morph/EnumBinding.lean`.  A facade call such as `enum_by_name(A, P[B], "field", …)`
  binds ONE provider to a list of predicates; a retort serves loaders and dumpers of several classes, in
  any order, from its caches and its recipe. -/

/-- **Membership is an `any` over the predicates**: the bound provider is offered a request exactly when
    no predicate was given or one of the predicates matches the request site (the documentation of `preds`). -/
theorem bound_by_any_applies_iff (preds : List BindPred) (s : Site) :
    (boundByAny preds).check s = true ↔ preds = [] ∨ ∃ p ∈ preds, p.matches s = true := by
  match preds with
  | [] => simp [boundByAny, Checker.check]
  | [p] => simp [boundByAny, Checker.check]
  | p :: q :: rest => simp [boundByAny, Checker.check, List.any_cons]

/-- … and therefore does not depend on the order in which the predicates are written. -/
theorem bound_by_any_perm {ps qs : List BindPred} (h : ps.Perm qs) (s : Site) :
    (boundByAny ps).check s = (boundByAny qs).check s := by
  have key : ∀ l : List BindPred, (boundByAny l).check s = true ↔ l = [] ∨ ∃ p ∈ l, p.matches s = true :=
    fun l => bound_by_any_applies_iff l s
  have : (boundByAny ps).check s = true ↔ (boundByAny qs).check s = true := by
    rw [key, key]
    constructor
    · rintro (rfl | ⟨p, hp, hm⟩)
      · exact Or.inl h.nil_eq.symm
      · exact Or.inr ⟨p, h.mem_iff.1 hp, hm⟩
    · rintro (rfl | ⟨p, hp, hm⟩)
      · exact Or.inl h.eq_nil
      · exact Or.inr ⟨p, h.mem_iff.2 hp, hm⟩
  cases h1 : (boundByAny ps).check s <;> cases h2 : (boundByAny qs).check s <;> simp_all

/-- **The recipe search picks the first provider that accepts the request**, stated as a relation:
    position `i` is chosen iff the provider at `i` accepts and none before it does. -/
theorem select_first_match (recipe : List Bound) (s : Site) (i : Nat) :
    selectIdx recipe s = some i ↔
      (∃ b, recipe[i]? = some b ∧ b.applies s = true) ∧
      ∀ j, j < i → ∀ b, recipe[j]? = some b → b.applies s = false := by
  induction recipe generalizing i with
  | nil => simp [selectIdx]
  | cons b rest ih =>
    unfold selectIdx
    by_cases hb : b.applies s = true
    · simp only [hb, if_true]
      constructor
      · intro h
        cases h
        exact ⟨⟨b, by simp, hb⟩, fun j hj => absurd hj (Nat.not_lt_zero j)⟩
      · rintro ⟨_, hbefore⟩
        cases i with
        | zero => rfl
        | succ i =>
          have := hbefore 0 (Nat.succ_pos i) b (by simp)
          simp [hb] at this
    · have hb' : b.applies s = false := by simpa using hb
      simp only [hb', Bool.false_eq_true, if_false, Option.map_eq_some_iff]
      constructor
      · rintro ⟨i', hi', rfl⟩
        obtain ⟨⟨b', hb1, hb2⟩, hbefore⟩ := (ih i').1 hi'
        refine ⟨⟨b', by simpa using hb1, hb2⟩, ?_⟩
        intro j hj b'' hget
        cases j with
        | zero => simp at hget; subst hget; exact hb'
        | succ j => exact hbefore j (by omega) b'' (by simpa using hget)
      · rintro ⟨⟨b', hb1, hb2⟩, hbefore⟩
        cases i with
        | zero => simp at hb1; subst hb1; simp [hb'] at hb2
        | succ i' =>
          refine ⟨i', (ih i').2 ⟨⟨b', by simpa using hb1, hb2⟩, ?_⟩, rfl⟩
          intro j hj b'' hget
          exact hbefore (j + 1) (by omega) b'' (by simpa using hget)

/-- no provider of the recipe accepts ⇒ the built-in representation -/
theorem select_none_iff (recipe : List Bound) (s : Site) :
    selectIdx recipe s = none ↔ ∀ b ∈ recipe, b.applies s = false := by
  induction recipe with
  | nil => simp [selectIdx]
  | cons b rest ih =>
    unfold selectIdx
    by_cases hb : b.applies s = true
    · simp [hb]
    · have hb' : b.applies s = false := by simpa using hb
      simp [hb', ih]

/-- **What a retort answers does not depend on its request history**: after ANY sequence of earlier
    `get_loader` / `get_dumper` calls (other classes, other direction, the same request again), a request is
    served by the provider the recipe search selects for it on a fresh retort. -/
theorem served_independent_of_history (recipe : List Bound) (h : List Key) (k : Key) :
    (request recipe (serve recipe [] h).1 k).2 = selectIdx recipe k.1 :=
  request_answer (serve_spec h (Cache.coherent_nil recipe)).1 k

/-- every answer of a whole history, in whatever order the requests come -/
theorem served_history_answers (recipe : List Bound) (h : List Key) :
    (serve recipe [] h).2 = h.map (fun k => selectIdx recipe k.1) :=
  (serve_spec h (Cache.coherent_nil recipe)).2

/-- **Loader and dumper of a class use the same representation**, whichever was requested first and
    whatever else the retort was asked in between. -/
theorem loader_dumper_same_representation (recipe : List Bound) (h h' : List Key) (s : Site) :
    servedRepr recipe h (s, .loader) = servedRepr recipe h' (s, .dumper) ∧
    servedRepr recipe h (s, .loader) = select recipe s := by
  simp [servedRepr, served_independent_of_history, select]

/-- **Round trip for every Enum class bound through any of several predicates**: whatever recipe of bound
    representation providers, whatever request site and whatever request histories precede the creation
    of the loader and of the dumper on the shared retort — dumping a member with the dumper served and
    loading the result with the loader served gives the member back (under the hypothesis of the
    representation in force: injective names / value type covering the value). -/
theorem multi_bound_enum_rt {c : EnumClass} (wf : c.WF) (recipe : List Bound) (s : Site) (h h' : List Key)
    {ld : PyVal → Outcome Member} {dp : Member → Option PyVal}
    (hl : enumLoaderOf c (servedRepr recipe h (s, .loader)) = .ok ld)
    (hd : enumDumperOf c (servedRepr recipe h' (s, .dumper)) = .ok dp)
    {m : Member} (hm : m ∈ c.iter) (hok : EnumReprOK c m (select recipe s)) :
    ∃ v, dp m = some v ∧ ld v = .ok m := by
  have e1 : servedRepr recipe h (s, .loader) = select recipe s := by
    simp [servedRepr, served_independent_of_history, select]
  have e2 : servedRepr recipe h' (s, .dumper) = select recipe s := by
    simp [servedRepr, served_independent_of_history, select]
  rw [e1] at hl
  rw [e2] at hd
  generalize select recipe s = r at hl hd hok
  cases r with
  | enumExact =>
    simp only [enumLoaderOf, enumDumperOf, Create.ok.injEq] at hl hd
    subst hl; subst hd
    exact enum_exact_rt wf hm
  | enumName cfg => exact enum_name_rt hl hd hok hm
  | enumValue k =>
    simp only [enumLoaderOf, enumDumperOf, Create.ok.injEq] at hl hd
    subst hl; subst hd
    exact ⟨enumValueDumper k m, rfl, enum_value_rt wf k hm hok⟩
  | flagExact => simp [enumLoaderOf] at hl
  | flagList cfg o => simp [enumLoaderOf] at hl

/-- **Round trip for every Flag class bound through any of several predicates**, every union of members. -/
theorem multi_bound_flag_rt {c : FlagClass} (recipe : List Bound) (s : Site) (h h' : List Key)
    {ld : PyVal → Outcome Nat} {dp : Nat → PyVal}
    (hl : flagLoaderOf c (servedRepr recipe h (s, .loader)) = .ok ld)
    (hd : flagDumperOf c (servedRepr recipe h' (s, .dumper)) = .ok dp)
    {S : List FlagCase} (hok : FlagReprOK c S (select recipe s)) :
    ld (dp (unionOf S)) = .ok (unionOf S) := by
  have e1 : servedRepr recipe h (s, .loader) = select recipe s := by
    simp [servedRepr, served_independent_of_history, select]
  have e2 : servedRepr recipe h' (s, .dumper) = select recipe s := by
    simp [servedRepr, served_independent_of_history, select]
  rw [e1] at hl
  rw [e2] at hd
  generalize select recipe s = r at hl hd hok
  cases r with
  | flagExact =>
    simp only [flagLoaderOf, flagDumperOf, Create.ok.injEq] at hl hd
    subst hd
    exact flag_exact_rt hl hok
  | flagList cfg o =>
    simp only [flagLoaderOf, flagDumperOf] at hl hd
    cases hdd : flagListDumper c cfg o with
    | ok dp0 =>
      simp only [hdd, Create.ok.injEq] at hd
      subst hd
      exact flag_list_rt hl hdd hok.1 hok.2
    | cannotProvide w => simp [hdd] at hd
    | raises e => simp [hdd] at hd
  | enumExact => simp [flagLoaderOf] at hl
  | enumName cfg => simp [flagLoaderOf] at hl
  | enumValue k => simp [flagLoaderOf] at hl

/-! ## Non-vacuity: the theorems' hypotheses are satisfiable and the functions compute -/

/-- `class F(Flag): Z = 0; A = 1; B = 2; AB = 3; C = 4; AL = 1` -/
def exFlag : FlagClass :=
  { entries := [⟨"Z", 0⟩, ⟨"A", 1⟩, ⟨"B", 2⟩, ⟨"AB", 3⟩, ⟨"C", 4⟩, ⟨"AL", 1⟩] }

def lowerCfg : NameCfg := { style := styleOfName "LOWER" }

example : (flagListLoader exFlag lowerCfg {}).isOk = true ∧ (flagListDumper exFlag lowerCfg {}).isOk = true := by
  decide
example : InjectiveCaseNames exFlag lowerCfg {} := by decide
example : (match flagListDumper exFlag {} {} with | .ok dp => dp 7 | _ => []) = ["AB", "C", "A"] := by decide
example : (match flagListDumper exFlag {} { allowCompound := false } with | .ok dp => dp 7 | _ => [])
    = ["A", "B", "C"] := by decide
example : (match flagListLoader exFlag lowerCfg {} with
    | .ok ld => ld (.list [.str "ab", .str "c"]) | _ => .escape "") = .ok 7 := by decide
example : (match flagListLoader exFlag {} { allowDuplicates := false } with
    | .ok ld => ld (.list [.bool true, .int 1]) | _ => .escape "") = .loadErr .duplicatedValues := by decide
example : exFlag.membersValues.map (·.name) = ["Z", "A", "B", "AB", "C", "A"] := by decide
example : (match flagExactLoader exFlag with | .ok ld => ld (.atom (.int 5)) | _ => .escape "") = .ok 5 := by
  decide
example : (match flagExactLoader exFlag with | .ok ld => ld (.atom (.bool true)) | _ => .escape "")
    = .loadErr .typeLoad := by decide
/-- `class M(Flag): AB = 3; C = 4` — CPython (STRICT) refuses 5 -/
example : (match flagExactLoader { entries := [⟨"AB", 3⟩, ⟨"C", 4⟩] } with
    | .ok ld => ld (.atom (.int 5)) | _ => .escape "") = .loadErr (.msg "Bad flag value") := by decide
example : ¬ ValidValue { entries := [⟨"AB", 3⟩, ⟨"C", 4⟩] } 5 := by unfold ValidValue; decide
example : (flagExactLoader { entries := [⟨"A", 1⟩, ⟨"C", 4⟩] }).isOk = false := by decide
example : ¬ EveryBitNamed { entries := [⟨"AB", 3⟩] } := by
  intro h
  obtain ⟨T, hT, hb⟩ := h ⟨"AB", 3⟩ (by decide)
  have hnc : (FlagClass.nonCompound { entries := [⟨"AB", 3⟩] }) = [] := by decide
  cases T with
  | nil => exact absurd hb (by decide)
  | cons t _ =>
    have := hT t (by simp)
    rw [hnc] at this
    simp at this

/-- `class E(Enum): ONE = 1; T = True (alias); L = [1, 2]` -/
def exEnum : EnumClass :=
  { entries := [⟨"ONE", .atom (.int 1), none⟩, ⟨"T", .atom (.bool true), some "ONE"⟩,
                ⟨"L", .list [.int 1, .int 2], none⟩] }

example : exEnum.WF :=
  ⟨by decide, by decide⟩
example : enumExactLoader exEnum (.atom (.bool true)) = .ok ⟨"ONE", .atom (.int 1)⟩ := by decide
example : enumExactLoader exEnum (.list [.float 1, .int 2]) = .ok ⟨"L", .list [.int 1, .int 2]⟩ := by decide
example : (enumExactLoader exEnum (.tuple [.int 1, .int 2])).isLoadErr = true := by decide
example : InjectiveNames exEnum lowerCfg := by decide
example : ¬ InjectiveNames { entries := [⟨"a", .atom (.int 1), none⟩, ⟨"A", .atom (.int 2), none⟩] } lowerCfg := by
  decide
example : (match enumNameLoader exEnum lowerCfg with
    | .ok ld => ld (.atom (.str "one")) | _ => .escape "") = .ok ⟨"ONE", .atom (.int 1)⟩ := by decide
example : enumValueLoader exEnum .int (.atom (.bool true)) = .loadErr .typeLoad := by decide

/-! ## Every theorem applied with all its hypotheses discharged (non-degenerate classes:
    `exEnum` has an alias and an unhashable value, `exFlag` a zero, a compound and an aliased member) -/

theorem exFlag_everyBitNamed : EveryBitNamed exFlag := by
  intro m hm
  have hmv : exFlag.membersValues = [⟨"Z", 0⟩, ⟨"A", 1⟩, ⟨"B", 2⟩, ⟨"AB", 3⟩, ⟨"C", 4⟩, ⟨"A", 1⟩] := by decide
  rw [hmv] at hm
  simp only [List.mem_cons, List.not_mem_nil, or_false] at hm
  rcases hm with rfl | rfl | rfl | rfl | rfl | rfl
  · exact ⟨[], by simp, by decide⟩
  · exact ⟨[⟨"A", 1⟩], by decide, by decide⟩
  · exact ⟨[⟨"B", 2⟩], by decide, by decide⟩
  · exact ⟨[⟨"A", 1⟩, ⟨"B", 2⟩], by decide, by decide⟩
  · exact ⟨[⟨"C", 4⟩], by decide, by decide⟩
  · exact ⟨[⟨"A", 1⟩], by decide, by decide⟩

theorem exEnum_wf : exEnum.WF := ⟨by decide, by decide⟩

/-- `enum_exact_rt` applied: the member with the unhashable value round-trips -/
example : ∃ v, enumExactDumper exEnum ⟨"L", .list [.int 1, .int 2]⟩ = some v ∧
    enumExactLoader exEnum v = .ok ⟨"L", .list [.int 1, .int 2]⟩ :=
  enum_exact_rt exEnum_wf (by decide)

/-- `enum_exact_accepts_iff` applied in both directions -/
example : ReprByValue exEnum (.atom (.bool true)) ⟨"ONE", .atom (.int 1)⟩ :=
  (enum_exact_accepts_iff exEnum_wf (by decide) _).1 (by decide)

example : enumExactLoader exEnum (.atom (.str "x")) = .loadErr (.badVariant (exactVariants exEnum)) :=
  enum_exact_rejects exEnum_wf (by decide) (by
    intro m hm
    have := (enum_exact_accepts_iff exEnum_wf (d := .atom (.str "x")) (by decide) m).2 hm
    have h2 : (enumExactLoader exEnum (.atom (.str "x"))).isLoadErr = true := by decide
    rw [this] at h2
    cases h2)

/-- `enum_name_rt` applied (alias entry `T` included in the mapping) -/
example : ∀ ld dp, enumNameLoader exEnum lowerCfg = .ok ld → enumNameDumper exEnum lowerCfg = .ok dp →
    ∃ v, dp ⟨"L", .list [.int 1, .int 2]⟩ = some v ∧ ld v = .ok ⟨"L", .list [.int 1, .int 2]⟩ :=
  fun _ _ hl hd => enum_name_rt hl hd (by decide) (by decide)

example : (enumNameLoader exEnum lowerCfg).isOk = true ∧ (enumNameDumper exEnum lowerCfg).isOk = true :=
  enum_name_creation (by decide)

/-- `enum_value_rt` applied -/
example : enumValueLoader exEnum .int (enumValueDumper .int ⟨"ONE", .atom (.int 1)⟩) = .ok ⟨"ONE", .atom (.int 1)⟩ :=
  enum_value_rt exEnum_wf .int (by decide) (by decide)

/-- `flag_exact_rt` applied to a union of a compound, a zero and an aliased member -/
example : ∀ ld, flagExactLoader exFlag = .ok ld →
    ld (flagExactDumper (unionOf [⟨"AB", 3⟩, ⟨"Z", 0⟩, ⟨"A", 1⟩])) = .ok (unionOf [⟨"AB", 3⟩, ⟨"Z", 0⟩, ⟨"A", 1⟩]) :=
  fun _ hl => flag_exact_rt hl (by decide)

example : (flagExactLoader exFlag).isOk = true := (flag_exact_creation exFlag (by decide)).1.2 (by decide)

/-- `flag_list_rt` applied under several option combinations (name style LOWER) -/
example (o : ListOpts) (ho : o = {} ∨ o = { allowDuplicates := false } ∨
      o = { allowSingleValue := true, strictCoercion := false }) :
    ∀ ld dp, flagListLoader exFlag lowerCfg o = .ok ld → flagListDumper exFlag lowerCfg o = .ok dp →
      ld (.list ((dp (unionOf [⟨"AB", 3⟩, ⟨"C", 4⟩, ⟨"Z", 0⟩])).map Atom.str)) = .ok 7 := by
  intro ld dp hl hd
  have hinj : InjectiveCaseNames exFlag lowerCfg o := by rcases ho with rfl | rfl | rfl <;> decide
  have hS : ∀ s ∈ [(⟨"AB", 3⟩ : FlagCase), ⟨"C", 4⟩, ⟨"Z", 0⟩], s ∈ exFlag.getCases o := by
    rcases ho with rfl | rfl | rfl <;> decide
  exact flag_list_rt hl hd hinj hS

/-- `flag_list_rt_noncompound_partial` applied -/
example : ∀ ld dp, flagListLoader exFlag lowerCfg { allowCompound := false } = .ok ld →
    flagListDumper exFlag lowerCfg { allowCompound := false } = .ok dp →
    ld (.list ((dp (unionOf [⟨"AB", 3⟩, ⟨"C", 4⟩])).map Atom.str)) = .ok (unionOf [⟨"AB", 3⟩, ⟨"C", 4⟩]) :=
  fun _ _ hl hd => flag_list_rt_noncompound_partial rfl hl hd (by decide) exFlag_everyBitNamed (by decide)

/-- `creation_total` applied -/
example (o : ListOpts) : (flagListLoader exFlag lowerCfg o).isOk = true ∧ (flagListDumper exFlag lowerCfg o).isOk = true :=
  creation_total exFlag lowerCfg o (by decide) (by decide)

/-- `enum_by_name(A, P[B], "f2")` followed by `enum_by_exact_value(B)` and a flag provider; classes 0, 1 at top
    level, class 2 as field `f2` of its holder, class 3 (a flag) at top level: every order of requests gets the
    same answers (`some 0` = the by-name provider; `none` = built-in) -/
def exRecipe : List Bound :=
  [{ checker := boundByAny [.type 0, .type 1, .fieldName "f2"], provider := .enumName lowerCfg },
   { checker := boundByAny [.type 1, .type 2], provider := .enumExact },
   { checker := boundByAny [.types [0, 3], .path 3 "f3"], provider := .flagList lowerCfg {} }]

def exSite (i : Nat) : Site := { cls := i, family := if i = 3 then .flag else .enum }
def exFieldSite (i : Nat) : Site := { exSite i with field := some (i, s!"f{i}") }

example : (serve exRecipe [] [(exSite 0, .loader), (exSite 0, .dumper), (exSite 1, .dumper), (exSite 1, .loader),
    (exFieldSite 2, .loader), (exSite 2, .dumper), (exSite 3, .dumper), (exSite 0, .loader)]).2 =
    [some 0, some 0, some 0, some 0, some 0, some 1, some 2, some 0] := by decide

example : (serve exRecipe [] [(exSite 3, .dumper), (exSite 1, .loader), (exSite 0, .dumper), (exSite 0, .loader)]).2 =
    [some 2, some 0, some 0, some 0] := by decide

/-- `multi_bound_enum_rt` applied: class `exEnum` bound by the second of two predicates -/
example (h h' : List Key) {ld dp} (hl : enumLoaderOf exEnum (servedRepr exRecipe h (exSite 1, .loader)) = .ok ld)
    (hd : enumDumperOf exEnum (servedRepr exRecipe h' (exSite 1, .dumper)) = .ok dp) {m} (hm : m ∈ exEnum.iter)
    (hinj : InjectiveNames exEnum lowerCfg) : ∃ v, dp m = some v ∧ ld v = .ok m :=
  multi_bound_enum_rt exEnum_wf exRecipe (exSite 1) h h' hl hd hm (by
    have : select exRecipe (exSite 1) = .enumName lowerCfg := rfl
    rw [this]; exact hinj)

end Adaptix.Enum.C18
