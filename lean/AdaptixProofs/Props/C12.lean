/-
  C12 — A shared retort is safe under concurrent first use.
  Property theorems only; helper lemmas live in `AdaptixProofs/Lemmas/Threads*.lean`.

  Model: `AdaptixModel/Retort/Threads.lean` — any number of threads, each performing `retort.load(data, tp)`
  (`get_loader` + call) on one shared retort, or a request for a type nobody can load, which ends with
  ProviderNotFoundError (`stepRaise`) instead of a loader; `step sys s t` is one GIL-atomic action of thread `t`; a schedule
  is an arbitrary `List Tid`.  `Mode.byId` is the repaired `FuncWrapper` (stubs compared by identity,
  fixes/C12-stub-identity.patch), `Mode.byLoc` the unrepaired one (stubs equal when their locations are equal).
-/
import AdaptixModel.Retort.Threads
import AdaptixProofs.Lemmas.ThreadsInv
import AdaptixProofs.Lemmas.ThreadsProgress
import AdaptixProofs.Lemmas.ThreadsCompile
import AdaptixProofs.Lemmas.ThreadsTypedInv
import AdaptixProofs.Lemmas.ThreadsSeq
import AdaptixProofs.Lemmas.ThreadsAtomicCall
import AdaptixProofs.Lemmas.ThreadsExt
import AdaptixProofs.Lemmas.ThreadsInsertOnly

namespace Adaptix.Threads.C12

open Adaptix.Threads

/-- the retort of a type graph `G`: request programs are what `compile` produces; the request for a type no shape
    provider recognises (`failsTy`) ends with ProviderNotFoundError -/
def retort (G : Graph) (mode : Mode) (fuel evalFuel : Nat) : Sys :=
  { mode := mode, body := compile G fuel, fails := failsTy G, fuel := evalFuel }

/-! ### the repaired tree: stubs compared by identity -/

/-- **safe_inv.**  The invariant "a request only ever holds references that it owns or that are stub-free; the
    loader cache and every `call` only see references all of whose reachable stubs belong to completed requests;
    a completed request has bound all its stubs" (`Inv`, see `Lemmas/Threads.lean`) holds initially and is
    preserved by every atomic action of every thread: it holds after ANY schedule, for any number of threads,
    any type graph (self-recursive, mutually recursive, shared sub-types …) and any requested types. -/
theorem safe_inv (G : Graph) (fuel evalFuel : Nat) (reqs : List (TyId × Nat)) (σ : List Tid) :
    Inv (retort G .byId fuel evalFuel) (run (retort G .byId fuel evalFuel) (init reqs) σ) :=
  run_inv (sys := retort G .byId fuel evalFuel) rfl σ
    (init_inv _ reqs (fun r _ => compile_balanced G fuel r.1))

/-- **No call ever meets an unbound stub**, whatever the interleaving: the outcome
    "'NoneType' object is not callable" (`Res.unbound`) is unreachable. -/
theorem no_unbound_call (G : Graph) (fuel evalFuel : Nat) (reqs : List (TyId × Nat)) (σ : List Tid)
    (t : Tid) (th : Thread)
    (h : (run (retort G .byId fuel evalFuel) (init reqs) σ).threads[t]? = some th) :
    th.result ≠ some .unbound :=
  ((safe_inv G fuel evalFuel reqs σ).threads t th h).res

/-- **Whatever is in the loader cache can be called at any later time** (loaders obtained concurrently stay
    correct for later calls, including self-referencing loaders of recursive models): after any schedule, calling
    any cached loader on data of any depth with any fuel does not meet an unbound stub. -/
theorem cached_loaders_stay_callable (G : Graph) (fuel evalFuel : Nat) (reqs : List (TyId × Nat))
    (σ : List Tid) (e : TyId × Ref) (n d : Nat)
    (h : e ∈ (run (retort G .byId fuel evalFuel) (init reqs) σ).loaderCache) :
    eval (run (retort G .byId fuel evalFuel) (init reqs) σ).heap
         (run (retort G .byId fuel evalFuel) (init reqs) σ).stubs n d e.2 ≠ .unbound :=
  sealed_eval (safe_inv G fuel evalFuel reqs σ) n d e.2 ((safe_inv G fuel evalFuel reqs σ).lc e h)

/-- **No deadlock, no starvation by others** (holds for both comparison modes): a thread that gets
    `stepBound` turns in a schedule is finished at its end, whatever the other threads do in between.
    There is no blocking action: the only lock of the code (`ConcurrentCounter._lock`) guards the straight-line
    `idx = d[name]; d[name] += 1`, which is part of one atomic action of the model. -/
theorem every_thread_finishes (sys : Sys) (reqs : List (TyId × Nat)) (σ : List Tid) (t : Tid) (r : TyId × Nat)
    (hr : reqs[t]? = some r) (hturns : stepBound sys r.1 ≤ σ.count t) :
    ∃ (th : Thread) (res : Res), (run sys (init reqs) σ).threads[t]? = some th ∧ th.phase = .done ∧ th.result = some res ∧
      th.ty = r.1 ∧ th.depth = r.2 := by
  have hth : (init reqs).threads[t]? = some (mkThread r.1 r.2) := by simp [init, hr]
  obtain ⟨th', h1, h2, h2', h3, h4⟩ := run_measure sys t σ hth (by simp [mkThread])
  have hdone : th'.phase = .done := by
    refine measure_zero_done (sys := sys) ?_
    have hb := measure_le_bound sys (mkThread r.1 r.2)
    have hty : (mkThread r.1 r.2).ty = r.1 := rfl
    rw [hty] at hb
    omega
  have hsome := h4 hdone
  cases hres : th'.result with
  | none => rw [hres] at hsome; cases hsome
  | some res => exact ⟨th', res, h1, hdone, hres, h2, h2'⟩

/-- **all_schedules_safe (partial): completion and no unbound-stub call, with no hypothesis at all** on the type
    graph, the fuel or the requested types: for any number of threads and ANY schedule in which every thread gets
    enough turns, the run completes (every thread is `done`) and every call has produced a result that is not the
    unbound-stub failure.  (`all_schedules_safe` below adds "= the sequential run" under the static check
    `typed`.) -/
theorem all_schedules_safe_partial (G : Graph) (fuel evalFuel : Nat) (reqs : List (TyId × Nat)) (σ : List Tid)
    (hturns : ∀ (t : Tid) (r : TyId × Nat), reqs[t]? = some r →
      stepBound (retort G .byId fuel evalFuel) r.1 ≤ σ.count t) :
    ∀ (t : Tid) (r : TyId × Nat), reqs[t]? = some r →
      ∃ (th : Thread) (res : Res), (run (retort G .byId fuel evalFuel) (init reqs) σ).threads[t]? = some th ∧
        th.phase = .done ∧ th.result = some res ∧ res ≠ .unbound := by
  intro t r hr
  obtain ⟨th, res, h1, h2, h3, _, _⟩ :=
    every_thread_finishes (retort G .byId fuel evalFuel) reqs σ t r hr (hturns t r hr)
  have hres := no_unbound_call G fuel evalFuel reqs σ t th h1
  exact ⟨th, res, h1, h2, h3, fun h => hres (by rw [h3, h])⟩

/-- the schedule-independent static check of the requested types (see `typed` in the model): the request
    program of every requested type is well-typed.  It holds for the `compile` output of every graph the
    correspondence explores (the driver evaluates it) and is decided by evaluation for concrete graphs. -/
def WellTyped (G : Graph) (fuel : Nat) (reqs : List (TyId × Nat)) : Prop :=
  ∀ r ∈ reqs, typed G (compile G fuel r.1) r.1 = true

/-- the typing invariant holds after any schedule -/
theorem typed_inv (G : Graph) (fuel evalFuel : Nat) (reqs : List (TyId × Nat)) (hwt : WellTyped G fuel reqs)
    (σ : List Tid) :
    TInv G (retort G .byId fuel evalFuel) (run (retort G .byId fuel evalFuel) (init reqs) σ) :=
  run_tinv (sys := retort G .byId fuel evalFuel) rfl (fun _ => rfl) σ
    (init_inv _ reqs (fun r _ => compile_balanced G fuel r.1)) (tinit_inv G _ reqs hwt)

/-- **Every result is the specified one, at any moment of any schedule** (requests that cannot be satisfied
    included): whenever a thread has an outcome, it is `specRes` of its request, read off the type graph alone -
    ProviderNotFoundError for a type nobody can load, otherwise the unfolding of the type along the datum. -/
theorem every_result_is_the_specified_one (G : Graph) (fuel evalFuel : Nat) (reqs : List (TyId × Nat))
    (hwt : WellTyped G fuel reqs) (σ : List Tid) (t : Tid) (th : Thread) (res : Res)
    (h : (run (retort G .byId fuel evalFuel) (init reqs) σ).threads[t]? = some th)
    (hres : th.result = some res) : res = specRes G evalFuel th.depth th.ty :=
  ((typed_inv G fuel evalFuel reqs hwt σ).threads t th h).res res hres

/-- **Every result is the specified one, at any moment of any schedule**: whenever a call has returned, it has
    returned the unfolding of its type along the datum (`unfold`, read off the type graph alone) — in particular
    never an error, and independent of who created which closure — also when OTHER threads issue requests that
    fail.  (`hok`: the request of this thread is one that can be satisfied; the former static check implied it.) -/
theorem every_result_is_the_unfolding (G : Graph) (fuel evalFuel : Nat) (reqs : List (TyId × Nat))
    (hwt : WellTyped G fuel reqs) (σ : List Tid) (t : Tid) (th : Thread) (res : Res)
    (h : (run (retort G .byId fuel evalFuel) (init reqs) σ).threads[t]? = some th)
    (hok : failsTy G th.ty = false)
    (hres : th.result = some res) : res = unfold G evalFuel th.depth th.ty := by
  rw [← specRes_ok hok]
  exact every_result_is_the_specified_one G fuel evalFuel reqs hwt σ t th res h hres

/-- **A request nobody can satisfy ends with ProviderNotFoundError under every interleaving**, exactly as it does
    single-threaded, whatever the other threads are doing at the time. -/
theorem failing_request_gets_not_found (G : Graph) (fuel evalFuel : Nat) (reqs : List (TyId × Nat))
    (hwt : WellTyped G fuel reqs) (σ : List Tid) (t : Tid) (th : Thread) (res : Res)
    (h : (run (retort G .byId fuel evalFuel) (init reqs) σ).threads[t]? = some th)
    (hfail : failsTy G th.ty = true)
    (hres : th.result = some res) : res = .notFound := by
  have := every_result_is_the_specified_one G fuel evalFuel reqs hwt σ t th res h hres
  simpa [specRes, hfail] using this

/-- **Every cached loader is the correct loader of its type, at any moment of any schedule and for every later
    call**: whatever is in the loader cache after any schedule - put there by whichever thread won the race,
    built from sub-loaders that other threads created, self-referencing through recursion stubs - computes, on
    data of ANY depth `d` and with any fuel `n`, exactly the unfolding of the type it is cached for (the value
    the type graph alone specifies; never `unbound`).  This is the full-strength form of
    `cached_loaders_stay_callable` under the static check. -/
theorem cached_loaders_compute_the_unfolding (G : Graph) (fuel evalFuel : Nat) (reqs : List (TyId × Nat))
    (hwt : WellTyped G fuel reqs) (σ : List Tid) (e : TyId × Ref) (n d : Nat)
    (h : e ∈ (run (retort G .byId fuel evalFuel) (init reqs) σ).loaderCache) :
    eval (run (retort G .byId fuel evalFuel) (init reqs) σ).heap
         (run (retort G .byId fuel evalFuel) (init reqs) σ).stubs n d e.2 = unfold G n d e.1 :=
  eval_unfold (safe_inv G fuel evalFuel reqs σ) (typed_inv G fuel evalFuel reqs hwt σ) n d e.2 e.1
    ((safe_inv G fuel evalFuel reqs σ).lc e h) ((typed_inv G fuel evalFuel reqs hwt σ).lc e h).1

/-- results of a complete schedule -/
theorem complete_results (G : Graph) (fuel evalFuel : Nat) (reqs : List (TyId × Nat))
    (hwt : WellTyped G fuel reqs) (σ : List Tid)
    (hturns : ∀ (t : Tid) (r : TyId × Nat), reqs[t]? = some r →
      stepBound (retort G .byId fuel evalFuel) r.1 ≤ σ.count t) :
    results (run (retort G .byId fuel evalFuel) (init reqs) σ) =
      reqs.map (fun r => some (specRes G evalFuel r.2 r.1)) := by
  apply List.ext_getElem?
  intro t
  simp only [results, List.getElem?_map]
  cases hr : reqs[t]? with
  | none =>
    have : (init reqs).threads[t]? = none := by simp [init, hr]
    rw [run_none _ t σ this]
    rfl
  | some r =>
    obtain ⟨th, res, h1, _, h3, h4, h5⟩ :=
      every_thread_finishes (retort G .byId fuel evalFuel) reqs σ t r hr (hturns t r hr)
    have := every_result_is_the_specified_one G fuel evalFuel reqs hwt σ t th res h1 h3
    rw [h1]
    simp only [Option.map_some, h3, this, h4, h5]

/-- **all_schedules_safe.**  For ANY number of threads, any type graph whose requested request programs pass the
    static check, and ANY interleaving `σ` of the threads' atomic actions in which every thread gets enough turns
    (unbounded: no bound on threads, preemptions or length): the run completes, no call meets an unbound stub,
    and the results are exactly the results of the **sequential** run (the threads one after another on the same
    shared retort) — both are `specRes`: the unfolding of each requested type, ProviderNotFoundError for a
    requested type nobody can load. -/
theorem all_schedules_safe (G : Graph) (fuel evalFuel : Nat) (reqs : List (TyId × Nat))
    (hwt : WellTyped G fuel reqs) (σ : List Tid)
    (hturns : ∀ (t : Tid) (r : TyId × Nat), reqs[t]? = some r →
      stepBound (retort G .byId fuel evalFuel) r.1 ≤ σ.count t) :
    allDone (run (retort G .byId fuel evalFuel) (init reqs) σ) = true ∧
    (∀ res ∈ results (run (retort G .byId fuel evalFuel) (init reqs) σ), res ≠ some .unbound) ∧
    results (run (retort G .byId fuel evalFuel) (init reqs) σ) =
      results (run (retort G .byId fuel evalFuel) (init reqs)
        (sequentialSchedule reqs.length (seqBound (retort G .byId fuel evalFuel) reqs))) := by
  refine ⟨?_, ?_, ?_⟩
  · simp only [allDone, List.all_eq_true]
    intro th hth
    obtain ⟨t, hlt, hget⟩ := List.getElem_of_mem hth
    have hth' : (run (retort G .byId fuel evalFuel) (init reqs) σ).threads[t]? = some th := by
      rw [List.getElem?_eq_getElem hlt, hget]
    cases hr : reqs[t]? with
    | none =>
      have : (init reqs).threads[t]? = none := by simp [init, hr]
      rw [run_none _ t σ this] at hth'
      cases hth'
    | some r =>
      obtain ⟨th2, _, h1, h2, _⟩ :=
        every_thread_finishes (retort G .byId fuel evalFuel) reqs σ t r hr (hturns t r hr)
      rw [hth'] at h1
      cases h1
      simp [h2]
  · intro res hres hu
    simp only [results] at hres
    obtain ⟨th, hth, hthr⟩ := List.mem_map.mp hres
    obtain ⟨t, hlt, hget⟩ := List.getElem_of_mem hth
    have hth' : (run (retort G .byId fuel evalFuel) (init reqs) σ).threads[t]? = some th := by
      rw [List.getElem?_eq_getElem hlt, hget]
    exact no_unbound_call G fuel evalFuel reqs σ t th hth' (by rw [hthr, hu])
  · rw [complete_results G fuel evalFuel reqs hwt σ hturns]
    symm
    apply complete_results G fuel evalFuel reqs hwt
    intro t r hr
    have hlt : t < reqs.length := by
      rcases Nat.lt_or_ge t reqs.length with h | h
      · exact h
      · rw [List.getElem?_eq_none h] at hr; cases hr
    rw [count_sequentialSchedule hlt]
    exact le_seqBound _ reqs r (List.mem_of_getElem? hr)

/-- **The call may be atomic in the model.**  Closures are immutable and stub targets only change from unbound
    to bound (`Ext`; that every action and hence every continuation of a schedule establishes it is
    `every_continuation_extends` below: an action appends to the heap or the stub table, or binds an unbound
    stub of the acting request), so a call that succeeds on the state at its start returns the same value on
    every later state: a real call that reads the stubs later, one at a time, cannot see anything else. -/
theorem successful_call_is_stable (s s' : State) (e : Ext s s') (n d : Nat) (r : Ref) (o : List Nat)
    (h : eval s.heap s.stubs n d r = .ok o) : eval s'.heap s'.stubs n d r = .ok o :=
  eval_ok_stable e n d r o h

/-- `run` over a concatenated schedule -/
theorem run_append (sys : Sys) (σ σ' : List Tid) : ∀ s : State, run sys s (σ ++ σ') = run sys (run sys s σ) σ' := by
  induction σ with
  | nil => intro s; rfl
  | cons t σ ih => intro s; exact ih (step sys s t)

/-- **The premise of `successful_call_is_stable` holds along every run**: whatever the threads do after a
    reachable state (any continuation `σ'` of any schedule `σ`), the later state extends the earlier one - the
    heap has only grown, every stub keeps its location and owner, a bound stub is still bound to the same
    target, completed requests are still completed.  (Under `Inv`: it is the invariant that guarantees that
    `set_func` only ever hits a stub that is still unbound.) -/
theorem every_continuation_extends (G : Graph) (fuel evalFuel : Nat) (reqs : List (TyId × Nat)) (σ σ' : List Tid) :
    Ext (run (retort G .byId fuel evalFuel) (init reqs) σ) (run (retort G .byId fuel evalFuel) (init reqs) (σ ++ σ')) := by
  rw [run_append]
  exact run_ext (sys := retort G .byId fuel evalFuel) rfl σ' (safe_inv G fuel evalFuel reqs σ)

/-- **A value a loader returns is returned at every later moment of the run**: if calling any reference `r`
    (a cached loader, a loader just handed to a caller, any sub-loader) on data of any depth succeeds in the
    state reached by a schedule `σ`, it returns the same value in the state reached by any continuation
    `σ ++ σ'`, whatever the other threads have done in between.  Together with `every_result_is_the_unfolding`
    this is "loaders obtained concurrently stay correct for later calls". -/
theorem returned_value_is_stable (G : Graph) (fuel evalFuel : Nat) (reqs : List (TyId × Nat)) (σ σ' : List Tid)
    (n d : Nat) (r : Ref) (o : List Nat)
    (h : eval (run (retort G .byId fuel evalFuel) (init reqs) σ).heap
              (run (retort G .byId fuel evalFuel) (init reqs) σ).stubs n d r = .ok o) :
    eval (run (retort G .byId fuel evalFuel) (init reqs) (σ ++ σ')).heap
         (run (retort G .byId fuel evalFuel) (init reqs) (σ ++ σ')).stubs n d r = .ok o :=
  successful_call_is_stable _ _ (every_continuation_extends G fuel evalFuel reqs σ σ') n d r o h

/-- **The turn hypothesis `hturns` of `all_schedules_safe(_partial)` / `complete_results` is satisfiable** for
    every system and every list of requests: the sequential schedule gives every thread enough turns.  (It is a
    fairness condition: any schedule with at least as many occurrences of every thread satisfies it too - see
    the interleaved witness below.) -/
theorem enough_turns_witness (sys : Sys) (reqs : List (TyId × Nat)) :
    ∀ (t : Tid) (r : TyId × Nat), reqs[t]? = some r →
      stepBound sys r.1 ≤ (sequentialSchedule reqs.length (seqBound sys reqs)).count t := by
  intro t r hr
  have hlt : t < reqs.length := by
    rcases Nat.lt_or_ge t reqs.length with h | h
    · exact h
    · rw [List.getElem?_eq_none h] at hr; cases hr
  rw [count_sequentialSchedule hlt]
  exact le_seqBound _ reqs r (List.mem_of_getElem? hr)

/-! ### the shared caches are insert-only; a request that fails does not disturb the others -/

/-- **The call cache is an insert-only map under every interleaving**: a key that is in `_call_cache` after a
    schedule `σ` is in it after every continuation `σ ++ σ'` - whatever the threads do in `σ'`, including whole
    requests that fail with ProviderNotFoundError.  (Any system, any request programs; stubs compared by identity.) -/
theorem call_cache_insert_only (sys : Sys) (hmode : sys.mode = .byId) (reqs : List (TyId × Nat))
    (σ σ' : List Tid) (k : Key)
    (h : ccHas .byId (run sys (init reqs) σ).stubs (run sys (init reqs) σ).callCache k = true) :
    ccHas .byId (run sys (init reqs) (σ ++ σ')).stubs (run sys (init reqs) (σ ++ σ')).callCache k = true := by
  rw [run_append]
  exact run_ccHas hmode k σ' _ h

/-- the same for the loader cache (both comparison modes) -/
theorem loader_cache_insert_only (sys : Sys) (reqs : List (TyId × Nat)) (σ σ' : List Tid) (ty : TyId)
    (h : lcHas (run sys (init reqs) σ).loaderCache ty = true) :
    lcHas (run sys (init reqs) (σ ++ σ')).loaderCache ty = true := by
  rw [run_append]
  exact run_lcHas sys ty σ' _ h

/-- **`cached_call`'s read after the check never raises KeyError**: at any moment of any schedule, a thread that
    has executed `if key in self._call_cache` (found) and is about to execute `return self._call_cache[key]`
    finds the entry - no matter how many actions of other threads, or whole failing requests, lie in between. -/
theorem cached_call_read_never_misses (sys : Sys) (hmode : sys.mode = .byId) (reqs : List (TyId × Nat))
    (σ : List Tid) (t : Tid) (th : Thread) (pc : Nat) (k : Key)
    (h : (run sys (init reqs) σ).threads[t]? = some th) (hp : th.phase = .run pc .get)
    (hk : keyAt sys th pc = some k) :
    ∃ v, ccLookup sys.mode (run sys (init reqs) σ).stubs (run sys (init reqs) σ).callCache k = some v := by
  have := run_getOk hmode σ (init_getOk sys reqs) t th pc k h hp hk
  rw [← ccLookup_isSome] at this
  exact Option.isSome_iff_exists.mp this

/-- **The failure of a request touches nothing shared**: `_facade_provide` raising ProviderNotFoundError leaves
    the closure heap, the stubs, the call cache and the loader cache exactly as they are. -/
theorem failing_request_leaves_the_caches_alone (s : State) (t : Tid) (th : Thread) :
    (stepRaise s t th).heap = s.heap ∧ (stepRaise s t th).stubs = s.stubs ∧
    (stepRaise s t th).callCache = s.callCache ∧ (stepRaise s t th).loaderCache = s.loaderCache :=
  ⟨rfl, rfl, rfl, rfl⟩

/-- `@dataclass class Twin: a: int; b: int` (ty 1; the loader of `int`, ty 2, is a call-cache HIT for field `b`)
    and a type nobody can load (ty 3, e.g. `Callable[[int], int]`: all seven shape providers are probed through
    `cached_call` and raise) - the graphs the harness builds for the scenario `mix:load:Twin:0|load:Unloadable:0`. -/
def twinG : Graph where
  node := fun ty =>
    match ty with
    | 1 => { site := 10, kind := .fresh false, pre := [(1, 1000, .fail), (2, 1000, .fail), (3, 1000, .aux)],
             children := [1, 2] }
    | 2 => { site := 16, kind := .prim 1, pre := [], children := [] }
    | 3 => { site := 7, kind := .fail,
             pre := [(1, 1001, .fail), (2, 1001, .fail), (3, 1001, .fail), (4, 1001, .fail), (5, 1001, .fail),
                     (6, 1001, .fail)], children := [] }
    | _ => default
  locTy := fun l => match l with | 1 => 2 | 2 => 2 | 3 => 1 | 4 => 2 | 5 => 3 | _ => 0
  topLoc := fun ty => match ty with | 1 => 3 | 2 => 4 | 3 => 5 | _ => 0

/-- thread 0 (`Twin`) runs until it has seen the `int` loader in the call cache and is about to read it; thread 1
    issues its whole failing request; thread 0 goes on.  One preemption - the window of the check-then-read. -/
def failInsideWindow : List Tid := List.replicate 8 0 ++ List.replicate 9 1 ++ List.replicate 6 0

/-- non-vacuity of `cached_call_read_never_misses` / `failing_request_gets_not_found`: thread 0 really sits
    between the check and the read when thread 1 fails; the static check holds; and the outcome is the
    single-threaded one: the loader result for `Twin`, ProviderNotFoundError for the other thread -/
example :
    ((run (retort twinG .byId 12 16) (init [(1, 0), (3, 0)]) (List.replicate 8 0)).threads[0]?.map (·.phase)) =
      some (.run 4 .get) ∧
    WellTyped twinG 12 [(1, 0), (3, 0)] ∧
    results (run (retort twinG .byId 12 16) (init [(1, 0), (3, 0)]) failInsideWindow) =
      [some (unfold twinG 16 0 1), some .notFound] ∧
    unfold twinG 16 0 1 = .ok [2, 2, 2, 0] ∧
    allDone (run (retort twinG .byId 12 16) (init [(1, 0), (3, 0)]) failInsideWindow) = true := by
  refine ⟨by decide +kernel, ?_, by decide +kernel, by decide +kernel, by decide +kernel⟩
  intro r hr
  simp only [List.mem_cons, List.mem_nil_iff, or_false] at hr
  rcases hr with h | h <;> subst h <;> decide +kernel

/-! ### the unrepaired tree: stubs equal by location -/

/-- `@dataclass class Chain: next: Optional["Chain"] = None` as the providers see it (this is the graph the
    harness builds for the scenario `chain-self-recursive`; sites: 1,2 = the shape providers of the other model
    kinds (they raise), 3 = the dataclass shape provider, 10 = ModelLoaderProvider._make_loader,
    12 = UnionProvider._single_optional_dt_loader; locations: 4 = TypeHintLoc(Chain),
    3 = InputFieldLoc(next: Optional[Chain]), 1 = GenericParamLoc(Chain, 0)). -/
def chainG : Graph where
  node := fun ty =>
    match ty with
    | 1 => { site := 10, kind := .fresh false, pre := [(1, 1000, .fail), (2, 1000, .fail), (3, 1000, .aux)],
             children := [3] }
    | 2 => { site := 12, kind := .fresh true, pre := [], children := [1] }
    | _ => default
  locTy := fun l => match l with | 1 => 1 | 2 => 2 | 3 => 2 | 4 => 1 | _ => 0
  topLoc := fun ty => match ty with | 1 => 4 | 2 => 2 | _ => 0

/-- thread 0 runs until it has stored the inner model loader (which captures its unbound stub) and the Optional
    loader in the call cache; thread 1 runs its whole `load` (it is served thread 0's closures because its own
    stub is *equal by location*) and calls the result; thread 0 finishes.  One preemption. -/
def badSchedule : List Tid := List.replicate 14 0 ++ List.replicate 19 1 ++ List.replicate 5 0

/-- **exists_bad_schedule.**  With stubs compared by location (the unrepaired `FuncWrapper.__eq__`), the faithful
    model has a 2-thread schedule with a single preemption in which a perfectly valid `load` calls an unbound
    stub ("'NoneType' object is not callable").  The harness replays this very schedule on the real retort
    (scenario `chain-self-recursive`) and observes the same action trace and the same failure.  Hence the
    full-strength `no_unbound_call` is FALSE for `Mode.byLoc`. -/
theorem exists_bad_schedule :
    ∃ σ : List Tid, ∃ th : Thread, (run (retort chainG .byLoc 12 16) (init [(1, 3), (1, 3)]) σ).threads[1]? = some th ∧
      th.result = some .unbound := by
  refine ⟨badSchedule, ?_⟩
  decide +kernel

/-- the same schedule is harmless once stubs are compared by identity (an instance of `no_unbound_call`; here by
    evaluation, together with the exact results: both threads get the unfolding of `Chain` to depth 3) -/
example :
    (results (run (retort chainG .byId 12 16) (init [(1, 3), (1, 3)]) badSchedule)) =
      [some (unfold chainG 16 3 1), some (unfold chainG 16 3 1)] := by
  decide +kernel

/-- the hypothesis of `all_schedules_safe` holds for the chain graph (and the loader of `Optional[Chain]`) -/
example : WellTyped chainG 12 [(1, 3), (2, 5), (1, 0)] := by
  intro r hr
  simp only [List.mem_cons, List.mem_nil_iff, or_false] at hr
  rcases hr with h | h | h <;> subst h <;> decide +kernel

/-- non-vacuity of `every_thread_finishes`: the bound is reached by a real run -/
example : allDone (run (retort chainG .byId 12 16) (init [(1, 3), (1, 3)]) badSchedule) = true := by
  decide +kernel

/-- strict alternation of two threads, 40 turns each -/
def roundRobin : List Tid := (List.replicate 40 [0, 1]).flatten

/-- **all hypotheses of `all_schedules_safe` hold together** on a non-degenerate instance: two threads racing on
    the first request for the self-recursive `Chain`, a preemption after EVERY atomic action (`roundRobin`), the
    static check `WellTyped` and the turn condition `hturns` - and the theorem then yields the concrete results -/
example :
    results (run (retort chainG .byId 12 16) (init [(1, 3), (1, 3)]) roundRobin) =
      results (run (retort chainG .byId 12 16) (init [(1, 3), (1, 3)])
        (sequentialSchedule 2 (seqBound (retort chainG .byId 12 16) [(1, 3), (1, 3)]))) := by
  have hwt : WellTyped chainG 12 [(1, 3), (1, 3)] := by
    intro r hr
    simp only [List.mem_cons, List.mem_nil_iff, or_false, or_self] at hr
    subst hr; decide +kernel
  have hb : stepBound (retort chainG .byId 12 16) 1 ≤ roundRobin.count 0 ∧
      stepBound (retort chainG .byId 12 16) 1 ≤ roundRobin.count 1 := by decide +kernel
  have hturns : ∀ (t : Tid) (r : TyId × Nat), [((1 : TyId), (3 : Nat)), (1, 3)][t]? = some r →
      stepBound (retort chainG .byId 12 16) r.1 ≤ roundRobin.count t := by
    intro t r hr
    match t, hr with
    | 0, hr => simp at hr; subst hr; exact hb.1
    | 1, hr => simp at hr; subst hr; exact hb.2
    | t + 2, hr => simp at hr
  exact (all_schedules_safe chainG 12 16 [(1, 3), (1, 3)] hwt roundRobin hturns).2.2

/-- ... and the results are the non-degenerate ones (both threads load `Chain` to depth 3), the two threads
    really interleave (thread 1 acts while thread 0 is in the middle of its request) -/
example :
    results (run (retort chainG .byId 12 16) (init [(1, 3), (1, 3)]) roundRobin) =
      [some (unfold chainG 16 3 1), some (unfold chainG 16 3 1)] ∧
    unfold chainG 16 3 1 = .ok [2, 3, 2, 3, 2, 3, 2, 3, 0, 0, 0, 0, 0, 0, 0] := by
  decide +kernel

/-- non-vacuity of `returned_value_is_stable`: after the 14 first actions of thread 0 the call cache holds the
    (still unsealed) model loader, after the whole bad schedule the loader cache holds a loader whose call
    succeeds - and it is the same value after any continuation -/
example :
    let s := run (retort chainG .byId 12 16) (init [(1, 3), (1, 3)]) badSchedule
    s.loaderCache.length = 1 ∧ s.heap.length ≥ 2 ∧ s.stubs.length ≥ 1 ∧
      ∀ e ∈ s.loaderCache, eval s.heap s.stubs 16 3 e.2 = unfold chainG 16 3 1 := by
  decide +kernel

end Adaptix.Threads.C12
