/-
  C12 — A shared retort is safe under concurrent first use.
  Property theorems only; helper lemmas live in `AdaptixProofs/Lemmas/Threads*.lean`.

  Model: `AdaptixModel/Retort/Threads.lean` — any number of threads, each performing `retort.load(data, tp)`
  (`get_loader` + call) on one shared retort; `step sys s t` is one GIL-atomic action of thread `t`; a schedule
  is an arbitrary `List Tid`.  `Mode.byId` is the repaired `FuncWrapper` (stubs compared by identity,
  fixes/C12-stub-identity.patch), `Mode.byLoc` the unrepaired one (stubs equal when their locations are equal).
-/
import AdaptixModel.Retort.Threads
import AdaptixProofs.Lemmas.ThreadsInv
import AdaptixProofs.Lemmas.ThreadsProgress
import AdaptixProofs.Lemmas.ThreadsCompile

namespace Adaptix.Threads.C12

open Adaptix.Threads

/-- the retort of a type graph `G`: request programs are what `compile` produces -/
def retort (G : Graph) (mode : Mode) (fuel evalFuel : Nat) : Sys :=
  { mode := mode, body := compile G fuel, fuel := evalFuel }

/-! ### the repaired tree: stubs compared by identity -/

/-- **safe_inv.**  The invariant "a request only ever holds references that it owns or that are stub-free; the
    loader cache and every `call` only see references all of whose reachable stubs belong to completed requests;
    a completed request has bound all its stubs" (`Inv`, see `Lemmas/Threads.lean`) holds initially and is
    preserved by every atomic action of every thread: it holds after ANY schedule, for any number of threads,
    any type graph (self-recursive, mutually recursive, shared sub-types …) and any requested types. -/
theorem safe_inv (G : Graph) (fuel evalFuel : Nat) (reqs : List (TyId × Nat)) (σ : List Tid) :
    Inv (retort G .byId fuel evalFuel) (run (retort G .byId fuel evalFuel) (init reqs) σ) :=
  run_inv (sys := retort G .byId fuel evalFuel) rfl σ
    (init_inv _ reqs (fun r _ => compile_balanced G fuel r.1))

/-- **No call ever meets an unbound stub**, whatever the interleaving: the outcome
    "'NoneType' object is not callable" (`Res.unbound`) is unreachable. -/
theorem no_unbound_call (G : Graph) (fuel evalFuel : Nat) (reqs : List (TyId × Nat)) (σ : List Tid)
    (t : Tid) (th : Thread)
    (h : (run (retort G .byId fuel evalFuel) (init reqs) σ).threads[t]? = some th) :
    th.result ≠ some .unbound :=
  ((safe_inv G fuel evalFuel reqs σ).threads t th h).res

/-- **Whatever is in the loader cache can be called at any later time** (loaders obtained concurrently stay
    correct for later calls, including self-referencing loaders of recursive models): after any schedule, calling
    any cached loader on data of any depth with any fuel does not meet an unbound stub. -/
theorem cached_loaders_stay_callable (G : Graph) (fuel evalFuel : Nat) (reqs : List (TyId × Nat))
    (σ : List Tid) (e : TyId × Ref) (n d : Nat)
    (h : e ∈ (run (retort G .byId fuel evalFuel) (init reqs) σ).loaderCache) :
    eval (run (retort G .byId fuel evalFuel) (init reqs) σ).heap
         (run (retort G .byId fuel evalFuel) (init reqs) σ).stubs n d e.2 ≠ .unbound :=
  sealed_eval (safe_inv G fuel evalFuel reqs σ) n d e.2 ((safe_inv G fuel evalFuel reqs σ).lc e h)

/-- **No deadlock, no starvation by others** (holds for both comparison modes): a thread that gets
    `stepBound` turns in a schedule is finished at its end, whatever the other threads do in between.
    There is no blocking action: the only lock of the code (`ConcurrentCounter._lock`) guards the straight-line
    `idx = d[name]; d[name] += 1`, which is part of one atomic action of the model. -/
theorem every_thread_finishes (sys : Sys) (reqs : List (TyId × Nat)) (σ : List Tid) (t : Tid) (r : TyId × Nat)
    (hr : reqs[t]? = some r) (hturns : stepBound sys r.1 ≤ σ.count t) :
    ∃ (th : Thread) (res : Res), (run sys (init reqs) σ).threads[t]? = some th ∧ th.phase = .done ∧ th.result = some res ∧
      th.ty = r.1 ∧ th.depth = r.2 := by
  have hth : (init reqs).threads[t]? = some (mkThread r.1 r.2) := by simp [init, hr]
  obtain ⟨th', h1, h2, h2', h3, h4⟩ := run_measure sys t σ hth (by simp [mkThread])
  have hdone : th'.phase = .done := by
    refine measure_zero_done (sys := sys) ?_
    have hb := measure_le_bound sys (mkThread r.1 r.2)
    have hty : (mkThread r.1 r.2).ty = r.1 := rfl
    rw [hty] at hb
    omega
  have hsome := h4 hdone
  cases hres : th'.result with
  | none => rw [hres] at hsome; cases hsome
  | some res => exact ⟨th', res, h1, hdone, hres, h2, h2'⟩

/-- **all_schedules_safe (partial).**  For any number of threads, any type graph and ANY schedule in which every
    thread gets enough turns: the run completes (every thread is `done`) and every call has produced a result that
    is not the unbound-stub failure.
    Full-strength statement (additionally: every result equals the result of the sequential run,
    `results (run σ) = results (run (sequentialSchedule …))`) is `all_schedules_safe` below, which needs the
    typing invariant of `Lemmas/ThreadsTyped.lean`. -/
theorem all_schedules_safe_partial (G : Graph) (fuel evalFuel : Nat) (reqs : List (TyId × Nat)) (σ : List Tid)
    (hturns : ∀ (t : Tid) (r : TyId × Nat), reqs[t]? = some r →
      stepBound (retort G .byId fuel evalFuel) r.1 ≤ σ.count t) :
    ∀ (t : Tid) (r : TyId × Nat), reqs[t]? = some r →
      ∃ (th : Thread) (res : Res), (run (retort G .byId fuel evalFuel) (init reqs) σ).threads[t]? = some th ∧
        th.phase = .done ∧ th.result = some res ∧ res ≠ .unbound := by
  intro t r hr
  obtain ⟨th, res, h1, h2, h3, _, _⟩ :=
    every_thread_finishes (retort G .byId fuel evalFuel) reqs σ t r hr (hturns t r hr)
  have hres := no_unbound_call G fuel evalFuel reqs σ t th h1
  exact ⟨th, res, h1, h2, h3, fun h => hres (by rw [h3, h])⟩

/-! ### the unrepaired tree: stubs equal by location -/

/-- `@dataclass class Chain: next: Optional["Chain"] = None` as the providers see it (this is the graph the
    harness builds for the scenario `chain-self-recursive`; sites: 1,2 = the shape providers of the other model
    kinds (they raise), 3 = the dataclass shape provider, 10 = ModelLoaderProvider._make_loader,
    12 = UnionProvider._single_optional_dt_loader; locations: 4 = TypeHintLoc(Chain),
    3 = InputFieldLoc(next: Optional[Chain]), 1 = GenericParamLoc(Chain, 0)). -/
def chainG : Graph where
  node := fun ty =>
    match ty with
    | 1 => { site := 10, kind := .fresh false, pre := [(1, 1000, .fail), (2, 1000, .fail), (3, 1000, .aux)],
             children := [3] }
    | 2 => { site := 12, kind := .fresh true, pre := [], children := [1] }
    | _ => default
  locTy := fun l => match l with | 1 => 1 | 2 => 2 | 3 => 2 | 4 => 1 | _ => 0
  topLoc := fun ty => match ty with | 1 => 4 | 2 => 2 | _ => 0

/-- thread 0 runs until it has stored the inner model loader (which captures its unbound stub) and the Optional
    loader in the call cache; thread 1 runs its whole `load` (it is served thread 0's closures because its own
    stub is *equal by location*) and calls the result; thread 0 finishes.  One preemption. -/
def badSchedule : List Tid := List.replicate 14 0 ++ List.replicate 19 1 ++ List.replicate 5 0

/-- **exists_bad_schedule.**  With stubs compared by location (the unrepaired `FuncWrapper.__eq__`), the faithful
    model has a 2-thread schedule with a single preemption in which a perfectly valid `load` calls an unbound
    stub ("'NoneType' object is not callable").  The harness replays this very schedule on the real retort
    (scenario `chain-self-recursive`) and observes the same action trace and the same failure.  Hence the
    full-strength `no_unbound_call` is FALSE for `Mode.byLoc`. -/
theorem exists_bad_schedule :
    ∃ σ : List Tid, ∃ th : Thread, (run (retort chainG .byLoc 12 16) (init [(1, 3), (1, 3)]) σ).threads[1]? = some th ∧
      th.result = some .unbound := by
  refine ⟨badSchedule, ?_⟩
  decide +kernel

/-- the same schedule is harmless once stubs are compared by identity (an instance of `no_unbound_call`; here by
    evaluation, together with the exact results: both threads get the unfolding of `Chain` to depth 3) -/
example :
    (results (run (retort chainG .byId 12 16) (init [(1, 3), (1, 3)]) badSchedule)) =
      [some (unfold chainG 16 3 1), some (unfold chainG 16 3 1)] := by
  decide +kernel

/-- non-vacuity of `every_thread_finishes`: the bound is reached by a real run -/
example : allDone (run (retort chainG .byId 12 16) (init [(1, 3), (1, 3)]) badSchedule) = true := by
  decide +kernel

end Adaptix.Threads.C12
