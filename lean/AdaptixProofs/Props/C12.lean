import AdaptixModel.Retort.Threads
namespace Adaptix.Threads.C12
theorem placeholder : True := trivial
end Adaptix.Threads.C12
