/- C03 property theorems (stub while the model is being built) -/
import AdaptixModel.Layout.Crown
namespace Adaptix.Layout.C03
end Adaptix.Layout.C03
