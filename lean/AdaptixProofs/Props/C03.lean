/-
  C03 — Generated model loaders/dumpers honour the configured outer layout exactly.
  Property theorems only; helper lemmas live in `AdaptixProofs/Lemmas/Layout*.lean`.

  Reading guide.  The model (AdaptixModel/Layout) follows the code: overlay merge (`provideSchema`),
  the mapping step (`mapField`), validation and gap filling (`makeStructure`), the crown builder
  (`buildCrown`), and the *semantics of the generated code* (`loadModel`, `dumpModel`) for every
  crown, debug mode, coercion mode and extra policy.  The specification side is independent of
  those algorithms: `pathOf` (the documented rule), `Val.getPath` (plain navigation), the leaves of a
  crown with their paths, `unknownItems` (items of a dict datum whose key the node does not know).
-/
import AdaptixProofs.Lemmas.LayoutOverlay
import AdaptixProofs.Lemmas.LayoutLoadPaths
import AdaptixProofs.Lemmas.LayoutDump
import AdaptixProofs.Lemmas.LayoutRoundTrip
import AdaptixProofs.Lemmas.LayoutPlacement
import AdaptixProofs.Lemmas.LayoutDumpExtra
import AdaptixProofs.Lemmas.LayoutWitness
import AdaptixModel.Layout.LocPred
import AdaptixProofs.Props.C10

namespace Adaptix.Layout.C03

open Adaptix.Layout
open Adaptix.Layout.Witness

/-! Non-vacuity.  Every theorem with hypotheses is followed by a `…_witness` theorem or an `example` that
    *applies it* to the concrete programs of `Lemmas/LayoutWitness.lean` (five fields, a nested path, two list
    gaps, a skipped field, an omitted default, non-identity field codecs), with every hypothesis discharged —
    so the hypotheses are satisfiable together on non-degenerate data.  In particular `wInp_ok` / `wOut_ok`
    *prove* that the provider model returns a layout for that program (the hypothesis of the end-to-end
    theorems), and `wOut_wf` that the built output crown is well formed. -/

/-! ## 1. Which path the rules assign to a field -/

/-- **The mapping step of the code is the documented rule**: for every schema, name-style
    function, shape and field, `_map_fields` yields exactly the path `pathOf` prescribes
    (extra targets are left out; `None` = not presented). -/
theorem code_path_is_documented_path (dir : Dir) (sch : Schema) (style : Style → String → String)
    (fields : List Field) (targets : List String) :
    mapFields dir sch style fields targets =
      (fields.filter fun f => !targets.contains f.id).map fun f => (f, pathOf dir sch style fields targets f) := by
  unfold mapFields
  apply List.map_congr_left
  intro f hf
  have : targets.contains f.id = false := by
    simpa using (List.mem_filter.mp hf).2
  rw [mapField_eq_pathOf dir sch style fields targets f this]

/-- **map > name_style / trim_trailing_underscore / as_list**: when the first matching `map` entry
    gives a path without `...`, the path does not depend on the style, the trim flag, the as_list
    flag or the style conversion function at all. -/
theorem map_over_style (dir : Dir) (sch : Schema) (style style' : Style → String → String)
    (fields : List Field) (targets : List String) (f : Field) (raw : List RawKey)
    (st' : Option Style) (trim' asList' : Bool)
    (hmap : lookupMap dir f sch.map = some (some raw)) (hraw : ∀ r ∈ raw, r ≠ RawKey.ellipsis) :
    pathOf dir sch style fields targets f =
      pathOf dir { sch with style := st', trim := trim', asList := asList' } style' fields targets f := by
  unfold pathOf
  rw [lookupMap_eq_head] at hmap
  simp only [hmap]
  split
  · rfl
  · split
    · rfl
    · split
      · rfl
      · simp only [Option.some.injEq]
        apply List.map_congr_left
        intro r hr
        cases r with
        | ellipsis => exact absurd rfl (hraw _ hr)
        | key k => rfl

/-- witness: `a ↦ ("x", 1)` keeps its path under another style, trim flag, as_list flag and style function -/
example : pathOf .inp wSch wStyle wFields [] { id := "a" } = some [.s "x", .i 1] ∧
    pathOf .inp wSch wStyle wFields [] { id := "a" } =
      pathOf .inp { wSch with style := some "upper", trim := false, asList := true } (fun _ s => s ++ "!") wFields []
        { id := "a" } :=
  ⟨rfl, map_over_style .inp wSch wStyle (fun _ s => s ++ "!") wFields [] { id := "a" }
    [.key (.s "x"), .key (.i 1)] (some "upper") false true rfl (by decide)⟩

/-- **skip > only**: a field matched by `skip` is not presented, whatever `only` and `map` say. -/
theorem skip_over_only (dir : Dir) (sch : Schema) (style : Style → String → String) (fields : List Field)
    (targets : List String) (f : Field) (hskip : sch.skip f = true) :
    pathOf dir sch style fields targets f = none := by
  unfold pathOf
  simp [hskip]

example : pathOf .inp wSch wStyle wFields [] { id := "secret", required := false } = none :=
  skip_over_only .inp wSch wStyle wFields [] _ rfl

/-- a field not matched by `only` is not presented -/
theorem only_filters (dir : Dir) (sch : Schema) (style : Style → String → String) (fields : List Field)
    (targets : List String) (f : Field) (honly : sch.only f = false) :
    pathOf dir sch style fields targets f = none := by
  unfold pathOf
  simp [honly]

example : pathOf .out { wSch with only := fun f => f.id != "b" } wStyle wFields [] { id := "b" } = none :=
  only_filters .out _ wStyle wFields [] _ rfl

/-- **first matching map entry wins**: entries after the first one that answers are never consulted -/
theorem first_map_entry_wins (dir : Dir) (f : Field) (pre post : List MapEntry) (e : MapEntry) (r : MapResult)
    (hpre : ∀ x ∈ pre, x.apply dir f = none) (he : e.apply dir f = some r) :
    lookupMap dir f (pre ++ e :: post) = some r := by
  induction pre with
  | nil => simp [lookupMap, he]
  | cons x t ih =>
    have hx : x.apply dir f = none := hpre x (by simp)
    simp only [List.cons_append, lookupMap, hx]
    exact ih fun y hy => hpre y (by simp [hy])

/-- witness: two entries that do not answer, then two that do -/
example : lookupMap .inp { id := "b" }
    ([MapEntry.dict [("a", some [.key (.s "A")])], .const (fun f => f.id == "zz") none] ++
      MapEntry.const (fun f => f.id == "b") (some [.key (.s "B1")]) ::
      [.dict [("b", some [.key (.s "B2")])]]) = some (some [.key (.s "B1")]) :=
  first_map_entry_wins .inp _ _ _ _ _ (by intro x hx; simp at hx; rcases hx with rfl | rfl <;> rfl) rfl

/-- a `None` map result skips the field even if `only` matches it -/
theorem map_none_skips (dir : Dir) (sch : Schema) (style : Style → String → String) (fields : List Field)
    (targets : List String) (f : Field) (hmap : lookupMap dir f sch.map = some none) :
    pathOf dir sch style fields targets f = none := by
  unfold pathOf
  rw [lookupMap_eq_head] at hmap
  simp only [hmap]
  split
  · rfl
  · split
    · rfl
    · split <;> rfl

example : pathOf .out { wSch with map := [.dict [("a", some [.key (.s "A")]), ("b", none)]] } wStyle wFields []
    { id := "b" } = none :=
  map_none_skips .out _ wStyle wFields [] _ rfl

/-! ## 2. Merging of `name_mapping` providers -/

/-- **Earlier providers override later ones** (default `Chain.FIRST`): every parameter the earlier
    provider sets wins; a parameter it omits is taken from the rest of the recipe; `map` entries are
    concatenated with the earlier provider's entries first. -/
theorem earlier_provider_overrides (ov nxt : Overlay) (rest : List OverlayProv)
    (hrest : provideOverlay rest = some nxt) :
    provideOverlay (⟨some .first, ov⟩ :: rest) = some (nxt.merge ov) ∧
    (nxt.merge ov).map = ov.map ++ nxt.map ∧
    (∀ v, ov.trim = some v → (nxt.merge ov).trim = some v) ∧
    (∀ v, ov.style = some v → (nxt.merge ov).style = some v) ∧
    (∀ v, ov.asList = some v → (nxt.merge ov).asList = some v) ∧
    (∀ v, ov.extraIn = some v → (nxt.merge ov).extraIn = some v) ∧
    (∀ v, ov.extraOut = some v → (nxt.merge ov).extraOut = some v) ∧
    (ov.trim = none → (nxt.merge ov).trim = nxt.trim) ∧
    (ov.style = none → (nxt.merge ov).style = nxt.style) ∧
    (ov.asList = none → (nxt.merge ov).asList = nxt.asList) ∧
    (ov.extraIn = none → (nxt.merge ov).extraIn = nxt.extraIn) ∧
    (ov.extraOut = none → (nxt.merge ov).extraOut = nxt.extraOut) := by
  refine ⟨by simp [provideOverlay, hrest], rfl, ?_, ?_, ?_, ?_, ?_, ?_, ?_, ?_, ?_, ?_⟩ <;>
    intros <;> simp_all [Overlay.merge]

/-- witness: two providers that both set `style` and `map`, each setting parameters the other omits -/
example :
    let ovA : Overlay := { style := some (some "camel"), map := [.dict [("a", some [.key (.s "A")])]], extraIn := some .forbid }
    let ovB : Overlay := { style := some none, trim := some true, map := [.dict [("a", some [.key (.s "other")])]],
                           asList := some false }
    provideOverlay [⟨some .first, ovA⟩, ⟨none, ovB⟩] = some (ovB.merge ovA) ∧
      (ovB.merge ovA).style = some (some "camel") ∧ (ovB.merge ovA).trim = some true := by
  intro ovA ovB
  have h := earlier_provider_overrides ovA ovB [⟨none, ovB⟩] rfl
  exact ⟨h.1, h.2.2.2.1 _ rfl, (h.2.2.2.2.2.2.2.1 rfl).trans rfl⟩

/-- the predicates (`skip`, `only`, `omit_default`) follow the same rule -/
theorem earlier_provider_overrides_preds (ov nxt : Overlay) :
    (∀ v, ov.skip = some v → (nxt.merge ov).skip = some v) ∧
    (∀ v, ov.only = some v → (nxt.merge ov).only = some v) ∧
    (∀ v, ov.omitDefault = some v → (nxt.merge ov).omitDefault = some v) ∧
    (ov.skip = none → (nxt.merge ov).skip = nxt.skip) ∧
    (ov.only = none → (nxt.merge ov).only = nxt.only) ∧
    (ov.omitDefault = none → (nxt.merge ov).omitDefault = nxt.omitDefault) := by
  refine ⟨?_, ?_, ?_, ?_, ?_, ?_⟩ <;> intros <;> simp_all [Overlay.merge]

/-- with the concatenated `map` the earlier provider's entries are consulted first -/
theorem earlier_map_entries_first (dir : Dir) (f : Field) (ov nxt : Overlay) :
    lookupMap dir f (nxt.merge ov).map = (lookupMap dir f ov.map).or (lookupMap dir f nxt.map) := by
  simp [Overlay.merge, lookupMap_append]

/-- **The class' own providers override those of its parents** (MRO stacking of `provide_schema`). -/
theorem child_overrides_parent (own : Overlay) (ownProvs parent : List OverlayProv) (pov : Overlay)
    (rest : List (List OverlayProv))
    (_hown : provideOverlay ownProvs = some own) (hparent : provideOverlay parent = some pov) :
    stackParents own (parent :: rest) = stackParents (pov.merge own) rest ∧
    (∀ v, own.style = some v → (pov.merge own).style = some v) ∧
    (∀ v, own.asList = some v → (pov.merge own).asList = some v) ∧
    (∀ v, own.trim = some v → (pov.merge own).trim = some v) ∧
    (∀ v, own.extraIn = some v → (pov.merge own).extraIn = some v) ∧
    (pov.merge own).map = own.map ++ pov.map := by
  refine ⟨by simp [stackParents, hparent], ?_, ?_, ?_, ?_, rfl⟩ <;> intros <;> simp_all [Overlay.merge]

example :
    let own : Overlay := { style := some (some "camel"), extraIn := some .forbid }
    let par : Overlay := { style := some none, trim := some true }
    stackParents own ([⟨none, par⟩] :: []) = par.merge own ∧ (par.merge own).style = some (some "camel") := by
  intro own par
  have h := child_overrides_parent own [⟨none, own⟩] [⟨none, par⟩] par [] rfl rfl
  exact ⟨h.1, h.2.1 _ rfl⟩

/-! ## 3. The crown builder -/

/-- **The input crown has every field at its documented path.**  Whenever the name-layout provider
    produces an input layout (overlay merge → mapping → validation → gap filling → sort / group-by crown
    builder → decoration), then for every path `p` and field id:
    the crown has the field leaf `id` at `p` **iff** some field of the shape with that id has
    `pathOf … = some p` — so presented fields sit exactly at their path, skipped fields and extra targets
    have no leaf, no other field leaf exists — and every remaining leaf is a gap filler whose path ends
    with a list index. -/
theorem crown_places_fields (sch : Schema) (style : Style → String → String) (fields : List Field)
    (l : InpLayout) (h : inputLayout sch style fields = .ok l) :
    (∀ p id, (p, Leaf.field id) ∈ l.crown.leaves ↔
        ∃ f ∈ fields, f.id = id ∧
          pathOf .inp sch style fields (makeInpExtraMove sch.extraIn).targetIds f = some p) ∧
    (∀ p, (p, Leaf.none) ∈ l.crown.leaves → lastIsIndex p = true) := by
  obtain ⟨lv, hlv, hmem⟩ := inputLayout_inv sch style fields l h
  obtain ⟨h1, h2⟩ := makeStructure_mem .inp sch style fields _ lv hlv
  exact ⟨fun p id => by rw [hmem, h1], fun p hp => h2 p ((hmem _).mp hp)⟩

/-- **witness**: the provider model does return a layout for the witness program (`wInp_ok`: nested path,
    two list gaps, trimmed `...` key, a skipped field), and the theorem places `a`, `c_` where the rule says,
    gives the skipped field no leaf, and the gap leaf a list position. -/
theorem crown_places_fields_witness :
    inputLayout wSch wStyle wFields = .ok wInp ∧
    ([.s "x", .i 1], Leaf.field "a") ∈ wInp.crown.leaves ∧ ([.s "y", .s "c"], Leaf.field "c_") ∈ wInp.crown.leaves ∧
    (∀ p, (p, Leaf.field "secret") ∉ wInp.crown.leaves) ∧ lastIsIndex [.s "x", .i 2] = true := by
  have h := crown_places_fields wSch wStyle wFields wInp wInp_ok
  refine ⟨wInp_ok, (h.1 _ _).mpr ⟨{ id := "a" }, by simp [wFields], rfl, rfl⟩,
    (h.1 _ _).mpr ⟨{ id := "c_", required := false, default := some (.int 7) }, by simp [wFields], rfl, rfl⟩, ?_,
    h.2 _ (by simp [wInp, InpCrown.leaves, InpCrown.leaves.goD, InpCrown.leaves.goL])⟩
  intro p hp
  obtain ⟨f, hf, hid, hpath⟩ := (h.1 p "secret").mp hp
  simp only [wFields, List.mem_cons, List.not_mem_nil, or_false] at hf
  rcases hf with rfl | rfl | rfl | rfl | rfl <;> first | (simp at hid; done) | (cases hpath)

/-- the same for the output crown: **the dumper's crown and the loader's crown use the same rule** -/
theorem out_crown_places_fields (sch : Schema) (style : Style → String → String) (fields : List Field)
    (l : OutLayout) (h : outputLayout sch style fields = .ok l) :
    (∀ p id, (p, Leaf.field id) ∈ l.crown.leaves ↔
        ∃ f ∈ fields, f.id = id ∧
          pathOf .out sch style fields (makeOutExtraMove sch.extraOut).targetIds f = some p) ∧
    (∀ p, (p, Leaf.none) ∈ l.crown.leaves → lastIsIndex p = true) := by
  obtain ⟨lv, hlv, hmem⟩ := outputLayout_inv sch style fields l h
  obtain ⟨h1, h2⟩ := makeStructure_mem .out sch style fields _ lv hlv
  exact ⟨fun p id => by rw [hmem, h1], fun p hp => h2 p ((hmem _).mp hp)⟩

theorem out_crown_places_fields_witness :
    outputLayout wSch wStyle wFields = .ok wOut ∧
    ([.s "x", .i 3], Leaf.field "b") ∈ wOut.crown.leaves ∧ ([.s "d"], Leaf.field "d") ∈ wOut.crown.leaves := by
  have h := out_crown_places_fields wSch wStyle wFields wOut wOut_ok
  exact ⟨wOut_ok, (h.1 _ _).mpr ⟨{ id := "b" }, by simp [wFields], rfl, rfl⟩,
    (h.1 _ _).mpr ⟨{ id := "d", required := true, default := some (.int 7) }, by simp [wFields], rfl, rfl⟩⟩

/-! ## 4. The generated loader -/

/-- **The loader takes each field from exactly the path of its leaf.**  For every crown, debug
    mode, coercion mode, extra move, field loaders and datum: if the generated loader reaches the
    constructor call, then for every field leaf at path `q`
    * if the datum has a value `v` at `q`, the constructor receives `loader_f(v)` for that field;
    * if the datum has nothing at `q`, the field is optional and receives its default clause (when it
      has one). -/
theorem loadCrown_reads_exact_path (cfg : LoadCfg) (crown : InpCrown) (data : Val)
    (args : List (String × Val)) (extra : Option Val) (h : loadModel cfg crown data = .ok args extra)
    (q : Path) (id : String) (hleaf : (q, Leaf.field id) ∈ crown.leaves) :
    (∀ v, data.getPath q = some v → ∃ x, cfg.loader id v = .ok x ∧ (id, x) ∈ args) ∧
    (data.getPath q = none → (cfg.field id).required = false ∧
      ∀ dv, (cfg.field id).default = some dv → (id, dv) ∈ args) := by
  obtain ⟨hok, hargs, _⟩ := loadModel_ok cfg crown data args extra h
  have := (specArgs_reads cfg crown data hok q id hleaf).mono []
    (specTargets cfg crown.policy (specExtra crown data) cfg.move.targetIds)
  rw [hargs]
  simpa [ReadsLeaf] using this

/-- **witness** (every debug mode, strict and lax): a present leaf (`a` at `x[1]`, loader `n ↦ n + 1`) and an absent
    optional leaf (`c_` at `y.c`, default 7) of the layout the provider built -/
theorem loadCrown_reads_exact_path_witness (mode : DebugTrail) (strict : Bool) :
    (∃ x, (wLoadCfg mode strict).loader "a" (.int 1) = .ok x ∧ ("a", x) ∈ wArgs) ∧ ("c_", Val.int 7) ∈ wArgs := by
  have ha := loadCrown_reads_exact_path (wLoadCfg mode strict) wInp.crown wData wArgs none (wLoad_ok mode strict)
    [.s "x", .i 1] "a" (by simp [wInp, InpCrown.leaves, InpCrown.leaves.goD, InpCrown.leaves.goL])
  have hc := loadCrown_reads_exact_path (wLoadCfg mode strict) wInp.crown wData wArgs none (wLoad_ok mode strict)
    [.s "y", .s "c"] "c_" (by simp [wInp, InpCrown.leaves, InpCrown.leaves.goD, InpCrown.leaves.goL])
  exact ⟨ha.1 (.int 1) rfl, (hc.2 rfl).2 (.int 7) rfl⟩

/-- **End to end, loading**: for a layout produced from a schema, a successful load hands every
    presented field the loaded value found at its *documented* path. -/
theorem load_reads_documented_path (sch : Schema) (style : Style → String → String) (fields : List Field)
    (l : InpLayout) (hl : inputLayout sch style fields = .ok l)
    (cfg : LoadCfg) (data : Val) (args : List (String × Val)) (extra : Option Val)
    (h : loadModel cfg l.crown data = .ok args extra)
    (f : Field) (hf : f ∈ fields) (p : Path)
    (hp : pathOf .inp sch style fields (makeInpExtraMove sch.extraIn).targetIds f = some p) (v : Val)
    (hv : data.getPath p = some v) :
    ∃ x, cfg.loader f.id v = .ok x ∧ (f.id, x) ∈ args := by
  have hleaf : (p, Leaf.field f.id) ∈ l.crown.leaves :=
    ((crown_places_fields sch style fields l hl).1 p f.id).mpr ⟨f, hf, rfl, hp⟩
  exact (loadCrown_reads_exact_path cfg l.crown data args extra h p f.id hleaf).1 v hv

theorem load_reads_documented_path_witness (mode : DebugTrail) (strict : Bool) :
    ∃ x, (wLoadCfg mode strict).loader "b" (.int 2) = .ok x ∧ ("b", x) ∈ wArgs :=
  load_reads_documented_path wSch wStyle wFields wInp wInp_ok (wLoadCfg mode strict) wData wArgs none
    (wLoad_ok mode strict) { id := "b" } (by simp [wFields]) [.s "x", .i 3] rfl (.int 2) rfl

/-- **…and from nowhere else**: every argument passed to the constructor is the loaded value found at
    the path of a field leaf, the default of a field whose path is absent, or the extra data handed to
    an extra-target field. -/
theorem loadCrown_args_only_from_paths (cfg : LoadCfg) (crown : InpCrown) (data : Val)
    (args : List (String × Val)) (extra : Option Val) (h : loadModel cfg crown data = .ok args extra)
    (id : String) (x : Val) (hx : (id, x) ∈ args) :
    (∃ q, (q, Leaf.field id) ∈ crown.leaves ∧
      ((∃ v, data.getPath q = some v ∧ cfg.loader id v = .ok x) ∨
       (data.getPath q = none ∧ (cfg.field id).default = some x))) ∨
    (id, x) ∈ specTargets cfg crown.policy (specExtra crown data) cfg.move.targetIds := by
  obtain ⟨_, hargs, _⟩ := loadModel_ok cfg crown data args extra h
  rw [hargs, List.mem_append] at hx
  rcases hx with hx | hx
  · exact .inl (specArgs_from cfg crown data id x hx)
  · exact .inr hx

example := loadCrown_args_only_from_paths (wLoadCfg .all true) wInp.crown wData wArgs none (wLoad_ok .all true)
  "c_" (.int 7) (by simp [wArgs])

/-- **An absent required element is never silently accepted**: success implies that the datum has
    the shape the crown asks for (`specOk`): every container of the right kind, every required key /
    item present, every field value accepted by its loader, list lengths and unknown keys within what
    the node's policy allows. -/
theorem load_success_implies_shape (cfg : LoadCfg) (crown : InpCrown) (data : Val)
    (args : List (String × Val)) (extra : Option Val) (h : loadModel cfg crown data = .ok args extra) :
    specOk cfg crown data = true :=
  (loadModel_ok cfg crown data args extra h).1

example : specOk (wLoadCfg .first false) wInp.crown wData = true :=
  load_success_implies_shape _ _ _ wArgs none (wLoad_ok .first false)

/-- **An absent required key is reported with exactly the missing keys.**  For every flat dict layout
    (all children field leaves), DISABLE or FIRST mode, any extra policy, and every dict datum in which
    the present values are acceptable: if some required key is missing, the loader raises
    `NoRequiredFieldsLoadError` whose `fields` are exactly the required keys absent from the datum and
    whose `input_value` is the datum. -/
theorem missing_required_error_exact (cfg : LoadCfg) (hmode : cfg.mode ≠ .all) (m : List (String × InpCrown))
    (pol : Policy) (kvs : List (String × Val)) (hflat : allFields m = true)
    (hpresent : ∀ k id, (k, InpCrown.field id) ∈ m → ∀ v, Val.lookup k kvs = some v → loaderOk cfg id v = true)
    (hmissing : ((requiredKeys cfg m).filter fun k => !(Val.dict kvs).keys.contains k) ≠ []) :
    loadModel cfg (.dict m pol) (.dict kvs) =
      .error ⟨[], .noRequiredFields ((requiredKeys cfg m).filter fun k => !(Val.dict kvs).keys.contains k)
        (.dict kvs)⟩ := by
  -- a missing required key is the key of a required field leaf that the datum does not bind
  have hmiss : ∃ k id, (k, InpCrown.field id) ∈ m ∧ (cfg.field id).required = true ∧
      Val.lookup k kvs = none := by
    obtain ⟨k, hk⟩ := List.exists_mem_of_ne_nil _ hmissing
    simp only [List.mem_filter, Bool.not_eq_eq_eq_not, Bool.not_true] at hk
    obtain ⟨id, hm, hr⟩ := requiredKeys_mem_allFields cfg m hflat k hk.1
    refine ⟨k, id, hm, hr, ?_⟩
    have hnot : k ∉ kvs.map (·.1) := by simpa [Val.keys] using hk.2
    clear hk hmissing hpresent
    induction kvs with
    | nil => rfl
    | cons a t ih =>
      obtain ⟨k', v'⟩ := a
      simp only [List.map_cons, List.mem_cons, not_or] at hnot
      have hne : ¬ k' = k := fun h => hnot.1 h.symm
      simp only [Val.lookup, hne, ↓reduceIte]
      exact ih hnot.2
  obtain ⟨st', hrun⟩ := loadDictChildren_missing cfg hmode kvs (requiredKeys cfg m) m hflat hpresent hmiss
    false false [] {}
  unfold loadModel loadBranch
  rw [hrun]
  have hw : ∀ (r : LState × Res Val), wrap cfg [] (Val.dict []) r = r := by
    intro r
    unfold wrap
    simp
  rw [hw]

/-- **witness** (any extra policy): two required keys missing, an optional key and an unknown key present -/
theorem missing_required_error_exact_witness (pol : Policy) :
    loadModel (fCfg .first .none) (.dict fMap pol) (.dict [("zz", .str "unknown"), ("C", .int 1)]) =
      .error ⟨[], .noRequiredFields ["A", "B"] (.dict [("zz", .str "unknown"), ("C", .int 1)])⟩ :=
  missing_required_error_exact (fCfg .first .none) (by decide) fMap pol _ rfl
    (by
      intro k id hm v hv
      simp only [fMap, List.mem_cons, Prod.mk.injEq, InpCrown.field.injEq, List.not_mem_nil, or_false] at hm
      rcases hm with ⟨rfl, rfl⟩ | ⟨rfl, rfl⟩ | ⟨rfl, rfl⟩ <;> simp [Val.lookup] at hv
      subst hv; rfl)
    (by decide)

/-- **debug_trail and the traversal order change only reporting**: two configurations that differ in
    the debug mode only and both succeed pass the same arguments and the same extra data. -/
theorem load_result_independent_of_debug_trail (cfg : LoadCfg) (m1 m2 : DebugTrail) (crown : InpCrown) (data : Val)
    (a1 a2 : List (String × Val)) (e1 e2 : Option Val)
    (h1 : loadModel { cfg with mode := m1 } crown data = .ok a1 e1)
    (h2 : loadModel { cfg with mode := m2 } crown data = .ok a2 e2) : a1 = a2 ∧ e1 = e2 := by
  obtain ⟨_, ha1, he1⟩ := loadModel_ok _ crown data a1 e1 h1
  obtain ⟨_, ha2, he2⟩ := loadModel_ok _ crown data a2 e2 h2
  have hA := specArgs_congr { cfg with mode := m1 } { cfg with mode := m2 } rfl rfl crown data
  have hT := specTargets_congr { cfg with mode := m1 } { cfg with mode := m2 } rfl rfl crown.policy
    (specExtra crown data) cfg.move.targetIds
  exact ⟨by rw [ha1, ha2, hA]; exact congrArg _ hT, by rw [he1, he2]⟩

example := load_result_independent_of_debug_trail (wLoadCfg .disable true) .first .all wInp.crown wData wArgs wArgs
  none none (wLoad_ok .first true) (wLoad_ok .all true)

/-! ### unknown keys -/

/-- **ExtraSkip: unknown keys are ignored.**  Two dict data that agree on the keys the root node knows —
    i.e. that differ only in unknown keys, any number of them, anywhere in the dict — load identically:
    the generated loader succeeds on one iff it succeeds on the other, with the same arguments. -/
theorem extra_skip_ignores_unknown (cfg : LoadCfg) (m : List (String × InpCrown)) (d1 d2 : Val)
    (h1 : d1.isMapping = true) (h2 : d2.isMapping = true)
    (hagree : ∀ k ∈ knownKeys m, d1.getItem (.s k) = d2.getItem (.s k))
    (args : List (String × Val)) (extra : Option Val) :
    loadModel cfg (.dict m .skip) d1 = .ok args extra ↔ loadModel cfg (.dict m .skip) d2 = .ok args extra := by
  obtain ⟨c1, c2, c3⟩ := dictReading_congr cfg d1 d2 m hagree
  have hne : (Policy.skip != Policy.forbid) = true := by decide
  have hok : specOk cfg (.dict m .skip) d1 = specOk cfg (.dict m .skip) d2 := by simp [specOk, h1, h2, c1, hne]
  have hargs : specArgs cfg (.dict m .skip) d1 = specArgs cfg (.dict m .skip) d2 := by simp [specArgs, c2]
  have hex : specExtra (.dict m .skip) d1 = specExtra (.dict m .skip) d2 := by simp [specExtra, c3]
  rw [loadModel_ok_iff, loadModel_ok_iff, hok, hargs, hex]
  simp only [extraOut, hex]

/-- **witness**: two unknown items in the middle of the datum; the load succeeds exactly as without them -/
theorem extra_skip_ignores_unknown_witness :
    loadModel (fCfg .all .none) (.dict fMap .skip) (fData fUnknown) =
      .ok [("a", .int 2), ("b", .int 3), ("c", .int 7)] none := by
  rw [extra_skip_ignores_unknown (fCfg .all .none) fMap (fData fUnknown) (fData []) rfl rfl
    (by intro k hk
        simp only [fMap, knownKeys, List.mem_cons, List.not_mem_nil, or_false] at hk
        rcases hk with rfl | rfl | rfl <;> rfl)]
  rfl

/-- adding an unknown key to a dict datum changes nothing the node looks at -/
theorem unknown_key_invisible (kvs : List (String × Val)) (k k' : String) (v : Val) (hk : k' ≠ k) :
    (Val.dict (kvs ++ [(k, v)])).getItem (.s k') = (Val.dict kvs).getItem (.s k') := by
  have hk2 : ¬ k = k' := fun h => hk h.symm
  simp [Val.getItem, lookup_append, Val.lookup, hk2]

/-- **ExtraForbid**: a successful load means that no dict node with the forbidding policy saw an
    unknown key (root node shown; nested nodes follow from `specOk` recursively). -/
theorem extra_forbid_rejects_unknown (cfg : LoadCfg) (m : List (String × InpCrown)) (data : Val)
    (args : List (String × Val)) (extra : Option Val)
    (h : loadModel cfg (.dict m .forbid) data = .ok args extra) :
    unknownKeys (knownKeys m) data = [] := by
  have := load_success_implies_shape cfg _ data args extra h
  simp only [specOk, Bool.and_eq_true, bne_self_eq_false, Bool.false_or, List.isEmpty_iff] at this
  exact this.2

example : unknownKeys ["d", "x", "y"] wData = [] :=
  extra_forbid_rejects_unknown (wLoadCfg .disable true) _ wData wArgs none (wLoad_ok .disable true)

/-- the `ExtraFieldsLoadError` the forbidding policy **raises** carries exactly the unknown keys of the node
    and the node's datum, with the node's path as trail (FIRST; DISABLE has no trail).
    Audit remark: in ALL mode the fragment never *raises* (it appends to `errors`), so for `cfg.mode = .all`
    the hypothesis is unsatisfiable and this statement says nothing; the three modes are covered together by
    `extra_forbid_policy_exact` below, and end to end by `extra_forbid_load_error_exact`. -/
theorem extra_forbid_error_exact (cfg : LoadCfg) (p : Path) (known : List String) (d : Val)
    (extra : List (String × Val)) (st st' : LState) (e : TErr)
    (h : dictPolicy cfg p .forbid known d extra st = (st', .raised e)) :
    e.err = .extraFields (unknownKeys known d) d ∧ unknownKeys known d ≠ [] ∧
      e.trail = (if cfg.mode = .disable then [] else p) := by
  unfold dictPolicy at h
  simp only [] at h
  split at h
  · simp at h
  · rename_i hne
    unfold emitThen emit at h
    cases hm : cfg.mode <;> simp [hm, withTrail] at h <;> obtain ⟨_, rfl⟩ := h <;> simp_all

/-- witness (FIRST, a nested node at path `p`) -/
example := extra_forbid_error_exact (fCfg .first .none) [.s "p"] ["A", "B", "C"] (fData fUnknown) [] {} {}
  ⟨[.s "p"], .extraFields ["zz", "Yy"] (fData fUnknown)⟩ rfl

/-- **Complete behaviour of the forbidding fragment in the three debug modes** (any node, any state): nothing
    happens when the datum has no unknown key; otherwise an `ExtraFieldsLoadError` carrying *exactly* the unknown
    keys and the node's datum is raised (DISABLE: without trail, FIRST: with the node's path) or — ALL —
    appended to `errors` with the node's path, and the node goes on. -/
theorem extra_forbid_policy_exact (cfg : LoadCfg) (p : Path) (known : List String) (d : Val)
    (extra : List (String × Val)) (st : LState) :
    dictPolicy cfg p .forbid known d extra st =
      if unknownKeys known d = [] then (st, .ok (.dict extra))
      else match cfg.mode with
        | .disable => (st, .raised ⟨[], .extraFields (unknownKeys known d) d⟩)
        | .first => (st, .raised ⟨p, .extraFields (unknownKeys known d) d⟩)
        | .all => ({ st with errors := st.errors ++ [⟨p, .extraFields (unknownKeys known d) d⟩] }, .ok (.dict extra)) := by
  unfold dictPolicy
  by_cases h : unknownKeys known d = []
  · simp [h]
  · simp only [List.isEmpty_iff, h, ↓reduceIte]
    unfold emitThen emit
    cases hm : cfg.mode <;> simp [withTrail]

/-- **ExtraForbid, end to end: unknown keys are rejected with exactly the set of unknown keys.**  For every dict
    layout (nested or flat) under `ExtraForbid` (whose extra move is none, `makeInpExtraMove .forbid = .none`),
    every debug mode, and every mapping datum that is otherwise acceptable (`specOkDict`: every known element
    has the shape its crown asks for): if the datum has an unknown key, the generated loader fails with the one
    `ExtraFieldsLoadError` whose `fields` are exactly the unknown keys (in ALL mode wrapped in the aggregate). -/
theorem extra_forbid_load_error_exact (cfg : LoadCfg) (hmove : cfg.move = .none) (m : List (String × InpCrown))
    (data : Val) (hmap : data.isMapping = true) (hok : specOkDict cfg data m = true)
    (hunk : unknownKeys (knownKeys m) data ≠ []) :
    loadModel cfg (.dict m .forbid) data =
      if cfg.mode = .all then .aggregate [⟨[], .extraFields (unknownKeys (knownKeys m) data) data⟩]
      else .error ⟨[], .extraFields (unknownKeys (knownKeys m) data) data⟩ := by
  obtain ⟨chk, hch⟩ := loadDictChildren_complete cfg m [] data (requiredKeys cfg m) false false [] {} hok hmap
  unfold loadModel loadBranch
  simp only [hch, hmap, Bool.not_true, Bool.and_false, Bool.false_eq_true, ↓reduceIte]
  rw [extra_forbid_policy_exact]
  simp only [hunk, ↓reduceIte]
  cases hm : cfg.mode <;>
    simp [wrap, hm, hmove, InpExtraMove.targetIds, assignTargets, InpCrown.policy]

/-- witness (ALL mode — the case `extra_forbid_error_exact` does not reach — and FIRST) -/
theorem extra_forbid_load_error_exact_witness :
    loadModel (fCfg .all .none) (.dict fMap .forbid) (fData fUnknown) =
      .aggregate [⟨[], .extraFields ["zz", "Yy"] (fData fUnknown)⟩] ∧
    loadModel (fCfg .first .none) (.dict fMap .forbid) (fData fUnknown) =
      .error ⟨[], .extraFields ["zz", "Yy"] (fData fUnknown)⟩ :=
  ⟨extra_forbid_load_error_exact (fCfg .all .none) rfl fMap (fData fUnknown) rfl rfl (by decide),
   extra_forbid_load_error_exact (fCfg .first .none) rfl fMap (fData fUnknown) rfl rfl (by decide)⟩

/-- **Collecting policies deliver exactly the unknown items, under their original names**: the extra
    data is the skeleton `specExtra` — for every collecting dict node the items of its datum whose key
    is not in the node's map (key and value unchanged), plus one entry per nested branch holding that
    branch's own extra.  It goes to `**kwargs` / the saturator as is. -/
theorem extra_collect_exact (cfg : LoadCfg) (crown : InpCrown) (data : Val)
    (args : List (String × Val)) (ex : Val) (h : loadModel cfg crown data = .ok args (some ex)) :
    ex = specExtra crown data := by
  obtain ⟨_, _, hex⟩ := loadModel_ok cfg crown data args (some ex) h
  cases hm : cfg.move <;> simp [hm] at hex <;> exact hex

/-- … and to every extra-target field, through that field's loader -/
theorem extra_targets_exact (cfg : LoadCfg) (m : List (String × InpCrown)) (data : Val)
    (args : List (String × Val)) (extra : Option Val) (ts : List String) (hmove : cfg.move = .targets ts)
    (h : loadModel cfg (.dict m .collect) data = .ok args extra) (t : String) (ht : t ∈ ts) :
    ∃ x, cfg.loader t (specExtra (.dict m .collect) data) = .ok x ∧ (t, x) ∈ args := by
  obtain ⟨_, hargs, _⟩ := loadModel_ok cfg _ data args extra h
  have hload : ∀ (ts' : List String), t ∈ ts' →
      (∃ st st', assignTargets cfg .collect (specExtra (.dict m .collect) data) ts' st = (st', .ok ()) ∧
        st'.errors = st.errors) →
      ∃ x, cfg.loader t (specExtra (.dict m .collect) data) = .ok x ∧
        (t, x) ∈ specTargets cfg .collect (specExtra (.dict m .collect) data) ts' := by
    intro ts'
    induction ts' with
    | nil => intro h; simp at h
    | cons a r ih =>
      intro hmem ⟨st, st', hrun, herr⟩
      unfold assignTargets at hrun
      simp only [beq_self_eq_true, ↓reduceIte] at hrun
      have g1 := assignField_grows cfg [] a (specExtra (.dict m .collect) data) st
      split at hrun
      · rename_i st1 heq
        rw [heq] at g1
        have g2 := assignTargets_grows cfg .collect (specExtra (.dict m .collect) data) r st1
        rw [hrun] at g2
        obtain ⟨e1, e2⟩ := Grows.eq_of_eq g1 g2 herr
        obtain ⟨x, hx, _⟩ := assignField_ok _ _ _ _ _ _ heq e1
        simp only [List.mem_cons] at hmem
        rcases hmem with rfl | hmem
        · exact ⟨x, hx, by simp [specTargets, hx]⟩
        · obtain ⟨y, hy, hm⟩ := ih hmem ⟨st1, st', hrun, e2⟩
          exact ⟨y, hy, by simp [specTargets, hm]⟩
      · rename_i hne
        exact absurd hrun (hne _)
  -- re-run the tail of `loadModel` to obtain the successful `assignTargets`
  unfold loadModel at h
  split at h
  · simp at h
  · simp at h
  · rename_i st ex heq
    have g1 := loadBranch_grows cfg (.dict m .collect) [] data {}
    rw [heq] at g1
    split at h
    · simp at h
    · simp at h
    · rename_i st' heq2
      have g2 := assignTargets_grows cfg (InpCrown.dict m .collect).policy ex cfg.move.targetIds st
      rw [heq2] at g2
      split at h
      · simp at h
      · rename_i herr
        have he : st'.errors = ({} : LState).errors := by
          simp only [Bool.not_eq_true, Bool.not_eq_false', List.isEmpty_iff] at herr
          simpa using herr
        obtain ⟨e1, e2⟩ := Grows.eq_of_eq g1 g2 he
        obtain ⟨_, x1, _⟩ := loadBranch_spec cfg _ [] data {} st ex heq e1
        subst x1
        simp only [hmove, InpExtraMove.targetIds, InpCrown.policy] at heq2
        obtain ⟨x, hx, hm⟩ := hload ts ht ⟨st, st', heq2, e2⟩
        refine ⟨x, hx, ?_⟩
        rw [hargs]
        simp [hmove, InpExtraMove.targetIds, InpCrown.policy, hm]

/-- **flat layouts: the extra data is exactly the unknown items** (`…_partial` form of the statement
    "only unknown keys are delivered": it holds as is when no field is mapped to a nested path) -/
theorem extra_collect_flat_exact_partial (m : List (String × InpCrown)) (data : Val) (hflat : flat m = true) :
    specExtra (.dict m .collect) data = .dict (unknownItems (knownKeys m) data) := by
  have : ∀ (r : List (String × InpCrown)), flat r = true → specExtraDict data r = [] := by
    intro r
    induction r with
    | nil => intro _; rfl
    | cons a t ih =>
      obtain ⟨k, c⟩ := a
      intro hf
      cases c with
      | field id => simpa [specExtraDict] using ih (by simpa [flat] using hf)
      | none => simpa [specExtraDict] using ih (by simpa [flat] using hf)
      | dict _ _ => simp [flat] at hf
      | list _ _ => simp [flat] at hf
  simp [specExtra, this m hflat]

/-- the unknown items are items of the datum, with key and value untouched, whose key is unknown -/
theorem unknownItems_spec (known : List String) (kvs : List (String × Val)) (k : String) (v : Val) :
    (k, v) ∈ unknownItems known (.dict kvs) ↔ (k, v) ∈ kvs ∧ k ∉ known := by
  simp [unknownItems, List.mem_filter]

/-- **witness** (`ExtraKwargs` and `ExtraTargets`, two unknown items): the extra data is exactly the unknown items,
    handed to `**kwargs` as is and to the target field `kw` through its loader -/
theorem extra_collect_exact_witness :
    loadModel (fCfg .first .kwargs) (.dict fMap .collect) (fData fUnknown) =
      .ok [("a", .int 2), ("b", .int 3), ("c", .int 7)] (some (.dict fUnknown)) ∧
    Val.dict fUnknown = .dict (unknownItems (knownKeys fMap) (fData fUnknown)) ∧
    ∃ x, (fCfg .all (.targets ["kw"])).loader "kw" (.dict fUnknown) = .ok x ∧
      ("kw", x) ∈ [("a", Val.int 2), ("b", .int 3), ("c", .int 7), ("kw", .dict fUnknown)] := by
  have h : loadModel (fCfg .first .kwargs) (.dict fMap .collect) (fData fUnknown) =
      .ok [("a", .int 2), ("b", .int 3), ("c", .int 7)] (some (.dict fUnknown)) := rfl
  refine ⟨h, (extra_collect_exact _ _ _ _ _ h).trans (extra_collect_flat_exact_partial fMap _ rfl), ?_⟩
  exact extra_targets_exact (fCfg .all (.targets ["kw"])) fMap (fData fUnknown) _ none ["kw"] rfl
    (show loadModel (fCfg .all (.targets ["kw"])) (.dict fMap .collect) (fData fUnknown) =
      .ok [("a", .int 2), ("b", .int 3), ("c", .int 7), ("kw", .dict fUnknown)] none from rfl)
    "kw" (by simp)

/-- Full-strength statement about `ExtraKwargs` ("only unknown keys, under their original names, are
    passed as keyword arguments"):
    `∀ cfg crown data args ex, loadModel cfg crown data = .ok args (some (.dict ex)) →
        ∀ k v, (k, v) ∈ ex → k ∈ unknownKeys (known keys of the root) data`.
    It is **false** for nested layouts (known finding `extra-kwargs:nested-branch-keys`): the witness
    below loads `{"x": {"y": 1}}` with `map={"a": ("x", "y")}`, `extra_in=ExtraKwargs()` and passes
    the known branch key `x` (bound to `{}`) as a keyword argument. -/
theorem extra_kwargs_only_unknown_fails :
    ∃ (cfg : LoadCfg) (m : List (String × InpCrown)) (data : Val) (args : List (String × Val))
      (ex : List (String × Val)),
      cfg.move = .kwargs ∧ loadModel cfg (.dict m .collect) data = .ok args (some (.dict ex)) ∧
        ∃ k v, (k, v) ∈ ex ∧ k ∉ unknownKeys (knownKeys m) data := by
  refine ⟨{ mode := .first, strict := true, move := .kwargs, fields := [{ id := "a" }], loader := fun _ v => .ok v },
    [("x", .dict [("y", .field "a")] .collect)], .dict [("x", .dict [("y", .int 1)])],
    [("a", .int 1)], [("x", .dict [])], rfl, ?_, "x", .dict [], ?_⟩
  · rfl
  · simp [unknownKeys, unknownItems, knownKeys]

/-! ## 5. The generated dumper -/

/-- **The dumper writes each field to exactly the path of its leaf, omit_default removes exactly the
    fields equal to their default, gaps are `None`.**  For a well-formed crown (distinct keys, sieves on
    field children, required fields at list positions — what the layout provider and
    `_validate_params` guarantee) whose gap placeholders are `None`, without extra data: if the generated
    dumper returns `out`, then for every leaf at path `q`
    * a field leaf holds the dumped value of the field, unless the field is absent from the object
      (optional accessor) or its omit_default sieve finds the **raw** value equal to the default — in
      both cases the key is absent (`getPath = none`);
    * a gap leaf holds `None`. -/
theorem dumpCrown_writes_exact_path (cfg : DumpCfg) (crown : OutCrown) (obj : List (String × Val)) (out : Val)
    (hmove : cfg.move = .none) (hwf : crown.wf cfg = true) (hgaps : crown.gapsNone = true)
    (hfields : ∀ id ∈ crown.fieldIds, ∃ f ∈ cfg.fields, f.id = id ∧ f.required = (cfg.field id).required)
    (h : dumpModel cfg crown obj = .ok out) (q : Path) (l : Leaf) (hleaf : (q, l) ∈ crown.leaves) (hq : q ≠ []) :
    out.getPath q =
      match l with
      | .field id =>
        match dumpedOf cfg obj id with
        | none => none
        | some v =>
          match crown.sieveAt q with
          | some dflt => if sieveKeeps dflt ((Val.lookup id obj).getD .none) then some v else none
          | none => some v
      | .none => some Val.none := by
  obtain ⟨hout, hreq⟩ := dumpModel_ok_noextra cfg crown obj out hmove h
  have hmem : ∀ id ∈ crown.fieldIds,
      (cfg.fields.filter fun f => crown.fieldIds.contains f.id).any (fun f => f.id == id) = true := by
    intro id hid
    obtain ⟨f, hf, rfl, _⟩ := hfields id hid
    simp only [List.any_eq_true, List.mem_filter, beq_iff_eq]
    exact ⟨f, ⟨hf, by simpa using hid⟩, rfl⟩
  have hv : HasVals cfg (specVals cfg obj (cfg.fields.filter fun f => crown.fieldIds.contains f.id)) crown.fieldIds := by
    intro id hid hr
    obtain ⟨f, hf, rfl, hfr⟩ := hfields id hid
    obtain ⟨v, hv⟩ := hreq f (by simp [List.mem_filter, hf, hid]) (by rw [hfr]; exact hr)
    exact ⟨v, by rw [lookup_specVals, hmem _ hid]; simpa using hv⟩
  rw [hout, dumpCrown_leaf cfg obj _ crown hwf hgaps hv q l hleaf hq]
  cases l with
  | none => rfl
  | field id =>
    have hid : id ∈ crown.fieldIds := leaf_mem_fieldIds crown q id hleaf
    simp only [leafExpected, lookup_specVals, hmem id hid, ↓reduceIte]
    rfl

/-- **End to end, dumping**: for a layout produced from a schema (whose crown is well formed — distinct
    keys etc., a hypothesis validated by the correspondence), a successful dump without extra data holds
    every presented field at its *documented* path — the same `pathOf` the loader reads from — unless
    the field is absent from the object or omitted by omit_default. -/
theorem dump_writes_documented_path (sch : Schema) (style : Style → String → String) (fields : List Field)
    (l : OutLayout) (hl : outputLayout sch style fields = .ok l)
    (cfg : DumpCfg) (obj : List (String × Val)) (out : Val)
    (hmove : cfg.move = .none) (hwf : l.crown.wf cfg = true)
    (hfields : ∀ id ∈ l.crown.fieldIds, ∃ f ∈ cfg.fields, f.id = id ∧ f.required = (cfg.field id).required)
    (h : dumpModel cfg l.crown obj = .ok out)
    (f : Field) (hf : f ∈ fields) (p : Path) (hpne : p ≠ [])
    (hp : pathOf .out sch style fields (makeOutExtraMove sch.extraOut).targetIds f = some p) :
    out.getPath p =
      match dumpedOf cfg obj f.id with
      | none => none
      | some v =>
        match l.crown.sieveAt p with
        | some dflt => if sieveKeeps dflt ((Val.lookup f.id obj).getD .none) then some v else none
        | none => some v := by
  have hleaf : (p, Leaf.field f.id) ∈ l.crown.leaves :=
    ((out_crown_places_fields sch style fields l hl).1 p f.id).mpr ⟨f, hf, rfl, hp⟩
  exact dumpCrown_writes_exact_path cfg l.crown obj out hmove hwf
    (outputLayout_gapsNone sch style fields l hl) hfields h p (.field f.id) hleaf hpne

/-- **witness** for `dumpCrown_writes_exact_path` and `dump_writes_documented_path`, on the layout the provider built (`wOut_ok`), with its
    well-formedness *proved* (`wOut_wf`): `b` at `x[3]` (dumper `n ↦ 10 n`), `d` omitted because its raw value 7
    equals the default (while its dumped value 70 does not), `c_` kept although equal to a default that
    omit_default does not select, the gap `x[2]` holds `None`. -/
theorem dump_writes_documented_path_witness (mode : DebugTrail) :
    dumpModel (wDumpCfg mode) wOut.crown wObj = .ok wDumped ∧
    wDumped.getPath [.s "x", .i 3] = some (.int 20) ∧ wDumped.getPath [.s "d"] = none ∧
    wDumped.getPath [.s "y", .s "c"] = some (.int 70) ∧ wDumped.getPath [.s "x", .i 2] = some .none := by
  have hb := dump_writes_documented_path wSch wStyle wFields wOut wOut_ok (wDumpCfg mode) wObj wDumped rfl
    (wOut_wf mode) (wOut_fields mode) (wDump_ok mode) { id := "b" } (by simp [wFields]) [.s "x", .i 3] (by simp) rfl
  have hd := dump_writes_documented_path wSch wStyle wFields wOut wOut_ok (wDumpCfg mode) wObj wDumped rfl
    (wOut_wf mode) (wOut_fields mode) (wDump_ok mode) { id := "d", required := true, default := some (.int 7) }
    (by simp [wFields]) [.s "d"] (by simp) rfl
  have hg := dumpCrown_writes_exact_path (wDumpCfg mode) wOut.crown wObj wDumped rfl (wOut_wf mode) rfl
    (wOut_fields mode) (wDump_ok mode) [.s "x", .i 2] .none
    (by simp [wOut, OutCrown.leaves, OutCrown.leaves.goD, OutCrown.leaves.goL]) (by simp)
  refine ⟨wDump_ok mode, hb.trans ?_, hd.trans ?_, ?_, hg⟩
  · simp [dumpedOf, wObj, Val.lookup, wDumpCfg, wOut, OutCrown.sieveAt, OutCrown.sieveAtD, OutCrown.sieveAtL]
  · simp [dumpedOf, wObj, Val.lookup, wDumpCfg, wOut, OutCrown.sieveAt, List.lookup, sieveKeeps, Val.pyEq]
  · simp [wDumped, Val.getPath, Val.getItem, Val.lookup]

/-- **omit_default removes exactly the fields whose value equals their default** (code's comparison:
    identity for the singleton defaults None/True/False, `==` otherwise), for a field directly under a
    dict node: the key is present iff the field was extracted and its raw value differs from the default. -/
theorem omit_default_exact (cfg : DumpCfg) (obj vals : List (String × Val)) (m : List (String × OutCrown))
    (s : List (String × Val)) (k id : String) (dflt : Val)
    (hn : keysNodup m = true) (hk : (k, OutCrown.field id) ∈ m) (hs : s.lookup k = some dflt) :
    (∃ v, (dumpCrown cfg obj vals (.dict m s)).getPath [.s k] = some v) ↔
      ((∃ v, Val.lookup id vals = some v) ∧ sieveKeeps dflt ((Val.lookup id obj).getD .none) = true) := by
  simp only [dumpCrown, getPath_dict_cons, lookup_dumpDict cfg obj vals s k _ m hn hk, dictEntry, hs,
    Option.isNone_some, Bool.false_and, Bool.false_eq_true, ↓reduceIte, optEntry]
  cases hl : Val.lookup id vals with
  | none => simp
  | some v =>
    by_cases hkeep : sieveKeeps dflt ((Val.lookup id obj).getD .none) = true <;> simp [hkeep]

/-- witness: two sieved keys with default 3; `p = 3` is dropped, `q = 4` is written -/
example : (∃ v, (dumpCrown (wDumpCfg .first) [("p", .int 3), ("q", .int 4)] [("p", .int 30), ("q", .int 40)]
      (.dict [("P", .field "p"), ("Q", .field "q")] [("P", .int 3), ("Q", .int 3)])).getPath [.s "Q"] = some v) ∧
    ¬ (∃ v, (dumpCrown (wDumpCfg .first) [("p", .int 3), ("q", .int 4)] [("p", .int 30), ("q", .int 40)]
      (.dict [("P", .field "p"), ("Q", .field "q")] [("P", .int 3), ("Q", .int 3)])).getPath [.s "P"] = some v) := by
  constructor
  · rw [omit_default_exact _ _ _ _ _ "Q" "q" (.int 3) rfl (by simp) rfl]
    simp [Val.lookup, sieveKeeps, Val.pyEq]
  · rw [omit_default_exact _ _ _ _ _ "P" "p" (.int 3) rfl (by simp) rfl]
    simp [Val.lookup, sieveKeeps, Val.pyEq]

/-- the comparison of the sieve: a value is dropped iff it *is* the singleton default, resp. *equals*
    (Python `==`) the default -/
theorem sieve_drops_iff_equal (dflt x : Val) :
    sieveKeeps dflt x = false ↔
      (match dflt with
       | .none => Val.same x dflt = true
       | .bool _ => Val.same x dflt = true
       | _ => Val.pyEq x dflt = true) := by
  unfold sieveKeeps
  cases dflt <;> simp

/-- **Nothing else is written**: every key of a dumped dict node is a key of the crown's map. -/
theorem dump_writes_only_crown_keys (cfg : DumpCfg) (obj vals : List (String × Val)) (m : List (String × OutCrown))
    (s : List (String × Val)) (k : String) (hk : k ∈ (dumpCrown cfg obj vals (.dict m s)).keys) :
    k ∈ m.map (·.1) := by
  simp only [dumpCrown, Val.keys, List.mem_map] at hk
  obtain ⟨⟨k', v⟩, hmem, rfl⟩ := hk
  obtain ⟨c, hc⟩ := dumpDict_keys_subset cfg obj vals s m k' v hmem
  exact List.mem_map.mpr ⟨(k', c), hc, rfl⟩

example := dump_writes_only_crown_keys (wDumpCfg .first) wObj [("d", .int 70), ("a", .int 1)]
  [("D", .field "d"), ("A", .field "a")] [("D", .int 7)] "A"
  (by simp [dumpCrown, dumpDictReq, dumpDictOpt, Val.keys, isRequiredCrown, DumpCfg.field, wDumpCfg, wFields,
        List.lookup, Val.lookup])

/-- every gap of an output crown built by the layout provider carries the placeholder `None` -/
theorem provider_gap_placeholders_are_none (sch : Schema) (style : Style → String → String) (fields : List Field)
    (l : OutLayout) (h : outputLayout sch style fields = .ok l) : l.crown.gapsNone = true :=
  outputLayout_gapsNone sch style fields l h

example : wOut.crown.gapsNone = true := provider_gap_placeholders_are_none wSch wStyle wFields wOut wOut_ok

/-! ### which keys carry an omit_default sieve (added by the audit) -/

/-- **omit_default selects exactly the defaulted fields it matches**: the sieve table the provider computes
    (`make_sieves`) binds a path to `d` iff a field leaf sits at that path whose field has the default `d` and is
    matched by `omit_default`. -/
theorem sieves_exact (sch : Schema) (fields : List Field) (leaves : List (Path × Leaf)) (p : Path) (d : Val) :
    (p, d) ∈ makeSieves sch fields leaves ↔
      ∃ id f, (p, Leaf.field id) ∈ leaves ∧ fields.find? (fun g => g.id == id) = some f ∧ f.default = some d ∧
        sch.omitDefault f = true := by
  unfold makeSieves
  simp only [List.mem_filterMap]
  constructor
  · rintro ⟨⟨q, l⟩, hmem, h⟩
    cases l with
    | none => simp at h
    | field id =>
      simp only [] at h
      cases hf : fields.find? (fun g => g.id == id) with
      | none => simp [hf] at h
      | some f =>
        cases hd : f.default with
        | none => simp [hf, hd] at h
        | some d' =>
          by_cases ho : sch.omitDefault f = true
          · simp only [hf, hd, ho, ↓reduceIte, Option.some.injEq, Prod.mk.injEq] at h
            obtain ⟨rfl, rfl⟩ := h
            exact ⟨id, f, hmem, hf, hd, ho⟩
          · simp [hf, hd, ho] at h
  · rintro ⟨id, f, hmem, hf, hd, ho⟩
    exact ⟨(p, .field id), hmem, by simp [hf, hd, ho]⟩

example : makeSieves wSch wFields wLeaves = [([.s "d"], .int 7)] := rfl

/-- **a sieve sits only where omit_default put it** (top-level keys of a dict layout built by the provider):
    if the built output crown carries a sieve with default `d` at the key `k`, then a field leaf sits at `k`
    whose field has the default `d` and is matched by `omit_default`. -/
theorem out_sieve_sound_toplevel (sch : Schema) (style : Style → String → String) (fields : List Field)
    (l : OutLayout) (h : outputLayout sch style fields = .ok l) (k : String) (d : Val)
    (hs : l.crown.sieveAt [.s k] = some d) :
    ∃ id f, ([Key.s k], Leaf.field id) ∈ l.crown.leaves ∧ fields.find? (fun g => g.id == id) = some f ∧
      f.default = some d ∧ sch.omitDefault f = true := by
  obtain ⟨lv, hlv, hmem⟩ := outputLayout_inv sch style fields l h
  unfold outputLayout at h
  simp only [bind, Except.bind, pure, Except.pure, hlv] at h
  have key : ∀ crown : Crown, l.crown = crown.toOut (makeSieves sch fields lv) [] →
      ∃ id f, ([Key.s k], Leaf.field id) ∈ l.crown.leaves ∧ fields.find? (fun g => g.id == id) = some f ∧
        f.default = some d ∧ sch.omitDefault f = true := by
    intro crown hcr
    rw [hcr] at hs
    cases crown with
    | dict m =>
      simp only [Crown.toOut, OutCrown.sieveAt, List.isEmpty_nil, ↓reduceIte, lookup_goS, List.nil_append] at hs
      split at hs
      · obtain ⟨id, f, h1, h2, h3, h4⟩ := (sieves_exact sch fields lv [.s k] d).mp (mem_of_lookup _ _ _ hs)
        exact ⟨id, f, (hmem _).mpr h1, h2, h3, h4⟩
      · simp at hs
    | list m => simp [Crown.toOut, OutCrown.sieveAt] at hs
    | leaf lf => cases lf <;> simp [Crown.toOut, OutCrown.sieveAt] at hs
  split at h
  · simp only [Except.ok.injEq] at h
    exact key _ (by rw [← h])
  · split at h
    · simp at h
    · simp only [Except.ok.injEq] at h
      exact key _ (by rw [← h])

/-- witness: the built layout carries the sieve of `d` (default 7, selected by omit_default), found by the theorem -/
example : ∃ id f, ([Key.s "d"], Leaf.field id) ∈ wOut.crown.leaves ∧ wFields.find? (fun g => g.id == id) = some f ∧
    f.default = some (.int 7) ∧ wSch.omitDefault f = true :=
  out_sieve_sound_toplevel wSch wStyle wFields wOut wOut_ok "d" (.int 7) rfl

/-- **List layouts fill gaps with `None`**: a list node is dumped to a list of exactly the length of
    the crown's map, whose positions that no field is mapped to hold the placeholder. -/
theorem list_gaps_are_none (cfg : DumpCfg) (obj vals : List (String × Val)) (m : List OutCrown) (i : Nat)
    (ph : Val) (hi : m[i]? = some (.none ph)) :
    (dumpCrown cfg obj vals (.list m)).getPath [.i i] = some ph ∧
      (dumpCrown cfg obj vals (.list m)).len = m.length := by
  constructor
  · simp [dumpCrown, getPath_list_cons, getElem?_dumpList, hi]
  · have : ∀ (r : List OutCrown), (dumpList cfg obj vals r).length = r.length := by
      intro r
      induction r with
      | nil => rfl
      | cons c t ih => simp [dumpList, ih]
    simp [dumpCrown, Val.len, this]

example := list_gaps_are_none (wDumpCfg .all) wObj [("a", .int 10)] [.none .none, .field "a", .none (.str "ph")] 2
  (.str "ph") rfl

/-! ### extra_out: the extractor's items are merged over the layout -/

/-- **`extra_out=<extractor>`: `{**result, **extra}`.**  When the generated dumper with an extractor returning the
    mapping `kvs` succeeds, the layout part `r` is a dict — the crown rendered over the extracted field values,
    the very value the no-extra theorems above describe — and the result holds, for every key: the extractor's
    (last) value if the extractor yields that key, otherwise what the layout wrote, otherwise nothing.  So every
    extra item is delivered under its original name and no layout key is lost. -/
theorem dump_extract_merges (cfg : DumpCfg) (crown : OutCrown) (obj : List (String × Val)) (out : Val)
    (kvs : List (String × Val)) (hmove : cfg.move = .extract) (hex : cfg.extracted = .ok (.dict kvs))
    (h : dumpModel cfg crown obj = .ok out) :
    ∃ r res, dumpCrown cfg obj (specVals cfg obj (cfg.fields.filter fun f => crown.fieldIds.contains f.id)) crown = .dict r ∧
      out = .dict res ∧ ∀ k, Val.lookup k res = (lookupLast k kvs).or (Val.lookup k r) := by
  obtain ⟨r, hr, hout⟩ := dumpModel_ok_extract cfg crown obj out kvs hmove hex h
  exact ⟨r, mergeDict r kvs, hr, hout, fun k => lookup_mergeDict k kvs r⟩

/-- witness: the extractor adds `extra1` and overrides the layout's key `y`; `x` is kept, the sieved `d` stays out -/
example :
    let cfg : DumpCfg :=
      { wDumpCfg .first with move := .extract, extracted := .ok (.dict [("extra1", .int 1), ("y", .str "over")]) }
    let out : List (String × Val) :=
      [("x", .list [.none, .int 10, .none, .int 20]), ("y", .str "over"), ("extra1", .int 1)]
    dumpModel cfg wOut.crown wObj = .ok (.dict out) ∧
    ∃ r res, dumpCrown cfg wObj (specVals cfg wObj (cfg.fields.filter fun f => wOut.crown.fieldIds.contains f.id))
        wOut.crown = .dict r ∧ Val.dict out = .dict res ∧
      ∀ k, Val.lookup k res = (lookupLast k [("extra1", .int 1), ("y", .str "over")]).or (Val.lookup k r) := by
  intro cfg out
  have hrun : dumpModel cfg wOut.crown wObj = .ok (.dict out) := by
    simp [cfg, out, dumpModel, wDumpCfg, wOut, wObj, wFields, OutCrown.fieldIds, OutCrown.fieldIds.goD,
      OutCrown.fieldIds.goL, OutExtraMove.targetIds, extractFields, extractOne, Val.lookup, dumpCrown, dumpDictReq,
      dumpDictOpt, dumpList, isRequiredCrown, DumpCfg.field, sieveKeeps, Val.pyEq, List.lookup, mergeExtra, mergeDict]
  exact ⟨hrun, dump_extract_merges cfg wOut.crown wObj _ _ rfl rfl hrun⟩

/-! ## 6. Loader and dumper agree on the paths -/

/-- **Refinement of the generated loader**: in every debug mode, strict or not, the generated code reaches
    the constructor call *iff* the datum has the shape the crown asks for (and the extra-target loaders
    accept the collected extra); arguments and extra are then the denotational reading of the crown. -/
theorem loader_refines_reading (cfg : LoadCfg) (crown : InpCrown) (data : Val) (args : List (String × Val))
    (extra : Option Val) :
    loadModel cfg crown data = .ok args extra ↔
      (specOk cfg crown data = true ∧
       targetsOk cfg crown.policy (specExtra crown data) cfg.move.targetIds = true ∧
       args = specArgs cfg crown data ++ specTargets cfg crown.policy (specExtra crown data) cfg.move.targetIds ∧
       extra = extraOut cfg crown data) :=
  loadModel_ok_iff cfg crown data args extra

/-- **Crown round trip (dump then load through the same layout)**: for identity field codecs, no
    omit_default sieve, no extra data and an object holding every field of the crown, the generated
    dumper succeeds and the generated loader — any debug mode, strict or lax, any extra policy
    (also ExtraForbid: nothing unknown is ever written) — reads back exactly the field values, in
    crown order.  Both sides use the same paths: the leaves of the one crown. -/
theorem dump_load_roundtrip (cfgL : LoadCfg) (cfgD : DumpCfg) (crown : OutCrown) (pol : Policy)
    (obj : List (String × Val))
    (hload : ∀ id v, cfgL.loader id v = .ok v) (hdump : ∀ id v, cfgD.dumper id v = .ok v)
    (hmL : cfgL.move = .none) (hmD : cfgD.move = .none)
    (hwf : crown.wf cfgD = true) (hns : crown.noSieves = true)
    (hroot : crown.isField = false ∧ ∀ ph, crown ≠ .none ph)
    (hfields : ∀ id ∈ crown.fieldIds, ∃ f ∈ cfgD.fields, f.id = id)
    (hobj : ∀ id ∈ crown.fieldIds, ∃ v, Val.lookup id obj = some v) :
    ∃ out, dumpModel cfgD crown obj = .ok out ∧
      loadModel cfgL (crown.toInpCrown pol) out =
        .ok (crown.fieldIds.map fun id => (id, (Val.lookup id obj).getD .none)) none := by
  have hdirect : ∀ f ∈ cfgD.fields.filter (fun f => crown.fieldIds.contains f.id),
      (f.required = true → ∃ raw, Val.lookup f.id obj = some raw) ∧
      (∀ raw, Val.lookup f.id obj = some raw → ∃ v, cfgD.dumper f.id raw = .ok v) := by
    intro f hf
    have hmem : f.id ∈ crown.fieldIds := by simpa using (List.mem_filter.mp hf).2
    exact ⟨fun _ => hobj _ hmem, fun raw _ => ⟨raw, hdump _ _⟩⟩
  refine ⟨_, dumpModel_complete_noextra cfgD crown obj hmD hdirect, ?_⟩
  have hlook : ∀ id ∈ crown.fieldIds,
      Val.lookup id (specVals cfgD obj (cfgD.fields.filter fun f => crown.fieldIds.contains f.id)) =
        Val.lookup id obj := by
    intro id hid
    obtain ⟨f, hf, rfl⟩ := hfields id hid
    obtain ⟨v, hv⟩ := hobj _ hid
    have hany : (cfgD.fields.filter fun g => crown.fieldIds.contains g.id).any (fun g => g.id == f.id) = true := by
      simp only [List.any_eq_true, List.mem_filter, beq_iff_eq]
      exact ⟨f, ⟨hf, by simpa using hid⟩, rfl⟩
    rw [lookup_specVals, hany]
    simp [dumpedOf, hv, hdump]
  have hall : AllVals (specVals cfgD obj (cfgD.fields.filter fun f => crown.fieldIds.contains f.id)) crown.fieldIds := by
    intro id hid
    obtain ⟨v, hv⟩ := hobj id hid
    exact ⟨v, by rw [hlook id hid, hv]⟩
  obtain ⟨hok, hargs⟩ := roundtrip_crown cfgL cfgD obj _ pol hload crown hwf hns hall hroot
  rw [loadModel_ok_iff]
  refine ⟨hok, by simp [hmL, InpExtraMove.targetIds, targetsOk], ?_, by simp [extraOut, hmL]⟩
  rw [hargs]
  simp only [hmL, InpExtraMove.targetIds, specTargets, List.append_nil, fieldVals]
  apply List.map_congr_left
  intro id hid
  rw [hlook id hid]

/-- **witness** (every debug mode, strict and lax, every extra policy incl. ExtraForbid): a nested crown with a
    gap, three fields, an object that also holds fields the crown does not use -/
theorem dump_load_roundtrip_witness (mode : DebugTrail) (strict : Bool) (pol : Policy) :
    ∃ out, dumpModel rtD rtCrown wObj = .ok out ∧
      loadModel (rtL mode strict) (rtCrown.toInpCrown pol) out =
        .ok [("a", .int 1), ("b", .int 2), ("c_", .int 7)] none := by
  obtain ⟨out, h1, h2⟩ := dump_load_roundtrip (rtL mode strict) rtD rtCrown pol wObj (fun _ _ => rfl) (fun _ _ => rfl)
    rfl rfl rfl rfl ⟨rfl, fun ph h => by cases h⟩
    (rtCrown_ids _ (by simp [rtD, wFields]) (by simp [rtD, wFields]) (by simp [rtD, wFields]))
    (rtCrown_ids _ (by simp [wObj, Val.lookup]) (by simp [wObj, Val.lookup]) (by simp [wObj, Val.lookup]))
  refine ⟨out, h1, h2.trans ?_⟩
  simp [rtCrown, OutCrown.fieldIds, OutCrown.fieldIds.goD, OutCrown.fieldIds.goL, wObj, Val.lookup]

/-! ## 8. Where skip / only / omit_default are evaluated: the full location stack

    Sections 1–7 take the three filters as truth tables over the fields.  `Layout/LocPred.lean` models
    `apply_lsc`, the helper that produces those tables from a `LocStackChecker`; the theorems below state which
    table that is, in the words of the predicate documentation (`specMatches`, C10): the predicate is asked
    about the location stack of the *request* extended by the field — so a model that is reached as a field of
    another model (directly or through a container) is filtered by patterns that name its owners. -/

section FullStack
open Adaptix.Pred

/-- **The filters see the whole location stack.**  For every accepted predicate expression (strings, classes,
    `P` chains of any length, combinators), every request stack and every field location, `apply_lsc` raises
    nothing and answers the documented meaning of the predicate on `request.loc_stack + (field location,)`. -/
theorem filter_checked_on_full_stack (W : World) (e : Expr) (c : Checker) (req : LocStack) (floc : Loc)
    (hc : createChecker W e = .ok c) :
    applyLsc W req c floc = .ok (specMatches W e (req ++ [floc])) :=
  Adaptix.Pred.C10.checker_iff_spec W e c (req ++ [floc]) hc (by simp)

/-- the truth table handed to the path rule / the sieve maker is the specification on the full stack -/
theorem filter_table_is_spec (W : World) (dir : Dir) (e : Expr) (c : Checker) (req : LocStack)
    (typeOf : String → Obj) (hc : createChecker W e = .ok c) (f : Field) :
    lscPred W dir req typeOf c f = specMatches W e (req ++ [fieldToLoc dir f.id (typeOf f.id)]) := by
  simp [lscPred, filter_checked_on_full_stack W e c req _ hc]

/-- **A location pattern of k elements used as a filter matches the last k locations of the full stack**:
    the k-th from last is the (k-2)-th location *above* the owning model. -/
theorem pattern_filter_matches_tail (W : World) (cs : List Checker) (req : LocStack) (floc : Loc)
    (hw : ∀ c ∈ cs, c.wf = true) :
    applyLsc W req (.locStackEnd cs) floc = .ok true ↔
      ∃ pre tail, req ++ [floc] = pre ++ tail ∧ tail.length = cs.length ∧
        ∀ j (h : j < cs.length), check W cs[j] (pre ++ tail.take (j + 1)) = .ok true :=
  Adaptix.Pred.C10.chain_matches_tail W cs (req ++ [floc]) hw (by simp)

/-- **`P[Encl].owner.field` reads the location that encloses the owning model.**  For a model requested at
    `pre ++ [encl, owner]` (`owner` = the field / container argument holding the model, `encl` = what holds
    that), a three-element pattern selects the field iff its first element accepts the stack up to `encl`, the
    second the stack up to `owner`, the third the whole stack.  (No side condition: holds for ill-formed
    element checkers too.) -/
theorem three_element_pattern_reads_enclosing_location (W : World) (c1 c2 c3 : Checker) (pre : LocStack)
    (encl owner floc : Loc) :
    applyLsc W (pre ++ [encl, owner]) (.locStackEnd [c1, c2, c3]) floc = .ok true ↔
      check W c1 (pre ++ [encl]) = .ok true ∧ check W c2 (pre ++ [encl, owner]) = .ok true ∧
        check W c3 (pre ++ [encl, owner, floc]) = .ok true := by
  have e0 : reversedSlice (pre ++ [encl, owner] ++ [floc]) 0 = pre ++ [encl, owner, floc] := by
    simp only [reversedSlice]
    rw [List.take_of_length_le (by simp)]
    simp
  have e1 : reversedSlice (pre ++ [encl, owner] ++ [floc]) 1 = pre ++ [encl, owner] := by
    simp only [reversedSlice]
    exact List.take_left' (by simp)
  have e2 : reversedSlice (pre ++ [encl, owner] ++ [floc]) 2 = pre ++ [encl] := by
    have h : pre ++ [encl, owner] ++ [floc] = (pre ++ [encl]) ++ [owner, floc] := by simp
    simp only [reversedSlice]
    rw [h]
    exact List.take_left' (by simp)
  have hl : ¬ (pre ++ [encl, owner] ++ [floc]).length < 3 := by simp
  simp only [applyLsc, check, checkEnd, List.length_cons, List.length_nil, hl, if_false, e0, e1, e2,
    List.reverse_cons, List.reverse_nil, List.nil_append, List.cons_append, pyAll]
  cases check W c3 (pre ++ [encl, owner, floc]) with
  | error x => simp [bind, Except.bind]
  | ok b3 =>
    cases b3 <;> simp [bind, Except.bind, pure, Except.pure]
    cases check W c2 (pre ++ [encl, owner]) with
    | error x => simp
    | ok b2 =>
      cases b2 <;> simp
      cases check W c1 (pre ++ [encl]) with
      | error x => simp
      | ok b1 => cases b1 <;> simp

/-- **skip by location pattern**: a field the `skip` predicate matches *on the full stack* has no path — in the
    documented rule and in the mapping step of the code. -/
theorem skip_on_full_stack_hides_field (W : World) (dir : Dir) (e : Expr) (c : Checker) (req : LocStack)
    (typeOf : String → Obj) (sch : Schema) (style : Style → String → String) (fields : List Field)
    (targets : List String) (f : Field) (hc : createChecker W e = .ok c)
    (hs : sch.skip = lscPred W dir req typeOf c)
    (hm : specMatches W e (req ++ [fieldToLoc dir f.id (typeOf f.id)]) = true) :
    pathOf dir sch style fields targets f = none ∧ mapField dir sch style fields f = none := by
  have hskip : sch.skip f = true := by rw [hs, filter_table_is_spec W dir e c req typeOf hc f, hm]
  refine ⟨skip_over_only dir sch style fields targets f hskip, ?_⟩
  unfold mapField
  simp only [hskip]
  split <;> simp

/-- **only by location pattern**: a field the `only` predicate does not match on the full stack has no path. -/
theorem only_on_full_stack_filters (W : World) (dir : Dir) (e : Expr) (c : Checker) (req : LocStack)
    (typeOf : String → Obj) (sch : Schema) (style : Style → String → String) (fields : List Field)
    (targets : List String) (f : Field) (hc : createChecker W e = .ok c)
    (ho : sch.only = lscPred W dir req typeOf c)
    (hm : specMatches W e (req ++ [fieldToLoc dir f.id (typeOf f.id)]) = false) :
    pathOf dir sch style fields targets f = none ∧ mapField dir sch style fields f = none := by
  have honly : sch.only f = false := by rw [ho, filter_table_is_spec W dir e c req typeOf hc f, hm]
  refine ⟨only_filters dir sch style fields targets f honly, ?_⟩
  unfold mapField
  simp only [honly]
  split <;> simp

/-- **omit_default by location pattern**: the sieve maker puts a sieve on the leaf of a defaulted field iff the
    `omit_default` predicate matches on the full stack. -/
theorem omit_default_on_full_stack (W : World) (dir : Dir) (e : Expr) (c : Checker) (req : LocStack)
    (typeOf : String → Obj) (sch : Schema) (fields : List Field) (p : Path) (f : Field) (d : Val)
    (hc : createChecker W e = .ok c) (hod : sch.omitDefault = lscPred W dir req typeOf c)
    (hf : fields.find? (fun g => g.id == f.id) = some f) (hd : f.default = some d) :
    makeSieves sch fields [(p, .field f.id)] =
      if specMatches W e (req ++ [fieldToLoc dir f.id (typeOf f.id)]) then [(p, d)] else [] := by
  have h : sch.omitDefault f = specMatches W e (req ++ [fieldToLoc dir f.id (typeOf f.id)]) := by
    rw [hod, filter_table_is_spec W dir e c req typeOf hc f]
  simp only [makeSieves, List.filterMap_cons, List.filterMap_nil, hf, hd, h]
  split <;> simp_all

/-! non-vacuity (objects of `C10.demoWorld`: 0 = model Service, 3 = model Audit, 2 = model Credentials; the
    identifiers of that world are `name` and `age`): `skip=P[Service].name.age` hides field `age` of the
    Credentials held by field `name` of Service, and keeps it when the same Credentials model is held by field
    `name` of Audit; on the stack cut down to [owner, field] the pattern would never match. -/

def nestPattern : Expr := .getattr (.getattr (.getitem .P (.ty 0)) "name") "age"
def nestReqService : LocStack := [{ cls := .typeHintLoc, type := 0 }, { cls := .inputFieldLoc, type := 2, fieldId := "name" }]
def nestReqAudit : LocStack := [{ cls := .typeHintLoc, type := 3 }, { cls := .inputFieldLoc, type := 2, fieldId := "name" }]

example : ∃ c, createChecker C10.demoWorld nestPattern = .ok c ∧
    applyLsc C10.demoWorld nestReqService c (fieldToLoc .inp "age" 9) = .ok true ∧
    applyLsc C10.demoWorld nestReqAudit c (fieldToLoc .inp "age" 9) = .ok false ∧
    applyLsc C10.demoWorld (nestReqService.drop 1) c (fieldToLoc .inp "age" 9) = .ok false :=
  ⟨_, rfl, by decide, by decide, by decide⟩

example : specMatches C10.demoWorld nestPattern (nestReqService ++ [fieldToLoc .inp "age" 9]) = true := by decide

end FullStack

/-! ## 7. Non-vacuity: concrete programs evaluated by the kernel -/

/-- a nested path, a gap, an absent optional field with default -/
example : loadModel (exCfg .all) exCrown (.dict [("x", .list [.int 1, .str "gap"])]) =
    .ok [("a", .int 1), ("b", .int 7)] none := by rfl

/-- an unknown key under ExtraForbid, reported with exactly that key -/
example : (match loadModel (exCfg .first) exCrown (.dict [("x", .list [.int 1, .none]), ("zz", .int 0)]) with
    | .error ⟨[], .extraFields ["zz"] _⟩ => true
    | _ => false) = true := by rfl

/-- ALL mode collects the ill-typed field and the missing item -/
example : (match loadModel (exCfg .all) exCrown (.dict [("x", .list [.str "s"]), ("B", .int 2)]) with
    | .aggregate [⟨[.s "x", .i 0], .typeLoad "int" _⟩, ⟨[.s "x"], .noRequiredItems 2 _⟩] => true
    | _ => false) = true := by rfl

end Adaptix.Layout.C03
