/-
  C07 — strict_coercion only narrows the accepted inputs.
  Property theorems only; helper lemmas live in `AdaptixProofs/Lemmas/MorphStrict*.lean`
  (and the shared `MorphModes*.lean`).

  Everything is about `load W ⟨m, strict⟩ fuel T d` of `AdaptixModel/Morph/Load.lean`, for
  all worlds `W`, all three debug_trail modes `m`, all types, data and fuels. The scalar
  leaves are the translated closures behind `W.scalarLoad`; their strict/lax inclusion is
  the hypothesis `LeafNarrowing W` (discharged separately for the translated closures).

  Two side conditions appear, both explained in notes/C07-proofs.md:
  * `T.litFlat` / `WorldNodes W litNodeFlat`: the values of every `Literal[...]` are
    non-container values (the model's `Ty.literal` admits arbitrary values, and `pyEq` is
    not symmetric on ill-formed dict values, while the strict loader tests `v == d` and
    the lax loader `d == v`);
  * for the general acceptance theorem: the lax run does not end in a non-LoadError
    exception. Without it the statement is false (`strict_sub_lax_accept_needs_no_escape`):
    a case of a union that strictly *rejects* may laxly *crash* (real code: lax `int(inf)`).
-/
import AdaptixModel.Morph.Load
import AdaptixProofs.Lemmas.MorphStrictOrigins
import AdaptixProofs.Lemmas.MorphTerminates

namespace Adaptix.Morph.C07

open Adaptix.Py Adaptix.Morph

/-! ## strict acceptance ⊆ lax acceptance -/

/-- **`strict_sub_lax_accept`.** A datum accepted strictly is accepted laxly (possibly with
    another value: a union case that fails strictly may win laxly), provided the lax run
    terminates and does not raise a non-LoadError exception. The two runs may have different
    fuels. -/
theorem strict_sub_lax_accept (W : World) (hW : LeafNarrowing W) (hWl : WorldNodes W litNodeFlat)
    (m : DebugTrail) (n n' : Nat) (T : Ty) (d v : Val) (hT : T.litFlat = true)
    (h : load W ⟨m, true⟩ n T d = .ok v)
    (hdiv : load W ⟨m, false⟩ n' T d ≠ .diverge) (hesc : (load W ⟨m, false⟩ n' T d).isEscape = false) :
    ∃ v', load W ⟨m, false⟩ n' T d = .ok v' := by
  have hs : load W ⟨m, true⟩ (max n n') T d = .ok v := by
    rw [modes_load_mono_le (Nat.le_max_left n n') (by rw [h]; simp), h]
  have hl := modes_load_mono_le (cfg := ⟨m, false⟩) (Nat.le_max_right n n') hdiv
  have hA := strict_narrowA_load W hW hWl m (max n n') T d hT (by rw [hs]; rfl)
  rw [hl] at hA
  cases ho : load W ⟨m, false⟩ n' T d with
  | ok v' => exact ⟨v', rfl⟩
  | err e => rw [ho] at hA; cases hA
  | escape x => rw [ho] at hesc; cases hesc
  | diverge => exact absurd ho hdiv

/-- the same, as rejection: a lax LoadError implies the strict run does not succeed -/
theorem lax_reject_strict_reject (W : World) (hW : LeafNarrowing W) (hWl : WorldNodes W litNodeFlat)
    (m : DebugTrail) (n : Nat) (T : Ty) (d : Val) (hT : T.litFlat = true)
    (h : (load W ⟨m, false⟩ n T d).isErr = true) : (load W ⟨m, true⟩ n T d).isOk = false := by
  cases hs : (load W ⟨m, true⟩ n T d).isOk with
  | false => rfl
  | true =>
    have := strict_narrowA_load W hW hWl m n T d hT hs
    rw [h] at this; cases this

/-- **`strict_sub_lax_accept`, total form.** The termination hypothesis of `strict_sub_lax_accept`
    is not a restriction: when the leaves answer (`LeavesAnswer`, true of the translated closures)
    the lax run terminates for every sufficiently large fuel (`load_terminates`), so: a datum
    accepted strictly (at some fuel) is accepted laxly at EVERY fuel from some `N` on, unless the
    lax run ends in a non-LoadError exception. -/
theorem strict_sub_lax_accept_total (W : World) (hW : LeafNarrowing W) (hA : LeavesAnswer W)
    (hWl : WorldNodes W litNodeFlat) (m : DebugTrail) (n : Nat) (T : Ty) (d v : Val)
    (hT : T.litFlat = true) (h : load W ⟨m, true⟩ n T d = .ok v) :
    ∃ N, ∀ n', N ≤ n' → (load W ⟨m, false⟩ n' T d).isEscape = false →
      ∃ v', load W ⟨m, false⟩ n' T d = .ok v' := by
  obtain ⟨N, hN⟩ := load_terminates W hA ⟨m, false⟩ T d
  exact ⟨N, fun n' hn' hesc => strict_sub_lax_accept W hW hWl m n n' T d v hT h (hN n' hn') hesc⟩

/-! ## equal values unless union cases overlap laxly -/

/-- **`strict_sub_lax_value`.** Under `NoLaxOverlap` (at every general union node the strict
    run reaches, the cases before the strictly winning one are rejected laxly as well) the lax
    loader returns the *same* value — no termination or no-escape hypothesis is needed, the
    lax run follows the strict one. -/
theorem strict_sub_lax_value (W : World) (hW : LeafNarrowing W) (hWl : WorldNodes W litNodeFlat)
    (m : DebugTrail) (n : Nat) (T : Ty) (d v : Val) (hT : T.litFlat = true)
    (hno : NoLaxOverlap W m n T d) (h : load W ⟨m, true⟩ n T d = .ok v) :
    ∀ n', n ≤ n' → load W ⟨m, false⟩ n' T d = .ok v := by
  intro n' hn
  have := strict_narrowV_load W hW hWl m n T d hT hno v h
  rw [modes_load_mono_le hn (by rw [this]; simp), this]

/-- **Union-free types**: the value is identical, unconditionally. -/
theorem strict_sub_lax_value_unionFree (W : World) (hW : LeafNarrowing W)
    (hWl : WorldNodes W litNodeFlat) (hWu : WorldNodes W notUnionNode)
    (m : DebugTrail) (n : Nat) (T : Ty) (d v : Val) (hT : T.litFlat = true) (hU : T.unionFree = true)
    (h : load W ⟨m, true⟩ n T d = .ok v) : load W ⟨m, false⟩ n T d = .ok v :=
  strict_sub_lax_value W hW hWl m n T d v hT (strict_noLaxOverlap_of_unionFree W hWu m n T d hU) h n
    (Nat.le_refl n)

/-! ## strict mode respects the allowed origins (container / literal part) -/

/-- what a successful strict load of the *top node* says about the datum; scalar leaves are
    handled with the translated closures, `Union` delegates to its cases -/
def StrictOrigin (T : Ty) (d v : Val) : Prop :=
  match T with
  | .literal vals =>
    v = d ∧ (boolSensitive vals = true → ∃ l ∈ vals, l.tag = d.tag ∧ Val.pyEq l d = true)
  | .iter f _ _ =>
    d.isMapping = false ∧ d.isStr = false ∧ ∃ xs, d.iterElems = some xs ∧
      ∃ ys, ys.length = xs.length ∧ v = factoryShape f ys
  | .tuple es =>
    d.isMapping = false ∧ d.isStr = false ∧ ∃ xs, d.iterElems = some xs ∧ xs.length = es.length ∧
      ∃ ys, v = .tuple ys
  | .dict _ _ => d.isMapping = true
  | .model _ => d.isMapping = true
  | _ => True

/-- **`strict_respects_origins`.** Strict mode never builds a list/tuple/set… from a `dict` or
    a `str` (lax mode does: see the examples), never accepts a datum of another exact type for
    a bool/0/1-sensitive `Literal` (no `True` for `Literal[1]`), and needs a mapping for dicts
    and models. Stated for the top node of an arbitrary type, fuel and mode, hence for every
    node the loader reaches. -/
theorem strict_respects_origins (W : World) (m : DebugTrail) (n : Nat) (T : Ty) (d v : Val)
    (h : load W ⟨m, true⟩ (n + 1) T d = .ok v) : StrictOrigin T d v := by
  cases T with
  | scalar sc => trivial
  | any => trivial
  | union cases keys => trivial
  | literal vals =>
    rw [modes_load_literal] at h
    exact ⟨strict_origin_literal_any h, fun hb => (strict_origin_literal h hb).2⟩
  | iter f dl e =>
    rw [modes_load_iter] at h
    obtain ⟨h1, h2, xs, hxs, ys, hlen, hb⟩ := strict_origin_iter h
    exact ⟨h1, h2, xs, hxs, ys, hlen, strict_build_shape f ys v hb⟩
  | tuple es =>
    rw [modes_load_tuple] at h
    have := strict_origin_tuple h
    simp only [List.length_map] at this
    exact this
  | dict k v' =>
    rw [modes_load_dict] at h
    obtain ⟨kvs, rfl⟩ := strict_loadDict_ok h
    rfl
  | model cls =>
    rw [modes_load_model] at h
    cases hc : W.classes cls with
    | none => rw [hc] at h; cases h
    | some fields =>
      rw [hc] at h
      obtain ⟨kvs, rfl⟩ := strict_loadModel_ok h
      rfl

/-- no `dict` or `str` to a list (the form asked for in the property) -/
theorem strict_iter_rejects_mapping_and_str (W : World) (m : DebugTrail) (n : Nat) (f : Factory)
    (dl : Bool) (e : Ty) (d v : Val) (h : load W ⟨m, true⟩ (n + 1) (.iter f dl e) d = .ok v) :
    d.isMapping = false ∧ d.isStr = false := by
  have := strict_respects_origins W m n _ d v h
  exact ⟨this.1, this.2.1⟩

theorem strict_tuple_rejects_mapping_and_str (W : World) (m : DebugTrail) (n : Nat) (es : List Ty)
    (d v : Val) (h : load W ⟨m, true⟩ (n + 1) (.tuple es) d = .ok v) :
    d.isMapping = false ∧ d.isStr = false := by
  have := strict_respects_origins W m n _ d v h
  exact ⟨this.1, this.2.1⟩

/-- no bool where an int Literal is required (and no int where a bool Literal is) -/
theorem strict_literal_exact_type (W : World) (m : DebugTrail) (n : Nat) (vals : List Val) (d v : Val)
    (h : load W ⟨m, true⟩ (n + 1) (.literal vals) d = .ok v) (hb : boolSensitive vals = true) :
    ∃ l ∈ vals, l.tag = d.tag ∧ Val.pyEq l d = true :=
  (strict_respects_origins W m n _ d v h).2 hb

/-! ## the no-escape hypothesis of `strict_sub_lax_accept` cannot be dropped

  Full-strength statement: `LeafNarrowing W → load W ⟨m,true⟩ n T d = .ok v →
  load W ⟨m,false⟩ n T d ≠ .diverge → ∃ v', load W ⟨m,false⟩ n T d = .ok v'`.
  It is false, for the code as it is, in two ways:
  * independent of the leaves: `Union[Set[List[Any]], Any]` on `"ab"` — strictly the set case is
    excluded (str) and `Any` wins; laxly the set loader iterates the string, loads `["a"]`,
    `["b"]` and `set()` of lists raises `TypeError`, which the union does not catch (the real
    library does exactly this for `Union[Set[List[str]], str]`);
  * through the leaves: `LeafNarrowing` constrains the lax leaf only where the strict leaf
    *accepts*. A world in which the lax `int` leaf crashes on `inf` (the real
    `int(float('inf'))` raises `OverflowError`) while the strict one rejects it makes
    `Union[int, float]` accept `inf` strictly and crash laxly. -/

/-- a world without classes whose leaves accept everything -/
def Wid : World :=
  { classes := fun _ => none, scalarLoad := fun _ _ d => .ok d, scalarDump := fun _ d => .ok d }

def Tsl : Ty := .union [.iter .set false (.iter .list true .any), .any] ["set", "object"]

theorem sl_strict : ∀ m, load Wid ⟨m, true⟩ 4 Tsl (.str "ab") = .ok (.str "ab") := by
  intro m; cases m <;> rfl
theorem sl_lax_disable : load Wid ⟨.disable, false⟩ 4 Tsl (.str "ab") = .escape "TypeError" := by rfl
theorem sl_lax_all : load Wid ⟨.all, false⟩ 4 Tsl (.str "ab") = .escape "ExceptionGroup" := by rfl

def W₁ : World :=
  { classes := fun _ => none
    scalarLoad := fun strict name d =>
      if name = "int" then
        match d with
        | .int _ => .ok d
        | .float (.inf _) => if strict then .err (LErr.leaf "TypeLoadError" d) else .escape "OverflowError"
        | _ => .err (LErr.leaf "TypeLoadError" d)
      else .ok d
    scalarDump := fun _ d => .ok d }

theorem W₁_narrowing : LeafNarrowing W₁ := by
  intro name d v h
  simp only [W₁] at h ⊢
  by_cases hn : name = "int"
  · simp only [hn, if_true] at h ⊢
    cases d <;> first | exact h | (rename_i f; cases f <;> simp_all)
  · simpa [hn] using h

theorem W₁_litFlat : WorldNodes W₁ litNodeFlat := by
  intro cls fields h; cases h

def Tif : Ty := .union [.scalar "int", .scalar "float"] ["int", "float"]
def dinf : Val := .float (.inf false)

theorem inf_strict : load W₁ ⟨.disable, true⟩ 2 Tif dinf = .ok dinf := by rfl
theorem inf_lax : load W₁ ⟨.disable, false⟩ 2 Tif dinf = .escape "OverflowError" := by rfl

theorem strict_sub_lax_accept_needs_no_escape' :
    ¬ (∀ (W : World) (m : DebugTrail) (n : Nat) (T : Ty) (d v : Val),
        LeafNarrowing W → WorldNodes W litNodeFlat → T.litFlat = true →
        load W ⟨m, true⟩ n T d = .ok v → load W ⟨m, false⟩ n T d ≠ .diverge →
        ∃ v', load W ⟨m, false⟩ n T d = .ok v') := by
  intro h
  obtain ⟨v', hv'⟩ := h Wid .disable 4 Tsl (.str "ab") (.str "ab") (fun _ _ _ h => h)
    (fun _ _ h => by cases h) rfl (sl_strict .disable) (by rw [sl_lax_disable]; simp)
  rw [sl_lax_disable] at hv'
  cases hv'

theorem strict_sub_lax_accept_needs_no_escape :
    ¬ (∀ (W : World) (m : DebugTrail) (n : Nat) (T : Ty) (d v : Val),
        LeafNarrowing W → WorldNodes W litNodeFlat → T.litFlat = true →
        load W ⟨m, true⟩ n T d = .ok v → load W ⟨m, false⟩ n T d ≠ .diverge →
        ∃ v', load W ⟨m, false⟩ n T d = .ok v') := by
  intro h
  obtain ⟨v', hv'⟩ := h W₁ .disable 2 Tif dinf dinf W₁_narrowing W₁_litFlat rfl inf_strict
    (by rw [inf_lax]; simp)
  rw [inf_lax] at hv'
  cases hv'

/-! ## non-vacuity -/

section examples

/-- a world whose leaves ignore the coercion mode -/
def W₀ : World :=
  { classes := fun cls =>
      if cls = "P" then some [⟨"xs", .iter .list true (.literal [.int 1, .int 2]), true, .none⟩] else none
    scalarLoad := fun _ name d => if name = "never" then .err (LErr.leaf "TypeLoadError" d) else .ok d
    scalarDump := fun _ d => .ok d }

theorem W₀_narrowing : LeafNarrowing W₀ := fun _ _ _ h => h

theorem W₀_litFlat : WorldNodes W₀ litNodeFlat := by
  intro cls fields h f hf
  simp only [W₀] at h
  split at h
  · cases h; simp at hf; subst hf; rfl
  · cases h

theorem W₀_unionFree : WorldNodes W₀ notUnionNode := by
  intro cls fields h f hf
  simp only [W₀] at h
  split at h
  · cases h; simp at hf; subst hf; rfl
  · cases h

/-- a model with a `List[Literal[1, 2]]` field: union-free, so strict and lax agree on the value -/
def dP : Val := .dict [(.str "xs", .list [.int 1, .int 2])]

theorem P_strict :
    load W₀ ⟨.all, true⟩ 4 (.model "P") dP = .ok (.obj "P" [("xs", .list [.int 1, .int 2])]) := by
  simp [load, W₀, dP, loadModel, modelItems, Val.lookup, Val.pyEq, seqMode, sweepAll,
    Sweep.finish, bindO, loadIter, strictExcluded, Val.isMapping, Val.isStr, Val.iterElems, idxItems,
    loadLiteral, boolSensitive, typedMem, Val.tag, Factory.build]
example : load W₀ ⟨.all, false⟩ 4 (.model "P") dP = .ok (.obj "P" [("xs", .list [.int 1, .int 2])]) :=
  strict_sub_lax_value_unionFree W₀ W₀_narrowing W₀_litFlat W₀_unionFree .all 4 (.model "P") dP _ rfl rfl
    P_strict

/-- `Union[List[Any], Any]` on a dict: strictly the list case is excluded and `Any` wins; laxly
    the list case iterates the keys and wins — accepted in both modes, *different* values
    (the documented overlap) -/
def Tov : Ty := .union [.iter .list true .any, .any] ["list", "object"]
def dov : Val := .dict [(.str "a", .int 1)]

example : load W₀ ⟨.first, true⟩ 3 Tov dov = .ok dov := by rfl
example : load W₀ ⟨.first, false⟩ 3 Tov dov = .ok (.list [.str "a"]) := by rfl
example : ∃ v', load W₀ ⟨.first, false⟩ 3 Tov dov = .ok v' :=
  strict_sub_lax_accept W₀ W₀_narrowing W₀_litFlat .first 3 3 Tov dov dov rfl rfl
    (by rw [show load W₀ ⟨.first, false⟩ 3 Tov dov = .ok (.list [.str "a"]) from rfl]; simp) rfl
/-- … and `NoLaxOverlap` indeed fails there -/
example : ¬ NoLaxOverlap W₀ .first 3 Tov dov := by
  intro h
  have := (h [.iter .list true .any] .any [] rfl (by intro p hp; simp at hp; subst hp; rfl) rfl).1
    (.iter .list true .any) (by simp)
  cases this

/-- strict rejects `str → list`, `dict → list`, `True` for `Literal[1]`; lax accepts them -/
example : load W₀ ⟨.disable, true⟩ 2 (.iter .list true .any) (.str "ab") =
    .err (LErr.leaf "ExcludedTypeLoadError" (.str "ab")) := by rfl
example : load W₀ ⟨.disable, false⟩ 2 (.iter .list true .any) (.str "ab") =
    .ok (.list [.str "a", .str "b"]) := by rfl
example : load W₀ ⟨.disable, true⟩ 2 (.literal [.int 1]) (.bool true) =
    .err (LErr.leaf "BadVariantLoadError" (.bool true)) := by rfl
example : load W₀ ⟨.disable, false⟩ 2 (.literal [.int 1]) (.bool true) = .ok (.bool true) := by
  simp [load, loadLiteral, Val.memOf, Val.pyEq]
example : load W₀ ⟨.disable, true⟩ 2 (.literal [.int 1]) (.int 1) = .ok (.int 1) := by
  simp [load, loadLiteral, boolSensitive, typedMem, Val.tag, Val.pyEq]

/-- the side condition `litFlat` is an artefact of the model's value universe, not of the code:
    `Val.dict` admits association lists with duplicate keys, on which `pyEq` (`==`) is not
    symmetric; the strict Literal loader evaluates `v == d`, the lax one `d == v` -/
def vdup : Val := .dict [(.int 1, .int 2), (.int 1, .int 2)]
def ddup : Val := .dict [(.int 1, .int 2), (.int 3, .int 4)]

example : load Wid ⟨.disable, true⟩ 1 (.literal [vdup, .int 1]) ddup = .ok ddup := by
  simp [load, loadLiteral, boolSensitive, typedMem, vdup, ddup, Val.tag, Val.pyEq, Val.dictSub, Val.hasKV]
example : load Wid ⟨.disable, false⟩ 1 (.literal [vdup, .int 1]) ddup =
    .err (LErr.leaf "BadVariantLoadError" ddup) := by
  simp [load, loadLiteral, vdup, ddup, Val.memOf, Val.pyEq, Val.dictSub, Val.hasKV]

/-! ### a world whose strict leaves are genuinely narrower, with a `Union` in play

  `W₀` above ignores the coercion mode and its only class is union-free; `W₂` has a strict `int`
  leaf that refuses `bool` (the lax one converts it), two classes, and the type under test contains
  a general `Union` — all hypotheses of `strict_sub_lax_value` (incl. `NoLaxOverlap`) hold together. -/

def W₂ : World :=
  { classes := fun cls =>
      if cls = "P" then some [⟨"xs", .iter .list true (.union [.scalar "int", .scalar "str"] ["int", "str"]), true, .none⟩,
                              ⟨"n", .scalar "int", false, .int 0⟩]
      else if cls = "Q" then some [⟨"p", .model "P", true, .none⟩,
                                   ⟨"tag", .literal [.str "a", .str "b"], true, .none⟩]
      else none
    scalarLoad := fun strict name d =>
      if name = "int" then
        match d with
        | .int _ => .ok d
        | .bool b => if strict then .err (LErr.leaf "TypeLoadError" d) else .ok (.int (if b then 1 else 0))
        | _ => .err (LErr.leaf "TypeLoadError" d)
      else if name = "str" then
        match d with
        | .str _ => .ok d
        | _ => .err (LErr.leaf "TypeLoadError" d)
      else .err (LErr.leaf "TypeLoadError" d)
    scalarDump := fun _ d => .ok d }

theorem W₂_narrowing : LeafNarrowing W₂ := by
  intro name d v h
  simp only [W₂] at h ⊢
  by_cases h1 : name = "int"
  · simp only [h1, if_true] at h ⊢
    cases d <;> simp_all
  · by_cases h2 : name = "str"
    · simp only [h2, if_true] at h ⊢
      exact h
    · simp only [h1, h2, if_false] at h
      cases h

theorem W₂_answers : LeavesAnswer W₂ := by
  intro s name d
  simp only [W₂]
  (repeat' split) <;> simp

theorem W₂_litFlat : WorldNodes W₂ litNodeFlat := by
  intro cls fields h f hf
  simp only [W₂] at h
  split at h
  · cases h; simp at hf; rcases hf with rfl | rfl <;> rfl
  · split at h
    · cases h; simp at hf; rcases hf with rfl | rfl <;> rfl
    · cases h

/-- the strict leaf is strictly narrower: `True` is refused strictly, converted laxly -/
example : W₂.scalarLoad true "int" (.bool true) = .err (LErr.leaf "TypeLoadError" (.bool true)) ∧
    W₂.scalarLoad false "int" (.bool true) = .ok (.int 1) := ⟨rfl, rfl⟩

def Tu : Ty := .iter .list true (.union [.scalar "int", .scalar "str"] ["int", "str"])
def du : Val := .list [.int 1, .str "a"]

theorem Tu_strict : load W₂ ⟨.all, true⟩ 3 Tu du = .ok (.list [.int 1, .str "a"]) := by rfl

theorem Tu_noOverlap : NoLaxOverlap W₂ .all 3 Tu du := by
  intro xs hxs x hx
  cases hxs
  intro pre c post hdec hpre hc
  simp at hx
  rcases pre with _ | ⟨p1, _ | ⟨p2, pre⟩⟩
  · simp at hdec
    obtain ⟨rfl, rfl⟩ := hdec
    exact ⟨by simp, trivial⟩
  · simp at hdec
    obtain ⟨rfl, rfl, rfl⟩ := hdec
    refine ⟨?_, trivial⟩
    intro p hp
    simp at hp
    subst hp
    rcases hx with rfl | rfl
    · have := hpre (.scalar "int") (by simp)
      exact absurd this (by decide)
    · rfl
  · simp at hdec

/-- `strict_sub_lax_value` with a Union, all hypotheses discharged -/
example : ∀ n', 3 ≤ n' → load W₂ ⟨.all, false⟩ n' Tu du = .ok (.list [.int 1, .str "a"]) :=
  strict_sub_lax_value W₂ W₂_narrowing W₂_litFlat .all 3 Tu du _ rfl Tu_noOverlap Tu_strict

/-- `strict_sub_lax_accept_total`, all hypotheses discharged -/
example : ∃ N, ∀ n', N ≤ n' → (load W₂ ⟨.all, false⟩ n' Tu du).isEscape = false →
    ∃ v', load W₂ ⟨.all, false⟩ n' Tu du = .ok v' :=
  strict_sub_lax_accept_total W₂ W₂_narrowing W₂_answers W₂_litFlat .all 3 Tu du _ rfl Tu_strict

/-- `lax_reject_strict_reject` on a run where the premise holds: `[True, []]` is rejected laxly
    (the list element fits neither case), hence not accepted strictly -/
example : (load W₂ ⟨.first, true⟩ 3 Tu (.list [.bool true, .list []])).isOk = false :=
  lax_reject_strict_reject W₂ W₂_narrowing W₂_litFlat .first 3 Tu _ rfl (by rfl)

/-- … while `[True]` shows the inclusion is strict: refused strictly, accepted laxly -/
example : (load W₂ ⟨.first, true⟩ 3 Tu (.list [.bool true])).isErr = true ∧
    load W₂ ⟨.first, false⟩ 3 Tu (.list [.bool true]) = .ok (.list [.int 1]) := ⟨rfl, rfl⟩

end examples

end Adaptix.Morph.C07
