/-
  C09 — Recipe resolution is first-match in recipe order; chaining composes exactly once.
  Property theorems only; helper lemmas live in `AdaptixProofs/Lemmas/Router.lean`.
-/
import AdaptixModel.Retort.Router
import AdaptixProofs.Lemmas.Router
import AdaptixProofs.Lemmas.RouterLog

namespace Adaptix.Router.C09

open Adaptix.Router

/-- **Order and completeness of consultation.**  For every recipe (list of
    checker/handler pairs, of any length, with exact-origin and arbitrary other
    checkers in any arrangement) and every request, the handlers the optimised
    router hands out when each consulted handler declines or delegates to the
    next are exactly the handlers whose checker matches, in recipe order. -/
theorem combine_refines_linear {H : Type} (cs : List (Checker × H)) (r : Req) :
    visit (combine cs) r ((combine cs).length + 1) 0 = matching r cs := by
  rw [visit_eq_answers _ _ _ _ (by omega)]
  simpa using answers_combine r cs

/-- The first handler consulted is the first matching one of the recipe. -/
theorem first_match {H : Type} (cs : List (Checker × H)) (r : Req) :
    (route (combine cs) r 0).map (·.1) = (matching r cs).head? := by
  have h := combine_refines_linear cs r
  unfold visit at h
  cases hr : route (combine cs) r 0 with
  | none => rw [hr] at h; simp at h; simp [h]
  | some p => rw [hr] at h; simp at h; simp [← h]

/-- **No provider is consulted twice**: label each recipe entry with its
    position; the consulted positions are strictly increasing. -/
theorem no_provider_twice (cs : List Checker) (r : Req) :
    let labelled := cs.zipIdx
    (visit (combine labelled) r ((combine labelled).length + 1) 0).Pairwise (· < ·) := by
  intro labelled
  rw [combine_refines_linear]
  unfold matching
  have hp : (cs.zipIdx).Pairwise (fun a b => a.2 < b.2) := by
    have h1 : ((cs.zipIdx).map Prod.snd).Pairwise (· < ·) := by
      rw [List.zipIdx_map_snd]; exact List.pairwise_lt_range'
    exact List.pairwise_map.mp h1
  exact List.pairwise_map.mpr ((hp.filter _).imp (fun h => h))

/-- **The bus implements the documented meaning**: sending a request through
    the combined router equals the specification evaluated on the matching
    handlers in recipe order (declines fall through, a terminal decline stops,
    chaining wraps the result of the rest). -/
theorem send_eq_spec (cs : List (Checker × Handler)) (r : Req) :
    send (combine cs) r ((combine cs).length + 1) 0 = specSend (matching r cs) := by
  rw [send_eq_spec_answers _ _ _ _ (by omega)]
  simpa using congrArg specSend (answers_combine r cs)

/-- **Chain.FIRST composes once, user function first**, wherever the chaining
    provider stands among the matching providers (all earlier ones declining). -/
theorem chain_first_once (pre rest : List Handler) (f : Nat) (w : List Nat)
    (hpre : ∀ h ∈ pre, h = Handler.decline) (hrest : specSend rest = .ok w) :
    specSend (pre ++ Handler.chainFirst f :: rest) = .ok (f :: w) := by
  induction pre with
  | nil => simp [specSend, hrest]
  | cons a t ih =>
    have ha : a = Handler.decline := hpre a (by simp)
    subst ha
    simpa [specSend] using ih (fun h hh => hpre h (by simp [hh]))

/-- **Chain.LAST composes once, user function last.** -/
theorem chain_last_once (pre rest : List Handler) (f : Nat) (w : List Nat)
    (hpre : ∀ h ∈ pre, h = Handler.decline) (hrest : specSend rest = .ok w) :
    specSend (pre ++ Handler.chainLast f :: rest) = .ok (w ++ [f]) := by
  induction pre with
  | nil => simp [specSend, hrest]
  | cons a t ih =>
    have ha : a = Handler.decline := hpre a (by simp)
    subst ha
    simpa [specSend] using ih (fun h hh => hpre h (by simp [hh]))

/-- End-to-end corollary for the real router: a chaining provider followed by
    providers of which the first matching one responds `w`. -/
theorem chain_first_via_router (cs : List (Checker × Handler)) (r : Req)
    (pre rest : List Handler) (f : Nat) (w : List Nat)
    (hm : matching r cs = pre ++ Handler.chainFirst f :: rest)
    (hpre : ∀ h ∈ pre, h = Handler.decline) (hrest : specSend rest = .ok w) :
    send (combine cs) r ((combine cs).length + 1) 0 = .ok (f :: w) := by
  rw [send_eq_spec, hm, chain_first_once pre rest f w hpre hrest]

/-- later providers are consulted only if the earlier matching one declined:
    a responding provider shadows everything after it. -/
theorem respond_shadows (w : List Nat) (rest : List Handler) :
    specSend (Handler.respond w :: rest) = .ok w := by simp [specSend]

/-- `extend` prepends to the instance recipe and changes nothing else. -/
theorem extend_prepends {P : Type} (rr : RetortRecipe P) (new : List P) :
    (rr.extend new).full = rr.head ++ new ++ rr.inst ++ rr.cls ++ rr.tail := by
  simp [RetortRecipe.extend, RetortRecipe.full]

/-- instance recipe before class recipes: a matching provider of the instance
    recipe is consulted before every provider of the class recipe. -/
theorem instance_before_class {H : Type} (rr : RetortRecipe (Checker × H)) (r : Req) :
    matching r rr.full =
      matching r rr.head ++ matching r rr.inst ++ matching r rr.cls ++ matching r rr.tail := by
  simp [RetortRecipe.full, matching, List.filter_append]

/-- the `Chain.LAST` counterpart of `chain_first_via_router` -/
theorem chain_last_via_router (cs : List (Checker × Handler)) (r : Req)
    (pre rest : List Handler) (f : Nat) (w : List Nat)
    (hm : matching r cs = pre ++ Handler.chainLast f :: rest)
    (hpre : ∀ h ∈ pre, h = Handler.decline) (hrest : specSend rest = .ok w) :
    send (combine cs) r ((combine cs).length + 1) 0 = .ok (w ++ [f]) := by
  rw [send_eq_spec, hm, chain_last_once pre rest f w hpre hrest]

/-! ### The consultation log of the bus itself (not only of the all-decline walk)

  `sendLog` (`Lemmas/RouterLog.lean`) is `send` instrumented with the handlers it invokes.  `H` is any label
  type, e.g. the handler paired with its recipe position; `act` reads the behaviour off the label. -/

/-- the instrumentation does not change the outcome: the logged bus returns what `send` returns -/
theorem send_log_result {H : Type} (act : H → Handler) (cs : List (Checker × H)) (r : Req) :
    (sendLog act (combine cs) r ((combine cs).length + 1) 0).1 =
      send (combine (cs.map fun p => (p.1, act p.2))) r
        ((combine (cs.map fun p => (p.1, act p.2))).length + 1) 0 := by
  rw [send_eq_spec, matching_map, sendLog_eq_specLog _ _ _ _ _ (by omega), specLog_fst]
  simpa using congrArg (fun l => specSend (l.map act)) (answers_combine r cs)

/-- **Who is consulted.**  For every recipe and request that is served (or stopped by a terminal decline), the
    handlers the bus invokes - through the optimised router, with chaining providers delegating to the next -
    are exactly the matching providers in recipe order up to and including the first one that neither declines
    nor delegates; nothing after it is consulted. -/
theorem served_request_consults_prefix {H : Type} (act : H → Handler) (cs : List (Checker × H)) (r : Req)
    (hfound : specSend ((matching r cs).map act) ≠ .notFound) :
    (sendLog act (combine cs) r ((combine cs).length + 1) 0).2 = consulted act (matching r cs) := by
  rw [sendLog_eq_specLog _ _ _ _ _ (by omega)]
  have h : answers r ((combine cs).drop 0) = matching r cs := by simpa using answers_combine r cs
  rw [h]
  exact specLog_snd_found act _ (by rw [specLog_fst]; exact hfound)

/-- **Providers after the serving one are consulted only if it declines or delegates**: in the log of a served
    request every handler but the last passed the request on (declined or chained to the next), the last one
    decided it, and the log is an initial segment of the matching providers. -/
theorem later_consulted_only_after_delegation {H : Type} (act : H → Handler) (cs : List (Checker × H)) (r : Req)
    (hfound : specSend ((matching r cs).map act) ≠ .notFound) :
    let log := (sendLog act (combine cs) r ((combine cs).length + 1) 0).2
    log <+: matching r cs ∧ (∀ h ∈ log.dropLast, (act h).passesOn = true) ∧
      ∃ h, log.getLast? = some h ∧ (act h).passesOn = false := by
  intro log
  have hlog : log = consulted act (matching r cs) := served_request_consults_prefix act cs r hfound
  rw [hlog]
  exact ⟨consulted_prefix act _, consulted_init_delegates act _, consulted_last_decides act _ hfound⟩

/-- **No provider is consulted twice for a served request** - for the bus with chaining and declining
    handlers, not only for the walk: the recipe positions of the invoked handlers are strictly increasing. -/
theorem no_provider_twice_send (cs : List (Checker × Handler)) (r : Req)
    (hfound : send (combine cs) r ((combine cs).length + 1) 0 ≠ .notFound) :
    ((sendLog Prod.fst (combine (labelled cs)) r ((combine (labelled cs)).length + 1) 0).2.map (·.2)).Pairwise
      (· < ·) := by
  have hmap : (labelled cs).map (fun p => (p.1, p.2.1)) = cs := by
    simp only [labelled, List.map_map]
    have : ((fun p : Checker × (Handler × Nat) => (p.1, p.2.1)) ∘
        fun p : (Checker × Handler) × Nat => (p.1.1, (p.1.2, p.2))) = Prod.fst := by
      funext p; rfl
    rw [this, List.zipIdx_map_fst]
  have hf : specSend ((matching r (labelled cs)).map Prod.fst) ≠ .notFound := by
    rw [← matching_map (fun q : Handler × Nat => q.1), hmap, ← send_eq_spec]
    exact hfound
  rw [served_request_consults_prefix Prod.fst (labelled cs) r hf]
  have hp : (labelled cs).Pairwise (fun a b => a.2.2 < b.2.2) := by
    unfold labelled
    apply List.pairwise_map.mpr
    have h1 : ((cs.zipIdx).map Prod.snd).Pairwise (· < ·) := by
      rw [List.zipIdx_map_snd]; exact List.pairwise_lt_range'
    exact List.pairwise_map.mp h1
  have hm : (matching r (labelled cs)).Pairwise (fun a b => a.2 < b.2) := by
    unfold matching
    exact List.pairwise_map.mpr ((hp.filter _).imp (fun h => h))
  exact List.pairwise_map.mpr ((hm.sublist (consulted_prefix _ _).sublist).imp (fun h => h))

/-- the hypothesis of `no_provider_twice_send` is needed, and this is the behaviour of the code: when a
    chaining provider's delegated search finds nothing, `provide_from_next` raises a non-terminal
    `CannotProvide` out of the chaining handler and `_send_inner` continues after it - the remaining providers
    are walked a second time (position 1 below is invoked twice; the outcome is the failure either way).
    DESIGN.md records the reading: "consulted twice" is per search of the router. -/
example :
    let cs : List (Checker × Handler) := [(.exact 0, .chainFirst 7), (.other 0, .decline)]
    let r : Req := { origin := 0, sat := fun _ => true }
    sendLog Prod.fst (combine (labelled cs)) r 3 0 =
      (.notFound, [(.chainFirst 7, 0), (.decline, 1), (.decline, 1)]) := by decide

/-- a served request with a declining, a chaining and a responding provider, a combo table in the router and a
    shadowed provider behind: hypotheses of the three theorems above hold, positions 0, 1, 3 are invoked once -/
example :
    let cs : List (Checker × Handler) :=
      [(.exact 0, .decline), (.other 0, .chainLast 7), (.exact 1, .respond [1]), (.exact 0, .respond [9]),
       (.other 1, .respond [5])]
    let r : Req := { origin := 0, sat := fun _ => true }
    send (combine cs) r ((combine cs).length + 1) 0 = .ok [9, 7] ∧
    (sendLog Prod.fst (combine (labelled cs)) r ((combine (labelled cs)).length + 1) 0).2.map (·.2) = [0, 1, 3] := by
  decide

/-! ### A retort placed in a recipe -/

/-- **A retort in a recipe serves matched requests from its own recipe**: whatever the inner retort's own bus
    answers for the request is the answer (the outer providers behind it are not asked), a terminal decline of
    the inner search stops the outer one, and only if the inner recipe has nothing does the outer recipe
    continue behind the retort.  Earlier outer providers that match must have declined for the retort to be
    reached at all (`hpre`). -/
theorem nested_retort_serves_own_recipe (inner outerPre outerPost : List (Checker × Handler)) (always : Nat)
    (r : Req) (hal : r.sat always = true) (hpre : ∀ h ∈ matching r outerPre, h = Handler.decline) :
    let innerRes := send (combine inner) r ((combine inner).length + 1) 0
    let cs := outerPre ++ (Checker.other always, nestedHandler innerRes) :: outerPost
    send (combine cs) r ((combine cs).length + 1) 0 =
      match specSend (matching r inner) with
      | .ok w => .ok w
      | .terminal => .terminal
      | .notFound => specSend (matching r outerPost) := by
  intro innerRes cs
  have hi : innerRes = specSend (matching r inner) := send_eq_spec inner r
  have hm : matching r cs = matching r outerPre ++ nestedHandler innerRes :: matching r outerPost := by
    show matching r (outerPre ++ (Checker.other always, nestedHandler innerRes) :: outerPost) = _
    rw [matching_append]
    simp [matching, Checker.check, hal]
  rw [send_eq_spec, hm, specSend_append_declines _ _ hpre, hi]
  cases specSend (matching r inner) <;> simp [nestedHandler, specSend]

/-- non-vacuity of `nested_retort_serves_own_recipe`, `chain_first_once`, `chain_last_once` and the
    `*_via_router` corollaries: hypotheses that hold together on recipes with several providers -/
example :
    let inner : List (Checker × Handler) := [(.exact 1, .respond [1]), (.exact 0, .chainFirst 3), (.other 2, .respond [4])]
    let outerPre : List (Checker × Handler) := [(.exact 0, .decline), (.exact 1, .respond [8])]
    let r : Req := { origin := 0, sat := fun _ => true }
    r.sat 5 = true ∧ (∀ h ∈ matching r outerPre, h = Handler.decline) ∧
      specSend (matching r inner) = .ok [3, 4] := by
  refine ⟨rfl, ?_, by decide⟩
  intro h hh
  have : matching { origin := 0, sat := fun _ => true } [(Checker.exact 0, Handler.decline), (.exact 1, .respond [8])]
      = [Handler.decline] := by decide
  rw [this] at hh
  simpa using hh

example :
    let cs : List (Checker × Handler) :=
      [(.exact 0, .decline), (.other 0, .decline), (.exact 0, .chainFirst 7), (.exact 1, .respond [1]), (.other 1, .respond [2])]
    let r : Req := { origin := 0, sat := fun _ => true }
    matching r cs = [Handler.decline, .decline] ++ Handler.chainFirst 7 :: [.respond [2]] ∧
      (∀ h ∈ [Handler.decline, Handler.decline], h = Handler.decline) ∧ specSend [.respond [2]] = .ok [2] := by
  refine ⟨by decide, by simp, by decide⟩

/-! ### Retort trees: nesting commutes with derivation -/

theorem flat_append (r : Req) (d opt : Nat) (a b : List Prov) :
    flat r (d + 1) opt (a ++ b) = flat r (d + 1) opt a ++ flat r (d + 1) opt b := by
  simp [flat]

/-- a retort serves every request by the first-match / chaining meaning of its flattened full recipe -/
theorem serve_tree_eq_spec (r : Req) (d opt : Nat) (ps : List Prov) :
    serveTree r d opt ps = specSend (matching r (flat r d opt ps)) :=
  send_eq_spec _ r

/-- **A retort placed in a recipe - plain or `bound(pred, retort)`, at any depth of nesting - serves matched requests
    from its OWN recipe and its OWN option** (`inner`, `o`), whatever the option `opt` and the rest of the recipe of
    the enclosing retort: the answer of its own recipe is the answer, a terminal decline stops the outer search, and
    only when its own recipe has nothing does the outer recipe continue behind it. -/
theorem nested_tree_serves_own_recipe (pre post inner : List Prov) (c : Checker) (o opt d : Nat) (r : Req)
    (hc : c.check r = true) (hpre : ∀ h ∈ matching r (flat r (d + 1) opt pre), h = Handler.decline) :
    serveTree r (d + 1) opt (pre ++ Prov.nested c o inner :: post) =
      match serveTree r d o inner with
      | .ok w => .ok w
      | .terminal => .terminal
      | .notFound => serveTree r (d + 1) opt post := by
  rw [serve_tree_eq_spec, flat_append, matching_append]
  have hcons : flat r (d + 1) opt (Prov.nested c o inner :: post) =
      (c, nestedHandler (serveTree r d o inner)) :: flat r (d + 1) opt post := by
    simp [flat, serveTree]
  rw [hcons, specSend_append_declines _ _ hpre]
  have hm : matching r ((c, nestedHandler (serveTree r d o inner)) :: flat r (d + 1) opt post) =
      nestedHandler (serveTree r d o inner) :: matching r (flat r (d + 1) opt post) := by
    simp [matching, hc]
  rw [hm, serve_tree_eq_spec r (d + 1) opt post]
  cases serveTree r d o inner <;> simp [nestedHandler, specSend]

/-- **Nesting commutes with `extend`**: a retort derived by `extend(recipe=new)` and THEN placed in a recipe serves
    the request by `new` first and the recipe of the retort it was derived from behind it (first-match / chaining over
    `new ++ old`, with the option unchanged) - the provider it becomes is a function of its own value only. -/
theorem nested_extend_prepends (v : RetortV) (new pre post : List Prov) (c : Checker) (opt d : Nat) (r : Req)
    (hc : c.check r = true) (hpre : ∀ h ∈ matching r (flat r (d + 2) opt pre), h = Handler.decline) :
    serveTree r (d + 2) opt (pre ++ (v.extend new).asProvider c :: post) =
      match specSend (matching r (flat r (d + 1) v.opt new) ++ matching r (flat r (d + 1) v.opt v.full)) with
      | .ok w => .ok w
      | .terminal => .terminal
      | .notFound => serveTree r (d + 2) opt post := by
  have h := nested_tree_serves_own_recipe pre post (v.extend new).full c v.opt opt (d + 1) r hc hpre
  have hf : (v.extend new).full = new ++ v.full := by simp [RetortV.extend, RetortV.full]
  rw [hf, serve_tree_eq_spec r (d + 1) v.opt (new ++ v.full), flat_append, matching_append] at h
  have hp : (v.extend new).asProvider c = Prov.nested c v.opt (new ++ v.full) := by
    show Prov.nested c (v.extend new).opt (v.extend new).full = _
    rw [hf]; rfl
  rw [hp]
  exact h

/-- **Nesting commutes with `replace`**: a retort derived by `replace(option)` and then placed in a recipe serves the
    request from the unchanged recipe under the NEW option. -/
theorem nested_replace_only_option (v : RetortV) (o : Nat) (pre post : List Prov) (c : Checker) (opt d : Nat) (r : Req)
    (hc : c.check r = true) (hpre : ∀ h ∈ matching r (flat r (d + 1) opt pre), h = Handler.decline) :
    serveTree r (d + 1) opt (pre ++ (v.replace o).asProvider c :: post) =
      match serveTree r d o v.full with
      | .ok w => .ok w
      | .terminal => .terminal
      | .notFound => serveTree r (d + 1) opt post :=
  nested_tree_serves_own_recipe pre post v.full c o opt d r hc hpre

/-- `extend` / `replace` leave the source retort (and so every recipe it is already placed in) as it was, and the
    derived retort used directly serves by `new ++ old` / the new option -/
theorem derived_direct (v : RetortV) (new : List Prov) (o d : Nat) (r : Req) :
    serveTree r (d + 1) (v.extend new).opt (v.extend new).full =
        specSend (matching r (flat r (d + 1) v.opt new) ++ matching r (flat r (d + 1) v.opt v.full)) ∧
      serveTree r d (v.replace o).opt (v.replace o).full = serveTree r d o v.full := by
  refine ⟨?_, rfl⟩
  have hf : (v.extend new).full = new ++ v.full := by simp [RetortV.extend, RetortV.full]
  rw [hf, serve_tree_eq_spec, flat_append, matching_append]
  rfl

/-- non-vacuity: a strict retort with `[A -> 0, int -> chainLast 1]`, extended by `[Base -> chainFirst 2]` /
    replaced to lax, then placed (bound to the request) into a strict enclosing retort -/
example :
    let cls : List Prov := [.builtin (.exact 2)]
    let v : RetortV := { opt := 0, inst := [.plain (.exact 0) (.respond [0]), .plain (.exact 2) (.chainLast 1)], cls := cls }
    let rA : Req := { origin := 0, sat := fun i => i == 0 || i == 1 }
    let rI : Req := { origin := 2, sat := fun i => i == 0 }
    serveTree rA 3 0 ((v.extend [.plain (.other 1) (.chainFirst 2)]).asProvider (.other 0) :: cls) = .ok [2, 0] ∧
      serveTree rI 3 0 ((v.replace 1).asProvider (.other 0) :: cls) = .ok [1001, 1] ∧
      serveTree rI 3 0 (v.asProvider (.other 0) :: cls) = .ok [1000, 1] := by
  decide

/-! Non-vacuity: a concrete recipe with a one-element combo followed by a
    non-exact checker (the arrangement on which the unrepaired combiner
    duplicated the handler). -/
example :
    let cs : List (Checker × Handler) :=
      [(.exact 0, .chainFirst 7), (.other 0, .decline), (.exact 1, .respond [1]), (.exact 0, .respond [9])]
    let r : Req := { origin := 0, sat := fun _ => true }
    send (combine cs) r ((combine cs).length + 1) 0 = .ok [7, 9] := by decide

example :
    let cs : List (Checker × Nat) := [(.exact 0, 10), (.other 0, 11), (.exact 0, 12)]
    let r : Req := { origin := 0, sat := fun _ => true }
    visit (combine cs) r 5 0 = [10, 11, 12] := by decide

end Adaptix.Router.C09
