/-
  C09 — Recipe resolution is first-match in recipe order; chaining composes exactly once.
  Property theorems only; helper lemmas live in `AdaptixProofs/Lemmas/Router.lean`.
-/
import AdaptixModel.Retort.Router
import AdaptixProofs.Lemmas.Router

namespace Adaptix.Router.C09

open Adaptix.Router

/-- **Order and completeness of consultation.**  For every recipe (list of
    checker/handler pairs, of any length, with exact-origin and arbitrary other
    checkers in any arrangement) and every request, the handlers the optimised
    router hands out when each consulted handler declines or delegates to the
    next are exactly the handlers whose checker matches, in recipe order. -/
theorem combine_refines_linear {H : Type} (cs : List (Checker × H)) (r : Req) :
    visit (combine cs) r ((combine cs).length + 1) 0 = matching r cs := by
  rw [visit_eq_answers _ _ _ _ (by omega)]
  simpa using answers_combine r cs

/-- The first handler consulted is the first matching one of the recipe. -/
theorem first_match {H : Type} (cs : List (Checker × H)) (r : Req) :
    (route (combine cs) r 0).map (·.1) = (matching r cs).head? := by
  have h := combine_refines_linear cs r
  unfold visit at h
  cases hr : route (combine cs) r 0 with
  | none => rw [hr] at h; simp at h; simp [h]
  | some p => rw [hr] at h; simp at h; simp [← h]

/-- **No provider is consulted twice**: label each recipe entry with its
    position; the consulted positions are strictly increasing. -/
theorem no_provider_twice (cs : List Checker) (r : Req) :
    let labelled := cs.zipIdx
    (visit (combine labelled) r ((combine labelled).length + 1) 0).Pairwise (· < ·) := by
  intro labelled
  rw [combine_refines_linear]
  unfold matching
  have hp : (cs.zipIdx).Pairwise (fun a b => a.2 < b.2) := by
    have h1 : ((cs.zipIdx).map Prod.snd).Pairwise (· < ·) := by
      rw [List.zipIdx_map_snd]; exact List.pairwise_lt_range'
    exact List.pairwise_map.mp h1
  exact List.pairwise_map.mpr ((hp.filter _).imp (fun h => h))

/-- **The bus implements the documented meaning**: sending a request through
    the combined router equals the specification evaluated on the matching
    handlers in recipe order (declines fall through, a terminal decline stops,
    chaining wraps the result of the rest). -/
theorem send_eq_spec (cs : List (Checker × Handler)) (r : Req) :
    send (combine cs) r ((combine cs).length + 1) 0 = specSend (matching r cs) := by
  rw [send_eq_spec_answers _ _ _ _ (by omega)]
  simpa using congrArg specSend (answers_combine r cs)

/-- **Chain.FIRST composes once, user function first**, wherever the chaining
    provider stands among the matching providers (all earlier ones declining). -/
theorem chain_first_once (pre rest : List Handler) (f : Nat) (w : List Nat)
    (hpre : ∀ h ∈ pre, h = Handler.decline) (hrest : specSend rest = .ok w) :
    specSend (pre ++ Handler.chainFirst f :: rest) = .ok (f :: w) := by
  induction pre with
  | nil => simp [specSend, hrest]
  | cons a t ih =>
    have ha : a = Handler.decline := hpre a (by simp)
    subst ha
    simpa [specSend] using ih (fun h hh => hpre h (by simp [hh]))

/-- **Chain.LAST composes once, user function last.** -/
theorem chain_last_once (pre rest : List Handler) (f : Nat) (w : List Nat)
    (hpre : ∀ h ∈ pre, h = Handler.decline) (hrest : specSend rest = .ok w) :
    specSend (pre ++ Handler.chainLast f :: rest) = .ok (w ++ [f]) := by
  induction pre with
  | nil => simp [specSend, hrest]
  | cons a t ih =>
    have ha : a = Handler.decline := hpre a (by simp)
    subst ha
    simpa [specSend] using ih (fun h hh => hpre h (by simp [hh]))

/-- End-to-end corollary for the real router: a chaining provider followed by
    providers of which the first matching one responds `w`. -/
theorem chain_first_via_router (cs : List (Checker × Handler)) (r : Req)
    (pre rest : List Handler) (f : Nat) (w : List Nat)
    (hm : matching r cs = pre ++ Handler.chainFirst f :: rest)
    (hpre : ∀ h ∈ pre, h = Handler.decline) (hrest : specSend rest = .ok w) :
    send (combine cs) r ((combine cs).length + 1) 0 = .ok (f :: w) := by
  rw [send_eq_spec, hm, chain_first_once pre rest f w hpre hrest]

/-- later providers are consulted only if the earlier matching one declined:
    a responding provider shadows everything after it. -/
theorem respond_shadows (w : List Nat) (rest : List Handler) :
    specSend (Handler.respond w :: rest) = .ok w := by simp [specSend]

/-- `extend` prepends to the instance recipe and changes nothing else. -/
theorem extend_prepends {P : Type} (rr : RetortRecipe P) (new : List P) :
    (rr.extend new).full = rr.head ++ new ++ rr.inst ++ rr.cls ++ rr.tail := by
  simp [RetortRecipe.extend, RetortRecipe.full]

/-- instance recipe before class recipes: a matching provider of the instance
    recipe is consulted before every provider of the class recipe. -/
theorem instance_before_class {H : Type} (rr : RetortRecipe (Checker × H)) (r : Req) :
    matching r rr.full =
      matching r rr.head ++ matching r rr.inst ++ matching r rr.cls ++ matching r rr.tail := by
  simp [RetortRecipe.full, matching, List.filter_append]

/-! Non-vacuity: a concrete recipe with a one-element combo followed by a
    non-exact checker (the arrangement on which the unrepaired combiner
    duplicated the handler). -/
example :
    let cs : List (Checker × Handler) :=
      [(.exact 0, .chainFirst 7), (.other 0, .decline), (.exact 1, .respond [1]), (.exact 0, .respond [9])]
    let r : Req := { origin := 0, sat := fun _ => true }
    send (combine cs) r ((combine cs).length + 1) 0 = .ok [7, 9] := by decide

example :
    let cs : List (Checker × Nat) := [(.exact 0, 10), (.other 0, 11), (.exact 0, 12)]
    let r : Req := { origin := 0, sat := fun _ => true }
    visit (combine cs) r 5 0 = [10, 11, 12] := by decide

end Adaptix.Router.C09
