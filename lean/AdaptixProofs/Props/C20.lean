/-
  C20 — load, dump and convert are pure with respect to their arguments.
  Property theorems only; the provenance model is `AdaptixModel/Morph/Prov.lean`, the
  specification vocabulary (`LPos`, `DPos`, `AsIsLoad`, `AsIsDump`, `LoadClause`, `DumpClause`)
  `AdaptixProofs/Lemmas/MorphProvSpec.lean`, helper lemmas `AdaptixProofs/Lemmas/MorphProv*.lean`.

  What is a theorem here and what is not:
    * The model is a pure function. "The argument is not mutated" therefore holds in the model BY
      CONSTRUCTION and says nothing about the Python code; for the real library that clause is
      established only by the harness (deep snapshots of the argument before / after every call).
    * What IS proved: the provenance-annotated model is the frozen model (`loadP_erase`,
      `dumpP_erase`), and in it every node of every result, for every world / type / datum / fuel /
      debug-trail / coercion mode, is either created by the call, or handed through at a position
      the documentation declares as-is, or (load) part of a default the generated loader captured
      as a constant, or (dump) an immutable field-name string constant.
    * Allocation identities are assigned to the `fresh` nodes by a counter (`label`); the
      uniqueness theorems say that this numbering never repeats an id inside a result or across
      two successive calls.  That every `fresh` annotation really is one new Python object per
      call is what the correspondence (`id()` overlap checks) ties to the code.
-/
import AdaptixModel.Morph.Prov
import AdaptixProofs.Lemmas.MorphProvSpec
import AdaptixProofs.Lemmas.MorphProvRefine
import AdaptixProofs.Lemmas.MorphProvLoad
import AdaptixProofs.Lemmas.MorphProvDump
import AdaptixProofs.Lemmas.MorphProvAlloc
import AdaptixProofs.Lemmas.MorphProvLit
import AdaptixProofs.Lemmas.MorphProvExamples

namespace Adaptix.Morph.C20

open Adaptix.Py Adaptix.Morph

/-! ### refinement: the provenance model is the frozen model -/

/-- Forgetting the annotations of `loadP` gives exactly `load` — same value, same error, same
    escape, same divergence — whatever the default provenances are. -/
theorem loadP_erase (W : World) (cfg : Cfg) (dp : String → String → Prov) (n : Nat) (T : Ty) (d : Val) :
    (loadP W cfg dp n T d).map PVal.erase = load W cfg n T d :=
  Adaptix.Morph.loadP_erase W cfg dp n T d

theorem dumpP_erase (W : World) (DW : DumpWorld) (cfg : Cfg) (n : Nat) (T : Ty) (x : Val) :
    (dumpP W DW cfg n T x).map PVal.erase = dump W DW cfg n T x :=
  Adaptix.Morph.dumpP_erase W DW cfg n T x

/-- annotating and forgetting is the identity (so `ofArg d` really is the argument `d`) -/
theorem erase_ofVal (pr : Prov) (v : Val) : (PVal.ofVal pr v).erase = v := PVal.erase_ofVal pr v

/-! ### every node of a result is accounted for -/

/-- **Loaded values.** Every node (root and all sub-nodes, containers and scalars alike) of a
    successfully loaded value is
      * `fresh`, or
      * `arg`, and then it lies inside a sub-value `q` that sits at a position of declared type
        `T'` whose loader is documented to hand the datum through (`AsIsLoad`: `Any`, `Literal`,
        an identity scalar leaf, `None` of an Optional) and `q` is the datum as it is, or
      * `const`, and then it lies inside the default `q` of an optional field whose default the
        caller declared captured (`dp cls field = const`). -/
theorem load_result_fresh (W : World) (cfg : Cfg) (dp : String → String → Prov) (n : Nat) (T : Ty)
    (d : Val) (p : PVal) (h : loadP W cfg dp n T d = .ok p) :
    ∀ nd ∈ p.nodes,
      nd.prov = .fresh
      ∨ (nd.prov = .arg ∧ ∃ T' q, LPos W T p (.ty T') q ∧ AsIsLoad W cfg T' q
            ∧ q = PVal.ofVal .arg q.erase ∧ nd ∈ q.nodes)
      ∨ (nd.prov = .const ∧ ∃ cls f q, LPos W T p (.dflt cls f) q ∧ dp cls f.name = .const
            ∧ q = PVal.ofVal .const f.default ∧ nd ∈ q.nodes) :=
  loadP_clause W cfg dp n T d p h

/-- the root of a loaded container type is always a new object -/
theorem load_container_root_fresh (W : World) (cfg : Cfg) (dp : String → String → Prov) (n : Nat)
    (T : Ty) (d : Val) (p : PVal) (h : loadP W cfg dp n T d = .ok p)
    (hT : (∃ f dl e, T = .iter f dl e) ∨ (∃ es, T = .tuple es) ∨ (∃ k v, T = .dict k v)
          ∨ (∃ c, T = .model c)) :
    p.prov = .fresh := by
  cases n with
  | zero => simp [loadP] at h
  | succ n =>
    rcases hT with ⟨f, dl, e, rfl⟩ | ⟨es, rfl⟩ | ⟨k, v, rfl⟩ | ⟨c, rfl⟩
    · simp only [loadP] at h
      obtain ⟨sh, kids, rfl, _⟩ := loadIterP_ok h; rfl
    · simp only [loadP] at h
      obtain ⟨kids, rfl, _⟩ := loadTupleP_ok h; rfl
    · simp only [loadP] at h
      obtain ⟨acc, rfl, _⟩ := loadDictP_ok h; rfl
    · simp only [loadP] at h
      cases hc : W.classes c with
      | none => rw [hc] at h; simp at h
      | some fields =>
        rw [hc] at h
        obtain ⟨kids, rfl, _⟩ := loadModelP_ok h; rfl

/-- **No retort-owned object without captured defaults.** If no default is a captured constant,
    no node of any loaded value is owned by the retort. -/
theorem no_const_without_const_defaults (W : World) (cfg : Cfg) (dp : String → String → Prov)
    (hdp : ∀ c f, dp c f ≠ .const) (n : Nat) (T : Ty) (d : Val) (p : PVal)
    (h : loadP W cfg dp n T d = .ok p) : ∀ nd ∈ p.nodes, nd.prov ≠ .const := by
  intro nd hnd
  rcases load_result_fresh W cfg dp n T d p h nd hnd with h1 | ⟨h1, _⟩ | ⟨_, cls, f, _, _, hc, _⟩
  · simp [h1]
  · simp [h1]
  · exact absurd hc (hdp cls f.name)

/-- **Mutable containers of a loaded value.** When the scalar leaves never hand through a
    mutable object (true of the shipped leaves: the only mutable scalar result, `bytearray`, is
    built from a `str`) and the `Literal` types met in the result have scalar members, a mutable
    node (list, set, dict, deque, bytearray, model object, iterator, opaque object) of a loaded
    value is new, or belongs to the argument and lies under a position declared `Any`/`object`, or
    belongs to a default captured as a constant. -/
theorem load_mutable_arg_only_under_any (W : World) (cfg : Cfg) (dp : String → String → Prov) (n : Nat)
    (T : Ty) (d : Val) (p : PVal) (h : loadP W cfg dp n T d = .ok p)
    (hS : ∀ s d r, W.scalarLoad cfg.strict s d = .ok r → Val.same r d = true →
            ∀ nd ∈ (PVal.ofVal .arg r).nodes, nd.isMutable = false)
    (hL : ∀ vs q, LPos W T p (.ty (.literal vs)) q → ∀ v ∈ vs, litScalar v = true) :
    ∀ nd ∈ p.nodes, nd.isMutable = true →
      nd.prov = .fresh
      ∨ (nd.prov = .arg ∧ ∃ q, LPos W T p (.ty .any) q ∧ nd ∈ q.nodes)
      ∨ (nd.prov = .const ∧ ∃ cls f q, LPos W T p (.dflt cls f) q ∧ dp cls f.name = .const
            ∧ nd ∈ q.nodes) := by
  intro nd hnd hmut
  rcases load_result_fresh W cfg dp n T d p h nd hnd with
    h1 | ⟨h1, T', q, hpos, hasis, hq, hin⟩ | ⟨h1, cls, f, q, hpos, hc, _, hin⟩
  · exact .inl h1
  · right; left
    refine ⟨h1, ?_⟩
    cases hasis with
    | any => exact ⟨q, hpos, hin⟩
    | literal hl =>
      rw [hq] at hin
      have := nodes_ofVal_immLeaf (pr := .arg) (loadLiteral_immLeaf (hL _ q hpos) hl) nd hin
      simp [this] at hmut
    | scalar hs hsame =>
      rw [hq] at hin
      have := hS _ _ _ hs hsame nd hin
      simp [this] at hmut
    | optNone hn =>
      rw [hq, hn] at hin
      have := nodes_ofVal_immLeaf (pr := .arg) (v := .none) rfl nd hin
      simp [this] at hmut
  · exact .inr (.inr ⟨h1, cls, f, q, hpos, hc, hin⟩)

/-- **Dumped values.** Every node of a successfully dumped value is
      * `fresh` (every dict / list / tuple the dumpers build, every computed scalar), or
      * `arg`, lying inside a sub-value handed through at a position whose dumper is as-is
        (`AsIsDump`: `Any`, `Literal`, an identity scalar dumper, `None` / a Literal member of a
        Union), or
      * `const`, and then it is a childless `str`: the field-name key of a dumped model. -/
theorem dump_result_fresh (W : World) (DW : DumpWorld) (cfg : Cfg) (n : Nat) (T : Ty) (x : Val)
    (p : PVal) (h : dumpP W DW cfg n T x = .ok p) :
    ∀ nd ∈ p.nodes,
      nd.prov = .fresh
      ∨ (nd.prov = .arg ∧ ∃ T' q, DPos W T p T' q ∧ AsIsDump W T' q
            ∧ q = PVal.ofVal .arg q.erase ∧ nd ∈ q.nodes)
      ∨ (nd.prov = .const ∧ ∃ name, nd = PVal.node .const (.str name) []) :=
  dumpP_clause W DW cfg n T x p h

/-- no mutable object of a dumped value is owned by the retort -/
theorem dump_no_mutable_const (W : World) (DW : DumpWorld) (cfg : Cfg) (n : Nat) (T : Ty) (x : Val)
    (p : PVal) (h : dumpP W DW cfg n T x = .ok p) :
    ∀ nd ∈ p.nodes, nd.isMutable = true → nd.prov ≠ .const := by
  intro nd hnd hmut
  rcases dump_result_fresh W DW cfg n T x p h nd hnd with h1 | ⟨h1, _⟩ | ⟨_, name, rfl⟩
  · simp [h1]
  · simp [h1]
  · simp [PVal.isMutable, PVal.shape, Shape.mutable] at hmut

/-! ### determinism -/

/-- "Repeating a call with equal arguments gives equal results": in the model `load` and `dump`
    are functions of (world, configuration, fuel, type, argument) and of nothing else — there is
    no hidden state a previous call could have changed.  This is congruence of equality, not a
    deep fact; that the Python callables likewise keep no state between calls, and that they do
    not write to their argument, is checked by the harness only. -/
theorem pure_functions (W : World) (DW : DumpWorld) (cfg : Cfg) (n : Nat) (T : Ty) (a b : Val)
    (hab : a = b) :
    load W cfg n T a = load W cfg n T b ∧ dump W DW cfg n T a = dump W DW cfg n T b := by
  subst hab; exact ⟨rfl, rfl⟩

/-- two calls at different states of the allocation counter return the same value up to the
    allocation identities -/
theorem repeatable_up_to_ids (W : World) (cfg : Cfg) (dp : String → String → Prov) (s s' n : Nat)
    (T : Ty) (d : Val) :
    (loadA W cfg dp s n T d).map (fun r => r.1.strip)
      = (loadA W cfg dp s' n T d).map (fun r => r.1.strip) := by
  unfold loadA
  cases loadP W cfg dp n T d <;> simp [Outcome.map, (label_spec _ _).2.2.1]

/-! ### two results share no allocation -/

/-- numbering the allocations of two values one after the other: ids are unique inside each
    value and the two id sets are disjoint; exactly the fresh nodes carry an id -/
theorem label_two_disjoint (s : Nat) (p p' : PVal) :
    let r := label s p
    let r' := label r.2 p'
    r.1.ids.Nodup ∧ r'.1.ids.Nodup ∧ (∀ i ∈ r.1.ids, i ∉ r'.1.ids)
    ∧ (∀ i ∈ r.1.ids, s ≤ i ∧ i < r.2) ∧ (∀ i ∈ r'.1.ids, r.2 ≤ i ∧ i < r'.2)
    ∧ r.1.wellLabelled = true ∧ r'.1.wellLabelled = true ∧ r.1.strip = p ∧ r'.1.strip = p' := by
  intro r r'
  obtain ⟨h1, h2, h3, h4⟩ := label_spec s p
  obtain ⟨g1, g2, g3, g4⟩ := label_spec r.2 p'
  have hr1 : ∀ i ∈ r.1.ids, s ≤ i ∧ i < r.2 := by
    intro i hi
    rw [show r.1.ids = _ from h2] at hi
    rw [show r.2 = _ from h1]
    simpa using hi
  have hr2 : ∀ i ∈ r'.1.ids, r.2 ≤ i ∧ i < r'.2 := by
    intro i hi
    rw [show r'.1.ids = _ from g2] at hi
    rw [show r'.2 = _ from g1]
    simpa using hi
  refine ⟨?_, ?_, ?_, hr1, hr2, h4, g4, h3, g3⟩
  · rw [show r.1.ids = _ from h2]; exact List.nodup_range'
  · rw [show r'.1.ids = _ from g2]; exact List.nodup_range'
  · intro i hi hi'
    have a := (hr1 i hi).2
    have b := (hr2 i hi').1
    omega

/-- **Two successive loads** (any two worlds, types, data, modes): run against the same
    allocation counter, the second starting where the first stopped, they return values in
    which (1) no allocation occurs twice inside a result — e.g. the iterable loader never puts
    one new object at two places —, (2) no allocation of the first result occurs in the second,
    (3) a node carries an allocation id iff it is `fresh`, and (4) forgetting the ids gives the
    `loadP` results, so every non-fresh node is classified by `load_result_fresh`. -/
theorem two_results_disjoint (W W' : World) (cfg cfg' : Cfg) (dp dp' : String → String → Prov)
    (s n n' : Nat) (T T' : Ty) (d d' : Val) (a a' : AVal) (s1 s2 : Nat)
    (h1 : loadA W cfg dp s n T d = .ok (a, s1))
    (h2 : loadA W' cfg' dp' s1 n' T' d' = .ok (a', s2)) :
    a.ids.Nodup ∧ a'.ids.Nodup ∧ (∀ i ∈ a.ids, i ∉ a'.ids)
    ∧ a.wellLabelled = true ∧ a'.wellLabelled = true
    ∧ loadP W cfg dp n T d = .ok a.strip ∧ loadP W' cfg' dp' n' T' d' = .ok a'.strip := by
  unfold loadA at h1 h2
  obtain ⟨p, hp, hl⟩ := Outcome.map_eq_ok h1
  obtain ⟨p', hp', hl'⟩ := Outcome.map_eq_ok h2
  have key := label_two_disjoint s p p'
  simp only [hl] at key
  simp only [hl'] at key
  obtain ⟨k1, k2, k3, _, _, k6, k7, k8, k9⟩ := key
  exact ⟨k1, k2, k3, k6, k7, by rw [k8]; exact hp, by rw [k9]; exact hp'⟩

/-- the same for two successive dumps -/
theorem two_dumps_disjoint (W W' : World) (DW DW' : DumpWorld) (cfg cfg' : Cfg)
    (s n n' : Nat) (T T' : Ty) (x x' : Val) (a a' : AVal) (s1 s2 : Nat)
    (h1 : dumpA W DW cfg s n T x = .ok (a, s1))
    (h2 : dumpA W' DW' cfg' s1 n' T' x' = .ok (a', s2)) :
    a.ids.Nodup ∧ a'.ids.Nodup ∧ (∀ i ∈ a.ids, i ∉ a'.ids)
    ∧ a.wellLabelled = true ∧ a'.wellLabelled = true
    ∧ dumpP W DW cfg n T x = .ok a.strip ∧ dumpP W' DW' cfg' n' T' x' = .ok a'.strip := by
  unfold dumpA at h1 h2
  obtain ⟨p, hp, hl⟩ := Outcome.map_eq_ok h1
  obtain ⟨p', hp', hl'⟩ := Outcome.map_eq_ok h2
  have key := label_two_disjoint s p p'
  simp only [hl] at key
  simp only [hl'] at key
  obtain ⟨k1, k2, k3, _, _, k6, k7, k8, k9⟩ := key
  exact ⟨k1, k2, k3, k6, k7, by rw [k8]; exact hp, by rw [k9]; exact hp'⟩

/-- a dump followed by a load of anything (e.g. a round trip) -/
theorem dump_then_load_disjoint (W W' : World) (DW : DumpWorld) (cfg cfg' : Cfg)
    (dp' : String → String → Prov) (s n n' : Nat) (T T' : Ty) (x d' : Val) (a a' : AVal) (s1 s2 : Nat)
    (h1 : dumpA W DW cfg s n T x = .ok (a, s1))
    (h2 : loadA W' cfg' dp' s1 n' T' d' = .ok (a', s2)) :
    a.ids.Nodup ∧ a'.ids.Nodup ∧ (∀ i ∈ a.ids, i ∉ a'.ids) := by
  unfold dumpA at h1
  unfold loadA at h2
  obtain ⟨p, _, hl⟩ := Outcome.map_eq_ok h1
  obtain ⟨p', _, hl'⟩ := Outcome.map_eq_ok h2
  have key := label_two_disjoint s p p'
  simp only [hl] at key
  simp only [hl'] at key
  exact ⟨key.1, key.2.1, key.2.2.1⟩

/-! ### non-vacuity -/

section Examples

/-- default given by a captured constant: the list in the loaded model belongs to the retort;
    default given inline / by factory: a new list -/
example :
    loadP exW exCfg exDp 3 (.model "A") (.dict []) =
      .ok (.node .fresh (.obj "A" ["xs", "ys"])
            [ .node .const .list [.node .const (.float (.inf false)) []],
              .node .fresh .list [] ]) := by
  rfl

/-- the same class with every default produced per call: nothing is shared -/
example :
    loadP exW exCfg (fun _ _ => .fresh) 3 (.model "A") (.dict []) =
      .ok (.node .fresh (.obj "A" ["xs", "ys"])
            [ .node .fresh .list [.node .fresh (.float (.inf false)) []],
              .node .fresh .list [] ]) := by
  rfl

/-- `no_const_without_const_defaults` instantiated: with every default produced per call no
    node of the loaded model is owned by the retort (the load succeeds: example above) -/
example (p : PVal) (h : loadP exW exCfg (fun _ _ => .fresh) 3 (.model "A") (.dict []) = .ok p) :
    ∀ nd ∈ p.nodes, nd.prov ≠ .const :=
  no_const_without_const_defaults exW exCfg (fun _ _ => .fresh) (fun _ _ => by simp) 3 _ _ p h

/-- `list[Any]`: a new outer list; the inner list is the argument's -/
example :
    loadP exW exCfg exDp 3 (.iter .list true .any) (.list [.list [.int 1], .int 2]) =
      .ok (.node .fresh .list [.node .arg .list [.node .arg (.int 1) []], .node .arg (.int 2) []]) := by
  rfl

/-- `dict[Any, set[Any]]`, numbered from 7: two allocations (the dict, the set) -/
example :
    loadA exW exCfg exDp 7 3 (.dict .any (.iter .set false .any))
        (.dict [(.str "k", .list [.int 1])]) =
      .ok (.node .fresh (some 7) .dict
            [.node .arg none (.str "k") [],
             .node .fresh (some 8) .set [.node .arg none (.int 1) []]], 9) := by
  rfl

/-- dumping a model: new dict, constant keys, new list, as-is element under `Any` -/
example :
    dumpP exW { mro := fun _ => [], supers := fun _ => [] } exCfg 3 (.model "A")
        (.obj "A" [("xs", .list [.list []]), ("ys", .list [])]) =
      .ok (.node .fresh .dict
            [ .node .const (.str "xs") [], .node .fresh .list [.node .arg .list []],
              .node .const (.str "ys") [], .node .fresh .list [] ]) := by
  rfl

/-- the hypotheses of `load_mutable_arg_only_under_any` are satisfiable and its second disjunct
    is inhabited: in `list[Any]` the inner (mutable, `arg`) list lies under the `Any` position -/
example (p : PVal)
    (h : loadP exW0 exCfg exDp 3 (.iter .list true .any) (.list [.list [.int 1]]) = .ok p) :
    ∀ nd ∈ p.nodes, nd.isMutable = true →
      nd.prov = .fresh
      ∨ (nd.prov = .arg ∧ ∃ q, LPos exW0 (.iter .list true .any) p (.ty .any) q ∧ nd ∈ q.nodes)
      ∨ (nd.prov = .const ∧ ∃ cls f q, LPos exW0 (.iter .list true .any) p (.dflt cls f) q
            ∧ exDp cls f.name = .const ∧ nd ∈ q.nodes) := by
  refine load_mutable_arg_only_under_any exW0 exCfg exDp 3 _ _ p h ?_ ?_
  · intro s d r hr; simp [exW0] at hr
  · intro vs q hpos
    cases hpos with
    | iter _ hq => cases hq

/-! ### a non-degenerate witness for `load_mutable_arg_only_under_any` (audit A)

  The instance above uses a world whose scalar leaves never return, so its hypothesis `hS`
  holds for the trivial reason.  Below: identity `int` / `str` leaves (they DO hand the datum
  through, `hS` has content), a computing leaf returning a mutable `bytearray`, a `Literal`
  position (`hL` has content), an `Any` position holding a nested mutable list, and a model
  with a captured constant default — all three disjuncts of the conclusion are inhabited. -/

/-- identity `int` / `str` leaves, a computing `ba` leaf (a `bytearray` built from a `str`),
    the class `A` of `exW` -/
def exW1 : World :=
  { exW with
    scalarLoad := fun _ name d =>
      match name, d with
      | "int", .int i => .ok (.int i)
      | "str", .str t => .ok (.str t)
      | "ba", .str _ => .ok (.bytearray [1])
      | _, d => .err (LErr.leaf "TypeLoadError" d) }

/-- `tuple[int, Literal["x", "y"], Any, list[int], bytearray, A]` -/
def T1 : Ty :=
  .tuple [.scalar "int", .literal [.str "x", .str "y"], .any, .iter .list true (.scalar "int"),
          .scalar "ba", .model "A"]

/-- `[5, "x", [[1]], (7, 8), "q", {}]` -/
def d1 : Val :=
  .list [.int 5, .str "x", .list [.list [.int 1]], .tuple [.int 7, .int 8], .str "q", .dict []]

/-- the load succeeds (so the implication below is not empty) -/
theorem witness_loads : ∃ p, loadP exW1 exCfg exDp 4 T1 d1 = .ok p := by
  have h := loadP_erase exW1 exCfg exDp 4 T1 d1
  have hl : load exW1 exCfg 4 T1 d1 =
      .ok (.tuple [.int 5, .str "x", .list [.list [.int 1]], .list [.int 7, .int 8], .bytearray [1],
        .obj "A" [("xs", .list [.float (.inf false)]), ("ys", .list [])]]) := by
    simp [load, exW1, exW, exCfg, T1, d1, loadTuple, strictExcluded, Val.isMapping, Val.isStr,
      Val.iterElems, zipApply, idxItems, seqMode, seqFirst, bindO, loadLiteral, boolSensitive,
      Val.memOf, Val.pyEq, loadIter, Factory.build, loadModel, modelItems, missingRequired, Val.lookup]
  rw [hl] at h
  cases hp : loadP exW1 exCfg exDp 4 T1 d1 <;> rw [hp] at h <;> simp [Outcome.map] at h
  exact ⟨_, rfl⟩

/-- hypothesis `hS` for a world whose leaves do hand the datum through -/
theorem witness_hS (strict : Bool) : ∀ s d r, exW1.scalarLoad strict s d = .ok r →
    Val.same r d = true → ∀ nd ∈ (PVal.ofVal .arg r).nodes, nd.isMutable = false := by
  intro s d r hr hsame nd hnd
  simp only [exW1] at hr
  split at hr <;> simp at hr <;> subst hr
  · simp [PVal.ofVal, PVal.nodes, PVal.nodesL] at hnd; subst hnd; rfl
  · simp [PVal.ofVal, PVal.nodes, PVal.nodesL] at hnd; subst hnd; rfl
  · simp [Val.same] at hsame

/-- hypothesis `hL` for a type that has a `Literal` position -/
theorem witness_hL (p : PVal) :
    ∀ vs q, LPos exW1 T1 p (.ty (.literal vs)) q → ∀ v ∈ vs, litScalar v = true := by
  intro vs q hpos
  cases hpos with
  | tuple hmem hsub =>
    have hE := (List.of_mem_zip hmem).1
    simp only [List.mem_cons, List.not_mem_nil, or_false] at hE
    rcases hE with rfl | rfl | rfl | rfl | rfl | rfl
    · cases hsub
    · cases hsub; simp [litScalar]
    · cases hsub
    · cases hsub with
      | iter _ h2 => cases h2
    · cases hsub
    · cases hsub with
      | field hcls hm h2 =>
        simp only [exW1, exW] at hcls
        simp at hcls
        subst hcls
        have hf := (List.of_mem_zip hm).1
        simp only [List.mem_cons, List.not_mem_nil, or_false] at hf
        rcases hf with rfl | rfl
        · cases h2 with
          | iter _ h3 => cases h3
        · cases h2 with
          | iter _ h3 => cases h3

/-- **Witness**: all hypotheses of `load_mutable_arg_only_under_any` hold together on a load
    that succeeds, with non-trivial leaves, a `Literal`, an `Any` and a captured default -/
example : ∃ p, loadP exW1 exCfg exDp 4 T1 d1 = .ok p ∧
    ∀ nd ∈ p.nodes, nd.isMutable = true →
      nd.prov = .fresh
      ∨ (nd.prov = .arg ∧ ∃ q, LPos exW1 T1 p (.ty .any) q ∧ nd ∈ q.nodes)
      ∨ (nd.prov = .const ∧ ∃ cls f q, LPos exW1 T1 p (.dflt cls f) q
            ∧ exDp cls f.name = .const ∧ nd ∈ q.nodes) := by
  obtain ⟨p, hp⟩ := witness_loads
  exact ⟨p, hp, load_mutable_arg_only_under_any exW1 exCfg exDp 4 T1 d1 p hp
    (witness_hS exCfg.strict) (witness_hL p)⟩

/-- `two_results_disjoint` on two concrete successive calls (allocation ids 7–8, then 9) -/
example : ([7, 8] : List Nat).Nodup ∧ ([9] : List Nat).Nodup ∧ (∀ i ∈ [7, 8], i ∉ [9]) := by
  have h1 : loadA exW exCfg exDp 7 3 (.dict .any (.iter .set false .any))
      (.dict [(.str "k", .list [.int 1])]) =
      .ok (.node .fresh (some 7) .dict
            [.node .arg none (.str "k") [],
             .node .fresh (some 8) .set [.node .arg none (.int 1) []]], 9) := by rfl
  have h2 : loadA exW exCfg exDp 9 3 (.iter .list true .any) (.list [.list [.int 1], .int 2]) =
      .ok (.node .fresh (some 9) .list
            [.node .arg none .list [.node .arg none (.int 1) []], .node .arg none (.int 2) []], 10) := by rfl
  have := two_results_disjoint exW exW exCfg exCfg exDp exDp 7 3 3 _ _ _ _ _ _ 9 10 h1 h2
  exact ⟨this.1, this.2.1, this.2.2.1⟩

end Examples

end Adaptix.Morph.C20
