/-
  C06 — debug_trail changes only error reporting, never what is accepted or returned.
  Property theorems only; helper lemmas live in `AdaptixProofs/Lemmas/MorphModes*.lean`.

  The model (`AdaptixModel/Morph/{Core,Load,Dump}.lean`) has three separate folds
  (`seqDisable` / `seqFirst` / `sweepAll … finish`) for the three textually separate
  closures of every container provider. The theorems below are universally quantified
  over worlds (class table + scalar leaf behaviour), types, data, fuels and both
  coercion modes.

  Result in one paragraph. For `dump` the three modes agree unconditionally. For `load`
  the ALL-mode outcome *determines* the outcome of DISABLE and FIRST whenever ALL ends in
  a value or a LoadError; pairwise agreement of all three modes follows under the
  hypothesis `AllClean` (the ALL run does not end in a non-LoadError exception). Without
  that hypothesis the property is FALSE for the code as it is (a non-LoadError hidden
  behind an earlier LoadError of a sequential mode makes a `Union` fall through to a later
  case in one mode and not in another): `modes_agree_ok_unconditional_false`.
-/
import AdaptixModel.Morph.Load
import AdaptixModel.Morph.Dump
import AdaptixProofs.Lemmas.MorphModesAgree
import AdaptixProofs.Lemmas.MorphModesSeq
import AdaptixProofs.Lemmas.MorphLoadTotal
import AdaptixProofs.Lemmas.MorphDumpTotal
import AdaptixProofs.Lemmas.MorphLeavesGenerated

namespace Adaptix.Morph.C06

open Adaptix.Py Adaptix.Morph

/-! ## fuel monotonicity -/

/-- **Fuel monotonicity (load).** A run that did not run out of fuel is unchanged by more fuel. -/
theorem load_fuel_mono (W : World) (cfg : Cfg) (n : Nat) (T : Ty) (d : Val) (r : Outcome Val)
    (h : load W cfg n T d = r) (hr : r ≠ .diverge) : load W cfg (n + 1) T d = r :=
  modes_load_mono h hr 1

theorem load_fuel_mono_le (W : World) (cfg : Cfg) (n m : Nat) (T : Ty) (d : Val) (hnm : n ≤ m)
    (hr : load W cfg n T d ≠ .diverge) : load W cfg m T d = load W cfg n T d :=
  modes_load_mono_le hnm hr

/-- **Fuel monotonicity (dump).** -/
theorem dump_fuel_mono (W : World) (DW : DumpWorld) (cfg : Cfg) (n : Nat) (T : Ty) (x : Val)
    (r : Outcome Val) (h : dump W DW cfg n T x = r) (hr : r ≠ .diverge) :
    dump W DW cfg (n + 1) T x = r :=
  modes_dump_mono h hr 1

theorem dump_fuel_mono_le (W : World) (DW : DumpWorld) (cfg : Cfg) (n m : Nat) (T : Ty) (x : Val)
    (hnm : n ≤ m) (hr : dump W DW cfg n T x ≠ .diverge) :
    dump W DW cfg m T x = dump W DW cfg n T x :=
  modes_dump_mono_le hnm hr

/-! ## load: what holds unconditionally — ALL determines the sequential modes

  Because ALL visits elements DISABLE/FIRST skip, one mode can run out of fuel where
  another does not; all statements are about runs that did not diverge, and the two runs
  may have different fuels. -/

/-- If ALL returns `v`, every mode returns `v`. -/
theorem all_ok_determines (W : World) (s : Bool) (m : DebugTrail) (n N : Nat) (T : Ty) (d v : Val)
    (hA : load W ⟨.all, s⟩ N T d = .ok v) (hm : load W ⟨m, s⟩ n T d ≠ .diverge) :
    load W ⟨m, s⟩ n T d = .ok v := by
  have h := modes_sim_load_fuels W m s n N T d hm (by rw [hA]; simp)
  rw [hA] at h
  rcases h with h | h
  · exact h
  · exact absurd h hm

/-- If ALL raises the LoadError `E`, every mode raises a LoadError, and each of its leaves
    corresponds (`Corr`) to a leaf of `E`. -/
theorem all_err_determines (W : World) (s : Bool) (m : DebugTrail) (n N : Nat) (T : Ty) (d : Val)
    (E : LErr) (hA : load W ⟨.all, s⟩ N T d = .err E) (hm : load W ⟨m, s⟩ n T d ≠ .diverge) :
    ∃ e, load W ⟨m, s⟩ n T d = .err e ∧ ErrCorr m e E := by
  have h := modes_sim_load_fuels W m s n N T d hm (by rw [hA]; simp)
  rw [hA] at h
  rcases h with h | h
  · exact absurd h hm
  · exact h

/-- A non-LoadError exception of DISABLE/FIRST is also one under ALL (there wrapped in an
    `ExceptionGroup` or raised by the same leaf): escapes are related as `isEscape`. -/
theorem escape_reaches_all (W : World) (s : Bool) (m : DebugTrail) (n N : Nat) (T : Ty) (d : Val)
    (hm : (load W ⟨m, s⟩ n T d).isEscape = true) (hA : load W ⟨.all, s⟩ N T d ≠ .diverge) :
    (load W ⟨.all, s⟩ N T d).isEscape = true := by
  have hmd : load W ⟨m, s⟩ n T d ≠ .diverge := by intro h; rw [h] at hm; simp [Outcome.isEscape] at hm
  cases hAo : load W ⟨.all, s⟩ N T d with
  | ok v => rw [all_ok_determines W s m n N T d v hAo hmd] at hm; simp [Outcome.isEscape] at hm
  | err E =>
    obtain ⟨e, he, _⟩ := all_err_determines W s m n N T d E hAo hmd
    rw [he] at hm; simp [Outcome.isEscape] at hm
  | escape x => rfl
  | diverge => exact absurd hAo hA

/-- **`single_in_all`.** The single error `e` raised under DISABLE or FIRST corresponds to the
    errors collected under ALL: every leaf of `e` (`e` itself, see `single_is_leaf`) has the
    class and input of a leaf of `E`, up to the looseness rules (i)–(iv) spelled out in the
    definition of `Corr`; `UnionLoadError` counts as one leaf. -/
theorem single_in_all (W : World) (s : Bool) (m : DebugTrail) (n N : Nat) (T : Ty) (d : Val) (e E : LErr)
    (he : load W ⟨m, s⟩ n T d = .err e) (hE : load W ⟨.all, s⟩ N T d = .err E) : ErrCorr m e E := by
  obtain ⟨e', he', hc⟩ := all_err_determines W s m n N T d E hE (by rw [he]; simp)
  rw [he] at he'
  cases he'
  exact hc

/-- DISABLE and FIRST never raise an `AggregateLoadError` of their own: if no scalar leaf does,
    the single error is one leaf. -/
theorem single_is_leaf (W : World) (hW : ∀ s name d e, W.scalarLoad s name d = .err e → e.cls ≠ "AggregateLoadError")
    (s : Bool) (m : DebugTrail) (hm : m ≠ .all) (n : Nat) (T : Ty) (d : Val) (e : LErr)
    (he : load W ⟨m, s⟩ n T d = .err e) : leafNodes e = [e] := by
  have h := modes_nonAgg_load W (fun s name d e h => hW s name d e h) hm s n T d e he
  cases e with
  | mk c t i dt ch => exact modes_leafNodes_of_ne h _ _ _ _

/-- `single_in_all` in the `(class, input)` form for an error that is one leaf. -/
theorem single_in_all_leaf (W : World) (s : Bool) (m : DebugTrail) (n N : Nat) (T : Ty) (d : Val) (e E : LErr)
    (hleaf : leafNodes e = [e])
    (he : load W ⟨m, s⟩ n T d = .err e) (hE : load W ⟨.all, s⟩ N T d = .err E) :
    ∃ l ∈ leafNodes E, Corr m (e.cls, e.input) l :=
  single_in_all W s m n N T d e E he hE e (by rw [hleaf]; simp)

/-- Under FIRST the correspondence is exact: same class, same offending input. -/
theorem first_in_all (W : World) (s : Bool) (n N : Nat) (T : Ty) (d : Val) (e E : LErr)
    (hleaf : leafNodes e = [e])
    (he : load W ⟨.first, s⟩ n T d = .err e) (hE : load W ⟨.all, s⟩ N T d = .err E) :
    (e.cls, e.input) ∈ leaves E := by
  obtain ⟨l, hl, hc⟩ := single_in_all_leaf W s .first n N T d e E hleaf he hE
  rw [modes_corr_first hc]
  exact List.mem_map.mpr ⟨l, hl, rfl⟩

/-! ## load: pairwise agreement of the three modes -/

/-- the ALL-mode run terminates (with some fuel) in a value or a LoadError, i.e. no
    non-LoadError exception (`ExceptionGroup`, `TypeError: unhashable` …) is raised -/
def AllClean (W : World) (s : Bool) (T : Ty) (d : Val) : Prop :=
  ∃ N, load W ⟨.all, s⟩ N T d ≠ .diverge ∧ (load W ⟨.all, s⟩ N T d).isEscape = false

/-- **`modes_agree_ok`.** Equal results: what one mode returns, every other mode returns. -/
theorem modes_agree_ok (W : World) (s : Bool) (m₁ m₂ : DebugTrail) (n₁ n₂ : Nat) (T : Ty) (d v : Val)
    (hc : AllClean W s T d) (h₂ : load W ⟨m₂, s⟩ n₂ T d ≠ .diverge)
    (h : load W ⟨m₁, s⟩ n₁ T d = .ok v) : load W ⟨m₂, s⟩ n₂ T d = .ok v := by
  obtain ⟨N, hA, hE⟩ := hc
  rcases modes_agree_core W s m₁ n₁ N T d hA hE (by rw [h]; simp) with ⟨w, hAw, h1⟩ | ⟨E, e, _, h1, _⟩
  · rw [h] at h1; cases h1
    exact all_ok_determines W s m₂ n₂ N T d v hAw h₂
  · rw [h] at h1; cases h1

/-- Acceptance agrees. -/
theorem modes_agree_accept (W : World) (s : Bool) (m₁ m₂ : DebugTrail) (n₁ n₂ : Nat) (T : Ty) (d : Val)
    (hc : AllClean W s T d) (h₁ : load W ⟨m₁, s⟩ n₁ T d ≠ .diverge) (h₂ : load W ⟨m₂, s⟩ n₂ T d ≠ .diverge) :
    (load W ⟨m₁, s⟩ n₁ T d).isOk = (load W ⟨m₂, s⟩ n₂ T d).isOk := by
  obtain ⟨N, hA, hE⟩ := hc
  rcases modes_agree_core W s m₁ n₁ N T d hA hE h₁ with ⟨w, hAw, h1⟩ | ⟨E, e, hAE, h1, _⟩
  · rw [h1, all_ok_determines W s m₂ n₂ N T d w hAw h₂]
  · obtain ⟨e', h2, _⟩ := all_err_determines W s m₂ n₂ N T d E hAE h₂
    rw [h1, h2]; rfl

/-- **`modes_agree_fail`.** Failure agrees (a LoadError or any other exception, the latter
    related only as `isEscape`) … -/
theorem modes_agree_fail (W : World) (s : Bool) (m₁ m₂ : DebugTrail) (n₁ n₂ : Nat) (T : Ty) (d : Val)
    (hc : AllClean W s T d) (h₁ : load W ⟨m₁, s⟩ n₁ T d ≠ .diverge) (h₂ : load W ⟨m₂, s⟩ n₂ T d ≠ .diverge) :
    ((load W ⟨m₁, s⟩ n₁ T d).isErr = true ∨ (load W ⟨m₁, s⟩ n₁ T d).isEscape = true) ↔
    ((load W ⟨m₂, s⟩ n₂ T d).isErr = true ∨ (load W ⟨m₂, s⟩ n₂ T d).isEscape = true) := by
  obtain ⟨N, hA, hE⟩ := hc
  rcases modes_agree_core W s m₁ n₁ N T d hA hE h₁ with ⟨w, hAw, h1⟩ | ⟨E, e, hAE, h1, _⟩
  · rw [h1, all_ok_determines W s m₂ n₂ N T d w hAw h₂]
  · obtain ⟨e', h2, _⟩ := all_err_determines W s m₂ n₂ N T d E hAE h₂
    rw [h1, h2]; simp [Outcome.isErr]

/-- … and, more precisely, under `AllClean` every mode fails with a LoadError, never with
    another exception. -/
theorem modes_agree_err (W : World) (s : Bool) (m₁ m₂ : DebugTrail) (n₁ n₂ : Nat) (T : Ty) (d : Val)
    (hc : AllClean W s T d) (h₁ : load W ⟨m₁, s⟩ n₁ T d ≠ .diverge) (h₂ : load W ⟨m₂, s⟩ n₂ T d ≠ .diverge) :
    (load W ⟨m₁, s⟩ n₁ T d).isErr = (load W ⟨m₂, s⟩ n₂ T d).isErr ∧
    (load W ⟨m₁, s⟩ n₁ T d).isEscape = false := by
  obtain ⟨N, hA, hE⟩ := hc
  rcases modes_agree_core W s m₁ n₁ N T d hA hE h₁ with ⟨w, hAw, h1⟩ | ⟨E, e, hAE, h1, _⟩
  · rw [h1, all_ok_determines W s m₂ n₂ N T d w hAw h₂]; exact ⟨rfl, rfl⟩
  · obtain ⟨e', h2, _⟩ := all_err_determines W s m₂ n₂ N T d E hAE h₂
    rw [h1, h2]; exact ⟨rfl, rfl⟩

/-! ## load: DISABLE and FIRST compared directly

  `AllClean` is a hypothesis about the ALL run. The two sequential modes can also be compared
  without it: they agree whenever neither of *their own* runs is aborted by a non-LoadError
  exception (a hypothesis one can read off the two observed outcomes). -/

/-- **DISABLE and FIRST agree** (same value, or both a LoadError) when neither raises a
    non-LoadError exception — even where ALL raises an `ExceptionGroup`. -/
theorem disable_first_agree (W : World) (s : Bool) (n n' : Nat) (T : Ty) (d : Val)
    (hD : load W ⟨.disable, s⟩ n T d ≠ .diverge) (hF : load W ⟨.first, s⟩ n' T d ≠ .diverge)
    (hDe : (load W ⟨.disable, s⟩ n T d).isEscape = false)
    (hFe : (load W ⟨.first, s⟩ n' T d).isEscape = false) :
    (∃ v, load W ⟨.disable, s⟩ n T d = .ok v ∧ load W ⟨.first, s⟩ n' T d = .ok v) ∨
    ((load W ⟨.disable, s⟩ n T d).isErr = true ∧ (load W ⟨.first, s⟩ n' T d).isErr = true) :=
  modes_df_load_fuels W s n n' T d hD hF hDe hFe

/-! ## totality: the hypotheses `… ≠ .diverge` can always be met (audit A)

  Every agreement theorem above is conditional on runs that "did not diverge".  `load` is a
  fuel-indexed function, so one has to exclude that such runs do not exist for some type /
  datum (then the theorems would say nothing about it).  They always exist: for every world
  whose scalar leaves answer (`LeavesAnswer`, true of every world built from the translated
  closures: `leaves_answer_generated`), every type and every datum there is ONE fuel from
  which on no mode diverges (`load_terminates`, proved in `Lemmas/MorphLoadTotal.lean` by
  induction on the size of the datum and the type).  `modes_agree_eventually` is the property
  in fuel-free form. -/

/-- **`load` terminates**: one fuel bound for all three modes and both coercion modes. -/
theorem load_terminates (W : World) (hW : LeavesAnswer W) (T : Ty) (d : Val) :
    ∃ N, ∀ (cfg : Cfg) (n : Nat), N ≤ n → load W cfg n T d ≠ .diverge :=
  load_total_all_cfg W hW T d

/-- the leaves the correspondence driver runs (translated closures, any call-site oracle)
    satisfy `LeavesAnswer` -/
theorem leaves_answer_generated (oracle : SiteOracle) (strict : Bool) (s : String) (d : Val) :
    scalarLoadGen oracle strict s d ≠ .diverge :=
  scalarLoadGen_answers oracle strict s d

/-- **The property, fuel-free.**  For every type and datum, from some fuel on: unless the ALL
    run ends in a non-LoadError exception, either all three modes return the same value, or
    all three raise a LoadError and the error of each mode corresponds (`ErrCorr`) to the
    errors collected under ALL.  No hypothesis about divergence is left. -/
theorem modes_agree_eventually (W : World) (hW : LeavesAnswer W) (s : Bool) (T : Ty) (d : Val) :
    ∃ N, ∀ n, N ≤ n → (load W ⟨.all, s⟩ n T d).isEscape = false →
      (∃ v, ∀ m, load W ⟨m, s⟩ n T d = .ok v) ∨
      (∃ E, load W ⟨.all, s⟩ n T d = .err E ∧
        ∀ m, ∃ e, load W ⟨m, s⟩ n T d = .err e ∧ ErrCorr m e E) := by
  obtain ⟨N, hN⟩ := load_terminates W hW T d
  refine ⟨N, fun n hn hesc => ?_⟩
  cases hA : load W ⟨.all, s⟩ n T d with
  | ok v => exact .inl ⟨v, fun m => all_ok_determines W s m n n T d v hA (hN ⟨m, s⟩ n hn)⟩
  | err E => exact .inr ⟨E, rfl, fun m => all_err_determines W s m n n T d E hA (hN ⟨m, s⟩ n hn)⟩
  | escape x => rw [hA] at hesc; simp [Outcome.isEscape] at hesc
  | diverge => exact absurd hA (hN ⟨.all, s⟩ n hn)

/-- … and from some fuel on the outcome of every mode no longer depends on the fuel. -/
theorem load_stable (W : World) (hW : LeavesAnswer W) (T : Ty) (d : Val) :
    ∃ N, ∀ (cfg : Cfg) (n : Nat), N ≤ n → load W cfg n T d = load W cfg N T d := by
  obtain ⟨N, hN⟩ := load_terminates W hW T d
  exact ⟨N, fun cfg n hn => load_fuel_mono_le W cfg N n T d hn (hN cfg N (Nat.le_refl _))⟩

/-! ## the hypothesis `AllClean` cannot be dropped

  Full-strength statement (what C06 literally says):
    `∀ W s m₁ m₂ n T d v, load W ⟨m₁,s⟩ n T d ≠ .diverge → load W ⟨m₂,s⟩ n T d ≠ .diverge →
       load W ⟨m₁,s⟩ n T d = .ok v → load W ⟨m₂,s⟩ n T d = .ok v`.
  It is false for the model, and the model follows the code: with
  `Union[Dict[int, FrozenSet[List[int]]], Dict[Any, Any]]` and `{"k": [[1]]}` the real library
  returns the dict under FIRST, raises `TypeError` under DISABLE (the value is loaded before
  the key) and `ExceptionGroup` under ALL (`has_unexpected_error`: a success after an
  unexpected error is not returned). The witness below is the same situation with the
  world-independent pieces `Literal[]` (always a LoadError) and `Set[Any]` on an unhashable
  element (always `TypeError`). -/

/-- a world without classes whose scalar "never" always raises a LoadError -/
def W₀ : World :=
  { classes := fun _ => none
    scalarLoad := fun _ name d => if name = "never" then .err (LErr.leaf "TypeLoadError" d) else .ok d
    scalarDump := fun _ d => .ok d }

/-- `Union[Dict[Never, Set[Any]], Any]` -/
def Tbad : Ty := .union [.dict (.scalar "never") (.iter .set false .any), .any] ["dict", "object"]
/-- `{0: [[1]]}` -/
def dbad : Val := .dict [(.int 0, .list [.list [.int 1]])]

theorem bad_first : load W₀ ⟨.first, true⟩ 4 Tbad dbad = .ok dbad := by rfl
theorem bad_disable : load W₀ ⟨.disable, true⟩ 4 Tbad dbad = .escape "TypeError" := by rfl
theorem bad_all : load W₀ ⟨.all, true⟩ 4 Tbad dbad = .escape "ExceptionGroup" := by rfl

/-- **The unconditional agreement is false** (acceptance itself differs between the modes). -/
theorem modes_agree_ok_unconditional_false :
    ¬ (∀ (W : World) (s : Bool) (m₁ m₂ : DebugTrail) (n : Nat) (T : Ty) (d v : Val),
        load W ⟨m₁, s⟩ n T d ≠ .diverge → load W ⟨m₂, s⟩ n T d ≠ .diverge →
        load W ⟨m₁, s⟩ n T d = .ok v → load W ⟨m₂, s⟩ n T d = .ok v) := by
  intro h
  have := h W₀ true .first .all 4 Tbad dbad dbad (by rw [bad_first]; simp) (by rw [bad_all]; simp) bad_first
  rw [bad_all] at this
  cases this

/-! ## dump: the three modes agree, unconditionally

  (Dumpers never catch an exception of a child dumper. ALL-mode dumpers raise
  `ExceptionGroup` where DISABLE/FIRST raise the raw exception: failures are related as
  "raises".) -/

/-- **`dump_modes_agree_ok`.** -/
theorem dump_modes_agree_ok (W : World) (DW : DumpWorld) (s : Bool) (m₁ m₂ : DebugTrail) (n₁ n₂ : Nat)
    (T : Ty) (x v : Val) (h₂ : dump W DW ⟨m₂, s⟩ n₂ T x ≠ .diverge)
    (h : dump W DW ⟨m₁, s⟩ n₁ T x = .ok v) : dump W DW ⟨m₂, s⟩ n₂ T x = .ok v := by
  rcases modes_dsim_dump_fuels W DW m₁ m₂ s n₁ n₂ T x (by rw [h]; simp) h₂ with ⟨w, h1, h2⟩ | ⟨h1, _⟩
  · rw [h] at h1; cases h1; exact h2
  · rw [h] at h1; exact absurd h1 modes_not_fails_ok

/-- **`dump_modes_agree_fail`.** -/
theorem dump_modes_agree_fail (W : World) (DW : DumpWorld) (s : Bool) (m₁ m₂ : DebugTrail) (n₁ n₂ : Nat)
    (T : Ty) (x : Val) (h₁ : dump W DW ⟨m₁, s⟩ n₁ T x ≠ .diverge) (h₂ : dump W DW ⟨m₂, s⟩ n₂ T x ≠ .diverge) :
    ((dump W DW ⟨m₁, s⟩ n₁ T x).isErr = true ∨ (dump W DW ⟨m₁, s⟩ n₁ T x).isEscape = true) ↔
    ((dump W DW ⟨m₂, s⟩ n₂ T x).isErr = true ∨ (dump W DW ⟨m₂, s⟩ n₂ T x).isEscape = true) := by
  rcases modes_dsim_dump_fuels W DW m₁ m₂ s n₁ n₂ T x h₁ h₂ with ⟨w, h1, h2⟩ | ⟨h1, h2⟩
  · rw [h1, h2]
  · exact ⟨fun _ => h2, fun _ => h1⟩

theorem dump_modes_agree_accept (W : World) (DW : DumpWorld) (s : Bool) (m₁ m₂ : DebugTrail) (n₁ n₂ : Nat)
    (T : Ty) (x : Val) (h₁ : dump W DW ⟨m₁, s⟩ n₁ T x ≠ .diverge) (h₂ : dump W DW ⟨m₂, s⟩ n₂ T x ≠ .diverge) :
    (dump W DW ⟨m₁, s⟩ n₁ T x).isOk = (dump W DW ⟨m₂, s⟩ n₂ T x).isOk := by
  rcases modes_dsim_dump_fuels W DW m₁ m₂ s n₁ n₂ T x h₁ h₂ with ⟨w, h1, h2⟩ | ⟨h1, h2⟩
  · rw [h1, h2]
  · have f : ∀ o : Outcome Val, Raises o → o.isOk = false := by
      intro o ho; cases o <;> first | rfl | exact absurd ho modes_not_fails_ok
    rw [f _ h1, f _ h2]

/-- **`dump` terminates** (audit A): one fuel bound for all modes, for every world whose scalar
    dumpers answer (`Lemmas/MorphDumpTotal.lean`). -/
theorem dump_terminates (W : World) (DW : DumpWorld) (hW : DumpLeavesAnswer W) (T : Ty) (x : Val) :
    ∃ N, ∀ (cfg : Cfg) (n : Nat), N ≤ n → dump W DW cfg n T x ≠ .diverge :=
  dump_total_all_cfg W DW hW T x

/-- **The dump half of the property, fuel-free**: for every type and value, from some fuel on
    either all three modes return the same value or all three raise. -/
theorem dump_modes_agree_eventually (W : World) (DW : DumpWorld) (hW : DumpLeavesAnswer W) (s : Bool)
    (T : Ty) (x : Val) :
    ∃ N, ∀ n, N ≤ n →
      (∃ v, ∀ m, dump W DW ⟨m, s⟩ n T x = .ok v) ∨
      (∀ m, (dump W DW ⟨m, s⟩ n T x).isErr = true ∨ (dump W DW ⟨m, s⟩ n T x).isEscape = true) := by
  obtain ⟨N, hN⟩ := dump_terminates W DW hW T x
  refine ⟨N, fun n hn => ?_⟩
  have hD := hN ⟨.disable, s⟩ n hn
  cases hd : dump W DW ⟨.disable, s⟩ n T x with
  | ok v => exact .inl ⟨v, fun m => dump_modes_agree_ok W DW s .disable m n n T x v (hN ⟨m, s⟩ n hn) hd⟩
  | err e =>
    exact .inr fun m => (dump_modes_agree_fail W DW s .disable m n n T x hD (hN ⟨m, s⟩ n hn)).mp
      (by rw [hd]; exact .inl rfl)
  | escape e =>
    exact .inr fun m => (dump_modes_agree_fail W DW s .disable m n n T x hD (hN ⟨m, s⟩ n hn)).mp
      (by rw [hd]; exact .inr rfl)
  | diverge => exact absurd hd hD

/-! ## non-vacuity -/

section examples

/-- `Dict[str, List[Any]]` on `{"a": [1]}`: the three modes return the same value -/
example : ∀ m, load W₀ ⟨m, true⟩ 4 (.dict (.scalar "str") (.iter .list true .any))
    (.dict [(.str "a", .list [.int 1])]) = .ok (.dict [(.str "a", .list [.int 1])]) := by
  intro m; cases m <;> rfl

example : AllClean W₀ true (.dict (.scalar "str") (.iter .list true .any)) (.dict [(.str "a", .list [.int 1])]) :=
  ⟨4, by
    have h : load W₀ ⟨.all, true⟩ 4 (.dict (.scalar "str") (.iter .list true .any))
        (.dict [(.str "a", .list [.int 1])]) = .ok (.dict [(.str "a", .list [.int 1])]) := by rfl
    rw [h]; exact ⟨by simp, rfl⟩⟩

/-- `Dict[Never, Never]` on `{1: 2}`: DISABLE reports the value (loaded first, no trail),
    FIRST the key (with its trail), ALL both — looseness (iii) -/
def Tkv : Ty := .dict (.scalar "never") (.scalar "never")
def dkv : Val := .dict [(.int 1, .int 2)]

example : load W₀ ⟨.disable, false⟩ 3 Tkv dkv = .err (LErr.leaf "TypeLoadError" (.int 2)) := by rfl
example : load W₀ ⟨.first, false⟩ 3 Tkv dkv =
    .err (.mk "TypeLoadError" [.itemKey (.int 1)] (some (.int 1)) [] []) := by rfl
example : load W₀ ⟨.all, false⟩ 3 Tkv dkv =
    .err (LErr.agg [.mk "TypeLoadError" [.itemKey (.int 1)] (some (.int 1)) [] [],
                    .mk "TypeLoadError" [.key (.int 1)] (some (.int 2)) [] []]) := by rfl
example : ("TypeLoadError", some (Val.int 1)) ∈ leaves (LErr.agg
      [.mk "TypeLoadError" [.itemKey (.int 1)] (some (.int 1)) [] [],
       .mk "TypeLoadError" [.key (.int 1)] (some (.int 2)) [] []]) :=
  first_in_all W₀ false 3 3 Tkv dkv _ _ rfl rfl rfl

/-- `Optional[Tuple[Any]]` on `[1, 2]`: DISABLE raises the inner `ExtraItemsLoadError([1, 2])`,
    FIRST and ALL raise `UnionLoadError [TypeLoadError, ExtraItemsLoadError((1, 2))]` —
    looseness (iv) + (ii) -/
def Topt : Ty := .union [.scalar "none", .tuple [.any]] ["NoneType", "tuple"]
def dopt : Val := .list [.int 1, .int 2]

example : load W₀ ⟨.disable, true⟩ 3 Topt dopt = .err (LErr.leaf "ExtraItemsLoadError" dopt) := by rfl
example : load W₀ ⟨.all, true⟩ 3 Topt dopt =
    .err (LErr.union [LErr.leaf "TypeLoadError" dopt,
                      LErr.leaf "ExtraItemsLoadError" (.tuple [.int 1, .int 2])]) := by rfl
example : ∃ l ∈ leafNodes (LErr.union [LErr.leaf "TypeLoadError" dopt,
                      LErr.leaf "ExtraItemsLoadError" (.tuple [.int 1, .int 2])]),
    Corr .disable ("ExtraItemsLoadError", some dopt) l :=
  single_in_all_leaf W₀ true .disable 3 3 Topt dopt _ _ rfl rfl rfl

/-- `Union[Never, Never']` on `5`: bare `LoadError` under DISABLE, `UnionLoadError` under
    FIRST/ALL — looseness (i) -/
def Tun : Ty := .union [.scalar "never", .scalar "never"] ["a", "b"]

example : load W₀ ⟨.disable, true⟩ 3 Tun (.int 5) = .err LErr.bare := by rfl
example : load W₀ ⟨.all, true⟩ 3 Tun (.int 5) =
    .err (LErr.union [LErr.leaf "TypeLoadError" (.int 5), LErr.leaf "TypeLoadError" (.int 5)]) := by rfl
example : ErrCorr .disable LErr.bare
    (LErr.union [LErr.leaf "TypeLoadError" (.int 5), LErr.leaf "TypeLoadError" (.int 5)]) :=
  single_in_all W₀ true .disable 3 3 Tun (.int 5) _ _ rfl rfl

/-- dumping a tuple of the wrong length inside a list: raw LoadError under DISABLE,
    `ExceptionGroup` under ALL; both "raise" -/
def DW₀ : DumpWorld := { mro := fun _ => [], supers := fun _ => [] }

example : dump W₀ DW₀ ⟨.disable, true⟩ 4 (.iter .list true (.tuple [.any])) (.list [.tuple []]) =
    .err (LErr.leaf "NoRequiredItemsLoadError" (.tuple [])) := by rfl
example : dump W₀ DW₀ ⟨.all, true⟩ 4 (.iter .list true (.tuple [.any])) (.list [.tuple []]) =
    .escape "ExceptionGroup" := by rfl
example : ∀ m, dump W₀ DW₀ ⟨m, true⟩ 4 (.iter .list true (.tuple [.any])) (.list [.tuple [.int 1]]) =
    .ok (.list [.tuple [.int 1]]) := by
  intro m; cases m <;> rfl

/-- `Union[Tuple[Never, Set[Any]], Any]` on `[0, [[1]]]`: DISABLE and FIRST stop at the first
    element's LoadError and fall through to `Any` (they agree, `disable_first_agree` applies);
    ALL also visits the second element, whose `set()` of a list raises `TypeError`, and ends in
    an `ExceptionGroup` -/
def Thid : Ty := .union [.tuple [.scalar "never", .iter .set false .any], .any] ["tuple", "object"]
def dhid : Val := .list [.int 0, .list [.list [.int 1]]]

example : load W₀ ⟨.disable, true⟩ 4 Thid dhid = .ok dhid := by rfl
example : load W₀ ⟨.first, true⟩ 4 Thid dhid = .ok dhid := by rfl
example : load W₀ ⟨.all, true⟩ 4 Thid dhid = .escape "ExceptionGroup" := by rfl

/-! ### all hypotheses of the agreement theorems together (audit A) -/

/-- the example world satisfies `LeavesAnswer` -/
theorem leavesAnswer_witness : LeavesAnswer W₀ := by
  intro s name d
  simp only [W₀]
  split <;> simp

/-- `AllClean` on a FAILING input with two independent faults (`Dict[Never, Never]` on `{1: 2}`) -/
theorem allClean_witness : AllClean W₀ false Tkv dkv := by
  have h : load W₀ ⟨.all, false⟩ 3 Tkv dkv =
      .err (LErr.agg [.mk "TypeLoadError" [.itemKey (.int 1)] (some (.int 1)) [] [],
                      .mk "TypeLoadError" [.key (.int 1)] (some (.int 2)) [] []]) := by rfl
  exact ⟨3, by rw [h]; simp, by rw [h]; rfl⟩

/-- `modes_agree_err` / `modes_agree_accept` with every hypothesis discharged, different fuels
    for the two runs: DISABLE (fuel 3) and FIRST (fuel 5) both fail with a LoadError -/
example : (load W₀ ⟨.disable, false⟩ 3 Tkv dkv).isErr = (load W₀ ⟨.first, false⟩ 5 Tkv dkv).isErr ∧
    (load W₀ ⟨.disable, false⟩ 3 Tkv dkv).isEscape = false :=
  modes_agree_err W₀ false .disable .first 3 5 Tkv dkv allClean_witness
    (by rw [show load W₀ ⟨.disable, false⟩ 3 Tkv dkv = .err (LErr.leaf "TypeLoadError" (.int 2)) from rfl]; simp)
    (by rw [show load W₀ ⟨.first, false⟩ 5 Tkv dkv =
          .err (.mk "TypeLoadError" [.itemKey (.int 1)] (some (.int 1)) [] []) from rfl]; simp)

/-- `List[Tuple[Any, str]]` and a value with two elements -/
def Tlt : Ty := .iter .list true (.tuple [.any, .scalar "str"])
def dlt : Val := .list [.tuple [.int 1, .str "a"], .list [.int 2, .str "b"]]
def vlt : Val := .list [.tuple [.int 1, .str "a"], .tuple [.int 2, .str "b"]]

/-- `modes_agree_ok` with every hypothesis discharged (`AllClean`, the second run did not
    diverge, the first returned a value), different fuels for the runs -/
example : load W₀ ⟨.all, true⟩ 7 Tlt dlt = .ok vlt := by
  have hD : load W₀ ⟨.disable, true⟩ 4 Tlt dlt = .ok vlt := by rfl
  have hA : load W₀ ⟨.all, true⟩ 4 Tlt dlt = .ok vlt := by rfl
  have hA7 : load W₀ ⟨.all, true⟩ 7 Tlt dlt ≠ .diverge := by
    rw [load_fuel_mono_le W₀ _ 4 7 _ _ (by decide) (by rw [hA]; simp), hA]; simp
  exact modes_agree_ok W₀ true .disable .all 4 7 _ _ _ ⟨4, by rw [hA]; simp, by rw [hA]; rfl⟩ hA7 hD

/-- the fuel-free form instantiated: on `Dict[Never, Never]` / `{1: 2}` the escape premise
    holds at every fuel ≥ 3, so the conclusion is the second disjunct for all large fuels -/
example : ∃ N, ∀ n, N ≤ n → (load W₀ ⟨.all, false⟩ n Tkv dkv).isEscape = false →
      (∃ v, ∀ m, load W₀ ⟨m, false⟩ n Tkv dkv = .ok v) ∨
      (∃ E, load W₀ ⟨.all, false⟩ n Tkv dkv = .err E ∧
        ∀ m, ∃ e, load W₀ ⟨m, false⟩ n Tkv dkv = .err e ∧ ErrCorr m e E) :=
  modes_agree_eventually W₀ leavesAnswer_witness false Tkv dkv

/-- the example world's dumpers answer; the fuel-free dump agreement instantiated on a value
    whose dump FAILS (a tuple of the wrong length inside a list) -/
theorem dumpLeavesAnswer_witness : DumpLeavesAnswer W₀ := by
  intro name x; simp [W₀]

example : ∃ N, ∀ n, N ≤ n →
    (∃ v, ∀ m, dump W₀ DW₀ ⟨m, true⟩ n (.iter .list true (.tuple [.any])) (.list [.tuple []]) = .ok v) ∨
    (∀ m, (dump W₀ DW₀ ⟨m, true⟩ n (.iter .list true (.tuple [.any])) (.list [.tuple []])).isErr = true ∨
          (dump W₀ DW₀ ⟨m, true⟩ n (.iter .list true (.tuple [.any])) (.list [.tuple []])).isEscape = true) :=
  dump_modes_agree_eventually W₀ DW₀ dumpLeavesAnswer_witness true _ _

/-- `single_is_leaf` and `escape_reaches_all` with their hypotheses discharged -/
example : leafNodes (LErr.leaf "TypeLoadError" (.int 2)) = [LErr.leaf "TypeLoadError" (.int 2)] :=
  single_is_leaf W₀
    (fun s name d e h => by
      simp only [W₀] at h
      split at h
      · cases h; simp [LErr.leaf, LErr.cls]
      · cases h)
    false .disable (by simp) 3 Tkv dkv _ rfl

example : (load W₀ ⟨.all, true⟩ 4 Tbad dbad).isEscape = true :=
  escape_reaches_all W₀ true .disable 4 4 Tbad dbad (by rw [bad_disable]; rfl) (by rw [bad_all]; simp)

end examples

end Adaptix.Morph.C06
