/-
  C10 — Predicates (types, strings, P patterns and combinators) match as documented.
  Property theorems only; helper lemmas live in `AdaptixProofs/Lemmas/Pred*.lean`.

  Model : `AdaptixModel/Pred/{Loc,World,Checker,Pattern,Bound}.lean` (follows loc_stack_filtering.py etc.)
  Spec  : `AdaptixModel/Pred/Spec.lean` (`specMatches`, written from the tutorial text)
  `W : World` is the oracle table (class facts, normalisation, regex engine); every theorem holds for all of them.
  Stacks are arbitrary lists of locations; `st ≠ []` is the only side condition (on the empty stack the real
  code raises `IndexError` from `loc_stack.last`, see `empty_stack_raises`).
-/
import AdaptixModel.Pred.Bound
import AdaptixProofs.Lemmas.PredSound
import AdaptixProofs.Lemmas.PredChainSpec

namespace Adaptix.Pred.C10

open Adaptix.Pred

/-! ## the main theorem -/

/-- **The checker built from a predicate decides exactly the documented meaning.**  For every oracle
    table, every predicate expression (strings, regexes, classes and type hints, `P` chains of any length,
    `|`, `&`, `^`, `~`, `+`, `P[a, b, …]`, `generic_arg`, nested to any depth) and every non-empty location
    stack: if the expression is accepted (`create_loc_stack_checker` does not raise), then
    `check_loc_stack` raises nothing and returns the specification `specMatches`. -/
theorem checker_iff_spec (W : World) (e : Expr) (c : Checker) (st : LocStack)
    (hc : createChecker W e = .ok c) (hne : st ≠ []) :
    check W c st = .ok (specMatches W e st) := by
  simp only [createChecker] at hc
  rcases bind_eq_ok.mp hc with ⟨v, hv, hcv⟩
  have hd := (eval_sound W e v hv).create c hcv
  rw [check_eq_checkB W c st hd.1 hne, hd.2 st hne]

/-- Accepted predicates never make `check_loc_stack` raise on a non-empty stack. -/
theorem accepted_checker_total (W : World) (e : Expr) (c : Checker) (st : LocStack)
    (hc : createChecker W e = .ok c) (hne : st ≠ []) : ∃ b, check W c st = .ok b :=
  ⟨_, checker_iff_spec W e c st hc hne⟩

/-! ## classes and type hints -/

/-- A class / type-hint predicate is accepted exactly when the documentation gives it a reading, and the
    checker is the one that reading calls for (exact origin / subclass / exact normalised type). -/
theorem type_pred_checker (W : World) (t : Obj) :
    createChecker W (.ty t) = match typePredKind W t with
      | .exactly o => .ok (.exactOrigin o)
      | .subclasses o => .ok (.originSubclass o)
      | .sameType n => .ok (.exactType n)
      | .invalid => .error .valueError := by
  have h : createChecker W (.ty t) = createFromTypeHint W t := by
    simp [createChecker, eval, createLocStackChecker, createNonTypeHint, bind, Except.bind]
  rw [h, createFromTypeHint_kind]
  cases typePredKind W t <;> rfl

/-- **Concrete class: exactly that type.**  A class that is neither abstract nor a protocol (plain, or a bare
    generic) matches the stacks whose last location's type has that very class as origin — no subclass. -/
theorem class_pred_concrete (W : World) (t : Obj) (n : Nat) (c : Checker) (st : LocStack) (l : Loc)
    (hn : W.norm t = .ok n) (htv : W.normIsTV n = false) (hp : W.isParametrized t = false)
    (hg : W.isGeneric t = true ∨ W.isGeneric (W.normOrigin n) = false)
    (ha : W.isAbstract (W.normOrigin n) = false) (hpr : W.isProtocol (W.normOrigin n) = false)
    (hc : createChecker W (.ty t) = .ok c) (hl : st.getLast? = some l) :
    check W c st = .ok (match W.norm l.type with
      | .ok m => W.normOrigin m == W.normOrigin n
      | _ => false) := by
  have hne : st ≠ [] := by intro e; simp [e] at hl
  rw [checker_iff_spec W _ c st hc hne]
  have hk : typePredKind W t = .exactly (W.normOrigin n) := by
    rcases hg with hg | hg <;> simp [typePredKind, hn, htv, hp, hg, ha, hpr]
  simp only [specMatches, hl, typeMatches, hk]
  cases W.norm l.type <;> rfl

/-- **Abstract class / protocol: every subclass / implementation** (`issubclass` of the location's origin). -/
theorem class_pred_abstract_or_protocol (W : World) (t : Obj) (n : Nat) (c : Checker) (st : LocStack) (l : Loc)
    (hn : W.norm t = .ok n) (htv : W.normIsTV n = false) (hp : W.isParametrized t = false)
    (hg : W.isGeneric t = true ∨ W.isGeneric (W.normOrigin n) = false)
    (ha : W.isAbstract (W.normOrigin n) = true ∨ W.isProtocol (W.normOrigin n) = true)
    (hc : createChecker W (.ty t) = .ok c) (hl : st.getLast? = some l) :
    check W c st = .ok (match W.norm l.type with
      | .ok m => W.subclassSoft (W.normOrigin m) (W.normOrigin n)
      | _ => false) := by
  have hne : st ≠ [] := by intro e; simp [e] at hl
  rw [checker_iff_spec W _ c st hc hne]
  have hk : typePredKind W t = .subclasses (W.normOrigin n) := by
    rcases hg with hg | hg <;> rcases ha with ha | ha <;> simp [typePredKind, hn, htv, hp, hg, ha]
  simp only [specMatches, hl, typeMatches, hk]
  cases W.norm l.type <;> rfl

/-! ## strings -/

/-- **A string matches a field id exactly when it is an identifier, by full regex match otherwise**, and only
    at locations that are fields. -/
theorem string_pred (W : World) (s : String) (c : Checker) (st : LocStack) (l : Loc)
    (hc : createChecker W (.str s) = .ok c) (hl : st.getLast? = some l) :
    check W c st = .ok (l.cls.isField &&
      (if W.isIdentifier s then s == l.fieldId else W.reFullmatch s l.fieldId)) := by
  have hne : st ≠ [] := by intro e; simp [e] at hl
  rw [checker_iff_spec W _ c st hc hne]
  simp [specMatches, strMatches, hl, fieldIdMatches]

/-- "this is only an optimization": if the regex engine treats identifiers as literals (the harness checks it
    on the field-id universe), a string is *always* a full regex match, identifier or not. -/
theorem string_pred_is_regex (W : World) (s : String) (c : Checker) (st : LocStack) (l : Loc)
    (hre : ∀ f, W.isIdentifier s = true → W.reFullmatch s f = (s == f))
    (hc : createChecker W (.str s) = .ok c) (hl : st.getLast? = some l) :
    check W c st = .ok (l.cls.isField && W.reFullmatch s l.fieldId) := by
  rw [string_pred W s c st l hc hl]
  by_cases hi : W.isIdentifier s = true
  · simp [hi, hre l.fieldId hi]
  · simp [hi]

/-! ## `P` chains -/

/-- **`LocStackEndChecker` by offsets** (DESIGN `end_checker_tail`): it holds iff the stack is long enough and
    the i-th checker holds on the stack cut after the location `len(cs) - 1 - i` places from the end. -/
theorem end_checker_tail (W : World) (cs : List Checker) (st : LocStack)
    (hw : ∀ c ∈ cs, c.wf = true) (hne : st ≠ []) :
    check W (.locStackEnd cs) st = .ok true ↔
      cs.length ≤ st.length ∧
      ∀ i (h : i < cs.length), check W cs[i] (st.take (st.length - (cs.length - 1 - i))) = .ok true := by
  have hwf : wfAll cs = true := (wfAll_iff cs).mpr hw
  rw [check_eq_checkB W _ st (by simpa [Checker.wf] using hwf) hne]
  by_cases hl : st.length < cs.length
  · have : ¬ cs.length ≤ st.length := by omega
    simp [checkB, hl, this]
  · have hle : cs.length ≤ st.length := by omega
    simp only [checkB, hl, if_false, List.all_reverse, Except.ok.injEq, hle, true_and]
    -- the list of element checks, by index
    have hidx : ∀ (cs' : List Checker) (k : Nat), k + cs'.length ≤ st.length →
        ((checkEndB W cs' st).all id = true ↔
          ∀ i (h : i < cs'.length), checkB W cs'[i] (st.take (st.length - (cs'.length - 1 - i))) = true) := by
      intro cs'
      induction cs' with
      | nil => intro k _; simp [checkEndB]
      | cons c t ih =>
        intro k hk
        simp only [checkEndB, List.all_cons, id, Bool.and_eq_true, List.length_cons]
        rw [ih (k + 1) (by simp at hk; omega)]
        constructor
        · rintro ⟨h0, hrest⟩ i hi
          cases i with
          | zero => simpa [reversedSlice] using h0
          | succ j =>
            have := hrest j (by simp at hi; omega)
            have e : st.length - (t.length + 1 - 1 - (j + 1)) = st.length - (t.length - 1 - j) := by omega
            show checkB W t[j] _ = true
            rw [e]; exact this
        · intro hall
          refine ⟨by simpa [reversedSlice] using hall 0 (by simp), fun j hj => ?_⟩
          have := hall (j + 1) (by simp; omega)
          have e : st.length - (t.length + 1 - 1 - (j + 1)) = st.length - (t.length - 1 - j) := by omega
          rw [← e]; exact this
    rw [hidx cs 0 (by omega)]
    constructor
    · intro h i hi
      have hi' : cs.length - 1 - i < st.length := by omega
      rw [check_eq_checkB W _ _ (hw _ (List.getElem_mem hi)) (by
        intro e
        have := congrArg List.length e
        simp at this
        omega)]
      simp [h i hi]
    · intro h i hi
      have := h i hi
      rw [check_eq_checkB W _ _ (hw _ (List.getElem_mem hi)) (by
        intro e
        have := congrArg List.length e
        simp at this
        omega)] at this
      simpa using this

/-- **A `P` chain matches exactly the stacks whose tail satisfies its elements in order**: for a chain of
    `k ≥ 2` element checkers the built `LocStackEndChecker` holds iff the stack splits into `pre ++ tail`,
    `tail` of length `k`, and the j-th element holds on `pre ++ tail[0..j]`. -/
theorem chain_matches_tail (W : World) (cs : List Checker) (st : LocStack)
    (hw : ∀ c ∈ cs, c.wf = true) (hne : st ≠ []) :
    check W (.locStackEnd cs) st = .ok true ↔
      ∃ pre tail, st = pre ++ tail ∧ tail.length = cs.length ∧
        ∀ j (h : j < cs.length), check W cs[j] (pre ++ tail.take (j + 1)) = .ok true := by
  rw [end_checker_tail W cs st hw hne]
  constructor
  · rintro ⟨hle, hall⟩
    refine ⟨st.take (st.length - cs.length), st.drop (st.length - cs.length), by simp, by simp; omega, ?_⟩
    intro j hj
    have := hall j hj
    have e : st.take (st.length - cs.length) ++ (st.drop (st.length - cs.length)).take (j + 1)
        = st.take (st.length - (cs.length - 1 - j)) := by
      rw [← List.take_add]
      congr 1
      omega
    rw [e]; exact this
  · rintro ⟨pre, tail, rfl, hlen, hall⟩
    refine ⟨by simp; omega, fun i hi => ?_⟩
    have := hall i hi
    have e : (pre ++ tail).take ((pre ++ tail).length - (cs.length - 1 - i)) = pre ++ tail.take (i + 1) := by
      have h1 : (pre ++ tail).length - (cs.length - 1 - i) = pre.length + (i + 1) := by simp; omega
      rw [h1, List.take_length_add_append]
    rw [e]; exact this

/-- **What the specification means by "chain"** (the spec function `matchesChain` against the words of the
    property): a chain of element predicates `fs` matches a stack iff the stack splits into `pre ++ tail` with
    one tail location per element, and the j-th element holds on the stack cut after the j-th tail location -
    "the tail satisfies its elements in order".  Holds for every stack (the empty one included) and every list
    of element predicates; this is the expression-level twin of `chain_matches_tail`. -/
theorem matchesChain_iff_tail (fs : List (LocStack → Bool)) (st : LocStack) :
    matchesChain fs st = true ↔
      ∃ pre tail, st = pre ++ tail ∧ tail.length = fs.length ∧
        ∀ j (h : j < fs.length), fs[j] (pre ++ tail.take (j + 1)) = true := by
  simp only [matchesChain, Bool.and_eq_true, decide_eq_true_eq, chainFrom_iff]
  constructor
  · rintro ⟨hle, hl, hall⟩
    exact ⟨_, _, (List.take_append_drop _ st).symm, hl, hall⟩
  · rintro ⟨pre, tail, rfl, hl, hall⟩
    have h1 : (pre ++ tail).length - fs.length = pre.length := by simp; omega
    refine ⟨by simp; omega, ?_, ?_⟩
    · rw [h1]; simpa using hl
    · intro j hj
      rw [h1]
      simpa using hall j hj

/-- **A `P` chain written as an expression matches exactly the stacks whose tail satisfies its elements in
    order**: for every accepted `p[item]` (p any pattern expression, of any length) the built checker answers
    `true` iff the stack is `pre ++ tail`, one tail location per element of the chain, every element of `p`
    holds at its place and `item` holds on the whole stack. -/
theorem chain_expr_matches_tail (W : World) (p item : Expr) (c : Checker) (st : LocStack)
    (hc : createChecker W (.getitem p item) = .ok c) (hne : st ≠ []) :
    check W c st = .ok true ↔
      ∃ pre tail, st = pre ++ tail ∧ tail.length = (chain W p).length + 1 ∧
        (∀ j (h : j < (chain W p).length), (chain W p)[j] (pre ++ tail.take (j + 1)) = true) ∧
        specMatches W item st = true := by
  rw [checker_iff_spec W _ c st hc hne]
  simp only [Except.ok.injEq, specMatches, matchesChain_iff_tail, List.length_append, List.length_cons,
    List.length_nil, Nat.zero_add]
  constructor
  · rintro ⟨pre, tail, rfl, hl, hall⟩
    refine ⟨pre, tail, rfl, hl, fun j hj => ?_, ?_⟩
    · have := hall j (by omega)
      rwa [List.getElem_append_left hj] at this
    · have := hall (chain W p).length (by omega)
      rw [List.getElem_append_right (Nat.le_refl _)] at this
      simp only [List.getElem_singleton] at this
      rwa [← hl, List.take_length] at this
  · rintro ⟨pre, tail, rfl, hl, hall, hitem⟩
    refine ⟨pre, tail, rfl, hl, fun j hj => ?_⟩
    by_cases hj' : j < (chain W p).length
    · rw [List.getElem_append_left hj']; exact hall j hj'
    · have hje : j = (chain W p).length := by omega
      subst hje
      rw [List.getElem_append_right (Nat.le_refl _)]
      simp only [List.getElem_singleton]
      rwa [← hl, List.take_length]

/-- On the level of expressions: `p[item]` extends the chain of `p` by one element, `p + q` concatenates. -/
theorem pattern_is_chain (W : World) (p item : Expr) (c : Checker) (st : LocStack)
    (hc : createChecker W (.getitem p item) = .ok c) (hne : st ≠ []) :
    check W c st = .ok (matchesChain (chain W p ++ [fun s => specMatches W item s]) st) := by
  rw [checker_iff_spec W _ c st hc hne]; simp [specMatches]

/-! ## combinators are pointwise -/

/-- **`|`, `&`, `^` are the pointwise boolean operations** — on checkers, on patterns and mixed: whenever the
    combination and both operands are accepted, the combination's answer is the operation applied to the
    operands' answers, on every non-empty stack. -/
theorem binop_pointwise (W : World) (op : BinOp) (a b : Expr) (c ca cb : Checker) (st : LocStack)
    (hc : createChecker W (.bin op a b) = .ok c) (ha : createChecker W a = .ok ca)
    (hb : createChecker W b = .ok cb) (hne : st ≠ []) :
    ∃ x y, check W ca st = .ok x ∧ check W cb st = .ok y ∧
      check W c st = .ok (match op with | .or => x || y | .and => x && y | .xor => x ^^ y) := by
  refine ⟨specMatches W a st, specMatches W b st, checker_iff_spec W a ca st ha hne,
    checker_iff_spec W b cb st hb hne, ?_⟩
  rw [checker_iff_spec W _ c st hc hne, spec_bin]
  cases op <;> rfl

/-- **`~` is pointwise negation.** -/
theorem invert_pointwise (W : World) (a : Expr) (c ca : Checker) (st : LocStack)
    (hc : createChecker W (.invert a) = .ok c) (ha : createChecker W a = .ok ca) (hne : st ≠ []) :
    ∃ x, check W ca st = .ok x ∧ check W c st = .ok (!x) := by
  refine ⟨specMatches W a st, checker_iff_spec W a ca st ha hne, ?_⟩
  rw [checker_iff_spec W _ c st hc hne]; simp [specMatches]

/-- The n-ary classes built directly: `Or` is `any`, `And` is `all`, `Xor` is parity (`reduce(xor)`), for
    lists of any length. -/
theorem nary_checkers (W : World) (cs : List Checker) (st : LocStack) (hw : ∀ c ∈ cs, c.wf = true) (hne : st ≠ []) :
    check W (.or cs) st = .ok (cs.any fun c => checkB W c st) ∧
    check W (.and cs) st = .ok (cs.all fun c => checkB W c st) ∧
    (cs ≠ [] → check W (.xor cs) st = .ok (cs.foldl (fun acc c => acc ^^ checkB W c st) false)) := by
  have hwf : wfAll cs = true := (wfAll_iff cs).mpr hw
  refine ⟨?_, ?_, fun hcs => ?_⟩
  · rw [check_eq_checkB W _ st (by simpa [Checker.wf] using hwf) hne]
    simp [checkB, checkEachB_eq_map, List.any_map]
  · rw [check_eq_checkB W _ st (by simpa [Checker.wf] using hwf) hne]
    simp [checkB, checkEachB_eq_map, List.all_map]
  · rw [check_eq_checkB W _ st (by cases cs <;> simp_all [Checker.wf]) hne]
    simp [checkB, checkEachB_eq_map, List.foldl_map]

/-! ## the documented identities, for all stacks (empty one included) -/

theorem identity_getitem_getattr (W : World) (p : Expr) (n : String) (hn : plainName n) :
    eval W (.getattr p n) = eval W (.getitem p (.str n)) := by
  simp only [eval, patGetattr_plain W _ n hn]
  cases eval W p with
  | error e => rfl
  | ok v => cases asPattern v <;> rfl

theorem identity_getitem_getattr_check (W : World) (p : Expr) (n : String) (hn : plainName n) (st : LocStack) :
    (createChecker W (.getattr p n)).map (fun c => check W c st)
      = (createChecker W (.getitem p (.str n))).map (fun c => check W c st) := by
  simp only [createChecker, identity_getitem_getattr W p n hn]

/-- **`P[A] == A`**: for every predicate `a` that is not itself a pattern, `P[a]` and `a` yield the *same checker*
    (or raise the same exception). -/
theorem identity_P_item (W : World) (a : Expr) (hnp : ∀ s, eval W a ≠ .ok (.pattern s)) :
    createChecker W (.getitem .P a) = createChecker W a := by
  simp only [createChecker, eval, asPattern, patGetitem]
  cases hv : eval W a with
  | error e => rfl
  | ok v =>
    cases v with
    | pattern s => exact absurd hv (hnp s)
    | str s =>
      simp only [bind, Except.bind, ensureFromPred]
      cases createLocStackChecker W (.str s) <;> simp [pure, Except.pure, createLSC_pattern, buildLocStackChecker]
    | re s =>
      simp only [bind, Except.bind, ensureFromPred]
      cases createLocStackChecker W (.re s) <;> simp [pure, Except.pure, createLSC_pattern, buildLocStackChecker]
    | ty s =>
      simp only [bind, Except.bind, ensureFromPred]
      cases createLocStackChecker W (.ty s) <;> simp [pure, Except.pure, createLSC_pattern, buildLocStackChecker]
    | checker s =>
      simp only [bind, Except.bind, ensureFromPred]
      cases createLocStackChecker W (.checker s) <;> simp [pure, Except.pure, createLSC_pattern, buildLocStackChecker]

/-- **`P[A] + P.n == P[A].n`**, for every pattern `p` in place of `P[A]`. -/
theorem identity_add_getattr (W : World) (p : Expr) (n : String) (stack : List Checker)
    (hp : eval W p = .ok (.pattern stack)) (hn : plainName n) :
    eval W (.add p (.getattr .P n)) = eval W (.getattr p n) := by
  simp only [eval, patGetattr_plain W _ n hn, hp, asPattern, patGetitem, bind, Except.bind]
  cases ensureFromPred W (.str n) <;> simp [pure, Except.pure, evalAdd]

/-- **`P[A, B] == P[A] | P[B]`**: the same value (a one-element pattern holding `Or([a, b])`). -/
theorem identity_tuple_or (W : World) (a b : Expr) (va vb : Value)
    (ha : eval W a = .ok va) (hb : eval W b = .ok vb) :
    eval W (.getitemTuple .P [a, b]) = eval W (.bin .or (.getitem .P a) (.getitem .P b)) := by
  simp only [eval, evalEach, ha, hb, asPattern, patGetitemTuple, patGetitem, ensureEachFromPred, bind, Except.bind,
    pure, Except.pure]
  cases ensureFromPred W va with
  | error e => rfl
  | ok ca =>
    cases ensureFromPred W vb with
    | error e => rfl
    | ok cb => simp [evalBinOp, buildLocStackChecker, ensureLocStackChecker, BinOp.mk, bind, Except.bind, pure, Except.pure]

/-- …and for any number of alternatives `P[a₁, …, aₙ]` matches iff some `aᵢ` does. -/
theorem tuple_is_some (W : World) (items : List Expr) (c : Checker) (st : LocStack)
    (hc : createChecker W (.getitemTuple .P items) = .ok c) (hne : st ≠ []) :
    check W c st = .ok (items.any fun a => specMatches W a st) := by
  rw [checker_iff_spec W _ c st hc hne]
  simp only [specMatches, chain, List.nil_append, matchesChain_singleton _ _ hne, matchesSome_eq_any, List.any_map]
  rfl

/-! ## bound(pred, provider) -/

/-- **A bound provider answers where the bounding predicate and its own checker both hold.**
    For a located request class: an always-true checker becomes the bounding checker, a located checker the
    conjunction; request classes that are not located keep their checker. -/
theorem bound_is_conjunction (W : World) (ot : Nat → Bool) (bounding own : Checker) (st : LocStack) (x y : Bool)
    (hb : check W bounding st = .ok x) (ho : check W own st = .ok y) :
    (processRequestChecker bounding true (.located own)).check W ot st = .ok (x && y) ∧
    (processRequestChecker bounding true .alwaysTrue).check W ot st = .ok x ∧
    (∀ rc, processRequestChecker bounding false rc = rc) := by
  refine ⟨?_, ?_, fun rc => rfl⟩
  · cases x <;> cases y <;>
      simp [processRequestChecker, RequestChecker.check, check, checkEach, pyAll, hb, ho, bind, Except.bind, pure, Except.pure]
  · simp [processRequestChecker, RequestChecker.check, hb]

/-- `bound_by_any(preds, provider)` binds with the disjunction of the predicates. -/
theorem bound_by_any_is_disjunction (W : World) (vs : List Value) (c : Checker) (st : LocStack)
    (h : boundByAnyChecker W vs = .ok (some c)) (hne : st ≠ [])
    (cs : List Checker) (hcs : vs.mapM (createLocStackChecker W) = .ok cs) (hw : ∀ c ∈ cs, c.wf = true) :
    check W c st = .ok (cs.any fun c => checkB W c st) := by
  match vs, h, hcs with
  | [], h, _ => simp [boundByAnyChecker] at h
  | [v], h, hcs =>
    simp only [boundByAnyChecker] at h
    rcases bind_eq_ok.mp h with ⟨c', hc', h⟩
    have := pure_eq_ok h; cases this
    simp only [List.mapM_cons, List.mapM_nil, hc', bind, Except.bind, pure, Except.pure] at hcs
    cases hcs
    rw [check_eq_checkB W c st (hw c (by simp)) hne]
    simp
  | v :: v' :: rest, h, hcs =>
    simp only [boundByAnyChecker] at h
    rcases bind_eq_ok.mp h with ⟨cs', hcs', h⟩
    have := pure_eq_ok h; cases this
    rw [hcs] at hcs'; cases hcs'
    exact (nary_checkers W cs st hw hne).1

/-! ## outside the domain -/

/-- On the empty stack every last-location checker (all six `LastLocChecker` classes, any parameters) raises
    `IndexError` (`loc_stack.last`), as the real code does; requests never carry an empty stack.
    (Audit: previously stated for the two literals `ExactOriginLSC(0)` / `ExactFieldNameLSC("a")` only.) -/
theorem empty_stack_raises (W : World) (o : Obj) (n : Nat) (s k : String) (pos : Int) :
    check W (.exactOrigin o) [] = .error .indexError ∧ check W (.originSubclass o) [] = .error .indexError ∧
    check W (.exactType n) [] = .error .indexError ∧ check W (.exactFieldName s) [] = .error .indexError ∧
    check W (.reFieldName k) [] = .error .indexError ∧ check W (.genericParam pos) [] = .error .indexError :=
  ⟨rfl, rfl, rfl, rfl, rfl, rfl⟩

/-! ## non-vacuity: a concrete world -/

/-- objects: 0 = concrete class C, 1 = abstract class A, 2 = AImpl (subclass of A), 3 = CSub (subclass of C) -/
def demoWorld : World where
  norm := fun o => if o < 4 then .ok o else .valueError
  normIsTV := fun _ => false
  normOrigin := fun n => n
  isGeneric := fun _ => false
  isParametrized := fun _ => false
  isProtocol := fun _ => false
  isAbstract := fun o => o == 1
  subclassSoft := fun a b => a == b || (a == 2 && b == 1) || (a == 3 && b == 0)
  isIdentifier := fun s => s == "name" || s == "age"
  reCompiles := fun _ => true
  reFullmatch := fun k f => k == "na.*" && (f == "name" || f == "nap")
  user := fun _ _ => false

def demoStack : LocStack :=
  [{ cls := .typeHintLoc, type := 0 }, { cls := .inputFieldLoc, type := 2, fieldId := "name" }]

/-- evaluate a predicate on a stack: the exception of `create_loc_stack_checker` or the outcome of the check -/
def run (W : World) (e : Expr) (st : LocStack) : Outcome :=
  match createChecker W e with
  | .ok c => check W c st
  | .error x => .error x

/-- P[C].name matches, P[A].name does not (the owner is C), the abstract class A matches the field of type AImpl,
    the concrete class C does not match CSub -/
example : run demoWorld (.getattr (.getitem .P (.ty 0)) "name") demoStack = .ok true := by decide
example : run demoWorld (.getattr (.getitem .P (.ty 1)) "name") demoStack = .ok false := by decide
example : run demoWorld (.ty 1) demoStack = .ok true := by decide
example : run demoWorld (.ty 0) [{ cls := .typeHintLoc, type := 3 }] = .ok false := by decide
example : run demoWorld (.str "na.*") demoStack = .ok true := by decide
example : run demoWorld (.bin .xor (.getitem .P (.ty 1)) (.getattr .P "age")) demoStack = .ok true := by decide
example : run demoWorld .P demoStack = .error .valueError := by decide
example : run demoWorld (.getitem .P (.getitem .P (.ty 0))) demoStack = .error .typeError := by decide
example : run demoWorld (.ty 0) [] = .error .indexError := by decide
example : plainName "name" := by unfold plainName; decide

/-! ## witnesses: the hypotheses of every conditional theorem above hold TOGETHER on non-degenerate data

  (a world with a concrete class, an abstract class and subclasses of both; stacks of two locations; expressions
  with chains of two elements and nested combinators).  Each `example` instantiates the theorem itself, so the
  conclusion shown is the one the theorem delivers. -/

/-- root of type C, then a field `x` of type CSub -/
def stackCSub : LocStack :=
  [{ cls := .typeHintLoc, type := 0 }, { cls := .inputFieldLoc, type := 3, fieldId := "x" }]

/-- `P[C].name | ~(P[A] & P.age)` -/
def demoExpr : Expr :=
  .bin .or (.getattr (.getitem .P (.ty 0)) "name") (.invert (.bin .and (.getitem .P (.ty 1)) (.getattr .P "age")))

/-- `checker_iff_spec`, `accepted_checker_total`: a nested expression is accepted, the stack has two locations -/
example : ∃ c, createChecker demoWorld demoExpr = .ok c ∧ demoStack ≠ [] ∧
    check demoWorld c demoStack = .ok (specMatches demoWorld demoExpr demoStack) ∧
    specMatches demoWorld demoExpr demoStack = true := by
  refine ⟨_, rfl, by decide, checker_iff_spec demoWorld demoExpr _ demoStack rfl (by decide), by decide⟩

/-- `class_pred_concrete`: the concrete class C against a location of type CSub (a subclass): no match -/
example : check demoWorld (.exactOrigin 0) stackCSub = .ok false :=
  class_pred_concrete demoWorld 0 0 (.exactOrigin 0) stackCSub { cls := .inputFieldLoc, type := 3, fieldId := "x" }
    (by decide) (by decide) (by decide) (Or.inr (by decide)) (by decide) (by decide) (by rfl) (by decide)

/-- `class_pred_abstract_or_protocol`: the abstract class A against a location of type AImpl: match -/
example : check demoWorld (.originSubclass 1) demoStack = .ok true :=
  class_pred_abstract_or_protocol demoWorld 1 1 (.originSubclass 1) demoStack
    { cls := .inputFieldLoc, type := 2, fieldId := "name" }
    (by decide) (by decide) (by decide) (Or.inr (by decide)) (Or.inl (by decide)) (by rfl) (by decide)

/-- `string_pred`: an identifier (exact comparison) and a regex (full match) -/
example : check demoWorld (.exactFieldName "name") demoStack = .ok true :=
  string_pred demoWorld "name" _ demoStack { cls := .inputFieldLoc, type := 2, fieldId := "name" } (by rfl) (by decide)
example : check demoWorld (.reFieldName "na.*") demoStack = .ok true :=
  string_pred demoWorld "na.*" _ demoStack { cls := .inputFieldLoc, type := 2, fieldId := "name" } (by rfl) (by decide)

/-- a world whose regex engine treats identifiers as literals (what `re` does) -/
def reWorld : World :=
  { demoWorld with reFullmatch := fun k f => k == f || (k == "na.*" && (f == "name" || f == "nap")) }

/-- `string_pred_is_regex`: the hypothesis `hre` holds for the identifier "name" in `reWorld` (not vacuously:
    "name" IS an identifier there), together with the other hypotheses -/
example : reWorld.isIdentifier "name" = true ∧ check reWorld (.exactFieldName "name") demoStack = .ok true := by
  have hre : ∀ f, reWorld.isIdentifier "name" = true → reWorld.reFullmatch "name" f = ("name" == f) := by
    intro f _
    show ("name" == f || (("name" : String) == "na.*" && (f == "name" || f == "nap"))) = ("name" == f)
    have : (("name" : String) == "na.*") = false := by decide
    simp [this]
  refine ⟨by decide, ?_⟩
  exact string_pred_is_regex reWorld "name" _ demoStack { cls := .inputFieldLoc, type := 2, fieldId := "name" }
    hre (by rfl) (by decide)

/-- `end_checker_tail`, `chain_matches_tail`, `nary_checkers`: a chain of two well-formed checkers that holds on
    `demoStack`, and the split of the stack the theorem delivers -/
example : ∃ pre tail, demoStack = pre ++ tail ∧ tail.length = 2 ∧
    ∀ j (h : j < 2), check demoWorld [Checker.exactOrigin 0, .exactFieldName "name"][j] (pre ++ tail.take (j + 1)) = .ok true := by
  have hw : ∀ c ∈ [Checker.exactOrigin 0, .exactFieldName "name"], c.wf = true := by
    intro c hc
    simp only [List.mem_cons, List.mem_nil_iff, or_false] at hc
    rcases hc with rfl | rfl <;> rfl
  exact (chain_matches_tail demoWorld _ demoStack hw (by decide)).mp (by decide)

example : check demoWorld (.xor [.exactOrigin 0, .exactFieldName "name", .any]) demoStack = .ok false := by
  have hw : ∀ c ∈ [Checker.exactOrigin 0, .exactFieldName "name", .any], c.wf = true := by
    intro c hc
    simp only [List.mem_cons, List.mem_nil_iff, or_false] at hc
    rcases hc with rfl | rfl | rfl <;> rfl
  rw [(nary_checkers demoWorld _ demoStack hw (by decide)).2.2 (by simp)]
  decide

/-- `binop_pointwise`, `invert_pointwise`: `P[A] ^ P.age`, all three expressions accepted -/
example : ∃ x y, check demoWorld (.originSubclass 1) demoStack = .ok x ∧ check demoWorld (.exactFieldName "age") demoStack = .ok y ∧
    check demoWorld (.xor [.originSubclass 1, .exactFieldName "age"]) demoStack = .ok (x ^^ y) :=
  binop_pointwise demoWorld .xor (.getitem .P (.ty 1)) (.getattr .P "age") _ _ _ demoStack (by rfl) (by rfl) (by rfl)
    (by decide)
example : ∃ x, check demoWorld (.originSubclass 1) demoStack = .ok x ∧
    check demoWorld (.invert (.originSubclass 1)) demoStack = .ok (!x) :=
  invert_pointwise demoWorld (.getitem .P (.ty 1)) _ _ demoStack (by rfl) (by rfl) (by decide)

/-- `pattern_is_chain`, `chain_expr_matches_tail`, `tuple_is_some`: accepted chain / alternative expressions -/
example : ∃ pre tail, demoStack = pre ++ tail ∧ tail.length = (chain demoWorld (.getitem .P (.ty 0))).length + 1 ∧
    (∀ j (h : j < (chain demoWorld (.getitem .P (.ty 0))).length),
      (chain demoWorld (.getitem .P (.ty 0)))[j] (pre ++ tail.take (j + 1)) = true) ∧
    specMatches demoWorld (.str "name") demoStack = true :=
  (chain_expr_matches_tail demoWorld (.getitem .P (.ty 0)) (.str "name")
    (.locStackEnd [.exactOrigin 0, .exactFieldName "name"]) demoStack (by rfl) (by decide)).mp (by decide)
example : check demoWorld (.or [.exactOrigin 0, .exactFieldName "name", .originSubclass 1]) demoStack =
    .ok ([Expr.ty 0, .str "name", .ty 1].any fun a => specMatches demoWorld a demoStack) :=
  tuple_is_some demoWorld [.ty 0, .str "name", .ty 1] _ demoStack (by rfl) (by decide)

/-- the identities: their side conditions hold for the expressions the documentation writes -/
example : createChecker demoWorld (.getitem .P (.ty 0)) = createChecker demoWorld (.ty 0) :=
  identity_P_item demoWorld (.ty 0) (by intro s h; simp [eval] at h)
example : eval demoWorld (.add (.getitem .P (.ty 0)) (.getattr .P "name")) = eval demoWorld (.getattr (.getitem .P (.ty 0)) "name") :=
  identity_add_getattr demoWorld (.getitem .P (.ty 0)) "name" [.exactOrigin 0] (by rfl) (by unfold plainName; decide)
example : eval demoWorld (.getitemTuple .P [.ty 0, .ty 1]) = eval demoWorld (.bin .or (.getitem .P (.ty 0)) (.getitem .P (.ty 1))) :=
  identity_tuple_or demoWorld (.ty 0) (.ty 1) (.ty 0) (.ty 1) rfl rfl

/-- `bound_is_conjunction`, `bound_by_any_is_disjunction` -/
example : (processRequestChecker (.originSubclass 1) true (.located (.exactFieldName "name"))).check demoWorld (fun _ => false) demoStack
    = .ok (true && true) :=
  (bound_is_conjunction demoWorld (fun _ => false) (.originSubclass 1) (.exactFieldName "name") demoStack true true
    (by decide) (by decide)).1
example : check demoWorld (.or [.exactFieldName "name", .exactOrigin 0]) demoStack =
    .ok ([Checker.exactFieldName "name", .exactOrigin 0].any fun c => checkB demoWorld c demoStack) := by
  have hw : ∀ c ∈ [Checker.exactFieldName "name", .exactOrigin 0], c.wf = true := by
    intro c hc
    simp only [List.mem_cons, List.mem_nil_iff, or_false] at hc
    rcases hc with rfl | rfl <;> rfl
  exact bound_by_any_is_disjunction demoWorld [.str "name", .ty 0] _ demoStack (by rfl) (by decide) _ (by rfl) hw

end Adaptix.Pred.C10
