/-
  C01 — Round trip: load(dump(x, T), T) == x for every supported type and configuration.
  Property theorems only; helper lemmas live in `AdaptixProofs/Lemmas/MorphRT*.lean`.

  The notions used in the statements are defined in `Lemmas/MorphRTSpec.lean`:
  `Codec` / `HasTy` (which values a type has — written from the meaning of the types),
  `ScalarRT` / `ScalarJson` (the scalar codec laws, explicit hypotheses),
  `RoundTrippable` / `RoundTrippableJson` (admissible types: non-overlapping unions stated
  semantically, Optional whose other case never dumps to None, dict key types whose dumps
  stay hashable and different, classes with distinct field names), `jsonTravel`.

  All statements quantify over every world (class table, scalar closures), every
  configuration `cfg` (three debug_trail modes × strict_coercion), every admissible type
  expression and every value of it.  Fuel: `dump … n` / `load … m` are fuel-indexed;
  "the loader returns x" is stated as "for every sufficiently large fuel" (`load` is proved
  monotone in the fuel, `load_fuel_mono`).  The `example`s are non-vacuity tests.

  Known limitations (stated, not hidden): the model's name mapping is the default flat
  layout and every field is dumped (no omit_default); renamed / nested layouts belong to
  C03's crown lemma.
-/
import AdaptixProofs.Lemmas.MorphRTCriteria
import AdaptixProofs.Lemmas.MorphRTExample

namespace Adaptix.Morph.C01
open Adaptix.Py Adaptix.Morph

variable {W : World} {DW : DumpWorld} {C : Codec} {cfg : Cfg} {T : Ty} {x d : Val}

/-- **`load` is monotone in the fuel**: an outcome other than "out of fuel" is final. -/
theorem load_fuel_mono {n m : Nat} {r : Outcome Val} (h : load W cfg n T d = r)
    (hr : r ≠ .diverge) (hm : n ≤ m) : load W cfg m T d = r :=
  rt_load_mono h hr hm

/-- `same` (equal, with exactly the same types throughout) is reflexive, also on nan. -/
theorem same_refl (x : Val) : Val.same x x = true := rt_same_refl x

/-- **Round trip, exact form**: whatever a well-typed value of an admissible type dumps
    to, the loader of the type returns *that very value* from it — in every debug_trail
    mode and both coercion modes. -/
theorem roundtrip_eq (hS : ScalarRT W C) (hR : RoundTrippable W DW C cfg T) (hx : HasTy W C T x)
    {n : Nat} (hd : dump W DW cfg n T x = .ok d) :
    ∃ m, ∀ m', m ≤ m' → load W cfg m' T d = .ok x := by
  obtain ⟨m, hm⟩ := rt_main (j := false) hS (fun h => by cases h) hR.1 n T x hR.2 hx
  exact ⟨m, fun m' hm' => rt_load_mono (hm d d hd (rt_trav_self_false d)) (by simp) hm'⟩

/-- **Round trip** as the property states it: the load succeeds and the result equals the
    value, with exactly the same types throughout. -/
theorem roundtrip (hS : ScalarRT W C) (hR : RoundTrippable W DW C cfg T) (hx : HasTy W C T x)
    {n : Nat} (hd : dump W DW cfg n T x = .ok d) :
    ∃ m, ∀ m', m ≤ m' → ∃ x', load W cfg m' T d = .ok x' ∧ Val.same x' x = true := by
  obtain ⟨m, hm⟩ := roundtrip_eq hS hR hx hd
  exact ⟨m, fun m' hm' => ⟨x, hm m' hm', rt_same_refl x⟩⟩

/-- **Well-typed values always dump** (given enough fuel), to one value whatever the fuel:
    the round trip is not vacuous. -/
theorem dump_total (hS : ScalarRT W C) (hR : RoundTrippable W DW C cfg T) (hx : HasTy W C T x) :
    ∃ n d, ∀ m, n ≤ m → dump W DW cfg m T x = .ok d :=
  rt_dump_total_aux hS hR.1 _ x rfl _ T rfl hR.2 hx

/-- **Round trip, fuel-free**: from some fuel on, the dump succeeds and the load of its
    result returns the value. -/
theorem roundtrip_total (hS : ScalarRT W C) (hR : RoundTrippable W DW C cfg T)
    (hx : HasTy W C T x) :
    ∃ n d, ∀ m, n ≤ m → dump W DW cfg m T x = .ok d ∧
      ∃ x', load W cfg m T d = .ok x' ∧ Val.same x' x = true := by
  obtain ⟨n, d, hd⟩ := dump_total hS hR hx
  obtain ⟨k, hk⟩ := roundtrip_eq hS hR hx (hd n (Nat.le_refl _))
  exact ⟨max n k, d, fun m hm =>
    ⟨hd m (by omega), x, hk m (by omega), rt_same_refl x⟩⟩

/-- **Round trip through JSON**: when the dumped value can travel through
    `json.dumps`/`json.loads` (string keys, JSON scalars), the loader returns the value from
    the travelled datum (tuples have become lists). `RoundTrippableJson` excludes `Any`. -/
theorem roundtrip_json (hS : ScalarRT W C) (hJ : ScalarJson W C)
    (hR : RoundTrippableJson W DW C cfg T) (hx : HasTy W C T x) {n : Nat} {d' : Val}
    (hd : dump W DW cfg n T x = .ok d) (hj : jsonTravel d = some d') :
    ∃ m, ∀ m', m ≤ m' → ∃ x', load W cfg m' T d' = .ok x' ∧ Val.same x' x = true := by
  obtain ⟨m, hm⟩ := rt_main (j := true) hS (fun _ => hJ) hR.1 n T x hR.2 hx
  refine ⟨m, fun m' hm' => ⟨x, ?_, rt_same_refl x⟩⟩
  exact rt_load_mono (hm d d' hd (by simpa [Trav] using hj)) (by simp) hm'

/-- the same for a JSON-admissible type also says it dumps -/
theorem dump_total_json (hS : ScalarRT W C) (hR : RoundTrippableJson W DW C cfg T)
    (hx : HasTy W C T x) : ∃ n d, ∀ m, n ≤ m → dump W DW cfg m T x = .ok d :=
  rt_dump_total_aux hS hR.1 _ x rfl _ T rfl hR.2 hx

/-- JSON admissibility excludes `Any` at every position of the type expression. -/
theorem json_admissible_no_any (hR : RoundTrippableJson W DW C cfg T) : jsonSafe T = true :=
  rt_tyok_jsonSafe hR.2

/-- A codec whose dumped forms JSON leaves alone satisfies the JSON codec law. -/
theorem scalarJson_of_fixed (hS : ScalarRT W C)
    (hfix : ∀ name x d d', C.inhabits name x → W.scalarDump name x = .ok d →
      jsonTravel d = some d' → d' = d) : ScalarJson W C :=
  rt_scalarJson_of_fixed hS hfix

/-! ## non-vacuity: a concrete world (`Lemmas/MorphRTExample.lean`) -/

/-- **non-vacuity, recursive model**: every finite tree (any depth, any labels) dumps and
    loads back, in every mode -/
example (cfg : Cfg) {x : Val} (h : IsOptTree x) :
    ∃ n d, ∀ m, n ≤ m → dump W0 DW0 cfg m optTree x = .ok d ∧
      ∃ x', load W0 cfg m optTree d = .ok x' ∧ Val.same x' x = true :=
  roundtrip_total scalarRT0 ⟨classesOK0 cfg false, optTree_ok cfg false⟩ (isOptTree_hasTy h)

/-- … and through JSON -/
example (cfg : Cfg) {x d d' : Val} {n : Nat} (h : IsOptTree x)
    (hd : dump W0 DW0 cfg n optTree x = .ok d) (hj : jsonTravel d = some d') :
    ∃ m, ∀ m', m ≤ m' → ∃ x', load W0 cfg m' optTree d' = .ok x' ∧ Val.same x' x = true :=
  roundtrip_json scalarRT0 scalarJson0 ⟨classesOK0 cfg true, optTree_ok cfg true⟩
    (isOptTree_hasTy h) hd hj

example : dump W0 DW0 ⟨.all, true⟩ 6 optTree tree1 = .ok tree1Dump := by rfl
example : jsonTravel tree1Dump = some tree1Dump := by rfl
example : load W0 ⟨.all, true⟩ 6 optTree tree1Dump = .ok tree1 := by
  simp [load, tree1Dump, tree1, optTree, loadUnion, isNoneTy, Val.isNone, W0, treeFields, loadModel,
    modelItems, Val.lookup, Val.pyEq, seqMode, sweepAll, Sweep.finish, bindO]

/-! ### containers, a string-dumped scalar, a general union -/

/-- **non-vacuity, dict / set / general union**, all six configurations, direct and via JSON -/
example (cfg : Cfg) :
    ∃ n d, ∀ m, n ≤ m → dump W0 DW0 cfg m dictTy dictVal = .ok d ∧
      ∃ x', load W0 cfg m dictTy d = .ok x' ∧ Val.same x' dictVal = true :=
  roundtrip_total scalarRT0 ⟨classesOK0 cfg false, dictTy_ok cfg false⟩ dictVal_hasTy

example (cfg : Cfg) {d d' : Val} {n : Nat} (hd : dump W0 DW0 cfg n dictTy dictVal = .ok d)
    (hj : jsonTravel d = some d') :
    ∃ m, ∀ m', m ≤ m' → ∃ x', load W0 cfg m' dictTy d' = .ok x' ∧ Val.same x' dictVal = true :=
  roundtrip_json scalarRT0 scalarJson0 ⟨classesOK0 cfg true, dictTy_ok cfg true⟩ dictVal_hasTy hd hj

example : dump W0 DW0 ⟨.first, true⟩ 5 dictTy dictVal =
    .ok (.dict [(.str "a", .tuple [.int 1, .str "x"]), (.str "b", .tuple [])]) := by
  simp [dump, dictTy, dictVal, uIS, dumpDict, dictItemsD, seqModeDump, seqFirst, bindO, buildDictD,
    Val.hashable, Val.dictSet, Val.pyEq, dumpIter, Val.iterElems, idxItemsD, dumpUnion, isNoneTyD,
    dumpUnion.general, literalVals, dumpUnion.byClass, dispatchTable, dispatchCase, DW0, Val.tag, W0]

/-- a union whose non-overlap follows from the outer forms under strict coercion
    (`Lemmas/MorphRTCriteria.lean`: `rt_reject_*`, `rt_dump_*_shape`) -/
example (t : DebugTrail) {x : Val} (hx : HasTy W0 C0 listOrTree x) :
    ∃ n d, ∀ m, n ≤ m → dump W0 DW0 ⟨t, true⟩ m listOrTree x = .ok d ∧
      ∃ x', load W0 ⟨t, true⟩ m listOrTree d = .ok x' ∧ Val.same x' x = true :=
  roundtrip_total scalarRT0 ⟨classesOK0 _ false, listOrTree_ok t false⟩ hx

/-- a string-dumped scalar (`Decimal` as an atom with its canonical text) in a tuple and a list -/
example (cfg : Cfg) (t : String) (is : List Int) :
    ∃ n d, ∀ m, n ≤ m →
      dump W0 DW0 cfg m decTy (.tuple [.atom "Decimal" t, .list (is.map .int)]) = .ok d ∧
      ∃ x', load W0 cfg m decTy d = .ok x' ∧
        Val.same x' (.tuple [.atom "Decimal" t, .list (is.map .int)]) = true := by
  refine roundtrip_total scalarRT0 ⟨classesOK0 cfg false, ?_⟩ ?_
  · refine TyOK.tuple ?_
    intro u hu
    simp only [List.mem_cons, List.not_mem_nil, or_false] at hu
    rcases hu with rfl | rfl
    · exact TyOK.scalar
    · exact TyOK.iter TyOK.scalar
  · refine HasTy.tuple rfl ?_
    intro p hp
    simp only [List.zip_cons_cons, List.zip_nil_right, List.mem_cons, List.not_mem_nil,
      or_false] at hp
    rcases hp with rfl | rfl
    · exact HasTy.scalar (by simp [C0])
    · refine HasTy.iter (f := .list) (xs := is.map .int) ?_ (fun h => by cases h)
      intro e he
      obtain ⟨i, _, rfl⟩ := List.mem_map.1 he
      exact HasTy.scalar (by simp [C0])

example : dump W0 DW0 ⟨.disable, false⟩ 3 decTy (.tuple [.atom "Decimal" "1.50", .list [.int 7]]) =
    .ok (.tuple [.str "1.50", .list [.int 7]]) := by rfl
example : load W0 ⟨.disable, false⟩ 3 decTy (.list [.str "1.50", .list [.int 7]]) =
    .ok (.tuple [.atom "Decimal" "1.50", .list [.int 7]]) := by rfl

/-! ### what does NOT hold (each with its concrete witness) -/

/-- **The same-fuel form of the round trip is FALSE in the model.** The union dumper's
    `if data in literal_cases` shortcut returns without calling a case dumper, while the
    union loader has to call the `Literal` loader: with fuel 1 the dump of `1 : Literal[1] | str`
    succeeds and the load of its result runs out of fuel — although the type is admissible
    and the value well-typed. (With one more unit of fuel the load returns the value, as
    `roundtrip_eq` says.) -/
theorem roundtrip_same_fuel_false (cfg : Cfg) :
    ScalarRT W0 C0 ∧ RoundTrippable W0 DW0 C0 cfg litTy ∧ HasTy W0 C0 litTy (.int 1) ∧
      dump W0 DW0 cfg 1 litTy (.int 1) = .ok (.int 1) ∧
      load W0 cfg 1 litTy (.int 1) = .diverge ∧
      load W0 cfg 2 litTy (.int 1) = .ok (.int 1) := by
  refine ⟨scalarRT0, ⟨classesOK0 cfg false, litTy_ok cfg⟩, ?_, ?_, ?_, ?_⟩
  · exact HasTy.union (t := .literal [.int 1]) (by simp)
      (HasTy.literal (v := .int 1) (by simp) (by simp [Val.same]))
  · simp [dump, litTy, dumpUnion, isNoneTyD, dumpUnion.general, literalVals, Val.memOf, Val.pyEq]
  · obtain ⟨t, s⟩ := cfg
    cases t <;> simp [load, litTy, loadUnion, isNoneTy, loadUnion.general, unionFirstOk, unionAll]
  · obtain ⟨t, s⟩ := cfg
    cases t <;> cases s <;>
      simp [load, litTy, loadUnion, isNoneTy, loadUnion.general, unionFirstOk, unionAll,
        loadLiteral, boolSensitive, typedMem, Val.tag, Val.memOf, Val.pyEq]

/-- **Overlapping union cases break the round trip** (so the non-overlap condition of
    `RoundTrippable` is needed): in `str | Decimal` a Decimal dumps to a string, which the
    `str` loader — first in order — accepts. -/
example : dump W0 DW0 ⟨.disable, true⟩ 2 (.union [.scalar "str", .scalar "decimal"] ["str", "Decimal"])
      (.atom "Decimal" "1") = .ok (.str "1") ∧
    load W0 ⟨.disable, true⟩ 2 (.union [.scalar "str", .scalar "decimal"] ["str", "Decimal"])
      (.str "1") = .ok (.str "1") ∧
    Val.same (.str "1") (.atom "Decimal" "1") = false := by
  refine ⟨by rfl, by rfl, by simp [Val.same]⟩

/-- **Different keys whose dumps are equal are merged by the dict dumper** (so the key
    condition of `RoundTrippable` is needed): the keys `"1"` and `Decimal("1")` of a
    `dict[str | Decimal, int]` both dump to `"1"`; one entry is lost. -/
example : dump W0 DW0 ⟨.first, true⟩ 4
      (.dict (.union [.scalar "str", .scalar "decimal"] ["str", "Decimal"]) (.scalar "int"))
      (.dict [(.str "1", .int 1), (.atom "Decimal" "1", .int 2)]) =
    .ok (.dict [(.str "1", .int 2)]) := by
  simp [dump, dumpDict, dictItemsD, seqModeDump, seqFirst, bindO, buildDictD, Val.hashable,
    Val.dictSet, Val.pyEq, dumpUnion, isNoneTyD, dumpUnion.general, literalVals, dumpUnion.byClass,
    dispatchTable, dispatchCase, DW0, Val.tag, W0]

/-- **`Any` is not stable under JSON** (so `RoundTrippableJson` excludes it): a tuple held
    by an `Any` position comes back as a list. -/
example : dump W0 DW0 ⟨.disable, true⟩ 1 .any (.tuple [.int 1]) = .ok (.tuple [.int 1]) ∧
    jsonTravel (.tuple [.int 1]) = some (.list [.int 1]) ∧
    load W0 ⟨.disable, true⟩ 1 .any (.list [.int 1]) = .ok (.list [.int 1]) ∧
    Val.same (.list [.int 1]) (.tuple [.int 1]) = false := by
  refine ⟨by rfl, by rfl, by rfl, by simp [Val.same]⟩

/-- `Val.same` is not symmetric on association lists with a repeated key (values no Python
    dict can be); the theorems above therefore never use symmetry — they return `x` itself. -/
example :
    Val.same (.dict [(.int 1, .int 1), (.int 1, .int 1)]) (.dict [(.int 1, .int 1), (.int 2, .int 2)]) = true ∧
    Val.same (.dict [(.int 1, .int 1), (.int 2, .int 2)]) (.dict [(.int 1, .int 1), (.int 1, .int 1)]) = false := by
  constructor <;> simp [Val.same, Val.sameDictSub, Val.sameHasKV]

end Adaptix.Morph.C01
