/-
  C01 — Round trip: load(dump(x, T), T) == x for every supported type and configuration.
  Property theorems only; helper lemmas live in `AdaptixProofs/Lemmas/MorphRT*.lean`.

  The notions used in the statements are defined in `Lemmas/MorphRTSpec.lean`:
  `Codec` / `HasTy` (which values a type has — written from the meaning of the types),
  `ScalarRT` / `ScalarJson` (the scalar codec laws, explicit hypotheses),
  `RoundTrippable` / `RoundTrippableJson` (admissible types: non-overlapping unions stated
  semantically, Optional whose other case never dumps to None, dict key types whose dumps
  stay hashable and different, classes with distinct field names), `jsonTravel`.

  All statements quantify over every world (class table, scalar closures), every
  configuration `cfg` (three debug_trail modes × strict_coercion), every admissible type
  expression and every value of it.  Fuel: `dump … n` / `load … m` are fuel-indexed;
  "the loader returns x" is stated as "for every sufficiently large fuel" (`load` is proved
  monotone in the fuel, `load_fuel_mono`).  The `example`s are non-vacuity tests.

  Known limitations (stated, not hidden): the model's name mapping is the default flat
  layout and every field is dumped (no omit_default); renamed / nested layouts belong to
  C03's crown lemma.
-/
import AdaptixProofs.Lemmas.MorphRTCriteria

namespace Adaptix.Morph.C01
open Adaptix.Py Adaptix.Morph

variable {W : World} {DW : DumpWorld} {C : Codec} {cfg : Cfg} {T : Ty} {x d : Val}

/-- **`load` is monotone in the fuel**: an outcome other than "out of fuel" is final. -/
theorem load_fuel_mono {n m : Nat} {r : Outcome Val} (h : load W cfg n T d = r)
    (hr : r ≠ .diverge) (hm : n ≤ m) : load W cfg m T d = r :=
  rt_load_mono h hr hm

/-- `same` (equal, with exactly the same types throughout) is reflexive, also on nan. -/
theorem same_refl (x : Val) : Val.same x x = true := rt_same_refl x

/-- **Round trip, exact form**: whatever a well-typed value of an admissible type dumps
    to, the loader of the type returns *that very value* from it — in every debug_trail
    mode and both coercion modes. -/
theorem roundtrip_eq (hS : ScalarRT W C) (hR : RoundTrippable W DW C cfg T) (hx : HasTy W C T x)
    {n : Nat} (hd : dump W DW cfg n T x = .ok d) :
    ∃ m, ∀ m', m ≤ m' → load W cfg m' T d = .ok x := by
  obtain ⟨m, hm⟩ := rt_main (j := false) hS (fun h => by cases h) hR.1 n T x hR.2 hx
  exact ⟨m, fun m' hm' => rt_load_mono (hm d d hd (rt_trav_self_false d)) (by simp) hm'⟩

/-- **Round trip** as the property states it: the load succeeds and the result equals the
    value, with exactly the same types throughout. -/
theorem roundtrip (hS : ScalarRT W C) (hR : RoundTrippable W DW C cfg T) (hx : HasTy W C T x)
    {n : Nat} (hd : dump W DW cfg n T x = .ok d) :
    ∃ m, ∀ m', m ≤ m' → ∃ x', load W cfg m' T d = .ok x' ∧ Val.same x' x = true := by
  obtain ⟨m, hm⟩ := roundtrip_eq hS hR hx hd
  exact ⟨m, fun m' hm' => ⟨x, hm m' hm', rt_same_refl x⟩⟩

/-- **Well-typed values always dump** (given enough fuel), to one value whatever the fuel:
    the round trip is not vacuous. -/
theorem dump_total (hS : ScalarRT W C) (hR : RoundTrippable W DW C cfg T) (hx : HasTy W C T x) :
    ∃ n d, ∀ m, n ≤ m → dump W DW cfg m T x = .ok d :=
  rt_dump_total_aux hS hR.1 _ x rfl _ T rfl hR.2 hx

/-- **Round trip, fuel-free**: from some fuel on, the dump succeeds and the load of its
    result returns the value. -/
theorem roundtrip_total (hS : ScalarRT W C) (hR : RoundTrippable W DW C cfg T)
    (hx : HasTy W C T x) :
    ∃ n d, ∀ m, n ≤ m → dump W DW cfg m T x = .ok d ∧
      ∃ x', load W cfg m T d = .ok x' ∧ Val.same x' x = true := by
  obtain ⟨n, d, hd⟩ := dump_total hS hR hx
  obtain ⟨k, hk⟩ := roundtrip_eq hS hR hx (hd n (Nat.le_refl _))
  exact ⟨max n k, d, fun m hm =>
    ⟨hd m (by omega), x, hk m (by omega), rt_same_refl x⟩⟩

/-- **Round trip through JSON**: when the dumped value can travel through
    `json.dumps`/`json.loads` (string keys, JSON scalars), the loader returns the value from
    the travelled datum (tuples have become lists). `RoundTrippableJson` excludes `Any`. -/
theorem roundtrip_json (hS : ScalarRT W C) (hJ : ScalarJson W C)
    (hR : RoundTrippableJson W DW C cfg T) (hx : HasTy W C T x) {n : Nat} {d' : Val}
    (hd : dump W DW cfg n T x = .ok d) (hj : jsonTravel d = some d') :
    ∃ m, ∀ m', m ≤ m' → ∃ x', load W cfg m' T d' = .ok x' ∧ Val.same x' x = true := by
  obtain ⟨m, hm⟩ := rt_main (j := true) hS (fun _ => hJ) hR.1 n T x hR.2 hx
  refine ⟨m, fun m' hm' => ⟨x, ?_, rt_same_refl x⟩⟩
  exact rt_load_mono (hm d d' hd (by simpa [Trav] using hj)) (by simp) hm'

/-- the same for a JSON-admissible type also says it dumps -/
theorem dump_total_json (hS : ScalarRT W C) (hR : RoundTrippableJson W DW C cfg T)
    (hx : HasTy W C T x) : ∃ n d, ∀ m, n ≤ m → dump W DW cfg m T x = .ok d :=
  rt_dump_total_aux hS hR.1 _ x rfl _ T rfl hR.2 hx

/-- JSON admissibility excludes `Any` at every position of the type expression. -/
theorem json_admissible_no_any (hR : RoundTrippableJson W DW C cfg T) : jsonSafe T = true :=
  rt_tyok_jsonSafe hR.2

/-- A codec whose dumped forms JSON leaves alone satisfies the JSON codec law. -/
theorem scalarJson_of_fixed (hS : ScalarRT W C)
    (hfix : ∀ name x d d', C.inhabits name x → W.scalarDump name x = .ok d →
      jsonTravel d = some d' → d' = d) : ScalarJson W C := by
  intro s name x d d' hi hd hj
  obtain ⟨d0, h1, h2⟩ := hS.rt s name x hi
  rw [hd] at h1; cases h1
  rw [hfix name x d d' hi hd hj]; exact h2

end Adaptix.Morph.C01
