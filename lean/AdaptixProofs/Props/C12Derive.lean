/-
  C12 — deriving a retort from the shared one (`Retort.replace` / `Retort.extend`) while other threads store into
  the origin's caches.  Property theorems only; lemmas in `AdaptixProofs/Lemmas/Derive.lean`.

  Model: `AdaptixModel/Retort/Derive.lean`.  A schedule is an arbitrary list of `Act.clone` (one step of the cloning
  thread) and `Act.store k v` (another thread stores into the origin's cache; any keys, any values, any number).
  `Strategy.fresh` is the code as it is (`self._call_cache = {}`: the clone never reads the origin's cache),
  `Strategy.snapshot` a C-level copy, `Strategy.iterate` a comprehension / loop over the live dict.
-/
import AdaptixModel.Retort.Derive
import AdaptixProofs.Lemmas.Derive

namespace Adaptix.Derive.C12

open Adaptix.Derive

/-! ### the code as it is: the clone starts from an empty cache and does not look at the origin's -/

/-- Under EVERY interleaving with any stores of other threads the derivation cannot fail, takes one atomic step and
    yields an empty cache, whatever the origin's cache holds and however it changes meanwhile -/
theorem fresh_clone_is_safe (origin : Dict) (σ : List Act) :
    ((run .fresh (init origin) σ).clone = .start ∧ (run .fresh (init origin) σ).steps = 0) ∨
    ((run .fresh (init origin) σ).clone = .done [] ∧ (run .fresh (init origin) σ).steps = 1) := by
  suffices h : ∀ s : State, ((s.clone = .start ∧ s.steps = 0) ∨ (s.clone = .done [] ∧ s.steps = 1)) →
      (((run .fresh s σ).clone = .start ∧ (run .fresh s σ).steps = 0) ∨
       ((run .fresh s σ).clone = .done [] ∧ (run .fresh s σ).steps = 1)) from h _ (Or.inl ⟨rfl, rfl⟩)
  induction σ with
  | nil => intro s h; exact h
  | cons a σ ih =>
    intro s h
    rw [run_cons]
    apply ih
    cases a with
    | clone =>
      rcases h with ⟨h, hs⟩ | ⟨h, hs⟩
      · right; simp [step, cloneStep, h, hs, Clone.finished]
      · right; simp [step, cloneStep, h, hs, Clone.finished]
    | store k v => exact h

/-- ... and once the cloning thread has taken its step, the result is there (`clone ∈ σ`: it got a turn) -/
theorem fresh_clone_completes (origin : Dict) (σ : List Act) (hturn : Act.clone ∈ σ) :
    (run .fresh (init origin) σ).clone = .done [] := by
  obtain ⟨σ₁, σ₂, rfl⟩ := List.append_of_mem hturn
  rw [run_append, run_cons]
  have h1 := fresh_clone_is_safe origin σ₁
  have hstep : (step .fresh (run .fresh (init origin) σ₁) .clone).clone = .done [] := by
    rcases h1 with ⟨h, _⟩ | ⟨h, _⟩ <;> simp [step, cloneStep, h]
  rw [run_finished _ _ _ (by rw [hstep]; rfl), hstep]

/-! ### an atomic copy is safe as well: it sees a consistent earlier state of an insert-only dict -/

theorem snapshot_clone_is_safe (origin : Dict) (σ : List Act) :
    (run .snapshot (init origin) σ).clone = .start ∨
    ∃ d, (run .snapshot (init origin) σ).clone = .done d ∧
      ∀ k, hasKey d k = true → hasKey (run .snapshot (init origin) σ).origin k = true := by
  suffices h : ∀ s : State,
      (s.clone = .start ∨ ∃ d, s.clone = .done d ∧ ∀ k, hasKey d k = true → hasKey s.origin k = true) →
      ((run .snapshot s σ).clone = .start ∨ ∃ d, (run .snapshot s σ).clone = .done d ∧
        ∀ k, hasKey d k = true → hasKey (run .snapshot s σ).origin k = true) from h _ (Or.inl rfl)
  induction σ with
  | nil => intro s h; exact h
  | cons a σ ih =>
    intro s h
    rw [run_cons]
    apply ih
    cases a with
    | clone =>
      rcases h with h | ⟨d, h, hk⟩
      · right; exact ⟨s.origin, by simp [step, cloneStep, h], fun k hk => by simpa [step] using hk⟩
      · right; exact ⟨d, by simp [step, cloneStep, h], fun k hk' => by simpa [step] using hk k hk'⟩
    | store k v =>
      rcases h with h | ⟨d, h, hk⟩
      · left; simpa [step] using h
      · right; exact ⟨d, by simpa [step] using h, fun k' hk' => by
          simpa [step] using hasKey_store_mono s.origin k k' v (hk k' hk')⟩

/-! ### iterating over the live dict is NOT safe: the class of change this part of the check is there for -/

/-- the iterator's remembered size never exceeds the size of the (insert-only) dict -/
theorem iterating_used_le (origin : Dict) (σ : List Act) (used pos : Nat) (acc : Dict)
    (h : (run .iterate (init origin) σ).clone = .iterating used pos acc) :
    used ≤ (run .iterate (init origin) σ).origin.length := by
  have hh : ∀ (τ : List Act) (s : State), (∀ u p a, s.clone = .iterating u p a → u ≤ s.origin.length) →
      ∀ u p a, (run .iterate s τ).clone = .iterating u p a → u ≤ (run .iterate s τ).origin.length := by
    intro τ
    induction τ with
    | nil => intro s hs; exact hs
    | cons a σ ih =>
      intro s hs
      rw [run_cons]
      apply ih
      intro u p a' hc
      cases a with
      | clone =>
        simp only [step] at hc ⊢
        cases hcl : s.clone with
        | start =>
          rw [hcl] at hc
          simp only [cloneStep] at hc
          injection hc with h1 _ _
          omega
        | iterating u0 p0 a0 =>
          rw [hcl] at hc
          simp only [cloneStep] at hc
          split at hc
          · cases hc
          · split at hc
            · injection hc with h1 _ _
              have := hs u0 p0 a0 hcl
              omega
            · cases hc
        | done d => rw [hcl] at hc; simp [cloneStep] at hc
        | error => rw [hcl] at hc; simp [cloneStep] at hc
      | store k v =>
        simp only [step] at hc ⊢
        exact Nat.le_trans (hs u p a' hc) (length_store_ge _ _ _)
  exact hh σ _ (by intro u p a hc; simp [init] at hc) used pos acc h

/-- once the dict has grown under the iterator, the next step of the cloning thread raises, whatever else happens -/
theorem growth_under_the_iterator_is_fatal (s : State) (used pos : Nat) (acc : Dict) (σ : List Act)
    (hit : s.clone = .iterating used pos acc) (hgrown : used < s.origin.length) (hturn : Act.clone ∈ σ) :
    (run .iterate s σ).clone = .error := by
  induction σ generalizing s with
  | nil => simp at hturn
  | cons a σ ih =>
    rw [run_cons]
    cases a with
    | clone =>
      have hstep : (step .iterate s .clone).clone = .error := by
        simp only [step, hit, cloneStep]
        rw [if_pos (by omega)]
      rw [run_finished _ _ _ (by rw [hstep]; rfl), hstep]
    | store k v =>
      have hturn' : Act.clone ∈ σ := by
        rcases List.mem_cons.mp hturn with h | h
        · cases h
        · exact h
      exact ih (step .iterate s (.store k v)) (by simpa [step] using hit)
        (Nat.lt_of_lt_of_le hgrown (by simpa [step] using length_store_ge s.origin k v)) hturn'

/-- THE RACE, for every history: whenever the cloning thread is in the middle of its iteration (after any schedule
    `σ₁`) and another thread stores a key the origin has not seen - a FIRST request -, the derivation raises
    `RuntimeError: dictionary changed size during iteration` as soon as the cloning thread runs again -/
theorem store_inside_the_iteration_is_fatal (origin : Dict) (σ₁ σ₂ : List Act) (used pos : Nat) (acc : Dict)
    (k : Key) (v : Val)
    (hit : (run .iterate (init origin) σ₁).clone = .iterating used pos acc)
    (hnew : hasKey (run .iterate (init origin) σ₁).origin k = false)
    (hturn : Act.clone ∈ σ₂) :
    (run .iterate (init origin) (σ₁ ++ .store k v :: σ₂)).clone = .error := by
  rw [run_append, run_cons]
  have hle := iterating_used_le origin σ₁ used pos acc hit
  apply growth_under_the_iterator_is_fatal _ used pos acc σ₂ (by simpa [step] using hit) _ hturn
  simp only [step]
  rw [length_store_new _ _ _ hnew]
  omega

/-- ... in particular the three-action schedule exists for EVERY origin cache (empty or not) and every new key:
    one preemption of the cloning thread is enough -/
theorem iterate_has_a_bad_schedule (origin : Dict) (k : Key) (v : Val) (hnew : hasKey origin k = false) :
    (run .iterate (init origin) [.clone, .store k v, .clone]).clone = .error :=
  store_inside_the_iteration_is_fatal origin [.clone] [.clone] origin.length 0 [] k v
    (by simp [run, step, init, cloneStep]) (by simpa [run, step, init] using hnew) (by simp)

/-! ### non-vacuity -/

/-- the bad schedule on a used origin (two entries) with one first request: error; the same schedule under the
    code as it is and under an atomic copy: a result -/
example : (run .iterate (init [(1, 10), (2, 20)]) [.clone, .clone, .store 3 30, .clone]).clone = .error := by decide
example : (run .fresh (init [(1, 10), (2, 20)]) [.clone, .clone, .store 3 30, .clone]).clone = .done [] := by decide
example : (run .snapshot (init [(1, 10), (2, 20)]) [.clone, .clone, .store 3 30, .clone]).clone =
    .done [(1, 10), (2, 20)] := by decide
/-- left alone (or with stores to keys that exist), the iteration yields the copy: the change is invisible to any
    single-threaded test -/
example : (run .iterate (init [(1, 10), (2, 20)]) [.clone, .clone, .store 2 21, .clone, .clone]).clone =
    .done [(1, 10), (2, 21)] := by decide
example : (run .iterate (init [(1, 10), (2, 20)]) [.clone, .clone, .clone, .clone]).steps = 4 := by decide

end Adaptix.Derive.C12
