/-
  C07 (scalar leaves) — "Strict mode never accepts a datum whose type is outside the documented
  'allowed strict origins' of the target".

  Both sides of this theorem are REGENERATED on every run: the strict loader closures are
  translated from concrete_provider.py (Generated/Scalars.lean), the allowed origins are parsed
  from docs/loading-and-dumping/specific-types-behavior.rst (Generated/DocTable.lean).
  The container / Literal / union part of C07 is Props/C07.lean.
-/
import AdaptixModel.MiniPy.Analyse
import AdaptixModel.Morph.Scalars
import AdaptixModel.Generated.DocTable
import AdaptixProofs.Lemmas.MiniPy
import AdaptixProofs.Lemmas.Catalogue

namespace Adaptix.Morph.C07Leaves
open Adaptix.Py Adaptix.MiniPy Adaptix.Morph Adaptix.Generated.Scalars Adaptix.Generated.DocTable

/-- a reachable call site without a catalogue row is assumed able to return (and to raise):
    a new, uncatalogued call cannot make a closure look stricter than it is -/
def guardedL (row : List SiteClass) : List SiteClass :=
  if row.isEmpty then [.val, .falsy, .raises "UncataloguedSite"] else row

theorem mem_guardedL {c : SiteClass} {row : List SiteClass} (h : c ∈ row) : c ∈ guardedL row := by
  unfold guardedL
  cases row with
  | nil => simp at h
  | cons a rest => simpa using h

theorem siteWithin_guardedL {c : SiteClass} {row : List SiteClass} (h : SiteWithin row c) : c ∈ guardedL row := by
  rcases h with h | ⟨hr, hc⟩
  · exact mem_guardedL h
  · subst hr; subst hc; simp [guardedL, uncatalogued]

def aenvL (cat : String → String → List SiteClass) (f : Facts) : AEnv :=
  { ancestors := excAncestors, facts := f, catalogue := fun site => guardedL (cat f.tag site) }

/-- a str-mixin enum member is a `str` instance (`isinstance` guards accept it, `type(x) is str` guards do not) -/
def tagClass (tag : String) : String := if tag == "enum:str" then "str" else tag

/-- datum classes on which the strict closure of scalar `s` can return a value -/
def acceptingTags (s : String) : List String :=
  match closureOf s true with
  | none => []
  | some (prog, cat) =>
    (tagFacts.filter fun f => (possibleClosure (aenvL cat f) prog).contains .ret).map (·.tag)

def originsRespected : Bool :=
  allowedStrictOrigins.all fun (s, allowed) => (acceptingTags s).all fun t => allowed.contains (tagClass t)

/-- **table form** (decide over the regenerated closures and the regenerated documentation table) -/
theorem strict_origins_table : originsRespected = true := by decide +kernel

/-- every documented scalar is one the working tree has a strict closure for, and it accepts
    at least one class (the table is not vacuous) -/
theorem strict_origins_nonvacuous :
    (allowedStrictOrigins.all fun (s, _) => !(acceptingTags s).isEmpty) = true := by decide +kernel

/-- **Strict scalar loaders respect the documented origins**: if the translated strict closure of a
    documented scalar returns a value on a datum — with its call sites behaving in any way the
    catalogue allows — the datum's class is one of the documented allowed strict origins. -/
theorem strict_scalar_respects_origins (oracle : SiteOracle) (s : String) (allowed : List String)
    (hs : (s, allowed) ∈ allowedStrictOrigins)
    (hcat : WithinCatalogue oracle)
    (d v : Val) (h : scalarLoadGen oracle true s d = .ok v)
    (htag : (factsOf d) ∈ tagFacts) :
    allowed.contains (tagClass (factsOf d).tag) = true := by
  unfold scalarLoadGen at h
  cases hc : closureOf s true with
  | none => simp [hc] at h
  | some pc =>
    obtain ⟨prog, cat⟩ := pc
    simp only [hc] at h
    have hresp : Respects (closureEnv oracle true s d) (aenvL cat (factsOf d)) :=
      ⟨rfl, rfl, fun site => siteWithin_guardedL (hcat true s d prog cat hc site)⟩
    have hsound := runClosure_sound (closureEnv oracle true s d) (aenvL cat (factsOf d)) hresp prog
    have hret : (runClosure (closureEnv oracle true s d) prog).cls = .ret := by
      cases hr : runClosure (closureEnv oracle true s d) prog with
      | ret w => rfl
      | cont =>
        -- runClosure never yields `cont`
        unfold runClosure at hr
        split at hr <;> simp_all
      | raised e =>
        rw [hr] at h
        simp only [resToOutcome] at h
        split at h <;> simp at h
    rw [hret] at hsound
    have htab := strict_origins_table
    unfold originsRespected at htab
    have hrow := List.all_eq_true.1 htab (s, allowed) hs
    simp only [acceptingTags, hc] at hrow
    have hin : (factsOf d).tag ∈
        (tagFacts.filter fun f => (possibleClosure (aenvL cat f) prog).contains .ret).map (·.tag) := by
      apply List.mem_map.2
      refine ⟨factsOf d, ?_, rfl⟩
      apply List.mem_filter.2
      exact ⟨htag, by simpa using hsound⟩
    exact List.all_eq_true.1 hrow _ hin

/-- the premises are met: under the catalogue-built oracle (`witness_within`) the strict int loader
    does return on an int datum, so `strict_scalar_respects_origins` is applied to a real run -/
example : (scalarLoadGen witnessOracle true "int" (.int 5)).isOk = true := by decide +kernel

end Adaptix.Morph.C07Leaves
