/-
  C07 (scalar leaves) — "Strict mode never accepts a datum whose type is outside the documented
  'allowed strict origins' of the target".

  Both sides of this theorem are REGENERATED on every run: the strict loader closures are
  translated from concrete_provider.py (Generated/Scalars.lean), the allowed origins are parsed
  from docs/loading-and-dumping/specific-types-behavior.rst (Generated/DocTable.lean).
  The container / Literal / union part of C07 is Props/C07.lean.
-/
import AdaptixModel.MiniPy.Analyse
import AdaptixModel.Morph.Scalars
import AdaptixModel.Generated.DocTable
import AdaptixProofs.Lemmas.MiniPy
import AdaptixProofs.Lemmas.Catalogue

namespace Adaptix.Morph.C07Leaves
open Adaptix.Py Adaptix.MiniPy Adaptix.Morph Adaptix.Generated.Scalars Adaptix.Generated.DocTable

/-- a reachable call site without a catalogue row is assumed able to return (and to raise):
    a new, uncatalogued call cannot make a closure look stricter than it is -/
def guardedL (row : List SiteClass) : List SiteClass :=
  if row.isEmpty then [.val, .falsy, .raises "UncataloguedSite"] else row

theorem mem_guardedL {c : SiteClass} {row : List SiteClass} (h : c ∈ row) : c ∈ guardedL row := by
  unfold guardedL
  cases row with
  | nil => simp at h
  | cons a rest => simpa using h

theorem siteWithin_guardedL {c : SiteClass} {row : List SiteClass} (h : SiteWithin row c) : c ∈ guardedL row := by
  rcases h with h | ⟨hr, hc⟩
  · exact mem_guardedL h
  · subst hr; subst hc; simp [guardedL, uncatalogued]

def aenvL (cat : String → String → List SiteClass) (f : Facts) : AEnv :=
  { ancestors := excAncestors, facts := f, catalogue := fun site => guardedL (cat f.tag site) }

/-- a str-mixin enum member is a `str` instance (`isinstance` guards accept it, `type(x) is str` guards do not) -/
def tagClass (tag : String) : String := if tag == "enum:str" then "str" else tag

/-- datum classes on which the strict closure of scalar `s` can return a value -/
def acceptingTags (s : String) : List String :=
  match closureOf s true with
  | none => []
  | some (prog, cat) =>
    (tagFacts.filter fun f => (possibleClosure (aenvL cat f) prog).contains .ret).map (·.tag)

def originsRespected : Bool :=
  allowedStrictOrigins.all fun (s, allowed) => (acceptingTags s).all fun t => allowed.contains (tagClass t)

/-- **table form** (decide over the regenerated closures and the regenerated documentation table) -/
theorem strict_origins_table : originsRespected = true := by decide +kernel

/-- every documented scalar is one the working tree has a strict closure for, and it accepts
    at least one class (the table is not vacuous) -/
theorem strict_origins_nonvacuous :
    (allowedStrictOrigins.all fun (s, _) => !(acceptingTags s).isEmpty) = true := by decide +kernel

theorem factsOf_mem (d : Val) : factsOf d ∈ tagFacts := by
  unfold factsOf
  split
  · rename_i f hf
    exact List.mem_of_find?_eq_some hf
  · decide +kernel

/-- the catalogue hypothesis in the form the origins table is actually checked against: a call site
    WITHOUT a catalogue row for this datum class may return (truthy or falsy) or raise
    `UncataloguedSite`; a site with a row stays within it.  Weaker than `WithinCatalogue`
    (`withinL_of_within`), which pins row-less sites to raising. -/
def WithinCatalogueL (oracle : SiteOracle) : Prop :=
  ∀ strict s d prog cat, closureOf s strict = some (prog, cat) →
    ∀ site, (oracle strict s d site).cls ∈ guardedL (cat (factsOf d).tag site)

theorem withinL_of_within {oracle : SiteOracle} (h : WithinCatalogue oracle) : WithinCatalogueL oracle :=
  fun strict s d prog cat hc site => siteWithin_guardedL (h strict s d prog cat hc site)

/-- **Strict scalar loaders respect the documented origins** (open form): if the translated strict
    closure of a documented scalar returns a value on a datum — its call sites behaving in any way
    the catalogue allows, row-less sites being free to return — the datum's class is one of the
    documented allowed strict origins. -/
theorem strict_scalar_respects_origins_open (oracle : SiteOracle) (s : String) (allowed : List String)
    (hs : (s, allowed) ∈ allowedStrictOrigins)
    (hcat : WithinCatalogueL oracle)
    (d v : Val) (h : scalarLoadGen oracle true s d = .ok v) :
    allowed.contains (tagClass (factsOf d).tag) = true := by
  have htag : (factsOf d) ∈ tagFacts := factsOf_mem d
  unfold scalarLoadGen at h
  cases hc : closureOf s true with
  | none => simp [hc] at h
  | some pc =>
    obtain ⟨prog, cat⟩ := pc
    simp only [hc] at h
    have hresp : Respects (closureEnv oracle true s d) (aenvL cat (factsOf d)) :=
      ⟨rfl, rfl, fun site => hcat true s d prog cat hc site⟩
    have hsound := runClosure_sound (closureEnv oracle true s d) (aenvL cat (factsOf d)) hresp prog
    have hret : (runClosure (closureEnv oracle true s d) prog).cls = .ret := by
      cases hr : runClosure (closureEnv oracle true s d) prog with
      | ret w => rfl
      | cont =>
        -- runClosure never yields `cont`
        unfold runClosure at hr
        split at hr <;> simp_all
      | raised e =>
        rw [hr] at h
        simp only [resToOutcome] at h
        split at h <;> simp at h
    rw [hret] at hsound
    have htab := strict_origins_table
    unfold originsRespected at htab
    have hrow := List.all_eq_true.1 htab (s, allowed) hs
    simp only [acceptingTags, hc] at hrow
    have hin : (factsOf d).tag ∈
        (tagFacts.filter fun f => (possibleClosure (aenvL cat f) prog).contains .ret).map (·.tag) := by
      apply List.mem_map.2
      refine ⟨factsOf d, ?_, rfl⟩
      apply List.mem_filter.2
      exact ⟨htag, by simpa using hsound⟩
    exact List.all_eq_true.1 hrow _ hin

/-- **Strict scalar loaders respect the documented origins**: if the translated strict closure of a
    documented scalar returns a value on a datum — with its call sites behaving in any way the
    catalogue allows — the datum's class is one of the documented allowed strict origins. -/
theorem strict_scalar_respects_origins (oracle : SiteOracle) (s : String) (allowed : List String)
    (hs : (s, allowed) ∈ allowedStrictOrigins)
    (hcat : WithinCatalogue oracle)
    (d v : Val) (h : scalarLoadGen oracle true s d = .ok v) :
    allowed.contains (tagClass (factsOf d).tag) = true :=
  strict_scalar_respects_origins_open oracle s allowed hs (withinL_of_within hcat) d v h

/-- the premises are met: under the catalogue-built oracle (`witness_within`) the strict int loader
    does return on an int datum, so `strict_scalar_respects_origins` is applied to a real run -/
example : (scalarLoadGen witnessOracle true "int" (.int 5)).isOk = true := by decide +kernel

/-- … and the theorem applied to it, every hypothesis discharged: the class of the datum is a
    documented origin of `int` -/
example (v : Val) (h : scalarLoadGen witnessOracle true "int" (.int 5) = .ok v) :
    ["int"].contains (tagClass (factsOf (.int 5)).tag) = true :=
  strict_scalar_respects_origins witnessOracle "int" ["int"] (by decide) witness_within (.int 5) v h

/-- an oracle that RETURNS at every call site without a catalogue row: it meets `WithinCatalogueL`
    but not `WithinCatalogue`, so the open form really covers more behaviours -/
def openOracle : SiteOracle := fun strict s d site =>
  match closureOf s strict with
  | none => .val d
  | some (_, cat) =>
    match cat (factsOf d).tag site with
    | [] => .val d
    | .val :: _ => .val d
    | .falsy :: _ => .falsy d
    | .raises e :: _ => .raises e

theorem open_withinL : WithinCatalogueL openOracle := by
  intro strict s d prog cat hc site
  unfold openOracle
  simp only [hc]
  cases hrow : cat (factsOf d).tag site with
  | nil => simp [guardedL, SiteOut.cls]
  | cons c rest => cases c <;> simp [guardedL, SiteOut.cls]

theorem open_not_within : ¬ WithinCatalogue openOracle := by
  intro h
  have := h true "int" (.int 0) prog_int_strict cat_int_strict (by rfl) "no such call"
  rcases this with h1 | ⟨_, h2⟩
  · revert h1; decide +kernel
  · revert h2; decide +kernel

example (v : Val) (h : scalarLoadGen openOracle true "int" (.int 5) = .ok v) :
    ["int"].contains (tagClass (factsOf (.int 5)).tag) = true :=
  strict_scalar_respects_origins_open openOracle "int" ["int"] (by decide) open_withinL (.int 5) v h

/-! ### the instances named in the property statement

  "no str to int" and "no bool to int" (a `bool` IS an `int` instance: only an exact-type guard
  refuses it), for every string / bool, under every oracle within the catalogue.  (They depend on
  the regenerated documentation row `("int", ["int"])`: if the docs start to allow another
  origin these stop building, which is the intended signal.) -/

theorem strict_int_rejects_str (oracle : SiteOracle) (hcat : WithinCatalogue oracle) (t : String) (v : Val) :
    scalarLoadGen oracle true "int" (.str t) ≠ .ok v := by
  intro h
  have := strict_scalar_respects_origins oracle "int" ["int"] (by decide) hcat (.str t) v h
  have e : factsOf (.str t) = factsOf (.str "") := rfl
  rw [e] at this
  revert this
  decide +kernel

theorem strict_int_rejects_bool (oracle : SiteOracle) (hcat : WithinCatalogue oracle) (b : Bool) (v : Val) :
    scalarLoadGen oracle true "int" (.bool b) ≠ .ok v := by
  intro h
  have := strict_scalar_respects_origins oracle "int" ["int"] (by decide) hcat (.bool b) v h
  have e : factsOf (.bool b) = factsOf (.bool true) := rfl
  rw [e] at this
  revert this
  decide +kernel

theorem strict_str_rejects_int (oracle : SiteOracle) (hcat : WithinCatalogue oracle) (i : Int) (v : Val) :
    scalarLoadGen oracle true "str" (.int i) ≠ .ok v := by
  intro h
  have := strict_scalar_respects_origins oracle "str" ["str"] (by decide) hcat (.int i) v h
  have e : factsOf (.int i) = factsOf (.int 0) := rfl
  rw [e] at this
  revert this
  decide +kernel

end Adaptix.Morph.C07Leaves
