/-
  C07 (scalar leaves) — "whatever a scalar accepts with strict_coercion=True it accepts with
  strict_coercion=False, loading the same value": the hypothesis `hleaf` of the container
  theorem (Props/C07.lean), PROVED for the strict/lax closure pairs translated from the working
  tree on this run.

  Both closures of a scalar run on the same datum against ONE behaviour of the call expressions
  (`beh`): a call expression named in both closures does the same thing in both. The proof is a
  joint symbolic execution (MiniPy/Sym.lean: which value is returned, not only that one is):
  `narrow_table` enumerates, per scalar and datum class, every assignment of catalogued outcome
  classes to the call sites of the two closures and checks that whenever the strict closure
  returns X the lax closure returns X too, or returns the result of a call that is the identity
  on this datum class (`identitySites`, regenerated from observations on every run: `int(x)` of
  an exact int is x ...). Soundness of the symbolic run lifts the table to every datum and
  every behaviour within the catalogue.
-/
import AdaptixModel.MiniPy.Sym
import AdaptixModel.Morph.Scalars
import AdaptixProofs.Lemmas.MiniPySym
import AdaptixProofs.Lemmas.Catalogue
import AdaptixProofs.Props.C07
import AdaptixProofs.Lemmas.MorphTerminates

namespace Adaptix.Morph.C07Narrow
open Adaptix.Py Adaptix.MiniPy Adaptix.Morph Adaptix.Generated.Scalars

/-- outcome classes a call site can show on a datum class, given the rows of the two closures
    (a site neither closure was ever seen to execute on this class: totalised, see `uncatalogued`) -/
def jointOpts (rowS rowL : List SiteClass) : List SiteClass :=
  if rowS.isEmpty && rowL.isEmpty then [.raises uncatalogued] else rowS ++ rowL

/-- the behaviour of the call expressions stays within the joint catalogue of the scalar's two closures -/
def JointWithin (beh : String → Val → String → SiteOut Val) : Prop :=
  ∀ s d pS catS pL catL, closureOf s true = some (pS, catS) → closureOf s false = some (pL, catL) →
    ∀ site, (beh s d site).cls ∈ jointOpts (catS (factsOf d).tag site) (catL (factsOf d).tag site)

/-- the calls listed in `identitySites` return their argument (what the extraction observed) -/
def IdentityLaw (beh : String → Val → String → SiteOut Val) : Prop :=
  ∀ s site tag, (s, site, tag) ∈ identitySites → ∀ d, (factsOf d).tag = tag →
    beh s d site = .val d ∨ beh s d site = .falsy d

def isIdent (s tag site : String) : Bool := identitySites.contains (s, site, tag)

/-- the lax result is the strict result: the same symbolic value, or an identity call on the datum -/
def compatRet (ident : String → Bool) (x y : SymVal) : Bool :=
  x == y ||
    (match x, y with
     | .data, .site n => ident n
     | _, _ => false)

def checkTag (f : Facts) (s : String) (pS : Block) (catS : String → String → List SiteClass)
    (pL : Block) (catL : String → String → List SiteClass) : Bool :=
  let sites := sitesBlock pS ++ sitesBlock pL
  (assignments (fun n => jointOpts (catS f.tag n) (catL f.tag n)) sites).all fun l =>
    let a : SEnv := { ancestors := excAncestors, facts := f, cls := clsOf l }
    match symClosure a pS with
    | .ret x =>
      (match symClosure a pL with
       | .ret y => compatRet (isIdent s f.tag) x y
       | _ => false)
    | _ => true

def narrowOK (s : String) : Bool :=
  match closureOf s true, closureOf s false with
  | some (pS, catS), some (pL, catL) => tagFacts.all fun f => checkTag f s pS catS pL catL
  | _, _ => true

def narrowTable : Bool := (closures.map (·.1.1)).all narrowOK

/-- **table form** (kernel-checked over the closures, catalogue and identity table regenerated on this run) -/
theorem narrow_table : narrowTable = true := by decide +kernel

theorem factsOf_mem (d : Val) : factsOf d ∈ tagFacts := by
  unfold factsOf
  split
  · rename_i f hf
    exact List.mem_of_find?_eq_some hf
  · decide +kernel

theorem name_mem {s : String} {b : Bool} {pc : Block × (String → String → List SiteClass)}
    (h : closureOf s b = some pc) : s ∈ closures.map (·.1.1) := by
  unfold closureOf at h
  cases hf : closures.find? (fun c => c.1 == (s, b)) with
  | none => simp [hf] at h
  | some c =>
    have hm := List.mem_of_find?_eq_some hf
    have hk := List.find?_some hf
    have : c.1 = (s, b) := by simpa using hk
    exact List.mem_map.2 ⟨c, hm, by rw [this]⟩

theorem ret_of_ok {d v : Val} {r : Res Val} (h : resToOutcome d r = .ok v) (hc : r ≠ .cont) : r = .ret v := by
  cases r with
  | cont => exact absurd rfl hc
  | ret w => simp [resToOutcome] at h; rw [h]
  | raised e => simp only [resToOutcome] at h; split at h <;> simp at h

theorem runClosure_ne_cont {V : Type} (env : Env V) (b : Block) : runClosure env b ≠ .cont := by
  unfold runClosure
  split <;> simp_all

/-- **Leaf narrowing, proved**: for every scalar with a translated strict and lax closure, every
    datum and every behaviour of the call expressions within the catalogue: if the strict loader
    returns `v`, the lax loader returns the same `v`. -/
theorem leaf_narrowing (beh : String → Val → String → SiteOut Val)
    (hcat : JointWithin beh) (hid : IdentityLaw beh)
    (s : String) (d v : Val) (hk : knownScalar s = true)
    (h : scalarLoadGen (fun _ => beh) true s d = .ok v) :
    scalarLoadGen (fun _ => beh) false s d = .ok v := by
  unfold knownScalar at hk
  simp only [Bool.and_eq_true, Option.isSome_iff_exists] at hk
  obtain ⟨⟨pcS, hS⟩, ⟨pcL, hL⟩⟩ := hk
  obtain ⟨pS, catS⟩ := pcS
  obtain ⟨pL, catL⟩ := pcL
  -- the table row of this scalar and datum class
  have htab := narrow_table
  unfold narrowTable at htab
  have hrow := List.all_eq_true.1 htab s (name_mem hS)
  unfold narrowOK at hrow
  simp only [hS, hL] at hrow
  have hf := List.all_eq_true.1 hrow (factsOf d) (factsOf_mem d)
  unfold checkTag at hf
  -- the concrete behaviour, as an assignment of classes
  let σ : String → SiteClass := fun n => (beh s d n).cls
  let sites := sitesBlock pS ++ sitesBlock pL
  let opts : String → List SiteClass := fun n => jointOpts (catS (factsOf d).tag n) (catL (factsOf d).tag n)
  have hl : sites.map (fun n => (n, σ n)) ∈ assignments opts sites :=
    graph_mem_assignments opts σ sites (fun n _ => hcat s d pS catS pL catL hS hL n)
  have hcheck := List.all_eq_true.1 hf _ hl
  -- symbolic environments
  let aσ : SEnv := { ancestors := excAncestors, facts := factsOf d, cls := σ }
  let al : SEnv := { ancestors := excAncestors, facts := factsOf d, cls := clsOf (sites.map (fun n => (n, σ n))) }
  have hagS : AgreeOn al aσ (sitesBlock pS) :=
    ⟨rfl, rfl, fun n hn => clsOf_graph σ sites n (List.mem_append.2 (Or.inl hn))⟩
  have hagL : AgreeOn al aσ (sitesBlock pL) :=
    ⟨rfl, rfl, fun n hn => clsOf_graph σ sites n (List.mem_append.2 (Or.inr hn))⟩
  have hsS : symClosure al pS = symClosure aσ pS := symClosure_agree al aσ pS hagS
  have hsL : symClosure al pL = symClosure aσ pL := symClosure_agree al aσ pL hagL
  -- concrete runs
  have htS : Tracks (closureEnv (fun _ => beh) true s d) aσ := ⟨rfl, rfl, fun _ => rfl⟩
  have htL : Tracks (closureEnv (fun _ => beh) false s d) aσ := ⟨rfl, rfl, fun _ => rfl⟩
  have hrS := symClosure_sound _ aσ htS pS
  have hrL := symClosure_sound _ aσ htL pL
  unfold scalarLoadGen at h ⊢
  simp only [hS] at h
  simp only [hL]
  have hretS := ret_of_ok h (runClosure_ne_cont _ _)
  rw [hrS] at hretS
  simp only [] at hcheck
  rw [hsS, hsL] at hcheck
  rw [hrL]
  cases hx : symClosure aσ pS with
  | cont => rw [hx] at hretS; simp [interp] at hretS
  | raised e => rw [hx] at hretS; simp [interp] at hretS
  | ret x =>
    rw [hx] at hretS hcheck
    simp only [interp, Res.ret.injEq] at hretS
    cases hy : symClosure aσ pL with
    | cont => rw [hy] at hcheck; simp at hcheck
    | raised e => rw [hy] at hcheck; simp at hcheck
    | ret y =>
      rw [hy] at hcheck
      simp only [] at hcheck
      simp only [interp, resToOutcome]
      -- the two environments denote symbolic values alike
      have hden : ∀ z : SymVal, z.denote (closureEnv (fun _ => beh) false s d) =
          z.denote (closureEnv (fun _ => beh) true s d) := by
        intro z; cases z <;> rfl
      unfold compatRet at hcheck
      simp only [Bool.or_eq_true] at hcheck
      rcases hcheck with hxy | hidn
      · have : x = y := by simpa using hxy
        subst this
        rw [hden, hretS]
      · cases x <;> cases y <;> simp at hidn
        rename_i n
        have hmem : (s, n, (factsOf d).tag) ∈ identitySites := by
          unfold isIdent at hidn
          simpa using hidn
        have hlaw := hid s n (factsOf d).tag hmem d rfl
        have hd : (SymVal.data).denote (closureEnv (fun _ => beh) true s d) = d := rfl
        rw [hd] at hretS
        subst hretS
        rcases hlaw with hv | hv
        · simp [SymVal.denote, closureEnv, hv]
        · simp [SymVal.denote, closureEnv, hv]

/-! ### the container theorems of Props/C07.lean for the builtin recipe -/

/-- every translated closure has its twin for the other coercion mode (regenerated table) -/
def pairsOK : Bool := closures.all fun c => (closureOf c.1.1 (!c.1.2)).isSome

theorem closures_paired : pairsOK = true := by decide +kernel

/-- the world whose scalar leaves are the translated closures run against `beh` -/
def builtinWorld (beh : String → Val → String → SiteOut Val) (classes : String → Option (List Field))
    (scalarDump : String → Val → Outcome Val) : World :=
  { classes := classes, scalarLoad := scalarLoadGen (fun _ => beh), scalarDump := scalarDump }

/-- **`LeafNarrowing` holds for the builtin world** - the hypothesis of the container theorems is discharged -/
theorem builtin_leaf_narrowing (beh : String → Val → String → SiteOut Val)
    (hcat : JointWithin beh) (hid : IdentityLaw beh) (classes : String → Option (List Field))
    (sd : String → Val → Outcome Val) : LeafNarrowing (builtinWorld beh classes sd) := by
  intro name d v h
  have hS : (closureOf name true).isSome = true := by
    cases hc : closureOf name true with
    | some _ => rfl
    | none =>
      simp only [builtinWorld, scalarLoadGen, hc] at h
      cases h
  have hL : (closureOf name false).isSome = true := by
    obtain ⟨pc, hpc⟩ := Option.isSome_iff_exists.1 hS
    unfold closureOf at hpc
    cases hf : closures.find? (fun c => c.1 == (name, true)) with
    | none => simp [hf] at hpc
    | some c =>
      have hm := List.mem_of_find?_eq_some hf
      have hk : c.1 = (name, true) := by simpa using List.find?_some hf
      have := List.all_eq_true.1 closures_paired c hm
      simpa [hk] using this
  exact leaf_narrowing beh hcat hid name d v (by simp [knownScalar, hS, hL]) h

/-- **C07 for the builtin recipe, union-free types**: whatever loads with strict_coercion=True
    loads to the identical value with strict_coercion=False - every type, datum, fuel, debug_trail
    mode; the only assumptions left are the stdlib catalogue and the identity table. -/
theorem builtin_strict_sub_lax_value_unionFree (beh : String → Val → String → SiteOut Val)
    (hcat : JointWithin beh) (hid : IdentityLaw beh) (classes : String → Option (List Field))
    (sd : String → Val → Outcome Val)
    (hWl : WorldNodes (builtinWorld beh classes sd) litNodeFlat)
    (hWu : WorldNodes (builtinWorld beh classes sd) notUnionNode)
    (m : DebugTrail) (n : Nat) (T : Ty) (d v : Val) (hT : T.litFlat = true) (hU : T.unionFree = true)
    (h : load (builtinWorld beh classes sd) ⟨m, true⟩ n T d = .ok v) :
    load (builtinWorld beh classes sd) ⟨m, false⟩ n T d = .ok v :=
  C07.strict_sub_lax_value_unionFree _ (builtin_leaf_narrowing beh hcat hid classes sd) hWl hWu m n T d v hT hU h

/-- with unions: accepted strictly ⇒ accepted laxly (when the lax run ends without an unexpected error) -/
theorem builtin_strict_sub_lax_accept (beh : String → Val → String → SiteOut Val)
    (hcat : JointWithin beh) (hid : IdentityLaw beh) (classes : String → Option (List Field))
    (sd : String → Val → Outcome Val)
    (hWl : WorldNodes (builtinWorld beh classes sd) litNodeFlat)
    (m : DebugTrail) (n n' : Nat) (T : Ty) (d v : Val) (hT : T.litFlat = true)
    (h : load (builtinWorld beh classes sd) ⟨m, true⟩ n T d = .ok v)
    (hdiv : load (builtinWorld beh classes sd) ⟨m, false⟩ n' T d ≠ .diverge)
    (hesc : (load (builtinWorld beh classes sd) ⟨m, false⟩ n' T d).isEscape = false) :
    ∃ v', load (builtinWorld beh classes sd) ⟨m, false⟩ n' T d = .ok v' :=
  C07.strict_sub_lax_accept _ (builtin_leaf_narrowing beh hcat hid classes sd) hWl m n n' T d v hT h hdiv hesc

theorem builtinWorld_answers (beh : String → Val → String → SiteOut Val)
    (classes : String → Option (List Field)) (sd : String → Val → Outcome Val) :
    LeavesAnswer (builtinWorld beh classes sd) :=
  fun s name d => scalarLoadGen_answers (fun _ => beh) s name d

/-- the same without a termination hypothesis: at every fuel from some `N` on -/
theorem builtin_strict_sub_lax_accept_total (beh : String → Val → String → SiteOut Val)
    (hcat : JointWithin beh) (hid : IdentityLaw beh) (classes : String → Option (List Field))
    (sd : String → Val → Outcome Val)
    (hWl : WorldNodes (builtinWorld beh classes sd) litNodeFlat)
    (m : DebugTrail) (n : Nat) (T : Ty) (d v : Val) (hT : T.litFlat = true)
    (h : load (builtinWorld beh classes sd) ⟨m, true⟩ n T d = .ok v) :
    ∃ N, ∀ n', N ≤ n' → (load (builtinWorld beh classes sd) ⟨m, false⟩ n' T d).isEscape = false →
      ∃ v', load (builtinWorld beh classes sd) ⟨m, false⟩ n' T d = .ok v' :=
  C07.strict_sub_lax_accept_total _ (builtin_leaf_narrowing beh hcat hid classes sd)
    (builtinWorld_answers beh classes sd) hWl m n T d v hT h

/-! ### non-vacuity -/

/-- a behaviour built from the tables: an identity site returns its datum, any other site does the
    first thing the joint catalogue lists -/
def witnessBeh : String → Val → String → SiteOut Val := fun s d site =>
  if isIdent s (factsOf d).tag site then .val d
  else
    match closureOf s true, closureOf s false with
    | some (_, catS), some (_, catL) =>
      (match jointOpts (catS (factsOf d).tag site) (catL (factsOf d).tag site) with
       | .val :: _ => .val d
       | .falsy :: _ => .falsy d
       | .raises e :: _ => .raises e
       | [] => .raises uncatalogued)
    | _, _ => .raises uncatalogued

theorem witness_identity : IdentityLaw witnessBeh := by
  intro s site tag hm d htag
  left
  unfold witnessBeh
  have : isIdent s (factsOf d).tag site = true := by
    unfold isIdent
    rw [htag]
    simpa using hm
  simp [this]

/-- every identity site can return a truthy value according to the catalogue (checked on the regenerated tables) -/
def identityRowsOK : Bool :=
  identitySites.all fun (s, n, tag) =>
    match closureOf s true, closureOf s false with
    | some (_, catS), some (_, catL) => (jointOpts (catS tag n) (catL tag n)).contains .val
    | _, _ => true

theorem identity_rows_ok : identityRowsOK = true := by decide +kernel

/-- **the hypotheses of `leaf_narrowing` are jointly satisfiable** (with `witness_identity`) -/
theorem witness_joint : JointWithin witnessBeh := by
  intro s d pS catS pL catL hS hL site
  unfold witnessBeh
  by_cases hi : isIdent s (factsOf d).tag site = true
  · simp only [hi, if_true, SiteOut.cls]
    have hmem : (s, site, (factsOf d).tag) ∈ identitySites := by
      unfold isIdent at hi
      simpa using hi
    have := List.all_eq_true.1 identity_rows_ok _ hmem
    simp only [hS, hL] at this
    simpa using this
  · simp only [hi, hS, hL]
    cases hrow : jointOpts (catS (factsOf d).tag site) (catL (factsOf d).tag site) with
    | nil =>
      -- jointOpts is never empty
      unfold jointOpts at hrow
      split at hrow
      · simp at hrow
      · rename_i hne
        simp only [List.append_eq_nil_iff] at hrow
        simp [hrow.1, hrow.2] at hne
    | cons c rest =>
      cases c <;> simp [SiteOut.cls]

/-- the strict int loader returns on an int datum under the witness behaviour, so the theorem's
    premise `h` is met by a real run (and its conclusion is then a real statement about `int(data)`) -/
example : (scalarLoadGen (fun _ => witnessBeh) true "int" (.int 5)).isOk = true := by decide +kernel
example : (scalarLoadGen (fun _ => witnessBeh) false "int" (.int 5)).isOk = true := by decide +kernel

/-- the table is not trivially true: dropping the identity table makes it fail (the lax int
    closure returns `int(data)`, the strict one `data`) -/
example : compatRet (fun _ => false) .data (.site "int(data)") = false := by decide
example : (closures.map (·.1.1)).length ≥ 40 := by decide +kernel

/-! ### all hypotheses of the builtin container theorems hold together

  the catalogue-built behaviour (`witness_joint`, `witness_identity`), a two-class table over the
  translated `int` / `str` closures (so `WorldNodes … litNodeFlat / notUnionNode` are about real
  fields), and a strict run through both classes that does succeed -/

def wClasses : String → Option (List Field) := fun cls =>
  if cls = "P" then some [⟨"n", .scalar "int", true, .none⟩, ⟨"s", .scalar "str", true, .none⟩]
  else if cls = "Q" then some [⟨"p", .model "P", true, .none⟩, ⟨"xs", .iter .list true (.scalar "int"), true, .none⟩]
  else none

def wWorld : World := builtinWorld witnessBeh wClasses (fun _ d => .ok d)

theorem wWorld_nodes (p : Ty → Bool) (h1 : p (.scalar "int") = true) (h2 : p (.scalar "str") = true)
    (h3 : p (.model "P") = true) (h4 : p (.iter .list true (.scalar "int")) = true) : WorldNodes wWorld p := by
  intro cls fields h f hf
  simp only [wWorld, builtinWorld, wClasses] at h
  split at h
  · cases h; simp at hf; rcases hf with rfl | rfl <;> simp [Ty.allNodes, *]
  · split at h
    · cases h; simp at hf; rcases hf with rfl | rfl <;> simp [Ty.allNodes, *]
    · cases h

def wData : Val :=
  .dict [(.str "p", .dict [(.str "n", .int 5), (.str "s", .str "a")]), (.str "xs", .list [.int 1, .int 2])]

theorem leaf_ok (s : String) (d : Val) (h : (scalarLoadGen (fun _ => witnessBeh) true s d).isOk = true) :
    ∃ v, scalarLoadGen (fun _ => witnessBeh) true s d = .ok v := by
  cases hh : scalarLoadGen (fun _ => witnessBeh) true s d with
  | ok v => exact ⟨v, rfl⟩
  | _ => rw [hh] at h; cases h

theorem wLoad_strict : ∃ v, load wWorld ⟨.all, true⟩ 4 (.model "Q") wData = .ok v := by
  obtain ⟨v5, h5⟩ := leaf_ok "int" (.int 5) (by decide +kernel)
  obtain ⟨v1, h1⟩ := leaf_ok "int" (.int 1) (by decide +kernel)
  obtain ⟨v2, h2⟩ := leaf_ok "int" (.int 2) (by decide +kernel)
  obtain ⟨va, ha⟩ := leaf_ok "str" (.str "a") (by decide +kernel)
  simp [load, wWorld, builtinWorld, wClasses, wData, loadModel, modelItems, Val.lookup, Val.pyEq, seqMode,
    sweepAll, Sweep.finish, bindO, loadIter, strictExcluded, Val.isMapping, Val.isStr, Val.iterElems, idxItems,
    Factory.build, h5, h1, h2, ha]

/-- `builtin_strict_sub_lax_value_unionFree`, every hypothesis discharged -/
theorem wLoad_lax : ∃ v, load wWorld ⟨.all, true⟩ 4 (.model "Q") wData = .ok v ∧
    load wWorld ⟨.all, false⟩ 4 (.model "Q") wData = .ok v := by
  obtain ⟨v, hv⟩ := wLoad_strict
  exact ⟨v, hv, builtin_strict_sub_lax_value_unionFree witnessBeh witness_joint witness_identity wClasses _
    (wWorld_nodes _ rfl rfl rfl rfl) (wWorld_nodes _ rfl rfl rfl rfl) .all 4 (.model "Q") wData v rfl rfl hv⟩

/-- `builtin_strict_sub_lax_accept` / `…_total`, every hypothesis discharged -/
example : ∃ v', load wWorld ⟨.all, false⟩ 4 (.model "Q") wData = .ok v' := by
  obtain ⟨v, hs, hl⟩ := wLoad_lax
  exact builtin_strict_sub_lax_accept witnessBeh witness_joint witness_identity wClasses _
    (wWorld_nodes _ rfl rfl rfl rfl) .all 4 4 (.model "Q") wData v rfl hs
    (by unfold wWorld at hl; rw [hl]; simp) (by unfold wWorld at hl; rw [hl]; rfl)

example : ∃ N, ∀ n', N ≤ n' → (load wWorld ⟨.all, false⟩ n' (.model "Q") wData).isEscape = false →
    ∃ v', load wWorld ⟨.all, false⟩ n' (.model "Q") wData = .ok v' := by
  obtain ⟨v, hs, _⟩ := wLoad_lax
  exact builtin_strict_sub_lax_accept_total witnessBeh witness_joint witness_identity wClasses _
    (wWorld_nodes _ rfl rfl rfl rfl) .all 4 (.model "Q") wData v rfl hs

end Adaptix.Morph.C07Narrow
