/-
  C01 / C02 / C04 — the base64 codec of the bytes-like scalars, no longer a hypothesis.

  `Props/C01.lean` proves the round trip for every world that satisfies the scalar codec
  laws (`ScalarRT`). For the scalars whose codec is adaptix's own code plus `binascii`
  (bytes, bytearray; BytesIO / IO[bytes] share loader and dumper up to the wrapper) the law
  is PROVED here over the model of `AdaptixModel/Codec/Base64.lean` for every byte string,
  and the world `WB` (None / bool / int / float / str as is, bytes / bytearray through
  base64) instantiates the round-trip theorems of C01 without any codec hypothesis.

  Property theorems only; helper lemmas are in `Lemmas/Base64.lean`.  Tie: the `b64-*`
  correspondences of `harness/props/c01_codecs.py` (model vs the real loader / dumper of a
  Retort and vs `binascii`, on generated and hostile strings).
-/
import AdaptixProofs.Lemmas.Base64
import AdaptixProofs.Props.C01

namespace Adaptix.Codec.Base64.Props
open Adaptix.Py Adaptix.Morph Adaptix.Codec.Base64 Adaptix.Morph.C01

/-! ## the codec -/

/-- **decode ∘ encode = id**: `a2b_base64(b2a_base64(bs, newline=False)) == bs` for every
    byte string of every length. -/
theorem base64_roundtrip (bs : List Nat) (h : ∀ b ∈ bs, b < 256) : a2b (b2a bs) = .ok bs :=
  a2b_b2a bs h

/-- **the loader inverts the dumper** (with the ASCII and pattern guards of the loader in
    between): the codec law of `bytes`. -/
theorem loader_inverts_dumper (bs : List Nat) (h : ∀ b ∈ bs, b < 256) :
    ∃ d, bytesDumper (.bytes bs) = .ok d ∧ bytesLoader d = .ok (.bytes bs) := by
  refine ⟨.str (ofCodes (b2a bs)), rfl, ?_⟩
  simp only [bytesLoader, codes_ofCodes (b2a_ascii bs h), loadCodes_b2a bs h]

/-- … and of `bytearray` -/
theorem bytearray_loader_inverts_dumper (bs : List Nat) (h : ∀ b ∈ bs, b < 256) :
    ∃ d, bytesDumper (.bytearray bs) = .ok d ∧ bytearrayLoader d = .ok (.bytearray bs) := by
  refine ⟨.str (ofCodes (b2a bs)), rfl, ?_⟩
  simp only [bytearrayLoader, bytesLoader, codes_ofCodes (b2a_ascii bs h), loadCodes_b2a bs h]

/-- different byte strings have different dumps (dict keys of type bytes stay different) -/
theorem dump_injective {xs ys : List Nat} (hx : ∀ b ∈ xs, b < 256) (hy : ∀ b ∈ ys, b < 256)
    (h : b2a xs = b2a ys) : xs = ys := by
  have := a2b_b2a xs hx
  rw [h, a2b_b2a ys hy] at this
  cases this; rfl

/-- **documented dump form**: a str of alphabet characters, then 0–2 pads, a multiple of
    four characters long, all ASCII -/
theorem dump_form (bs : List Nat) (h : ∀ b ∈ bs, b < 256) :
    ∃ d k, b2a bs = d ++ List.replicate k PAD ∧ d.all isAlpha = true ∧ k ≤ 2 ∧
      (d.length + k) % 4 = 0 ∧ ∀ c ∈ b2a bs, c < 128 := by
  obtain ⟨d, k, hd, hal, hk, hlen, _⟩ := b2a_shape bs h
  exact ⟨d, k, hd, hal, hk, hlen, b2a_ascii bs h⟩

/-- the dumped text has `4 * ⌈n / 3⌉` characters -/
theorem dump_length (bs : List Nat) : (b2a bs).length = 4 * ((bs.length + 2) / 3) := by
  induction bs using b2a.induct with
  | case1 => rfl
  | case2 a => simp [b2a]
  | case3 a b => simp [b2a]
  | case4 a b c rest ih =>
    simp only [b2a, List.length_cons, ih]
    omega

/-- the regular expression read as a set of strings -/
theorem pattern_is_documented (cs : List Nat) :
    matchesPattern cs = true ↔ ∃ d k, cs = d ++ List.replicate k PAD ∧ d.all isAlpha = true ∧ k ≤ 2 :=
  matchesPattern_iff cs

/-- **what the loader accepts, exactly** (C02 "rejects every other datum"): ASCII text made
    of `n` alphabet characters and `k ≤ 2` pads where `n % 4 = 0`, or `n % 4 = 2` with both
    pads, or `n % 4 = 3` with at least one; and then it returns the RFC 4648 reading of the
    sextets (`decodeSextets`). Everything else is a ValueLoadError. -/
theorem loader_accepts_iff (cs : List Nat) (bs : List Nat) :
    loadCodes cs = .ok bs ↔
      ∃ d k, cs = d ++ List.replicate k PAD ∧ d.all isAlpha = true ∧ k ≤ 2 ∧
        (d.length % 4 = 0 ∨ (d.length % 4 = 2 ∧ k = 2) ∨ (d.length % 4 = 3 ∧ 1 ≤ k)) ∧
        bs = decodeSextets (d.filterMap dec6) := by
  constructor
  · intro h
    unfold loadCodes at h
    split at h
    · cases h
    split at h
    · cases h
    rename_i hm
    have hm : matchesPattern cs = true := by
      cases hmm : matchesPattern cs with
      | true => rfl
      | false => simp [hmm] at hm
    obtain ⟨d, k, rfl, hd, hk⟩ := (matchesPattern_iff cs).mp hm
    refine ⟨d, k, rfl, hd, hk, ?_⟩
    rw [a2b, a2bGo_alpha_pads d k hd hk] at h
    cases hv : verdict d.length k (decodeSextets (d.filterMap dec6)) with
    | error e => rw [hv] at h; cases h
    | ok out =>
      rw [hv] at h
      cases h
      unfold verdict at hv
      repeat' split at hv
      all_goals first
        | (cases hv; exact ⟨by omega, rfl⟩)
        | cases hv
  · rintro ⟨d, k, rfl, hd, hk, hq, rfl⟩
    unfold loadCodes
    have h1 : (d ++ List.replicate k PAD).any (fun c => decide (128 ≤ c)) = false := by
      rw [List.any_eq_false]
      intro c hc
      rw [List.mem_append] at hc
      have : c < 128 := by
        rcases hc with hc | hc
        · exact isAlpha_lt (List.all_eq_true.mp hd c hc)
        · rw [List.mem_replicate] at hc; rw [hc.2]; decide
      simp; omega
    have h2 : matchesPattern (d ++ List.replicate k PAD) = true :=
      (matchesPattern_iff _).mpr ⟨d, k, rfl, hd, hk⟩
    simp only [h1, h2, a2b, a2bGo_alpha_pads d k hd hk, verdict]
    rcases hq with hq | ⟨hq, rfl⟩ | ⟨hq, hk1⟩
    · simp [hq]
    · simp [hq]
    · have : ¬ (d.length % 4 = 0) := by omega
      have : ¬ (d.length % 4 = 1) := by omega
      have : ¬ (d.length % 4 = 2) := by omega
      simp [*]

/-- **the loaded value is the bit string of the text** (RFC 4648 as a statement about bits,
    independent of quads and tables of shifts): for an accepted text of `n` alphabet
    characters the bits of the result, byte by byte and most significant first, are the first
    `8 * ⌊6 n / 8⌋` bits of the six-bit values of the characters. -/
theorem loaded_value_is_bit_prefix (d : List Nat) (k : Nat) (bs : List Nat)
    (h : loadCodes (d ++ List.replicate k PAD) = .ok bs) (hd : d.all isAlpha = true) :
    byteBits bs = (sextetBits (d.filterMap dec6)).take (8 * (6 * d.length / 8)) := by
  obtain ⟨d', k', he, hd', _, _, rfl⟩ := (loader_accepts_iff _ _).mp h
  have hdd : d' = d := by
    have h1 := congrArg (List.takeWhile isAlpha) he
    have tw : ∀ (l : List Nat) (j : Nat), l.all isAlpha = true →
        (l ++ List.replicate j PAD).takeWhile isAlpha = l := by
      intro l j hl
      induction l with
      | nil => cases j <;> simp [List.replicate_succ, isAlpha_pad]
      | cons c cs ih =>
        simp only [List.all_cons, Bool.and_eq_true] at hl
        simp [hl.1, ih hl.2]
    rw [tw d k hd, tw d' k' hd'] at h1
    exact h1.symm
  subst hdd
  have hlen : ∀ l : List Nat, l.all isAlpha = true → (l.filterMap dec6).length = l.length := by
    intro l hl
    induction l with
    | nil => rfl
    | cons c cs ih =>
      simp only [List.all_cons, Bool.and_eq_true] at hl
      obtain ⟨v, hv⟩ := alpha_dec hl.1
      simp only [List.filterMap_cons, hv, List.length_cons, ih hl.2]
  have hlt : ∀ s ∈ d'.filterMap dec6, s < 64 := by
    intro s hs
    obtain ⟨c, _, hc⟩ := List.mem_filterMap.mp hs
    exact dec6_lt hc
  rw [decodeSextets_bits _ hlt, hlen d' hd']

/-- **byte strings ↔ canonical sextet strings is a bijection**: the encoder writes the alphabet characters of
    `sextets bs` (then pads); `sextets bs` is canonical (no lone final sextet, unused low bits zero);
    `decodeSextets` inverts `sextets`, and `sextets` inverts `decodeSextets` on every canonical string. So the
    canonical texts are exactly the dumps, and each is the dump of exactly what it loads to. -/
theorem sextet_codec_bijection :
    (∀ bs : List Nat, b2a bs = (sextets bs).map enc6 ++ List.replicate ((3 - bs.length % 3) % 3) PAD) ∧
    (∀ bs : List Nat, (∀ b ∈ bs, b < 256) → CanonS (sextets bs) ∧ decodeSextets (sextets bs) = bs) ∧
    (∀ ss : List Nat, (∀ s ∈ ss, s < 64) → CanonS ss → sextets (decodeSextets ss) = ss) :=
  ⟨b2a_eq_sextets, fun bs h => ⟨canonS_sextets bs, decodeSextets_sextets bs h⟩, sextets_decodeSextets⟩

/-- the tolerated non-canonical texts are really non-canonical: `"TWF="` (non-zero unused bits) loads to `Ma`, whose
    dump is `"TWE="` -/
example : CanonS [19, 22, 5] = False ∧ decodeSextets [19, 22, 5] = [77, 97] ∧ sextets [77, 97] = [19, 22, 4] := by
  refine ⟨by simp [CanonS], by decide, by decide⟩

/-- the loader is total and raises nothing but the two LoadError classes (C04, weak: the
    model is a total function; what matters is that the correspondence finds the real
    loader inside this model on hostile input) -/
theorem loader_only_load_errors (d : Val) :
    (∃ bs, bytesLoader d = .ok (.bytes bs)) ∨
    (∃ x, bytesLoader d = .err (LErr.leaf "TypeLoadError" x)) ∨
    (∃ x, bytesLoader d = .err (LErr.leaf "ValueLoadError" x)) := by
  cases d with
  | str s =>
    simp only [bytesLoader]
    cases loadCodes (codes s) with
    | ok bs => exact .inl ⟨bs, rfl⟩
    | typeErr => exact .inr (.inl ⟨_, rfl⟩)
    | valueErr => exact .inr (.inr ⟨_, rfl⟩)
  | _ => exact .inr (.inl ⟨_, rfl⟩)

/-! non-vacuity / tests of the statements above on literals -/
example : b2a [77, 97, 110] = [84, 87, 70, 117] := by decide                     -- "Man" -> "TWFu"
example : b2a [77, 97] = [84, 87, 69, 61] := by decide                           -- "Ma"  -> "TWE="
example : loadCodes [84, 87, 69, 61] = .ok [77, 97] := by decide
example : loadCodes [84, 87, 70, 61] = .ok [77, 97] := by decide                 -- "TWF=": trailing bits dropped
example : loadCodes [84, 87, 69] = .valueErr := by decide                        -- missing pad
example : loadCodes [84, 87, 70, 117, 61, 61] = .ok [77, 97, 110] := by decide   -- pads after a whole quad are ignored
example : loadCodes [84, 95, 69, 61] = .valueErr := by decide                    -- '_' is outside the alphabet

/-! ## a world without codec hypotheses -/

/-- None / bool / int / float / str as is (strict loaders: exact class), bytes and
    bytearray through base64 -/
def WB (classes : String → Option (List Field)) : World where
  classes := classes
  scalarLoad := fun _ name d =>
    match name, d with
    | "none", .none => .ok .none
    | "bool", .bool b => .ok (.bool b)
    | "int", .int i => .ok (.int i)
    | "float", .float f => .ok (.float f)
    | "str", .str s => .ok (.str s)
    | "bytes", d => bytesLoader d
    | "bytearray", d => bytearrayLoader d
    | _, d => .err (LErr.leaf "TypeLoadError" d)
  scalarDump := fun name x =>
    match name, x with
    | "none", .none => .ok .none
    | "bool", .bool b => .ok (.bool b)
    | "int", .int i => .ok (.int i)
    | "float", .float f => .ok (.float f)
    | "str", .str s => .ok (.str s)
    | "bytes", .bytes bs => bytesDumper (.bytes bs)
    | "bytearray", .bytearray bs => bytesDumper (.bytearray bs)
    | _, _ => .escape "TypeError"

/-- the values of the seven scalar types -/
def CB : Codec where
  inhabits := fun name x =>
    (name = "none" ∧ x = .none) ∨ (name = "bool" ∧ ∃ b, x = .bool b) ∨ (name = "int" ∧ ∃ i, x = .int i) ∨
    (name = "float" ∧ ∃ f, x = .float f) ∨ (name = "str" ∧ ∃ s, x = .str s) ∨
    (name = "bytes" ∧ ∃ bs, x = .bytes bs ∧ ∀ b ∈ bs, b < 256) ∨
    (name = "bytearray" ∧ ∃ bs, x = .bytearray bs ∧ ∀ b ∈ bs, b < 256)

/-- **the scalar codec laws hold in `WB`** — proved, not assumed -/
theorem scalarRT_WB (classes : String → Option (List Field)) : ScalarRT (WB classes) CB where
  rt := by
    intro s name x h
    rcases h with ⟨rfl, rfl⟩ | ⟨rfl, b, rfl⟩ | ⟨rfl, i, rfl⟩ | ⟨rfl, f, rfl⟩ | ⟨rfl, t, rfl⟩ |
      ⟨rfl, bs, rfl, hb⟩ | ⟨rfl, bs, rfl, hb⟩
    · exact ⟨.none, rfl, rfl⟩
    · exact ⟨.bool b, rfl, rfl⟩
    · exact ⟨.int i, rfl, rfl⟩
    · exact ⟨.float f, rfl, rfl⟩
    · exact ⟨.str t, rfl, rfl⟩
    · exact loader_inverts_dumper bs hb
    · exact bytearray_loader_inverts_dumper bs hb
  none_only := by
    intro x h
    rcases h with ⟨_, rfl⟩ | ⟨h, _⟩ | ⟨h, _⟩ | ⟨h, _⟩ | ⟨h, _⟩ | ⟨h, _⟩ | ⟨h, _⟩ <;>
      first | rfl | (exact absurd h (by decide))

/-- the dumped forms are JSON scalars, so the JSON law holds as well -/
theorem scalarJson_WB (classes : String → Option (List Field)) : ScalarJson (WB classes) CB := by
  apply scalarJson_of_fixed (scalarRT_WB classes)
  intro name x d d' h hd hj
  rcases h with ⟨rfl, rfl⟩ | ⟨rfl, b, rfl⟩ | ⟨rfl, i, rfl⟩ | ⟨rfl, f, rfl⟩ | ⟨rfl, t, rfl⟩ |
    ⟨rfl, bs, rfl, hb⟩ | ⟨rfl, bs, rfl, hb⟩ <;>
    (simp only [WB, bytesDumper, Outcome.ok.injEq] at hd; subst hd; simp [jsonTravel] at hj; exact hj.symm)

/-- **C01 without codec hypotheses**: in every class table over the seven scalars, every
    well-typed value of every admissible type (containers, unions, recursive models) dumps,
    and the loader returns it from its dump, in all six modes. -/
theorem roundtrip_no_codec_hypothesis {classes : String → Option (List Field)} {DW : DumpWorld}
    {cfg : Cfg} {T : Ty} {x : Val}
    (hR : RoundTrippable (WB classes) DW CB cfg T) (hx : HasTy (WB classes) CB T x) :
    ∃ n d, ∀ m, n ≤ m → dump (WB classes) DW cfg m T x = .ok d ∧
      ∃ x', load (WB classes) cfg m T d = .ok x' ∧ Val.same x' x = true :=
  roundtrip_total (scalarRT_WB classes) hR hx

/-- … and through `json.dumps` / `json.loads` -/
theorem roundtrip_json_no_codec_hypothesis {classes : String → Option (List Field)} {DW : DumpWorld}
    {cfg : Cfg} {T : Ty} {x d d' : Val} {n : Nat}
    (hR : RoundTrippableJson (WB classes) DW CB cfg T) (hx : HasTy (WB classes) CB T x)
    (hd : dump (WB classes) DW cfg n T x = .ok d) (hj : jsonTravel d = some d') :
    ∃ m, ∀ m', m ≤ m' → ∃ x', load (WB classes) cfg m' T d' = .ok x' ∧ Val.same x' x = true :=
  roundtrip_json (scalarRT_WB classes) (scalarJson_WB classes) hR hx hd hj

/-- non-vacuity: `List[bytes]` — every list of byte strings round-trips in every mode -/
example (cfg : Cfg) (DW : DumpWorld) (bss : List (List Nat)) (h : ∀ bs ∈ bss, ∀ b ∈ bs, b < 256) :
    ∃ n d, ∀ m, n ≤ m →
      dump (WB fun _ => none) DW cfg m (.iter .list true (.scalar "bytes")) (.list (bss.map Val.bytes)) = .ok d ∧
      ∃ x', load (WB fun _ => none) cfg m (.iter .list true (.scalar "bytes")) d = .ok x' ∧
        Val.same x' (.list (bss.map Val.bytes)) = true := by
  refine roundtrip_no_codec_hypothesis ⟨fun cls fields hc => by simp [WB] at hc, TyOK.iter TyOK.scalar⟩ ?_
  refine HasTy.iter (f := .list) ?_ (by intro hf; cases hf)
  intro e he
  simp only [List.mem_map] at he
  obtain ⟨bs, hbs, rfl⟩ := he
  exact HasTy.scalar (show CB.inhabits "bytes" (.bytes bs) from .inr (.inr (.inr (.inr (.inr (.inl ⟨rfl, bs, rfl, h bs hbs⟩))))))

end Adaptix.Codec.Base64.Props
