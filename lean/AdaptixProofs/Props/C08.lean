/-
  C08 — Models are built by their own constructor; omitted fields get the true default.
  Property theorems only; helper lemmas live in `AdaptixProofs/Lemmas/CallPlan*.lean`
  and `AdaptixProofs/Lemmas/Default*.lean`.

  Part 1 (call plan): for every input shape accepted by `InputShape._validate`
  (any number of parameters, any layout of POS_ONLY / POS_OR_KW / KW_ONLY kinds),
  every set of skipped fields, every subset of optional fields present in the
  input, the one emitted `constructor(…)` call is bound by Python without a
  TypeError and every parameter receives exactly its own field's value (or is
  left to the constructor's own default).
  Part 2 (defaults): whatever text the *translated* `get_literal_expr` returns
  evaluates to a value equal to and of exactly the same type as the default;
  objects that merely compare equal to a builtin constant are never inlined;
  without a literal the very default object is passed; factories are called
  once per load.
-/
import AdaptixModel.Layout.CallPlan
import AdaptixModel.Layout.Default
import AdaptixProofs.Lemmas.CallPlanFinal
import AdaptixProofs.Lemmas.CallPlanExtract
import AdaptixProofs.Lemmas.DefaultFactory

namespace Adaptix.C08

open Adaptix.CallPlan Adaptix.Default

/-! ## Part 1 — the constructor call -/

section CallPlan
variable {V : Type} [Inhabited V]

/-- **Specification** (independent of how the call is assembled): what a
    parameter of the constructor must receive.
    * its field is skipped by the name layout → nothing (the constructor's own default applies);
    * its field is *packed* (optional, and its default cannot be passed by the
      loader: no default value/factory known — TypedDict `NotRequired`, attrs
      `Factory(takes_self=True)` — or defaults for omitted fields are turned off)
      → the loaded value iff the field is present in the input, else nothing;
    * otherwise → the loaded value if present, else the value of the field's default clause. -/
def expected (s : Shape) (c : Cfg) (i : Inputs V) (p : Param) : Option V :=
  match s.field? p.fieldId with
  | Option.none => Option.none
  | some f =>
    if c.skipped.contains f.id then Option.none
    else if isPacked c f then i.loaded f.id
    else i.fieldVar f.id

/-- what is known when the constructor call is reached (the extraction phase
    raised otherwise): every field that is neither skipped nor packed has its
    variable assigned; extra keyword items (only under `ExtraKwargs`, which
    needs `**kwargs`) have pairwise different keys, none of which is the name
    of a parameter that can be passed by keyword. -/
structure RunOk (s : Shape) (c : Cfg) (i : Inputs V) : Prop where
  vars : ∀ f ∈ s.fields, c.skipped.contains f.id = false → isPacked c f = false → (i.fieldVar f.id).isSome = true
  extra : c.extraMove = .kwargs → s.kwargs = true ∧ (i.extra.map (·.1)).Nodup ∧
    ∀ k ∈ i.extra.map (·.1), ∀ p ∈ s.params, p.kind ≠ .posOnly → p.name ≠ k

theorem hyp_of_wf {s : Shape} {c : Cfg} {i : Inputs V} (hwf : wfShape s = true) (hcfg : wfCfg s c = true)
    (hinj : (s.params.map (·.fieldId)).Nodup) (hrun : RunOk s c i) : Hyp s c i := by
  simp only [wfShape, Bool.and_eq_true, decide_eq_true_eq, List.all_eq_true] at hwf
  obtain ⟨⟨⟨⟨⟨_, hnames⟩, hfields⟩, _⟩, hpairs⟩, hpos⟩ := hwf
  simp only [wfCfg, List.all_eq_true] at hcfg
  refine
    { names := hnames, fields := hfields, sorted := pairsOk_pairwise s _ hpairs, posReq := ?_, skipOpt := ?_,
      inj := hinj, vars := ?_, extra := ?_ }
  · intro p hp f hf hk
    have := hpos p hp
    rw [hf] at this
    simpa [hk] using this
  · intro p _ f hf hreq
    have := hcfg f (List.mem_of_find?_eq_some hf)
    rw [hreq] at this
    simpa using this
  · intro p _ hpass
    cases hf : s.field? p.fieldId with
    | none => simp [passed, hf] at hpass
    | some f =>
      rw [passed_of hf] at hpass
      simp only [Bool.and_eq_true, Bool.not_eq_true'] at hpass
      have := hrun.vars f (List.mem_of_find?_eq_some hf) hpass.1 hpass.2
      rw [field?_id hf] at this
      exact this
  · intro he
    obtain ⟨hk, hnd, hno⟩ := hrun.extra he
    refine ⟨hk, hnd, ?_⟩
    intro k hkm
    unfold isKwParam
    rw [sig_params]
    apply Bool.eq_false_iff.mpr
    intro hany
    rw [List.any_eq_true] at hany
    obtain ⟨sp, hsp, hcond⟩ := hany
    obtain ⟨p, hp, rfl⟩ := List.mem_map.mp hsp
    simp only [sgp, Bool.and_eq_true, beq_iff_eq, bne_iff_ne, ne_eq] at hcond
    exact hno k hkm p hp hcond.2 hcond.1

/-- **Every parameter receives its own field** — for all shapes accepted by
    `InputShape._validate` (all lengths, all kind layouts), all skipped sets
    accepted by `_validate_params`, all subsets of optional fields present, all
    values: the generated call is produced, Python binds it without TypeError,
    each parameter is bound to exactly `expected` (in particular nothing is
    bound for a skipped or an absent packed field, so the constructor's own
    default applies), and `**kwargs` receives exactly the extra items. -/
theorem plan_binds_own_fields {s : Shape} {c : Cfg} {i : Inputs V}
    (hwf : wfShape s = true) (hcfg : wfCfg s c = true)
    (hinj : (s.params.map (·.fieldId)).Nodup) (hrun : RunOk s c i) :
    ∃ args b ex,
      mkPlan true s c i = .ok args ∧
      bindArgs s.sig args = .ok (b, ex) ∧
      (∀ p ∈ s.params, b.lookup p.name = expected s c i p) ∧
      ex = (if c.extraMove == .kwargs then i.extra else []) := by
  have h := hyp_of_wf hwf hcfg hinj hrun
  refine ⟨thePlan s c i, finalB s c i, exL c i, ?_, bind_thePlan h, ?_, rfl⟩
  · exact mkPlan_eq s c i h.sorted h.fields h.vars
  · intro p hp
    obtain ⟨h1, h2, h3⟩ := lookup_finalB h hp
    have hf := h.fields p hp
    unfold expected
    cases hfield : s.field? p.fieldId with
    | none => rw [hfield] at hf; cases hf
    | some f =>
      have hid := field?_id hfield
      simp only []
      cases hsk : c.skipped.contains f.id with
      | true =>
        simp only [if_true]
        apply h3
        · rw [passed_of hfield, hsk]; rfl
        · unfold packedP; rw [hfield]; simp only []; rw [hsk]; rfl
      | false =>
        simp only [Bool.false_eq_true, if_false]
        cases hpk : isPacked c f with
        | true =>
          simp only [if_true]
          rw [hid]
          apply h2
          unfold packedP; rw [hfield]; simp only []; rw [hsk, hpk]; rfl
        | false =>
          simp only [Bool.false_eq_true, if_false]
          rw [hid]
          apply h1
          rw [passed_of hfield, hsk, hpk]; rfl

/-- witness shape for the theorems above: positional-only, two positional-or-keyword parameters (one skipped by
    the layout, one defaulted), a packed optional one (no passable default; parameter name ≠ field id), a
    keyword-only one, `**kwargs` with `ExtraKwargs` -/
def mixShape : Shape :=
  { fields := [⟨"p", true, .noDefault⟩, ⟨"q", false, .value⟩, ⟨"r", false, .value⟩, ⟨"u", false, .factoryWithSelf⟩,
               ⟨"k", true, .noDefault⟩]
    params := [⟨"p", "p", .posOnly⟩, ⟨"q", "q", .posOrKw⟩, ⟨"r", "r", .posOrKw⟩, ⟨"u", "u_", .posOrKw⟩,
               ⟨"k", "k", .kwOnly⟩]
    kwargs := true }

def mixCfg : Cfg := { skipped := ["q"], useDefaultForOmitted := true, extraMove := .kwargs }

/-- `p`, `k`, `u` present; `r` absent (default clause 30); two extra items, one named like the positional-only `p` -/
def mixInputs : Inputs Nat :=
  { loaded := fun id => if id == "p" then some 1 else if id == "k" then some 4 else if id == "u" then some 8 else Option.none
    dflt := fun id => if id == "r" then some 30 else Option.none
    extra := [("z", 9), ("p", 5)] }

theorem mixRunOk : RunOk mixShape mixCfg mixInputs where
  vars := by
    intro f hf hs hp
    simp only [mixShape, List.mem_cons, List.not_mem_nil, or_false] at hf
    rcases hf with rfl | rfl | rfl | rfl | rfl <;>
      first | rfl | (exact absurd hs (by decide)) | (exact absurd hp (by decide))
  extra := by
    intro _
    refine ⟨rfl, by decide, ?_⟩
    intro k hk p hp hkind
    simp only [mixInputs, List.map_cons, List.map_nil, List.mem_cons, List.not_mem_nil, or_false] at hk
    simp only [mixShape, List.mem_cons, List.not_mem_nil, or_false] at hp
    rcases hp with rfl | rfl | rfl | rfl | rfl <;> rcases hk with rfl | rfl <;>
      first | decide | (exact absurd rfl hkind)

/-- **witness**: all four hypotheses of `plan_binds_own_fields` hold together for the mixed shape, and the
    theorem yields: `p` its loaded value, the skipped `q` nothing, the absent `r` its default clause, the packed
    `u` its loaded value under the parameter name `u_`, `k` its loaded value, `**kwargs` both extra items. -/
theorem plan_binds_own_fields_witness :
    ∃ args b ex, mkPlan true mixShape mixCfg mixInputs = .ok args ∧ bindArgs mixShape.sig args = .ok (b, ex) ∧
      b.lookup "p" = some 1 ∧ b.lookup "q" = Option.none ∧ b.lookup "r" = some 30 ∧ b.lookup "u_" = some 8 ∧
      b.lookup "k" = some 4 ∧ ex = [("z", 9), ("p", 5)] := by
  obtain ⟨args, b, ex, h1, h2, h3, h4⟩ :=
    plan_binds_own_fields (s := mixShape) (c := mixCfg) (i := mixInputs) (by decide) (by decide) (by decide) mixRunOk
  refine ⟨args, b, ex, h1, h2, ?_, ?_, ?_, ?_, ?_, h4⟩
  · exact (h3 ⟨"p", "p", .posOnly⟩ (by simp [mixShape])).trans rfl
  · exact (h3 ⟨"q", "q", .posOrKw⟩ (by simp [mixShape])).trans rfl
  · exact (h3 ⟨"r", "r", .posOrKw⟩ (by simp [mixShape])).trans rfl
  · exact (h3 ⟨"u", "u_", .posOrKw⟩ (by simp [mixShape])).trans rfl
  · exact (h3 ⟨"k", "k", .kwOnly⟩ (by simp [mixShape])).trans rfl

/-- A required field is always passed and receives the loaded value. -/
theorem required_receives_loaded {s : Shape} {c : Cfg} {i : Inputs V} {p : Param} {f : Field} {v : V}
    (hcfg : wfCfg s c = true) (hf : s.field? p.fieldId = some f) (hreq : f.required = true)
    (hl : i.loaded f.id = some v) : expected s c i p = some v := by
  simp only [wfCfg, List.all_eq_true] at hcfg
  have hns : c.skipped.contains f.id = false := by
    have := hcfg f (List.mem_of_find?_eq_some hf)
    rw [hreq] at this
    simpa using this
  unfold expected
  rw [hf]
  simp only [hns, Bool.false_eq_true, if_false, isPacked_required hreq, Inputs.fieldVar, hl]

example : expected mixShape mixCfg mixInputs ⟨"k", "k", .kwOnly⟩ = some 4 :=
  required_receives_loaded (f := ⟨"k", true, .noDefault⟩) (by decide) rfl rfl rfl

/-- **The constructor is invoked exactly once on success and never when the
    load fails before it** — for every trail mode, every list of field
    outcomes, every constructor. -/
theorem constructor_once {V E R : Type} (fix : Bool) (trail : Trail) (missingErr : String → E)
    (s : Shape) (c : Cfg) (dflt : String → Option V) (extra : List (String × V))
    (construct : List (Arg V) → Option R) (frs : List (Field × FieldRes V E)) :
    (∀ r, (loadModel fix trail missingErr s c dflt extra construct frs).1 = .ok r →
      (loadModel fix trail missingErr s c dflt extra construct frs).2 = 1) ∧
    (∀ es, (loadModel fix trail missingErr s c dflt extra construct frs).1 = .loadError es →
      (loadModel fix trail missingErr s c dflt extra construct frs).2 = 0) ∧
    (loadModel fix trail missingErr s c dflt extra construct frs).2 ≤ 1 := by
  unfold loadModel
  cases extract trail missingErr s frs [] [] with
  | error es => simp
  | ok vals =>
    simp only []
    cases mkPlan fix s c { loaded := fun id => vals.lookup id, dflt := dflt, extra := extra } with
    | error e => simp
    | ok args =>
      simp only []
      cases construct args <;> simp

/-- a failing field never reaches the constructor, whatever the other fields do -/
theorem failed_field_no_call {V E R : Type} (fix : Bool) (trail : Trail) (missingErr : String → E)
    (s : Shape) (c : Cfg) (dflt : String → Option V) (extra : List (String × V))
    (construct : List (Arg V) → Option R) (pre post : List (Field × FieldRes V E)) (f : Field) (e : E) :
    (loadModel fix trail missingErr s c dflt extra construct (pre ++ (f, .failed e) :: post)).2 = 0 := by
  have key : ∀ (frs : List (Field × FieldRes V E)) (acc : List (String × V)) (errs : List E),
      (errs ≠ [] ∨ ∃ pre post f e, frs = pre ++ (f, FieldRes.failed e) :: post) →
      ∃ es, extract trail missingErr s frs acc errs = .error es := by
    intro frs
    induction frs with
    | nil =>
      intro acc errs h
      rcases h with h | ⟨pre, post, f, e, h⟩
      · refine ⟨errs, ?_⟩
        unfold extract
        cases errs with
        | nil => exact absurd rfl h
        | cons a t => rfl
      · cases pre <;> cases h
    | cons fr frs ih =>
      intro acc errs h
      obtain ⟨f0, r0⟩ := fr
      cases r0 with
      | loaded v =>
        unfold extract
        apply ih
        rcases h with h | ⟨pre, post, f, e, h⟩
        · exact Or.inl h
        · cases pre with
          | nil => cases h
          | cons a pre' => cases h; exact Or.inr ⟨pre', post, f, e, rfl⟩
      | absent =>
        unfold extract
        have hfrs : errs ≠ [] ∨ ∃ pre post f e, frs = pre ++ (f, FieldRes.failed e) :: post := by
          rcases h with h | ⟨pre, post, f, e, h⟩
          · exact Or.inl h
          · cases pre with
            | nil => cases h
            | cons a pre' => cases h; exact Or.inr ⟨pre', post, f, e, rfl⟩
        by_cases hreq : f0.required = true
        · simp only [hreq, if_true]
          cases trail with
          | all =>
            apply ih
            exact Or.inl (by simp)
          | disable => exact ⟨_, rfl⟩
          | first => exact ⟨_, rfl⟩
        · have : f0.required = false := by simpa using hreq
          simp only [this, Bool.false_eq_true, if_false]
          exact ih acc errs hfrs
      | failed e0 =>
        unfold extract
        cases trail with
        | all => apply ih; exact Or.inl (by simp)
        | disable => exact ⟨_, rfl⟩
        | first => exact ⟨_, rfl⟩
  obtain ⟨es, hes⟩ := key (pre ++ (f, .failed e) :: post) [] [] (Or.inr ⟨pre, post, f, e, rfl⟩)
  unfold loadModel
  rw [hes]

/-! ### what the constructor receives, and when it is reached (added by the audit)

    `constructor_once` holds by the construction of `loadModel` (the counter is written next to the call), and
    `plan_binds_own_fields` speaks about an abstract `Inputs`.  The three theorems below connect the two: the
    inputs of the one call are exactly the loaded values of the fields present in the input
    (`presentVals`, an independent one-line specification), the call is reached whenever no field failed and
    no required field is absent, and `RunOk.vars` follows from the extraction phase. -/

/-- **The constructor is called with exactly the loaded values of the fields present in the input**: a
    successful load means that nothing stopped the extraction and the constructor returned `r` on the argument
    list planned from `presentVals frs` — no value of an absent or failed field, no value twice. -/
theorem constructor_gets_present_values {V E R : Type} (fix : Bool) (trail : Trail) (missingErr : String → E)
    (s : Shape) (c : Cfg) (dflt : String → Option V) (extra : List (String × V))
    (construct : List (Arg V) → Option R) (frs : List (Field × FieldRes V E)) (r : R)
    (h : (loadModel fix trail missingErr s c dflt extra construct frs).1 = .ok r) :
    Extractable frs ∧
    ∃ args, mkPlan fix s c { loaded := fun id => (presentVals frs).lookup id, dflt := dflt, extra := extra } = .ok args ∧
      construct args = some r := by
  unfold loadModel at h
  cases he : extract trail missingErr s frs [] [] with
  | error es => simp [he] at h
  | ok vals =>
    obtain ⟨_, hx, rfl⟩ := (extract_ok_iff trail missingErr s frs [] [] vals).mp he
    simp only [he, List.nil_append] at h
    cases hp : mkPlan fix s c { loaded := fun id => (presentVals frs).lookup id, dflt := dflt, extra := extra } with
    | error e => simp [hp] at h
    | ok args =>
      simp only [hp] at h
      cases hc : construct args with
      | none => simp [hc] at h
      | some r' =>
        simp only [hc, LoadOutcome.ok.injEq] at h
        exact ⟨hx, args, rfl, h ▸ hc⟩

/-- **… and it is reached, exactly once, whenever nothing stops the extraction** (so `__post_init__` and
    validators run): the outcome is the constructor's own outcome on a call that Python binds without TypeError. -/
theorem constructor_reached {V E R : Type} [Inhabited V] (trail : Trail) (missingErr : String → E)
    {s : Shape} {c : Cfg} (dflt : String → Option V) (extra : List (String × V))
    (construct : List (Arg V) → Option R) (frs : List (Field × FieldRes V E))
    (hwf : wfShape s = true) (hcfg : wfCfg s c = true) (hinj : (s.params.map (·.fieldId)).Nodup)
    (hx : Extractable frs)
    (hrun : RunOk s c { loaded := fun id => (presentVals frs).lookup id, dflt := dflt, extra := extra }) :
    ∃ args b ex,
      mkPlan true s c { loaded := fun id => (presentVals frs).lookup id, dflt := dflt, extra := extra } = .ok args ∧
      bindArgs s.sig args = .ok (b, ex) ∧
      loadModel true trail missingErr s c dflt extra construct frs =
        (match construct args with | some r => .ok r | Option.none => .constructorRaised, 1) := by
  obtain ⟨args, b, ex, h1, h2, _, _⟩ := plan_binds_own_fields hwf hcfg hinj hrun
  refine ⟨args, b, ex, h1, h2, ?_⟩
  have he : extract trail missingErr s frs [] [] = .ok (presentVals frs) :=
    (extract_ok_iff trail missingErr s frs [] [] _).mpr ⟨rfl, hx, by simp⟩
  unfold loadModel
  simp only [he, h1]
  cases construct args <;> rfl


/-- **`RunOk.vars` is what a finished extraction phase establishes**: when every field of the shape went
    through the extraction (`frs` mentions it), nothing stopped it, and a default clause exists for every
    optional field that is passed by variable, then every such variable is assigned. -/
theorem runOk_vars_of_extraction {V E : Type} {s : Shape} {c : Cfg} (dflt : String → Option V) (extra : List (String × V))
    (frs : List (Field × FieldRes V E))
    (hall : ∀ f ∈ s.fields, ∃ res, (f, res) ∈ frs) (hx : Extractable frs)
    (hd : ∀ f ∈ s.fields, f.required = false → c.skipped.contains f.id = false → isPacked c f = false →
      (dflt f.id).isSome = true) :
    ∀ f ∈ s.fields, c.skipped.contains f.id = false → isPacked c f = false →
      ((Inputs.mk (fun id => (presentVals frs).lookup id) dflt extra).fieldVar f.id).isSome = true := by
  intro f hf hs hp
  obtain ⟨res, hres⟩ := hall f hf
  simp only [Inputs.fieldVar]
  cases res with
  | loaded v =>
    have := lookup_presentVals_isSome f v frs hres
    cases hl : (presentVals frs).lookup f.id with
    | none => simp [hl] at this
    | some w => rfl
  | absent =>
    have hreq := hx.2 f hres
    cases hl : (presentVals frs).lookup f.id with
    | none => exact hd f hf hreq hs hp
    | some w => rfl
  | failed e => exact absurd hres (hx.1 f e)


/-- witness: `p`, `k` loaded, the optional `r`, `q`, `u` absent; the constructor is reached in every trail mode
    with exactly `p = 1`, `k = 4` as loaded values (and `r`'s default clause) -/
example (trail : Trail) :
    (loadModel true trail (fun id => id) mixShape mixCfg mixInputs.dflt mixInputs.extra
      (fun args => some args.length)
      [(⟨"p", true, .noDefault⟩, .loaded 1), (⟨"q", false, .value⟩, .absent), (⟨"r", false, .value⟩, .absent),
       (⟨"u", false, .factoryWithSelf⟩, .absent), (⟨"k", true, .noDefault⟩, FieldRes.loaded 4)]) = (.ok 5, 1) := by
  cases trail <;> rfl

end CallPlan

/-! ### the defect of the code before `fixes/C08-skipped-param-keywords.patch`, stated and witnessed

    Full-strength statement (holds for `fix = true`, see `plan_binds_own_fields`;
    FALSE for `fix = false`):
      ∀ s c i, wfShape s → wfCfg s c → params bind distinct fields → RunOk s c i →
        ∃ args b ex, mkPlan false s c i = ok args ∧ bindArgs s.sig args = ok (b, ex) ∧
          ∀ p ∈ s.params, b.lookup p.name = expected s c i p                                   -/

/-- attrs-like model `A(a=0, b=Factory(takes_self=True), c=3)`: three
    positional-or-keyword parameters, the middle one packed. -/
def witnessShape : Shape :=
  { fields := [⟨"a", false, .value⟩, ⟨"b", false, .factoryWithSelf⟩, ⟨"c", false, .value⟩]
    params := [⟨"a", "a", .posOrKw⟩, ⟨"b", "b", .posOrKw⟩, ⟨"c", "c", .posOrKw⟩]
    kwargs := false }

def witnessCfg : Cfg := { skipped := [], useDefaultForOmitted := true, extraMove := .none }

/-- input `{}`: defaults 0 and 3 are passed for `a` and `c`, `b` is left to attrs -/
def witnessInputs : Inputs Nat :=
  { loaded := fun _ => Option.none
    dflt := fun id => if id == "a" then some 0 else if id == "c" then some 3 else Option.none
    extra := [] }

/-- input `{"b": 5}` -/
def witnessInputsB : Inputs Nat := { witnessInputs with loaded := fun id => if id == "b" then some 5 else Option.none }

/-- **Negation of the full-strength statement for the unrepaired generator**:
    on a well-formed shape the old call `constructor(f_a, f_c, **packed_fields)`
    binds `c`'s default to parameter `b` … -/
theorem unrepaired_binds_wrong_parameter :
    wfShape witnessShape = true ∧ wfCfg witnessShape witnessCfg = true ∧
    ∃ args b ex, mkPlan false witnessShape witnessCfg witnessInputs = .ok args ∧
      bindArgs witnessShape.sig args = .ok (b, ex) ∧
      b.lookup "b" = some 3 ∧ expected witnessShape witnessCfg witnessInputs ⟨"b", "b", .posOrKw⟩ = Option.none := by
  refine ⟨by decide, by decide, _, _, _, rfl, rfl, rfl, rfl⟩

/-- … and raises `TypeError: got multiple values for argument 'b'` when `b` is present. -/
theorem unrepaired_multiple_values :
    ∃ args, mkPlan false witnessShape witnessCfg witnessInputsB = .ok args ∧
      bindArgs witnessShape.sig args = .error (.multipleValues "b") :=
  ⟨_, rfl, rfl⟩

/-- What does hold for the code before the fix (`…_partial`): once the call is
    in keyword mode — a *skipped* field came earlier, or only keyword-only
    parameters remain — the emitted arguments are the same with and without
    the fix, so all-keyword models (TypedDict, pydantic, `kw_only` dataclasses)
    were never affected. -/
theorem unrepaired_kwmode_partial (s : Shape) (c : Cfg) (ps : List Param) (hs : Bool)
    (hmode : hs = true ∨ ∀ p ∈ ps, p.kind = .kwOnly)
    (hf : ∀ p ∈ ps, (s.field? p.fieldId).isSome = true) :
    genParams false s c hs ps = genParams true s c hs ps := by
  rw [genParams_kwMode false s c ps hs hmode hf, genParams_kwMode true s c ps hs hmode hf]

example := unrepaired_kwmode_partial witnessShape witnessCfg [⟨"a", "a", .kwOnly⟩, ⟨"b", "b", .kwOnly⟩] false
  (.inr (by simp)) (by decide)

/-! non-vacuity of Part 1: the repaired call for the witness, and a mixed layout -/
example :
    mkPlan true witnessShape witnessCfg witnessInputs = .ok [.pos 0, .kw "c" 3, .starStar []] := rfl
example :
    (bindArgs witnessShape.sig [Arg.pos 0, .kw "c" 3, .starStar [("b", 5)]]).toOption.map (·.1.lookup "b")
      = some (some 5) := rfl
example :
    let s : Shape :=
      { fields := [⟨"p", true, .noDefault⟩, ⟨"q", false, .value⟩, ⟨"r", false, .value⟩, ⟨"k", true, .noDefault⟩]
        params := [⟨"p", "p", .posOnly⟩, ⟨"q", "q", .posOrKw⟩, ⟨"r", "r", .posOrKw⟩, ⟨"k", "k", .kwOnly⟩]
        kwargs := true }
    let c : Cfg := { skipped := ["q"], useDefaultForOmitted := true, extraMove := .kwargs }
    let i : Inputs Nat :=
      { loaded := fun id => if id == "p" then some 1 else if id == "k" then some 4 else Option.none
        dflt := fun id => if id == "r" then some 30 else Option.none
        extra := [("z", 9)] }
    wfShape s = true ∧
    mkPlan true s c i = .ok [.pos 1, .kw "r" 30, .kw "k" 4, .starStar [("z", 9)]] := by
  exact ⟨by decide, rfl⟩

/-! ## Part 2 — defaults -/

/-- **default_true.**  For every value of the grammar, every fuel and every
    `sorted` oracle that returns a permutation: if the *translated*
    `get_literal_expr` returns a text, that text is the rendering of a Python
    expression whose value is equal to the default and of exactly the same
    type, recursively (`Same`).  (This is the theorem the equality lookup
    `BUILTIN_TO_NAME[obj]` of the code before commit 4e4157b violated.) -/
theorem default_true (so : SortOracle) (hso : ∀ xs ys, so xs = some ys → ys.Perm xs)
    (fuel : Nat) (v : Val) (t : Txt) (h : literalExprFuel so fuel v = .text t) :
    ∃ e : PyExpr, t = e.render ∧ Same (e.eval Generated.pyBuiltins) v := by
  have hg := get_literal_expr_sound hso fuel v
  unfold literalExprFuel at h
  generalize callFn theCtx so fuel "get_literal_expr" [PV.v v] = r at hg h
  cases r with
  | stuck m => cases h
  | exc c => cases h
  | ok p =>
    rcases hg p rfl with rfl | ⟨t', rfl, ht⟩
    · cases h
    · cases h
      exact ht

/-- a nested default: dict with str / int / tuple keys holding a list (with `True`, `None`), a set (rendered
    through the `sorted` oracle) and a frozenset -/
def nestedDefault : Val :=
  .dict [(.str "k", .list [.int 1, .bool true, .none]), (.int 0, .set [.int 2, .int 1]),
         (.tuple [.int 1], .frozenset [.str "s"])]

/-- the `sorted` oracle that leaves the order alone (a permutation) -/
def keepOrder : SortOracle := some

/-- **witness**: the nested default does get a literal, and the theorem applies to it -/
theorem default_true_witness :
    ∃ (t : Txt) (e : PyExpr), literalExpr keepOrder nestedDefault = .text t ∧ t = e.render ∧
      Same (e.eval Generated.pyBuiltins) nestedDefault := by
  have h : ∃ t, literalExpr keepOrder nestedDefault = .text t := ⟨_, rfl⟩
  obtain ⟨t, ht⟩ := h
  obtain ⟨e, he, hs⟩ := default_true keepOrder (fun xs ys h => by cases h; exact List.Perm.refl _)
    (fuelFor nestedDefault) nestedDefault t ht
  exact ⟨t, e, ht, he, hs⟩

/-- `Same` really is type-exact: values related by it have the same exact type … -/
theorem same_type_exact {a b : Val} (h : Same a b) : a.typeOf = b.typeOf := by
  cases h <;> rfl

/-- … in particular no builtin constant is `Same` as a look-alike that merely
    compares equal to it (`Decimal('1')`, `Fraction(0)`, `1+0j`, an `IntEnum` /
    `IntFlag` member), nor `True` as `1` or `1.0`. -/
theorem lookalike_not_same (b : Bool) (c : String) (i : Nat) (k : Option Int) (h : Bool) :
    ¬ Same (.bool b) (.opaque c i k h) ∧ ¬ Same (.bool b) (.int 1) ∧ ¬ Same (.int 1) (.float (.finite "0x1.0000000000000p+0")) := by
  refine ⟨?_, ?_, ?_⟩ <;> intro hs <;> cases hs

/-- **Objects outside the literal grammar are never inlined**: for a Decimal,
    Fraction, complex, enum member, function or user object — whatever builtin
    constant it compares equal to — `get_literal_expr` returns no text, for any
    fuel, so the default is passed by reference. -/
theorem opaque_never_inlined (so : SortOracle) (hso : ∀ xs ys, so xs = some ys → ys.Perm xs)
    (fuel : Nat) (c : String) (i : Nat) (k : Option Int) (h : Bool) (t : Txt) :
    literalExprFuel so fuel (.opaque c i k h) ≠ .text t := by
  intro ht
  obtain ⟨e, _, hs⟩ := default_true so hso fuel _ t ht
  generalize hev : e.eval Generated.pyBuiltins = x at hs
  cases hs with
  | «opaque» _ _ _ _ hc => exact hc (eval_not_opaque e hev)

/-- **literal_none_falls_back.**  When there is no literal the generated code
    refers to a namespace constant bound to the default itself: in every load
    the omitted field holds the very default object (same allocation, same
    value), and nothing is allocated or called. -/
theorem literal_none_falls_back (so : SortOracle) (v : Val) (h : literalExpr so v = .noLiteral)
    (bi : Builtins) (sem : FactorySem) (dflAlloc : Nat) (e? : Option PyExpr) (w : World) :
    defaultClause so (.value v) = some (.captured v) ∧
    evalClause bi sem dflAlloc e? (.captured v) w = ({ alloc := dflAlloc, val := v }, w) := by
  constructor
  · simp [defaultClause, h]
  · rfl

example := literal_none_falls_back keepOrder (.opaque "Decimal" 7 (some 1) true) rfl Generated.pyBuiltins
  (fun v => v) 42 Option.none ⟨100, []⟩

/-- with a literal, every load evaluates it afresh to a `Same` value -/
theorem inline_default_true (so : SortOracle) (hso : ∀ xs ys, so xs = some ys → ys.Perm xs)
    (v : Val) (t : Txt) (h : defaultClause so (.value v) = some (.inline t)) :
    ∃ e : PyExpr, t = e.render ∧
      ∀ (sem : FactorySem) (a : Nat) (w : World),
        let r := evalClause Generated.pyBuiltins sem a (some e) (.inline t) w
        Same r.1.val v ∧ r.1.alloc = w.next ∧ r.2.next = w.next + 1 := by
  cases hl : literalExpr so v with
  | text t' =>
    simp only [defaultClause, hl, Option.some.injEq, Clause.inline.injEq] at h
    subst h
    obtain ⟨e, rfl, hs⟩ := default_true so hso (fuelFor v) v _ hl
    exact ⟨e, rfl, fun _ _ _ => ⟨hs, rfl, rfl⟩⟩
  | noLiteral => simp [defaultClause, hl] at h
  | raised c => simp [defaultClause, hl] at h
  | stuck m => simp [defaultClause, hl] at h

theorem inline_default_true_witness :
    ∃ t, defaultClause keepOrder (.value (.tuple [.int 1, .bool false])) = some (.inline t) ∧
      ∃ e : PyExpr, t = e.render ∧ Same (e.eval Generated.pyBuiltins) (.tuple [.int 1, .bool false]) := by
  have h : ∃ t, defaultClause keepOrder (.value (.tuple [.int 1, .bool false])) = some (.inline t) :=
    ⟨_, rfl⟩
  obtain ⟨t, ht⟩ := h
  obtain ⟨e, he, hs⟩ := inline_default_true keepOrder
    (fun xs ys h => by cases h; exact List.Perm.refl _) _ t ht
  exact ⟨t, ht, e, he, (hs (fun v => v) 0 ⟨5, []⟩).1⟩

/-- **factory literal.**  A default factory is replaced by a literal only when
    the literal is exactly what calling the factory returns. -/
theorem factory_literal_true (so : SortOracle) (f : Val) (t : Txt)
    (h : defaultClause so (.factory f) = some (.inline t)) :
    ∃ (e : PyExpr) (v : Val), t = e.render ∧ callFactory f = some v ∧ Same (e.eval Generated.pyBuiltins) v := by
  cases hl : literalFromFactory f with
  | text t' =>
    simp only [defaultClause, hl, Option.some.injEq, Clause.inline.injEq] at h
    subst h
    unfold literalFromFactory at hl
    generalize hr : callFn theCtx (fun _ => Option.none) 2 "get_literal_from_factory" [PV.v f] = r at hl
    cases r with
    | stuck m => cases hl
    | exc c => cases hl
    | ok p =>
      cases p with
      | txt t'' =>
        cases hl
        exact literal_from_factory_sound _ 2 f _ hr
      | v x => cases x <;> cases hl
      | seq xs => cases hl
      | fn n => cases hl
      | glob n => cases hl
  | noLiteral => simp [defaultClause, hl] at h
  | raised c => simp [defaultClause, hl] at h
  | stuck m => simp [defaultClause, hl] at h

example : ∃ (e : PyExpr) (v : Val), lit ['[', ']'] = e.render ∧ callFactory (.builtin "list") = some v ∧
    Same (e.eval Generated.pyBuiltins) v :=
  factory_literal_true keepOrder (.builtin "list") _ rfl

/-- **factory_fresh.**  For a default that is not a captured constant (an inline
    literal or a factory call), `n` successive loads yield `n` objects with
    pairwise different, brand-new allocation ids … -/
theorem factory_fresh (bi : Builtins) (sem : FactorySem) (a : Nat) (e? : Option PyExpr) (c : Clause)
    (hc : ∀ v, c ≠ .captured v) (n : Nat) (w : World) :
    ((loadsOmitted bi sem a e? c n w).1.map (·.alloc)) = List.range' w.next n ∧
    (loadsOmitted bi sem a e? c n w).2.next = w.next + n := by
  induction n generalizing w with
  | zero => exact ⟨rfl, rfl⟩
  | succ n ih =>
    unfold loadsOmitted
    cases c with
    | captured v => exact absurd rfl (hc v)
    | inline t =>
      cases e? with
      | none =>
        obtain ⟨h1, h2⟩ := ih { w with next := w.next + 1 }
        simp only [evalClause] at h1 h2 ⊢
        refine ⟨?_, ?_⟩
        · rw [List.map_cons, h1]; rfl
        · rw [h2]; omega
      | some e =>
        obtain ⟨h1, h2⟩ := ih { w with next := w.next + 1 }
        simp only [evalClause] at h1 h2 ⊢
        refine ⟨?_, ?_⟩
        · rw [List.map_cons, h1]; rfl
        · rw [h2]; omega
    | callCaptured f =>
      obtain ⟨h1, h2⟩ := ih { next := w.next + 1, factoryCalls := w.factoryCalls ++ [a] }
      simp only [evalClause] at h1 h2 ⊢
      refine ⟨?_, ?_⟩
      · rw [List.map_cons, h1]; rfl
      · rw [h2]; omega

example : ((loadsOmitted Generated.pyBuiltins (fun _ => .set []) 9 Option.none (.callCaptured (.builtin "set")) 3
    ⟨100, []⟩).1.map (·.alloc)) = [100, 101, 102] :=
  (factory_fresh _ _ 9 Option.none (.callCaptured (.builtin "set")) (fun v h => by cases h) 3 ⟨100, []⟩).1

/-- … no two loads share the object … -/
theorem factory_fresh_distinct (bi : Builtins) (sem : FactorySem) (a : Nat) (e? : Option PyExpr) (c : Clause)
    (hc : ∀ v, c ≠ .captured v) (n : Nat) (w : World) :
    ((loadsOmitted bi sem a e? c n w).1.map (·.alloc)).Nodup := by
  rw [(factory_fresh bi sem a e? c hc n w).1]
  exact List.nodup_range'

/-- … and a captured factory is called exactly once per load. -/
theorem factory_called_once_per_load (bi : Builtins) (sem : FactorySem) (a : Nat) (e? : Option PyExpr) (f : Val)
    (n : Nat) (w : World) :
    (loadsOmitted bi sem a e? (.callCaptured f) n w).2.factoryCalls = w.factoryCalls ++ List.replicate n a := by
  induction n generalizing w with
  | zero => simp [loadsOmitted]
  | succ n ih =>
    unfold loadsOmitted
    simp only [evalClause]
    rw [ih]
    simp [List.replicate_succ]

/-- namespace constants (`compile_closure_with_globals_capturing`): rebuilt
    from a literal only when the literal is faithful, else passed by reference. -/
theorem ns_constant_true (so : SortOracle) (hso : ∀ xs ys, so xs = some ys → ys.Perm xs) (v : Val) :
    (∀ t, nsConstant so v = some (.literal t) → ∃ e : PyExpr, t = e.render ∧ Same (e.eval Generated.pyBuiltins) v) ∧
    (∀ v', nsConstant so v = some (.byRef v') → v' = v) := by
  cases hl : literalExpr so v with
  | text t' =>
    simp only [nsConstant, hl, Option.some.injEq, NsBinding.literal.injEq]
    refine ⟨fun t h => ?_, fun v' h => by cases h⟩
    subst h
    exact default_true so hso (fuelFor v) v _ hl
  | noLiteral =>
    simp only [nsConstant, hl, Option.some.injEq, NsBinding.byRef.injEq]
    refine ⟨?_, ?_⟩
    · intro t h; cases h
    · intro v' h; exact h.symm
  | raised c => simp [nsConstant, hl]
  | stuck m => simp [nsConstant, hl]

/-! non-vacuity of Part 2 (the defaults of DESIGN §5 items 1–2) -/
section
def idSort : SortOracle := some

-- `True` is inlined by name, `Decimal('1')` / an IntEnum member equal to 1 is not
example : literalExpr idSort (.bool true) = .text (lit ['T', 'r', 'u', 'e']) := rfl
example : literalExpr idSort (.opaque "Decimal" 7 (some 1) true) = .noLiteral := rfl
example : literalExpr idSort (.opaque "Color" 8 (some 0) true) = .noLiteral := rfl
-- (1,) keeps its comma; (1) would be `PyExpr.paren`, which evaluates to 1
example : literalExpr idSort (.tuple [.int 1]) =
    .text (PyExpr.render (.tuple [.atom (.int 1)])) := rfl
example : (PyExpr.paren (.atom (.int 1))).eval Generated.pyBuiltins = .int 1 := rfl
-- slice / range arguments in (start, stop, step) order
example : literalExpr idSort (.slice (.int 1) (.int 2) (.int 3)) =
    .text (PyExpr.render (.call ['s', 'l', 'i', 'c', 'e'] [.atom (.int 1), .atom (.int 2), .atom (.int 3)])) := rfl
example : (PyExpr.call ['r', 'a', 'n', 'g', 'e'] [.atom (.int 1), .atom (.int 2), .atom (.int 3)]).eval
    Generated.pyBuiltins = .range 1 2 3 := rfl
-- nan is never inlined, nor a container holding it
example : literalExpr idSort (.list [.float .nan]) = .noLiteral := rfl
example : literalFromFactory (.builtin "list") = .text (lit ['[', ']']) := rfl
example : literalFromFactory (.builtin "set") = .noLiteral := rfl
end

end Adaptix.C08
