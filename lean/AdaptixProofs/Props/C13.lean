/-
  C13 — A generated converter equals the field-wise construction the linking rules fix.
  Property theorems only; helper lemmas live in `AdaptixProofs/Lemmas/Conv*.lean`.

  Reading guide.  `mkCoercer` / `provideConverter` are the model of the generator
  (linking → broaching plan → constructor call plan), `applyCoercer` /
  `Converter.call` run the generated code (plan evaluation, ctx tuple, Python
  argument binding).  `coerceSpec` / `convertSpec` are the specification: a direct
  recursive reading of the documented linking algorithm — for every destination
  field, in order, the value of its linked source (extra parameters looked up
  *by name*), coerced recursively, else the default.  Predicates are arbitrary
  functions of the location stack, `World` is an arbitrary class table, values
  and fuel are unbounded.
-/
import AdaptixModel.Conv.Convert
import AdaptixProofs.Lemmas.ConvMain
import AdaptixProofs.Lemmas.ConvRefuse
import AdaptixProofs.Lemmas.ConvFacade
import AdaptixProofs.Lemmas.ConvGeneric
import AdaptixProofs.Lemmas.ConvPosition

set_option linter.unusedSimpArgs false

namespace Adaptix.Conv13.C13

open Adaptix.Conv13

/-! ### the converter computes the specification -/

/-- **Every coercer the generator produces computes the documented conversion.**
    For every class table with well-formed shapes, recipe, extra parameters
    with distinct names, fuel, pair of locations: if a coercer is produced then
    for every source value and all extra arguments (passed positionally packed
    in the ctx value) its result is `coerceSpec` with the extra arguments
    looked up by name — nested models, Optional, iterables and dicts included. -/
theorem convert_eq_spec (W : World) (hW : W.WF) (recipe : List Provider) (params : List CtxParam)
    (ctxVals : List Val) (hlen : ctxVals.length = params.length) (hnd : (params.map (·.name)).Nodup)
    (n : Nat) (src dst : LocStack) (c : Coercer) (h : mkCoercer W recipe params n src dst = some c) (v : Val) :
    applyCoercer c v (packCtx ctxVals) = coerceSpec W recipe params (pvalsOf params ctxVals) n src dst v :=
  mkCoercer_correct W hW recipe params ctxVals hlen hnd n src dst c h v

/-- **Calling the produced function.**  Whatever way the arguments are passed
    (positionally, by keyword, left to their defaults), if they bind to the
    signature then the produced converter returns `convertSpec` of the bound
    values: the first parameter converted to the return type, every further
    parameter available under its name. -/
theorem call_eq_spec (W : World) (hW : W.WF) (recipe : List Provider) (fuel : Nat) (sig : Signature)
    (hnd : (sig.params.map (·.name)).Nodup) (conv : Converter)
    (h : provideConverter W recipe fuel sig = some conv)
    (args : List Val) (kwargs : List (Name × Val)) (vals : List Val)
    (hb : bindSig sig.params args kwargs = some vals) :
    conv.call args kwargs = convertSpec W recipe fuel sig vals := by
  simp only [provideConverter] at h
  cases hp : sig.params with
  | nil => simp [hp] at h
  | cons first extra =>
    simp only [hp] at h
    split at h
    · cases h
    · simp only [Option.map_eq_some_iff] at h
      obtain ⟨c, hc, rfl⟩ := h
      have hlen : vals.length = (first :: extra).length := by
        simp only [bindSig] at hb
        split at hb
        · cases hb
        · split at hb
          · cases hb
          · rw [hp] at hb
            exact fillDefaults_length _ _ _ hb
      cases vals with
      | nil => simp at hlen
      | cons v rest =>
        have hl : rest.length = (extra.map SigParam.ctx).length := by simpa using hlen
        have hnd' : ((extra.map SigParam.ctx).map (·.name)).Nodup := by
          rw [hp, List.map_cons, List.nodup_cons] at hnd
          simpa [SigParam.ctx, Function.comp_def] using hnd.2
        have := mkCoercer_correct W hW recipe (extra.map SigParam.ctx) rest hl hnd' fuel _ _ c hc v
        rw [hp] at hb
        simp only [Converter.call, hp, hb, convertSpec, this]
        simp [pvalsOf, SigParam.ctx, Function.comp_def]

/-- **impl_converter preserves the stub's signature**: the produced function
    carries exactly the signature it was requested for. -/
theorem signature_preserved (W : World) (recipe : List Provider) (fuel : Nat) (sig : Signature) (conv : Converter)
    (h : provideConverter W recipe fuel sig = some conv) : conv.signature = sig := by
  simp only [provideConverter] at h
  split at h
  · cases h
  · split at h
    · cases h
    · simp only [Option.map_eq_some_iff] at h
      obtain ⟨c, _, rfl⟩ := h
      rfl

/-! ### Optional: the guard is the test for `None`, nothing else -/

/-- **Specification side.**  For a pair `Optional[a] -> Optional[b]` (no user coercer registered for the
    pair itself, the two union types are not models) the documented conversion is: `None` stays `None`, and
    **every other value** — whatever Python's `bool()` says about it: `0`, `0.0`, `""`, `False`, `Decimal(0)`,
    an empty list / dict, a model without fields, a model defining `__bool__` / `__len__` — is converted by the
    conversion of the wrapped pair `a -> b`. -/
theorem optional_spec_none_test (W : World) (recipe : List Provider) (params : List CtxParam)
    (pvals : List (Name × Val)) (n : Nat) (sl dl : Loc) (srest drest : LocStack) (a b : Ty)
    (hs : sl.ty = .opt a) (hd : dl.ty = .opt b)
    (hu : userCoercer recipe (sl :: srest) (dl :: drest) = none)
    (hsh : W.inShape dl.ty = none ∨ W.outShape sl.ty = none) :
    coerceSpec W recipe params pvals (n + 1) (sl :: srest) (dl :: drest) .none = some .none ∧
    ∀ v, v ≠ .none →
      coerceSpec W recipe params pvals (n + 1) (sl :: srest) (dl :: drest) v =
        coerceSpec W recipe params pvals n (gpLoc a 0 :: sl :: srest) (gpLoc b 0 :: dl :: drest) v := by
  rw [hs, hd] at hsh
  constructor
  · simp only [coerceSpec, hu, hs, hd]
    rcases hsh with h | h
    · simp [h]
    · cases hin : W.inShape (.opt b) <;> simp [h]
  · intro v hv
    simp only [coerceSpec, hu, hs, hd]
    rcases hsh with h | h
    · cases v <;> simp_all
    · cases hin : W.inShape (.opt b) <;> cases v <;> simp_all

/-- **Generated code.**  Whatever closure the generator returns for an `Optional[a] -> Optional[b]` pair
    (`optional_coercer` around the inner coercer, or the as-is stub when the inner coercer is as-is), it maps
    `None` to `None` and sends **every value other than `None`** — the falsy ones included — through the
    documented conversion of the wrapped pair.  A guard by truth value (`data and coercer(data)`) would
    violate the second part for `0`, `""`, `[]`, a field-less model, … -/
theorem optional_converter_none_test (W : World) (hW : W.WF) (recipe : List Provider) (params : List CtxParam)
    (ctxVals : List Val) (hlen : ctxVals.length = params.length) (hnd : (params.map (·.name)).Nodup)
    (n : Nat) (sl dl : Loc) (srest drest : LocStack) (a b : Ty)
    (hs : sl.ty = .opt a) (hd : dl.ty = .opt b)
    (hu : userCoercer recipe (sl :: srest) (dl :: drest) = none)
    (hsh : W.inShape dl.ty = none ∨ W.outShape sl.ty = none)
    (c : Coercer) (h : mkCoercer W recipe params (n + 1) (sl :: srest) (dl :: drest) = some c) :
    applyCoercer c .none (packCtx ctxVals) = some .none ∧
    ∀ v, v ≠ .none →
      applyCoercer c v (packCtx ctxVals) =
        coerceSpec W recipe params (pvalsOf params ctxVals) n (gpLoc a 0 :: sl :: srest) (gpLoc b 0 :: dl :: drest) v := by
  have hspec := optional_spec_none_test W recipe params (pvalsOf params ctxVals) n sl dl srest drest a b hs hd hu hsh
  have hc := convert_eq_spec W hW recipe params ctxVals hlen hnd (n + 1) (sl :: srest) (dl :: drest) c h
  exact ⟨by rw [hc]; exact hspec.1, fun v hv => by rw [hc]; exact hspec.2 v hv⟩

/-- the same for the other structural coercers: an **empty** sequence is not handed over as it is, the
    destination's factory builds a new (empty) container — `[]` for `List[a] -> Tuple[b, ...]` becomes `()` -/
theorem empty_iterable_rebuilt (W : World) (recipe : List Provider) (params : List CtxParam)
    (pvals : List (Name × Val)) (n : Nat) (sl dl : Loc) (srest drest : LocStack) (o₁ o : IterOrigin) (a b : Ty)
    (k : IterOrigin) (hs : sl.ty = .iter o₁ a) (hd : dl.ty = .iter o b)
    (hu : userCoercer recipe (sl :: srest) (dl :: drest) = none)
    (hsh : W.inShape dl.ty = none ∨ W.outShape sl.ty = none) :
    coerceSpec W recipe params pvals (n + 1) (sl :: srest) (dl :: drest) (.seq k []) = some (.seq o.factory []) := by
  rw [hs, hd] at hsh
  simp only [coerceSpec, hu, hs, hd]
  rcases hsh with h | h
  · simp [h]
  · cases hin : W.inShape (.iter o b) <;> simp [h]

/-! ### which source a field is linked to -/

/-- **Recipe order decides.**  If every provider before `p` declines the
    request and `p` answers, the linking is `p`'s answer — whatever follows. -/
theorem first_link_wins (pre post : List Provider) (p : Provider) (req : LinkReq) (l : Linking)
    (hpre : ∀ q ∈ pre, q.provideLinking req = .decline) (hp : p.provideLinking req = .ok l) :
    linkOf (pre ++ p :: post) req = some l := by
  induction pre with
  | nil => simp [linkOf, hp]
  | cons q pre ih =>
    have hq := hpre q (by simp)
    simp [linkOf, hq, ih (fun q' hq' => hpre q' (by simp [hq']))]

/-- a `link_function` whose destination matches but whose parameters cannot be
    linked stops the search: later providers and the default are not asked -/
theorem terminal_link_stops (pre post : List Provider) (p : Provider) (req : LinkReq)
    (hpre : ∀ q ∈ pre, q.provideLinking req = .decline) (hp : p.provideLinking req = .terminal) :
    linkOf (pre ++ p :: post) req = none := by
  induction pre with
  | nil => simp [linkOf, hp]
  | cons q pre ih =>
    have hq := hpre q (by simp)
    simp [linkOf, hq, ih (fun q' hq' => hpre q' (by simp [hq']))]

/-- without an answering provider the builtin same-name linking applies -/
theorem default_when_all_decline (recipe : List Provider) (req : LinkReq)
    (h : ∀ q ∈ recipe, q.provideLinking req = .decline) : linkOf recipe req = defaultLinking req := by
  induction recipe with
  | nil => simp [linkOf]
  | cons q rest ih =>
    simp [linkOf, h q (by simp), ih (fun q' hq' => h q' (by simp [hq']))]

/-- `link(src, dst)` answers with the first candidate its source predicate
    accepts: the fields of the source model in definition order, then the
    extra parameters from right to left (the order of the code). -/
theorem explicit_link_candidates (src dst : Pred) (co : Option Nat) (req : LinkReq) (hdst : dst req.dst = true) :
    (Provider.link src dst co).provideLinking req =
      match (fieldSources req.sources ++ paramSourcesRev req.params).find? (fun s => src (s.stack req)) with
      | some s => .ok (.field s co)
      | none => .decline := by
  cases hfind : (fieldSources req.sources ++ paramSourcesRev req.params).find? (fun s => src (s.stack req)) <;>
    simp [Provider.provideLinking, hdst, matchingCandidates, hfind]

/-- **Top level: a same-named extra parameter wins over the source field,
    rightmost first.**  For a destination field of the top-level model
    (destination stack of length 2) the default linking is the rightmost extra
    parameter carrying the field's name — whatever the source model has. -/
theorem param_over_field_top_level (req : LinkReq) (before after : List CtxParam) (p : CtxParam)
    (hparams : req.params = before ++ p :: after) (htop : req.dst.length = 2)
    (hname : p.name = req.targetId) (hright : ∀ q ∈ after, q.name ≠ req.targetId) :
    defaultLinking req = some (.field (.param before.length p) none) := by
  have hfind := find_paramSourcesRev (fun s => s.fieldId == req.targetId) before after p
    (by simp [Source.fieldId, hname]) (fun q hq i => by simp [Source.fieldId, hright q hq])
  simp [defaultLinking, defaultCandidates, htop, hparams, List.find?_append, hfind]

/-- **Nested fields: extra parameters are not looked at.**  For a destination
    field that is not at the top level the default linking is the same-named
    field of the source model, whatever the extra parameters are. -/
theorem nested_ignores_params (req : LinkReq) (hnested : req.dst.length ≠ 2) :
    defaultLinking req =
      (req.sources.find? (fun f => f.id == req.targetId)).map (fun f => Linking.field (.field f) none) := by
  have h2 : (req.dst.length == 2) = false := by simp [hnested]
  simp only [defaultLinking, defaultCandidates, h2, fieldSources]
  simp [List.find?_map, Function.comp_def, Source.fieldId]

/-- **…and only there.**  With both a (rightmost) extra parameter `p` and a
    source field named like the destination field, the default linking picks the
    parameter exactly when the field belongs to the top-level destination model
    (destination stack of length 2), and the source field at every other depth. -/
theorem param_over_field_top_level_only (req : LinkReq) (before after : List CtxParam) (p : CtxParam)
    (hparams : req.params = before ++ p :: after)
    (hname : p.name = req.targetId) (hright : ∀ q ∈ after, q.name ≠ req.targetId)
    (f : OutField) (hf : req.sources.find? (fun f => f.id == req.targetId) = some f) :
    defaultLinking req =
      if req.dst.length = 2 then some (.field (.param before.length p) none)
      else some (.field (.field f) none) := by
  by_cases htop : req.dst.length = 2
  · simp only [htop, if_true]
    exact param_over_field_top_level req before after p hparams htop hname hright
  · simp only [htop, if_false]
    rw [nested_ignores_params req htop, hf]
    rfl

/-- top level without a same-named extra parameter: the same-named source field -/
theorem field_when_no_param (req : LinkReq) (hno : ∀ q ∈ req.params, q.name ≠ req.targetId) :
    defaultLinking req =
      (req.sources.find? (fun f => f.id == req.targetId)).map (fun f => Linking.field (.field f) none) := by
  have hnone := find_paramSourcesRev_none (fun s => s.fieldId == req.targetId) req.params
    (fun q hq i => by simp [Source.fieldId, hno q hq])
  simp only [defaultLinking, defaultCandidates, fieldSources]
  split
  · rw [List.find?_append, hnone]
    simp [List.find?_map, Function.comp_def, Source.fieldId]
  · simp [List.find?_map, Function.comp_def, Source.fieldId]

/-- **from_param reaches any level.**  `link(from_param(name), dst)` links the
    (rightmost) extra parameter of that name at *every* depth of the
    destination: no condition on the destination stack other than `dst`
    accepting it, and never a field of the source model. -/
theorem from_param_any_level (name : Name) (dst : Pred) (co : Option Nat) (req : LinkReq)
    (before after : List CtxParam) (p : CtxParam) (hparams : req.params = before ++ p :: after)
    (hdst : dst req.dst = true) (hsrc : req.srcStack ≠ [])
    (hname : p.name = name) (hright : ∀ q ∈ after, q.name ≠ name) :
    (Provider.link (Pred.fromParam name) dst co).provideLinking req = .ok (.field (.param before.length p) co) := by
  have hfields : (fieldSources req.sources).find? (fun s => Pred.fromParam name (s.stack req)) = none := by
    rw [List.find?_eq_none]
    intro s hs
    simp only [fieldSources, List.mem_map] at hs
    obtain ⟨f, _, rfl⟩ := hs
    cases hst : req.srcStack with
    | nil => exact absurd hst hsrc
    | cons l rest => simp [Source.stack, hst, Pred.fromParam]
  have hfind := find_paramSourcesRev (fun s => Pred.fromParam name (s.stack req)) before after p
    (by simp [Source.stack, Pred.fromParam, CtxParam.loc, hname])
    (fun q hq i => by simp [Source.stack, Pred.fromParam, CtxParam.loc, hright q hq])
  simp [Provider.provideLinking, hdst, matchingCandidates, List.find?_append, hfields, hparams, hfind]

/-- **Extra source fields are ignored.**  Adding to the source model a field
    that no source predicate of the recipe accepts, that no linked function
    takes as keyword-only parameter and that is not named like the destination
    field changes no linking — hence (by `convert_eq_spec`, whose specification
    reads only linked sources) no converter result. -/
theorem extra_src_ignored (recipe : List Provider) (req : LinkReq) (a b : List OutField) (e : OutField)
    (hsrc : req.sources = a ++ b) (hname : e.id ≠ req.targetId)
    (hrecipe : ∀ p ∈ recipe, p.ignoresField req e) :
    linkOf recipe (req.withExtra a b e) = linkOf recipe req :=
  linkOf_withExtra req a b e hsrc hname recipe hrecipe

/-- **Extra source fields are ignored — the converted object is the same** (value level).  For a pair of
    models handled by the model coercer, the documented result with the source shape `a ++ e :: b` equals the
    one with the shape `a ++ b`, for every source value and whatever the nested conversion `rec` is, as soon
    as `e` is named like no destination field and no provider of the recipe can pick it.  (`coerceSpec_model`
    identifies `specModel (coerceSpec … n) … ss.fields` with `coerceSpec … (n+1)` on a model pair; by
    `convert_eq_spec` that is what every produced converter returns.) -/
theorem extra_src_ignored_value (rec : SpecFn) (recipe : List Provider) (params : List CtxParam)
    (pvals : List (Name × Val)) (src dst : LocStack) (ds : InShape) (a b : List OutField) (e : OutField)
    (hfields : ∀ f ∈ ds.fields, e.id ≠ f.id ∧ ∀ p ∈ recipe,
      p.ignoresField { srcStack := src, sources := a ++ b, params := params, dst := f.loc :: dst } e)
    (v : Val) :
    specModel rec recipe params pvals src dst ds (a ++ e :: b) v =
      specModel rec recipe params pvals src dst ds (a ++ b) v :=
  specModel_extra_ignored rec recipe params pvals src dst ds a b e hfields v

/-- the model case of the specification *is* `specModel` of the nested specification -/
theorem spec_model_case (W : World) (recipe : List Provider) (params : List CtxParam) (pvals : List (Name × Val))
    (n : Nat) (sl dl : Loc) (srest drest : LocStack) (ds : InShape) (ss : OutShape)
    (hu : userCoercer recipe (sl :: srest) (dl :: drest) = none)
    (hin : W.inShape dl.ty = some ds) (hout : W.outShape sl.ty = some ss) (v : Val) :
    coerceSpec W recipe params pvals (n + 1) (sl :: srest) (dl :: drest) v =
      specModel (coerceSpec W recipe params pvals n) recipe params pvals (sl :: srest) (dl :: drest) ds ss.fields v :=
  coerceSpec_model W recipe params pvals n sl dl srest drest ds ss hu hin hout v

/-- an unlinked *required* field means no converter -/
theorem unlinked_required_fails (recipe : List Provider) (req : LinkReq) (f : InField)
    (hl : linkOf recipe req = none) (hr : f.required = true) : fetchFieldLinking recipe req f = .failed := by
  simp [fetchFieldLinking, hl, hr]

/-- an unlinked optional field is skipped exactly when the first policy provider
    accepting its location allows it; without one the builtin policy forbids -/
theorem unlinked_optional_policy (recipe : List Provider) (req : LinkReq) (f : InField)
    (hl : linkOf recipe req = none) (hr : f.required = false) :
    fetchFieldLinking recipe req f = if policyAllowed recipe req.dst then .skipped else .failed := by
  simp [fetchFieldLinking, hl, hr]

theorem policy_default_forbids (dst : LocStack) : policyAllowed [] dst = false := rfl

/-- **An unlinked field means no coercer — at any depth.**  If some field of the destination model has no
    linking (`linkOf … = none`: no provider of the recipe answers and there is no same-named source) and it
    is required, or optional while the policy does not allow skipping it, then no coercer is produced for the
    pair of models — whatever the other fields are (`unlinked_required_fails` / `unlinked_optional_policy`
    only say what `fetch_field_linking` answers for that one field). -/
theorem unlinked_no_coercer (W : World) (recipe : List Provider) (params : List CtxParam) (n : Nat)
    (sl dl : Loc) (srest drest : LocStack) (ds : InShape) (ss : OutShape)
    (hu : userCoercer recipe (sl :: srest) (dl :: drest) = none)
    (hin : W.inShape dl.ty = some ds) (hout : W.outShape sl.ty = some ss)
    (f : InField) (hf : f ∈ ds.fields)
    (hl : linkOf recipe
      { srcStack := sl :: srest, sources := ss.fields, params := params, dst := f.loc :: dl :: drest } = none)
    (hforbid : f.required = true ∨ policyAllowed recipe (f.loc :: dl :: drest) = false) :
    mkCoercer W recipe params (n + 1) (sl :: srest) (dl :: drest) = none := by
  apply mkCoercer_none_of_failed W recipe params n sl dl srest drest ds ss hu hin hout f hf
  rcases hforbid with h | h
  · simp [fetchFieldLinking, hl, h]
  · cases hr : f.required <;> simp [fetchFieldLinking, hl, h, hr]

/-- … hence no converter: `get_converter` / `impl_converter` fail (ProviderNotFoundError) for a signature
    whose return model has such a field. -/
theorem unlinked_no_converter (W : World) (recipe : List Provider) (fuel : Nat) (sig : Signature)
    (first : SigParam) (extra : List SigParam) (hp : sig.params = first :: extra)
    (ds : InShape) (ss : OutShape)
    (hu : userCoercer recipe [{ kind := .field, ty := first.ty, fieldId := first.name }]
      [{ kind := .typeHint, ty := sig.ret }] = none)
    (hin : W.inShape sig.ret = some ds) (hout : W.outShape first.ty = some ss)
    (f : InField) (hf : f ∈ ds.fields)
    (hl : linkOf recipe
      { srcStack := [{ kind := .field, ty := first.ty, fieldId := first.name }], sources := ss.fields,
        params := extra.map SigParam.ctx, dst := [f.loc, { kind := .typeHint, ty := sig.ret }] } = none)
    (hforbid : f.required = true ∨
      policyAllowed recipe [f.loc, { kind := .typeHint, ty := sig.ret }] = false) :
    provideConverter W recipe (fuel + 1) sig = none := by
  have := unlinked_no_coercer W recipe (extra.map SigParam.ctx) fuel
    { kind := .field, ty := first.ty, fieldId := first.name } { kind := .typeHint, ty := sig.ret } [] [] ds ss
    hu hin hout f hf hl hforbid
  simp only [provideConverter, hp]
  split
  · rfl
  · simp [this]

/-! ### the fuel is immaterial -/

/-- **More fuel, same coercer.**  The fuel only bounds the nesting the generator model explores: once a
    coercer is produced, every larger fuel produces the same one. -/
theorem fuel_irrelevant (W : World) (recipe : List Provider) (params : List CtxParam) (n : Nat)
    (src dst : LocStack) (c : Coercer) (h : mkCoercer W recipe params n src dst = some c) (m : Nat) (hm : n ≤ m) :
    mkCoercer W recipe params m src dst = some c :=
  mkCoercer_mono_le W recipe params n src dst c h m hm

/-- … and the specification `convert_eq_spec` compares with does not depend on the fuel it is read at:
    wherever a coercer exists, `coerceSpec` has the same value (defined or not) for every larger fuel. -/
theorem spec_fuel_irrelevant (W : World) (hW : W.WF) (recipe : List Provider) (params : List CtxParam)
    (ctxVals : List Val) (hlen : ctxVals.length = params.length) (hnd : (params.map (·.name)).Nodup)
    (n : Nat) (src dst : LocStack) (c : Coercer) (h : mkCoercer W recipe params n src dst = some c)
    (m : Nat) (hm : n ≤ m) (v : Val) :
    coerceSpec W recipe params (pvalsOf params ctxVals) m src dst v =
      coerceSpec W recipe params (pvalsOf params ctxVals) n src dst v := by
  rw [← convert_eq_spec W hW recipe params ctxVals hlen hnd n src dst c h v,
    ← convert_eq_spec W hW recipe params ctxVals hlen hnd m src dst c (fuel_irrelevant W recipe params n src dst c h m hm) v]

/-! ### the generated code does not write -/

/-- **The source object is left unmodified.**  Evaluating any plan — the whole
    language the generator can emit — in store-passing style returns the
    variables `data` (the source) and `ctx` exactly as it received them. -/
theorem src_untouched (st : Store) (p : Plan) (v : Val) (st' : Store)
    (h : runPlan st p = some (v, st')) : st' = st := by
  rw [runPlan_eq] at h
  cases he : evalPlan st.data st.ctx p with
  | none => simp [he] at h
  | some w =>
    simp [he] at h
    exact h.2.symm

/-! ### The facade: what a request returns is fixed by its own recipe, never by earlier requests

`runHistory` is the model of `conversion/facade/retort.py` with its `_simple_converter_cache`
(`AdaptixModel/Conv/Facade.lean`); `specHistory` answers every request from the recipes alone. -/

/-- **No request depends on the history.**  For every class table, fuel, initial recipes of any number of
    freshly created retorts and every history of `extend` / `get_converter` / `convert` / `impl_converter`
    operations of any length — with and without per-call recipes, repeated keys, in any order — every
    operation returns exactly what the cache-free specification returns: the converter produced from the
    per-call recipe followed by the recipe of the addressed retort (or ProviderNotFoundError alike). -/
theorem history_eq_fresh (W : World) (fuel : Nat) (recipes : List (List Provider)) (ops : List FacadeOp) :
    (runHistory W fuel (recipes.map Retort.new) ops).1 = (specHistory W fuel recipes ops).1 := by
  have h := (runHistory_spec W fuel ops (recipes.map Retort.new) (by
    intro r hr
    obtain ⟨rc, _, rfl⟩ := List.mem_map.mp hr
    exact Retort.new_cacheOK W fuel rc)).1
  have hm : (recipes.map Retort.new).map (·.recipe) = recipes := by
    simp [Retort.new, Function.comp_def]
  rw [hm] at h
  exact h

/-- the same from *any* reachable state: whatever was requested before (`pre`), the answers to `ops` are
    those of the specification started from the recipes the retorts have by then -/
theorem history_eq_fresh_after (W : World) (fuel : Nat) (recipes : List (List Provider)) (pre ops : List FacadeOp) :
    (runHistory W fuel (runHistory W fuel (recipes.map Retort.new) pre).2 ops).1 =
      (specHistory W fuel (specHistory W fuel recipes pre).2 ops).1 := by
  have hinit : ∀ r ∈ recipes.map Retort.new, r.CacheOK W fuel := by
    intro r hr
    obtain ⟨rc, _, rfl⟩ := List.mem_map.mp hr
    exact Retort.new_cacheOK W fuel rc
  have hm : (recipes.map Retort.new).map (·.recipe) = recipes := by
    simp [Retort.new, Function.comp_def]
  obtain ⟨_, h2, h3⟩ := runHistory_spec W fuel pre (recipes.map Retort.new) hinit
  have h := (runHistory_spec W fuel ops _ h3).1
  rw [h2, hm] at h
  exact h

/-- requests never change a recipe: only `extend` adds a retort, `get_converter` / `convert` /
    `impl_converter` leave the recipes of all retorts as they are -/
theorem requests_leave_recipes (W : World) (fuel : Nat) (ops : List FacadeOp)
    (hne : ∀ op ∈ ops, ∀ i rc, op ≠ .extend i rc) (recipes : List (List Provider)) :
    (specHistory W fuel recipes ops).2 = recipes := by
  induction ops with
  | nil => rfl
  | cons op ops ih =>
    have ih' := ih (fun o ho => hne o (List.mem_cons_of_mem _ ho))
    have hop := hne op List.mem_cons_self
    simp only [specHistory]
    cases op with
    | extend i rc => exact absurd rfl (hop i rc)
    | getConverter i k rc => simp only [specStep]; split <;> exact ih'
    | convert i s d rc => simp only [specStep]; split <;> exact ih'
    | implConverter i sig rc => simp only [specStep]; split <;> exact ih'

/-- **A converter requested with a per-call recipe follows the linking rules of that recipe, whatever was
    requested before.**  After any history `pre` on freshly created retorts, `get_converter(src, dst,
    name=, recipe=)` on retort `i` (whose recipe is `b` by then) — if it returns a converter at all —
    returns one whose call on any source value is `convertSpec` under `recipe ++ b`: the per-call links
    first, then the retort's, then the builtin same-name linking. -/
theorem get_converter_after_any_history (W : World) (hW : W.WF) (fuel : Nat) (recipes : List (List Provider))
    (pre : List FacadeOp) (i : Nat) (k : ConvKey) (recipe b : List Provider)
    (hb : (specHistory W fuel recipes pre).2[i]? = some b) (conv : Converter)
    (hc : (runHistory W fuel (runHistory W fuel (recipes.map Retort.new) pre).2 [.getConverter i k recipe]).1
            = [some conv]) (v : Val) :
    conv.call [v] [] = convertSpec W (recipe ++ b) fuel k.signature [v] := by
  rw [history_eq_fresh_after] at hc
  simp only [specHistory, specStep, hb, effectiveRecipe] at hc
  have hp : provideConverter W (recipe ++ b) fuel k.signature = some conv := by simpa using hc
  exact call_eq_spec W hW (recipe ++ b) fuel k.signature (by simp [ConvKey.signature]) conv hp [v] [] [v]
    (by simp [ConvKey.signature, bindSig, bindSigPositional, bindSigKeywords, fillDefaults])

/-- the same for `convert(obj, dst, recipe=)`: it calls the converter of the key `(type(obj), dst, None)` -/
theorem convert_after_any_history (W : World) (hW : W.WF) (fuel : Nat) (recipes : List (List Provider))
    (pre : List FacadeOp) (i : Nat) (s d : Ty) (recipe b : List Provider)
    (hb : (specHistory W fuel recipes pre).2[i]? = some b) (conv : Converter)
    (hc : (runHistory W fuel (runHistory W fuel (recipes.map Retort.new) pre).2 [.convert i s d recipe]).1
            = [some conv]) (v : Val) :
    conv.call [v] [] = convertSpec W (recipe ++ b) fuel (ConvKey.signature ⟨s, d, none⟩) [v] := by
  rw [history_eq_fresh_after] at hc
  simp only [specHistory, specStep, hb, effectiveRecipe] at hc
  have hp : provideConverter W (recipe ++ b) fuel (ConvKey.signature ⟨s, d, none⟩) = some conv := by simpa using hc
  exact call_eq_spec W hW (recipe ++ b) fuel _ (by simp [ConvKey.signature]) conv hp [v] [] [v]
    (by simp [ConvKey.signature, bindSig, bindSigPositional, bindSigKeywords, fillDefaults])

/-- the cache is an optimisation only: a repeated recipe-less request returns the very converter of the
    first one (no new entry, same object) -/
theorem repeated_plain_request_cached (W : World) (fuel : Nat) (r : Retort) (k : ConvKey) (c : Converter)
    (h : (r.getConverter W fuel k []).1 = some c) :
    (r.getConverter W fuel k []).2.cache.lookup k = some c := by
  simp only [Retort.getConverter, List.isEmpty_nil, if_true] at h ⊢
  unfold Retort.lookupOrMake at h ⊢
  cases hl : r.cache.lookup k with
  | some c' => simp [hl] at h ⊢; exact h
  | none =>
    simp only [hl] at h ⊢
    cases hp : r.produce W fuel k.signature with
    | none => simp [hp] at h
    | some c' => simp [hp] at h ⊢; exact h

/-! ### Non-vacuity: concrete instances computed by the definitions -/

section Examples

def exInt : Ty := .leaf 1
def exSrcT : Ty := .model 0 0
def exDstT : Ty := .model 1 0

/-- source `S(a: int, b: int)`, destination `D(a: int, c: int = 7, *, b: int)` -/
def exWorld : World where
  outShape t := if t = exSrcT then some { fields := [⟨"a", exInt, .attr "a"⟩, ⟨"b", exInt, .attr "b"⟩] } else none
  inShape t := if t = exDstT then some {
      cls := 1,
      fields := [⟨"a", exInt, true, none⟩, ⟨"c", exInt, false, some (.atom "int" "7")⟩, ⟨"b", exInt, true, none⟩],
      params := [⟨"a", "a", .posOrKw⟩, ⟨"c", "c", .posOrKw⟩, ⟨"b", "b", .kwOnly⟩] } else none
  asIs s d := s == d

def exSig : Signature :=
  { params := [⟨"src", .posOnly, exSrcT, none⟩, ⟨"a", .posOrKw, exInt, none⟩], ret := exDstT }

def exSrc : Val := .obj 0 [("a", .atom "int" "1"), ("b", .atom "int" "2")]

/-- `impl_converter(recipe=[allow_unlinked_optional("c")])` on `(src: S, /, a: int) -> D`:
    the parameter `a` replaces the field, `c` is skipped (so `b` is passed by keyword). -/
example :
    (provideConverter exWorld [.policy (Pred.name "c") true] 5 exSig).map
        (fun c => c.call [exSrc] [("a", .atom "int" "9")]) =
      some (convertSpec exWorld [.policy (Pred.name "c") true] 5 exSig [exSrc, .atom "int" "9"]) := by
  rfl

example :
    convertSpec exWorld [.policy (Pred.name "c") true] 5 exSig [exSrc, .atom "int" "9"] =
      some (.obj 1 [("a", .atom "int" "9"), ("c", .atom "int" "7"), ("b", .atom "int" "2")]) := by
  rfl

/-- without the policy the optional field is unlinked and forbidden: no converter -/
example : (provideConverter exWorld [] 5 exSig).isNone = true := by rfl

/-- recipe order: the first of two overlapping links wins -/
example :
    convertSpec exWorld
      [.linkConstant (Pred.name "c") (.value (.atom "Decimal" "Decimal('1')")),
       .link (Pred.name "a") (Pred.name "c") none] 5 exSig [exSrc, .atom "int" "9"] =
      some (.obj 1 [("a", .atom "int" "9"), ("c", .atom "Decimal" "Decimal('1')"), ("b", .atom "int" "2")]) := by
  rfl

/-! falsy values through `Optional`: `Optional[int] -> Optional[str]` with `coercer(int, str, f₇)`,
    `Optional[List[int]] -> Optional[Tuple[int, ...]]`, `Optional[S0] -> Optional[D0]` for field-less models -/

def exStr : Ty := .leaf 2
def exTopIs (t : Ty) : Pred := fun st => match st with | l :: _ => l.ty == t | [] => false
def exIntToStr : Provider := .coercer (exTopIs exInt) (exTopIs exStr) 7
def exEmptyS : Ty := .model 5 0
def exEmptyD : Ty := .model 6 0
def exOptWorld : World where
  outShape t := if t = exEmptyS then some { fields := [] } else none
  inShape t := if t = exEmptyD then some { cls := 6, fields := [], params := [] } else none
  asIs s d := s == d
def exOptSig (s d : Ty) : Signature := { params := [⟨"x", .posOnly, .opt s, none⟩], ret := .opt d }

/-- `0` is not `None`: the inner coercer is applied (`f₇(0)`), the value is not passed through -/
example : (provideConverter exOptWorld [exIntToStr] 5 (exOptSig exInt exStr)).map (fun c => c.call [.atom "int" "0"] []) =
    some (some (.app 7 [.atom "int" "0"] [])) := by rfl
example : (provideConverter exOptWorld [exIntToStr] 5 (exOptSig exInt exStr)).map (fun c => c.call [.none] []) =
    some (some .none) := by rfl
/-- an empty list under `Optional` becomes an empty tuple -/
example : (provideConverter exOptWorld [] 5 (exOptSig (.iter .list exInt) (.iter .tuple exInt))).map
    (fun c => c.call [.seq .list []] []) = some (some (.seq .tuple [])) := by rfl
/-- a field-less source model under `Optional` is rebuilt as the destination model -/
example : (provideConverter exOptWorld [] 5 (exOptSig exEmptyS exEmptyD)).map (fun c => c.call [.obj 5 []] []) =
    some (some (.obj 6 [])) := by rfl

/-! histories on one retort: `S(a, b) -> P(a, b)`, requested plainly and with the swapping recipe
    `[link("a", "b"), link("b", "a")]`, in both orders -/

def exPairT : Ty := .model 2 0
def exPairWorld : World where
  outShape t := if t = exSrcT then some { fields := [⟨"a", exInt, .attr "a"⟩, ⟨"b", exInt, .attr "b"⟩] } else none
  inShape t := if t = exPairT then some {
      cls := 2, fields := [⟨"a", exInt, true, none⟩, ⟨"b", exInt, true, none⟩],
      params := [⟨"a", "a", .posOrKw⟩, ⟨"b", "b", .posOrKw⟩] } else none
  asIs s d := s == d
def exSwap : List Provider := [.link (Pred.name "a") (Pred.name "b") none, .link (Pred.name "b") (Pred.name "a") none]
def exKey : ConvKey := ⟨exSrcT, exPairT, none⟩
def exCallAll (rs : List (Option Converter)) : List (Option (Option Val)) :=
  rs.map (fun r => r.map (fun c => c.call [exSrc] []))
def exPlainRes : Val := .obj 2 [("a", .atom "int" "1"), ("b", .atom "int" "2")]
def exSwapRes : Val := .obj 2 [("a", .atom "int" "2"), ("b", .atom "int" "1")]

/-- plain, then the same key with the recipe (through get_converter and through convert), then plain again -/
example :
    exCallAll (runHistory exPairWorld 5 [Retort.new []]
      [.getConverter 0 exKey [], .getConverter 0 exKey exSwap, .convert 0 exSrcT exPairT exSwap,
       .getConverter 0 exKey []]).1 =
      [some (some exPlainRes), some (some exSwapRes), some (some exSwapRes), some (some exPlainRes)] := by
  rfl

/-- recipe first, plain afterwards; a retort extended with the recipe answers the plain request swapped -/
example :
    exCallAll (runHistory exPairWorld 5 [Retort.new []]
      [.getConverter 0 exKey exSwap, .getConverter 0 exKey [], .extend 0 exSwap, .getConverter 1 exKey [],
       .implConverter 1 exKey.signature []]).1 =
      [some (some exSwapRes), some (some exPlainRes), none, some (some exSwapRes), some (some exSwapRes)] := by
  rfl

/-- why the lookup must happen on the retort the converter is built on: a `get_converter` that consults the
    cache of `self` before honouring the per-call recipe returns, after a plain request, the plain converter —
    and so contradicts `get_converter_after_any_history` -/
def exStaleGet (W : World) (fuel : Nat) (self : Retort) (k : ConvKey) (recipe : List Provider) : Option Converter :=
  match self.cache.lookup k with
  | some c => some c
  | none => ((self.extend recipe).lookupOrMake W fuel k).1

example :
    (exStaleGet exPairWorld 5 ((Retort.new []).getConverter exPairWorld 5 exKey []).2 exKey exSwap).map
        (fun c => c.call [exSrc] []) = some (some exPlainRes) ∧
    convertSpec exPairWorld (exSwap ++ []) 5 exKey.signature [exSrc] = some exSwapRes := by
  constructor <;> rfl

end Examples

/-! ### Witnesses: the hypotheses of every theorem above hold together on concrete, non-degenerate data

  `wWorld`: `S(a: int, b: int, items: List[IS])`, `IS(x: int)`;
  `D(a: int, c: int = 7, *, b: int, items: Tuple[ID, ...])`, `ID(x: int)`.
  Converter `(src: S, /, a: int, x: int) -> D` with `allow_unlinked_optional("c")`: two extra parameters
  (the ctx value is a tuple), `a` shadows the top-level field, `x` is named like the *nested* field `ID.x`
  and must not be used there. -/

section Witnesses

def wSrcT : Ty := .model 0 0
def wDstT : Ty := .model 1 0
def wItemS : Ty := .model 2 0
def wItemD : Ty := .model 3 0

def wDstShape : InShape :=
  { cls := 1,
    fields := [⟨"a", exInt, true, none⟩, ⟨"c", exInt, false, some (.atom "int" "7")⟩, ⟨"b", exInt, true, none⟩,
      ⟨"items", .iter .tuple wItemD, true, none⟩],
    params := [⟨"a", "a", .posOrKw⟩, ⟨"c", "c", .posOrKw⟩, ⟨"b", "b", .kwOnly⟩, ⟨"items", "items", .kwOnly⟩] }

def wItemShape : InShape := { cls := 3, fields := [⟨"x", exInt, true, none⟩], params := [⟨"x", "x", .posOrKw⟩] }

def wSrcFields : List OutField :=
  [⟨"a", exInt, .attr "a"⟩, ⟨"b", exInt, .attr "b"⟩, ⟨"items", .iter .list wItemS, .attr "items"⟩]

def wWorld : World where
  outShape t := if t = wSrcT then some { fields := wSrcFields }
    else if t = wItemS then some { fields := [⟨"x", exInt, .attr "x"⟩] } else none
  inShape t := if t = wDstT then some wDstShape else if t = wItemD then some wItemShape else none
  asIs s d := s == d

/-- **`World.WF` is satisfiable** by a table with two destination shapes, an optional field in the middle
    and keyword-only parameters -/
theorem wWorld_WF : wWorld.WF := by
  intro t s h
  simp only [wWorld] at h
  split at h
  · cases h
    exact {
      fieldIds := by decide
      paramNames := by decide
      fieldParam := by decide
      order := by simp [wDstShape, ParamOrder]
      posOnlyRequired := by simp [wDstShape] }
  · split at h
    · cases h
      exact {
        fieldIds := by decide
        paramNames := by decide
        fieldParam := by decide
        order := by simp [wItemShape, ParamOrder]
        posOnlyRequired := by simp [wItemShape] }
    · cases h

def wRecipe : List Provider := [.policy (Pred.name "c") true]
def wParams : List CtxParam := [⟨"a", exInt⟩, ⟨"x", exInt⟩]
def wSrcLoc : Loc := { kind := .field, ty := wSrcT, fieldId := "src" }
def wDstLoc : Loc := { kind := .typeHint, ty := wDstT }
def wSrcVal : Val :=
  .obj 0 [("a", .atom "int" "1"), ("b", .atom "int" "2"),
    ("items", .seq .list [.obj 2 [("x", .atom "int" "5")], .obj 2 [("x", .atom "int" "6")]])]
def wResult : Val :=
  .obj 1 [("a", .atom "int" "9"), ("c", .atom "int" "7"), ("b", .atom "int" "2"),
    ("items", .seq .tuple [.obj 3 [("x", .atom "int" "5")], .obj 3 [("x", .atom "int" "6")]])]

/-- `convert_eq_spec` with all hypotheses discharged; the common value of both sides is the expected
    object (parameter `a = 9` over the field, default of the skipped `c`, nested `x` from the items, not
    from the parameter `x = 100`) -/
theorem convert_eq_spec_witness :
    ∃ c, mkCoercer wWorld wRecipe wParams 6 [wSrcLoc] [wDstLoc] = some c ∧ wWorld.WF ∧
      (wParams.map (·.name)).Nodup ∧
      applyCoercer c wSrcVal (packCtx [.atom "int" "9", .atom "int" "100"]) = some wResult ∧
      coerceSpec wWorld wRecipe wParams (pvalsOf wParams [.atom "int" "9", .atom "int" "100"]) 6
        [wSrcLoc] [wDstLoc] wSrcVal = some wResult := by
  have hs : (mkCoercer wWorld wRecipe wParams 6 [wSrcLoc] [wDstLoc]).isSome = true := by rfl
  have hspec : coerceSpec wWorld wRecipe wParams (pvalsOf wParams [.atom "int" "9", .atom "int" "100"]) 6
      [wSrcLoc] [wDstLoc] wSrcVal = some wResult := by rfl
  cases h : mkCoercer wWorld wRecipe wParams 6 [wSrcLoc] [wDstLoc] with
  | none => rw [h] at hs; cases hs
  | some c =>
    refine ⟨c, rfl, wWorld_WF, by decide, ?_, hspec⟩
    rw [convert_eq_spec wWorld wWorld_WF wRecipe wParams _ rfl (by decide) 6 _ _ c h wSrcVal]
    exact hspec

def wSig : Signature :=
  { params := [⟨"src", .posOnly, wSrcT, none⟩, ⟨"a", .posOrKw, exInt, none⟩, ⟨"x", .posOrKw, exInt, some (.atom "int" "100")⟩],
    ret := wDstT }

/-- `call_eq_spec` / `signature_preserved`: the source passed positionally, `a` by keyword, `x` left to its
    default -/
theorem call_eq_spec_witness :
    ∃ conv, provideConverter wWorld wRecipe 6 wSig = some conv ∧ conv.signature = wSig ∧
      bindSig wSig.params [wSrcVal] [("a", .atom "int" "9")] = some [wSrcVal, .atom "int" "9", .atom "int" "100"] ∧
      conv.call [wSrcVal] [("a", .atom "int" "9")] = some wResult := by
  have hs : (provideConverter wWorld wRecipe 6 wSig).isSome = true := by rfl
  have hb : bindSig wSig.params [wSrcVal] [("a", .atom "int" "9")] =
      some [wSrcVal, .atom "int" "9", .atom "int" "100"] := by rfl
  cases h : provideConverter wWorld wRecipe 6 wSig with
  | none => rw [h] at hs; cases hs
  | some conv =>
    refine ⟨conv, rfl, signature_preserved _ _ _ _ _ h, hb, ?_⟩
    rw [call_eq_spec wWorld wWorld_WF wRecipe 6 wSig (by decide) conv h _ _ _ hb]
    rfl

/-- `unlinked_no_converter`: without the policy the optional `c` is unlinked and forbidden; with a required
    destination field `z` nobody provides, the converter is refused as well -/
theorem unlinked_no_converter_witness : provideConverter wWorld [] 6 wSig = none :=
  unlinked_no_converter wWorld [] 5 wSig _ _ rfl wDstShape { fields := wSrcFields } rfl rfl rfl
    ⟨"c", exInt, false, some (.atom "int" "7")⟩ (by simp [wDstShape]) (by rfl) (.inr rfl)

/-- `fuel_irrelevant` / `spec_fuel_irrelevant` have instances (the coercer above exists at fuel 6) -/
theorem fuel_irrelevant_witness (m : Nat) (hm : 6 ≤ m) :
    (mkCoercer wWorld wRecipe wParams m [wSrcLoc] [wDstLoc]).isSome = true := by
  obtain ⟨c, h, _⟩ := convert_eq_spec_witness
  rw [fuel_irrelevant _ _ _ 6 _ _ c h m hm]
  rfl

/-- `optional_spec_none_test` / `optional_converter_none_test` / `empty_iterable_rebuilt`: hypotheses
    discharged for `Optional[int] -> Optional[str]` with a user coercer on the wrapped pair and for
    `List[int] -> Tuple[int, ...]` -/
theorem optional_witness :
    let sl : Loc := { kind := .field, ty := .opt exInt, fieldId := "x" }
    let dl : Loc := { kind := .typeHint, ty := .opt exStr }
    ∃ c, mkCoercer exOptWorld [exIntToStr] [] 5 [sl] [dl] = some c ∧
      applyCoercer c .none (packCtx []) = some .none ∧
      applyCoercer c (.atom "int" "0") (packCtx []) = some (.app 7 [.atom "int" "0"] []) := by
  intro sl dl
  have hs : (mkCoercer exOptWorld [exIntToStr] [] 5 [sl] [dl]).isSome = true := by rfl
  have hwf : exOptWorld.WF := by
    intro t s h
    simp only [exOptWorld] at h
    split at h
    · cases h
      exact { fieldIds := by decide, paramNames := by decide, fieldParam := by simp,
              order := by simp, posOnlyRequired := by simp }
    · cases h
  cases h : mkCoercer exOptWorld [exIntToStr] [] 5 [sl] [dl] with
  | none => rw [h] at hs; cases hs
  | some c =>
    have := optional_converter_none_test exOptWorld hwf [exIntToStr] [] [] rfl (by decide) 4 sl dl [] []
      exInt exStr rfl rfl rfl (.inl rfl) c h
    refine ⟨c, rfl, this.1, ?_⟩
    rw [this.2 (.atom "int" "0") (by intro e; cases e)]
    rfl

theorem empty_iterable_witness :
    coerceSpec exOptWorld [] [] [] 5 [{ kind := .field, ty := .iter .list exInt, fieldId := "x" }]
      [{ kind := .typeHint, ty := .iter .tuple exInt }] (.seq .list []) = some (.seq .tuple []) :=
  empty_iterable_rebuilt exOptWorld [] [] [] 4 _ _ [] [] .list .tuple exInt exInt .list rfl rfl rfl (.inl rfl)

/-! linking theorems: a request for the top-level field `c` of `D` (destination stack of length 2), sources
    the three fields of `S`, three extra parameters -/

def wFieldLoc (id : Name) (t : Ty) : Loc := { kind := .inputField, ty := t, fieldId := id }

def wReq (target : Name) (dstRest : LocStack) : LinkReq :=
  { srcStack := [wSrcLoc], sources := wSrcFields,
    params := [⟨"k", exInt⟩, ⟨"a", exInt⟩, ⟨"x", exInt⟩], dst := wFieldLoc target exInt :: dstRest }

def wBadFunc : FuncSig := { id := 5, params := [⟨"m", .posOrKw, wSrcT⟩, ⟨"nope", .kwOnly, exInt⟩] }

/-- `first_link_wins`, `terminal_link_stops`, `default_when_all_decline` with a non-empty prefix of
    declining providers (a policy, a link whose source predicate matches nothing) and a non-empty rest -/
theorem recipe_order_witness :
    let pre : List Provider := [.policy (Pred.name "c") true, .link (Pred.name "zz") (Pred.name "c") none]
    let post : List Provider := [.link (Pred.name "a") (Pred.name "c") none]
    (∀ q ∈ pre, q.provideLinking (wReq "c" [wDstLoc]) = .decline) ∧
    linkOf (pre ++ .linkConstant (Pred.name "c") (.value (.atom "int" "3")) :: post) (wReq "c" [wDstLoc]) =
      some (.const (.value (.atom "int" "3"))) ∧
    linkOf (pre ++ .linkFunction wBadFunc (Pred.name "c") :: post) (wReq "c" [wDstLoc]) = none ∧
    linkOf pre (wReq "c" [wDstLoc]) = defaultLinking (wReq "c" [wDstLoc]) ∧
    linkOf (pre ++ post) (wReq "c" [wDstLoc]) = some (.field (.field ⟨"a", exInt, .attr "a"⟩) none) := by
  intro pre post
  have hpre : ∀ q ∈ pre, q.provideLinking (wReq "c" [wDstLoc]) = .decline := by
    intro q hq
    simp only [pre, List.mem_cons, List.not_mem_nil, or_false] at hq
    rcases hq with rfl | rfl <;> rfl
  exact ⟨hpre, first_link_wins pre post _ _ _ hpre rfl, terminal_link_stops pre post _ _ hpre rfl,
    default_when_all_decline pre _ hpre, by rfl⟩

/-- `explicit_link_candidates`: fields first, then parameters right to left -/
theorem explicit_link_witness :
    (Provider.link (Pred.name "x") (Pred.name "c") none).provideLinking (wReq "c" [wDstLoc]) =
      .ok (.field (.param 2 ⟨"x", exInt⟩) none) := by
  rw [explicit_link_candidates _ _ _ _ (by rfl)]
  rfl

/-- `param_over_field_top_level`, `nested_ignores_params`, `param_over_field_top_level_only`,
    `field_when_no_param`, `from_param_any_level` with `before` and `after` non-empty -/
theorem default_linking_witness :
    defaultLinking (wReq "a" [wDstLoc]) = some (.field (.param 1 ⟨"a", exInt⟩) none) ∧
    defaultLinking (wReq "a" [wDstLoc, wDstLoc]) = some (.field (.field ⟨"a", exInt, .attr "a"⟩) none) ∧
    defaultLinking (wReq "b" [wDstLoc]) = some (.field (.field ⟨"b", exInt, .attr "b"⟩) none) ∧
    (Provider.link (Pred.fromParam "a") (Pred.name "c") none).provideLinking (wReq "c" [wDstLoc, wDstLoc]) =
      .ok (.field (.param 1 ⟨"a", exInt⟩) none) := by
  refine ⟨?_, ?_, ?_, ?_⟩
  · exact param_over_field_top_level (wReq "a" [wDstLoc]) [⟨"k", exInt⟩] [⟨"x", exInt⟩] ⟨"a", exInt⟩ rfl rfl rfl
      (by intro q hq; simp only [List.mem_singleton] at hq; subst hq; decide)
  · have := param_over_field_top_level_only (wReq "a" [wDstLoc, wDstLoc]) [⟨"k", exInt⟩] [⟨"x", exInt⟩] ⟨"a", exInt⟩
      rfl rfl (by intro q hq; simp only [List.mem_singleton] at hq; subst hq; decide) ⟨"a", exInt, .attr "a"⟩ rfl
    rw [this]
    rfl
  · rw [field_when_no_param (wReq "b" [wDstLoc]) (by
      intro q hq
      simp only [wReq, List.mem_cons, List.not_mem_nil, or_false] at hq
      rcases hq with rfl | rfl | rfl <;> decide)]
    rfl
  · exact from_param_any_level "a" (Pred.name "c") none (wReq "c" [wDstLoc, wDstLoc]) [⟨"k", exInt⟩] [⟨"x", exInt⟩]
      ⟨"a", exInt⟩ rfl rfl (by simp [wReq]) rfl
      (by intro q hq; simp only [List.mem_singleton] at hq; subst hq; decide)

/-- `extra_src_ignored` with a recipe of three providers (a link, a function link with a keyword-only
    parameter, a constant) and the extra field inserted in the middle of the source model -/
theorem extra_src_ignored_witness :
    let recipe : List Provider :=
      [.link (Pred.name "zz") (Pred.name "c") none,
       .linkFunction { id := 4, params := [⟨"m", .posOrKw, wSrcT⟩, ⟨"b", .kwOnly, exInt⟩] } (Pred.name "c"),
       .linkConstant (Pred.name "q") (.value .none)]
    let e : OutField := ⟨"extra", exInt, .attr "extra"⟩
    (∀ p ∈ recipe, p.ignoresField (wReq "c" [wDstLoc]) e) ∧
    linkOf recipe ((wReq "c" [wDstLoc]).withExtra [⟨"a", exInt, .attr "a"⟩]
      [⟨"b", exInt, .attr "b"⟩, ⟨"items", .iter .list wItemS, .attr "items"⟩] e) =
      linkOf recipe (wReq "c" [wDstLoc]) ∧
    (linkOf recipe (wReq "c" [wDstLoc])).isSome = true := by
  intro recipe e
  have hig : ∀ p ∈ recipe, p.ignoresField (wReq "c" [wDstLoc]) e := by
    intro p hp
    simp only [recipe, List.mem_cons, List.not_mem_nil, or_false] at hp
    rcases hp with rfl | rfl | rfl
    · rfl
    · intro fp hfp hk
      simp only [List.mem_cons, List.not_mem_nil, or_false] at hfp
      rcases hfp with rfl | rfl
      · cases hk
      · decide
    · trivial
  exact ⟨hig, extra_src_ignored recipe _ _ _ e rfl (by decide) hig, by rfl⟩

/-- `extra_src_ignored_value` on the converter above: a field `extra` inserted after `a` (the source value
    carries it too) leaves the specified object unchanged, and that object is the expected one -/
theorem extra_src_ignored_value_witness :
    let e : OutField := ⟨"extra", exInt, .attr "extra"⟩
    let pvals : List (Name × Val) := [("a", .atom "int" "9"), ("x", .atom "int" "100")]
    let v : Val := .obj 0 [("a", .atom "int" "1"), ("extra", .atom "int" "0"), ("b", .atom "int" "2"),
      ("items", .seq .list [.obj 2 [("x", .atom "int" "5")], .obj 2 [("x", .atom "int" "6")]])]
    specModel (coerceSpec wWorld wRecipe wParams pvals 5) wRecipe wParams pvals [wSrcLoc] [wDstLoc] wDstShape
        ([⟨"a", exInt, .attr "a"⟩] ++ e :: [⟨"b", exInt, .attr "b"⟩, ⟨"items", .iter .list wItemS, .attr "items"⟩]) v =
      specModel (coerceSpec wWorld wRecipe wParams pvals 5) wRecipe wParams pvals [wSrcLoc] [wDstLoc] wDstShape
        wSrcFields v ∧
    specModel (coerceSpec wWorld wRecipe wParams pvals 5) wRecipe wParams pvals [wSrcLoc] [wDstLoc] wDstShape
        wSrcFields v = some wResult := by
  intro e pvals v
  refine ⟨extra_src_ignored_value _ wRecipe wParams pvals [wSrcLoc] [wDstLoc] wDstShape _ _ e ?_ v, by rfl⟩
  intro f hf
  simp only [wDstShape, List.mem_cons, List.not_mem_nil, or_false] at hf
  have hrec : ∀ (r : LinkReq), ∀ p ∈ wRecipe, p.ignoresField r e := by
    intro r p hp
    simp only [wRecipe, List.mem_singleton] at hp
    subst hp
    trivial
  rcases hf with rfl | rfl | rfl | rfl <;> exact ⟨by decide, hrec _⟩

/-- `unlinked_required_fails` / `unlinked_optional_policy`: a required destination field `z` nobody
    provides; the optional `c` under the empty recipe and under `allow_unlinked_optional("c")` -/
theorem unlinked_witness :
    fetchFieldLinking [] (wReq "z" [wDstLoc]) ⟨"z", exInt, true, none⟩ = .failed ∧
    fetchFieldLinking [] (wReq "c" [wDstLoc]) ⟨"c", exInt, false, none⟩ = .failed ∧
    fetchFieldLinking wRecipe (wReq "c" [wDstLoc]) ⟨"c", exInt, false, none⟩ = .skipped := by
  refine ⟨unlinked_required_fails [] _ _ rfl rfl, ?_, ?_⟩
  · rw [unlinked_optional_policy [] _ _ rfl rfl]; rfl
  · rw [unlinked_optional_policy wRecipe _ _ rfl rfl]; rfl

/-- `src_untouched` on the plan of the converter above: evaluation succeeds and hands back the frame -/
theorem src_untouched_witness :
    ∃ p v, mkCoercer wWorld wRecipe wParams 6 [wSrcLoc] [wDstLoc] = some (.model p) ∧
      runPlan ⟨wSrcVal, packCtx [.atom "int" "9", .atom "int" "100"]⟩ p =
        some (v, ⟨wSrcVal, packCtx [.atom "int" "9", .atom "int" "100"]⟩) := by
  have hs : (match mkCoercer wWorld wRecipe wParams 6 [wSrcLoc] [wDstLoc] with
      | some (.model p) => (runPlan ⟨wSrcVal, packCtx [.atom "int" "9", .atom "int" "100"]⟩ p).isSome
      | _ => false) = true := by rfl
  cases h : mkCoercer wWorld wRecipe wParams 6 [wSrcLoc] [wDstLoc] with
  | none => rw [h] at hs; cases hs
  | some c =>
    cases c with
    | model p =>
      rw [h] at hs
      simp only at hs
      cases hr : runPlan ⟨wSrcVal, packCtx [.atom "int" "9", .atom "int" "100"]⟩ p with
      | none => rw [hr] at hs; cases hs
      | some r =>
        obtain ⟨v, st'⟩ := r
        have := src_untouched _ p v st' hr
        subst this
        exact ⟨p, v, rfl, hr⟩
    | _ => rw [h] at hs; cases hs

end Witnesses

/-! ### field types of a parametrized generic model

  "all pairs of models (… nested, generic)": which coercer a field pair gets is decided by the
  field types, and for `C[a0, …]` these come out of `GenericResolver` (model:
  `AdaptixModel/Conv/Generic.lean`).  The code takes a detour - the parameters of the field
  hint in order of first appearance, the actuals collected in that order, Python's positional
  subscription - and the theorems say that the detour is the plain simultaneous substitution
  of the class's arguments for its type variables, in whatever order a hint mentions them. -/

/-- **`_parametrize_by_dict` is the simultaneous substitution** of the dict's actuals for the
    type variables of the hint - for every hint and every dict, independent of the order in
    which the hint mentions the variables and of the order of the dict. -/
theorem parametrize_eq_subst (m : List (Nat × Hint)) (tp : Hint) :
    parametrizeByDict m tp = tp.subst (dictGetD m) :=
  parametrizeByDict_eq_subst m tp

/-- **substitution respects the order of appearance**: subscribing a hint with the images of its
    own parameters (`__parameters__`, first appearance first) replaces every variable by its
    own image - not by the image of the variable that holds the same position in some other
    order (e.g. the order of `Generic[...]`). -/
theorem subscript_respects_order_of_appearance (h : Hint) (σ : Nat → Hint) :
    h.subscript (h.params.map σ) = h.subst σ :=
  Hint.subscript_params_map h σ

/-- the resolved members of `C[args]`: every field hint with the i-th declared variable of `C`
    replaced by the i-th argument -/
theorem generic_fields_by_substitution (d : GenericDecl) (args : List Hint) :
    resolveFields d args =
      d.hints.map (fun (k, tp) => (k, tp.subst (dictGetD (typeVarToActual d.declared args)))) := by
  unfold resolveFields
  apply List.map_congr_left
  intro e _
  obtain ⟨k, tp⟩ := e
  simp only [parametrize_eq_subst]

/-- … where the i-th declared variable stands for the i-th argument -/
theorem declared_variable_gets_its_argument (declared : List Nat) (args : List Hint) (hnd : declared.Nodup)
    (i : Nat) (hi : i < declared.length) (ha : i < args.length) :
    dictGetD (typeVarToActual declared args) declared[i] = args[i] :=
  typeVarToActual_get declared args hnd i hi ha

/-- a hint without type variables is the field type as it stands -/
theorem closed_hint_unchanged (m : List (Nat × Hint)) (tp : Hint) (hc : tp.vars = []) :
    parametrizeByDict m tp = tp := by
  rw [parametrize_eq_subst, Hint.subst_closed tp _ hc]

/-- non-vacuity: `class G(Generic[T0, T1]): inverse: Dict[T1, T0]` as `G[int, str]` has
    `inverse: Dict[str, int]` -/
example :
    resolveFields { declared := [0, 1], hints := [("inverse", .dict (.var 1) (.var 0))] }
        [.ty (.leaf 1), .ty (.leaf 2)]
      = [("inverse", .dict (.ty (.leaf 2)) (.ty (.leaf 1)))] := by decide

/-- the order matters: collecting the actuals in the order of *declaration* (a plausible
    simplification of `_parametrize_by_dict`) swaps the arguments of such a hint -/
theorem decl_order_collection_differs :
    ∃ (m : List (Nat × Hint)) (tp : Hint), parametrizeByDeclOrder m tp ≠ tp.subst (dictGetD m) :=
  ⟨typeVarToActual [0, 1] [.ty (.leaf 1), .ty (.leaf 2)], .dict (.var 1) (.var 0), by decide⟩

/-- nested generic model: `backward: Edge[T1, T0]` in `Graph[T0, T1]` -/
example :
    parametrizeByDict (typeVarToActual [0, 1] [.ty (.model 5 0), .ty (.model 6 0)])
        (.app (.app (.cls 3) (.var 1)) (.var 0))
      = .app (.app (.cls 3) (.ty (.model 6 0))) (.ty (.model 5 0)) := by decide

/-! ### a coercer is chosen per position

  `mediator.provide(CoercerRequest(src, ctx, dst))` is answered per pair of *location stacks*: the key of a mapping
  is requested at `GenericParamLoc(generic_pos=0)`, the value at `generic_pos=1`, the element of an iterable and the
  type wrapped by `Optional` at `generic_pos=0` (`mkCoercer`, after `DictCoercerProvider` / `IterableCoercerProvider`
  / `OptionalCoercerProvider`).  The public predicates address these positions (`P[dict].generic_arg(1, str)`,
  `Pred.genericArg` / `Pred.pattern`), so equal pairs of types at sibling positions may be served by different
  recipe entries. -/

/-- **Recipe order decides, per location.**  If no `coercer(...)` entry before `coercer(ps, pd, f)` accepts the
    pair of location stacks and this one does, it is the coercer used there - whatever follows. -/
theorem first_coercer_wins (pre post : List Provider) (ps pd : Pred) (f : Nat) (src dst : LocStack)
    (hpre : userCoercer pre src dst = none) (hs : ps src = true) (hd : pd dst = true) :
    userCoercer (pre ++ .coercer ps pd f :: post) src dst = some f := by
  induction pre with
  | nil => simp [userCoercer, hs, hd]
  | cons p pre ih =>
    cases p <;> simp only [List.cons_append, userCoercer] at hpre ⊢ <;> try exact ih hpre
    split at hpre
    · cases hpre
    · rename_i hc
      simp only [hc]
      exact ih hpre

/-- entries declining at a location (and every provider that is not a coercer) do not influence the choice there -/
theorem declining_coercers_invisible (pre post : List Provider) (src dst : LocStack)
    (hpre : userCoercer pre src dst = none) :
    userCoercer (pre ++ post) src dst = userCoercer post src dst := by
  induction pre with
  | nil => rfl
  | cons p pre ih =>
    cases p <;> simp only [List.cons_append, userCoercer] at hpre ⊢ <;> try exact ih hpre
    split at hpre
    · cases hpre
    · rename_i hc
      simp only [hc]
      exact ih hpre

/-- `generic_arg(i, q)` holds exactly on a `GenericParamLoc` with `generic_pos == i` on which `q` holds -/
theorem generic_arg_iff (i : Nat) (q : Pred) (l : Loc) (st : LocStack) :
    Pred.genericArg i q (l :: st) = true ↔ l.kind = .genericParam ∧ l.pos = i ∧ q (l :: st) = true := by
  simp [Pred.genericArg, Pred.genericPos, and_assoc]

/-- ... in particular never on a field location -/
theorem generic_arg_not_field (i : Nat) (q : Pred) (l : Loc) (st : LocStack) (h : l.isField = true) :
    Pred.genericArg i q (l :: st) = false := by
  cases hk : l.kind <;> simp_all [Pred.genericArg, Pred.genericPos, Loc.isField]

/-- `P[p].generic_arg(i, q)`: the last location is the i-th type argument satisfying `q`, the one below satisfies `p` -/
theorem pattern_parent_generic_arg (p q : Pred) (i : Nat) (l parent : Loc) (st : LocStack) :
    Pred.pattern [p, Pred.genericArg i q] (l :: parent :: st) =
      (Pred.genericArg i q (l :: parent :: st) && p (parent :: st)) := by
  simp [Pred.pattern, Pred.endCheck]


/-- **Sibling positions are independent.**  A coercer whose *source* predicate is bound to position `i`
    (`generic_arg(i, q)`) may stand anywhere in the recipe: the choice at a sibling position `j ≠ i` - the value
    of a mapping for a key-bound coercer and vice versa - is the choice of the recipe without it, whatever the
    types at the two positions are (equal pairs included). -/
theorem sibling_bound_coercer_invisible_src (pre post : List Provider) (i j : Nat) (hij : i ≠ j) (q pd : Pred) (g : Nat)
    (t : Ty) (st dst : LocStack) :
    userCoercer (pre ++ .coercer (Pred.genericArg i q) pd g :: post) (gpLoc t j :: st) dst =
      userCoercer (pre ++ post) (gpLoc t j :: st) dst := by
  induction pre with
  | nil => simp [userCoercer, generic_arg_sibling i j hij]
  | cons p pre ih =>
    cases p <;> simp only [List.cons_append, userCoercer] <;> try exact ih
    split
    · rfl
    · exact ih

/-- the same with the position given on the *destination* side -/
theorem sibling_bound_coercer_invisible_dst (pre post : List Provider) (i j : Nat) (hij : i ≠ j) (ps q : Pred) (g : Nat)
    (t : Ty) (src st : LocStack) :
    userCoercer (pre ++ .coercer ps (Pred.genericArg i q) g :: post) src (gpLoc t j :: st) =
      userCoercer (pre ++ post) src (gpLoc t j :: st) := by
  induction pre with
  | nil => simp [userCoercer, generic_arg_sibling i j hij]
  | cons p pre ih =>
    cases p <;> simp only [List.cons_append, userCoercer] <;> try exact ih
    split
    · rfl
    · exact ih

/-- the documented conversion at a location a user coercer accepts is that coercer's function applied to the value -/
theorem user_coercer_applied (W : World) (recipe : List Provider) (params : List CtxParam)
    (pvals : List (Name × Val)) (n : Nat) (sl dl : Loc) (srest drest : LocStack) (f : Nat)
    (hu : userCoercer recipe (sl :: srest) (dl :: drest) = some f) (v : Val) :
    coerceSpec W recipe params pvals (n + 1) (sl :: srest) (dl :: drest) v = some (.app f [v] []) := by
  simp only [coerceSpec, hu]

/-- **Specification side.**  A mapping is converted entry by entry: the key at the key location
    (`GenericParamLoc(pos=0)` appended to both stacks), the value at the value location (`pos=1`). -/
theorem dict_spec_by_position (W : World) (recipe : List Provider) (params : List CtxParam)
    (pvals : List (Name × Val)) (n : Nat) (sl dl : Loc) (srest drest : LocStack) (ka va kb vb : Ty)
    (hs : sl.ty = .dict ka va) (hd : dl.ty = .dict kb vb)
    (hu : userCoercer recipe (sl :: srest) (dl :: drest) = none)
    (hsh : W.inShape dl.ty = none ∨ W.outShape sl.ty = none) (kvs : List (Val × Val)) :
    coerceSpec W recipe params pvals (n + 1) (sl :: srest) (dl :: drest) (.dict kvs) =
      (kvs.mapM (m := Option) (fun (kv : Val × Val) =>
        match coerceSpec W recipe params pvals n (gpLoc ka 0 :: sl :: srest) (gpLoc kb 0 :: dl :: drest) kv.1,
              coerceSpec W recipe params pvals n (gpLoc va 1 :: sl :: srest) (gpLoc vb 1 :: dl :: drest) kv.2 with
        | some k, some x => some (k, x)
        | _, _ => none)).map Val.dict := by
  rw [hs, hd] at hsh
  simp only [coerceSpec, hu, hs, hd]
  have fin : ∀ (f g : Val × Val → Option (Val × Val)), (∀ kv, f kv = g kv) →
      Option.map Val.dict (kvs.mapM f) = Option.map Val.dict (kvs.mapM g) :=
    fun f g hfg => by rw [mapM_congr f g kvs (fun kv _ => hfg kv)]
  rcases hsh with h | h
  · simp only [h]
    apply fin
    intro kv
    split <;> split <;> simp_all
  · cases hin : W.inShape (.dict kb vb) <;> simp only [h, hin] <;> apply fin <;> intro kv <;> split <;> split <;> simp_all

/-- **Generated code.**  Whatever closure the generator returns for a mapping pair, it is `dict_coercer` around the
    coercer produced for the **key location** and the coercer produced for the **value location** - two separate
    requests, also when keys and values have the same pair of types (`Dict[str, str] -> Dict[int, int]`). -/
theorem dict_coercers_by_position (W : World) (recipe : List Provider) (params : List CtxParam)
    (n : Nat) (sl dl : Loc) (srest drest : LocStack) (ka va kb vb : Ty)
    (hs : sl.ty = .dict ka va) (hd : dl.ty = .dict kb vb)
    (hu : userCoercer recipe (sl :: srest) (dl :: drest) = none)
    (hsh : W.inShape dl.ty = none ∨ W.outShape sl.ty = none) (c : Coercer)
    (h : mkCoercer W recipe params (n + 1) (sl :: srest) (dl :: drest) = some c) :
    ∃ k v, c = .dict k v ∧
      mkCoercer W recipe params n (gpLoc ka 0 :: sl :: srest) (gpLoc kb 0 :: dl :: drest) = some k ∧
      mkCoercer W recipe params n (gpLoc va 1 :: sl :: srest) (gpLoc vb 1 :: dl :: drest) = some v := by
  rw [hs, hd] at hsh
  simp only [mkCoercer, hu, hs, hd] at h
  cases hk : mkCoercer W recipe params n (gpLoc ka 0 :: sl :: srest) (gpLoc kb 0 :: dl :: drest) with
  | none =>
    rcases hsh with hh | hh
    · simp [hh, hk] at h
    · cases hin : W.inShape (.dict kb vb) <;> simp [hh, hin, hk] at h
  | some k =>
    cases hv : mkCoercer W recipe params n (gpLoc va 1 :: sl :: srest) (gpLoc vb 1 :: dl :: drest) with
    | none =>
      rcases hsh with hh | hh
      · simp [hh, hk, hv] at h
      · cases hin : W.inShape (.dict kb vb) <;> simp [hh, hin, hk, hv] at h
    | some v =>
      refine ⟨k, v, ?_, rfl, rfl⟩
      rcases hsh with hh | hh
      · simp [hh, hk, hv] at h
        exact h.symm
      · cases hin : W.inShape (.dict kb vb) <;> simp [hh, hin, hk, hv] at h <;> exact h.symm

/-- **Each position is served by its own first matching recipe entry.**  If the first coercer of the recipe
    accepting the key location is `fk` and the first accepting the value location is `fv`, the produced converter
    maps `{k: x, ...}` to `{fk(k): fv(x), ...}` - no hypothesis relates the key types to the value types. -/
theorem dict_entries_by_own_position (W : World) (hW : W.WF) (recipe : List Provider) (params : List CtxParam)
    (ctxVals : List Val) (hlen : ctxVals.length = params.length) (hnd : (params.map (·.name)).Nodup)
    (n : Nat) (sl dl : Loc) (srest drest : LocStack) (ka va kb vb : Ty)
    (hs : sl.ty = .dict ka va) (hd : dl.ty = .dict kb vb)
    (hu : userCoercer recipe (sl :: srest) (dl :: drest) = none)
    (hsh : W.inShape dl.ty = none ∨ W.outShape sl.ty = none) (c : Coercer)
    (h : mkCoercer W recipe params (n + 2) (sl :: srest) (dl :: drest) = some c)
    (fk fv : Nat)
    (hk : userCoercer recipe (gpLoc ka 0 :: sl :: srest) (gpLoc kb 0 :: dl :: drest) = some fk)
    (hv : userCoercer recipe (gpLoc va 1 :: sl :: srest) (gpLoc vb 1 :: dl :: drest) = some fv)
    (kvs : List (Val × Val)) :
    applyCoercer c (.dict kvs) (packCtx ctxVals) =
      some (.dict (kvs.map (fun kv => (Val.app fk [kv.1] [], Val.app fv [kv.2] [])))) := by
  rw [convert_eq_spec W hW recipe params ctxVals hlen hnd (n + 2) (sl :: srest) (dl :: drest) c h,
    dict_spec_by_position W recipe params _ (n + 1) sl dl srest drest ka va kb vb hs hd hu hsh kvs]
  rw [mapM_some_of_forall _ (fun kv => (Val.app fk [kv.1] [], Val.app fv [kv.2] []))]
  · rfl
  · intro kv _
    rw [user_coercer_applied W recipe params _ n _ _ _ _ fk hk, user_coercer_applied W recipe params _ n _ _ _ _ fv hv]


section PositionExamples

def exPosWorld : World where
  outShape _ := none
  inShape _ := none
  asIs s d := s == d
def exDictSig : Signature := { params := [⟨"src", .posOnly, .dict exStr exStr, none⟩], ret := .dict exInt exInt }
/-- `coercer(P[dict].generic_arg(0, str), int, f₁)` -/
def exKeyBound : Provider :=
  .coercer (Pred.pattern [Pred.origin .dict, Pred.genericArg 0 (Pred.origin exStr.origin)]) (Pred.origin exInt.origin) 1
/-- `coercer(str, P[dict].generic_arg(1, int), f₃)`: the position given on the destination side -/
def exValueBound : Provider :=
  .coercer (Pred.origin exStr.origin) (Pred.pattern [Pred.origin .dict, Pred.genericArg 1 (Pred.origin exInt.origin)]) 3
/-- `coercer(str, int, f₂)` -/
def exGeneral : Provider := .coercer (Pred.origin exStr.origin) (Pred.origin exInt.origin) 2
def exK : Val := .atom "str" "'1'"
def exV : Val := .atom "str" "'2'"

/-- `Dict[str, str] -> Dict[int, int]`: keys by the key-bound coercer, values by the general one behind it -/
example : (provideConverter exPosWorld [exKeyBound, exGeneral] 5 exDictSig).map (fun c => c.call [.dict [(exK, exV)]] []) =
    some (some (.dict [(.app 1 [exK] [], .app 2 [exV] [])])) := by rfl
/-- a value-bound coercer before the general one: keys by the general one, values by the bound one -/
example : (provideConverter exPosWorld [exValueBound, exGeneral] 5 exDictSig).map (fun c => c.call [.dict [(exK, exV)]] []) =
    some (some (.dict [(.app 2 [exK] [], .app 3 [exV] [])])) := by rfl
/-- both bound coercers, no general one: each position finds its own -/
example : (provideConverter exPosWorld [exValueBound, exKeyBound] 5 exDictSig).map (fun c => c.call [.dict [(exK, exV)]] []) =
    some (some (.dict [(.app 1 [exK] [], .app 3 [exV] [])])) := by rfl
/-- recipe order: the general coercer first shadows the bound ones at both positions -/
example : (provideConverter exPosWorld [exGeneral, exKeyBound, exValueBound] 5 exDictSig).map
    (fun c => c.call [.dict [(exK, exV)]] []) = some (some (.dict [(.app 2 [exK] [], .app 2 [exV] [])])) := by rfl
/-- only the key-bound coercer: nothing serves `str -> int` at the value position, no converter -/
example : (provideConverter exPosWorld [exKeyBound] 5 exDictSig).isNone = true := by rfl

/-- **Why the value coercer must be requested at its own location.**  Reusing the coercer found for the key
    position for the values because the two pairs of types coincide (`Dict[str, str] -> Dict[int, int]`) is not
    the documented conversion: with `[coercer(P[dict].generic_arg(0, str), int, f₁), coercer(str, int, f₂)]` the
    key coercer is `f₁`, and the dict coercer built from it twice sends the value through `f₁`, the
    specification through `f₂`. -/
theorem key_coercer_reused_for_values_differs :
    mkCoercer exPosWorld [exKeyBound, exGeneral] [] 4
        [gpLoc exStr 0, { kind := .field, ty := .dict exStr exStr, fieldId := "src" }]
        [gpLoc exInt 0, { kind := .typeHint, ty := .dict exInt exInt }] = some (.leaf 1) ∧
    applyCoercer (.dict (.leaf 1) (.leaf 1)) (.dict [(exK, exV)]) .none ≠
      convertSpec exPosWorld [exKeyBound, exGeneral] 5 exDictSig [.dict [(exK, exV)]] := by
  refine ⟨rfl, fun h => ?_⟩
  have h2 : (some (Val.dict [(.app 1 [exK] [], .app 1 [exV] [])]) : Option Val) =
      some (.dict [(.app 1 [exK] [], .app 2 [exV] [])]) := h
  simp at h2

end PositionExamples

end Adaptix.Conv13.C13
