/-
  C14 — Implicit coercion is type-sound; unlinkable or uncoercible fields are refused.
  Property theorems only; helper lemmas live in `AdaptixProofs/Lemmas/Coerce*.lean`.

  Model: `AdaptixModel/Conv/Coerce.lean` (`provide cfg fuel src dst`, the search of
  `get_converter` through the coercer providers of the builtin conversion recipe; the
  recipe order is regenerated from the source into `Generated/C14Recipe.lean`).
  Specification: `AdaptixModel/Conv/CoerceSpec.lean` (`HasTy` = ⟦T⟧, `AsIs`, `Coercible`,
  `WorldOk`).  The model contains the three repairs of `fixes/C14-*.patch`.

  Quantifiers: every theorem holds for all type expressions of the grammar (unbounded
  nesting), all class tables, all values, every fuel; unless `builtinRecipe` is mentioned
  also for every recipe (any order / subset of the nine providers) and every policy.
-/
import AdaptixModel.Conv.CoerceSpec
import AdaptixProofs.Lemmas.CoerceSpecSound
import AdaptixProofs.Lemmas.CoerceBuiltin
import AdaptixProofs.Lemmas.CoerceWitness
import AdaptixProofs.Lemmas.CoercePolicy
import AdaptixProofs.Lemmas.CoerceHierarchy

namespace Adaptix.Conv.C14

open Adaptix.Conv

/-- **The as-is stub is handed out only inside the documented relation**: same type,
    destination `Any`, non-generic subclass, union subset by type equality (a single type
    counting as a one-element union), or `Optional` of such a pair; metadata tags ignored. -/
theorem asis_documented (cfg : Cfg) (n : Nat) (src dst : Ty) (c : Coercer)
    (h : provide cfg n src dst = .ok c) (hc : c.isAsIs = true) : AsIs cfg.sub src dst :=
  (provide_doc n src dst c h).2 hc

/-- a coercer that claims to be the as-is stub passes every value through unchanged -/
theorem asis_unchanged (cfg : Cfg) (S : Sem) (hW : WorldOk cfg S) (n : Nat) (src dst : Ty)
    (c : Coercer) (h : provide cfg n src dst = .ok c) (hc : c.isAsIs = true) (v : Val) :
    c.run v = some v :=
  (provide_good hW n src dst c h).2 hc v

/-- **The documented as-is relation is type-sound** (a statement about the specification
    alone): a value of the source type is a value of the destination type. -/
theorem asIs_relation_sound (cfg : Cfg) (S : Sem) (hW : WorldOk cfg S) (src dst : Ty)
    (h : AsIs cfg.sub src dst) (v : Val) (hv : HasTy cfg S src v) : HasTy cfg S dst v :=
  asIs_sem hW h v hv

/-- **SOUNDNESS**: whenever the search produces a coercer, it maps every value of the source
    type to a value of the destination type (and does not get stuck on it).  Holds for every
    recipe order, every policy, every nesting depth. -/
theorem soundness (cfg : Cfg) (S : Sem) (hW : WorldOk cfg S) (n : Nat) (src dst : Ty) (c : Coercer)
    (h : provide cfg n src dst = .ok c) (v : Val) (hv : HasTy cfg S src v) :
    ∃ w, c.run v = some w ∧ HasTy cfg S dst w :=
  (provide_good hW n src dst c h).1 v hv

/-- **Nothing outside the documented coercibility relation is accepted**: a produced
    coercer implies `Coercible` (as-is cases; Optional / iterable / dict with coercible
    inner types; models whose every destination field is linked by name to a coercible
    source field or is an optional field the policy allows to leave out). -/
theorem accepted_documented (cfg : Cfg) (n : Nat) (src dst : Ty) (c : Coercer)
    (h : provide cfg n src dst = .ok c) : Coercible cfg src dst :=
  (provide_doc n src dst c h).1

/-- contrapositive: outside the relation the converter is refused (`ProviderNotFoundError`) -/
theorem refused_outside_relation (cfg : Cfg) (n : Nat) (src dst : Ty)
    (h : ¬ Coercible cfg src dst) : ∀ c, provide cfg n src dst ≠ .ok c :=
  fun c hc => h (accepted_documented cfg n src dst c hc)

/-- **Unlinked fields are refused**: with the builtin recipe order, if a destination field has
    no source field of the same name and it is required, or optional while the policy does
    not allow skipping it (the default), no converter is produced — whatever the other
    fields, types and nesting. -/
theorem unlinked_refused (cfg : Cfg) (hrecipe : cfg.recipe = builtinRecipe)
    (sc dc : Nat) (sa da : List Ty) (sfs dfs : List Field)
    (hss : cfg.shape sc sa = some sfs) (hds : cfg.shape dc da = some dfs)
    (d : Field) (hd : d ∈ dfs) (hnone : ∀ s ∈ sfs, s.name ≠ d.name)
    (hforbid : d.required = true ∨ cfg.policy.allowed dc d = false) (n : Nat) (c : Coercer) :
    provide cfg n (.cls sc sa) (.cls dc da) ≠ .ok c :=
  model_first_refuses (rest := [.iterable, .dict, .optional, .unwrap, .sameType, .dstAny, .unionSubcase, .subclass])
    (by rw [hrecipe, builtinRecipe_eq]) hss hds hd hnone hforbid n c

/-- the policy closing the builtin recipe forbids unlinked optional fields -/
theorem default_policy_forbids (owner : Nat) (f : Field) : Policy.builtin.allowed owner f = false := by
  rfl

/-- **The policy is resolved per field, first matching rule of the user recipe first**: the answer
    to `UnlinkedOptionalPolicyRequest` for the field `f` of the class `owner` under the rules `rs`
    (the `allow_/forbid_unlinked_optional(pred)` of the recipe, in order) is the verdict of the
    first rule whose predicate matches *that field's* location, and the closing builtin policy's
    when none matches.  (`RuleApplies` is stated by position, independently of the resolver.) -/
theorem policy_first_match (rs : List PolicyRule) (owner : Nat) (f : Field) (allow : Bool) :
    (Policy.rules rs).allowed owner f = allow ↔ PolicyVerdict owner f rs allow :=
  resolveRules_verdict owner f rs allow

/-- **A converter between two models exists exactly when every destination field is acceptable on
    its own** (builtin recipe order, every policy, every nesting): each destination field is linked
    to the same-name source field whose type is coercible, or has no source, is optional and the
    policy asked about *this* field allows leaving it out.  In particular a verdict obtained for
    one field is never reused for another. -/
theorem model_converter_iff (cfg : Cfg) (hrecipe : cfg.recipe = builtinRecipe)
    (sc dc : Nat) (sa da : List Ty) (sfs dfs : List Field)
    (hss : cfg.shape sc sa = some sfs) (hds : cfg.shape dc da = some dfs) (n : Nat) :
    (∃ c, provide cfg (n + 1) (.cls sc sa) (.cls dc da) = .ok c) ↔
      ∀ d ∈ dfs, FieldAccepted (provide cfg n) (cfg.policy.allowed dc) sfs d :=
  model_first_ok_iff (rest := [.iterable, .dict, .optional, .unwrap, .sameType, .dstAny, .unionSubcase, .subclass])
    (by rw [hrecipe, builtinRecipe_eq]) hss hds n

/-- **Releasing one field does not release another**: if the rule that applies to the unlinked
    optional field `d` forbids it — or no rule of the user recipe matches `d`, so that the closing
    builtin policy answers — no converter is produced, whatever rules allow the *other* fields and
    wherever `d` stands in the declaration order. -/
theorem unlinked_refused_per_field (cfg : Cfg) (hrecipe : cfg.recipe = builtinRecipe)
    (rs : List PolicyRule) (hpol : cfg.policy = .rules rs)
    (sc dc : Nat) (sa da : List Ty) (sfs dfs : List Field)
    (hss : cfg.shape sc sa = some sfs) (hds : cfg.shape dc da = some dfs)
    (d : Field) (hd : d ∈ dfs) (hnone : ∀ s ∈ sfs, s.name ≠ d.name)
    (hforbid : (∃ r, RuleApplies dc d rs r ∧ r.allow = false) ∨ (∀ q ∈ rs, q.pred.holds dc d = false))
    (n : Nat) (c : Coercer) :
    provide cfg n (.cls sc sa) (.cls dc da) ≠ .ok c := by
  refine unlinked_refused cfg hrecipe sc dc sa da sfs dfs hss hds d hd hnone (.inr ?_) n c
  rw [hpol, policy_first_match]
  rcases hforbid with ⟨r, hr, ha⟩ | hnone'
  · exact .inl ⟨r, hr, ha⟩
  · exact .inr ⟨hnone', rfl⟩

/-- **The declaration order of the destination fields does not matter** for whether a converter
    exists: two destination classes whose shapes are permutations of each other (and that the
    policy treats alike) are accepted or refused together. -/
theorem declaration_order_irrelevant (cfg : Cfg) (hrecipe : cfg.recipe = builtinRecipe)
    (sc dc dc' : Nat) (sa da da' : List Ty) (sfs dfs dfs' : List Field)
    (hss : cfg.shape sc sa = some sfs) (hds : cfg.shape dc da = some dfs)
    (hds' : cfg.shape dc' da' = some dfs') (hperm : dfs.Perm dfs')
    (hpol : ∀ f, cfg.policy.allowed dc f = cfg.policy.allowed dc' f) (n : Nat) :
    (∃ c, provide cfg (n + 1) (.cls sc sa) (.cls dc da) = .ok c) ↔
      (∃ c, provide cfg (n + 1) (.cls sc sa) (.cls dc' da') = .ok c) := by
  rw [model_converter_iff cfg hrecipe sc dc sa da sfs dfs hss hds n,
    model_converter_iff cfg hrecipe sc dc' sa da' sfs dfs' hss hds' n]
  have hfun : cfg.policy.allowed dc = cfg.policy.allowed dc' := funext hpol
  rw [hfun]
  exact ⟨fun h d hd => h d (hperm.mem_iff.mpr hd), fun h d hd => h d (hperm.mem_iff.mp hd)⟩

/-- **No implicit coercion between scalar types**: two different non-generic, non-model
    classes outside the subclass relation are refused by every recipe. -/
theorem scalars_not_coerced (cfg : Cfg) (a b : Nat) (hsa : cfg.shape a [] = none) (hne : a ≠ b)
    (hsub : cfg.sub a b = false) (n : Nat) : provide cfg (n + 1) (.cls a []) (.cls b []) = .notFound := by
  unfold provide
  exact runRecipe_all_skip _ (step_scalars hsa hne hsub)

/-- **Iterables are converted element-wise only when the element types are coercible**
    (builtin recipe: the iterable provider answers before any as-is provider) — and the produced
    closure *is* the element-wise map of the element coercer into the destination's factory. -/
theorem iterable_elementwise (cfg : Cfg) (hrecipe : cfg.recipe = builtinRecipe) (src dst a b : Ty)
    (f : Conc) (hs : parseIterSrc src = some a) (hd : parseIterDst dst = some (f, b)) (n : Nat)
    (c : Coercer) (h : provide cfg (n + 1) src dst = .ok c) :
    ∃ ce, provide cfg n a b = .ok ce ∧ c.kind = .iterable ∧ c.run = iterRun f ce.run :=
  builtin_iterable hrecipe hs hd h

/-- same for dicts: key and value types must both be coercible -/
theorem dict_elementwise (cfg : Cfg) (hrecipe : cfg.recipe = builtinRecipe) (src dst sk sv dk dv : Ty)
    (hs : parseDictSrc src = some (sk, sv)) (hd : parseDictDst dst = some (dk, dv)) (n : Nat)
    (c : Coercer) (h : provide cfg (n + 1) src dst = .ok c) :
    ∃ kc vc, provide cfg n sk dk = .ok kc ∧ provide cfg n sv dv = .ok vc ∧ c.kind = .dict ∧
      c.run = dictRun kc.run vc.run :=
  builtin_dict hrecipe hs hd h

/-- same for `Optional`: the wrapped types must be coercible; the result is the as-is stub exactly when the
    wrapped coercer is the stub, otherwise `None ↦ None`, `x ↦ inner(x)` -/
theorem optional_elementwise (cfg : Cfg) (hrecipe : cfg.recipe = builtinRecipe) (src dst a b : Ty)
    (hs : IsOptionalOf src a) (hd : IsOptionalOf dst b) (ha : a ≠ .none) (hb : b ≠ .none) (n : Nat)
    (c : Coercer) (h : provide cfg (n + 1) src dst = .ok c) :
    ∃ ce, provide cfg n a b = .ok ce ∧
      ((ce.isAsIs = true ∧ c = asIsCoercer) ∨
       (ce.isAsIs = false ∧ c.kind = .optional ∧ c.run = optionalRun ce.run)) :=
  builtin_optional hrecipe hs hd ha hb h

/-- **The answer does not depend on the fuel** once it is not `outOfFuel`: the fuel only
    bounds the nesting the model explores, it never changes a verdict. -/
theorem fuel_irrelevant (cfg : Cfg) (n m : Nat) (src dst : Ty) (hnm : n ≤ m)
    (hne : provide cfg n src dst ≠ .outOfFuel) : provide cfg m src dst = provide cfg n src dst :=
  provide_stable_le cfg hne m hnm

/-! ### Witnesses: every hypothesis of the theorems above is satisfiable, together, on concrete data

  `wCfg p` (Lemmas/CoerceWitness.lean): object / int / bool ⊂ int / str, models `S{x: bool, z: str}`,
  `D{x: int, y: int = 0}`, `S2(S){…, w: int}`; `wSem` interprets the opaque types.  `wCfg_ok` proves
  `WorldOk (wCfg p) wSem` — all six assumptions on the class table at once. -/

/-- **the documented relation is not the total relation** (any class table): unrelated scalar classes are
    not `Coercible` — so `accepted_documented` says something and `refused_outside_relation` has instances -/
theorem relation_excludes_scalars (cfg : Cfg) (a b : Nat) (hsa : cfg.shape a [] = none) (hne : a ≠ b)
    (hsub : cfg.sub a b = false) : ¬ Coercible cfg (.cls a []) (.cls b []) :=
  not_coercible_scalars cfg a b hsa hne hsub

theorem worldOk_witness (p : Policy) : WorldOk (wCfg p) wSem := wCfg_ok p

/-- `soundness` with all hypotheses discharged: `List[S] -> Tuple[D, ...]` under `allow_unlinked_optional`,
    applied to a list holding an instance of the *subclass* `S2`; the conclusion is the theorem's, the
    computed result is shown by the `example` below. -/
theorem soundness_witness :
    ∃ c, provide (wCfg .allowAll) 8 (.iter .list (.cls 20 [])) (.iter .tuple (.cls 21 [])) = .ok c ∧
      WorldOk (wCfg .allowAll) wSem ∧
      HasTy (wCfg .allowAll) wSem (.iter .list (.cls 20 [])) (.seq .list [wS2Val, wS2Val]) ∧
      ∃ w, c.run (.seq .list [wS2Val, wS2Val]) = some w ∧ HasTy (wCfg .allowAll) wSem (.iter .tuple (.cls 21 [])) w := by
  have hv : HasTy (wCfg .allowAll) wSem (.iter .list (.cls 20 [])) (.seq .list [wS2Val, wS2Val]) :=
    .iter (by decide) (by
      intro x hx
      simp only [List.mem_cons, List.not_mem_nil, or_false, or_self] at hx
      subst hx
      exact wS2Val_hasTy _)
  have hk : (provide (wCfg .allowAll) 8 (.iter .list (.cls 20 [])) (.iter .tuple (.cls 21 []))).kind? = some .iterable := by
    decide
  cases h : provide (wCfg .allowAll) 8 (.iter .list (.cls 20 [])) (.iter .tuple (.cls 21 [])) with
  | ok c => exact ⟨c, rfl, wCfg_ok _, hv, soundness _ _ (wCfg_ok _) 8 _ _ c h _ hv⟩
  | notFound => rw [h] at hk; cases hk
  | outOfFuel => rw [h] at hk; cases hk

example : (provide (wCfg .allowAll) 8 (.iter .list (.cls 20 [])) (.iter .tuple (.cls 21 []))).run?
    (.seq .list [wS2Val, wS2Val]) =
      some (.seq .tuple [.obj 21 [(0, .atom 10 1), (1, .atom 9 0)], .obj 21 [(0, .atom 10 1), (1, .atom 9 0)]]) := by rfl

/-- `asis_documented` / `asis_unchanged` / `asIs_relation_sound`: `bool -> int` is answered by the stub, the
    documented relation holds for the pair, and `True` stays an instance of the destination -/
theorem asis_witness :
    ∃ c, provide (wCfg .builtin) 8 wBool wInt = .ok c ∧ c.isAsIs = true ∧
      AsIs (wCfg .builtin).sub wBool wInt ∧ c.run (.atom 10 1) = some (.atom 10 1) ∧
      HasTy (wCfg .builtin) wSem wInt (.atom 10 1) := by
  have hk : (provide (wCfg .builtin) 8 wBool wInt).kind? = some .asIs := by decide
  cases h : provide (wCfg .builtin) 8 wBool wInt with
  | ok c =>
    have hc : c.isAsIs = true := by
      rw [h] at hk
      simp only [Answer.kind?, Option.some.injEq] at hk
      simp [Coercer.isAsIs, hk]
    have hrel := asis_documented _ 8 _ _ c h hc
    exact ⟨c, rfl, hc, hrel, asis_unchanged _ _ (wCfg_ok _) 8 _ _ c h hc _,
      asIs_relation_sound _ _ (wCfg_ok _) _ _ hrel _ (.plain rfl rfl)⟩
  | notFound => rw [h] at hk; cases hk
  | outOfFuel => rw [h] at hk; cases hk

/-- `accepted_documented` on a model pair: the accepted pair `S2 -> D` is in the documented relation -/
theorem accepted_documented_witness :
    ∃ c, provide (wCfg .allowAll) 8 (.cls 22 []) (.cls 21 []) = .ok c ∧
      Coercible (wCfg .allowAll) (.cls 22 []) (.cls 21 []) := by
  have hk : (provide (wCfg .allowAll) 8 (.cls 22 []) (.cls 21 [])).kind? = some .model := by decide
  cases h : provide (wCfg .allowAll) 8 (.cls 22 []) (.cls 21 []) with
  | ok c => exact ⟨c, rfl, accepted_documented _ 8 _ _ c h⟩
  | notFound => rw [h] at hk; cases hk
  | outOfFuel => rw [h] at hk; cases hk

/-- `refused_outside_relation`: its hypothesis holds for `int -> str` (and for `List[int] -> List[str]` the
    model refuses, see the examples) -/
theorem refused_outside_relation_witness (p : Policy) (n : Nat) :
    ¬ Coercible (wCfg p) wInt wStr ∧ ∀ c, provide (wCfg p) n wInt wStr ≠ .ok c :=
  have h := relation_excludes_scalars (wCfg p) 9 11 rfl (by decide) rfl
  ⟨h, refused_outside_relation _ n _ _ h⟩

/-- `unlinked_refused`, both branches of its hypothesis: `S -> D` under the default policy (the optional
    `y` has no source) and `S -> S2` under `allow_unlinked_optional` (the *required* `w` has no source) -/
theorem unlinked_refused_witness (n : Nat) (c : Coercer) :
    provide (wCfg .builtin) n (.cls 20 []) (.cls 21 []) ≠ .ok c ∧
    provide (wCfg .allowAll) n (.cls 20 []) (.cls 22 []) ≠ .ok c :=
  ⟨unlinked_refused (wCfg .builtin) rfl 20 21 [] [] _ _ rfl rfl ⟨1, wInt, false⟩ (by simp)
      (by intro s hs; simp only [List.mem_cons, List.not_mem_nil, or_false] at hs; rcases hs with rfl | rfl <;> decide)
      (.inr rfl) n c,
   unlinked_refused (wCfg .allowAll) rfl 20 22 [] [] _ _ rfl rfl ⟨3, wInt, true⟩ (by simp)
      (by intro s hs; simp only [List.mem_cons, List.not_mem_nil, or_false] at hs; rcases hs with rfl | rfl <;> decide)
      (.inl rfl) n c⟩

theorem scalars_not_coerced_witness (p : Policy) (n : Nat) : provide (wCfg p) (n + 1) wInt wStr = .notFound :=
  scalars_not_coerced (wCfg p) 9 11 rfl (by decide) rfl n

/-- `iterable_elementwise` / `dict_elementwise` / `optional_elementwise` / `fuel_irrelevant` with their
    hypotheses discharged (`List[bool] -> Tuple[int, ...]`, `Dict[str, bool] -> Mapping[str, int]`,
    `Optional[List[bool]] -> Optional[Tuple[int, ...]]`) -/
theorem elementwise_witness :
    (∃ c ce, provide (wCfg .builtin) 5 (.iter .list wBool) (.iter .tuple wInt) = .ok c ∧
      provide (wCfg .builtin) 4 wBool wInt = .ok ce ∧ c.run = iterRun .tuple ce.run) ∧
    (∃ c kc vc, provide (wCfg .builtin) 5 (.map .dict wStr wBool) (.map .mapping wStr wInt) = .ok c ∧
      provide (wCfg .builtin) 4 wStr wStr = .ok kc ∧ provide (wCfg .builtin) 4 wBool wInt = .ok vc ∧
      c.run = dictRun kc.run vc.run) ∧
    (∃ c ce, provide (wCfg .builtin) 5 (.union [.iter .list wBool, .none]) (.union [.iter .tuple wInt, .none]) = .ok c ∧
      provide (wCfg .builtin) 4 (.iter .list wBool) (.iter .tuple wInt) = .ok ce ∧ c.run = optionalRun ce.run) ∧
    provide (wCfg .builtin) 50 (.iter .list wBool) (.iter .tuple wInt) =
      provide (wCfg .builtin) 5 (.iter .list wBool) (.iter .tuple wInt) := by
  refine ⟨?_, ?_, ?_, ?_⟩
  · have hk : (provide (wCfg .builtin) 5 (.iter .list wBool) (.iter .tuple wInt)).kind? = some .iterable := by decide
    cases h : provide (wCfg .builtin) 5 (.iter .list wBool) (.iter .tuple wInt) with
    | ok c =>
      obtain ⟨ce, h1, _, h3⟩ := iterable_elementwise (wCfg .builtin) rfl _ _ wBool wInt .tuple rfl rfl 4 c h
      exact ⟨c, ce, rfl, h1, h3⟩
    | notFound => rw [h] at hk; cases hk
    | outOfFuel => rw [h] at hk; cases hk
  · have hk : (provide (wCfg .builtin) 5 (.map .dict wStr wBool) (.map .mapping wStr wInt)).kind? = some .dict := by decide
    cases h : provide (wCfg .builtin) 5 (.map .dict wStr wBool) (.map .mapping wStr wInt) with
    | ok c =>
      obtain ⟨kc, vc, h1, h2, _, h4⟩ := dict_elementwise (wCfg .builtin) rfl _ _ wStr wBool wStr wInt rfl rfl 4 c h
      exact ⟨c, kc, vc, rfl, h1, h2, h4⟩
    | notFound => rw [h] at hk; cases hk
    | outOfFuel => rw [h] at hk; cases hk
  · have hk : (provide (wCfg .builtin) 5 (.union [.iter .list wBool, .none]) (.union [.iter .tuple wInt, .none])).kind?
        = some .optional := by decide
    cases h : provide (wCfg .builtin) 5 (.union [.iter .list wBool, .none]) (.union [.iter .tuple wInt, .none]) with
    | ok c =>
      obtain ⟨ce, h1, h2⟩ := optional_elementwise (wCfg .builtin) rfl _ _ (.iter .list wBool) (.iter .tuple wInt)
        (.left _) (.left _) (by intro e; cases e) (by intro e; cases e) 4 c h
      rcases h2 with ⟨_, rfl⟩ | ⟨_, _, h5⟩
      · rw [h] at hk; cases hk
      · exact ⟨c, ce, rfl, h1, h5⟩
    | notFound => rw [h] at hk; cases hk
    | outOfFuel => rw [h] at hk; cases hk
  · exact fuel_irrelevant (wCfg .builtin) 5 50 _ _ (by decide) (by
      intro h
      have hk : (provide (wCfg .builtin) 5 (.iter .list wBool) (.iter .tuple wInt)).kind? = some .iterable := by decide
      rw [h] at hk; cases hk)

/-! ### Non-vacuity: concrete evaluations of the model (tests, not theorems) -/

/-! ### Models in a generic class hierarchy: which type a field has

  `Cfg.shape` is a parameter of every theorem above ("field types are already resolved").
  `AdaptixModel/Conv/Hierarchy.lean` computes it for a chain of generic dataclasses
  (`declared` / `hierShape`); the theorems below say that this is the declared type in the
  sense of Python's typing rules (a relation, `Declares`), that a re-declaration in a child
  wins over what the subscribed parent says, and what that means for the converter. -/

/-- **`declared` computes declared types**: every field it lists has the type the nearest
    class annotating the name gives it, with that class' parameters replaced along the chain
    of base subscriptions (the relation `Declares`); for every hierarchy, binding and fuel. -/
theorem hier_declared_sound (H : Hier) (fuel i : Nat) (σ : Binding) (f : Field)
    (hf : f ∈ declared H fuel i σ) : Declares H i σ f.name f.ty := by
  induction fuel generalizing i σ with
  | zero => simp [declared] at hf
  | succ fuel ih =>
    rcases mem_declared_succ hf with h | ⟨b, hb, hin, hno⟩
    · obtain ⟨e, he, hn, ht, _⟩ := mem_ownFields h
      rw [hn, ht]
      exact .own i σ e he
    · exact .inherited i σ b f.name f.ty hb hno (ih b.cls _ hin)

/-- **A re-declaration wins over the inherited substitution**: when the body of class `i`
    annotates the name `e.name`, the declared type of that field of `H[i]` under `σ` is the
    class' own annotation with the class' *own* parameters replaced — whatever base the class
    has, however that base is subscribed and whatever it declares under the same name. -/
theorem hier_override_wins (H : Hier) (fuel i : Nat) (σ : Binding) (e : HField)
    (hnodup : ((H.cls i).own.map (·.name)).Nodup) (he : e ∈ (H.cls i).own)
    (f : Field) (hf : f ∈ declared H (fuel + 1) i σ) (hname : f.name = e.name) :
    f.ty = e.ann.inst σ ∧ f.required = e.required := by
  rcases mem_declared_succ hf with h | ⟨b, _, _, hno⟩
  · obtain ⟨e', he', hn, ht, hr⟩ := mem_ownFields h
    have : e' = e := eq_of_nodup_name hnodup he' he (hn.symm.trans hname)
    subst this
    exact ⟨ht, hr⟩
  · exact absurd hname.symm (hno e he)

/-- a name the class body does not mention is declared exactly as the base — subscribed as
    written in the class statement — declares it -/
theorem hier_inherited_from_base (H : Hier) (fuel i : Nat) (σ : Binding) (b : HBase)
    (hb : (H.cls i).base = some b) (f : Field) (hf : f ∈ declared H (fuel + 1) i σ)
    (hno : ∀ e ∈ (H.cls i).own, e.name ≠ f.name) :
    f ∈ declared H fuel b.cls (bindBase H σ b) := by
  rcases mem_declared_succ hf with h | ⟨b', hb', hin, _⟩
  · obtain ⟨e, he, hn, _, _⟩ := mem_ownFields h
    exact absurd hn.symm (hno e he)
  · rw [hb] at hb'
    cases hb'
    exact hin

/-- **The converter is decided by the re-declaring class' annotation** (source side): if the
    source model is class `i` of a hierarchy (its shape being the declared one), the body of
    class `i` re-declares the field `e.name`, and a converter into a model with a field `d`
    of that name exists, then the coercer search was answered for
    `e.ann[σ] → d.ty` — the child's own annotation under the use-site arguments, not the type
    the subscribed parent has for the field.  Contrapositive: if that pair is refused, so is
    the model pair (`Child[str] → Dst(value: int)` with `Child(Parent[int], Generic[T]): value: T`). -/
theorem hier_redeclared_field_decides (cfg : Cfg) (hrecipe : cfg.recipe = builtinRecipe)
    (H : Hier) (fuel i : Nat) (σ : Binding) (e : HField)
    (hnodup : ((H.cls i).own.map (·.name)).Nodup) (he : e ∈ (H.cls i).own)
    (sc dc : Nat) (sa da : List Ty) (dfs : List Field)
    (hss : cfg.shape sc sa = some (declared H (fuel + 1) i σ)) (hds : cfg.shape dc da = some dfs)
    (d : Field) (hd : d ∈ dfs) (hdn : d.name = e.name) (n : Nat)
    (hconv : ∃ c, provide cfg (n + 1) (.cls sc sa) (.cls dc da) = .ok c) :
    ∃ c, provide cfg n (e.ann.inst σ) d.ty = .ok c := by
  have hacc := (model_converter_iff cfg hrecipe sc dc sa da _ dfs hss hds n).mp hconv d hd
  cases hacc with
  | linked hfind hok =>
    rename_i s c
    have hs : s ∈ declared H (fuel + 1) i σ := List.mem_of_find?_eq_some hfind
    have hsn : s.name = d.name := by simpa using List.find?_some hfind
    have := (hier_override_wins H fuel i σ e hnodup he s hs (hsn.trans hdn)).1
    exact ⟨c, this ▸ hok⟩
  | skipped hnone _ _ =>
    obtain ⟨f, hf, hfn⟩ := declared_has_own (H := H) (fuel := fuel) (σ := σ) he
    exact absurd (hfn.trans hdn.symm) (hnone f hf)

/-- destination side: the field of the destination model `H[i][σ]` that class `i` re-declares
    is asked for with the child's own annotation as destination type -/
theorem hier_redeclared_dst_field_decides (cfg : Cfg) (hrecipe : cfg.recipe = builtinRecipe)
    (H : Hier) (fuel i : Nat) (σ : Binding) (e : HField)
    (hnodup : ((H.cls i).own.map (·.name)).Nodup) (he : e ∈ (H.cls i).own)
    (sc dc : Nat) (sa da : List Ty) (sfs : List Field)
    (hss : cfg.shape sc sa = some sfs) (hds : cfg.shape dc da = some (declared H (fuel + 1) i σ))
    (s : Field) (hs : findSource e.name sfs = some s) (hreq : e.required = true) (n : Nat)
    (hconv : ∃ c, provide cfg (n + 1) (.cls sc sa) (.cls dc da) = .ok c) :
    ∃ c, provide cfg n s.ty (e.ann.inst σ) = .ok c := by
  obtain ⟨d, hd, hdn⟩ := declared_has_own (H := H) (fuel := fuel) (σ := σ) he
  have hacc := (model_converter_iff cfg hrecipe sc dc sa da sfs _ hss hds n).mp hconv d hd
  have hty := hier_override_wins H fuel i σ e hnodup he d hd hdn
  cases hacc with
  | linked hfind hok =>
    rename_i s' c
    rw [hdn, hs] at hfind
    cases hfind
    exact ⟨c, hty.1 ▸ hok⟩
  | skipped _ hopt _ =>
    rw [hty.2, hreq] at hopt
    cases hopt

section Examples

/-- classes: 8 = object, 9 = int, 10 = bool, 11 = str, 20/21 = models `S{x: ?}` / `D{x: ?, y: int = …}` -/
private def exSub (a b : Nat) : Bool := a == b || b == 8 || (a == 10 && b == 9)
private def tInt : Ty := .cls 9 []
private def tBool : Ty := .cls 10 []
private def tStr : Ty := .cls 11 []
private def opt (t : Ty) : Ty := .union [t, .none]
private def exCfg (policy : Policy) (sx dx : Ty) : Cfg :=
  { sub := exSub
    shape := fun c a => if c == 20 && a.isEmpty then some [⟨0, sx, true⟩]
      else if c == 21 && a.isEmpty then some [⟨0, dx, true⟩, ⟨1, tInt, false⟩] else none
    dflt := fun _ _ => .atom 9 0
    policy := policy
    recipe := builtinRecipe }
private def ask (policy : Policy) (sx dx : Ty) : Answer := provide (exCfg policy sx dx) 8 sx dx
private def askModel (policy : Policy) (sx dx : Ty) : Answer :=
  provide (exCfg policy sx dx) 8 (.cls 20 []) (.cls 21 [])

-- accepted as is
example : (ask .builtin tBool tInt).kind? = some .asIs := by decide
example : (ask .builtin tInt (opt tInt)).kind? = some .asIs := by decide
example : (ask .builtin (opt tBool) (opt tInt)).kind? = some .asIs := by decide
example : (ask .builtin (.union [tInt, tStr]) (.union [tInt, .none, tStr])).kind? = some .asIs := by decide
-- compound, element-wise
example : (ask .builtin (.iter .list tBool) (.iter .tuple tInt)).kind? = some .iterable := by decide
example : (ask .builtin (.iter .list tBool) (.iter .tuple tInt)).run? (.seq .list [.atom 10 1])
    = some (.seq .tuple [.atom 10 1]) := by rfl
example : (ask .builtin (.map .dict tStr tBool) (.map .mapping tStr tInt)).kind? = some .dict := by decide
-- refused
example : (ask .builtin tInt tStr).isNotFound = true := by decide
example : (ask .builtin tInt tBool).isNotFound = true := by decide
example : (ask .builtin (.iter .list tInt) (.iter .list tStr)).isNotFound = true := by decide
-- the repaired defects: `List[int] -> Optional[List[str]]`, `Union[int, str, None] -> Optional[int]`
example : (ask .builtin (.iter .list tInt) (opt (.iter .list tStr))).isNotFound = true := by decide
example : (ask .builtin (.iter .list tInt) (opt (.iter .list tInt))).kind? = some .asIs := by decide
example : (ask .builtin (.union [tInt, tStr, .none]) (opt tInt)).isNotFound = true := by decide
-- models: the optional field `y` has no source; default policy refuses, allow accepts
example : (askModel .builtin tBool tInt).isNotFound = true := by decide
example : (askModel .allowAll tBool tInt).kind? = some .model := by decide
example : (askModel (.allowNames [1]) tBool tInt).kind? = some .model := by decide
example : (askModel (.allowNames [0]) tBool tInt).isNotFound = true := by decide
example : (askModel .allowAll tInt tStr).isNotFound = true := by decide
example : (askModel .allowAll tBool tInt).run? (.obj 20 [(0, .atom 10 1)])
    = some (.obj 21 [(0, .atom 10 1), (1, .atom 9 0)]) := by rfl

-- several unlinked optional fields, field-specific rules: `D3{x: int, y: int = …, z: int = …}` (class 23),
-- `D3r` (class 24) declares `z` before `y`; the source `S{x: bool}` links only `x`
private def polCfg (policy : Policy) : Cfg :=
  { sub := exSub
    shape := fun c a => if c == 20 && a.isEmpty then some [⟨0, tBool, true⟩]
      else if c == 23 && a.isEmpty then some [⟨0, tInt, true⟩, ⟨1, tInt, false⟩, ⟨2, tStr, false⟩]
      else if c == 24 && a.isEmpty then some [⟨0, tInt, true⟩, ⟨2, tStr, false⟩, ⟨1, tInt, false⟩] else none
    dflt := fun _ _ => .atom 9 0
    policy := policy
    recipe := builtinRecipe }
private def askPol (rs : List PolicyRule) (dc : Nat) : Answer := provide (polCfg (.rules rs)) 8 (.cls 20 []) (.cls dc [])
private def fY : FieldPred := .names [1]
private def fZ : FieldPred := .names [2]

-- `allow_unlinked_optional(P[D3].y)`: `z` is still forbidden, in either declaration order
example : (askPol [⟨.under 23 fY, true⟩] 23).isNotFound = true := by decide
example : (askPol [⟨.under 24 fY, true⟩] 24).isNotFound = true := by decide
example : (askPol [⟨.under 23 fZ, true⟩] 23).isNotFound = true := by decide
-- both released (one call with two predicates / two calls)
example : (askPol [⟨.or (.under 23 fY) (.under 23 fZ), true⟩] 23).kind? = some .model := by decide
example : (askPol [⟨fZ, true⟩, ⟨fY, true⟩] 24).kind? = some .model := by decide
-- a rule about another class does not apply
example : (askPol [⟨.under 24 .any, true⟩] 23).isNotFound = true := by decide
-- first match wins: forbid(z) before allow(ANY) refuses, after it is shadowed
example : (askPol [⟨fZ, false⟩, ⟨.any, true⟩] 23).isNotFound = true := by decide
example : (askPol [⟨.any, true⟩, ⟨fZ, false⟩] 23).kind? = some .model := by decide
-- predicate on the field's own type: `allow_unlinked_optional(int)` releases `y: int`, not `z: str`
example : (askPol [⟨.tyCls 9, true⟩] 23).isNotFound = true := by decide
example : (askPol [⟨.tyCls 9, true⟩, ⟨.not fY, true⟩] 23).kind? = some .model := by decide
example : (askPol [⟨fZ, true⟩, ⟨fY, true⟩] 24).run? (.obj 20 [(0, .atom 10 1)])
    = some (.obj 24 [(0, .atom 10 1), (2, .atom 9 0), (1, .atom 9 0)]) := by rfl

/-- `unlinked_refused_per_field` with its hypotheses discharged: `allow_unlinked_optional(P[D3].y)` applies to
    `y` only; no rule matches `z`, the converter is refused although `y` (declared first) was released -/
example (n : Nat) (c : Coercer) :
    provide (polCfg (.rules [⟨.under 23 fY, true⟩])) n (.cls 20 []) (.cls 23 []) ≠ .ok c :=
  unlinked_refused_per_field _ rfl [⟨.under 23 fY, true⟩] rfl 20 23 [] [] _ _ rfl rfl ⟨2, tStr, false⟩ (by simp)
    (by intro s hs; simp only [List.mem_cons, List.not_mem_nil, or_false] at hs; subst hs; decide)
    (.inr (by intro q hq; simp only [List.mem_cons, List.not_mem_nil, or_false] at hq; subst hq; decide)) n c

-- generic hierarchy: `class P(Generic[T]): a: T; b: T`, `class C(P[int], Generic[T]): a: T` (0 = T; fields 0 = a, 1 = b),
-- `class R(P[int]): a: list` (non-generic child, bare generic re-declaration)
private def exHier : Hier :=
  [ { params := [0], base := none, own := [⟨0, .var 0, true⟩, ⟨1, .var 0, true⟩] },
    { params := [0], base := some ⟨0, some [.const tInt]⟩, own := [⟨0, .var 0, true⟩] },
    { params := [], base := some ⟨0, some [.const tInt]⟩, own := [⟨0, .const (.iter .list .any), true⟩] },
    { params := [0], base := some ⟨0, none⟩, own := [⟨0, .iter .list (.var 0), true⟩] } ]
-- `C[str]`: a: str (the child's annotation under the use-site argument), b: int (through `P[int]`)
example : fieldsBeq (hierShape exHier 1 [tStr]) [⟨0, tStr, true⟩, ⟨1, tInt, true⟩] = true := by decide
-- `P[str]`: both fields str;  `R`: a: list[Any], b: int;  a bare parent gives Any
example : fieldsBeq (hierShape exHier 0 [tStr]) [⟨0, tStr, true⟩, ⟨1, tStr, true⟩] = true := by decide
example : fieldsBeq (hierShape exHier 2 []) [⟨0, .iter .list .any, true⟩, ⟨1, tInt, true⟩] = true := by decide
example : fieldsBeq (hierShape exHier 3 [tStr]) [⟨0, .iter .list tStr, true⟩, ⟨1, .any, true⟩] = true := by decide
-- the conversion over declared shapes: `C[str] -> D(a: int)` is refused, `C[str] -> D(a: str)` and `C[int] -> D(a: int)` exist
private def hierCfg (arg dx : Ty) : Cfg :=
  { sub := exSub
    shape := fun c a => if c == 30 then some (hierShape exHier 1 [arg])
      else if c == 21 && a.isEmpty then some [⟨0, dx, true⟩] else none
    dflt := fun _ _ => .atom 9 0
    policy := .builtin
    recipe := builtinRecipe }
example : (provide (hierCfg tStr tInt) 8 (.cls 30 [tStr]) (.cls 21 [])).isNotFound = true := by decide
example : (provide (hierCfg tStr tStr) 8 (.cls 30 [tStr]) (.cls 21 [])).kind? = some .model := by decide
example : (provide (hierCfg tInt tInt) 8 (.cls 30 [tInt]) (.cls 21 [])).kind? = some .model := by decide

end Examples

end Adaptix.Conv.C14
