/-
  C15 helper lemmas, part 5: every rewrite rule of `Equiv` is respected by `normalize`.
-/
import AdaptixProofs.Lemmas.NormUnion

set_option linter.unusedSectionVars false

namespace Adaptix.Types

variable {α : Type} [DecidableEq α] (W : World α)

/-! ### union normal forms have at least two distinct members -/

theorem collapse_of_length_ne_one (m : List (Norm α)) (h : m.length ≠ 1) : collapse W m = mkUnion W m := by
  match m with
  | [] => rfl
  | [x] => simp at h
  | a :: b :: t => rfl

theorem remake_not_union_of_not_union {x : Norm α} (h : isUnionNorm x = false) : isUnionNorm (remake W x) = false := by
  cases x with
  | node o args => cases o <;> simp_all [remake, isUnionNorm, mkLiteral]
  | ellipsis => rfl
  | lit v => rfl
  | mdata m => rfl

theorem collapse_union_nf (m : List (Norm α)) (hn : m.Nodup) (h1 : ∀ x, x ∈ m → isUnionNorm x = false)
    (args : List (Norm α)) (h : collapse W m = .node .union args) : args.Nodup ∧ args.length ≠ 1 := by
  by_cases hl : m.length = 1
  · match m, hl with
    | [x], _ =>
      simp only [collapse] at h
      have := remake_not_union_of_not_union W (h1 x (by simp))
      rw [h] at this
      cases this
  · rw [collapse_of_length_ne_one W m hl] at h
    simp only [mkUnion, Norm.node.injEq, true_and] at h
    subst h
    exact ⟨stableSort_nodup _ hn, by rw [stableSort_length]; exact hl⟩

theorem finishUnion_union_nf (l : List (Norm α)) (hl : ∀ x, x ∈ l → isUnionNorm x = false)
    (args : List (Norm α)) (h : finishUnion W l = .node .union args) : args.Nodup ∧ args.length ≠ 1 := by
  refine collapse_union_nf W _ (mergeLiterals_nodup W _ (dedupNorms_nodup l)) ?_ args h
  intro x hx
  rcases mem_mergeLiterals_cases W _ x hx with ⟨h, _⟩ | h
  · exact hl x ((mem_dedupNorms x l).mp h)
  · rw [h]; rfl

theorem noneN_ne_createNormLiteral (vs : List (LitVal α)) : (noneN : Norm α) ≠ createNormLiteral W vs := by
  simp [noneN, createNormLiteral, mkLiteral]

theorem optional_flat_not_union (h : Hint α) : ∀ x, x ∈ unfoldUnion [normalize W h, noneN] → isUnionNorm x = false := by
  intro x hx
  rw [unfoldUnion_cons, unfoldUnion_cons] at hx
  simp only [unfoldUnion, List.append_nil, List.mem_append] at hx
  rcases hx with hx | hx
  · exact alts_normalize_not_union W h x hx
  · simp [noneN, alts] at hx; rw [hx]; rfl

theorem normalize_union_nf : ∀ (h : Hint α) (args : List (Norm α)),
    normalize W h = .node .union args → args.Nodup ∧ args.length ≠ 1
  | .none _, args, e => by simp [normalize, noneN] at e
  | .any, args, e => by simp [normalize, anyN] at e
  | .cls _, args, e => by simp [normalize] at e
  | .newType _, args, e => by simp [normalize] at e
  | .typeVar _ _ _, args, e => by simp [normalize] at e
  | .bare _ _ _, args, e => by simp [normalize] at e
  | .app _ _ _, args, e => by simp [normalize] at e
  | .tupleBare _, args, e => by simp [normalize] at e
  | .tupleVar _ _, args, e => by simp [normalize] at e
  | .tupleFix _ _, args, e => by simp [normalize] at e
  | .typeBare _, args, e => by simp [normalize] at e
  | .typeOf _ h, args, e => by
    simp only [normalize] at e
    cases hn : normalize W h with
    | node o a' =>
      rw [hn] at e
      cases o <;> simp only [normType, Norm.node.injEq, reduceCtorEq, false_and] at e
      have ih := normalize_union_nf h a' hn
      simp only [mkUnion, Norm.node.injEq, true_and] at e
      subst e
      refine ⟨stableSort_nodup _ ?_, by rw [stableSort_length, List.length_map]; exact ih.2⟩
      exact List.Pairwise.map _ (fun x y hxy hxy' => hxy (by simpa using hxy')) ih.1
    | ellipsis => rw [hn] at e; simp [normType] at e
    | lit v => rw [hn] at e; simp [normType] at e
    | mdata m => rw [hn] at e; simp [normType] at e
  | .union _ ms, args, e => by
    simp only [normalize, normUnion_eq] at e
    exact finishUnion_union_nf W _ (unfold_normalizeList_not_union W ms) args e
  | .optional h, args, e => by
    simp only [normalize, normUnion_eq] at e
    exact finishUnion_union_nf W _ (optional_flat_not_union W h) args e
  | .literal vs, args, e => by
    simp only [normalize, normLiteral] at e
    split at e
    · simp [noneN] at e
    · split at e
      · simp only [mkUnion, Norm.node.injEq, true_and] at e
        subst e
        refine ⟨stableSort_nodup _ ?_, by rw [stableSort_length]; simp⟩
        simp [noneN_ne_createNormLiteral]
      · simp [mkLiteral] at e
  | .annotated h ms, args, e => by
    simp only [normalize] at e
    obtain ⟨a', e'⟩ := normAnnotated_isNode (normalize W h) (ms.map Norm.mdata)
    rw [e'] at e
    simp at e

/-! ### `Union[X]` is `X` -/

theorem collectLits_single_nonlit {n : Norm α} (h : isLiteralNorm n = false) : collectLits [n] = [] := by
  cases n with
  | node o args => cases o <;> simp_all [collectLits, isLiteralNorm]
  | ellipsis => rfl
  | lit v => rfl
  | mdata m => rfl

theorem finishUnion_single_other {n : Norm α} (h1 : isUnionNorm n = false) (h2 : isLiteralNorm n = false) :
    finishUnion W [n] = n := by
  simp [finishUnion, dedupNorms, mergeLiterals, collectLits_single_nonlit h2, h2, collapse, remake_of_other W h1 h2]

theorem reach_alts_normalize (h : Hint α) : ∀ x, x ∈ alts (normalize W h) → Reach W x := fun _ hx => .inl ⟨h, hx⟩

/-- re-normalising the alternatives of a normalised union gives the union back -/
theorem finishUnion_alts_finishUnion (hK : DistinctOrderKeys W) (l : List (Norm α))
    (hl : ∀ x, x ∈ l → isUnionNorm x = false) (hr : ∀ x, x ∈ alts (finishUnion W l) → Reach W x) :
    finishUnion W (alts (finishUnion W l)) = finishUnion W l :=
  finishUnion_congr W hK _ _ hr (alts_finishUnion_content W l hl)

theorem finishUnion_mkLiteral (vs : List (LitVal α)) (hn : vs.Nodup) (hne : vs ≠ []) :
    finishUnion W [mkLiteral W vs] = mkLiteral W vs := by
  have hs : sortLits W vs ≠ [] := by
    intro e
    apply hne
    apply List.eq_nil_iff_forall_not_mem.mpr
    intro x hx
    have := (mem_sortLits W x vs).mpr hx
    rw [e] at this; cases this
  have hd : dedupLits (sortLits W vs) = sortLits W vs := dedupLits_of_nodup _ (stableSort_nodup _ hn)
  simp only [finishUnion, dedupNorms, List.filter_nil, mergeLiterals, mkLiteral, isLiteralNorm, Bool.not_true,
    List.filter_cons_of_neg, Bool.false_eq_true, not_false_eq_true, collectLits, litArgs_map_lit, List.append_nil, hs,
    if_false, List.nil_append, collapse, createNormLiteral, hd, remake, sortLits_idem]

theorem erase_none_ne_nil (vs : List (LitVal α)) (hn : vs.Nodup) (hmem : LitVal.none ∈ vs) (hne : vs ≠ [.none]) :
    vs.erase .none ≠ [] := by
  intro e
  apply hne
  have hlen : vs.length = 1 := by
    have h1 := List.length_erase_of_mem hmem
    rw [e] at h1
    have h2 : 0 < vs.length := List.length_pos_of_mem hmem
    simp only [List.length_nil] at h1
    omega
  match vs, hlen with
  | [x], _ =>
    simp at hmem
    rw [hmem]

theorem finishUnion_literal_with_none (hK : DistinctOrderKeys W) (vs : List (LitVal α)) (hn : vs.Nodup)
    (hmem : LitVal.none ∈ vs) (hne : vs ≠ [.none]) :
    finishUnion W (alts (mkUnion W [noneN, createNormLiteral W (vs.erase .none)]))
      = mkUnion W [noneN, createNormLiteral W (vs.erase .none)] := by
  have hreach : ∀ x, x ∈ alts (mkUnion W [noneN, createNormLiteral W (vs.erase .none)]) → Reach W x := by
    intro x hx
    rw [alts_mkUnion, mem_stableSort] at hx
    simp only [List.mem_cons, List.not_mem_nil, or_false] at hx
    rcases hx with rfl | rfl
    · exact .inl ⟨.none false, by simp [normalize, noneN, alts]⟩
    · exact reach_createNormLiteral W _
  rw [finishUnion_congr W hK _ [noneN, createNormLiteral W (vs.erase .none)] hreach
    (SameContent.of_mem_iff (fun x => by rw [alts_mkUnion, mem_stableSort]))]
  have he : vs.erase .none ≠ [] := erase_none_ne_nil vs hn hmem hne
  have hd : dedupLits (vs.erase .none) ≠ [] := by
    intro e
    apply he
    apply List.eq_nil_iff_forall_not_mem.mpr
    intro x hx
    have := (mem_dedupLits x _).mpr hx
    rw [e] at this; cases this
  have hs : sortLits W (dedupLits (vs.erase .none)) ≠ [] := by
    intro e
    apply hd
    apply List.eq_nil_iff_forall_not_mem.mpr
    intro x hx
    have := (mem_sortLits W x _).mpr hx
    rw [e] at this; cases this
  have hdd : dedupLits (sortLits W (dedupLits (vs.erase .none))) = sortLits W (dedupLits (vs.erase .none)) :=
    dedupLits_of_nodup _ (stableSort_nodup _ (dedupLits_nodup _))
  have hne' : createNormLiteral W (vs.erase .none) ≠ (noneN : Norm α) := (noneN_ne_createNormLiteral W _).symm
  simp only [finishUnion, dedupNorms, List.filter_nil, ne_eq, hne', not_false_eq_true, decide_true,
    List.filter_cons_of_pos, mergeLiterals]
  simp only [createNormLiteral, mkLiteral, noneN, isLiteralNorm, Bool.not_false, Bool.not_true,
    List.filter_cons_of_pos, List.filter_cons_of_neg, Bool.false_eq_true, not_false_eq_true, List.filter_nil,
    collectLits, litArgs_map_lit, List.append_nil, hs, if_false, hdd, sortLits_idem, collapse, List.cons_append,
    List.nil_append]

theorem finishUnion_normType_union (a' : List (Norm α)) (hn : a'.Nodup) (hlen : a'.length ≠ 1) :
    finishUnion W (alts (mkUnion W (a'.map fun a => Norm.node .type [a]))) = mkUnion W (a'.map fun a => Norm.node .type [a]) := by
  rw [alts_mkUnion]
  have hts : (a'.map fun a => Norm.node .type [a]).Nodup :=
    List.Pairwise.map _ (fun x y hxy hxy' => hxy (by simpa using hxy')) hn
  have hmem : ∀ x, x ∈ stableSort (fun a b => (orderKey W a).le (orderKey W b)) (a'.map fun a => Norm.node .type [a]) →
      isLiteralNorm x = false := by
    intro x hx
    rw [mem_stableSort, List.mem_map] at hx
    obtain ⟨a, _, rfl⟩ := hx
    rfl
  have hcl : ∀ l : List (Norm α), (∀ x, x ∈ l → isLiteralNorm x = false) → collectLits l = [] := by
    intro l hl
    apply List.eq_nil_iff_forall_not_mem.mpr
    intro v hv
    obtain ⟨args, h, _⟩ := (mem_collectLits v l).mp hv
    have := hl _ h
    simp [isLiteralNorm] at this
  unfold finishUnion
  rw [dedupNorms_of_nodup _ (stableSort_nodup _ hts)]
  unfold mergeLiterals
  simp only [hcl _ hmem, if_true]
  rw [List.filter_eq_self.mpr (fun x hx => by simp [hmem x hx])]
  rw [collapse_of_length_ne_one W _ (by rw [stableSort_length, List.length_map]; exact hlen)]
  simp only [mkUnion, stableSort_idem _ (keyLe_total W) (keyLe_trans W)]

/-- **`Union[X]` normalises like `X`** (for a hint as `typing` builds it) -/
theorem finishUnion_alts_normalize (hK : DistinctOrderKeys W) : ∀ (x : Hint α), TopLitOK x →
    finishUnion W (alts (normalize W x)) = normalize W x
  | .none _, _ => by simpa [normalize, noneN, alts] using finishUnion_single_other W (n := noneN) rfl rfl
  | .any, _ => by simpa [normalize, anyN, alts] using finishUnion_single_other W (n := anyN) rfl rfl
  | .cls a, _ => by simpa [normalize, alts] using finishUnion_single_other W (n := .node (.obj a) []) rfl rfl
  | .newType a, _ => by simpa [normalize, alts] using finishUnion_single_other W (n := .node (.obj a) []) rfl rfl
  | .typeVar a _ _, _ => by simpa [normalize, alts] using finishUnion_single_other W (n := .node (.obj a) []) rfl rfl
  | .bare _ a ps, _ => by
    simpa [normalize, alts] using finishUnion_single_other W (n := .node (.obj a) (implicitList W ps)) rfl rfl
  | .app _ a args, _ => by
    simpa [normalize, alts] using finishUnion_single_other W (n := .node (.obj a) (normalizeList W args)) rfl rfl
  | .tupleBare _, _ => by
    simpa [normalize, alts] using finishUnion_single_other W (n := .node .tuple [anyN, .ellipsis]) rfl rfl
  | .tupleVar _ h, _ => by
    simpa [normalize, alts] using finishUnion_single_other W (n := .node .tuple [normalize W h, .ellipsis]) rfl rfl
  | .tupleFix _ hs, _ => by
    simpa [normalize, alts] using finishUnion_single_other W (n := .node .tuple (normalizeList W hs)) rfl rfl
  | .typeBare _, _ => by
    simpa [normalize, alts] using finishUnion_single_other W (n := .node .type [anyN]) rfl rfl
  | .typeOf _ h, _ => by
    simp only [normalize]
    have generic : ∀ m : Norm α, finishUnion W (alts (Norm.node .type [m])) = Norm.node .type [m] := by
      intro m; simpa [alts] using finishUnion_single_other W (n := .node .type [m]) rfl rfl
    cases hn : normalize W h with
    | node o a' =>
      cases o <;> try exact generic _
      have nf := normalize_union_nf W h a' hn
      simp only [normType]
      exact finishUnion_normType_union W a' nf.1 nf.2
    | ellipsis => exact generic _
    | lit v => exact generic _
    | mdata m => exact generic _
  | .union o ms, _ => by
    simp only [normalize, normUnion_eq]
    refine finishUnion_alts_finishUnion W hK _ (unfold_normalizeList_not_union W ms) ?_
    intro x hx
    exact .inl ⟨.union o ms, by simpa [normalize, normUnion_eq] using hx⟩
  | .optional h, _ => by
    simp only [normalize, normUnion_eq]
    refine finishUnion_alts_finishUnion W hK _ (optional_flat_not_union W h) ?_
    intro x hx
    exact .inl ⟨.optional h, by simpa [normalize, normUnion_eq] using hx⟩
  | .literal vs, hok => by
    simp only [normalize, normLiteral]
    split
    · simpa [noneN, alts] using finishUnion_single_other W (n := noneN) rfl rfl
    · split
      · rename_i hne hmem
        exact finishUnion_literal_with_none W hK vs hok.1 hmem hne
      · simpa [mkLiteral, alts] using finishUnion_mkLiteral W vs hok.1 hok.2
  | .annotated h ms, _ => by
    simp only [normalize]
    obtain ⟨args, e⟩ := normAnnotated_isNode (normalize W h) (ms.map Norm.mdata)
    rw [e]
    simpa [alts] using finishUnion_single_other W (n := .node .annotated args) rfl rfl

/-! ### literals -/

theorem normLiteral_congr (hK : DistinctOrderKeys W) (vs ws : List (LitVal α)) (n1 : vs.Nodup) (n2 : ws.Nodup)
    (hm : ∀ v, v ∈ vs ↔ v ∈ ws) : normLiteral W vs = normLiteral W ws := by
  have hsingle : vs = [.none] ↔ ws = [.none] := by
    have aux : ∀ (l1 l2 : List (LitVal α)), l1.Nodup → l2.Nodup → (∀ v, v ∈ l1 ↔ v ∈ l2) → l1 = [.none] → l2 = [.none] := by
      intro l1 l2 _ d2 h e
      subst e
      exact (List.singleton_perm.mp ((List.perm_ext_iff_of_nodup (by simp) d2).mpr h)).symm
    exact ⟨aux vs ws n1 n2 hm, aux ws vs n2 n1 (fun v => (hm v).symm)⟩
  unfold normLiteral
  by_cases h1 : vs = [.none]
  · simp [h1, hsingle.mp h1]
  · have h2 : ¬ ws = [.none] := fun e => h1 (hsingle.mpr e)
    simp only [h1, h2, if_false]
    by_cases h3 : LitVal.none ∈ vs
    · have h4 : LitVal.none ∈ ws := (hm _).mp h3
      simp only [h3, h4, if_true]
      rw [createNormLiteral_congr W hK (vs.erase .none) (ws.erase .none)]
      intro x
      rw [n1.mem_erase_iff, n2.mem_erase_iff, hm x]
    · have h4 : ¬ LitVal.none ∈ ws := fun e => h3 ((hm _).mpr e)
      simp only [h3, h4, if_false]
      exact mkLiteral_congr W hK vs ws n1 n2 hm

/-- the content of a normalised `Literal[...]`: `None` as a member iff it is among
    the values, and the remaining values -/
theorem normLiteral_content (vs : List (LitVal α)) (hn : vs.Nodup) :
    (∀ n, isLiteralNorm n = false → (n ∈ alts (normLiteral W vs) ↔ (n = noneN ∧ LitVal.none ∈ vs))) ∧
    (∀ v, v ∈ collectLits (alts (normLiteral W vs)) ↔ (v ∈ vs ∧ v ≠ .none)) := by
  unfold normLiteral
  by_cases h1 : vs = [.none]
  · subst h1
    simp only [if_true]
    constructor
    · intro n _; simp [noneN, alts]
    · intro v; simp [noneN, alts, collectLits]
  · simp only [h1, if_false]
    by_cases h3 : LitVal.none ∈ vs
    · simp only [h3, if_true, alts_mkUnion]
      constructor
      · intro n hn'
        rw [mem_stableSort]
        simp only [List.mem_cons, List.not_mem_nil, or_false, and_true]
        constructor
        · rintro (h | h)
          · exact h
          · rw [h] at hn'; cases hn'
        · exact fun h => .inl h
      · intro v
        rw [mem_collectLits]
        constructor
        · rintro ⟨args, hmem, hv⟩
          rw [mem_stableSort] at hmem
          simp only [List.mem_cons, List.not_mem_nil, or_false] at hmem
          rcases hmem with h | h
          · simp [noneN] at h
          · have := (mem_litArgs_createNormLiteral W _ args h.symm v).mp hv
            rw [hn.mem_erase_iff] at this
            exact ⟨this.2, this.1⟩
        · rintro ⟨hv, hne⟩
          refine ⟨_, (mem_stableSort _ _ _).mpr (by simp; exact .inr rfl), ?_⟩
          simp only [litArgs_map_lit, mem_sortLits, mem_dedupLits, hn.mem_erase_iff]
          exact ⟨hne, hv⟩
    · simp only [h3, if_false]
      constructor
      · intro n hn'
        simp only [mkLiteral, alts, List.mem_singleton, and_false, iff_false]
        intro e; rw [e] at hn'; cases hn'
      · intro v
        simp only [mkLiteral, alts, collectLits, litArgs_map_lit, List.append_nil, mem_sortLits]
        constructor
        · intro hv; exact ⟨hv, fun e => h3 (e ▸ hv)⟩
        · exact fun h => h.1

/-! ### the other rules -/

theorem normalizeList_append (l1 l2 : List (Hint α)) :
    normalizeList W (l1 ++ l2) = normalizeList W l1 ++ normalizeList W l2 := by
  simp [normalizeList_eq_map]

theorem implicitParam_eq (p : Hint α) : implicitParam W p = normalize W (deriveDefault p) := by
  cases p with
  | typeVar a c lim =>
    cases c
    · cases lim <;> simp [implicitParam, deriveDefault, normalize]
    · simp [implicitParam, deriveDefault, normalize]
  | _ => simp [implicitParam, deriveDefault, normalize]

theorem implicitList_eq (ps : List (Hint α)) : implicitList W ps = normalizeList W (ps.map deriveDefault) := by
  induction ps with
  | nil => rfl
  | cons p ps ih => simp [implicitList, normalizeList, implicitParam_eq, ih]

theorem implicitList_append (l1 l2 : List (Hint α)) :
    implicitList W (l1 ++ l2) = implicitList W l1 ++ implicitList W l2 := by
  simp [implicitList_eq, normalizeList_append]

theorem normAnnotated_flat (n : Norm α) (m1 m2 : List Str) :
    normAnnotated (normAnnotated n (m1.map Norm.mdata)) (m2.map Norm.mdata) = normAnnotated n ((m1 ++ m2).map Norm.mdata) := by
  cases n with
  | node o args => cases o <;> simp [normAnnotated]
  | ellipsis => simp [normAnnotated]
  | lit v => simp [normAnnotated]
  | mdata m => simp [normAnnotated]

theorem normUnion_congr_of_mem (hK : DistinctOrderKeys W) (ms ms' : List (Hint α))
    (h : ∀ x, x ∈ unfoldUnion (normalizeList W ms) ↔ x ∈ unfoldUnion (normalizeList W ms')) :
    normUnion W (normalizeList W ms) = normUnion W (normalizeList W ms') := by
  rw [normUnion_eq, normUnion_eq]
  exact finishUnion_congr W hK _ _ (unfold_normalizeList_reach W ms) (SameContent.of_mem_iff h)

/-- **`normalize` respects every meaning-preserving rewrite** -/
theorem normalize_respects_aux (hK : DistinctOrderKeys W) {a b : Hint α} (h : Equiv a b) :
    normalize W a = normalize W b := by
  induction h with
  | refl h => rfl
  | symm _ ih => exact ih.symm
  | trans _ _ ih1 ih2 => exact ih1.trans ih2
  | noneSpelling s t => rfl
  | bareAlias x y a ps => rfl
  | appAlias x y a args => rfl
  | tupleBareAlias x y => rfl
  | tupleVarAlias x y h => rfl
  | tupleFixAlias x y hs => rfl
  | typeBareAlias x y => rfl
  | typeOfAlias x y h => rfl
  | unionStyle x y ms => rfl
  | optionalDef h s o => simp [normalize, normalizeList]
  | unionPerm o hp =>
    simp only [normalize]
    apply normUnion_congr_of_mem W hK
    intro x
    simp only [mem_unfoldUnion, normalizeList_eq_map, List.mem_map, hp.mem_iff]
  | unionNest o o' pre ms post =>
    simp only [normalize, normUnion_eq, normalizeList_append, normalizeList, unfoldUnion_append, unfoldUnion_cons,
      List.append_assoc]
    refine finishUnion_congr W hK _ _ ?_ ?_
    · intro x hx
      have : x ∈ unfoldUnion (normalizeList W (pre ++ .union o' ms :: post)) := by
        simpa only [normalizeList_append, normalizeList, unfoldUnion_append, unfoldUnion_cons, normalize, normUnion_eq,
          List.append_assoc] using hx
      exact unfold_normalizeList_reach W _ x this
    · refine (SameContent.refl _).append (SameContent.append ?_ (SameContent.refl _))
      exact alts_finishUnion_content W _ (unfold_normalizeList_not_union W ms)
  | unionDup o x ms =>
    simp only [normalize]
    apply normUnion_congr_of_mem W hK
    intro y
    simp only [normalizeList, unfoldUnion_cons, List.mem_append]
    constructor
    · rintro (h | h | h) <;> simp [h]
    · rintro (h | h) <;> simp [h]
  | unionSingle o x hx =>
    simp only [normalize, normalizeList, normUnion_eq, unfoldUnion_cons, unfoldUnion, List.append_nil]
    exact finishUnion_alts_normalize W hK x hx
  | bareImplicit al a ps => simp [normalize, implicitList_eq]
  | tupleBareImplicit al => simp [normalize]
  | typeBareImplicit al => simp [normalize, normType, anyN]
  | litPerm n1 n2 hm => simp only [normalize]; exact normLiteral_congr W hK _ _ n1 n2 hm
  | litMerge o rest n1 n2 n3 hm =>
    rename_i vs ws us
    simp only [normalize, normUnion_eq, normalizeList, unfoldUnion_cons]
    refine finishUnion_congr W hK _ _ ?_ ?_
    · intro x hx
      have : x ∈ unfoldUnion (normalizeList W (.literal vs :: .literal ws :: rest)) := by
        simpa only [normalizeList, unfoldUnion_cons, normalize] using hx
      exact unfold_normalizeList_reach W _ x this
    · obtain ⟨a1, a2⟩ := normLiteral_content W vs n1
      obtain ⟨b1, b2⟩ := normLiteral_content W ws n2
      obtain ⟨c1, c2⟩ := normLiteral_content W us n3
      constructor
      · intro n hn
        simp only [List.mem_append, a1 n hn, b1 n hn, c1 n hn, hm]
        constructor
        · rintro (⟨h1, h2⟩ | ⟨h1, h2⟩ | h)
          · exact .inl ⟨h1, .inl h2⟩
          · exact .inl ⟨h1, .inr h2⟩
          · exact .inr h
        · rintro (⟨h1, h2 | h2⟩ | h)
          · exact .inl ⟨h1, h2⟩
          · exact .inr (.inl ⟨h1, h2⟩)
          · exact .inr (.inr h)
      · intro v
        simp only [collectLits_append, List.mem_append, a2, b2, c2, hm]
        constructor
        · rintro (⟨h1, h2⟩ | ⟨h1, h2⟩ | h)
          · exact .inl ⟨.inl h1, h2⟩
          · exact .inl ⟨.inr h1, h2⟩
          · exact .inr h
        · rintro (⟨h1 | h1, h2⟩ | h)
          · exact .inl ⟨h1, h2⟩
          · exact .inr (.inl ⟨h1, h2⟩)
          · exact .inr (.inr h)
  | litNone s => simp [normalize, normLiteral]
  | annotatedFlat h m1 m2 => simp only [normalize]; exact normAnnotated_flat _ _ _
  | congTypeVar a c pre post _ _ => rfl
  | congBareLim al a pre post tv c lpre lpost _ ih =>
    simp only [normalize, implicitList_append, implicitList]
    congr 3
    cases c
    · cases lpre <;> simp [implicitParam, ih]
    · simp only [implicitParam, normalizeList_append, normalizeList, ih]
  | congApp al a pre post _ ih => simp only [normalize, normalizeList_append, normalizeList, ih]
  | congTupleVar al _ ih => simp only [normalize, ih]
  | congTupleFix al pre post _ ih => simp only [normalize, normalizeList_append, normalizeList, ih]
  | congTypeOf al _ ih => simp only [normalize, ih]
  | congUnion o pre post _ ih => simp only [normalize, normalizeList_append, normalizeList, ih]
  | congOptional _ ih => simp only [normalize, ih]
  | congAnnotated ms _ ih => simp only [normalize, ih]

end Adaptix.Types
