/-
  C15 helper lemmas, part 1: the ordering keys form a linear order and the
  stable sort is canonical on duplicate-free lists with pairwise distinct keys.
-/
import AdaptixModel.Types.Normalize

namespace Adaptix.Types

/-! ### three-way comparisons -/

theorem natCmp_eq_iff (a b : Nat) : natCmp a b = .eq ↔ a = b := by
  unfold natCmp
  by_cases h1 : a < b <;> by_cases h2 : b < a <;> simp [h1, h2] <;> omega

theorem natCmp_swap (a b : Nat) : natCmp b a = (natCmp a b).swap := by
  unfold natCmp
  by_cases h1 : a < b <;> by_cases h2 : b < a <;> simp [h1, h2] <;> omega

theorem natCmp_lt_iff (a b : Nat) : natCmp a b = .lt ↔ a < b := by
  unfold natCmp
  by_cases h1 : a < b <;> by_cases h2 : b < a <;> simp [h1, h2]

theorem natCmp_lt_trans (a b c : Nat) (h1 : natCmp a b = .lt) (h2 : natCmp b c = .lt) :
    natCmp a c = .lt := by
  rw [natCmp_lt_iff] at *; omega

theorem strCmp_eq_iff : ∀ (s t : Str), strCmp s t = .eq ↔ s = t
  | [], [] => by simp [strCmp]
  | [], _ :: _ => by simp [strCmp]
  | _ :: _, [] => by simp [strCmp]
  | a :: s, b :: t => by
    unfold strCmp
    by_cases h1 : a.toNat < b.toNat
    · simp only [h1, if_true]
      constructor
      · intro h; cases h
      · intro h; cases h; omega
    · by_cases h2 : b.toNat < a.toNat
      · simp only [h1, h2, if_true, if_false]
        constructor
        · intro h; cases h
        · intro h; cases h; omega
      · simp only [h1, h2, if_false, strCmp_eq_iff s t, List.cons.injEq]
        have : a = b := Char.toNat_inj.mp (by omega)
        simp [this]

theorem strCmp_swap : ∀ (s t : Str), strCmp t s = (strCmp s t).swap
  | [], [] => by simp [strCmp]
  | [], _ :: _ => by simp [strCmp]
  | _ :: _, [] => by simp [strCmp]
  | a :: s, b :: t => by
    unfold strCmp
    by_cases h1 : a.toNat < b.toNat <;> by_cases h2 : b.toNat < a.toNat
    · omega
    · simp [h1, h2]
    · simp [h1, h2]
    · simp [h1, h2, strCmp_swap s t]

theorem strCmp_lt_trans : ∀ (s t u : Str), strCmp s t = .lt → strCmp t u = .lt → strCmp s u = .lt
  | [], [], _ => by simp [strCmp]
  | [], _ :: _, [] => by simp [strCmp]
  | [], _ :: _, _ :: _ => by simp [strCmp]
  | _ :: _, [], _ => by simp [strCmp]
  | _ :: _, _ :: _, [] => by simp [strCmp]
  | a :: s, b :: t, c :: u => by
    unfold strCmp
    intro h1 h2
    by_cases hab : a.toNat < b.toNat
    · by_cases hbc : b.toNat < c.toNat
      · have : a.toNat < c.toNat := by omega
        simp [this]
      · by_cases hcb : c.toNat < b.toNat
        · simp [hbc, hcb] at h2
        · have : a.toNat < c.toNat := by omega
          simp [this]
    · by_cases hba : b.toNat < a.toNat
      · simp [hab, hba] at h1
      · simp only [hab, hba, if_false] at h1
        by_cases hbc : b.toNat < c.toNat
        · have : a.toNat < c.toNat := by omega
          simp [this]
        · by_cases hcb : c.toNat < b.toNat
          · simp [hbc, hcb] at h2
          · simp only [hbc, hcb, if_false] at h2
            have h3 : ¬ a.toNat < c.toNat := by omega
            have h4 : ¬ c.toNat < a.toNat := by omega
            simp only [h3, h4, if_false]
            exact strCmp_lt_trans s t u h1 h2

mutual
theorem OKey.cmp_eq_iff : ∀ (a b : OKey), OKey.cmp a b = .eq ↔ a = b
  | .mk t1 i1 k1, .mk t2 i2 k2 => by
    simp only [OKey.cmp, Ordering.then_eq_eq, strCmp_eq_iff, natCmp_eq_iff, OKey.cmpList_eq_iff k1 k2,
      OKey.mk.injEq]
theorem OKey.cmpList_eq_iff : ∀ (a b : List OKey), OKey.cmpList a b = .eq ↔ a = b
  | [], [] => by simp [OKey.cmpList]
  | [], _ :: _ => by simp [OKey.cmpList]
  | _ :: _, [] => by simp [OKey.cmpList]
  | a :: s, b :: t => by
    simp only [OKey.cmpList, Ordering.then_eq_eq, OKey.cmp_eq_iff a b, OKey.cmpList_eq_iff s t, List.cons.injEq]
end

mutual
theorem OKey.cmp_swap : ∀ (a b : OKey), OKey.cmp b a = (OKey.cmp a b).swap
  | .mk t1 i1 k1, .mk t2 i2 k2 => by
    simp only [OKey.cmp, Ordering.swap_then, strCmp_swap t1 t2, natCmp_swap i1 i2, OKey.cmpList_swap k1 k2]
theorem OKey.cmpList_swap : ∀ (a b : List OKey), OKey.cmpList b a = (OKey.cmpList a b).swap
  | [], [] => by simp [OKey.cmpList]
  | [], _ :: _ => by simp [OKey.cmpList]
  | _ :: _, [] => by simp [OKey.cmpList]
  | a :: s, b :: t => by
    simp only [OKey.cmpList, Ordering.swap_then, OKey.cmp_swap a b, OKey.cmpList_swap s t]
end

/-- transitivity of `lt` for a lexicographic step whose components are transitive and reflect equality -/
theorem then_lt_trans {o1 o2 o3 p1 p2 p3 : Ordering}
    (hlt : o1 = .lt → o2 = .lt → o3 = .lt)
    (heq1 : o1 = .eq → o3 = o2) (heq2 : o2 = .eq → o3 = o1)
    (hp : p1 = .lt → p2 = .lt → p3 = .lt)
    (h1 : o1.then p1 = .lt) (h2 : o2.then p2 = .lt) : o3.then p3 = .lt := by
  rw [Ordering.then_eq_lt] at *
  rcases h1 with h1 | ⟨h1, q1⟩ <;> rcases h2 with h2 | ⟨h2, q2⟩
  · exact .inl (hlt h1 h2)
  · exact .inl ((heq2 h2).trans h1)
  · exact .inl ((heq1 h1).trans h2)
  · exact .inr ⟨(heq1 h1).trans h2, hp q1 q2⟩

mutual
theorem OKey.cmp_lt_trans : ∀ (a b c : OKey), OKey.cmp a b = .lt → OKey.cmp b c = .lt → OKey.cmp a c = .lt
  | .mk t1 i1 k1, .mk t2 i2 k2, .mk t3 i3 k3 => by
    simp only [OKey.cmp]
    refine then_lt_trans (strCmp_lt_trans t1 t2 t3) ?_ ?_ (then_lt_trans (natCmp_lt_trans i1 i2 i3) ?_ ?_
      (OKey.cmpList_lt_trans k1 k2 k3))
    · intro h; rw [(strCmp_eq_iff _ _).mp h]
    · intro h; rw [(strCmp_eq_iff _ _).mp h]
    · intro h; rw [(natCmp_eq_iff _ _).mp h]
    · intro h; rw [(natCmp_eq_iff _ _).mp h]
theorem OKey.cmpList_lt_trans : ∀ (a b c : List OKey),
    OKey.cmpList a b = .lt → OKey.cmpList b c = .lt → OKey.cmpList a c = .lt
  | [], [], _ => by simp [OKey.cmpList]
  | [], _ :: _, [] => by simp [OKey.cmpList]
  | [], _ :: _, _ :: _ => by simp [OKey.cmpList]
  | _ :: _, [], _ => by simp [OKey.cmpList]
  | _ :: _, _ :: _, [] => by simp [OKey.cmpList]
  | a :: s, b :: t, c :: u => by
    simp only [OKey.cmpList]
    refine then_lt_trans (OKey.cmp_lt_trans a b c) ?_ ?_ (OKey.cmpList_lt_trans s t u)
    · intro h; rw [(OKey.cmp_eq_iff _ _).mp h]
    · intro h; rw [(OKey.cmp_eq_iff _ _).mp h]
end

theorem OKey.le_total (a b : OKey) : OKey.le a b = true ∨ OKey.le b a = true := by
  unfold OKey.le
  rw [OKey.cmp_swap a b]
  cases OKey.cmp a b <;> simp [Ordering.isLE, Ordering.swap]

theorem OKey.le_antisymm (a b : OKey) (h1 : OKey.le a b = true) (h2 : OKey.le b a = true) : a = b := by
  unfold OKey.le at h1 h2
  rw [OKey.cmp_swap a b] at h2
  apply (OKey.cmp_eq_iff a b).mp
  cases h : OKey.cmp a b <;> simp_all [Ordering.isLE, Ordering.swap]

theorem OKey.le_trans (a b c : OKey) (h1 : OKey.le a b = true) (h2 : OKey.le b c = true) : OKey.le a c = true := by
  unfold OKey.le at *
  cases hab : OKey.cmp a b with
  | gt => simp [hab, Ordering.isLE] at h1
  | eq => rw [(OKey.cmp_eq_iff _ _).mp hab]; exact h2
  | lt =>
    cases hbc : OKey.cmp b c with
    | gt => simp [hbc, Ordering.isLE] at h2
    | eq => rw [← (OKey.cmp_eq_iff _ _).mp hbc, hab]; rfl
    | lt => rw [OKey.cmp_lt_trans a b c hab hbc]; rfl

/-! ### the stable sort -/

section sort
variable {β : Type} (le : β → β → Bool)

theorem mem_insertBy (a x : β) (l : List β) : x ∈ insertBy le a l ↔ x = a ∨ x ∈ l := by
  induction l with
  | nil => simp [insertBy]
  | cons b l ih =>
    unfold insertBy
    split
    · simp
    · simp only [List.mem_cons, ih]
      constructor
      · rintro (h | h | h) <;> simp [h]
      · rintro (h | h | h) <;> simp [h]

theorem mem_stableSort (x : β) (l : List β) : x ∈ stableSort le l ↔ x ∈ l := by
  induction l with
  | nil => simp [stableSort]
  | cons a l ih => simp [stableSort, mem_insertBy, ih]

theorem insertBy_perm (a : β) (l : List β) : (insertBy le a l).Perm (a :: l) := by
  induction l with
  | nil => simp [insertBy]
  | cons b l ih =>
    unfold insertBy
    split
    · exact List.Perm.refl _
    · exact (List.Perm.cons b ih).trans (List.Perm.swap a b l)

theorem stableSort_perm (l : List β) : (stableSort le l).Perm l := by
  induction l with
  | nil => simp [stableSort]
  | cons a l ih => exact (insertBy_perm le a _).trans (List.Perm.cons a ih)

theorem stableSort_nodup {l : List β} (h : l.Nodup) : (stableSort le l).Nodup :=
  (stableSort_perm le l).nodup_iff.mpr h

theorem stableSort_length (l : List β) : (stableSort le l).length = l.length :=
  (stableSort_perm le l).length_eq

variable (total : ∀ a b, le a b = true ∨ le b a = true)
variable (trans : ∀ a b c, le a b = true → le b c = true → le a c = true)

include total trans in
theorem insertBy_sorted (a : β) (l : List β) (h : l.Pairwise (fun x y => le x y = true)) :
    (insertBy le a l).Pairwise (fun x y => le x y = true) := by
  induction l with
  | nil => simp [insertBy]
  | cons b l ih =>
    unfold insertBy
    rw [List.pairwise_cons] at h
    split
    · rename_i hab
      refine List.pairwise_cons.mpr ⟨?_, List.pairwise_cons.mpr h⟩
      intro y hy
      rcases List.mem_cons.mp hy with rfl | hy
      · exact hab
      · exact trans _ _ _ hab (h.1 y hy)
    · rename_i hab
      have hba : le b a = true := by
        rcases total a b with h' | h'
        · exact absurd h' hab
        · exact h'
      refine List.pairwise_cons.mpr ⟨?_, ih h.2⟩
      intro y hy
      rcases (mem_insertBy le a y l).mp hy with rfl | hy
      · exact hba
      · exact h.1 y hy

include total trans in
theorem stableSort_sorted (l : List β) : (stableSort le l).Pairwise (fun x y => le x y = true) := by
  induction l with
  | nil => simp [stableSort]
  | cons a l ih => exact insertBy_sorted le total trans a _ ih

/-- an already ordered list is left alone -/
theorem stableSort_of_sorted (l : List β) (h : l.Pairwise (fun x y => le x y = true)) : stableSort le l = l := by
  induction l with
  | nil => rfl
  | cons a l ih =>
    rw [List.pairwise_cons] at h
    simp only [stableSort, ih h.2]
    cases l with
    | nil => rfl
    | cons b l => simp [insertBy, h.1 b (by simp)]

include total trans in
theorem stableSort_idem (l : List β) : stableSort le (stableSort le l) = stableSort le l :=
  stableSort_of_sorted le _ (stableSort_sorted le total trans l)

/-- two ordered duplicate-free lists with the same members are equal, as soon as
    `le` is antisymmetric on the members -/
theorem sorted_unique : ∀ (l1 l2 : List β),
    (∀ a b, a ∈ l1 → b ∈ l1 → le a b = true → le b a = true → a = b) →
    l1.Nodup → l2.Nodup → (∀ x, x ∈ l1 ↔ x ∈ l2) →
    l1.Pairwise (fun x y => le x y = true) → l2.Pairwise (fun x y => le x y = true) → l1 = l2
  | [], [], _, _, _, _, _, _ => rfl
  | [], b :: _, _, _, _, hm, _, _ => by have := (hm b).mpr (by simp); simp at this
  | a :: _, [], _, _, _, hm, _, _ => by have := (hm a).mp (by simp); simp at this
  | a :: t1, b :: t2, anti, n1, n2, hm, s1, s2 => by
    rw [List.nodup_cons] at n1 n2
    rw [List.pairwise_cons] at s1 s2
    have hab : a = b := by
      have ha : a ∈ b :: t2 := (hm a).mp (by simp)
      have hb : b ∈ a :: t1 := (hm b).mpr (by simp)
      rcases List.mem_cons.mp ha with h | ha'
      · exact h
      · rcases List.mem_cons.mp hb with h | hb'
        · exact h.symm
        · exact anti a b (by simp) (by simp [hb']) (s1.1 b hb') (s2.1 a ha')
    subst hab
    congr 1
    refine sorted_unique t1 t2 (fun x y hx hy => anti x y (by simp [hx]) (by simp [hy])) n1.2 n2.2 ?_ s1.2 s2.2
    intro x
    constructor
    · intro hx
      rcases List.mem_cons.mp ((hm x).mp (by simp [hx])) with h | h
      · subst h; exact absurd hx n1.1
      · exact h
    · intro hx
      rcases List.mem_cons.mp ((hm x).mpr (by simp [hx])) with h | h
      · subst h; exact absurd hx n2.1
      · exact h

include total trans in
/-- **the stable sort is canonical**: duplicate-free lists with the same members
    sort to the same list when `le` is antisymmetric on these members -/
theorem stableSort_canonical (l1 l2 : List β)
    (anti : ∀ a b, a ∈ l1 → b ∈ l1 → le a b = true → le b a = true → a = b)
    (n1 : l1.Nodup) (n2 : l2.Nodup) (hm : ∀ x, x ∈ l1 ↔ x ∈ l2) :
    stableSort le l1 = stableSort le l2 := by
  apply sorted_unique le
  · intro a b ha hb
    exact anti a b ((mem_stableSort le a l1).mp ha) ((mem_stableSort le b l1).mp hb)
  · exact stableSort_nodup le n1
  · exact stableSort_nodup le n2
  · intro x; rw [mem_stableSort, mem_stableSort]; exact hm x
  · exact stableSort_sorted le total trans l1
  · exact stableSort_sorted le total trans l2

end sort

end Adaptix.Types
