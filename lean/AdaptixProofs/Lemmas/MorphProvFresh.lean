/-
  C20 helper lemmas, part 3: what a successful fold / container construction says about
  where the children of the result come from.
-/
import AdaptixProofs.Lemmas.MorphProvSpec
import AdaptixProofs.Lemmas.MorphProvErase

namespace Adaptix.Morph
open Adaptix.Py

/-! ### nodes -/

theorem PVal.nodes_node (p : Prov) (sh : Shape) (ks : List PVal) :
    (PVal.node p sh ks).nodes = .node p sh ks :: PVal.nodesL ks := by
  simp [PVal.nodes]

theorem PVal.mem_nodes_self (p : PVal) : p ∈ p.nodes := by
  cases p; simp [PVal.nodes]

theorem PVal.mem_nodesL {x : PVal} {ks : List PVal} :
    x ∈ PVal.nodesL ks ↔ ∃ k ∈ ks, x ∈ k.nodes := by
  rw [PVal.nodesL_eq]
  simp only [List.mem_flatten, List.mem_map]
  constructor
  · rintro ⟨l, ⟨k, hk, rfl⟩, hx⟩; exact ⟨k, hk, hx⟩
  · rintro ⟨k, hk, hx⟩; exact ⟨_, ⟨k, hk, rfl⟩, hx⟩

mutual
  theorem PVal.prov_nodes_ofVal (pr : Prov) :
      ∀ (v : Val) (nd : PVal), nd ∈ (PVal.ofVal pr v).nodes → nd.prov = pr
    | .none, nd, h => by simp [PVal.ofVal, PVal.nodes, PVal.nodesL] at h; subst h; rfl
    | .bool _, nd, h => by simp [PVal.ofVal, PVal.nodes, PVal.nodesL] at h; subst h; rfl
    | .int _, nd, h => by simp [PVal.ofVal, PVal.nodes, PVal.nodesL] at h; subst h; rfl
    | .float _, nd, h => by simp [PVal.ofVal, PVal.nodes, PVal.nodesL] at h; subst h; rfl
    | .str _, nd, h => by simp [PVal.ofVal, PVal.nodes, PVal.nodesL] at h; subst h; rfl
    | .bytes _, nd, h => by simp [PVal.ofVal, PVal.nodes, PVal.nodesL] at h; subst h; rfl
    | .bytearray _, nd, h => by simp [PVal.ofVal, PVal.nodes, PVal.nodesL] at h; subst h; rfl
    | .atom _ _, nd, h => by simp [PVal.ofVal, PVal.nodes, PVal.nodesL] at h; subst h; rfl
    | .opaque _, nd, h => by simp [PVal.ofVal, PVal.nodes, PVal.nodesL] at h; subst h; rfl
    | .list xs, nd, h => by
      simp only [PVal.ofVal, PVal.nodes, List.mem_cons] at h
      rcases h with rfl | h
      · rfl
      · exact PVal.prov_nodesL_ofValL pr xs nd h
    | .tuple xs, nd, h => by
      simp only [PVal.ofVal, PVal.nodes, List.mem_cons] at h
      rcases h with rfl | h
      · rfl
      · exact PVal.prov_nodesL_ofValL pr xs nd h
    | .set xs, nd, h => by
      simp only [PVal.ofVal, PVal.nodes, List.mem_cons] at h
      rcases h with rfl | h
      · rfl
      · exact PVal.prov_nodesL_ofValL pr xs nd h
    | .frozenset xs, nd, h => by
      simp only [PVal.ofVal, PVal.nodes, List.mem_cons] at h
      rcases h with rfl | h
      · rfl
      · exact PVal.prov_nodesL_ofValL pr xs nd h
    | .deque xs, nd, h => by
      simp only [PVal.ofVal, PVal.nodes, List.mem_cons] at h
      rcases h with rfl | h
      · rfl
      · exact PVal.prov_nodesL_ofValL pr xs nd h
    | .iter xs, nd, h => by
      simp only [PVal.ofVal, PVal.nodes, List.mem_cons] at h
      rcases h with rfl | h
      · rfl
      · exact PVal.prov_nodesL_ofValL pr xs nd h
    | .dict kvs, nd, h => by
      simp only [PVal.ofVal, PVal.nodes, List.mem_cons] at h
      rcases h with rfl | h
      · rfl
      · exact PVal.prov_nodesL_ofValKV pr kvs nd h
    | .obj c fs, nd, h => by
      simp only [PVal.ofVal, PVal.nodes, List.mem_cons] at h
      rcases h with rfl | h
      · rfl
      · exact PVal.prov_nodesL_ofValF pr fs nd h
  theorem PVal.prov_nodesL_ofValL (pr : Prov) :
      ∀ (xs : List Val) (nd : PVal), nd ∈ PVal.nodesL (PVal.ofValL pr xs) → nd.prov = pr
    | [], nd, h => by simp [PVal.ofValL, PVal.nodesL] at h
    | x :: xs, nd, h => by
      simp only [PVal.ofValL, PVal.nodesL, List.mem_append] at h
      rcases h with h | h
      · exact PVal.prov_nodes_ofVal pr x nd h
      · exact PVal.prov_nodesL_ofValL pr xs nd h
  theorem PVal.prov_nodesL_ofValKV (pr : Prov) :
      ∀ (kvs : List (Val × Val)) (nd : PVal), nd ∈ PVal.nodesL (PVal.ofValKV pr kvs) → nd.prov = pr
    | [], nd, h => by simp [PVal.ofValKV, PVal.nodesL] at h
    | (k, v) :: rest, nd, h => by
      simp only [PVal.ofValKV, PVal.nodesL, List.mem_append] at h
      rcases h with h | h | h
      · exact PVal.prov_nodes_ofVal pr k nd h
      · exact PVal.prov_nodes_ofVal pr v nd h
      · exact PVal.prov_nodesL_ofValKV pr rest nd h
  theorem PVal.prov_nodesL_ofValF (pr : Prov) :
      ∀ (fs : List (String × Val)) (nd : PVal), nd ∈ PVal.nodesL (PVal.ofValF pr fs) → nd.prov = pr
    | [], nd, h => by simp [PVal.ofValF, PVal.nodesL] at h
    | (n, v) :: rest, nd, h => by
      simp only [PVal.ofValF, PVal.nodesL, List.mem_append] at h
      rcases h with h | h
      · exact PVal.prov_nodes_ofVal pr v nd h
      · exact PVal.prov_nodesL_ofValF pr rest nd h
end

/-! ### a successful fold returns exactly the element results, in order -/

theorem bindO_eq_ok {α β : Type} {o : Outcome α} {k : α → Outcome β} {b : β} (h : bindO o k = .ok b) :
    ∃ a, o = .ok a ∧ k a = .ok b := by
  cases o <;> simp [bindO] at h
  exact ⟨_, rfl, h⟩

theorem seqDisableG_ok {α : Type} : ∀ (items : List (Option TrailEl × Outcome α)) (ys : List α),
    seqDisableG items = .ok ys → items.map (·.2) = ys.map .ok
  | [], ys, h => by simp [seqDisableG] at h; subst h; rfl
  | (el, o) :: tl, ys, h => by
    cases o with
    | ok y =>
      simp only [seqDisableG] at h
      cases hr : seqDisableG tl with
      | ok ys' =>
        rw [hr] at h; simp only [Outcome.ok.injEq] at h; subst h
        simp [seqDisableG_ok tl ys' hr]
      | err e => rw [hr] at h; simp at h
      | escape e => rw [hr] at h; simp at h
      | diverge => rw [hr] at h; simp at h
    | err e => simp [seqDisableG] at h
    | escape e => simp [seqDisableG] at h
    | diverge => simp [seqDisableG] at h

theorem seqFirstG_ok {α : Type} : ∀ (items : List (Option TrailEl × Outcome α)) (ys : List α),
    seqFirstG items = .ok ys → items.map (·.2) = ys.map .ok
  | [], ys, h => by simp [seqFirstG] at h; subst h; rfl
  | (el, o) :: tl, ys, h => by
    cases o with
    | ok y =>
      simp only [seqFirstG] at h
      cases hr : seqFirstG tl with
      | ok ys' =>
        rw [hr] at h; simp only [Outcome.ok.injEq] at h; subst h
        simp [seqFirstG_ok tl ys' hr]
      | err e => rw [hr] at h; simp at h
      | escape e => rw [hr] at h; simp at h
      | diverge => rw [hr] at h; simp at h
    | err e => simp [seqFirstG] at h
    | escape e => simp [seqFirstG] at h
    | diverge => simp [seqFirstG] at h

theorem sweepAllG_ok {α : Type} : ∀ (items : List (Option TrailEl × Outcome α)),
    (sweepAllG items).errs = [] → (sweepAllG items).unexpected = false →
    (sweepAllG items).diverged = false → items.map (·.2) = (sweepAllG items).vals.map .ok
  | [], _, _, _ => rfl
  | (el, o) :: tl, h1, h2, h3 => by
    cases o with
    | ok y =>
      simp only [sweepAllG] at h1 h2 h3 ⊢
      simp [sweepAllG_ok tl h1 h2 h3]
    | err e => simp [sweepAllG] at h1
    | escape e => simp [sweepAllG] at h2
    | diverge => simp [sweepAllG] at h3

theorem seqModeG_ok {α : Type} {t : DebugTrail} {items : List (Option TrailEl × Outcome α)} {ys : List α}
    (h : seqModeG t items = .ok ys) : items.map (·.2) = ys.map .ok := by
  cases t with
  | disable => exact seqDisableG_ok items ys h
  | first => exact seqFirstG_ok items ys h
  | all =>
    simp only [seqModeG, SweepG.finish] at h
    split at h
    · simp at h
    · split at h
      · simp at h
      · split at h
        · rename_i hd hu he
          simp only [Outcome.ok.injEq] at h; subst h
          exact sweepAllG_ok items (by simpa using he) (by simpa using hu) (by simpa using hd)
        · simp at h

theorem seqModeDumpG_ok {α : Type} {t : DebugTrail} {items : List (Option TrailEl × Outcome α)}
    {ys : List α} (h : seqModeDumpG t items = .ok ys) : items.map (·.2) = ys.map .ok := by
  cases t with
  | disable => exact seqDisableG_ok items ys h
  | first => exact seqFirstG_ok items ys h
  | all =>
    simp only [seqModeDumpG] at h
    split at h
    · simp at h
    · split at h
      · simp at h
      · rename_i hd hu
        simp only [Outcome.ok.injEq] at h; subst h
        simp only [Bool.or_eq_true, Bool.not_eq_true', not_or, Bool.not_eq_true] at hu
        exact sweepAllG_ok items (by simpa using hu.2) hu.1 (by simpa using hd)

theorem idxItemsG_snd {α : Type} (os : List (Outcome α)) : (idxItemsG os).map (·.2) = os := by
  simp only [idxItemsG, List.map_map]
  have : ((fun p : Option TrailEl × Outcome α => p.2) ∘ fun x : Outcome α × Nat =>
      match x with | (o, i) => (some (TrailEl.idx i), o)) = Prod.fst := by
    funext x; rfl
  rw [this, List.zipIdx_map_fst]

theorem ok_mem_map_ok {α : Type} {q : α} {ys : List α} (h : q ∈ ys) :
    (Outcome.ok q) ∈ ys.map Outcome.ok := List.mem_map.mpr ⟨q, h, rfl⟩

/-! ### containers -/

theorem mem_dedupP {q : PVal} : ∀ {xs : List PVal}, q ∈ dedupP xs → q ∈ xs
  | [], h => by simp [dedupP] at h
  | x :: xs, h => by
    simp only [dedupP, List.mem_cons, List.mem_filter] at h
    rcases h with rfl | ⟨h, _⟩
    · simp
    · exact List.mem_cons_of_mem _ (mem_dedupP h)

theorem buildP_ok {f : Factory} {ys : List PVal} {p : PVal} (h : buildP f ys = .ok p) :
    ∃ sh kids, p = .node .fresh sh kids ∧ ∀ q ∈ kids, q ∈ ys := by
  cases f <;> simp only [buildP] at h
  · simp only [Outcome.ok.injEq] at h; exact ⟨_, _, h.symm, fun _ hq => hq⟩
  · simp only [Outcome.ok.injEq] at h; exact ⟨_, _, h.symm, fun _ hq => hq⟩
  · split at h
    · simp only [Outcome.ok.injEq] at h; exact ⟨_, _, h.symm, fun _ hq => mem_dedupP hq⟩
    · simp at h
  · split at h
    · simp only [Outcome.ok.injEq] at h; exact ⟨_, _, h.symm, fun _ hq => mem_dedupP hq⟩
    · simp at h
  · simp only [Outcome.ok.injEq] at h; exact ⟨_, _, h.symm, fun _ hq => hq⟩

theorem mem_flatKV {α : Type} {x : α} : ∀ {l : List (α × α)}, x ∈ flatKV l ↔ ∃ kv ∈ l, x = kv.1 ∨ x = kv.2
  | [] => by simp [flatKV]
  | (k, v) :: rest => by
    simp only [flatKV, List.mem_cons, mem_flatKV (l := rest)]
    constructor
    · rintro (h | h | ⟨kv, hkv, h⟩)
      · exact ⟨(k, v), .inl rfl, .inl h⟩
      · exact ⟨(k, v), .inl rfl, .inr h⟩
      · exact ⟨kv, .inr hkv, h⟩
    · rintro ⟨kv, rfl | hkv, h⟩
      · rcases h with h | h
        · exact .inl h
        · exact .inr (.inl h)
      · exact .inr (.inr ⟨kv, hkv, h⟩)

/-- the loaded pairs alternate key result / value result (value first under DISABLE) -/
def AltKV (vf : Bool) (K V : PVal → Prop) : List PVal → Prop
  | a :: b :: rest => (if vf then V a ∧ K b else K a ∧ V b) ∧ AltKV vf K V rest
  | _ => True

theorem dictItemsG_alt {vf : Bool} {key value : Val → Outcome PVal} :
    ∀ (kvs : List (Val × Val)) (flat : List PVal),
    (dictItemsG vf key value kvs).map (·.2) = flat.map .ok →
    AltKV vf (fun y => ∃ x, key x = .ok y) (fun y => ∃ x, value x = .ok y) flat
  | [], flat, _ => by
    cases flat with
    | nil => simp [AltKV]
    | cons a t => cases t <;> simp_all [dictItemsG]
  | (k, v) :: rest, flat, h => by
    cases vf with
    | true =>
      simp only [dictItemsG, if_true, List.map_cons] at h
      match flat, h with
      | a :: b :: fl, h =>
        simp only [List.map_cons, List.cons.injEq] at h
        obtain ⟨h1, h2, h3⟩ := h
        exact ⟨by simp only [if_true]; exact ⟨⟨v, h1⟩, ⟨k, h2⟩⟩, dictItemsG_alt rest fl h3⟩
      | [a], h => simp at h
      | [], h => simp at h
    | false =>
      simp only [dictItemsG, Bool.false_eq_true, if_false, List.map_cons] at h
      match flat, h with
      | a :: b :: fl, h =>
        simp only [List.map_cons, List.cons.injEq] at h
        obtain ⟨h1, h2, h3⟩ := h
        exact ⟨by simp only [Bool.false_eq_true, if_false]; exact ⟨⟨k, h1⟩, ⟨v, h2⟩⟩,
          dictItemsG_alt rest fl h3⟩
      | [a], h => simp at h
      | [], h => simp at h

theorem mem_dictSetP {kvs : List (PVal × PVal)} {k v : PVal} {kv : PVal × PVal}
    (h : kv ∈ dictSetP kvs k v) : kv ∈ kvs ∨ kv = (k, v) ∨ ∃ old ∈ kvs, kv = (old.1, v) := by
  unfold dictSetP at h
  split at h
  · simp only [List.mem_map] at h
    obtain ⟨old, hold, rfl⟩ := h
    split
    · exact .inr (.inr ⟨old, hold, rfl⟩)
    · exact .inl hold
  · simp only [List.mem_append, List.mem_singleton] at h
    rcases h with h | h
    · exact .inl h
    · exact .inr (.inl h)

theorem buildDictP_ok {vf : Bool} {K V : PVal → Prop} :
    ∀ (flat : List PVal) (acc : List (PVal × PVal)) (p : PVal),
    buildDictP vf flat acc = .ok p → AltKV vf K V flat → (∀ kv ∈ acc, K kv.1 ∧ V kv.2) →
    ∃ acc', p = .node .fresh .dict (flatKV acc') ∧ ∀ kv ∈ acc', K kv.1 ∧ V kv.2
  | a :: b :: rest, acc, p, h, halt, hacc => by
    have h1 := halt.1
    cases vf with
    | true =>
      simp only [buildDictP, if_true] at h h1
      split at h
      · refine buildDictP_ok rest _ p h halt.2 ?_
        intro kv hkv
        rcases mem_dictSetP hkv with hm | rfl | ⟨old, hold, rfl⟩
        · exact hacc kv hm
        · exact ⟨h1.2, h1.1⟩
        · exact ⟨(hacc old hold).1, h1.1⟩
      · simp at h
    | false =>
      simp only [buildDictP, Bool.false_eq_true, if_false] at h h1
      split at h
      · refine buildDictP_ok rest _ p h halt.2 ?_
        intro kv hkv
        rcases mem_dictSetP hkv with hm | rfl | ⟨old, hold, rfl⟩
        · exact hacc kv hm
        · exact ⟨h1.1, h1.2⟩
        · exact ⟨(hacc old hold).1, h1.2⟩
      · simp at h
  | [], acc, p, h, _, hacc => by
    simp only [buildDictP, Outcome.ok.injEq] at h
    exact ⟨acc, h.symm, hacc⟩
  | [a], acc, p, h, _, hacc => by
    simp only [buildDictP, Outcome.ok.injEq] at h
    exact ⟨acc, h.symm, hacc⟩

/-! ### tuples and models: result `i` belongs to loader / field `i` -/

theorem zipApplyG_ok {α : Type} : ∀ (ls : List (Val → Outcome α)) (xs : List Val) (ys : List α),
    zipApplyG ls xs = ys.map .ok → ∀ q ∈ ys, ∃ l, (l, q) ∈ ls.zip ys ∧ ∃ x, l x = .ok q
  | [], xs, ys, h, q, hq => by
    simp only [zipApplyG] at h
    cases ys with
    | nil => simp at hq
    | cons _ _ => simp at h
  | l :: ls, [], ys, h, q, hq => by
    simp only [zipApplyG] at h
    cases ys with
    | nil => simp at hq
    | cons _ _ => simp at h
  | l :: ls, x :: xs, ys, h, q, hq => by
    simp only [zipApplyG] at h
    cases ys with
    | nil => simp at hq
    | cons y ys =>
      simp only [List.map_cons, List.cons.injEq] at h
      simp only [List.mem_cons] at hq
      rcases hq with rfl | hq
      · exact ⟨l, by simp, x, h.1⟩
      · obtain ⟨l', hl', hx⟩ := zipApplyG_ok ls xs ys h.2 q hq
        exact ⟨l', by simp [hl'], hx⟩

theorem mem_zip_map_left {α β γ : Type} {g : α → β} {b : β} {c : γ} :
    ∀ {as : List α} {cs : List γ}, (b, c) ∈ (as.map g).zip cs → ∃ a, (a, c) ∈ as.zip cs ∧ b = g a
  | [], _, h => by simp at h
  | _ :: _, [], h => by simp at h
  | a :: as, c' :: cs, h => by
    simp only [List.map_cons, List.zip_cons_cons, List.mem_cons, Prod.mk.injEq] at h
    rcases h with ⟨rfl, rfl⟩ | h
    · exact ⟨a, by simp, rfl⟩
    · obtain ⟨a', ha', hb⟩ := mem_zip_map_left h
      exact ⟨a', by simp [ha'], hb⟩

theorem modelItemsG_ok {α : Type} {dflt : Field → α} {fl : Field → Val → Outcome α}
    {kvs : List (Val × Val)} {missing : List String} :
    ∀ (fields : List Field) (ys : List α),
    (modelItemsG dflt fl kvs missing fields false).map (·.2) = ys.map .ok →
    ∀ q ∈ ys, ∃ f, (f, q) ∈ fields.zip ys ∧
      ((∃ v, fl f v = .ok q) ∨ (f.required = false ∧ q = dflt f))
  | [], ys, h, q, hq => by
    simp only [modelItemsG, List.map_nil] at h
    cases ys with
    | nil => simp at hq
    | cons _ _ => simp at h
  | f :: rest, ys, h, q, hq => by
    simp only [modelItemsG] at h
    cases hl : Val.lookup (.str f.name) kvs with
    | some v =>
      rw [hl] at h
      cases ys with
      | nil => simp at hq
      | cons y ys =>
        simp only [List.map_cons, List.cons.injEq] at h
        simp only [List.mem_cons] at hq
        rcases hq with rfl | hq
        · exact ⟨f, by simp, .inl ⟨v, h.1⟩⟩
        · obtain ⟨f', hf', hx⟩ := modelItemsG_ok rest ys h.2 q hq
          exact ⟨f', by simp [hf'], hx⟩
    | none =>
      rw [hl] at h
      simp only [] at h
      split at h
      · -- a missing required field makes an `.err` item: not all ok
        cases ys with
        | nil => simp at hq
        | cons y ys => simp at h
      · rename_i hreq
        cases ys with
        | nil => simp at hq
        | cons y ys =>
          simp only [List.map_cons, List.cons.injEq, Outcome.ok.injEq] at h
          simp only [List.mem_cons] at hq
          rcases hq with rfl | hq
          · exact ⟨f, by simp, .inr ⟨by simpa using hreq, h.1.symm⟩⟩
          · obtain ⟨f', hf', hx⟩ := modelItemsG_ok rest ys h.2 q hq
            exact ⟨f', by simp [hf'], hx⟩

/-! ### unions -/

theorem unionFirstOkG_ok {α : Type} : ∀ (os : List (Outcome α)) (errs : List LErr) (a : α) (errs' : List LErr),
    unionFirstOkG os errs = (.ok a, errs') → (Outcome.ok a) ∈ os
  | [], errs, a, errs', h => by simp [unionFirstOkG] at h
  | o :: rest, errs, a, errs', h => by
    cases o with
    | err e =>
      simp only [unionFirstOkG] at h
      exact List.mem_cons_of_mem _ (unionFirstOkG_ok rest _ a errs' h)
    | ok v => simp only [unionFirstOkG, Prod.mk.injEq, Outcome.ok.injEq] at h; simp [h.1]
    | escape e => simp [unionFirstOkG] at h
    | diverge => simp [unionFirstOkG] at h

theorem unionAllG_ok {α : Type} : ∀ (os : List (Outcome α)) (errs : List LErr) (u : Bool) (a : α),
    unionAllG os errs u = .ok a → (Outcome.ok a) ∈ os
  | [], errs, u, a, h => by simp only [unionAllG] at h; split at h <;> simp at h
  | o :: rest, errs, u, a, h => by
    cases o with
    | err e =>
      simp only [unionAllG] at h
      exact List.mem_cons_of_mem _ (unionAllG_ok rest _ _ a h)
    | escape e =>
      simp only [unionAllG] at h
      exact List.mem_cons_of_mem _ (unionAllG_ok rest _ _ a h)
    | diverge => simp [unionAllG] at h
    | ok v =>
      simp only [unionAllG] at h
      split at h
      · exact List.mem_cons_of_mem _ (unionAllG_ok rest _ _ a h)
      · simp only [Outcome.ok.injEq] at h; simp [h]

theorem loadUnionG_general_ok {α : Type} {cfg : Cfg} {cases : List Ty} {ld : Ty → Val → Outcome α}
    {d : Val} {p : α} (h : loadUnionG.general cfg cases ld d = .ok p) :
    ∃ c ∈ cases, ld c d = .ok p := by
  have key : (Outcome.ok p) ∈ cases.map (fun c => ld c d) → ∃ c ∈ cases, ld c d = .ok p := by
    intro hm
    obtain ⟨c, hc, he⟩ := List.mem_map.mp hm
    exact ⟨c, hc, he⟩
  apply key
  unfold loadUnionG.general at h
  cases ht : cfg.trail with
  | disable =>
    rw [ht] at h
    simp only [] at h
    cases hu : unionFirstOkG (cases.map fun c => ld c d) [] with
    | mk o errs =>
      rw [hu] at h
      cases o with
      | ok a => simp only [Outcome.ok.injEq] at h; subst h; exact unionFirstOkG_ok _ _ _ _ hu
      | err e => simp at h
      | escape e => simp at h
      | diverge => simp at h
  | first =>
    rw [ht] at h
    simp only [] at h
    cases hu : unionFirstOkG (cases.map fun c => ld c d) [] with
    | mk o errs =>
      rw [hu] at h
      cases o with
      | ok a => simp only [Outcome.ok.injEq] at h; subst h; exact unionFirstOkG_ok _ _ _ _ hu
      | err e => simp at h
      | escape e => simp at h
      | diverge => simp at h
  | all =>
    rw [ht] at h
    exact unionAllG_ok _ _ _ _ h

theorem loadUnionG_ok {α : Type} {noneV : α} {cfg : Cfg} {cases : List Ty} {ld : Ty → Val → Outcome α}
    {d : Val} {p : α} (h : loadUnionG noneV cfg cases ld d = .ok p) :
    (p = noneV ∧ d.isNone = true) ∨ ∃ c ∈ cases, ld c d = .ok p := by
  rcases cases with _ | ⟨a, _ | ⟨b, _ | ⟨c, rest⟩⟩⟩
  · exact .inr (loadUnionG_general_ok (by simpa only [loadUnionG] using h))
  · exact .inr (loadUnionG_general_ok (by simpa only [loadUnionG] using h))
  · simp only [loadUnionG] at h
    split at h
    · split at h
      · simp only [Outcome.ok.injEq] at h; exact .inl ⟨h.symm, by assumption⟩
      · right
        refine ⟨if isNoneTy a = true then b else a, by split <;> simp, ?_⟩
        cases ht : cfg.trail <;> rw [ht] at h <;>
          cases ho : ld (if isNoneTy a = true then b else a) d <;> rw [ho] at h <;> simp_all
    · exact .inr (loadUnionG_general_ok h)
  · exact .inr (loadUnionG_general_ok (by simpa only [loadUnionG] using h))

end Adaptix.Morph
