/-
  C17: concrete, non-degenerate data on which the hypotheses of the property theorems hold together
  (the non-vacuity witnesses of `Props/C17.lean` are stated on these), with the facts about them that
  need more than `decide`.
-/
import AdaptixProofs.Lemmas.KindsDeclarable
import AdaptixProofs.Lemmas.KindsNested
import AdaptixModel.Kinds.Convert

namespace Adaptix.Kinds

theorem shapeOf_ok_of_declarable {k : Kind} {m : LogicalModel} (h : Declarable k m = true) :
    ∃ s, shapeOf k m = .ok s := by
  have hd : (shapeOf k m).toOption.isSome = true := by
    rw [← h]
    cases k
    · exact declarable_dataclass m
    · exact declarable_namedTuple m
    · exact declarable_typedDict m
    · exact declarable_attrs m
    · exact declarable_pydantic m
    · exact declarable_sqlalchemy m
  cases hs : shapeOf k m with
  | error e => simp [hs, Except.toOption] at hd
  | ok s => exact ⟨s, rfl⟩

/-! ### the witness models -/

/-- `a: str`, `b: str = "B"`, `c: str = "C"` — declarable in all six kinds -/
def mABC : LogicalModel :=
  { fields := [{ name := "a", ty := .str }, { name := "b", ty := .str, default := .value (.str "B") },
               { name := "c", ty := .str, default := .value (.str "C") }] }

/-- a source shape with the fields `a` and `c` only -/
def srcAC : OutputShape :=
  { fields := [{ id := "a", ty := { ty := .str }, default := .none, accessor := .attr "a" false },
               { id := "c", ty := { ty := .str }, default := .none, accessor := .attr "c" false }], overriden := [] }

/-- `x: int`, `_p: str = "d"` keyword-only, `tags: list[int] = factory(list)` — dataclass and attrs only -/
def mEx : LogicalModel :=
  { fields := [{ name := "x", ty := .int }, { name := "_p", ty := .str, default := .value (.str "d"), kwOnly := true },
               { name := "tags", ty := .list .int, default := .factory .list }] }

theorem mABC_declarable : ∀ k, Declarable k mABC = true := by
  intro k; cases k <;> decide

/-- every one of the six kinds yields a shape for `mABC` -/
theorem mABC_shape (k : Kind) : ∃ s, shapeOf k mABC = .ok s := shapeOf_ok_of_declarable (mABC_declarable k)

/-- the TypedDict shape of `mABC` in closed form (its fields are declared in name order) -/
theorem mABC_typedDict : shapeOf .typedDict mABC = .ok
      ({ fields := (mABC.fields.map (declField .typedDict false)).map (tdInField true)
         params := (mABC.fields.map (declField .typedDict false)).map tdParam
         kwargs := false, overriden := [] },
       { fields := (mABC.fields.map (declField .typedDict false)).map (tdOutField true), overriden := [] }) := by
  have hn : (!mABC.namesOk) = false := by decide
  have hs : sortByName (mABC.fields.map (declField .typedDict false)) = mABC.fields.map (declField .typedDict false) :=
    sortByName_of_sorted _ (by decide)
  simp only [shapeOf, hn, shapeOfDecl, declOf, typedDictShape, declFields_eq_map .typedDict (by decide), hs]
  rfl

/-! ### nested models: an input tree, values that remember the kind of every class instantiated -/

inductive J
  | num (n : Nat)
  | obj (kvs : List (String × J))

def J.asInput : J → Input J
  | .obj kvs => .mapping kvs
  | _ => .notMapping

/-- a loaded value: (the leaf values in field order, the kinds of the classes instantiated) -/
abbrev WV := List Nat × List Kind

def wMk (k : Kind) (_ : String) (args : List (String × WV)) : WV :=
  (args.flatMap (·.2.1), k :: args.flatMap (·.2.2))

/-- "field-wise equal": the same leaf values and as many class instances, whatever their kinds -/
def wR (a b : WV) : Prop := a.1 = b.1 ∧ a.2.length = b.2.length

/-- `Optional[T]` loads `T`, `int` loads a number, nothing else loads -/
def wCont (l : Ty → J → Option WV) : Ty → J → Option WV
  | .opt a, d => l a d
  | .int, .num n => some ([n], [])
  | _, _ => none

def wLit : Scalar → WV
  | .int i => ([i.toNat], [])
  | _ => ([], [])

def wCall : Factory → WV := fun _ => ([], [])

/-- `a: int`, `b: int = 7` -/
def mInner : LogicalModel :=
  { fields := [{ name := "a", ty := .int }, { name := "b", ty := .int, default := .value (.int 7) }] }

/-- `inner: Inner`, `more: Optional[Inner]`, `tag: int = 1` -/
def mOuter : LogicalModel :=
  { fields := [{ name := "inner", ty := .model "Inner" }, { name := "more", ty := .opt (.model "Inner") },
               { name := "tag", ty := .int, default := .value (.int 1) }] }

/-- a finite table: two classes, every other name is unknown -/
def wEnv : Env := fun n => if n = "Inner" then some mInner else if n = "Outer" then some mOuter else none

def wInput : J :=
  .obj [("inner", .obj [("a", .num 5)]), ("more", .obj [("a", .num 2), ("b", .num 3)]), ("zz", .num 0)]

theorem wEnv_declarable : ∀ name m, wEnv name = some m →
    Declarable .dataclass m = true ∧ Declarable .pydantic m = true := by
  intro name m h
  unfold wEnv at h
  split at h
  · cases h; exact ⟨by decide, by decide⟩
  · split at h
    · cases h; exact ⟨by decide, by decide⟩
    · cases h

theorem wCont_rel : ∀ l₁ l₂ : Ty → J → Option WV, (∀ ty d, OptRel wR (l₁ ty d) (l₂ ty d)) →
    ∀ ty d, OptRel wR (wCont l₁ ty d) (wCont l₂ ty d) := by
  intro l₁ l₂ h ty d
  cases ty <;> cases d <;> simp [wCont, OptRel, wR] <;> exact h _ _

theorem wMk_rel (k₁ k₂ : Kind) : ∀ name a₁ a₂, ArgsRel wR a₁ a₂ → wR (wMk k₁ name a₁) (wMk k₂ name a₂) := by
  intro name a₁
  induction a₁ with
  | nil => intro a₂ h; cases a₂ <;> simp_all [ArgsRel, wR, wMk]
  | cons x xs ih =>
    intro a₂ h
    cases a₂ with
    | nil => simp [ArgsRel] at h
    | cons y ys =>
      obtain ⟨_, hxy, hr⟩ := h
      have := ih ys hr
      simp only [wR, wMk, List.flatMap_cons, List.length_cons, List.length_append, Nat.add_right_cancel_iff] at this ⊢
      exact ⟨by rw [this.1, hxy.1], by rw [this.2, hxy.2]⟩

/-- related values are equal to a default together: a default holds no class instance -/
theorem wR_isDefault (d : Dflt) (v₁ v₂ : WV) (h : wR v₁ v₂) :
    isDefaultValue wLit wCall d v₁ = isDefaultValue wLit wCall d v₂ := by
  have key : ∀ x : List Nat, v₁ = (x, ([] : List Kind)) ↔ v₂ = (x, []) := by
    intro x
    obtain ⟨a1, a2⟩ := v₁
    obtain ⟨b1, b2⟩ := v₂
    obtain ⟨h1, h2⟩ := h
    simp only at h1 h2
    subst h1
    simp only [Prod.mk.injEq]
    constructor
    · rintro ⟨rfl, rfl⟩
      exact ⟨rfl, List.eq_nil_of_length_eq_zero h2.symm⟩
    · rintro ⟨rfl, rfl⟩
      exact ⟨rfl, List.eq_nil_of_length_eq_zero h2⟩
  cases d with
  | none => rfl
  | factorySelf f => rfl
  | factory f =>
    simp only [isDefaultValue, wCall]
    rw [Bool.eq_iff_iff]
    simp only [beq_iff_eq]
    exact key []
  | value s =>
    simp only [isDefaultValue]
    rw [Bool.eq_iff_iff]
    simp only [beq_iff_eq]
    cases s <;> exact key _

end Adaptix.Kinds
