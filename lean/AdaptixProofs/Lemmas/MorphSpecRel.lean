/-
  C02 — helper lemmas, part 3: the functional form `specLoad` and the relational form
  `LoadsTo` / `Rejects` of the documented load rules say the same.
-/
import AdaptixProofs.Lemmas.MorphSpecLoad

namespace Adaptix.Morph
open Adaptix.Py
open Adaptix.Morph.C02

/-! ### list vocabulary -/

theorem spec_allSome_cons_some {α : Type} {r : Option α} {rs : List (Option α)} {ys : List α} :
    allSome (r :: rs) = some ys ↔ ∃ y ys', r = some y ∧ allSome rs = some ys' ∧ ys = y :: ys' := by
  cases r with
  | none => simp [allSome]
  | some a =>
    simp only [allSome]
    cases allSome rs with
    | none => simp
    | some as => simp [eq_comm]

theorem spec_allSome_cons_none {α : Type} {r : Option α} {rs : List (Option α)} :
    allSome (r :: rs) = none ↔ r = none ∨ allSome rs = none := by
  cases r with
  | none => simp [allSome]
  | some a =>
    simp only [allSome]
    cases allSome rs <;> simp

theorem spec_mapOpt_some {α β : Type} {g : α → Option β} : ∀ {xs : List α} {ys : List β},
    mapOpt g xs = some ys ↔ (xs.length = ys.length ∧ ∀ p ∈ xs.zip ys, g p.1 = some p.2)
  | [], ys => by cases ys <;> simp [mapOpt, allSome]
  | x :: xs, ys => by
    have ih := fun ys' => spec_mapOpt_some (g := g) (xs := xs) (ys := ys')
    simp only [mapOpt] at ih
    simp only [mapOpt, List.map_cons, spec_allSome_cons_some]
    constructor
    · rintro ⟨y, ys', hy, hys, rfl⟩
      have := (ih ys').mp hys
      refine ⟨by simp [this.1], ?_⟩
      intro p hp
      simp only [List.zip_cons_cons, List.mem_cons] at hp
      rcases hp with rfl | hp
      · exact hy
      · exact this.2 p hp
    · rintro ⟨hl, hp⟩
      cases ys with
      | nil => simp at hl
      | cons y ys' =>
        refine ⟨y, ys', hp (x, y) (by simp), (ih ys').mpr ⟨by simpa using hl, fun p hp' => hp p (by simp [hp'])⟩, rfl⟩

theorem spec_mapOpt_none {α β : Type} {g : α → Option β} : ∀ {xs : List α},
    mapOpt g xs = none ↔ ∃ x ∈ xs, g x = none
  | [] => by simp [mapOpt, allSome]
  | x :: xs => by
    have ih := spec_mapOpt_none (g := g) (xs := xs)
    simp only [mapOpt] at ih
    simp only [mapOpt, List.map_cons, spec_allSome_cons_none, ih]
    simp

/-- every input has its image in the result -/
theorem spec_mapOpt_mem {α β : Type} {g : α → Option β} : ∀ {xs : List α} {ys : List β},
    mapOpt g xs = some ys → ∀ x ∈ xs, ∃ y ∈ ys, g x = some y
  | [], _, _ => by simp
  | x :: xs, ys, h => by
    simp only [mapOpt, List.map_cons, spec_allSome_cons_some] at h
    obtain ⟨y, ys', hy, hys, rfl⟩ := h
    intro x' hx'
    simp only [List.mem_cons] at hx'
    rcases hx' with rfl | hx'
    · exact ⟨y, by simp, hy⟩
    · obtain ⟨y', hy', hg⟩ := spec_mapOpt_mem (g := g) (xs := xs) (ys := ys') hys x' hx'
      exact ⟨y', by simp [hy'], hg⟩

/-- every result is the image of an input -/
theorem spec_mapOpt_mem' {α β : Type} {g : α → Option β} : ∀ {xs : List α} {ys : List β},
    mapOpt g xs = some ys → ∀ y ∈ ys, ∃ x ∈ xs, g x = some y
  | [], ys, h => by simp [mapOpt, allSome] at h; subst h; simp
  | x :: xs, ys, h => by
    simp only [mapOpt, List.map_cons, spec_allSome_cons_some] at h
    obtain ⟨y, ys', hy, hys, rfl⟩ := h
    intro y' hy'
    simp only [List.mem_cons] at hy'
    rcases hy' with rfl | hy'
    · exact ⟨x, by simp, hy⟩
    · obtain ⟨x', hx', hg⟩ := spec_mapOpt_mem' (g := g) (xs := xs) (ys := ys') hys y' hy'
      exact ⟨x', by simp [hx'], hg⟩

theorem spec_zipWithOpt_some {α β γ : Type} {sp : α → β → Option γ} :
    ∀ {ts : List α} {xs : List β} {ys : List γ}, xs.length = ts.length →
    (allSome (zipWithOpt sp ts xs) = some ys ↔
      (xs.length = ys.length ∧ ∀ q ∈ ts.zip (xs.zip ys), sp q.1 q.2.1 = some q.2.2))
  | [], [], ys, _ => by cases ys <;> simp [zipWithOpt, allSome]
  | [], _ :: _, _, h => by simp at h
  | _ :: _, [], _, h => by simp at h
  | t :: ts, x :: xs, ys, h => by
    have hl : xs.length = ts.length := by simpa using h
    have ih := fun ys' => spec_zipWithOpt_some (sp := sp) (ts := ts) (xs := xs) (ys := ys') hl
    simp only [zipWithOpt, spec_allSome_cons_some]
    constructor
    · rintro ⟨y, ys', hy, hys, rfl⟩
      have := (ih ys').mp hys
      refine ⟨by simp [this.1], ?_⟩
      intro q hq
      simp only [List.zip_cons_cons, List.mem_cons] at hq
      rcases hq with rfl | hq
      · exact hy
      · exact this.2 q hq
    · rintro ⟨hl', hq⟩
      cases ys with
      | nil => simp at hl'
      | cons y ys' =>
        refine ⟨y, ys', hq (t, x, y) (by simp), (ih ys').mpr ⟨by simpa using hl', fun q hq' => hq q (by simp [hq'])⟩, rfl⟩

theorem spec_zipWithOpt_none {α β γ : Type} {sp : α → β → Option γ} :
    ∀ {ts : List α} {xs : List β},
    (allSome (zipWithOpt sp ts xs) = none ↔ ∃ q ∈ ts.zip xs, sp q.1 q.2 = none)
  | [], xs => by simp [zipWithOpt, allSome]
  | _ :: _, [] => by simp [zipWithOpt, allSome]
  | t :: ts, x :: xs => by
    simp only [zipWithOpt, spec_allSome_cons_none, spec_zipWithOpt_none (sp := sp) (ts := ts) (xs := xs)]
    simp

theorem spec_firstSome_some {α β : Type} {sp : α → Option β} {v : β} : ∀ {cs : List α},
    firstSome sp cs = some v ↔
      ∃ pre c post, cs = pre ++ c :: post ∧ (∀ c' ∈ pre, sp c' = none) ∧ sp c = some v
  | [] => by simp [firstSome]
  | c :: cs => by
    have ih := spec_firstSome_some (sp := sp) (v := v) (cs := cs)
    simp only [firstSome]
    cases hc : sp c with
    | some b =>
      simp only [Option.some.injEq]
      constructor
      · rintro rfl; exact ⟨[], c, cs, rfl, by simp, hc⟩
      · rintro ⟨pre, c', post, hcs, hpre, hv⟩
        cases pre with
        | nil => simp only [List.nil_append, List.cons.injEq] at hcs; rw [← hcs.1, hc] at hv; cases hv; rfl
        | cons p pre' =>
          simp only [List.cons_append, List.cons.injEq] at hcs
          have := hpre p (by simp); rw [← hcs.1, hc] at this; cases this
    | none =>
      simp only [ih]
      constructor
      · rintro ⟨pre, c', post, rfl, hpre, hv⟩
        exact ⟨c :: pre, c', post, rfl, by simpa [hc] using hpre, hv⟩
      · rintro ⟨pre, c', post, hcs, hpre, hv⟩
        cases pre with
        | nil => simp only [List.nil_append, List.cons.injEq] at hcs; rw [← hcs.1, hc] at hv; cases hv
        | cons p pre' =>
          simp only [List.cons_append, List.cons.injEq] at hcs
          exact ⟨pre', c', post, hcs.2, fun c'' h'' => hpre c'' (by simp [h'']), hv⟩

theorem spec_firstSome_none {α β : Type} {sp : α → Option β} : ∀ {cs : List α},
    firstSome sp cs = none ↔ ∀ c ∈ cs, sp c = none
  | [] => by simp [firstSome]
  | c :: cs => by
    have ih := spec_firstSome_none (sp := sp) (cs := cs)
    simp only [firstSome]
    cases hc : sp c with
    | some b => simp [hc]
    | none => simp [hc, ih]

theorem spec_pairOpt_some {f g : Val → Option Val} {p q : Val × Val} :
    pairOpt f g p = some q ↔ f p.1 = some q.1 ∧ g p.2 = some q.2 := by
  unfold pairOpt
  cases hf : f p.1 <;> cases hg : g p.2 <;> simp [Prod.ext_iff]

theorem spec_pairOpt_none {f g : Val → Option Val} {p : Val × Val} :
    pairOpt f g p = none ↔ f p.1 = none ∨ g p.2 = none := by
  unfold pairOpt
  cases hf : f p.1 <;> cases hg : g p.2 <;> simp

theorem spec_iterAccepts_some {strict : Bool} {d : Val} {xs : List Val} :
    iterAccepts strict d = some xs ↔
      d.iterElems = some xs ∧ (strict = true → d.isMapping = false ∧ d.isStr = false) := by
  unfold iterAccepts
  cases strict <;> cases hm : d.isMapping <;> cases hs : d.isStr <;> simp

theorem spec_iterAccepts_none {strict : Bool} {d : Val} :
    iterAccepts strict d = none ↔
      d.iterElems = none ∨ (strict = true ∧ (d.isMapping = true ∨ d.isStr = true)) := by
  unfold iterAccepts
  cases strict <;> cases hm : d.isMapping <;> cases hs : d.isStr <;> simp

/-! ### `None` as a datum -/

/-- when no leaf turns `None` into something else, no type does: `None` is loaded as `None`
    or refused (it is no iterable and no mapping) -/
theorem spec_specLoad_none_datum {W : World} {strict : Bool}
    (hleaf : ∀ s v, W.scalarLoad strict s .none = .ok v → v = .none) :
    ∀ (n : Nat) (T : Ty) (v : Val), specLoad W strict n T .none = some v → v = .none := by
  intro n
  induction n with
  | zero => intro T v h; cases h
  | succ n ih =>
    intro T v h
    cases T with
    | scalar s =>
      simp only [specLoad] at h
      cases ho : W.scalarLoad strict s .none <;> rw [ho] at h <;> simp only [okVal] at h <;> try cases h
      exact hleaf s _ ho
    | any => simp only [specLoad] at h; cases h; rfl
    | literal vals =>
      simp only [specLoad] at h
      split at h
      · cases h; rfl
      · cases h
    | union cs ks =>
      simp only [specLoad] at h
      obtain ⟨pre, c, post, _, _, hc⟩ := spec_firstSome_some.mp h
      exact ih c v hc
    | iter f dl e => simp [specLoad, iterAccepts, Val.iterElems, Val.isMapping, Val.isStr] at h
    | tuple ts => simp [specLoad, iterAccepts, Val.iterElems, Val.isMapping, Val.isStr] at h
    | dict K V => simp [specLoad] at h
    | model c => simp [specLoad] at h

/-- … hence the side condition `OptionalOK` holds for every type expression -/
theorem spec_optionalOK_of_leaves {W : World} {strict : Bool}
    (hleaf : ∀ s v, W.scalarLoad strict s .none = .ok v → v = .none) (T : Ty) :
    OptionalOK W strict T := by
  refine spec_tyAll_of_forall (fun t => ?_) T
  unfold OptOK
  split
  · intro _ _ n v hv; exact spec_specLoad_none_datum hleaf n _ v hv
  · trivial

/-! ### functional form ⇒ relational form -/

theorem spec_modelFree_parts {T : Ty} (h : ModelFree T) : NotModel T := spec_tyAll_head h

/-- what `specLoad` answers is derivable with the documented rules -/
theorem spec_specLoad_to_rel (W : World) (strict : Bool) :
    ∀ (n : Nat) (T : Ty) (d : Val), depth T ≤ n → ModelFree T →
      (∀ v, specLoad W strict n T d = some v → LoadsTo W strict T d v) ∧
      (specLoad W strict n T d = none → Rejects W strict T d) := by
  intro n
  induction n with
  | zero => intro T d hd _; have := spec_depth_pos T; omega
  | succ n ih =>
    intro T d hd hm
    cases T with
    | scalar s =>
      simp only [specLoad]
      constructor
      · intro v hv
        cases ho : W.scalarLoad strict s d <;> rw [ho] at hv <;> simp only [okVal] at hv <;> try cases hv
        exact .scalar ho
      · intro hv
        refine .scalar fun v ho => ?_
        rw [ho] at hv; cases hv
    | any =>
      simp only [specLoad]
      exact ⟨fun v hv => (by cases hv; exact .any), fun h => (by cases h)⟩
    | literal vals =>
      simp only [specLoad]
      constructor
      · intro v hv
        split at hv
        · rename_i hacc; cases hv; exact .literal ((spec_litAccepts_iff _ _ _).mp hacc)
        · cases hv
      · intro hv
        split at hv
        · cases hv
        · rename_i hacc; exact .literal fun h => hacc ((spec_litAccepts_iff _ _ _).mpr h)
    | union cs ks =>
      simp only [specLoad]
      simp only [depth, Nat.add_le_add_iff_right, spec_depthL_le] at hd
      have hms : ∀ c ∈ cs, ModelFree c := spec_tyAllL_iff.mp hm.2
      constructor
      · intro v hv
        obtain ⟨pre, c, post, rfl, hpre, hc⟩ := spec_firstSome_some.mp hv
        refine .union (fun c' hc' => ?_) ?_
        · exact (ih c' d (hd c' (by simp [hc'])) (hms c' (by simp [hc']))).2 (hpre c' hc')
        · exact (ih c d (hd c (by simp)) (hms c (by simp))).1 v hc
      · intro hv
        exact .union fun c hc => (ih c d (hd c hc) (hms c hc)).2 (spec_firstSome_none.mp hv c hc)
    | iter f dl e =>
      simp only [specLoad]
      simp only [depth, Nat.add_le_add_iff_right] at hd
      have hme : ModelFree e := hm.2
      constructor
      · intro v hv
        cases hacc : iterAccepts strict d with
        | none => simp [hacc] at hv
        | some xs =>
          simp only [hacc] at hv
          obtain ⟨hxs, hex⟩ := spec_iterAccepts_some.mp hacc
          cases hmo : mapOpt (specLoad W strict n e) xs with
          | none => simp [hmo] at hv
          | some ys =>
            simp only [hmo] at hv
            obtain ⟨hl, hp⟩ := spec_mapOpt_some.mp hmo
            exact .iter hxs hex hl (fun p hp' => (ih e p.1 hd hme).1 p.2 (hp p hp')) hv
      · intro hv
        cases hacc : iterAccepts strict d with
        | none =>
          rcases spec_iterAccepts_none.mp hacc with h | ⟨hs, h⟩
          · exact .iterNot h
          · exact .iterExcluded hs h
        | some xs =>
          simp only [hacc] at hv
          obtain ⟨hxs, _⟩ := spec_iterAccepts_some.mp hacc
          cases hmo : mapOpt (specLoad W strict n e) xs with
          | none =>
            obtain ⟨x, hx, hnx⟩ := spec_mapOpt_none.mp hmo
            exact .iterElem hxs hx ((ih e x hd hme).2 hnx)
          | some ys =>
            simp only [hmo] at hv
            obtain ⟨hl, hp⟩ := spec_mapOpt_some.mp hmo
            exact .iterBuild hxs hl (fun p hp' => (ih e p.1 hd hme).1 p.2 (hp p hp')) hv
    | tuple ts =>
      simp only [specLoad]
      simp only [depth, Nat.add_le_add_iff_right, spec_depthL_le] at hd
      have hms : ∀ t ∈ ts, ModelFree t := spec_tyAllL_iff.mp hm.2
      constructor
      · intro v hv
        cases hacc : iterAccepts strict d with
        | none => simp [hacc] at hv
        | some xs =>
          simp only [hacc] at hv
          obtain ⟨hxs, hex⟩ := spec_iterAccepts_some.mp hacc
          split at hv
          · rename_i hlen
            cases hz : allSome (zipWithOpt (fun t x => specLoad W strict n t x) ts xs) with
            | none => simp [hz] at hv
            | some ys =>
              simp only [hz, Option.map_some, Option.some.injEq] at hv
              subst hv
              obtain ⟨hl, hq⟩ := (spec_zipWithOpt_some hlen).mp hz
              refine .tuple hxs hex hlen hl fun q hq' => ?_
              have hqt : q.1 ∈ ts := (List.of_mem_zip hq').1
              exact (ih q.1 q.2.1 (hd _ hqt) (hms _ hqt)).1 _ (hq q hq')
          · cases hv
      · intro hv
        cases hacc : iterAccepts strict d with
        | none =>
          rcases spec_iterAccepts_none.mp hacc with h | ⟨hs, h⟩
          · exact .tupleNot h
          · exact .tupleExcluded hs h
        | some xs =>
          simp only [hacc] at hv
          obtain ⟨hxs, _⟩ := spec_iterAccepts_some.mp hacc
          split at hv
          · rename_i hlen
            cases hz : allSome (zipWithOpt (fun t x => specLoad W strict n t x) ts xs) with
            | none =>
              obtain ⟨q, hq, hnq⟩ := spec_zipWithOpt_none.mp hz
              have hqt : q.1 ∈ ts := (List.of_mem_zip hq).1
              exact .tupleElem hxs hq ((ih q.1 q.2 (hd _ hqt) (hms _ hqt)).2 hnq)
            | some ys => simp [hz] at hv
          · rename_i hlen; exact .tupleArity hxs hlen
    | dict K V =>
      simp only [specLoad]
      simp only [depth, Nat.add_le_add_iff_right, Nat.max_le] at hd
      have hmK : ModelFree K := hm.2.1
      have hmV : ModelFree V := hm.2.2
      cases d with
      | dict kvs =>
        simp only
        cases hmo : mapOpt (pairOpt (specLoad W strict n K) (specLoad W strict n V)) kvs with
        | none =>
          refine ⟨fun v hv => (by cases hv), fun _ => ?_⟩
          obtain ⟨p, hp, hnp⟩ := spec_mapOpt_none.mp hmo
          rcases spec_pairOpt_none.mp hnp with h | h
          · exact .dictKey hp ((ih K p.1 hd.1 hmK).2 h)
          · exact .dictValue hp ((ih V p.2 hd.2 hmV).2 h)
        | some pairs =>
          obtain ⟨hl, hq⟩ := spec_mapOpt_some.mp hmo
          simp only
          constructor
          · intro v hv
            split at hv
            · rename_i hh
              cases hv
              refine .dict hl (fun q hq' => ?_) (fun q hq' => ?_) (fun p hp => ?_)
              · exact (ih K q.1.1 hd.1 hmK).1 _ (spec_pairOpt_some.mp (hq q hq')).1
              · exact (ih V q.1.2 hd.2 hmV).1 _ (spec_pairOpt_some.mp (hq q hq')).2
              · exact List.all_eq_true.mp hh p hp
            · cases hv
          · intro hv
            split at hv
            · cases hv
            · rename_i hh
              rw [Bool.not_eq_true, List.all_eq_false] at hh
              obtain ⟨q, hqm, hqh⟩ := hh
              obtain ⟨p, hp, hpq⟩ := spec_mapOpt_mem' hmo q hqm
              exact .dictKeyUnhashable hp ((ih K p.1 hd.1 hmK).1 _ (spec_pairOpt_some.mp hpq).1)
                (by simpa using hqh)
      | _ => exact ⟨fun v hv => (by cases hv), fun _ => Rejects.dictNot rfl⟩
    | model c => exact absurd (spec_modelFree_parts hm) (by simp [NotModel])

/-! ### relational form ⇒ functional form -/

/-- what the documented rules derive is what `specLoad` answers (with enough fuel) -/
theorem spec_rel_to_specLoad (W : World) (strict : Bool) :
    ∀ (n : Nat) (T : Ty) (d : Val), depth T ≤ n →
      (∀ v, LoadsTo W strict T d v → specLoad W strict n T d = some v) ∧
      (Rejects W strict T d → specLoad W strict n T d = none) := by
  intro n
  induction n with
  | zero => intro T d hd; have := spec_depth_pos T; omega
  | succ n ih =>
    intro T d hd
    cases T with
    | scalar s =>
      simp only [specLoad]
      constructor
      · intro v h; cases h with | scalar ho => rw [ho]; rfl
      · intro h
        cases h with
        | scalar hne =>
          cases ho : W.scalarLoad strict s d with
          | ok v => exact absurd ho (hne v)
          | _ => rfl
    | any =>
      simp only [specLoad]
      exact ⟨fun v h => (by cases h; rfl), fun h => (by cases h)⟩
    | literal vals =>
      simp only [specLoad]
      constructor
      · intro v h
        cases h with
        | literal hacc => rw [if_pos ((spec_litAccepts_iff _ _ _).mpr hacc)]
      · intro h
        cases h with
        | literal hacc => rw [if_neg (fun h' => hacc ((spec_litAccepts_iff _ _ _).mp h'))]
    | union cs ks =>
      simp only [specLoad]
      simp only [depth, Nat.add_le_add_iff_right, spec_depthL_le] at hd
      constructor
      · intro v h
        cases h with
        | @union pre post c _ _ _ hpre hc =>
          refine spec_firstSome_some.mpr ⟨pre, c, post, rfl, fun c' hc' => ?_, ?_⟩
          · exact (ih c' d (hd c' (by simp [hc']))).2 (hpre c' hc')
          · exact (ih c d (hd c (by simp))).1 v hc
      · intro h
        cases h with
        | union hall => exact spec_firstSome_none.mpr fun c hc => (ih c d (hd c hc)).2 (hall c hc)
    | iter f dl e =>
      simp only [specLoad]
      simp only [depth, Nat.add_le_add_iff_right] at hd
      constructor
      · intro v h
        cases h with
        | @iter _ _ _ _ _ xs ys hxs hex hl hp hc =>
          rw [spec_iterAccepts_some.mpr ⟨hxs, hex⟩]
          simp only
          rw [spec_mapOpt_some.mpr ⟨hl, fun p hp' => (ih e p.1 hd).1 p.2 (hp p hp')⟩]
          exact hc
      · intro h
        cases h with
        | iterNot hn => rw [spec_iterAccepts_none.mpr (.inl hn)]
        | iterExcluded hs hx => rw [spec_iterAccepts_none.mpr (.inr ⟨hs, hx⟩)]
        | @iterElem _ _ _ _ x xs hxs hx hr =>
          cases hacc : iterAccepts strict d with
          | none => rfl
          | some xs' =>
            have := (spec_iterAccepts_some.mp hacc).1
            rw [hxs] at this; cases this
            simp only
            rw [spec_mapOpt_none.mpr ⟨x, hx, (ih e x hd).2 hr⟩]
        | @iterBuild _ _ _ _ xs ys hxs hl hp hc =>
          cases hacc : iterAccepts strict d with
          | none => rfl
          | some xs' =>
            have := (spec_iterAccepts_some.mp hacc).1
            rw [hxs] at this; cases this
            simp only
            rw [spec_mapOpt_some.mpr ⟨hl, fun p hp' => (ih e p.1 hd).1 p.2 (hp p hp')⟩]
            exact hc
    | tuple ts =>
      simp only [specLoad]
      simp only [depth, Nat.add_le_add_iff_right, spec_depthL_le] at hd
      constructor
      · intro v h
        cases h with
        | @tuple _ _ xs ys hxs hex hlen hl hq =>
          rw [spec_iterAccepts_some.mpr ⟨hxs, hex⟩]
          simp only
          rw [if_pos hlen, (spec_zipWithOpt_some hlen).mpr ⟨hl, fun q hq' =>
            (ih q.1 q.2.1 (hd _ (List.of_mem_zip hq').1)).1 _ (hq q hq')⟩]
          rfl
      · intro h
        cases h with
        | tupleNot hn => rw [spec_iterAccepts_none.mpr (.inl hn)]
        | tupleExcluded hs hx => rw [spec_iterAccepts_none.mpr (.inr ⟨hs, hx⟩)]
        | @tupleArity _ _ xs hxs hlen =>
          cases hacc : iterAccepts strict d with
          | none => rfl
          | some xs' =>
            have := (spec_iterAccepts_some.mp hacc).1
            rw [hxs] at this; cases this
            simp only
            rw [if_neg hlen]
        | @tupleElem _ _ xs q hxs hq hr =>
          cases hacc : iterAccepts strict d with
          | none => rfl
          | some xs' =>
            have := (spec_iterAccepts_some.mp hacc).1
            rw [hxs] at this; cases this
            simp only
            split
            · rw [spec_zipWithOpt_none.mpr ⟨q, hq, (ih q.1 q.2 (hd _ (List.of_mem_zip hq).1)).2 hr⟩]
              rfl
            · rfl
    | dict K V =>
      simp only [specLoad]
      simp only [depth, Nat.add_le_add_iff_right, Nat.max_le] at hd
      constructor
      · intro v h
        cases h with
        | @dict _ _ kvs out hl hk hv hh =>
          simp only
          rw [spec_mapOpt_some.mpr ⟨hl, fun q hq => spec_pairOpt_some.mpr
            ⟨(ih K q.1.1 hd.1).1 _ (hk q hq), (ih V q.1.2 hd.2).1 _ (hv q hq)⟩⟩]
          simp only
          rw [if_pos (List.all_eq_true.mpr fun p hp => hh p hp)]
      · intro h
        cases h with
        | dictNot hn => cases d <;> simp [Val.isMapping] at hn <;> rfl
        | @dictKey _ _ kvs p hp hr =>
          simp only
          rw [spec_mapOpt_none.mpr ⟨p, hp, spec_pairOpt_none.mpr (.inl ((ih K p.1 hd.1).2 hr))⟩]
        | @dictValue _ _ kvs p hp hr =>
          simp only
          rw [spec_mapOpt_none.mpr ⟨p, hp, spec_pairOpt_none.mpr (.inr ((ih V p.2 hd.2).2 hr))⟩]
        | @dictKeyUnhashable _ _ kvs p k' hp hk hh =>
          simp only
          cases hmo : mapOpt (pairOpt (specLoad W strict n K) (specLoad W strict n V)) kvs with
          | none => rfl
          | some pairs =>
            simp only
            obtain ⟨q, hq, hpq⟩ := spec_mapOpt_mem hmo p hp
            have hk' := (ih K p.1 hd.1).1 _ hk
            have := (spec_pairOpt_some.mp hpq).1
            rw [hk'] at this
            have hq1 : q.1 = k' := by cases this; rfl
            rw [if_neg]
            intro hall
            have := List.all_eq_true.mp hall q hq
            rw [hq1, hh] at this; cases this
    | model c =>
      exact ⟨fun v h => (by cases h), fun h => (by cases h)⟩

end Adaptix.Morph
