/-
  C01 helper lemmas: `load` is monotone in the fuel — an outcome other than
  `diverge` is kept when more fuel is given.
-/
import AdaptixProofs.Lemmas.MorphRTFold

namespace Adaptix.Morph
open Adaptix.Py Adaptix.Morph.C01

/-- pointwise: whatever `f` decides without running out of fuel, `g` decides the same way -/
def FLe (f g : Val → Outcome Val) : Prop := ∀ d, OLe (f d) (g d)

theorem rt_all2_map {α β γ : Type} {R : β → γ → Prop} {f : α → β} {g : α → γ} {xs : List α}
    (h : ∀ x ∈ xs, R (f x) (g x)) : RtAll2 R (xs.map f) (xs.map g) := by
  induction xs with
  | nil => exact .nil
  | cons x xs ih =>
    exact .cons (h x (by simp)) (ih fun y hy => h y (by simp [hy]))

theorem rt_idxItems_mono_aux {os os' : List (Outcome Val)} (h : RtAll2 OLe os os') (k : Nat) :
    RtAll2 ItemLe ((os.zipIdx k).map fun (o, i) => (some (TrailEl.idx i), o))
      ((os'.zipIdx k).map fun (o, i) => (some (TrailEl.idx i), o)) := by
  induction h generalizing k with
  | nil => exact .nil
  | cons hab _ ih => exact .cons ⟨rfl, hab⟩ (ih (k + 1))

theorem rt_idxItems_mono {os os' : List (Outcome Val)} (h : RtAll2 OLe os os') :
    RtAll2 ItemLe (idxItems os) (idxItems os') := rt_idxItems_mono_aux h 0

theorem rt_zipApply_mono {α : Type} {f g : α → Val → Outcome Val} (h : ∀ t, FLe (f t) (g t))
    (ts : List α) (xs : List Val) :
    RtAll2 OLe (zipApply (ts.map f) xs) (zipApply (ts.map g) xs) := by
  induction ts generalizing xs with
  | nil => simp [zipApply]; exact .nil
  | cons t ts ih =>
    cases xs with
    | nil => simp [zipApply]; exact .nil
    | cons x xs => simp only [List.map_cons, zipApply]; exact .cons (h t x) (ih xs)

theorem rt_dictItems_mono {key key' value value' : Val → Outcome Val} (hk : FLe key key')
    (hv : FLe value value') (vf : Bool) (kvs : List (Val × Val)) :
    RtAll2 ItemLe (dictItems vf key value kvs) (dictItems vf key' value' kvs) := by
  induction kvs with
  | nil => simp [dictItems]; exact .nil
  | cons p kvs ih =>
    obtain ⟨k, v⟩ := p
    cases vf
    · simp only [dictItems]
      exact .cons ⟨rfl, hk k⟩ (.cons ⟨rfl, hv v⟩ ih)
    · simp only [dictItems]
      exact .cons ⟨rfl, hv v⟩ (.cons ⟨rfl, hk k⟩ ih)

theorem rt_modelItems_mono {fl fl' : Field → Val → Outcome Val} (h : ∀ f, FLe (fl f) (fl' f))
    (kvs : List (Val × Val)) (missing : List String) (fields : List Field) (reported : Bool) :
    RtAll2 ItemLe (modelItems fl kvs missing fields reported)
      (modelItems fl' kvs missing fields reported) := by
  induction fields generalizing reported with
  | nil => simp [modelItems]; exact .nil
  | cons f rest ih =>
    simp only [modelItems]
    split
    · exact .cons ⟨rfl, h f _⟩ (ih reported)
    · split
      · split
        · exact ih reported
        · exact .cons ⟨rfl, rt_OLe_refl _⟩ (ih true)
      · exact .cons ⟨rfl, rt_OLe_refl _⟩ (ih reported)

theorem rt_loadIter_mono {cfg : Cfg} {fac : Factory} {f g : Val → Outcome Val} (h : FLe f g)
    (d : Val) : OLe (loadIter cfg fac f d) (loadIter cfg fac g d) := by
  unfold loadIter
  split
  · exact rt_OLe_refl _
  · split
    · exact rt_OLe_refl _
    · exact rt_bindO_mono
        (rt_seqMode_mono _ (rt_idxItems_mono (rt_all2_map fun x _ => h x)))
        (fun _ => rt_OLe_refl _)

theorem rt_loadTuple_mono {cfg : Cfg} {f g : Ty → Val → Outcome Val} (h : ∀ t, FLe (f t) (g t))
    (elems : List Ty) (d : Val) :
    OLe (loadTuple cfg (elems.map f) d) (loadTuple cfg (elems.map g) d) := by
  unfold loadTuple
  split
  · exact rt_OLe_refl _
  · split
    · exact rt_OLe_refl _
    · simp only [List.length_map]
      split
      · exact rt_OLe_refl _
      · split
        · exact rt_OLe_refl _
        · exact rt_bindO_mono
            (rt_seqMode_mono _ (rt_idxItems_mono (rt_zipApply_mono h elems _)))
            (fun _ => rt_OLe_refl _)

theorem rt_loadDict_mono {cfg : Cfg} {key key' value value' : Val → Outcome Val}
    (hk : FLe key key') (hv : FLe value value') (d : Val) :
    OLe (loadDict cfg key value d) (loadDict cfg key' value' d) := by
  unfold loadDict
  split
  · exact rt_bindO_mono (rt_seqMode_mono _ (rt_dictItems_mono hk hv _ _)) (fun _ => rt_OLe_refl _)
  · exact rt_OLe_refl _

theorem rt_loadModel_mono {cfg : Cfg} {cls : String} {fields : List Field}
    {fl fl' : Field → Val → Outcome Val} (h : ∀ f, FLe (fl f) (fl' f)) (d : Val) :
    OLe (loadModel cfg cls fields fl d) (loadModel cfg cls fields fl' d) := by
  unfold loadModel
  split
  · exact rt_bindO_mono (rt_seqMode_mono _ (rt_modelItems_mono h _ _ _ _)) (fun _ => rt_OLe_refl _)
  · exact rt_OLe_refl _

/-! ### unions -/

theorem rt_unionFirstOk_mono {os os' : List (Outcome Val)} (h : RtAll2 OLe os os')
    (errs : List LErr) (hnd : (unionFirstOk os errs).1 ≠ .diverge) :
    unionFirstOk os' errs = unionFirstOk os errs := by
  induction h generalizing errs with
  | nil => rfl
  | @cons o o' os os' hab _ ih =>
    cases o with
    | err e =>
      have : o' = .err e := hab (by simp)
      subst this
      simp only [unionFirstOk] at hnd ⊢
      exact ih _ hnd
    | ok v => have : o' = .ok v := hab (by simp); subst this; simp [unionFirstOk]
    | escape e => have : o' = .escape e := hab (by simp); subst this; simp [unionFirstOk]
    | diverge => simp [unionFirstOk] at hnd

theorem rt_unionAll_mono {os os' : List (Outcome Val)} (h : RtAll2 OLe os os')
    (errs : List LErr) (u : Bool) : OLe (unionAll os errs u) (unionAll os' errs u) := by
  induction h generalizing errs u with
  | nil => exact rt_OLe_refl _
  | @cons o o' os os' hab _ ih =>
    intro hnd
    cases o with
    | err e =>
      have : o' = .err e := hab (by simp)
      subst this
      simp only [unionAll] at hnd ⊢
      exact ih _ _ hnd
    | ok v =>
      have : o' = .ok v := hab (by simp)
      subst this
      simp only [unionAll] at hnd ⊢
      cases u
      · rfl
      · simp only [if_true] at hnd ⊢; exact ih _ _ hnd
    | escape e =>
      have : o' = .escape e := hab (by simp)
      subst this
      simp only [unionAll] at hnd ⊢
      exact ih _ _ hnd
    | diverge => simp [unionAll] at hnd

theorem rt_loadUnion_general_mono {cfg : Cfg} {ld ld' : Ty → Val → Outcome Val}
    (h : ∀ t, FLe (ld t) (ld' t)) (cases : List Ty) (d : Val) :
    OLe (loadUnion.general cfg cases ld d) (loadUnion.general cfg cases ld' d) := by
  have hos : RtAll2 OLe (cases.map fun c => ld c d) (cases.map fun c => ld' c d) :=
    rt_all2_map fun c _ => h c d
  intro hnd
  unfold loadUnion.general at hnd ⊢
  cases htr : cfg.trail with
  | disable =>
    simp only [htr] at hnd ⊢
    have hk : (unionFirstOk (cases.map fun c => ld c d) []).1 ≠ .diverge := by
      intro hc
      revert hnd
      generalize unionFirstOk (cases.map fun c => ld c d) [] = r at hc
      obtain ⟨o, es⟩ := r
      simp only at hc; subst hc; simp
    rw [rt_unionFirstOk_mono hos [] hk]
  | first =>
    simp only [htr] at hnd ⊢
    have hk : (unionFirstOk (cases.map fun c => ld c d) []).1 ≠ .diverge := by
      intro hc
      revert hnd
      generalize unionFirstOk (cases.map fun c => ld c d) [] = r at hc
      obtain ⟨o, es⟩ := r
      simp only at hc; subst hc; simp
    rw [rt_unionFirstOk_mono hos [] hk]
  | all =>
    simp only [htr] at hnd ⊢
    exact rt_unionAll_mono hos [] false hnd

/-- what the single-optional loader does with the outcome of the other case -/
def rtOptWrap (cfg : Cfg) (d : Val) (o : Outcome Val) : Outcome Val :=
  match cfg.trail, o with
  | .disable, o => o
  | _, .err e => .err (LErr.union [LErr.leaf "TypeLoadError" d, e])
  | _, o => o

theorem rt_loadUnion_optional {cfg : Cfg} {cases : List Ty} {ld : Ty → Val → Outcome Val} {d : Val}
    (h : isSingleOptional cases = true) :
    loadUnion cfg cases ld d =
      if d.isNone then .ok .none else rtOptWrap cfg d (ld (optionalOther cases) d) := by
  cases cases with
  | nil => simp [isSingleOptional] at h
  | cons a l =>
    cases l with
    | nil => simp [isSingleOptional] at h
    | cons b l =>
      cases l with
      | nil =>
        simp only [isSingleOptional] at h
        simp only [loadUnion, h, if_true, optionalOther, rtOptWrap]
        split
        · rfl
        · generalize ld (if isNoneTy a = true then b else a) d = o
          cases cfg.trail <;> cases o <;> rfl
      | cons c l => simp [isSingleOptional] at h

theorem rt_loadUnion_general {cfg : Cfg} {cases : List Ty} {ld : Ty → Val → Outcome Val} {d : Val}
    (h : isSingleOptional cases = false) :
    loadUnion cfg cases ld d = loadUnion.general cfg cases ld d := by
  cases cases with
  | nil => simp [loadUnion]
  | cons a l =>
    cases l with
    | nil => simp [loadUnion]
    | cons b l =>
      cases l with
      | nil =>
        simp only [isSingleOptional] at h
        simp [loadUnion, h]
      | cons c l => simp [loadUnion]

theorem rt_optWrap_mono {cfg : Cfg} {d : Val} {o o' : Outcome Val} (h : OLe o o') :
    OLe (rtOptWrap cfg d o) (rtOptWrap cfg d o') := by
  intro hnd
  cases o with
  | diverge => cases htr : cfg.trail <;> simp [rtOptWrap, htr] at hnd
  | ok v => rw [h (by simp)]
  | err e => rw [h (by simp)]
  | escape e => rw [h (by simp)]

theorem rt_loadUnion_mono {cfg : Cfg} {ld ld' : Ty → Val → Outcome Val}
    (h : ∀ t, FLe (ld t) (ld' t)) (cases : List Ty) (d : Val) :
    OLe (loadUnion cfg cases ld d) (loadUnion cfg cases ld' d) := by
  cases hso : isSingleOptional cases with
  | true =>
    rw [rt_loadUnion_optional hso, rt_loadUnion_optional hso]
    split
    · exact rt_OLe_refl _
    · exact rt_optWrap_mono (h _ d)
  | false =>
    rw [rt_loadUnion_general hso, rt_loadUnion_general hso]
    exact rt_loadUnion_general_mono h _ d

/-- **fuel monotonicity of `load`** -/
theorem rt_load_succ (W : World) (cfg : Cfg) :
    ∀ (n : Nat) (T : Ty), FLe (load W cfg n T) (load W cfg (n + 1) T) := by
  intro n
  induction n with
  | zero => intro T d hnd; simp [load] at hnd
  | succ n ih =>
    intro T d
    cases T with
    | scalar s => simp only [load]; exact rt_OLe_refl _
    | any => simp only [load]; exact rt_OLe_refl _
    | literal vals => simp only [load]; exact rt_OLe_refl _
    | union cases keys =>
      rw [load, load]
      exact rt_loadUnion_mono (ld := fun c x => load W cfg n c x)
        (ld' := fun c x => load W cfg (n + 1) c x) (fun t => ih t) cases d
    | iter f dl elem =>
      rw [load, load]
      exact rt_loadIter_mono (ih elem) d
    | tuple elems =>
      rw [load, load]
      exact rt_loadTuple_mono (f := fun t => load W cfg n t) (g := fun t => load W cfg (n + 1) t)
        (fun t => ih t) elems d
    | dict k v =>
      rw [load, load]
      exact rt_loadDict_mono (ih k) (ih v) d
    | model cls =>
      rw [load, load]
      cases W.classes cls with
      | none => exact rt_OLe_refl _
      | some fields =>
        exact rt_loadModel_mono (fl := fun f x => load W cfg n f.ty x)
          (fl' := fun f x => load W cfg (n + 1) f.ty x) (fun f => ih f.ty) d

theorem rt_load_mono {W : World} {cfg : Cfg} {n m : Nat} {T : Ty} {d : Val} {r : Outcome Val}
    (h : load W cfg n T d = r) (hr : r ≠ .diverge) (hm : n ≤ m) : load W cfg m T d = r := by
  induction hm with
  | refl => exact h
  | step _ ih => rw [rt_load_succ W cfg _ T d (by rw [ih]; exact hr), ih]

end Adaptix.Morph
