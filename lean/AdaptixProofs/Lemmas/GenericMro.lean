/-
  From structural facts about the MRO to the precedence side condition (C16).
-/
import AdaptixProofs.Lemmas.GenericInv

namespace Adaptix.Generic

/-- the first element satisfying `p` in a duplicate-free list is also the
    first one in every subsequence that contains it -/
theorem find?_sublist {α : Type} (p : α → Bool) {l₁ l₂ : List α} (hs : l₁.Sublist l₂)
    (hn : l₂.Nodup) {d : α} (hf : l₂.find? p = some d) (hd : d ∈ l₁) : l₁.find? p = some d := by
  induction hs with
  | slnil => simp at hd
  | @cons l₁ l₂ a hs ih =>
    rw [List.nodup_cons] at hn
    simp only [List.find?_cons] at hf
    cases hp : p a with
    | true =>
      rw [hp] at hf
      simp only [Option.some.injEq] at hf
      subst hf
      exact absurd (hs.subset hd) hn.1
    | false =>
      rw [hp] at hf
      exact ih hn.2 hf hd
  | @cons_cons l₁ l₂ a hs ih =>
    rw [List.nodup_cons] at hn
    simp only [List.find?_cons] at hf ⊢
    cases hp : p a with
    | true =>
      rw [hp] at hf
      simpa using hf
    | false =>
      rw [hp] at hf
      simp only
      have hpd : p d = true := List.find?_some hf
      have hd' : d ∈ l₁ := by
        rcases List.mem_cons.mp hd with h | h
        · subst h; rw [hp] at hpd; cases hpd
        · exact h
      exact ih hn.2 hf hd'

theorem precedenceAgrees_of_noConflict {H : Hierarchy} (hwf : Wf H) (hm : MroMonotone H)
    (hn : NoConflict H) : PrecedenceAgrees H := by
  intro c hc k hkf hnown v _ _ b hb
  have hfp : firstProvider H c k = some b := by simpa using hb
  unfold firstProvider at hfp
  have hbm : b ∈ origBases H c := List.mem_of_find?_eq_some hfp
  have hkb : k ∈ fieldKeys H b.cls := by simpa using List.find?_some hfp
  have hmroCover : MroCover H := hwf.2.2.2.2.2.1
  cases hd : definer H c k with
  | none =>
    rw [mem_fieldKeys_iff] at hkf
    simp [hd] at hkf
  | some d =>
    have hdc : d ≠ c := by
      intro h
      subst h
      exact hnown ((lookup_isSome_iff_mem_keys _ _).mp (definer_mem hd).2)
    rcases hmroCover c hc d (definer_mem hd).1 with h | ⟨b1, hb1, hdb1⟩
    · exact absurd h hdc
    · have hdef1 : definer H b1.cls k = some d := by
        unfold definer at hd ⊢
        exact find?_sublist _ ((hm c hc).2 b1 hb1) (hm c hc).1 hd hdb1
      have hkb1 : k ∈ fieldKeys H b1.cls := by
        rw [mem_fieldKeys_iff]; simp [hdef1]
      rw [hn c hc k hkf b hbm b1 hb1 hkb hkb1, hdef1]

theorem noConflict_of_single {H : Hierarchy}
    (hs : ∀ c < H.classes.length, (origBases H c).length ≤ 1) : NoConflict H := by
  intro c hc k _ b₁ hb₁ b₂ hb₂ _ _
  have hl := hs c hc
  have : b₁ = b₂ := by
    cases hob : origBases H c with
    | nil => rw [hob] at hb₁; simp at hb₁
    | cons x xs =>
      rw [hob] at hb₁ hb₂ hl
      cases xs with
      | nil => simp at hb₁ hb₂; rw [hb₁, hb₂]
      | cons y ys => simp at hl
  rw [this]

end Adaptix.Generic
