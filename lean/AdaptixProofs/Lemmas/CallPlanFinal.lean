/-
  C08 lemmas: Python binds the emitted call to exactly the intended parameters.
-/
import AdaptixProofs.Lemmas.CallPlanMain

namespace Adaptix.CallPlan

variable {V : Type} [Inhabited V]

/-- signature entry of a parameter (`Shape.sig`) -/
def sgp (s : Shape) (p : Param) : SigParam :=
  { name := p.name, kind := p.kind,
    mustBind := match s.field? p.fieldId with
      | some f => f.required
      | Option.none => true }

theorem sig_params (s : Shape) : s.sig.params = s.params.map (sgp s) := rfl

/-- everything the binding argument needs, in elementary form -/
structure Hyp (s : Shape) (c : Cfg) (i : Inputs V) : Prop where
  names : (s.params.map (·.name)).Nodup
  fields : ∀ p ∈ s.params, (s.field? p.fieldId).isSome = true
  sorted : s.params.Pairwise (fun a b => a.kind.value ≤ b.kind.value)
  posReq : ∀ p ∈ s.params, ∀ f, s.field? p.fieldId = some f → p.kind = .posOnly → f.required = true
  skipOpt : ∀ p ∈ s.params, ∀ f, s.field? p.fieldId = some f → f.required = true → c.skipped.contains f.id = false
  inj : (s.params.map (·.fieldId)).Nodup
  vars : ∀ p ∈ s.params, passed s c p = true → (i.fieldVar p.fieldId).isSome = true
  extra : c.extraMove = .kwargs → s.kwargs = true ∧ (i.extra.map (·.1)).Nodup ∧
    ∀ k ∈ i.extra.map (·.1), isKwParam s.sig k = false

theorem isPacked_required {c : Cfg} {f : Field} (h : f.required = true) : isPacked c f = false := by
  unfold isPacked
  split <;> simp [h]

theorem good_of_posOnly {s : Shape} {c : Cfg} {i : Inputs V} (h : Hyp s c i) {p : Param} (hp : p ∈ s.params)
    (hk : p.kind = .posOnly) : good s c p = true := by
  have hf := h.fields p hp
  cases hfield : s.field? p.fieldId with
  | none => rw [hfield] at hf; cases hf
  | some f =>
    have hr := h.posReq p hp f hfield hk
    have hpass : passed s c p = true := by
      rw [passed_of hfield, h.skipOpt p hp f hfield hr, isPacked_required hr]; rfl
    simp [good, hpass, hk]

theorem isKwParam_of_mem {s : Shape} {p : Param} (hp : p ∈ s.params) (hk : p.kind ≠ .posOnly) :
    isKwParam s.sig p.name = true := by
  unfold isKwParam
  rw [sig_params, List.any_eq_true]
  exact ⟨sgp s p, List.mem_map.mpr ⟨p, hp, rfl⟩, by simp [sgp, hk]⟩

/-- the keyword items of the `**packed_fields` dict, as (parameter, value) facts -/
theorem mem_packedDict {s : Shape} {c : Cfg} {i : Inputs V} (hinj : (s.params.map (·.fieldId)).Nodup) {n : String} {v : V} :
    (n, v) ∈ packedDict s c i ↔
      ∃ p ∈ s.params, packedP s c p = true ∧ n = p.name ∧ i.loaded p.fieldId = some v := by
  unfold packedDict
  rw [List.mem_filterMap]
  constructor
  · rintro ⟨p, hp, hx⟩
    refine ⟨p, hp, ?_⟩
    cases hfield : s.field? p.fieldId with
    | none => simp [hfield] at hx
    | some f =>
      have hid := field?_id hfield
      simp only [hfield] at hx
      split at hx
      · rename_i hc
        simp only [Bool.and_eq_true] at hc
        simp only [Option.map_eq_some_iff] at hx
        obtain ⟨w, hw, hpair⟩ := hx
        cases hpair
        refine ⟨?_, rfl, ?_⟩
        · unfold packedP; rw [hfield]
          show (!c.skipped.contains f.id && isPacked c f) = true
          rw [hc.1.2, hc.1.1]; rfl
        · rw [← hid]; exact hw
      · cases hx
  · rintro ⟨p, hp, hpk, rfl, hl⟩
    refine ⟨p, hp, ?_⟩
    cases hfield : s.field? p.fieldId with
    | none => simp [packedP, hfield] at hpk
    | some f =>
      have hid := field?_id hfield
      unfold packedP at hpk
      rw [hfield] at hpk
      have hpk' := (Bool.and_eq_true _ _).mp hpk
      have hlast : (lastParamName f.id s.params == some p.name) = true := by
        rw [hid, lastParamName_of_nodup hinj hp]; simp
      simp only [hfield]
      rw [if_pos (by rw [hpk'.1, hpk'.2, hlast]; rfl), hid, hl]
      rfl

theorem passed_not_packedP {s : Shape} {c : Cfg} {p : Param} (h : passed s c p = true) : packedP s c p = false := by
  unfold passed at h; unfold packedP
  cases hf : s.field? p.fieldId with
  | none => rfl
  | some f =>
    rw [hf] at h
    simp only [Bool.and_eq_true, Bool.not_eq_true'] at h
    simp [h.2]

/-- the keyword items of the emitted call -/
def kwL (s : Shape) (c : Cfg) (i : Inputs V) : List (String × V) :=
  ((s.params.dropWhile (good s c)).filter (passed s c)).map (fun p => (p.name, valOf i p))

def preB (s : Shape) (c : Cfg) (i : Inputs V) : List (String × V) :=
  (s.params.takeWhile (good s c)).map (fun p => (p.name, valOf i p))

def exL (c : Cfg) (i : Inputs V) : List (String × V) := if c.extraMove == .kwargs then i.extra else []

def pkL (s : Shape) (c : Cfg) (i : Inputs V) : List (String × V) := if hasPacked s c then packedDict s c i else []

theorem kwItems_starTail (s : Shape) (c : Cfg) (i : Inputs V) :
    kwItems (starTail s c i) = .ok (pkL s c i ++ exL c i) := by
  unfold starTail pkL exL
  cases hasPacked s c <;> cases (c.extraMove == ExtraMove.kwargs) <;> simp [kwItems, Except.map]

theorem mem_pkL {s : Shape} {c : Cfg} {i : Inputs V} (hinj : (s.params.map (·.fieldId)).Nodup) {n : String} {v : V}
    (h : (n, v) ∈ pkL s c i) : ∃ p ∈ s.params, packedP s c p = true ∧ n = p.name ∧ i.loaded p.fieldId = some v := by
  unfold pkL at h
  split at h
  · exact (mem_packedDict hinj).mp h
  · cases h

theorem pkL_keys_sublist (s : Shape) (c : Cfg) (i : Inputs V) :
    ((pkL s c i).map (·.1)).Sublist (s.params.map (·.name)) := by
  unfold pkL
  split
  · unfold packedDict
    apply filterMap_keys_sublist
    intro p x hx
    cases hf : s.field? p.fieldId with
    | none => simp [hf] at hx
    | some f =>
      simp only [hf] at hx
      split at hx
      · simp only [Option.map_eq_some_iff] at hx
        obtain ⟨w, _, rfl⟩ := hx
        rfl
      · cases hx
  · exact List.nil_sublist _

theorem nodup_of_map_name {ps : List Param} (h : (ps.map (·.name)).Nodup) : ps.Nodup := by
  induction ps with
  | nil => exact List.nodup_nil
  | cons a ps ih =>
    simp only [List.map_cons, List.nodup_cons] at h ⊢
    exact ⟨fun hm => h.1 (List.mem_map.mpr ⟨a, hm, rfl⟩), ih h.2⟩

/-- all keys passed to the constructor are names of pairwise different parameters -/
theorem all_keys_nodup {s : Shape} {c : Cfg} {i : Inputs V} (h : Hyp s c i) :
    ((preB s c i).map (·.1) ++ ((kwL s c i).map (·.1) ++ (pkL s c i).map (·.1))).Nodup := by
  have hN := h.names
  have hps : s.params.Nodup := nodup_of_map_name hN
  have hsplit : s.params.takeWhile (good s c) ++ s.params.dropWhile (good s c) = s.params :=
    List.takeWhile_append_dropWhile
  have hpre : (preB s c i).map (·.1) = (s.params.takeWhile (good s c)).map (·.name) := by
    simp [preB, List.map_map, Function.comp_def]
  have hkw : (kwL s c i).map (·.1) = ((s.params.dropWhile (good s c)).filter (passed s c)).map (·.name) := by
    simp [kwL, List.map_map, Function.comp_def]
  rw [hpre, hkw]
  -- each block is a sublist of the parameter names
  have s1 : ((s.params.takeWhile (good s c)).map (·.name)).Sublist (s.params.map (·.name)) :=
    (List.takeWhile_sublist _).map _
  have s2 : (((s.params.dropWhile (good s c)).filter (passed s c)).map (·.name)).Sublist (s.params.map (·.name)) :=
    ((List.filter_sublist).trans (List.dropWhile_sublist _)).map _
  have s3 := pkL_keys_sublist s c i
  refine List.nodup_append.mpr ⟨List.Nodup.sublist s1 hN, List.nodup_append.mpr ⟨List.Nodup.sublist s2 hN, List.Nodup.sublist s3 hN, ?_⟩, ?_⟩
  · -- keyword block vs packed block: passed vs packed
    intro a ha b hb hab
    subst hab
    obtain ⟨p, hp, rfl⟩ := List.mem_map.mp ha
    obtain ⟨x, hx, hxa⟩ := List.mem_map.mp hb
    obtain ⟨q, hq, hqp, hname, _⟩ := mem_pkL h.inj (n := x.1) (v := x.2) hx
    have hpf := List.mem_filter.mp hp
    have hpm : p ∈ s.params := List.dropWhile_subset _ hpf.1
    have : p = q := name_inj hN hpm hq (by rw [← hxa, hname])
    subst this
    rw [passed_not_packedP hpf.2] at hqp
    cases hqp
  · -- positional block vs the rest
    intro a ha b hb hab
    subst hab
    obtain ⟨p, hp, rfl⟩ := List.mem_map.mp ha
    have hpm : p ∈ s.params := List.takeWhile_subset _ hp
    have hpg : good s c p = true := List.all_eq_true.mp List.all_takeWhile p hp
    rcases List.mem_append.mp hb with hb | hb
    · obtain ⟨q, hq, hqn⟩ := List.mem_map.mp hb
      have hqf := List.mem_filter.mp hq
      have hqm : q ∈ s.params := List.dropWhile_subset _ hqf.1
      have : q = p := name_inj hN hqm hpm hqn
      subst this
      have hdisj := (List.nodup_append.mp (hsplit ▸ hps)).2.2
      exact hdisj q hp q hqf.1 rfl
    · obtain ⟨x, hx, hxa⟩ := List.mem_map.mp hb
      obtain ⟨q, hq, hqp, hname, _⟩ := mem_pkL h.inj (n := x.1) (v := x.2) hx
      have : p = q := name_inj hN hpm hq (by rw [← hxa, hname])
      subst this
      simp only [good, Bool.and_eq_true] at hpg
      rw [passed_not_packedP hpg.1] at hqp
      cases hqp

theorem nodup_reverse' {α : Type} {l : List α} (h : l.Nodup) : l.reverse.Nodup := by
  unfold List.Nodup at h ⊢
  rw [List.pairwise_reverse]
  exact h.imp (fun hab => fun e => hab e.symm)

/-- the emitted call, as evaluated (`mkPlan_eq`) -/
def thePlan (s : Shape) (c : Cfg) (i : Inputs V) : List (Arg V) :=
  (s.params.takeWhile (good s c)).map (fun p => Arg.pos (valOf i p)) ++
    (((s.params.dropWhile (good s c)).filter (passed s c)).map (fun p => Arg.kw p.name (valOf i p)) ++
    starTail s c i)

/-- **Python binds the emitted call without a TypeError**, to the positional
    prefix, the keyword items and the present packed fields; the extra items go
    to `**kwargs`. -/
theorem bind_thePlan {s : Shape} {c : Cfg} {i : Inputs V} (h : Hyp s c i) :
    bindArgs s.sig (thePlan s c i) = .ok ((kwL s c i ++ pkL s c i).reverse ++ preB s c i, exL c i) := by
  have hsplit : s.params.takeWhile (good s c) ++ s.params.dropWhile (good s c) = s.params :=
    List.takeWhile_append_dropWhile
  -- positional phase
  let preS : List (SigParam × V) := (s.params.takeWhile (good s c)).map (fun p => (sgp s p, valOf i p))
  have hsig : s.sig.params = preS.map (·.1) ++ (s.params.dropWhile (good s c)).map (sgp s) := by
    have : preS.map (·.1) = (s.params.takeWhile (good s c)).map (sgp s) := by
      simp [preS, List.map_map, Function.comp_def]
    rw [sig_params, this, ← List.map_append, hsplit]
  have hargs : thePlan s c i = preS.map (fun x => Arg.pos x.2) ++
      ((kwL s c i).map (fun x => Arg.kw x.1 x.2) ++ starTail s c i) := by
    simp [thePlan, preS, kwL, List.map_map, Function.comp_def]
  have hpos : bindPos s.sig.params (thePlan s c i) =
      .ok (preB s c i, (kwL s c i).map (fun x => Arg.kw x.1 x.2) ++ starTail s c i) := by
    rw [hsig, hargs, bindPos_prefix]
    · simp only [preS, preB, List.map_map, Function.comp_def]
      rfl
    · intro x hx
      obtain ⟨p, hp, rfl⟩ := List.mem_map.mp hx
      have hpg : good s c p = true := List.all_eq_true.mp List.all_takeWhile p hp
      simp only [good, Bool.and_eq_true, bne_iff_ne, ne_eq] at hpg
      exact hpg.2
    · intro a ha
      cases hk : kwL s c i with
      | nil =>
        rw [hk] at ha
        simp only [List.map_nil, List.nil_append] at ha
        unfold starTail at ha
        cases hp : hasPacked s c <;> cases he : (c.extraMove == ExtraMove.kwargs) <;>
          simp [hp, he] at ha <;> subst ha <;> rfl
      | cons x xs =>
        rw [hk] at ha
        simp only [List.map_cons, List.cons_append, List.head?_cons, Option.some.injEq] at ha
        subst ha; rfl
  -- keyword phase
  have hkeys := all_keys_nodup h
  obtain ⟨hpreN, hrestN, hdisj⟩ := List.nodup_append.mp hkeys
  have hkwparams : ∀ kv ∈ kwL s c i ++ pkL s c i, isKwParam s.sig kv.1 = true := by
    intro kv hkv
    rcases List.mem_append.mp hkv with hk | hk
    · obtain ⟨p, hp, rfl⟩ := List.mem_map.mp hk
      have hpf := List.mem_filter.mp hp
      have hpm : p ∈ s.params := List.dropWhile_subset _ hpf.1
      exact isKwParam_of_mem hpm
        (not_posOnly_dropWhile (good s c) s.params h.sorted (fun q hq hk => good_of_posOnly h hq hk) p hpf.1)
    · obtain ⟨q, hq, hqp, hname, _⟩ := mem_pkL h.inj (n := kv.1) (v := kv.2) hk
      rw [hname]
      refine isKwParam_of_mem hq (fun hk => ?_)
      have := good_of_posOnly h hq hk
      simp only [good, Bool.and_eq_true] at this
      rw [passed_not_packedP this.1] at hqp
      cases hqp
  have hkw1 : bindKw s.sig (preB s c i) [] (kwL s c i ++ pkL s c i) =
      .ok ((kwL s c i ++ pkL s c i).reverse ++ preB s c i, []) := by
    apply bindKw_params _ _ _ _ hkwparams
    · simpa [List.map_append] using hrestN
    · intro n hn hn'
      rw [List.map_append] at hn
      exact hdisj n hn' n hn rfl
  have hkw2 : bindKw s.sig ((kwL s c i ++ pkL s c i).reverse ++ preB s c i) [] (exL c i) =
      .ok ((kwL s c i ++ pkL s c i).reverse ++ preB s c i, exL c i) := by
    unfold exL
    by_cases he : c.extraMove = .kwargs
    · obtain ⟨hvar, hnd, hnk⟩ := h.extra he
      have : (c.extraMove == ExtraMove.kwargs) = true := by simp [he]
      simp only [this, if_true]
      rw [bindKw_extra s.sig hvar i.extra _ [] (fun kv hkv => hnk kv.1 (List.mem_map.mpr ⟨kv, hkv, rfl⟩)) hnd
        (fun n _ hn' => by cases hn')]
      simp
    · have : (c.extraMove == ExtraMove.kwargs) = false := by simp [he]
      simp only [this]
      rfl
  have hkw : bindKw s.sig (preB s c i) [] ((kwL s c i ++ pkL s c i) ++ exL c i) =
      .ok ((kwL s c i ++ pkL s c i).reverse ++ preB s c i, exL c i) := by
    rw [bindKw_append, hkw1]
    exact hkw2
  -- nothing required is missing
  have hmiss : firstMissing ((kwL s c i ++ pkL s c i).reverse ++ preB s c i) s.sig.params = Option.none := by
    apply firstMissing_none
    intro sp hsp hmust
    rw [sig_params] at hsp
    obtain ⟨p, hp, rfl⟩ := List.mem_map.mp hsp
    have hf := h.fields p hp
    cases hfield : s.field? p.fieldId with
    | none => rw [hfield] at hf; cases hf
    | some f =>
      have hreq : f.required = true := by simpa [sgp, hfield] using hmust
      have hpass : passed s c p = true := by
        rw [passed_of hfield, h.skipOpt p hp f hfield hreq, isPacked_required hreq]; rfl
      have hmem : p ∈ s.params.takeWhile (good s c) ++ s.params.dropWhile (good s c) := by rw [hsplit]; exact hp
      have hin : (p.name, valOf i p) ∈ (kwL s c i ++ pkL s c i).reverse ++ preB s c i := by
        rcases List.mem_append.mp hmem with hm | hm
        · exact List.mem_append_right _ (List.mem_map.mpr ⟨p, hm, rfl⟩)
        · refine List.mem_append_left _ (List.mem_reverse.mpr (List.mem_append_left _ ?_))
          exact List.mem_map.mpr ⟨p, List.mem_filter.mpr ⟨hm, hpass⟩, rfl⟩
      have hnd : (((kwL s c i ++ pkL s c i).reverse ++ preB s c i).map (·.1)).Nodup := by
        rw [List.map_append, List.map_reverse, List.map_append]
        refine List.nodup_append.mpr ⟨nodup_reverse' hrestN, hpreN, ?_⟩
        intro a ha b hb hab
        exact hdisj b hb a (List.mem_reverse.mp ha) hab.symm
      show (List.lookup (sgp s p).name _).isSome = true
      rw [show (sgp s p).name = p.name from rfl, lookup_of_mem hnd hin]
      rfl
  unfold bindArgs
  rw [hpos]
  simp only []
  rw [kwItems_kw, kwItems_starTail]
  simp only [Except.map]
  rw [← List.append_assoc, hkw]
  simp only []
  rw [hmiss]

/-- the final binding -/
def finalB (s : Shape) (c : Cfg) (i : Inputs V) : Binding V := (kwL s c i ++ pkL s c i).reverse ++ preB s c i

theorem finalB_keys_nodup {s : Shape} {c : Cfg} {i : Inputs V} (h : Hyp s c i) :
    ((finalB s c i).map (·.1)).Nodup := by
  obtain ⟨hpreN, hrestN, hdisj⟩ := List.nodup_append.mp (all_keys_nodup h)
  unfold finalB
  rw [List.map_append, List.map_reverse, List.map_append]
  refine List.nodup_append.mpr ⟨nodup_reverse' hrestN, hpreN, ?_⟩
  intro a ha b hb hab
  exact hdisj b hb a (List.mem_reverse.mp ha) hab.symm

theorem mem_finalB {s : Shape} {c : Cfg} {i : Inputs V} {x : String × V} :
    x ∈ finalB s c i ↔ x ∈ kwL s c i ∨ x ∈ pkL s c i ∨ x ∈ preB s c i := by
  unfold finalB
  simp only [List.mem_append, List.mem_reverse]
  constructor
  · rintro ((h | h) | h)
    · exact Or.inl h
    · exact Or.inr (Or.inl h)
    · exact Or.inr (Or.inr h)
  · rintro (h | h | h)
    · exact Or.inl (Or.inl h)
    · exact Or.inl (Or.inr h)
    · exact Or.inr h

theorem key_mem_finalB {s : Shape} {c : Cfg} {i : Inputs V} (h : Hyp s c i) {p : Param} (hp : p ∈ s.params)
    {w : V} (hm : (p.name, w) ∈ finalB s c i) :
    (passed s c p = true ∧ i.fieldVar p.fieldId = some w) ∨ (packedP s c p = true ∧ i.loaded p.fieldId = some w) := by
  have hN := h.names
  have hval : ∀ q ∈ s.params, passed s c q = true → i.fieldVar q.fieldId = some (valOf i q) := by
    intro q hq hpq
    have := h.vars q hq hpq
    cases hv : i.fieldVar q.fieldId with
    | none => rw [hv] at this; cases this
    | some v => simp [valOf, hv]
  rcases mem_finalB.mp hm with hk | hk | hk
  · obtain ⟨q, hq, hqe⟩ := List.mem_map.mp hk
    have hqf := List.mem_filter.mp hq
    have hqm : q ∈ s.params := List.dropWhile_subset _ hqf.1
    have hn : q.name = p.name := congrArg Prod.fst hqe
    have : q = p := name_inj hN hqm hp hn
    subst this
    have hw : valOf i q = w := congrArg Prod.snd hqe
    exact Or.inl ⟨hqf.2, by rw [hval q hqm hqf.2, hw]⟩
  · obtain ⟨q, hq, hqp, hname, hl⟩ := mem_pkL h.inj hk
    have : p = q := name_inj hN hp hq hname
    subst this
    exact Or.inr ⟨hqp, hl⟩
  · obtain ⟨q, hq, hqe⟩ := List.mem_map.mp hk
    have hqm : q ∈ s.params := List.takeWhile_subset _ hq
    have hqg : good s c q = true := List.all_eq_true.mp List.all_takeWhile q hq
    simp only [good, Bool.and_eq_true] at hqg
    have hn : q.name = p.name := congrArg Prod.fst hqe
    have : q = p := name_inj hN hqm hp hn
    subst this
    have hw : valOf i q = w := congrArg Prod.snd hqe
    exact Or.inl ⟨hqg.1, by rw [hval q hqm hqg.1, hw]⟩

theorem hasPacked_of_packedP {s : Shape} {c : Cfg} {p : Param} (h : packedP s c p = true) : hasPacked s c = true := by
  unfold packedP at h
  cases hf : s.field? p.fieldId with
  | none => rw [hf] at h; cases h
  | some f =>
    rw [hf] at h
    simp only [Bool.and_eq_true] at h
    unfold hasPacked
    rw [List.any_eq_true]
    exact ⟨f, List.mem_of_find?_eq_some hf, h.2⟩

/-- **What each parameter is bound to.** -/
theorem lookup_finalB {s : Shape} {c : Cfg} {i : Inputs V} (h : Hyp s c i) {p : Param} (hp : p ∈ s.params) :
    (passed s c p = true → (finalB s c i).lookup p.name = i.fieldVar p.fieldId) ∧
    (packedP s c p = true → (finalB s c i).lookup p.name = i.loaded p.fieldId) ∧
    (passed s c p = false → packedP s c p = false → (finalB s c i).lookup p.name = Option.none) := by
  have hnd := finalB_keys_nodup h
  have hsplit : s.params.takeWhile (good s c) ++ s.params.dropWhile (good s c) = s.params :=
    List.takeWhile_append_dropWhile
  have hnone : (∀ w, (p.name, w) ∉ finalB s c i) → (finalB s c i).lookup p.name = Option.none := by
    intro hno
    apply lookup_none_of_not_mem
    intro hm
    obtain ⟨x, hx, hxe⟩ := List.mem_map.mp hm
    exact hno x.2 (by rw [← hxe]; exact hx)
  refine ⟨?_, ?_, ?_⟩
  · intro hpass
    have hv := h.vars p hp hpass
    cases hfv : i.fieldVar p.fieldId with
    | none => rw [hfv] at hv; cases hv
    | some v =>
      have hval : valOf i p = v := by simp [valOf, hfv]
      have hmem : p ∈ s.params.takeWhile (good s c) ++ s.params.dropWhile (good s c) := by rw [hsplit]; exact hp
      apply lookup_of_mem hnd
      apply mem_finalB.mpr
      rcases List.mem_append.mp hmem with hm | hm
      · exact Or.inr (Or.inr (List.mem_map.mpr ⟨p, hm, by rw [hval]⟩))
      · exact Or.inl (List.mem_map.mpr ⟨p, List.mem_filter.mpr ⟨hm, hpass⟩, by rw [hval]⟩)
  · intro hpk
    cases hl : i.loaded p.fieldId with
    | some v =>
      apply lookup_of_mem hnd
      apply mem_finalB.mpr
      refine Or.inr (Or.inl ?_)
      unfold pkL
      rw [hasPacked_of_packedP hpk]
      exact (mem_packedDict h.inj).mpr ⟨p, hp, hpk, rfl, hl⟩
    | none =>
      apply hnone
      intro w hm
      rcases key_mem_finalB h hp hm with ⟨hpass, _⟩ | ⟨_, hl'⟩
      · rw [passed_not_packedP hpass] at hpk; cases hpk
      · rw [hl] at hl'; cases hl'
  · intro hnp hnk
    apply hnone
    intro w hm
    rcases key_mem_finalB h hp hm with ⟨hpass, _⟩ | ⟨hpk, _⟩
    · rw [hnp] at hpass; cases hpass
    · rw [hnk] at hpk; cases hpk

end Adaptix.CallPlan
