import AdaptixModel.Retort.Router

namespace Adaptix.Router

variable {H : Type}

/-- handlers of the items that answer, in item order -/
def answers (r : Req) (items : List (Item H)) : List H := items.filterMap (Item.answer r)

theorem routeAux_spec (r : Req) (l : List (Item H)) (i : Nat) :
    (routeAux r l i = none ∧ answers r l = []) ∨
    (∃ h k, routeAux r l i = some (h, i + k + 1) ∧ k < l.length ∧
        answers r l = h :: answers r (l.drop (k + 1))) := by
  induction l generalizing i with
  | nil => left; simp [routeAux, answers]
  | cons it rest ih =>
    cases hans : it.answer r with
    | some h =>
      right
      refine ⟨h, 0, ?_, by simp, ?_⟩
      · simp [routeAux, hans]
      · simp [answers, hans]
    | none =>
      rcases ih (i + 1) with ⟨h1, h2⟩ | ⟨h, k, h1, h2, h3⟩
      · left
        refine ⟨by simp [routeAux, hans, h1], ?_⟩
        simpa [answers, List.filterMap_cons, hans] using h2
      · right
        refine ⟨h, k + 1, ?_, by simp; omega, ?_⟩
        · simp [routeAux, hans, h1]; omega
        · simpa [answers, List.filterMap_cons, hans] using h3

theorem visit_eq_answers (items : List (Item H)) (r : Req) :
    ∀ fuel off, items.length < off + fuel →
      visit items r fuel off = answers r (items.drop off) := by
  intro fuel
  induction fuel with
  | zero =>
    intro off h
    have : items.drop off = [] := List.drop_eq_nil_of_le (by omega)
    simp [visit, this, answers]
  | succ n ih =>
    intro off h
    unfold visit route
    rcases routeAux_spec r (items.drop off) off with ⟨h1, h2⟩ | ⟨hd, k, h1, _, h3⟩
    · simp [h1, h2]
    · simp only [h1]
      rw [ih (off + k + 1) (by omega), h3, List.drop_drop]
      have : off + (k + 1) = off + k + 1 := by omega
      simp [this]

/-- answers of a duplicate-free origin table = the entries whose key is the origin -/
def matchCombo (r : Req) (combo : List (Nat × H)) : List H :=
  (combo.filter (fun p => r.origin == p.1)).map (·.2)

theorem lookup_toList_of_nodup (r : Req) (m : List (Nat × H))
    (hn : (m.map (·.1)).Nodup) : (lookup r.origin m).toList = matchCombo r m := by
  induction m with
  | nil => simp [lookup, matchCombo]
  | cons p rest ih =>
    obtain ⟨k, h⟩ := p
    simp only [List.map_cons, List.nodup_cons] at hn
    by_cases hk : k = r.origin
    · subst hk
      have hnone : rest.filter (fun p => r.origin == p.1) = [] := by
        apply List.filter_eq_nil_iff.mpr
        intro a ha
        simp only [beq_iff_eq]
        intro heq
        exact hn.1 (List.mem_map.mpr ⟨a, ha, heq.symm⟩)
      simp [lookup, matchCombo, hnone]
    · have hk' : (k == r.origin) = false := by simpa using hk
      have hk'' : (r.origin == k) = false := by simpa using (fun h => hk h.symm)
      simp only [lookup, hk', Bool.false_eq_true, ↓reduceIte, matchCombo, List.filter_cons, hk'']
      simpa [matchCombo] using ih hn.2

theorem answers_stopCombo_none (r : Req) (combo : List (Nat × H))
    (hn : (combo.map (·.1)).Nodup) :
    answers r (stopCombo combo none) = matchCombo r combo := by
  unfold stopCombo
  match combo, hn with
  | [], _ => simp [answers, matchCombo]
  | [(o, h)], _ =>
    by_cases ho : r.origin = o <;>
      simp [answers, matchCombo, Item.answer, Checker.check, ho]
  | a :: b :: rest, hn =>
    have := lookup_toList_of_nodup r (a :: b :: rest) hn
    simp only [answers, List.filterMap_cons, Item.answer, List.filterMap_nil]
    cases hl : lookup r.origin (a :: b :: rest) with
    | none => rw [hl] at this; simpa using this
    | some v => rw [hl] at this; simpa using this

theorem answers_stopCombo_some (r : Req) (combo : List (Nat × H)) (c : Checker) (h : H)
    (hn : (combo.map (·.1)).Nodup) :
    answers r (stopCombo combo (some (c, h))) =
      matchCombo r combo ++ (if c.check r then [h] else []) := by
  have h0 := answers_stopCombo_none r combo hn
  unfold stopCombo at h0 ⊢
  simp only [answers, List.filterMap_append] at h0 ⊢
  rw [h0]
  by_cases hc : c.check r <;> simp [Item.answer, hc]

theorem hasKey_false_iff (o : Nat) (m : List (Nat × H)) :
    hasKey o m = false ↔ o ∉ m.map (·.1) := by
  simp [hasKey, List.any_eq_false]
  constructor
  · intro h x hx; exact h o x hx rfl
  · intro h a b hab heq; subst heq; exact h b hab

theorem answers_combineGo (r : Req) (cs : List (Checker × H)) :
    ∀ combo : List (Nat × H), (combo.map (·.1)).Nodup →
      answers r (combineGo combo cs) = matchCombo r combo ++ matching r cs := by
  induction cs with
  | nil =>
    intro combo hn
    simp [combineGo, answers_stopCombo_none r combo hn, matching]
  | cons p rest ih =>
    intro combo hn
    obtain ⟨c, h⟩ := p
    have hmatch : matching r ((c, h) :: rest) =
        (if c.check r then [h] else []) ++ matching r rest := by
      by_cases hc : c.check r <;> simp [matching, hc]
    cases c with
    | other i =>
      simp only [combineGo, register]
      show answers r (stopCombo combo (some (Checker.other i, h)) ++ combineGo [] rest) = _
      rw [show answers r (stopCombo combo (some (Checker.other i, h)) ++ combineGo [] rest)
            = answers r (stopCombo combo (some (Checker.other i, h))) ++ answers r (combineGo [] rest)
            from by simp [answers]]
      rw [answers_stopCombo_some r combo _ h hn, ih [] (by simp), hmatch]
      simp [matchCombo]
    | exact o =>
      simp only [combineGo, register]
      by_cases hk : hasKey o combo = true
      · simp only [hk, ↓reduceIte]
        rw [show answers r (stopCombo combo (some (Checker.exact o, h)) ++ combineGo [] rest)
              = answers r (stopCombo combo (some (Checker.exact o, h))) ++ answers r (combineGo [] rest)
              from by simp [answers]]
        rw [answers_stopCombo_some r combo _ h hn, ih [] (by simp), hmatch]
        simp [matchCombo]
      · have hk' : hasKey o combo = false := by simpa using hk
        simp only [hk', Bool.false_eq_true, ↓reduceIte, List.nil_append]
        have hnot := (hasKey_false_iff o combo).mp hk'
        have hn' : ((combo ++ [(o, h)]).map (·.1)).Nodup := by
          simp only [List.map_append, List.map_cons, List.map_nil]
          apply List.nodup_append.mpr
          refine ⟨hn, by simp, ?_⟩
          intro a ha b hb
          simp at hb
          subst hb
          intro heq; subst heq; exact hnot ha
        rw [ih _ hn', hmatch]
        by_cases ho : r.origin = o <;>
          simp [matchCombo, List.filter_append, Checker.check, ho]

theorem answers_combine (r : Req) (cs : List (Checker × H)) :
    answers r (combine cs) = matching r cs := by
  simpa [combine, matchCombo] using answers_combineGo r cs [] (by simp)

theorem send_eq_spec_answers (items : List (Item Handler)) (r : Req) :
    ∀ fuel off, items.length < off + fuel →
      send items r fuel off = specSend (answers r (items.drop off)) := by
  intro fuel
  induction fuel with
  | zero =>
    intro off h
    have : items.drop off = [] := List.drop_eq_nil_of_le (by omega)
    simp [send, this, answers, specSend]
  | succ n ih =>
    intro off h
    unfold send route
    rcases routeAux_spec r (items.drop off) off with ⟨h1, h2⟩ | ⟨hd, k, h1, _, h3⟩
    · simp [h1, h2, specSend]
    · simp only [h1]
      have hrest : send items r n (off + k + 1) =
          specSend (answers r ((items.drop off).drop (k + 1))) := by
        rw [ih (off + k + 1) (by omega), List.drop_drop]
        have : off + (k + 1) = off + k + 1 := by omega
        simp [this]
      rw [h3]
      cases hd with
      | respond w => simp [specSend]
      | decline => simp [specSend, hrest]
      | declineTerminal => simp [specSend]
      | chainFirst f =>
        simp only [specSend, hrest]
        cases specSend (answers r ((items.drop off).drop (k + 1))) <;> simp
      | chainLast f =>
        simp only [specSend, hrest]
        cases specSend (answers r ((items.drop off).drop (k + 1))) <;> simp

end Adaptix.Router
