/-
  Substitution lemmas for the C16 hint grammar.
-/
import AdaptixModel.Types.Generic

namespace Adaptix.Generic

theorem Hint.hasTV_false_iff (t : Hint) : t.hasTV = false ↔ t.tvs = [] := by
  induction t with
  | tv v => simp [Hint.hasTV, Hint.tvs]
  | atom n b => simp [Hint.hasTV, Hint.tvs]
  | con o => simp [Hint.hasTV, Hint.tvs]
  | app f a ihf iha => simp [Hint.hasTV, Hint.tvs, ihf, iha]

theorem Hint.subst_of_closed (σ : Subst) (t : Hint) (h : t.tvs = []) : t.subst σ = t := by
  induction t with
  | tv v => simp [Hint.tvs] at h
  | atom n b => rfl
  | con o => rfl
  | app f a ihf iha =>
    simp [Hint.tvs] at h
    simp [Hint.subst, ihf h.1, iha h.2]

theorem Hint.subst_nil (t : Hint) : t.subst [] = t := by
  induction t with
  | tv v => simp [Hint.subst]
  | atom n b => rfl
  | con o => rfl
  | app f a ihf iha => simp [Hint.subst, ihf, iha]

/-- a value the guard of `_get_members_by_parents` does not consider generic
    mentions no type variable -/
theorem Hint.closed_of_not_isGeneric (t : Hint) (h : t.isGeneric = false) : t.tvs = [] := by
  cases t with
  | tv v => simp [Hint.isGeneric] at h
  | atom n b => rfl
  | con o => rfl
  | app f a =>
    have : (Hint.app f a).hasTV = false := by simpa [Hint.isGeneric, Hint.hasTV] using h
    exact (Hint.hasTV_false_iff _).mp this

theorem Hint.isGeneric_of_hasTV (t : Hint) (h : t.hasTV = true) : t.isGeneric = true := by
  cases t with
  | tv v => rfl
  | atom n b => simp [Hint.hasTV] at h
  | con o => simp [Hint.hasTV] at h
  | app f a => simpa [Hint.isGeneric, Hint.hasTV] using h

/-- `_parametrize_by_dict` is plain simultaneous substitution -/
theorem parametrizeByDict_eq_subst (σ : Subst) (t : Hint) : parametrizeByDict σ t = t.subst σ := by
  cases t with
  | tv v => simp [parametrizeByDict, Hint.subst]
  | atom n b => simp [parametrizeByDict, Hint.hasTV, Hint.subst]
  | con o => simp [parametrizeByDict, Hint.hasTV, Hint.subst]
  | app f a =>
    simp only [parametrizeByDict]
    split
    · rename_i h
      have h' : (Hint.app f a).hasTV = false := by simpa using h
      exact (Hint.subst_of_closed σ _ ((Hint.hasTV_false_iff _).mp h')).symm
    · rfl

theorem lookup_zip_map (ps : List TVar) (as : List Hint) (f : Hint → Hint) (v : TVar) :
    (ps.zip (as.map f)).lookup v = ((ps.zip as).lookup v).map f := by
  induction ps generalizing as with
  | nil => simp
  | cons p ps ih =>
    cases as with
    | nil => simp
    | cons a as =>
      simp only [List.map_cons, List.zip_cons_cons, List.lookup_cons]
      split
      · rfl
      · exact ih as

theorem lookup_zip_isSome (ps : List TVar) (as : List Hint) (v : TVar)
    (hv : v ∈ ps) (hl : ps.length ≤ as.length) : ((ps.zip as).lookup v).isSome = true := by
  induction ps generalizing as with
  | nil => simp at hv
  | cons p ps ih =>
    cases as with
    | nil => simp at hl
    | cons a as =>
      simp only [List.zip_cons_cons, List.lookup_cons]
      split
      · rfl
      · rename_i hne
        have hv' : v ∈ ps := by
          rcases List.mem_cons.mp hv with h | h
          · subst h; simp at hne
          · exact h
        exact ih as hv' (by simpa using hl)

theorem mem_of_lookup_zip (ps : List TVar) (as : List Hint) (v : TVar) (a : Hint)
    (h : (ps.zip as).lookup v = some a) : a ∈ as := by
  induction ps generalizing as with
  | nil => simp at h
  | cons p ps ih =>
    cases as with
    | nil => simp at h
    | cons a' as =>
      simp only [List.zip_cons_cons, List.lookup_cons] at h
      split at h
      · simp at h; simp [h]
      · exact List.mem_cons_of_mem _ (ih as h)

/-- **Composition of substitutions along one base subscription.**
    Substituting the arguments of a subscribed base and then the binding of the
    subclass is the same as substituting the arguments *after* they were
    rewritten by the binding of the subclass — provided the annotation only
    mentions parameters of the base (no capture). -/
theorem Hint.subst_comp_zip (t : Hint) (ps : List TVar) (as : List Hint) (τ : Subst)
    (hs : ∀ v ∈ t.tvs, v ∈ ps) (hl : ps.length ≤ as.length) :
    (t.subst (ps.zip as)).subst τ = t.subst (ps.zip (as.map (·.subst τ))) := by
  induction t with
  | tv v =>
    have hv : v ∈ ps := hs v (by simp [Hint.tvs])
    have hsome := lookup_zip_isSome ps as v hv hl
    simp only [Hint.subst, lookup_zip_map]
    cases hlk : (ps.zip as).lookup v with
    | none => simp [hlk] at hsome
    | some a => simp
  | atom n b => rfl
  | con o => rfl
  | app f a ihf iha =>
    simp only [Hint.subst]
    rw [ihf (fun v hv => hs v (by simp [Hint.tvs, hv])), iha (fun v hv => hs v (by simp [Hint.tvs, hv]))]

/-- after substituting arguments for all parameters only type variables of
    the arguments remain -/
theorem Hint.tvs_subst_zip (t : Hint) (ps : List TVar) (as : List Hint)
    (hs : ∀ v ∈ t.tvs, v ∈ ps) (hl : ps.length ≤ as.length) :
    ∀ w ∈ (t.subst (ps.zip as)).tvs, ∃ a ∈ as, w ∈ a.tvs := by
  induction t with
  | tv v =>
    intro w hw
    have hv : v ∈ ps := hs v (by simp [Hint.tvs])
    have hsome := lookup_zip_isSome ps as v hv hl
    simp only [Hint.subst] at hw
    cases hlk : (ps.zip as).lookup v with
    | none => simp [hlk] at hsome
    | some a =>
      rw [hlk] at hw
      exact ⟨a, mem_of_lookup_zip ps as v a hlk, hw⟩
  | atom n b => intro w hw; simp [Hint.subst, Hint.tvs] at hw
  | con o => intro w hw; simp [Hint.subst, Hint.tvs] at hw
  | app f a ihf iha =>
    intro w hw
    simp only [Hint.subst, Hint.tvs, List.mem_append] at hw
    rcases hw with h | h
    · exact ihf (fun v hv => hs v (by simp [Hint.tvs, hv])) w h
    · exact iha (fun v hv => hs v (by simp [Hint.tvs, hv])) w h

theorem map_subst_of_closed (σ : Subst) (as : List Hint) (h : ∀ a ∈ as, a.tvs = []) :
    as.map (·.subst σ) = as := by
  induction as with
  | nil => rfl
  | cons a as ih =>
    simp only [List.map_cons]
    rw [Hint.subst_of_closed σ a (h a (by simp)), ih (fun b hb => h b (by simp [hb]))]

/-- the binding built for a bare class, `params.zip (params.map f)`, sends every parameter to its own image -/
theorem lookup_zip_map_self (ps : List TVar) (f : TVar → Hint) (v : TVar) (h : v ∈ ps) :
    (ps.zip (ps.map f)).lookup v = some (f v) := by
  induction ps with
  | nil => cases h
  | cons p ps ih =>
    simp only [List.map_cons, List.zip_cons_cons, List.lookup_cons]
    by_cases hpv : v = p
    · subst hpv; simp
    · have hmem : v ∈ ps := by
        rcases List.mem_cons.mp h with h | h
        · exact absurd h hpv
        · exact h
      have hb : (v == p) = false := by simpa using hpv
      rw [hb]; exact ih hmem

end Adaptix.Generic
