/-
  C14 helper lemmas: refusals (unlinked fields, unrelated scalars, element-wise only).
-/
import AdaptixProofs.Lemmas.CoerceDoc
import AdaptixProofs.Lemmas.CoerceFuel

namespace Adaptix.Conv

theorem planFields_unlinked {rec : Ty → Ty → Answer} {policy : Field → Bool} {sfs : List Field} {d : Field}
    (hnone : ∀ s ∈ sfs, s.name ≠ d.name)
    (hforbid : d.required = true ∨ policy d = false) :
    ∀ ds, d ∈ ds → ∀ plan, planFields rec policy sfs ds ≠ some (some plan)
  | [], hd, _ => by cases hd
  | x :: ds, hd, plan => by
    simp only [List.mem_cons] at hd
    unfold planFields
    rcases hd with rfl | hd
    · have hf : findSource d.name sfs = none := by
        unfold findSource
        rw [List.find?_eq_none]
        intro s hs
        simpa using hnone s hs
      simp only [hf]
      rcases hforbid with hreq | hpol
      · simp [hreq]
      · cases hr : d.required <;> simp [hpol]
    · have ih := planFields_unlinked (rec := rec) hnone hforbid ds hd
      split
      · split
        · simp
        · split
          · split
            · rename_i ps hps
              exact absurd hps (ih ps)
            · rename_i r hne
              intro hc
              exact hne plan hc
          · simp
      · split
        · split
          · rename_i ps hps
            exact absurd hps (ih ps)
          · rename_i r hne
            intro hc
            exact hne plan hc
        · simp
        · simp

/-- with the model provider first in the recipe, an unlinkable field makes the request fail -/
theorem model_first_refuses {cfg : Cfg} {rest : List Prov} (hrecipe : cfg.recipe = .model :: rest)
    {sc dc : Nat} {sa da : List Ty} {sfs dfs : List Field}
    (hss : cfg.shape sc sa = some sfs) (hds : cfg.shape dc da = some dfs)
    {d : Field} (hd : d ∈ dfs) (hnone : ∀ s ∈ sfs, s.name ≠ d.name)
    (hforbid : d.required = true ∨ cfg.policy.allowed dc d = false) :
    ∀ n c, provide cfg n (.cls sc sa) (.cls dc da) ≠ .ok c
  | 0, c => by simp [provide]
  | n + 1, c => by
    unfold provide
    rw [hrecipe]
    unfold runRecipe
    simp only [step, stepModel, hss, hds]
    have := planFields_unlinked (rec := provide cfg n) hnone hforbid dfs hd
    cases hp : planFields (provide cfg n) (cfg.policy.allowed dc) sfs dfs with
    | none => simp
    | some r =>
      cases r with
      | none => simp
      | some plan => exact absurd hp (this plan)

/-- no provider relates two different non-generic classes that are not models and not in
    the subclass relation: "there are no implicit coercions between scalar types" -/
theorem step_scalars {rec : Ty → Ty → Answer} {cfg : Cfg} {a b : Nat}
    (hsa : cfg.shape a [] = none) (hne : a ≠ b) (hsub : cfg.sub a b = false) (p : Prov) :
    step rec cfg (.cls a []) (.cls b []) p = .skip := by
  have hbeq : Ty.beq (.cls a []) (.cls b []) = false := by
    cases h : Ty.beq (.cls a []) (.cls b []) with
    | false => rfl
    | true => have := Ty.beq_eq _ _ h; simp at this; exact absurd this hne
  cases p with
  | model => simp [step, stepModel, hsa]
  | iterable => simp [step, stepIterable, parseIterSrc]
  | dict => simp [step, stepDict, parseDictSrc]
  | optional => simp [step, stepOptional, isOptional]
  | unwrap => simp [step, stepUnwrap, stripTags, Ty.beq_refl]
  | sameType => simp [step, stepSameType, hbeq]
  | dstAny => simp [step, stepDstAny]
  | unionSubcase => simp [step, stepUnionSubcase]
  | subclass => simp [step, stepSubclass, classOriginSrc, classOriginDst, hsub]

theorem runRecipe_all_skip {f : Prov → Step} : ∀ ps, (∀ p, f p = .skip) → runRecipe f ps = .notFound
  | [], _ => rfl
  | p :: ps, h => by
    unfold runRecipe
    rw [h p]
    exact runRecipe_all_skip ps h

theorem builtinRecipe_eq :
    builtinRecipe = [.model, .iterable, .dict, .optional, .unwrap, .sameType, .dstAny, .unionSubcase, .subclass] := by
  decide

end Adaptix.Conv
