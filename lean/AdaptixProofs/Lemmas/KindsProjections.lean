/-
  Helper lemmas for C17: the shape each introspector model yields for the *canonical* declaration
  of a logical model, in closed form (`shapeOf k m = .ok (i, o) → i.fields = …, o.fields = …`).
-/
import AdaptixProofs.Lemmas.KindsShapes

namespace Adaptix.Kinds

theorem shapeOf_dataclass_ok {m : LogicalModel} {i : InputShape} {o : OutputShape}
    (h : shapeOf .dataclass m = .ok (i, o)) :
    i.fields = m.fields.map (fun f => dcInField (declField .dataclass false f)) ∧
    o.fields = m.fields.map (fun f => dcOutField (declField .dataclass false f)) := by
  unfold shapeOf at h
  split at h
  · cases h
  · simp only [shapeOfDecl, declOf, dataclassShape, declFields_eq_map .dataclass (by decide)] at h
    have hini : (m.fields.map (declField .dataclass false)).filter dcInit = m.fields.map (declField .dataclass false) :=
      filter_map_all _ _ _ (fun a => by simp [dcInit, declField])
    have hreal : (m.fields.map (declField .dataclass false)).filter (fun f => f.pseudo == .none)
        = m.fields.map (declField .dataclass false) :=
      filter_map_all _ _ _ (fun a => by simp [declField])
    rw [hini, hreal] at h
    split at h
    · cases h
    · split at h
      · cases h
      · split at h
        · cases h
        · cases h
          simp [List.map_map, Function.comp_def]

theorem shapeOf_namedTuple_ok {m : LogicalModel} {i : InputShape} {o : OutputShape}
    (h : shapeOf .namedTuple m = .ok (i, o)) :
    (∀ f ∈ m.fields, ntDefault (declField .namedTuple false f) = f.default.toDflt) ∧
    i.fields = m.fields.map (fun f => ntInField (declField .namedTuple false f)) ∧
    o.fields = ntOutFields (m.fields.map (declField .namedTuple false)) 0 := by
  unfold shapeOf at h
  split at h
  · cases h
  · simp only [shapeOfDecl, declOf, namedTupleShape, declFields_eq_map .namedTuple (by decide)] at h
    split at h
    · cases h
    · split at h
      · cases h
      · rename_i hfac
        split at h
        · cases h
        · cases h
          refine ⟨?_, by simp [List.map_map, Function.comp_def], rfl⟩
          intro f hf
          have := hfac
          simp only [List.any_map, List.any_eq_true, not_exists, not_and, Function.comp] at this
          have hf' := this f hf
          cases hd : f.default <;> simp_all [declField, ntDefault, LDflt.toDflt, Dflt.isFactory]

theorem shapeOf_typedDict_ok {m : LogicalModel} {i : InputShape} {o : OutputShape}
    (h : shapeOf .typedDict m = .ok (i, o)) :
    i.fields = (sortByName (m.fields.map (declField .typedDict false))).map (tdInField true) ∧
    o.fields = (sortByName (m.fields.map (declField .typedDict false))).map (tdOutField true) := by
  unfold shapeOf at h
  split at h
  · cases h
  · simp only [shapeOfDecl, declOf, typedDictShape, declFields_eq_map .typedDict (by decide)] at h
    cases h
    exact ⟨rfl, rfl⟩

theorem shapeOf_attrs_ok {m : LogicalModel} {i : InputShape} {o : OutputShape}
    (h : shapeOf .attrs m = .ok (i, o)) :
    i.fields = m.fields.map (fun f => attrsInField (declField .attrs false f)) ∧
    o.fields = m.fields.map (fun f => attrsOutField (declField .attrs false f)) := by
  unfold shapeOf at h
  split at h
  · cases h
  · simp only [shapeOfDecl, declOf, attrsShape, declFields_eq_map .attrs (by decide)] at h
    have hini : (m.fields.map (declField .attrs false)).filter (·.init) = m.fields.map (declField .attrs false) :=
      filter_map_all _ _ _ (fun a => by simp [declField])
    rw [hini] at h
    split at h
    · cases h
    · split at h
      · cases h
      · split at h
        · cases h
        · cases h
          simp [List.map_map, Function.comp_def]

theorem shapeOf_pydantic_ok {m : LogicalModel} {i : InputShape} {o : OutputShape}
    (h : shapeOf .pydantic m = .ok (i, o)) :
    i.fields = m.fields.map (fun f => pydInField (declField .pydantic false f)) ∧
    o.fields = m.fields.map (fun f => pydOutField (declField .pydantic false f)) := by
  unfold shapeOf at h
  split at h
  · cases h
  · simp only [shapeOfDecl, declOf, pydanticShape, declFields_eq_map .pydantic (by decide)] at h
    have hreg : (m.fields.map (declField .pydantic false)).filter (fun f => f.cat == .regular)
        = m.fields.map (declField .pydantic false) :=
      filter_map_all _ _ _ (fun a => by simp [declField])
    have hcomp : (m.fields.map (declField .pydantic false)).filter (fun f => f.cat == .computed) = [] :=
      filter_map_none _ _ _ (fun a => by simp [declField])
    have hpriv : (m.fields.map (declField .pydantic false)).filter (fun f => f.cat == .priv) = [] :=
      filter_map_none _ _ _ (fun a => by simp [declField])
    rw [hreg, hcomp, hpriv] at h
    split at h
    · cases h
    · split at h
      · cases h
      · split at h
        · cases h
        · split at h
          · cases h
          · cases h
            simp [List.map_map, Function.comp_def]

/-- the canonical SQLAlchemy declaration of `f :: rest` -/
def saDecl (f : LField) (rest : List LField) : List DField :=
  declField .sqlalchemy true f :: rest.map (declField .sqlalchemy false)

theorem saDecl_cols (f : LField) (rest : List LField) :
    (saDecl f rest).filter (fun g => g.rel == .none) = saDecl f rest := by
  apply List.filter_eq_self.mpr
  intro g hg
  simp only [saDecl, List.mem_cons, List.mem_map] at hg
  rcases hg with rfl | ⟨a, _, rfl⟩ <;> simp [declField]

theorem saDecl_rels (f : LField) (rest : List LField) :
    (saDecl f rest).filter (fun g => g.rel != .none) = [] := by
  apply List.filter_eq_nil_iff.mpr
  intro g hg
  simp only [saDecl, List.mem_cons, List.mem_map] at hg
  rcases hg with rfl | ⟨a, _, rfl⟩ <;> simp [declField]

theorem saDecl_pks (f : LField) (rest : List LField) :
    (saDecl f rest).filter (·.pk) = [declField .sqlalchemy true f] := by
  have : (rest.map (declField .sqlalchemy false)).filter (·.pk) = [] :=
    filter_map_none _ _ _ (fun a => by simp [declField])
  simp [saDecl, declField, this]

theorem sqlalchemyShape_ok_of {d : Decl} {p : DField} {i : InputShape} {o : OutputShape}
    (hcols : d.fields.filter (fun g => g.rel == .none) = d.fields)
    (hrels : d.fields.filter (fun g => g.rel != .none) = [])
    (hpks : d.fields.filter (·.pk) = [p])
    (h : sqlalchemyShape d = .ok (i, o)) :
    i.fields = d.fields.map (saInField [p]) ∧ o.fields = d.fields.map saOutField ∧
      (∀ g ∈ d.fields, g.ty.isModel = false) := by
  simp only [sqlalchemyShape, hcols, hrels, hpks] at h
  split at h
  · cases h
  · split at h
    · cases h
    · rename_i hmodel
      split at h
      · cases h
      · split at h
        · cases h
        · cases h
          refine ⟨by simp, by simp, ?_⟩
          intro g hg
          simp only [List.any_eq_true, not_exists, not_and] at hmodel
          simpa using hmodel g hg

theorem shapeOf_sqlalchemy_ok {m : LogicalModel} {i : InputShape} {o : OutputShape}
    (h : shapeOf .sqlalchemy m = .ok (i, o)) :
    ∃ f rest, m.fields = f :: rest ∧
      i.fields = (saDecl f rest).map (saInField [declField .sqlalchemy true f]) ∧
      o.fields = (saDecl f rest).map saOutField ∧
      (∀ g ∈ saDecl f rest, g.ty.isModel = false) := by
  unfold shapeOf at h
  split at h
  · cases h
  · cases hm : m.fields with
    | nil =>
      simp [shapeOfDecl, declOf, sqlalchemyShape, hm, declFields] at h
    | cons f rest =>
      refine ⟨f, rest, rfl, ?_⟩
      simp only [shapeOfDecl, declOf, hm, declFields_sqlalchemy] at h
      exact sqlalchemyShape_ok_of (d := { kind := .sqlalchemy, fields := saDecl f rest })
        (saDecl_cols f rest) (saDecl_rels f rest) (saDecl_pks f rest) h

/-- a logical field whose SQLAlchemy column is read back with the same (required, default):
    no default → the column must be neither nullable (`Optional[...]`) nor the autoincrement primary
    key (first field, numeric type); a `None` default cannot be expressed at all. -/
def saFieldFaithful (isFirst : Bool) (f : LField) : Bool :=
  match f.default with
  | .none => !f.ty.isOptional && !(isFirst && f.ty.isNumericColumn)
  | .value .none => false
  | _ => true

def SAFaithful (m : LogicalModel) : Bool :=
  match m.fields with
  | [] => false
  | f :: rest => saFieldFaithful true f && rest.all (saFieldFaithful false)

@[simp] theorem saInField_id (pks : List DField) (g : DField) : (saInField pks g).id = g.name := by
  unfold saInField; split <;> rfl
@[simp] theorem saOutField_id (g : DField) : (saOutField g).id = g.name := by
  unfold saOutField; split <;> rfl

theorem saSpec_first_iff (f : LField) :
    (saInField [declField .sqlalchemy true f] (declField .sqlalchemy true f)).spec = f.inSpec
      ↔ saFieldFaithful true f = true := by
  simp only [saInField, declField, InField.spec, LField.inSpec, saColType, saRequired, saHasDefault,
    saNullable, saIsAutoinc, saShapeDefault, saFieldFaithful, InSpec.mk.injEq]
  generalize f.ty.isOptional = o
  generalize f.ty.isNumericColumn = n
  cases hd : f.default with
  | none => cases o <;> cases n <;> simp [LDflt.toDflt, LDflt.isNone]
  | value v => cases v <;> cases o <;> cases n <;> simp [LDflt.toDflt, LDflt.isNone]
  | factory fa => cases o <;> cases n <;> simp [LDflt.toDflt, LDflt.isNone]

theorem saSpec_rest_iff (p : DField) (f : LField) :
    (saInField [p] (declField .sqlalchemy false f)).spec = f.inSpec
      ↔ saFieldFaithful false f = true := by
  simp only [saInField, declField, InField.spec, LField.inSpec, saColType, saRequired, saHasDefault,
    saNullable, saIsAutoinc, saShapeDefault, saFieldFaithful, InSpec.mk.injEq]
  generalize f.ty.isOptional = o
  cases hd : f.default with
  | none => cases o <;> simp [LDflt.toDflt, LDflt.isNone]
  | value v => cases v <;> cases o <;> simp [LDflt.toDflt, LDflt.isNone]
  | factory fa => cases o <;> simp [LDflt.toDflt, LDflt.isNone]


theorem saOutSpec_eq (b : Bool) (f : LField) (h : saFieldFaithful b f = true) :
    (saOutField (declField .sqlalchemy b f)).spec = f.outSpec := by
  simp only [saOutField, declField, OutField.spec, LField.outSpec, saColType, saShapeDefault, Accessor.optional,
    saFieldFaithful] at h ⊢
  cases hd : f.default with
  | none => simp [LDflt.toDflt]
  | value v => cases v <;> simp_all [LDflt.toDflt]
  | factory fa => simp [LDflt.toDflt]

/-! ### the field ids of every kind's shape are the logical model's names -/

theorem shape_ids {k : Kind} {m : LogicalModel} {i : InputShape} {o : OutputShape}
    (h : shapeOf k m = .ok (i, o)) :
    (i.fields.map (·.id)).Perm (m.fields.map (·.name)) ∧ (o.fields.map (·.id)).Perm (m.fields.map (·.name)) := by
  cases k with
  | dataclass =>
    obtain ⟨hi, ho⟩ := shapeOf_dataclass_ok h
    rw [hi, ho]
    constructor <;> simp [List.map_map, Function.comp_def, dcInField, dcOutField]
  | namedTuple =>
    obtain ⟨_, hi, ho⟩ := shapeOf_namedTuple_ok h
    rw [hi, ho, ntOutFields_ids]
    constructor <;> simp [List.map_map, Function.comp_def, ntInField]
  | typedDict =>
    obtain ⟨hi, ho⟩ := shapeOf_typedDict_ok h
    rw [hi, ho]
    have hp := sortByName_perm (m.fields.map (declField .typedDict false))
    constructor
    · have := hp.map (fun g => (tdInField true g).id)
      simpa [List.map_map, Function.comp_def, tdInField] using this
    · have := hp.map (fun g => (tdOutField true g).id)
      simpa [List.map_map, Function.comp_def, tdOutField] using this
  | attrs =>
    obtain ⟨hi, ho⟩ := shapeOf_attrs_ok h
    rw [hi, ho]
    constructor <;> simp [List.map_map, Function.comp_def, attrsInField, attrsOutField]
  | pydantic =>
    obtain ⟨hi, ho⟩ := shapeOf_pydantic_ok h
    rw [hi, ho]
    constructor <;> simp [List.map_map, Function.comp_def, pydInField, pydOutField]
  | sqlalchemy =>
    obtain ⟨f, rest, hm, hi, ho, _⟩ := shapeOf_sqlalchemy_ok h
    rw [hi, ho, hm]
    constructor <;> simp [List.map_map, Function.comp_def, saDecl]

/-! ### the witness model of the TypedDict order deviation -/

/-- two fields declared `b, a` -/
def mBA : LogicalModel := { fields := [{ name := "b", ty := .str }, { name := "a", ty := .int }] }
theorem sortByName_mBA :
    sortByName ((mBA.fields).map (declField .typedDict false))
      = [{ name := "a", ty := .int }, { name := "b", ty := .str }] := by
  unfold sortByName
  simp only [mBA, List.map_cons, List.map_nil, declField, LDflt.isNone]
  rw [List.mergeSort]
  simp

end Adaptix.Kinds
