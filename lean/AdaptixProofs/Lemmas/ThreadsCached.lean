import AdaptixProofs.Lemmas.ThreadsCases
import AdaptixProofs.Lemmas.ThreadsEval

/-
  `Inv` is preserved by the actions of `cached_call`, by the loader-cache store and by the call.
  The lookups are where identity comparison of stubs matters (`sys.mode = .byId`).
-/
namespace Adaptix.Threads

variable {sys : Sys} {s : State} {t : Tid} {th : Thread}

theorem mem_take_reverse {α : Type} {l : List α} {n : Nat} {a : α} (h : a ∈ (l.take n).reverse) : a ∈ l :=
  List.mem_of_mem_take (List.mem_reverse.mp h)

theorem openStep_cached (o : List Loc) (site : Site) (const nargs : Nat) (kind : Kind) :
    openStep o (.cached site const nargs kind) = o := rfl

/-- whatever a lookup with the thread's own arguments returns may be held by the thread -/
theorem ownedBy_lookup (hmode : sys.mode = .byId) (hinv : Inv sys s) {key : Key} {v : Ref}
    (hargs : ∀ a ∈ key.args, OwnedBy s t a) (hl : ccLookup sys.mode s.stubs s.callCache key = some v) :
    OwnedBy s t v := by
  obtain ⟨e, he, hk, hv⟩ := ccLookup_some hl
  rw [hmode] at hk
  have hka := keyEq_byId_args hk
  have hc := hinv.cache e he
  rw [hv] at hc
  cases v with
  | prim p => trivial
  | stub x => exact hc.elim
  | clo j =>
    obtain ⟨cd, h1, h2⟩ := hc
    exact ownedBy_clo_of_args hinv h1 (fun a ha => hargs a (by rw [← hka, ← h2]; exact ha))

/-- `if key in self._call_cache` succeeds -/
theorem inv_look_hit (hinv : Inv sys s) (hth : s.threads[t]? = some th) {pc : Nat} {sub : Sub}
    (hp : th.phase = .run pc sub) {l : Label} :
    Inv sys (emit (setThread s t { th with phase := .run pc .get }) l) := by
  have hT := hinv.threads t th hth
  exact hinv.frame_local hth rfl rfl rfl rfl rfl (fun h => (run_not_closed hp h).elim) (hT.set_sub hp trivial)

/-- the thread moves on with a new operand stack, nothing shared changes -/
theorem inv_advance_local (hinv : Inv sys s) (hth : s.threads[t]? = some th) {pc : Nat} {sub : Sub}
    (hp : th.phase = .run pc sub) {site : Site} {const nargs : Nat} {kind : Kind}
    (hins : (sys.body th.ty)[pc]? = some (.cached site const nargs kind)) {stack' : List Ref}
    (hstack : ∀ a ∈ stack', OwnedBy s t a) {l : Label} :
    Inv sys (emit (setThread s t { th with phase := nextPhase (sys.body th.ty).length (pc + 1),
                                           stack := stack' }) l) := by
  have hT := hinv.threads t th hth
  refine hinv.frame_local hth rfl rfl rfl rfl rfl (fun h => (run_not_closed hp h).elim) ?_
  exact threadInv_advance (sys := sys) (s' := s) (t := t) (th := th) hT.bal hins
    (stack' := stack') (locs' := th.locToStub) hstack (by rw [openStep_cached]; exact (hT.sub pc sub hp).2.1)
    hT.nodup hT.nodupVals hT.locs (live_of_run hT) hT.res

theorem created_spec {site : Site} {const : Nat} {args : List Ref} {kind : Kind} {s1 : State} {r : Ref}
    (h : created s t site const args kind = some (s1, r)) :
    (s1 = s ∧ ∃ p, r = .prim p) ∨
    (∃ cd : CloData, s1 = { s with heap := s.heap ++ [cd] } ∧ r = .clo s.heap.length ∧ cd.args = args ∧
      cd.creq = t ∧ cd.tainted = args.any (isTainted s.heap)) := by
  cases kind with
  | fail => simp [created] at h
  | prim p => simp [created] at h; exact Or.inl ⟨h.1.symm, p, h.2.symm⟩
  | aux =>
    simp only [created, Option.some.injEq, Prod.mk.injEq] at h
    exact Or.inr ⟨_, h.1.symm, h.2.symm, rfl, rfl, rfl⟩
  | fresh n =>
    simp only [created, Option.some.injEq, Prod.mk.injEq] at h
    exact Or.inr ⟨_, h.1.symm, h.2.symm, rfl, rfl, rfl⟩

/-- a miss: `result = func(..)` has produced an object that is about to be stored -/
theorem inv_look_miss (hinv : Inv sys s) (hth : s.threads[t]? = some th) {pc : Nat} {sub : Sub}
    (hp : th.phase = .run pc sub) {site : Site} {const nargs : Nat} {kind : Kind}
    (hins : (sys.body th.ty)[pc]? = some (.cached site const nargs kind)) {s1 : State} {r : Ref}
    (hcr : created s t site const (th.stack.take nargs).reverse kind = some (s1, r)) {l : Label} :
    Inv sys (emit (setThread s1 t { th with phase := .run pc (.store r) }) l) := by
  have hT := hinv.threads t th hth
  have hn : instrNargs ((sys.body th.ty)[pc]?.getD (.stubGet 0)) = nargs := by rw [hins]; rfl
  rcases created_spec hcr with ⟨h1, p, h2⟩ | ⟨cd, h1, h2, h3, h4, h5⟩
  · subst h1; subst h2
    exact hinv.frame_local hth rfl rfl rfl rfl rfl (fun h => (run_not_closed hp h).elim) (hT.set_sub hp trivial)
  · subst h1; subst h2
    have e : ExtBy s (emit (setThread { s with heap := s.heap ++ [cd] } t
        { th with phase := .run pc (.store (.clo s.heap.length)) }) l) t :=
      extBy_heap (cd := cd) hth rfl (fun h => (run_not_closed hp h).elim) rfl h4 rfl
    have hnew : (s.heap ++ [cd])[s.heap.length]? = some cd := by simp
    refine hinv.frame e rfl ?_ ?_ ?_ ?_ (fun _ => ?_)
    · intro j cd' hj hnone
      simp only [emit_heap, setThread_heap] at hj
      have hjl : j = s.heap.length := by
        have h2 := lt_length_of_getElem? hj
        rw [List.getElem?_eq_none_iff] at hnone
        simp at h2; omega
      subst hjl
      rw [hnew] at hj; cases hj
      refine ⟨fun a ha => ?_, by rw [h5, h3]⟩
      rw [h4]
      exact hT.stack (run_active hp) a (mem_take_reverse (by rw [← h3]; exact ha))
    · intro en hen; exact Or.inl hen
    · intro x sd' r' hx hr; exact Or.inl ⟨sd', hx, hr⟩
    · intro en hen; exact Or.inl hen
    · have hT' := hT.transport_stubs_same e.toExt rfl (by rw [hp]; simp)
      refine hT'.set_sub hp ?_
      rw [hn]
      exact ⟨cd, hnew, h3⟩

/-- `return self._call_cache[key]` -/
theorem inv_get (hmode : sys.mode = .byId) (hinv : Inv sys s) (hth : s.threads[t]? = some th) {pc : Nat}
    {sub : Sub} (hp : th.phase = .run pc sub) {site : Site} {const nargs : Nat} {kind : Kind}
    (hins : (sys.body th.ty)[pc]? = some (.cached site const nargs kind)) {v : Ref}
    (hl : ccLookup sys.mode s.stubs s.callCache
      { site := site, const := const, aux := kind.isAux, args := (th.stack.take nargs).reverse } = some v)
    {l : Label} :
    Inv sys (emit (setThread s t
      { th with phase := nextPhase (sys.body th.ty).length (pc + 1),
                stack := if kind.isAux then th.stack.drop nargs else v :: th.stack.drop nargs }) l) := by
  have hT := hinv.threads t th hth
  refine inv_advance_local hinv hth hp hins ?_
  have hv : OwnedBy s t v :=
    ownedBy_lookup hmode hinv (fun a ha => hT.stack (run_active hp) a (mem_take_reverse ha)) hl
  intro a ha
  split at ha
  · exact hT.stack (run_active hp) a (List.mem_of_mem_drop ha)
  · rcases List.mem_cons.mp ha with ha | ha
    · rw [ha]; exact hv
    · exact hT.stack (run_active hp) a (List.mem_of_mem_drop ha)

/-- `self._call_cache[key] = result` -/
theorem inv_store (hmode : sys.mode = .byId) (hinv : Inv sys s) (hth : s.threads[t]? = some th) {pc : Nat}
    {r : Ref} (hp : th.phase = .run pc (.store r)) {site : Site} {const nargs : Nat} {kind : Kind}
    (hins : (sys.body th.ty)[pc]? = some (.cached site const nargs kind)) {l : Label} :
    Inv sys (emit (setThread
      { s with callCache := ccPut sys.mode s.stubs s.callCache
                 { site := site, const := const, aux := kind.isAux, args := (th.stack.take nargs).reverse } r } t
      { th with phase := nextPhase (sys.body th.ty).length (pc + 1),
                stack := if kind.isAux then th.stack.drop nargs else r :: th.stack.drop nargs }) l) := by
  have hT := hinv.threads t th hth
  have hn : instrNargs ((sys.body th.ty)[pc]?.getD (.stubGet 0)) = nargs := by rw [hins]; rfl
  have hsub := (hT.sub pc _ hp).2.2
  rw [hn] at hsub
  have hr : OwnedBy s t r := by
    cases r with
    | prim p => trivial
    | stub x => exact hsub.elim
    | clo j =>
      obtain ⟨cd, h1, h2⟩ := hsub
      exact ownedBy_clo_of_args hinv h1
        (fun a ha => hT.stack (run_active hp) a (mem_take_reverse (by rw [← h2]; exact ha)))
  have e : ExtBy s (emit (setThread
      { s with callCache := ccPut sys.mode s.stubs s.callCache
                 { site := site, const := const, aux := kind.isAux, args := (th.stack.take nargs).reverse } r } t
      { th with phase := nextPhase (sys.body th.ty).length (pc + 1),
                stack := if kind.isAux then th.stack.drop nargs else r :: th.stack.drop nargs }) l) t :=
    extBy_same hth rfl (fun h => (run_not_closed hp h).elim) rfl rfl
  refine hinv.frame e rfl ?_ ?_ ?_ ?_ (fun _ => ?_)
  · intro j cd h1 h2; simp at h1; rw [h2] at h1; cases h1
  · intro en hen
    simp only [emit_callCache, setThread_callCache] at hen
    rcases mem_ccPut hen with h | ⟨h1, h2⟩
    · exact Or.inl h
    · right
      have hargs : en.1.args = (th.stack.take nargs).reverse := by
        rcases h2 with h2 | h2
        · rw [h2]
        · rw [hmode] at h2; exact keyEq_byId_args h2
      rw [h1]
      cases r with
      | prim p => trivial
      | stub x => exact hsub.elim
      | clo j =>
        obtain ⟨cd, h3, h4⟩ := hsub
        exact ⟨cd, h3, by rw [h4, hargs]⟩
  · intro x sd' r' hx hr'; exact Or.inl ⟨sd', hx, hr'⟩
  · intro en hen; exact Or.inl hen
  · refine threadInv_advance (sys := sys) (t := t) (th := th) hT.bal hins ?_
      (by rw [openStep_cached]; exact (hT.sub pc _ hp).2.1) hT.nodup hT.nodupVals
      (fun loc x hm => hT.locs loc x hm) (fun x sd hx ho => live_of_run hT x sd hx ho) hT.res
    intro a ha
    split at ha
    · exact (hT.stack (run_active hp) a (List.mem_of_mem_drop ha)).mono e.toExt
    · rcases List.mem_cons.mp ha with ha | ha
      · rw [ha]; exact hr.mono e.toExt
      · exact (hT.stack (run_active hp) a (List.mem_of_mem_drop ha)).mono e.toExt

/-- `self._loader_cache[tp] = loader_`: the request is complete, its result is published -/
theorem inv_put (hinv : Inv sys s) (hth : s.threads[t]? = some th) (hp : th.phase = .put) {l : Label} :
    Inv sys (emit (setThread { s with loaderCache := lcPut s.loaderCache th.ty (th.stack.headD (.prim 0)) } t
      { th with phase := .call (th.stack.headD (.prim 0)) }) l) := by
  have hT := hinv.threads t th hth
  have hact : th.phase.isActive = true := by rw [hp]; rfl
  have hr : OwnedBy s t (th.stack.headD (.prim 0)) := by
    cases hs : th.stack with
    | nil => simp [OwnedBy]
    | cons a as => simp; exact hT.stack hact a (by rw [hs]; exact List.mem_cons_self)
  have e : ExtBy s (emit (setThread
      { s with loaderCache := lcPut s.loaderCache th.ty (th.stack.headD (.prim 0)) } t
      { th with phase := .call (th.stack.headD (.prim 0)) }) l) t :=
    extBy_same hth rfl (fun h => by rw [hp] at h; simp [Phase.isClosed] at h) rfl rfl
  have hlt := lt_length_of_getElem? hth
  have hclosed : closed (emit (setThread
      { s with loaderCache := lcPut s.loaderCache th.ty (th.stack.headD (.prim 0)) } t
      { th with phase := .call (th.stack.headD (.prim 0)) }) l) t :=
    ⟨{ th with phase := .call (th.stack.headD (.prim 0)) },
      by show (s.threads.set t _)[t]? = _; rw [List.getElem?_set]; simp [hlt], rfl⟩
  have hsealed := sealed_of_owned_closed (hr.mono e.toExt) hclosed
  refine hinv.frame e rfl ?_ ?_ ?_ ?_ (fun _ => ?_)
  · intro j cd h1 h2; simp at h1; rw [h2] at h1; cases h1
  · intro en hen; exact Or.inl hen
  · intro x sd' r' hx hr'; exact Or.inl ⟨sd', hx, hr'⟩
  · intro en hen
    simp only [emit_loaderCache, setThread_loaderCache] at hen
    rcases mem_lcPut hen with h | h
    · exact Or.inl h
    · exact Or.inr (by rw [h]; exact hsealed)
  · exact {
      stack := fun ha => by simp [Phase.isActive] at ha
      sub := fun pc sub h => by simp at h
      putEmpty := fun h => by simp at h
      call := fun r' h => by
        have : th.stack.headD (.prim 0) = r' := by simpa using h
        rw [← this]; exact hsealed
      bal := hT.bal
      nodup := hT.nodup
      nodupVals := hT.nodupVals
      locs := fun loc x hm => by
        have := hT.putEmpty hp
        simp only [this] at hm
        cases hm
      live := fun x sd hx ho => by
        refine ⟨by simp, Or.inl ?_⟩
        rcases live_of_run hT x sd hx ho with h | ⟨loc, h⟩
        · exact h
        · rw [hT.putEmpty hp] at h; cases h
      fresh := fun h => by simp at h
      res := hT.res }

/-- `loader(data)` -/
theorem inv_call (hinv : Inv sys s) (hth : s.threads[t]? = some th) {r : Ref} (hp : th.phase = .call r)
    {l : Label} :
    Inv sys (emit (setThread s t { th with phase := .done,
                                           result := some (eval s.heap s.stubs sys.fuel th.depth r) }) l) := by
  have hT := hinv.threads t th hth
  refine hinv.frame_local hth rfl rfl rfl rfl rfl (fun _ => rfl) ?_
  exact {
    stack := fun ha => by simp [Phase.isActive] at ha
    sub := fun pc sub h => by simp at h
    putEmpty := fun h => by simp at h
    call := fun r' h => by simp at h
    bal := hT.bal
    nodup := hT.nodup
    nodupVals := hT.nodupVals
    locs := hT.locs
    live := fun x sd hx ho => by
      refine ⟨by simp, Or.inl ?_⟩
      rcases (hT.live x sd hx ho).2 with h | ⟨h, _⟩
      · exact h
      · rw [hp] at h; simp [Phase.isActive] at h
    fresh := fun h => by simp at h
    res := fun h => sealed_eval hinv sys.fuel th.depth r (hT.call r hp) (Option.some.inj h) }

/-- the request cannot be satisfied: `_facade_provide` raises ProviderNotFoundError.  Nothing shared changes; the
    request is over, and (its program being balanced) it leaves no unbound stub behind. -/
theorem inv_raise (hinv : Inv sys s) (hth : s.threads[t]? = some th) (hp : th.phase = .put) {l : Label} :
    Inv sys (emit (setThread s t { th with phase := .done, result := some .notFound }) l) := by
  have hT := hinv.threads t th hth
  refine hinv.frame_local hth rfl rfl rfl rfl rfl (by simp [hp, Phase.isClosed]) ?_
  exact {
    stack := fun ha => by simp [Phase.isActive] at ha
    sub := fun pc sub h => by simp at h
    putEmpty := fun h => by simp at h
    call := fun r' h => by simp at h
    bal := hT.bal
    nodup := hT.nodup
    nodupVals := hT.nodupVals
    locs := hT.locs
    live := fun x sd hx ho => by
      refine ⟨by simp, Or.inl ?_⟩
      rcases live_of_run hT x sd hx ho with h | ⟨loc, h⟩
      · exact h
      · rw [hT.putEmpty hp] at h; cases h
    fresh := fun h => by simp at h
    res := by simp }

end Adaptix.Threads
