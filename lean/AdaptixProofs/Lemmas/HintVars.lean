/-
  Lemmas for the generic helpers of C15 (`AdaptixModel/Types/HintVars.lean`): membership in the modelled
  `__parameters__` is the occurrence relation.
-/
import AdaptixModel.Types.HintVarsSpec

namespace Adaptix.Types

variable {α : Type} [DecidableEq α]

theorem mem_mergeVars (a b : List α) (v : α) : v ∈ mergeVars a b ↔ v ∈ a ∨ v ∈ b := by
  unfold mergeVars
  simp only [List.mem_append, List.mem_filter]
  constructor
  · rintro (h | ⟨h, _⟩)
    · exact Or.inl h
    · exact Or.inr h
  · rintro (h | h)
    · exact Or.inl h
    · by_cases hv : v ∈ a
      · exact Or.inl hv
      · exact Or.inr ⟨h, by simpa using hv⟩

mutual
theorem mem_vars (E : GenEnv α) (v : α) : ∀ h : Hint α, v ∈ Hint.vars E h ↔ Occurs E v h
  | .typeVar a c lim => by
    simp only [Hint.vars, List.mem_singleton]
    constructor
    · rintro rfl; exact .tv _ _
    · intro h; cases h; rfl
  | .app al a args => by
    simp only [Hint.vars]
    split
    · rename_i hop
      simp only [List.not_mem_nil, false_iff]
      intro h
      cases h with
      | app _ _ _ m hno _ _ => simp [hop] at hno
    · rename_i hop
      rw [mem_varsList E v args]
      constructor
      · rintro ⟨m, hm, ho⟩; exact .app _ _ _ m (by simpa using hop) hm ho
      · intro h
        cases h with
        | app _ _ _ m _ hm ho => exact ⟨m, hm, ho⟩
  | .tupleVar al h => by
    simp only [Hint.vars, mem_vars E v h]
    exact ⟨fun ho => .tupleVar _ _ ho, fun ho => by cases ho; assumption⟩
  | .tupleFix al hs => by
    simp only [Hint.vars, mem_varsList E v hs]
    constructor
    · rintro ⟨m, hm, ho⟩; exact .tupleFix _ _ m hm ho
    · intro h
      cases h with
      | tupleFix _ _ m hm ho => exact ⟨m, hm, ho⟩
  | .typeOf al h => by
    simp only [Hint.vars, mem_vars E v h]
    exact ⟨fun ho => .typeOf _ _ ho, fun ho => by cases ho; assumption⟩
  | .union o ms => by
    simp only [Hint.vars, mem_varsList E v ms]
    constructor
    · rintro ⟨m, hm, ho⟩; exact .union _ _ m hm ho
    · intro h
      cases h with
      | union _ _ m hm ho => exact ⟨m, hm, ho⟩
  | .optional h => by
    simp only [Hint.vars, mem_vars E v h]
    exact ⟨fun ho => .optional _ ho, fun ho => by cases ho; assumption⟩
  | .annotated h ms => by
    simp only [Hint.vars, mem_vars E v h]
    exact ⟨fun ho => .annotated _ _ ho, fun ho => by cases ho; assumption⟩
  | .none _ => by simp only [Hint.vars, List.not_mem_nil, false_iff]; intro h; cases h
  | .any => by simp only [Hint.vars, List.not_mem_nil, false_iff]; intro h; cases h
  | .cls _ => by simp only [Hint.vars, List.not_mem_nil, false_iff]; intro h; cases h
  | .newType _ => by simp only [Hint.vars, List.not_mem_nil, false_iff]; intro h; cases h
  | .bare _ _ _ => by simp only [Hint.vars, List.not_mem_nil, false_iff]; intro h; cases h
  | .tupleBare _ => by simp only [Hint.vars, List.not_mem_nil, false_iff]; intro h; cases h
  | .typeBare _ => by simp only [Hint.vars, List.not_mem_nil, false_iff]; intro h; cases h
  | .literal _ => by simp only [Hint.vars, List.not_mem_nil, false_iff]; intro h; cases h
theorem mem_varsList (E : GenEnv α) (v : α) : ∀ hs : List (Hint α),
    v ∈ Hint.varsList E hs ↔ ∃ m, m ∈ hs ∧ Occurs E v m
  | [] => by simp [Hint.varsList]
  | h :: hs => by
    simp only [Hint.varsList, mem_mergeVars, mem_vars E v h, mem_varsList E v hs, List.mem_cons]
    constructor
    · rintro (ho | ⟨m, hm, ho⟩)
      · exact ⟨h, Or.inl rfl, ho⟩
      · exact ⟨m, Or.inr hm, ho⟩
    · rintro ⟨m, (rfl | hm), ho⟩
      · exact Or.inl ho
      · exact Or.inr ⟨m, hm, ho⟩
end

theorem occurs_union (E : GenEnv α) (v : α) (o : Bool) (ms : List (Hint α)) :
    Occurs E v (.union o ms) ↔ ∃ m, m ∈ ms ∧ Occurs E v m := by
  rw [← mem_varsList E v ms, ← mem_vars E v (.union o ms)]; simp [Hint.vars]

end Adaptix.Types
