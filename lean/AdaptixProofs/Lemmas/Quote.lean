/-
  Helper lemmas for C19 (string quoting): hex round trip, one-character step of
  the lexer over the output of `escChar`.
-/
import AdaptixModel.Gen.Quote

namespace Adaptix.Gen

theorem hexVal_hexDigit : ∀ d, d < 16 → hexVal (hexDigit d) = some d := by decide

theorem hexRun2 (c : Nat) (h : c < 256) (tl : Str) : hexRun 2 (hex2 c ++ tl) = some (c, tl) := by
  simp [hex2, hexRun, hexVal_hexDigit (c / 16 % 16) (by omega), hexVal_hexDigit (c % 16) (by omega)]
  omega

theorem hexRun4 (c : Nat) (h : c < 65536) (tl : Str) : hexRun 4 (hex4 c ++ tl) = some (c, tl) := by
  simp [hex4, hexRun, hexVal_hexDigit (c / 4096 % 16) (by omega), hexVal_hexDigit (c / 256 % 16) (by omega),
    hexVal_hexDigit (c / 16 % 16) (by omega), hexVal_hexDigit (c % 16) (by omega)]
  omega

theorem hexRun8 (c : Nat) (h : c < 4294967296) (tl : Str) : hexRun 8 (hex8 c ++ tl) = some (c, tl) := by
  simp [hex8, hexRun, hexVal_hexDigit (c / 268435456 % 16) (by omega),
    hexVal_hexDigit (c / 16777216 % 16) (by omega), hexVal_hexDigit (c / 1048576 % 16) (by omega),
    hexVal_hexDigit (c / 65536 % 16) (by omega),
    hexVal_hexDigit (c / 4096 % 16) (by omega), hexVal_hexDigit (c / 256 % 16) (by omega),
    hexVal_hexDigit (c / 16 % 16) (by omega), hexVal_hexDigit (c % 16) (by omega)]
  omega

/-- hypothesis on the `printable` oracle: lone surrogates are not printable
    (`str.isprintable` is False for category Cs). -/
def SurrogatesNotPrintable (printable : Nat → Bool) : Prop :=
  ∀ c, 0xD800 ≤ c → c ≤ 0xDFFF → printable c = false

theorem lexBody_quote (q f : Nat) (rest : Str) : lexBody q (f + 1) (q :: rest) = some ([], rest) := by
  simp [lexBody]

/-- One source character: lexing the output of `escChar` yields exactly that character. -/
theorem lexBody_escChar (printable : Nat → Bool) (hp : SurrogatesNotPrintable printable)
    (q : Nat) (hq : q = 39 ∨ q = 34) (c : Nat) (hc : c < 0x110000) (f : Nat) (tl : Str) :
    lexBody q (f + 1) (escChar printable q c ++ tl) =
      match lexBody q f tl with
      | none => none
      | some (s, r) => some (c :: s, r) := by
  unfold escChar
  by_cases h1 : c = q ∨ c = 92
  · rw [if_pos h1]
    have hq92 : (92 : Nat) ≠ q := by omega
    rcases h1 with h1 | h1
    · subst h1
      rcases hq with hq | hq <;> subst hq <;> simp [lexBody, lexEscape] <;> (rcases lexBody _ f tl with _ | ⟨s, r⟩ <;> simp)
    · subst h1
      simp [lexBody, lexEscape, hq92] <;> (rcases lexBody q f tl with _ | ⟨s, r⟩ <;> simp)
  · rw [if_neg h1]
    have hcq : c ≠ q := fun h => h1 (Or.inl h)
    have hc92 : c ≠ 92 := fun h => h1 (Or.inr h)
    have hq92 : (92 : Nat) ≠ q := by omega
    by_cases h2 : c = 9
    · subst h2; simp [lexBody, lexEscape, hq92] <;> (rcases lexBody q f tl with _ | ⟨s, r⟩ <;> simp)
    rw [if_neg h2]
    by_cases h3 : c = 10
    · subst h3; simp [lexBody, lexEscape, hq92] <;> (rcases lexBody q f tl with _ | ⟨s, r⟩ <;> simp)
    rw [if_neg h3]
    by_cases h4 : c = 13
    · subst h4; simp [lexBody, lexEscape, hq92] <;> (rcases lexBody q f tl with _ | ⟨s, r⟩ <;> simp)
    rw [if_neg h4]
    by_cases h5 : c < 32 ∨ c = 127
    · rw [if_pos h5]
      have hlt : c < 256 := by omega
      simp [lexBody, lexEscape, hq92, hexRun2 c hlt] <;> (rcases lexBody q f tl with _ | ⟨s, r⟩ <;> simp)
    rw [if_neg h5]
    have raw : ∀ (_ : ¬ (0xD800 ≤ c ∧ c ≤ 0xDFFF)), lexBody q (f + 1) ([c] ++ tl) =
        match lexBody q f tl with
        | none => none
        | some (s, r) => some (c :: s, r) := by
      intro hs
      have h0 : ¬ (c = 10 ∨ c = 13 ∨ c = 0 ∨ (0xD800 ≤ c ∧ c ≤ 0xDFFF)) := by omega
      simp only [List.singleton_append, lexBody, if_neg hcq, if_neg hc92, if_neg h0] <;> (rcases lexBody q f tl with _ | ⟨s, r⟩ <;> simp)
    by_cases h6 : c < 127
    · rw [if_pos h6]; exact raw (by omega)
    rw [if_neg h6]
    by_cases h7 : printable c = true
    · rw [if_pos h7]
      refine raw ?_
      intro hs
      have := hp c hs.1 hs.2
      simp [this] at h7
    rw [if_neg h7]
    by_cases h8 : c ≤ 255
    · rw [if_pos h8]
      simp [lexBody, lexEscape, hq92, hexRun2 c (by omega)] <;> (rcases lexBody q f tl with _ | ⟨s, r⟩ <;> simp)
    rw [if_neg h8]
    by_cases h9 : c ≤ 65535
    · rw [if_pos h9]
      simp [lexBody, lexEscape, hq92, hexRun4 c (by omega)] <;> (rcases lexBody q f tl with _ | ⟨s, r⟩ <;> simp)
    rw [if_neg h9]
    have h10 : c < 4294967296 := by omega
    simp [lexBody, lexEscape, hq92, hexRun8 c h10, hc] <;> (rcases lexBody q f tl with _ | ⟨s, r⟩ <;> simp)

theorem escChar_length_pos (printable : Nat → Bool) (q c : Nat) : 1 ≤ (escChar printable q c).length := by
  unfold escChar
  repeat' split
  all_goals simp [hex2, hex4, hex8]

theorem reprBody_length (printable : Nat → Bool) (q : Nat) (s : Str) :
    s.length ≤ (reprBody printable q s).length := by
  induction s with
  | nil => simp [reprBody]
  | cons c t ih =>
    have := escChar_length_pos printable q c
    simp [reprBody, List.flatMap_cons] at ih ⊢
    omega

/-- Lexing the body produced by `repr` stops exactly at the closing quote. -/
theorem lexBody_reprBody (printable : Nat → Bool) (hp : SurrogatesNotPrintable printable)
    (q : Nat) (hq : q = 39 ∨ q = 34) (s : Str) (hs : Str.WF s) (rest : Str) :
    ∀ f, s.length + 1 ≤ f → lexBody q f (reprBody printable q s ++ q :: rest) = some (s, rest) := by
  induction s with
  | nil =>
    intro f hf
    obtain ⟨f', rfl⟩ : ∃ f', f = f' + 1 := ⟨f - 1, by omega⟩
    simp [reprBody, lexBody_quote]
  | cons c t ih =>
    intro f hf
    obtain ⟨f', rfl⟩ : ∃ f', f = f' + 1 := ⟨f - 1, by omega⟩
    have hc : c < 0x110000 := hs c (by simp)
    have ht : Str.WF t := fun x hx => hs x (by simp [hx])
    have hstep := lexBody_escChar printable hp q hq c hc f' (reprBody printable q t ++ q :: rest)
    have hrec := ih ht f' (by simp at hf; omega)
    simp only [reprBody, List.flatMap_cons, List.append_assoc] at hstep ⊢
    rw [hstep]
    simp only [reprBody] at hrec
    rw [hrec]

/-- the first character of a non-empty `repr` body is never the quote itself -/
theorem escChar_head_ne_quote (printable : Nat → Bool) (q : Nat) (hq : q = 39 ∨ q = 34) (c : Nat) :
    (escChar printable q c).head? ≠ some q := by
  unfold escChar
  repeat' split
  all_goals simp
  all_goals omega

/-- a single-quoted (not triple-quoted) literal: `lexString` is `lexBody` with fuel = input length -/
theorem lexString_cons (q : Nat) (hq : q = 39 ∨ q = 34) (cs : Str)
    (hnt : ∀ tl, cs ≠ q :: q :: tl) : lexString (q :: cs) = lexBody q cs.length cs := by
  cases cs with
  | nil => simp [lexString, hq]
  | cons a t =>
    cases t with
    | nil => simp [lexString, hq]
    | cons b tl =>
      have : ¬ (a = q ∧ b = q) := by
        intro h
        exact hnt tl (by rw [h.1, h.2])
      simp [lexString, hq, this]

/-! ### the output alphabet of `repr` -/

theorem hexDigit_range (d : Nat) (h : d < 16) : 48 ≤ hexDigit d ∧ hexDigit d ≤ 102 := by
  unfold hexDigit; split <;> omega

/-- an output character of `repr`: printable ASCII, or non-ASCII that the oracle calls printable -/
def OkOut (printable : Nat → Bool) (c : Nat) : Prop :=
  (c < 128 → 32 ≤ c ∧ c ≠ 127) ∧ (128 ≤ c → printable c = true)

theorem okOut_ascii (printable : Nat → Bool) (c : Nat) (h1 : 32 ≤ c) (h2 : c < 127) : OkOut printable c :=
  ⟨fun _ => ⟨h1, by omega⟩, fun h => by omega⟩

theorem okOut_hex (printable : Nat → Bool) (d : Nat) (h : d < 16) : OkOut printable (hexDigit d) := by
  have := hexDigit_range d h
  exact okOut_ascii printable _ (by omega) (by omega)

theorem escChar_ok (printable : Nat → Bool) (q : Nat) (hq : q = 39 ∨ q = 34) (c : Nat) :
    ∀ y ∈ escChar printable q c, OkOut printable y := by
  intro y hy
  unfold escChar at hy
  have hx : ∀ d, d < 16 → OkOut printable (hexDigit d) := okOut_hex printable
  by_cases h1 : c = q ∨ c = 92
  · rw [if_pos h1] at hy
    simp at hy
    rcases hy with rfl | rfl
    · exact okOut_ascii printable _ (by omega) (by omega)
    · exact okOut_ascii printable _ (by omega) (by omega)
  rw [if_neg h1] at hy
  by_cases h2 : c = 9
  · rw [if_pos h2] at hy; simp at hy
    rcases hy with rfl | rfl <;> exact okOut_ascii printable _ (by omega) (by omega)
  rw [if_neg h2] at hy
  by_cases h3 : c = 10
  · rw [if_pos h3] at hy; simp at hy
    rcases hy with rfl | rfl <;> exact okOut_ascii printable _ (by omega) (by omega)
  rw [if_neg h3] at hy
  by_cases h4 : c = 13
  · rw [if_pos h4] at hy; simp at hy
    rcases hy with rfl | rfl <;> exact okOut_ascii printable _ (by omega) (by omega)
  rw [if_neg h4] at hy
  by_cases h5 : c < 32 ∨ c = 127
  · rw [if_pos h5] at hy; simp [hex2] at hy
    rcases hy with rfl | rfl | rfl | rfl
    · exact okOut_ascii printable _ (by omega) (by omega)
    · exact okOut_ascii printable _ (by omega) (by omega)
    · exact hx _ (by omega)
    · exact hx _ (by omega)
  rw [if_neg h5] at hy
  by_cases h6 : c < 127
  · rw [if_pos h6] at hy; simp at hy; subst hy
    exact okOut_ascii printable _ (by omega) h6
  rw [if_neg h6] at hy
  by_cases h7 : printable c = true
  · rw [if_pos h7] at hy; simp at hy; subst hy
    exact ⟨fun h => by omega, fun _ => h7⟩
  rw [if_neg h7] at hy
  by_cases h8 : c ≤ 255
  · rw [if_pos h8] at hy; simp [hex2] at hy
    rcases hy with rfl | rfl | rfl | rfl
    · exact okOut_ascii printable _ (by omega) (by omega)
    · exact okOut_ascii printable _ (by omega) (by omega)
    · exact hx _ (by omega)
    · exact hx _ (by omega)
  rw [if_neg h8] at hy
  by_cases h9 : c ≤ 65535
  · rw [if_pos h9] at hy; simp [hex4] at hy
    rcases hy with rfl | rfl | rfl | rfl | rfl | rfl
    · exact okOut_ascii printable _ (by omega) (by omega)
    · exact okOut_ascii printable _ (by omega) (by omega)
    all_goals exact hx _ (by omega)
  rw [if_neg h9] at hy
  simp [hex8] at hy
  rcases hy with rfl | rfl | rfl | rfl | rfl | rfl | rfl | rfl | rfl | rfl
  · exact okOut_ascii printable _ (by omega) (by omega)
  · exact okOut_ascii printable _ (by omega) (by omega)
  all_goals exact hx _ (by omega)

end Adaptix.Gen
