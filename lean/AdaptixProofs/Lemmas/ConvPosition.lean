/-
  Helper lemmas for the position section of C13: `generic_arg(i, q)` on generic-parameter locations.
-/
import AdaptixModel.Conv.Convert

namespace Adaptix.Conv13

/-- `generic_arg(i, q)` is false at the j-th type argument for j ≠ i, whatever `q` is -/
theorem generic_arg_sibling (i j : Nat) (h : i ≠ j) (q : Pred) (t : Ty) (st : LocStack) :
    Pred.genericArg i q (gpLoc t j :: st) = false := by
  simp [Pred.genericArg, Pred.genericPos, gpLoc]
  intro h'; exact absurd h'.symm h

/-- at its own position `generic_arg(i, q)` is `q` -/
theorem generic_arg_own (i : Nat) (q : Pred) (t : Ty) (st : LocStack) :
    Pred.genericArg i q (gpLoc t i :: st) = q (gpLoc t i :: st) := by
  simp [Pred.genericArg, Pred.genericPos, gpLoc]

end Adaptix.Conv13
