/-
  C01 helper lemmas: sufficient criteria that discharge the semantic side conditions of
  `TyOK` (a container / model never dumps to None; outer shapes of dumps).
-/
import AdaptixProofs.Lemmas.MorphRTTotal

namespace Adaptix.Morph
open Adaptix.Py Adaptix.Morph.C01

section
variable {W : World} {DW : DumpWorld} {cfg : Cfg}

/-- a model instance dumps to a dict -/
theorem rt_dump_model_shape {n : Nat} {cls : String} {x d : Val}
    (h : dump W DW cfg n (.model cls) x = .ok d) : ∃ kvs, d = .dict kvs := by
  cases n with
  | zero => simp [dump] at h
  | succ n =>
    simp only [dump] at h
    cases hc : W.classes cls with
    | none => simp [hc] at h
    | some fields =>
      simp only [hc] at h
      cases x <;> simp only [dumpModel] at h <;> try (cases h; done)
      obtain ⟨vals, _, hd⟩ := rt_bindO_ok h
      simp only [Outcome.ok.injEq] at hd
      exact ⟨_, hd.symm⟩

/-- an iterable dumps to a list or a tuple -/
theorem rt_dump_iter_shape {n : Nat} {f : Factory} {dl : Bool} {elem : Ty} {x d : Val}
    (h : dump W DW cfg n (.iter f dl elem) x = .ok d) : ∃ ds, d = .list ds ∨ d = .tuple ds := by
  cases n with
  | zero => simp [dump] at h
  | succ n =>
    simp only [dump, dumpIter] at h
    cases hi : x.iterElems with
    | none => simp [hi] at h
    | some xs =>
      simp only [hi] at h
      obtain ⟨ys, _, hd⟩ := rt_bindO_ok h
      simp only [Outcome.ok.injEq] at hd
      cases dl
      · exact ⟨ys, .inr (by simpa using hd.symm)⟩
      · exact ⟨ys, .inl (by simpa using hd.symm)⟩

/-- a constant-length tuple dumps to a tuple -/
theorem rt_dump_tuple_shape {n : Nat} {elems : List Ty} {x d : Val}
    (h : dump W DW cfg n (.tuple elems) x = .ok d) : ∃ ds, d = .tuple ds := by
  cases n with
  | zero => simp [dump] at h
  | succ n =>
    simp only [dump, dumpTuple] at h
    cases hl : lenOf x with
    | none => simp [hl] at h
    | some xs =>
      simp only [hl] at h
      split at h
      · cases h
      · split at h
        · cases h
        · obtain ⟨ys, _, hd⟩ := rt_bindO_ok h
          simp only [Outcome.ok.injEq] at hd
          exact ⟨ys, hd.symm⟩

theorem rt_buildDictD_shape {vf : Bool} {flat : List Val} {acc : List (Val × Val)} {d : Val}
    (h : buildDictD vf flat acc = .ok d) : ∃ kvs, d = .dict kvs := by
  fun_induction buildDictD vf flat acc with
  | case1 => rename_i ih; exact ih h
  | case2 => cases h
  | case3 => simp only [Outcome.ok.injEq] at h; exact ⟨_, h.symm⟩

/-- a dict dumps to a dict -/
theorem rt_dump_dict_shape {n : Nat} {k v : Ty} {x d : Val}
    (h : dump W DW cfg n (.dict k v) x = .ok d) : ∃ kvs, d = .dict kvs := by
  cases n with
  | zero => simp [dump] at h
  | succ n =>
    simp only [dump] at h
    cases x <;> simp only [dumpDict] at h <;> try (cases h; done)
    obtain ⟨flat, _, hd⟩ := rt_bindO_ok h
    exact rt_buildDictD_shape hd

end

end Adaptix.Morph

namespace Adaptix.Morph
open Adaptix.Py Adaptix.Morph.C01

theorem rt_jsonSafeAll_iff {ts : List Ty} : jsonSafeAll ts = true ↔ ∀ t ∈ ts, jsonSafe t = true := by
  induction ts with
  | nil => simp [jsonSafeAll]
  | cons t ts ih => simp [jsonSafeAll, ih]

/-- the JSON admissibility condition excludes `Any` at every position of the expression -/
theorem rt_tyok_jsonSafe {W : World} {DW : DumpWorld} {C : Codec} {cfg : Cfg} {T : Ty}
    (h : TyOK W DW C cfg true T) : jsonSafe T = true := by
  induction h with
  | scalar => simp [jsonSafe]
  | any hj => cases hj
  | literal _ => simp [jsonSafe]
  | iter _ ih => simpa [jsonSafe] using ih
  | tuple _ ih => simp only [jsonSafe]; exact rt_jsonSafeAll_iff.2 ih
  | dict _ _ _ _ ih1 ih2 => simp [jsonSafe, ih1, ih2]
  | model => simp [jsonSafe]
  | @optional cases keys hso _ _ ih =>
    simp only [jsonSafe]
    cases cases with
    | nil => simp [isSingleOptional] at hso
    | cons a l =>
      cases l with
      | nil => simp [isSingleOptional] at hso
      | cons b l =>
        cases l with
        | cons c l => simp [isSingleOptional] at hso
        | nil =>
          simp only [isSingleOptional, Bool.or_eq_true] at hso
          simp only [optionalOther] at ih
          have hn : ∀ u, isNoneTy u = true → jsonSafe u = true := by
            intro u hu; rw [rt_isNoneTy_eq hu]; simp [jsonSafe]
          by_cases ha : isNoneTy a = true
          · simp only [ha, if_true] at ih
            simp [jsonSafeAll, hn a ha, ih]
          · simp only [ha, Bool.false_eq_true, if_false] at ih
            have hb : isNoneTy b = true := by rcases hso with h | h; exact absurd h ha; exact h
            simp [jsonSafeAll, hn b hb, ih]
  | union _ _ _ ih => simp only [jsonSafe]; exact rt_jsonSafeAll_iff.2 ih

/-- a codec whose dumped forms JSON leaves alone satisfies the JSON codec law -/
theorem rt_scalarJson_of_fixed {W : World} {C : Codec} (hS : ScalarRT W C)
    (hfix : ∀ name x d d', C.inhabits name x → W.scalarDump name x = .ok d →
      jsonTravel d = some d' → d' = d) : ScalarJson W C := by
  intro s name x d d' hi hd hj
  obtain ⟨d0, h1, h2⟩ := hS.rt s name x hi
  rw [hd] at h1; cases h1
  rw [hfix name x d d' hi hd hj]; exact h2

/-! ### rejection by outer form (to discharge the non-overlap condition of unions) -/

section reject
variable {W : World} {cfg : Cfg} {d : Val}

/-- the dict loader rejects whatever is not a mapping, whatever the fuel -/
theorem rt_reject_dict (n : Nat) (k v : Ty) (h : d.isMapping = false) :
    ∃ e, load W cfg (n + 1) (.dict k v) d = .err e := by
  cases d <;> simp [Val.isMapping] at h <;> exact ⟨_, rfl⟩

/-- the model loader rejects whatever is not a mapping -/
theorem rt_reject_model (n : Nat) {cls : String} {fields : List Field}
    (hc : W.classes cls = some fields) (h : d.isMapping = false) :
    ∃ e, load W cfg (n + 1) (.model cls) d = .err e := by
  cases d <;> simp [Val.isMapping] at h <;> simp only [load, hc, loadModel] <;> split <;>
    exact ⟨_, rfl⟩

/-- strict coercion: the iterable loader rejects mappings and strings -/
theorem rt_reject_iter_strict (n : Nat) (f : Factory) (dl : Bool) (elem : Ty)
    (hs : cfg.strict = true) (h : d.isMapping = true ∨ d.isStr = true) :
    ∃ e, load W cfg (n + 1) (.iter f dl elem) d = .err e := by
  refine ⟨LErr.leaf "ExcludedTypeLoadError" d, ?_⟩
  simp only [load, loadIter, strictExcluded, hs, Bool.true_and]
  rcases h with h | h <;> simp [h]

/-- the iterable loader rejects what cannot be iterated (None, numbers, atoms, objects) -/
theorem rt_reject_iter_noniter (n : Nat) (f : Factory) (dl : Bool) (elem : Ty)
    (h : d.iterElems = none) : ∃ e, load W cfg (n + 1) (.iter f dl elem) d = .err e := by
  simp only [load, loadIter, h]
  split <;> exact ⟨_, rfl⟩

/-- strict coercion: the tuple loader rejects mappings and strings -/
theorem rt_reject_tuple_strict (n : Nat) (elems : List Ty)
    (hs : cfg.strict = true) (h : d.isMapping = true ∨ d.isStr = true) :
    ∃ e, load W cfg (n + 1) (.tuple elems) d = .err e := by
  refine ⟨LErr.leaf "ExcludedTypeLoadError" d, ?_⟩
  simp only [load, loadTuple, strictExcluded, hs, Bool.true_and]
  rcases h with h | h <;> simp [h]

theorem rt_reject_tuple_noniter (n : Nat) (elems : List Ty)
    (h : d.iterElems = none) : ∃ e, load W cfg (n + 1) (.tuple elems) d = .err e := by
  simp only [load, loadTuple, h]
  split <;> exact ⟨_, rfl⟩

/-- travel keeps the outer form: a mapping stays a mapping, a sequence stays a sequence -/
theorem rt_trav_dict_shape {j : Bool} {kvs : List (Val × Val)} {d' : Val}
    (h : Trav j (.dict kvs) d') : d'.isMapping = true := by
  obtain ⟨kvs', rfl, _⟩ := rt_trav_dict h; rfl

theorem rt_trav_seq_shape {j : Bool} {ds : List Val} {d d' : Val}
    (hd : d = .list ds ∨ d = .tuple ds) (h : Trav j d d') :
    d'.isMapping = false ∧ d'.isStr = false := by
  rcases hd with rfl | rfl
  · obtain ⟨ds', rfl, _⟩ := rt_trav_list h; exact ⟨rfl, rfl⟩
  · obtain ⟨ds', hd', _⟩ := rt_trav_tuple h
    rcases hd' with rfl | rfl <;> exact ⟨rfl, rfl⟩

end reject

end Adaptix.Morph
