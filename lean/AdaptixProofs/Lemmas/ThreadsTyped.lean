import AdaptixProofs.Lemmas.ThreadsEval

/-
  Typing invariant of the thread model: every closure is a loader of the type its `cached_call` was made for,
  built from loaders of the argument types; every stub stands for a loader of the type of its location and is
  bound to such a loader.  Independent of the comparison mode of stubs and of the schedule.
  Together with `Inv` (all reachable stubs bound) it determines the result of every call: the unfolding of the
  type (`eval_unfold`), which is what makes concurrent results equal to sequential ones.
-/
namespace Adaptix.Threads

/-- pointwise relation of two lists of the same length -/
def All2 {α β : Type} (P : α → β → Prop) : List α → List β → Prop
  | [], [] => True
  | a :: as, b :: bs => P a b ∧ All2 P as bs
  | _, _ => False

theorem All2.length_eq {α β : Type} {P : α → β → Prop} : ∀ {l1 : List α} {l2 : List β}, All2 P l1 l2 →
    l1.length = l2.length
  | [], [], _ => rfl
  | _ :: _, _ :: _, h => by simp [All2.length_eq h.2]
  | [], _ :: _, h => h.elim
  | _ :: _, [], h => h.elim

theorem All2.mono {α β : Type} {P Q : α → β → Prop} (hpq : ∀ a b, P a b → Q a b) :
    ∀ {l1 : List α} {l2 : List β}, All2 P l1 l2 → All2 Q l1 l2
  | [], [], _ => trivial
  | _ :: _, _ :: _, h => ⟨hpq _ _ h.1, All2.mono hpq h.2⟩
  | [], _ :: _, h => h.elim
  | _ :: _, [], h => h.elim

theorem All2.take {α β : Type} {P : α → β → Prop} : ∀ (n : Nat) {l1 : List α} {l2 : List β}, All2 P l1 l2 →
    All2 P (l1.take n) (l2.take n)
  | 0, _, _, _ => by simp [All2]
  | _ + 1, [], [], _ => by simp [All2]
  | n + 1, _ :: _, _ :: _, h => ⟨h.1, All2.take n h.2⟩
  | _ + 1, [], _ :: _, h => h.elim
  | _ + 1, _ :: _, [], h => h.elim

theorem All2.drop {α β : Type} {P : α → β → Prop} : ∀ (n : Nat) {l1 : List α} {l2 : List β}, All2 P l1 l2 →
    All2 P (l1.drop n) (l2.drop n)
  | 0, _, _, h => by simpa using h
  | _ + 1, [], [], _ => by simp [All2]
  | n + 1, _ :: _, _ :: _, h => by simpa using All2.drop n h.2
  | _ + 1, [], _ :: _, h => h.elim
  | _ + 1, _ :: _, [], h => h.elim

theorem All2.append {α β : Type} {P : α → β → Prop} : ∀ {l1 : List α} {l2 : List β} {m1 : List α} {m2 : List β},
    All2 P l1 l2 → All2 P m1 m2 → All2 P (l1 ++ m1) (l2 ++ m2)
  | [], [], _, _, _, h => by simpa using h
  | _ :: _, _ :: _, _, _, h1, h2 => ⟨h1.1, All2.append h1.2 h2⟩
  | [], _ :: _, _, _, h, _ => h.elim
  | _ :: _, [], _, _, h, _ => h.elim

theorem All2.reverse {α β : Type} {P : α → β → Prop} : ∀ {l1 : List α} {l2 : List β}, All2 P l1 l2 →
    All2 P l1.reverse l2.reverse
  | [], [], _ => by simp [All2]
  | a :: as, b :: bs, h => by
    simp only [List.reverse_cons]
    exact All2.append (All2.reverse h.2) ⟨h.1, trivial⟩
  | [], _ :: _, h => h.elim
  | _ :: _, [], h => h.elim

theorem All2.map_right {α β γ : Type} {P : α → β → Prop} {Q : α → γ → Prop} {f : β → γ}
    (hpq : ∀ a b, P a b → Q a (f b)) : ∀ {l1 : List α} {l2 : List β}, All2 P l1 l2 → All2 Q l1 (l2.map f)
  | [], [], _ => trivial
  | _ :: _, _ :: _, h => ⟨hpq _ _ h.1, All2.map_right hpq h.2⟩
  | [], _ :: _, h => h.elim
  | _ :: _, [], h => h.elim

theorem All2.map_eq {α β γ : Type} {P : α → β → Prop} {f : α → γ} {g : β → γ} :
    ∀ {l1 : List α} {l2 : List β}, All2 P l1 l2 → (∀ a ∈ l1, ∀ b, P a b → f a = g b) → l1.map f = l2.map g
  | [], [], _, _ => rfl
  | a :: as, b :: bs, h, hf => by
    simp only [List.map_cons]
    rw [hf a (by simp) b h.1, All2.map_eq h.2 (fun a' ha' => hf a' (by simp [ha']))]
  | [], _ :: _, h, _ => h.elim
  | _ :: _, [], h, _ => h.elim

/-- `r` is a loader of type `ty` -/
def RefTy (G : Graph) (s : State) : Ref → TyId → Prop
  | .prim p, ty => (G.node ty).kind = .prim p
  | .clo j, ty => ∃ cd : CloData, s.heap[j]? = some cd ∧ cd.aux = false ∧ cd.const = ty
  | .stub x, ty => ∃ sd : StubData, s.stubs[x]? = some sd ∧ G.locTy sd.loc = ty

def NonStub : Ref → Prop
  | .stub _ => False
  | _ => True

def StackTy (G : Graph) (s : State) (r : Ref) (a : Abs) : Prop := RefTy G s r a.1 ∧ (a.2 = false → NonStub r)

def absAt (G : Graph) (code : List Instr) (pc : Nat) : Option (List Abs) := absRun G (code.take pc) []

structure TThread (G : Graph) (sys : Sys) (s : State) (th : Thread) : Prop where
  typed : typed G (sys.body th.ty) th.ty = true
  stack : ∀ (pc : Nat) (sub : Sub), th.phase = .run pc sub →
    ∃ st, absAt G (sys.body th.ty) pc = some st ∧ All2 (StackTy G s) th.stack st
  sub : ∀ (pc : Nat) (r : Ref), th.phase = .run pc (.store r) →
    ∀ (site : Site) (c n : Nat) (kind : Kind), (sys.body th.ty)[pc]? = some (.cached site c n kind) →
      kind.isAux = false → RefTy G s r c ∧ NonStub r
  /-- a request that can be satisfied ends with its loader on top of the stack -/
  put : th.phase = .put → failsTy G th.ty = false → ∃ r rest, th.stack = r :: rest ∧ RefTy G s r th.ty
  /-- only a request that can be satisfied ever gets a loader to call -/
  call : ∀ r : Ref, th.phase = .call r → RefTy G s r th.ty ∧ failsTy G th.ty = false
  locs : ∀ (loc : Loc) (x : Nat), (loc, x) ∈ th.locToStub → ∃ sd : StubData, s.stubs[x]? = some sd ∧ sd.loc = loc
  /-- every call has returned the unfolding of its type -/
  res : ∀ res : Res, th.result = some res → res = specRes G sys.fuel th.depth th.ty

structure TInv (G : Graph) (sys : Sys) (s : State) : Prop where
  heap : ∀ (j : Nat) (cd : CloData), s.heap[j]? = some cd → cd.aux = false →
    (G.node cd.const).kind = .fresh cd.nullable ∧
    All2 (RefTy G s) cd.args ((G.node cd.const).children.map G.locTy)
  cache : ∀ e ∈ s.callCache, e.1.aux = false → RefTy G s e.2 e.1.const ∧ NonStub e.2
  bind : ∀ (x : Nat) (sd : StubData) (r : Ref), s.stubs[x]? = some sd → sd.target = some r →
    RefTy G s r (G.locTy sd.loc) ∧ NonStub r
  lc : ∀ e ∈ s.loaderCache, RefTy G s e.2 e.1 ∧ failsTy G e.1 = false
  threads : ∀ (t : Tid) (th : Thread), s.threads[t]? = some th → TThread G sys s th

/-- extension as far as typing is concerned: objects keep their identity, type and location -/
structure TExt (s s' : State) : Prop where
  heap : ∃ ext, s'.heap = s.heap ++ ext
  stubs : ∀ (x : Nat) (sd : StubData), s.stubs[x]? = some sd →
    ∃ sd' : StubData, s'.stubs[x]? = some sd' ∧ sd'.loc = sd.loc

theorem TExt.heap_get {s s' : State} (e : TExt s s') {j : Nat} {cd : CloData} (h : s.heap[j]? = some cd) :
    s'.heap[j]? = some cd := by
  obtain ⟨ext, he⟩ := e.heap
  rw [he, List.getElem?_append_left (lt_length_of_getElem? h)]; exact h

theorem RefTy.mono {G : Graph} {s s' : State} (e : TExt s s') {r : Ref} {ty : TyId} (h : RefTy G s r ty) :
    RefTy G s' r ty := by
  cases r with
  | prim p => exact h
  | clo j =>
    obtain ⟨cd, h1, h2⟩ := h
    exact ⟨cd, e.heap_get h1, h2⟩
  | stub x =>
    obtain ⟨sd, h1, h2⟩ := h
    obtain ⟨sd', h3, h4⟩ := e.stubs x sd h1
    exact ⟨sd', h3, by rw [h4]; exact h2⟩

theorem StackTy.mono {G : Graph} {s s' : State} (e : TExt s s') {r : Ref} {a : Abs} (h : StackTy G s r a) :
    StackTy G s' r a := ⟨h.1.mono e, h.2⟩

theorem TThread.mono {G : Graph} {sys : Sys} {s s' : State} {th : Thread} (h : TThread G sys s th)
    (e : TExt s s') : TThread G sys s' th where
  typed := h.typed
  stack := fun pc sub hp => by
    obtain ⟨st, h1, h2⟩ := h.stack pc sub hp
    exact ⟨st, h1, h2.mono (fun _ _ h => h.mono e)⟩
  sub := fun pc r hp site c n kind hins hk => by
    obtain ⟨h1, h2⟩ := h.sub pc r hp site c n kind hins hk
    exact ⟨h1.mono e, h2⟩
  put := fun hp hnf => by
    obtain ⟨r, rest, h1, h2⟩ := h.put hp hnf
    exact ⟨r, rest, h1, h2.mono e⟩
  call := fun r hp => ⟨(h.call r hp).1.mono e, (h.call r hp).2⟩
  locs := fun loc x hm => by
    obtain ⟨sd, h1, h2⟩ := h.locs loc x hm
    obtain ⟨sd', h3, h4⟩ := e.stubs x sd h1
    exact ⟨sd', h3, by rw [h4, h2]⟩
  res := h.res

/-- frame rule of the typing invariant -/
theorem TInv.frame {G : Graph} {sys : Sys} {s s' : State} {t : Tid} {th' : Thread} (ht : TInv G sys s)
    (e : TExt s s') (hthreads : s'.threads = s.threads.set t th')
    (hheap : ∀ (j : Nat) (cd : CloData), s'.heap[j]? = some cd → s.heap[j]? = none → cd.aux = false →
      (G.node cd.const).kind = .fresh cd.nullable ∧
      All2 (RefTy G s') cd.args ((G.node cd.const).children.map G.locTy))
    (hcache : ∀ en ∈ s'.callCache, en ∈ s.callCache ∨
      (en.1.aux = false → RefTy G s' en.2 en.1.const ∧ NonStub en.2))
    (hbind : ∀ (x : Nat) (sd' : StubData) (r : Ref), s'.stubs[x]? = some sd' → sd'.target = some r →
      (∃ sd : StubData, s.stubs[x]? = some sd ∧ sd.target = some r ∧ sd.loc = sd'.loc) ∨
      (RefTy G s' r (G.locTy sd'.loc) ∧ NonStub r))
    (hlc : ∀ en ∈ s'.loaderCache, en ∈ s.loaderCache ∨ (RefTy G s' en.2 en.1 ∧ failsTy G en.1 = false))
    (hself : TThread G sys s' th') : TInv G sys s' where
  heap := fun j cd hj haux => by
    cases hold : s.heap[j]? with
    | none => exact hheap j cd hj hold haux
    | some cd' =>
      have := e.heap_get hold
      rw [hj] at this; cases this
      obtain ⟨h1, h2⟩ := ht.heap j cd hold haux
      exact ⟨h1, h2.mono (fun _ _ h => h.mono e)⟩
  cache := fun en hen haux => by
    rcases hcache en hen with h | h
    · obtain ⟨h1, h2⟩ := ht.cache en h haux
      exact ⟨h1.mono e, h2⟩
    · exact h haux
  bind := fun x sd' r hx hr => by
    rcases hbind x sd' r hx hr with ⟨sd, h1, h2, h3⟩ | h
    · obtain ⟨h4, h5⟩ := ht.bind x sd r h1 h2
      exact ⟨by rw [← h3]; exact h4.mono e, h5⟩
    · exact h
  lc := fun en hen => by
    rcases hlc en hen with h | h
    · exact ⟨(ht.lc en h).1.mono e, (ht.lc en h).2⟩
    · exact h
  threads := fun t' th'' ht' => by
    rw [hthreads, List.getElem?_set] at ht'
    by_cases htt : t = t'
    · subst htt
      by_cases hlt : t < s.threads.length
      · simp [hlt] at ht'
        subst ht'
        exact hself
      · simp [hlt] at ht'
    · simp [htt] at ht'
      exact (ht.threads t' th'' ht').mono e

/-! ### the abstract interpreter -/

theorem absRun_append (G : Graph) : ∀ (a b : List Instr) (st : List Abs),
    absRun G (a ++ b) st = (absRun G a st).bind (absRun G b)
  | [], b, st => by simp [absRun]
  | i :: a, b, st => by
    simp only [List.cons_append, absRun]
    cases absStep G st i with
    | none => simp
    | some st' => simpa using absRun_append G a b st'

theorem absAt_succ {G : Graph} {code : List Instr} {pc : Nat} {ins : Instr} (h : code[pc]? = some ins) :
    absAt G code (pc + 1) = (absAt G code pc).bind (fun st => absStep G st ins) := by
  unfold absAt
  rw [List.take_add_one, h]
  simp only [Option.toList_some]
  rw [absRun_append]
  congr 1
  funext st
  simp only [absRun]
  cases absStep G st ins <;> rfl

theorem typed_final {G : Graph} {code : List Instr} {ty : TyId} (h : typed G code ty = true) :
    absAt G code code.length = some (if failsTy G ty then [] else [(ty, false)]) := by
  unfold absAt
  rw [List.take_length]
  simpa [typed] using h

/-- the program of a request that can be satisfied ends with exactly the loader of the requested type -/
theorem typed_final_ok {G : Graph} {code : List Instr} {ty : TyId} (h : typed G code ty = true)
    (hnf : failsTy G ty = false) : absAt G code code.length = some [(ty, false)] := by
  rw [typed_final h, hnf]; rfl

theorem absAt_some_of_typed {G : Graph} {code : List Instr} {ty : TyId} (h : typed G code ty = true)
    (pc : Nat) : ∃ st, absAt G code pc = some st := by
  have h1 : absRun G (code.take pc ++ code.drop pc) [] = some (if failsTy G ty then [] else [(ty, false)]) := by
    rw [List.take_append_drop]; simpa [typed] using h
  rw [absRun_append] at h1
  unfold absAt
  cases h2 : absRun G (code.take pc) [] with
  | none => rw [h2] at h1; simp at h1
  | some st => exact ⟨st, rfl⟩

/-- the abstract state after the instruction at `pc` -/
theorem abs_next {G : Graph} {code : List Instr} {ty : TyId} (h : typed G code ty = true) {pc : Nat} {ins : Instr}
    (hins : code[pc]? = some ins) {st : List Abs} (hst : absAt G code pc = some st) :
    ∃ st', absStep G st ins = some st' ∧ absAt G code (pc + 1) = some st' := by
  obtain ⟨st', h1⟩ := absAt_some_of_typed h (pc + 1)
  rw [absAt_succ hins, hst] at h1
  simp only [Option.bind_some] at h1
  exact ⟨st', h1, by rw [absAt_succ hins, hst]; simpa using h1⟩

end Adaptix.Threads
