/-
  From the merged schema to the leaves of the layout's crown (C03): the crown built by the
  name-layout provider has a field leaf exactly at the documented path of every presented field,
  and its other leaves are gap fillers at list positions.
-/
import AdaptixProofs.Lemmas.LayoutCrown
import AdaptixProofs.Lemmas.LayoutOverlay
import AdaptixProofs.Lemmas.LayoutDump

namespace Adaptix.Layout

mutual
theorem toInp_leaves (pol : Policy) : ∀ (c : Crown), (c.toInp pol).leaves = c.leaves
  | .dict m => by simpa [Crown.toInp, InpCrown.leaves, Crown.leaves] using toInp_leavesD pol m
  | .list m => by simpa [Crown.toInp, InpCrown.leaves, Crown.leaves] using toInp_leavesL pol m 0
  | .leaf (.field id) => by simp [Crown.toInp, InpCrown.leaves, Crown.leaves]
  | .leaf .none => by simp [Crown.toInp, InpCrown.leaves, Crown.leaves]
theorem toInp_leavesD (pol : Policy) : ∀ (m : List (String × Crown)),
    InpCrown.leaves.goD (Crown.toInp.goD pol m) = Crown.leaves.goD m
  | [] => rfl
  | (k, c) :: r => by
    simp [Crown.toInp.goD, InpCrown.leaves.goD, Crown.leaves.goD, toInp_leaves pol c, toInp_leavesD pol r]
theorem toInp_leavesL (pol : Policy) : ∀ (m : List Crown) (i : Nat),
    InpCrown.leaves.goL i (Crown.toInp.goL pol m) = Crown.leaves.goL i m
  | [], _ => rfl
  | c :: r, i => by
    simp [Crown.toInp.goL, InpCrown.leaves.goL, Crown.leaves.goL, toInp_leaves pol c, toInp_leavesL pol r (i + 1)]
end

mutual
theorem toOut_leaves (sv : List (Path × Val)) : ∀ (c : Crown) (cur : Path), (c.toOut sv cur).leaves = c.leaves
  | .dict m, cur => by simpa [Crown.toOut, OutCrown.leaves, Crown.leaves] using toOut_leavesD sv m cur
  | .list m, cur => by simpa [Crown.toOut, OutCrown.leaves, Crown.leaves] using toOut_leavesL sv m cur 0
  | .leaf (.field id), cur => by simp [Crown.toOut, OutCrown.leaves, Crown.leaves]
  | .leaf .none, cur => by simp [Crown.toOut, OutCrown.leaves, Crown.leaves]
theorem toOut_leavesD (sv : List (Path × Val)) : ∀ (m : List (String × Crown)) (cur : Path),
    OutCrown.leaves.goD (Crown.toOut.goD sv cur m) = Crown.leaves.goD m
  | [], _ => rfl
  | (k, c) :: r, cur => by
    simp [Crown.toOut.goD, OutCrown.leaves.goD, Crown.leaves.goD, toOut_leaves sv c, toOut_leavesD sv r cur]
theorem toOut_leavesL (sv : List (Path × Val)) : ∀ (m : List Crown) (cur : Path) (i : Nat),
    OutCrown.leaves.goL i (Crown.toOut.goL sv cur i m) = Crown.leaves.goL i m
  | [], _, _ => rfl
  | c :: r, cur, i => by
    simp [Crown.toOut.goL, OutCrown.leaves.goL, Crown.leaves.goL, toOut_leaves sv c, toOut_leavesL sv r cur (i + 1)]
end

/-- **the crown builder places every leaf at its path** (and invents none) -/
theorem buildCrown_leaves (leaves : List (Path × Leaf)) (c : Crown) (h : buildCrown leaves = .ok c)
    (x : Path × Leaf) : x ∈ c.leaves ↔ x ∈ leaves := by
  unfold buildCrown at h
  rw [build_leaves _ _ _ _ c (sorted_leaves leaves) h x, mem_sorted_leaves]

theorem buildEmpty_leaves (asList : Bool) : (buildEmpty asList).leaves = [] := by
  unfold buildEmpty
  cases asList <;> simp [Crown.leaves, Crown.leaves.goD, Crown.leaves.goL]

/-! ### what `makeStructure` hands to the builder -/

theorem lastIsIndex_append_index (p : Path) (i : Nat) : lastIsIndex (p ++ [Key.i i]) = true := by
  induction p with
  | nil => rfl
  | cons k r ih =>
    cases r with
    | nil => cases k <;> simp [lastIsIndex]
    | cons k' r' => simpa [lastIsIndex] using ih

theorem mem_gapsOf (path : Path) (idx : List Nat) (x : Path × Leaf) (h : x ∈ gapsOf path idx) :
    x.2 = Leaf.none ∧ lastIsIndex x.1 = true := by
  unfold gapsOf at h
  obtain ⟨i, _, rfl⟩ := List.mem_map.mp h
  exact ⟨rfl, lastIsIndex_append_index _ _⟩

/-- the leaves produced by `_make_paths_to_leaves`: the presented fields at their paths, then gap fillers -/
theorem makePathsToLeaves_mem (ftp : List (Field × Option Path)) (lv : List (Path × Leaf))
    (h : makePathsToLeaves ftp = .ok lv) :
    (∀ p id, (p, Leaf.field id) ∈ lv ↔ ∃ f, (f, some p) ∈ ftp ∧ f.id = id) ∧
    (∀ p, (p, Leaf.none) ∈ lv → lastIsIndex p = true) := by
  unfold makePathsToLeaves at h
  simp only [bind, Except.bind] at h
  split at h
  · simp at h
  · rename_i lists _
    simp only [pure, Except.pure, Except.ok.injEq] at h
    subst h
    constructor
    · intro p id
      simp only [List.mem_append, List.mem_filterMap, List.mem_flatMap]
      constructor
      · rintro (⟨⟨f, op⟩, hm, he⟩ | ⟨⟨q, idx⟩, _, hg⟩)
        · cases op with
          | none => simp at he
          | some p' =>
            simp at he
            obtain ⟨rfl, rfl⟩ := he
            exact ⟨f, hm, rfl⟩
        · have := (mem_gapsOf q idx _ hg).1
          simp at this
      · rintro ⟨f, hm, rfl⟩
        exact .inl ⟨(f, some p), hm, by simp⟩
    · intro p
      simp only [List.mem_append, List.mem_filterMap, List.mem_flatMap]
      rintro (⟨⟨f, op⟩, _, he⟩ | ⟨⟨q, idx⟩, _, hg⟩)
      · cases op <;> simp at he
      · exact (mem_gapsOf q idx _ hg).2

/-- `make_inp_structure` / `make_out_structure`: a field leaf sits exactly at the documented path of a
    presented field; the other leaves are gap fillers whose path ends with a list index -/
theorem makeStructure_mem (dir : Dir) (sch : Schema) (style : Style → String → String) (fields : List Field)
    (targets : List String) (lv : List (Path × Leaf)) (h : makeStructure dir sch style fields targets = .ok lv) :
    (∀ p id, (p, Leaf.field id) ∈ lv ↔
        ∃ f ∈ fields, f.id = id ∧ pathOf dir sch style fields targets f = some p) ∧
    (∀ p, (p, Leaf.none) ∈ lv → lastIsIndex p = true) := by
  have hftp : ∀ f p, (f, some p) ∈ mapFields dir sch style fields targets ↔
      (f ∈ fields ∧ pathOf dir sch style fields targets f = some p) := by
    intro f p
    unfold mapFields
    simp only [List.mem_map, List.mem_filter, Prod.mk.injEq]
    constructor
    · rintro ⟨g, ⟨hg, ht⟩, rfl, hp⟩
      have : targets.contains g.id = false := by simpa using ht
      rw [mapField_eq_pathOf dir sch style fields targets g this] at hp
      exact ⟨hg, hp⟩
    · rintro ⟨hf, hp⟩
      have ht : targets.contains f.id = false := by
        unfold pathOf at hp
        cases hc : targets.contains f.id
        · rfl
        · rw [if_pos hc] at hp
          simp at hp
      exact ⟨f, ⟨hf, by simpa using ht⟩, rfl, by rw [mapField_eq_pathOf dir sch style fields targets f ht]; exact hp⟩
  -- peel the checks of `makeStructure` off
  have hmk : makePathsToLeaves (mapFields dir sch style fields targets) = .ok lv := by
    unfold makeStructure at h
    simp only [bind, Except.bind, pure, Except.pure] at h
    repeat' split at h
    all_goals first | (simp at h; done) | skip
    all_goals (try simp only [Except.ok.injEq] at h)
    all_goals (try subst h)
    all_goals (first | assumption | skip)
  obtain ⟨h1, h2⟩ := makePathsToLeaves_mem _ lv hmk
  refine ⟨?_, h2⟩
  intro p id
  rw [h1]
  constructor
  · rintro ⟨f, hm, rfl⟩
    obtain ⟨hf, hp⟩ := (hftp f p).mp hm
    exact ⟨f, hf, rfl, hp⟩
  · rintro ⟨f, hf, rfl, hp⟩
    exact ⟨f, (hftp f p).mpr ⟨hf, hp⟩, rfl⟩

/-- the crown of `inputLayout` is the decorated crown built from the leaves of `makeStructure` -/
theorem inputLayout_inv (sch : Schema) (style : Style → String → String) (fields : List Field) (l : InpLayout)
    (h : inputLayout sch style fields = .ok l) :
    ∃ lv, makeStructure .inp sch style fields (makeInpExtraMove sch.extraIn).targetIds = .ok lv ∧
      ∀ x, x ∈ l.crown.leaves ↔ x ∈ lv := by
  unfold inputLayout at h
  simp only [bind, Except.bind, pure, Except.pure] at h
  split at h
  · simp at h
  · rename_i lv hlv
    refine ⟨lv, hlv, ?_⟩
    split at h
    · simp at h
    · by_cases hemp : lv.isEmpty = true
      · simp only [hemp, ↓reduceIte, Except.ok.injEq] at h
        subst h
        have : lv = [] := by simpa using hemp
        intro x
        simp [toInp_leaves, buildEmpty_leaves, this]
      · simp only [hemp, Bool.false_eq_true, ↓reduceIte] at h
        split at h
        · simp at h
        · rename_i c hc
          simp only [Except.ok.injEq] at h
          subst h
          intro x
          simp only [toInp_leaves]
          exact buildCrown_leaves lv c hc x

theorem outputLayout_inv (sch : Schema) (style : Style → String → String) (fields : List Field) (l : OutLayout)
    (h : outputLayout sch style fields = .ok l) :
    ∃ lv, makeStructure .out sch style fields (makeOutExtraMove sch.extraOut).targetIds = .ok lv ∧
      ∀ x, x ∈ l.crown.leaves ↔ x ∈ lv := by
  unfold outputLayout at h
  simp only [bind, Except.bind, pure, Except.pure] at h
  split at h
  · simp at h
  · rename_i lv hlv
    refine ⟨lv, hlv, ?_⟩
    by_cases hemp : lv.isEmpty = true
    · simp only [hemp, ↓reduceIte, Except.ok.injEq] at h
      subst h
      have : lv = [] := by simpa using hemp
      intro x
      simp [toOut_leaves, buildEmpty_leaves, this]
    · simp only [hemp, Bool.false_eq_true, ↓reduceIte] at h
      split at h
      · simp at h
      · rename_i c hc
        simp only [Except.ok.injEq] at h
        subst h
        intro x
        simp only [toOut_leaves]
        exact buildCrown_leaves lv c hc x

mutual
/-- the provider fills every gap with `None` (`_fill_output_gap`) -/
theorem toOut_gapsNone (sv : List (Path × Val)) : ∀ (c : Crown) (cur : Path), (c.toOut sv cur).gapsNone = true
  | .dict m, cur => by simpa [Crown.toOut, OutCrown.gapsNone] using toOut_gapsNoneD sv m cur
  | .list m, cur => by simpa [Crown.toOut, OutCrown.gapsNone] using toOut_gapsNoneL sv m cur 0
  | .leaf (.field id), cur => by simp [Crown.toOut, OutCrown.gapsNone]
  | .leaf .none, cur => by simp [Crown.toOut, OutCrown.gapsNone]
theorem toOut_gapsNoneD (sv : List (Path × Val)) : ∀ (m : List (String × Crown)) (cur : Path),
    OutCrown.gapsNoneD (Crown.toOut.goD sv cur m) = true
  | [], _ => rfl
  | (k, c) :: r, cur => by
    simp [Crown.toOut.goD, OutCrown.gapsNoneD, toOut_gapsNone sv c, toOut_gapsNoneD sv r cur]
theorem toOut_gapsNoneL (sv : List (Path × Val)) : ∀ (m : List Crown) (cur : Path) (i : Nat),
    OutCrown.gapsNoneL (Crown.toOut.goL sv cur i m) = true
  | [], _, _ => rfl
  | c :: r, cur, i => by
    simp [Crown.toOut.goL, OutCrown.gapsNoneL, toOut_gapsNone sv c, toOut_gapsNoneL sv r cur (i + 1)]
end

theorem outputLayout_gapsNone (sch : Schema) (style : Style → String → String) (fields : List Field) (l : OutLayout)
    (h : outputLayout sch style fields = .ok l) : l.crown.gapsNone = true := by
  unfold outputLayout at h
  simp only [bind, Except.bind, pure, Except.pure] at h
  repeat' split at h
  all_goals first
    | (simp at h; done)
    | (simp only [Except.ok.injEq] at h; subst h; exact toOut_gapsNone _ _ _)

end Adaptix.Layout
