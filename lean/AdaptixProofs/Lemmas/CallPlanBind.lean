/-
  C08 lemmas: Python's call binding (`bindPos`, `kwItems`, `bindKw`,
  `firstMissing`) on argument lists of the shape the generator emits, and
  association-list facts.
-/
import AdaptixModel.Layout.CallPlan

namespace Adaptix.CallPlan

variable {V : Type}

/-! ### association lists -/

theorem lookup_of_mem {l : List (String × V)} {k : String} {v : V}
    (hn : (l.map (·.1)).Nodup) (hm : (k, v) ∈ l) : l.lookup k = some v := by
  induction l with
  | nil => cases hm
  | cons hd tl ih =>
    obtain ⟨k', v'⟩ := hd
    simp only [List.map_cons, List.nodup_cons] at hn
    rcases List.mem_cons.mp hm with h | h
    · cases h; simp [List.lookup]
    · have hne : k ≠ k' := by
        intro he; subst he
        exact hn.1 (List.mem_map.mpr ⟨(k, v), h, rfl⟩)
      simp only [List.lookup]
      have : (k == k') = false := by simpa using hne
      rw [this]
      exact ih hn.2 h

theorem lookup_none_of_not_mem {l : List (String × V)} {k : String}
    (h : k ∉ l.map (·.1)) : l.lookup k = Option.none := by
  induction l with
  | nil => rfl
  | cons hd tl ih =>
    obtain ⟨k', v'⟩ := hd
    simp only [List.map_cons, List.mem_cons, not_or] at h
    have : (k == k') = false := by simpa using h.1
    simp only [List.lookup, this]
    exact ih h.2

/-! ### positional phase -/

def Arg.isPos : Arg V → Bool
  | .pos _ => true
  | _ => false

theorem bindPos_prefix (l : List (SigParam × V)) (r : List SigParam) (T : List (Arg V))
    (hk : ∀ x ∈ l, x.1.kind ≠ .kwOnly) (hT : ∀ a, T.head? = some a → a.isPos = false) :
    bindPos (l.map (·.1) ++ r) (l.map (fun x => Arg.pos x.2) ++ T) = .ok (l.map (fun x => (x.1.name, x.2)), T) := by
  induction l with
  | nil =>
    simp only [List.nil_append, List.map_nil]
    cases T with
    | nil => cases r <;> rfl
    | cons a T' =>
      have := hT a rfl
      cases a with
      | pos v => simp [Arg.isPos] at this
      | kw n v => cases r <;> rfl
      | starStar kvs => cases r <;> rfl
  | cons x l ih =>
    obtain ⟨p, v⟩ := x
    have hp : (p.kind == Kind.kwOnly) = false := by
      have := hk (p, v) (List.mem_cons_self ..)
      simpa using this
    simp only [List.cons_append, List.map_cons, bindPos, hp]
    rw [ih (fun q hq => hk q (List.mem_cons_of_mem _ hq))]
    rfl

theorem kwItems_kw (l : List (String × V)) (T : List (Arg V)) :
    kwItems (l.map (fun x => Arg.kw x.1 x.2) ++ T) = (kwItems T).map (l ++ ·) := by
  induction l with
  | nil => cases h : kwItems T <;> simp [Except.map, h]
  | cons x l ih =>
    obtain ⟨n, v⟩ := x
    simp only [List.map_cons, List.cons_append, kwItems, ih]
    cases kwItems T <;> simp [Except.map]

/-! ### keyword phase -/

def isKwParam (sg : Sig) (n : String) : Bool := sg.params.any (fun p => p.name == n && p.kind != .posOnly)

theorem bindKw_params (sg : Sig) (kws : List (String × V)) :
    ∀ (b ex : Binding V), (∀ kv ∈ kws, isKwParam sg kv.1 = true) → (kws.map (·.1)).Nodup →
      (∀ n ∈ kws.map (·.1), n ∉ b.map (·.1)) →
      bindKw sg b ex kws = .ok (kws.reverse ++ b, ex) := by
  induction kws with
  | nil => intro b ex _ _ _; rfl
  | cons kv kws ih =>
    obtain ⟨n, v⟩ := kv
    intro b ex hkw hnd hnb
    have h1 : sg.params.any (fun p => p.name == n && p.kind != .posOnly) = true := hkw (n, v) (List.mem_cons_self ..)
    have h2 : (b.lookup n).isSome = false := by
      rw [lookup_none_of_not_mem (hnb n (by simp))]; rfl
    simp only [bindKw, h1, h2, if_true]
    simp only [List.map_cons, List.nodup_cons] at hnd
    rw [ih ((n, v) :: b) ex (fun kv hkv => hkw kv (List.mem_cons_of_mem _ hkv)) hnd.2]
    · simp
    · intro m hm
      simp only [List.map_cons, List.mem_cons, not_or]
      refine ⟨?_, hnb m (by simp [hm])⟩
      intro he; subst he; exact hnd.1 hm

theorem bindKw_extra (sg : Sig) (hvar : sg.varKw = true) (kws : List (String × V)) :
    ∀ (b ex : Binding V), (∀ kv ∈ kws, isKwParam sg kv.1 = false) → (kws.map (·.1)).Nodup →
      (∀ n ∈ kws.map (·.1), n ∉ ex.map (·.1)) →
      bindKw sg b ex kws = .ok (b, ex ++ kws) := by
  induction kws with
  | nil => intro b ex _ _ _; simp [bindKw]
  | cons kv kws ih =>
    obtain ⟨n, v⟩ := kv
    intro b ex hkw hnd hnb
    have h1 : sg.params.any (fun p => p.name == n && p.kind != .posOnly) = false := hkw (n, v) (List.mem_cons_self ..)
    have h2 : (ex.lookup n).isSome = false := by
      rw [lookup_none_of_not_mem (hnb n (by simp))]; rfl
    simp only [bindKw, h1, h2, hvar, if_true]
    simp only [List.map_cons, List.nodup_cons] at hnd
    rw [ih b (ex ++ [(n, v)]) (fun kv hkv => hkw kv (List.mem_cons_of_mem _ hkv)) hnd.2]
    · simp
    · intro m hm
      simp only [List.map_append, List.map_cons, List.map_nil, List.mem_append, List.mem_singleton, not_or]
      refine ⟨hnb m (by simp [hm]), ?_⟩
      intro he; subst he; exact hnd.1 hm

theorem bindKw_append (sg : Sig) (k1 k2 : List (String × V)) :
    ∀ (b ex : Binding V), bindKw sg b ex (k1 ++ k2) =
      match bindKw sg b ex k1 with
      | .ok (b', ex') => bindKw sg b' ex' k2
      | .error e => .error e := by
  induction k1 with
  | nil => intro b ex; rfl
  | cons kv k1 ih =>
    obtain ⟨n, v⟩ := kv
    intro b ex
    simp only [List.cons_append, bindKw]
    split
    · split
      · rfl
      · exact ih _ _
    · split
      · split
        · rfl
        · exact ih _ _
      · rfl

theorem firstMissing_none {b : Binding V} {ps : List SigParam}
    (h : ∀ p ∈ ps, p.mustBind = true → (b.lookup p.name).isSome = true) : firstMissing b ps = Option.none := by
  induction ps with
  | nil => rfl
  | cons p ps ih =>
    unfold firstMissing
    have hp := h p (List.mem_cons_self ..)
    by_cases hm : p.mustBind = true
    · have := hp hm
      simp only [hm, Bool.true_and]
      cases hl : b.lookup p.name with
      | none => rw [hl] at this; cases this
      | some v => simp only [Option.isNone_some]; exact ih (fun q hq => h q (List.mem_cons_of_mem _ hq))
    · have hm' : p.mustBind = false := by simpa using hm
      simp only [hm', Bool.false_and]
      exact ih (fun q hq => h q (List.mem_cons_of_mem _ hq))

end Adaptix.CallPlan
