/-
  Helper lemmas for C11: a request answers the same from any two states whose
  call caches satisfy the invariant (whatever the normalisation cache holds),
  for `==`-equal hints; the invariant is kept, also by failing requests.
-/
import AdaptixModel.Retort.Cache
import AdaptixProofs.Lemmas.CacheKey

namespace Adaptix.Cache

/-- two request states that may differ in everything a history can change:
    the call cache (any content satisfying the invariant) and the
    normalisation cache (any content) -/
structure Rel (s s' : RS) : Prop where
  loc : s.loc = s'.loc
  inv : CallInv s.call
  inv' : CallInv s'.call

/-- same response, related states -/
def OK (x y : Res) : Prop := x.1 = y.1 ∧ Rel x.2 y.2

/-- a way of sending sub-requests that does not see the history -/
def StepOK (rec : Step) : Prop :=
  ∀ σ h h' s s', h.eqRep = h'.eqRep → Rel s s' → OK (rec σ h s) (rec σ h' s')

theorem ok_pure {o : Option Clo} {s s' : RS} (h : Rel s s') : OK (o, s) (o, s') := ⟨rfl, h⟩

theorem Rel.setNorm {s s' : RS} (h : Rel s s') (N N' : List Hint) :
    Rel { s with norm := N } { s' with norm := N' } := ⟨h.loc, h.inv, h.inv'⟩

theorem ok_cached {k k' : Key} (hb : build k = build k') {s s' : RS} (h : Rel s s') :
    OK (cached Mode.fixed k s) (cached Mode.fixed k' s') := by
  have a := cachedCall_spec k s.call h.inv
  have b := cachedCall_spec k' s'.call h.inv'
  refine ⟨?_, ⟨h.loc, a.2, b.2⟩⟩
  simp only [cached]
  rw [a.1, b.1, hb]

theorem rel_cached {k : Key} {s s' : RS} (h : Rel s s') :
    Rel (cached Mode.fixed k s).2 (cached Mode.fixed k s').2 := (ok_cached rfl h).2

theorem ok_bindRes {r r' : Res} (h : OK r r') {k k' : Clo → RS → Res}
    (hk : ∀ c t t', Rel t t' → OK (k c t) (k' c t')) : OK (bindRes r k) (bindRes r' k') := by
  unfold bindRes
  rw [h.1]
  cases r'.1 with
  | none => exact ⟨rfl, h.2⟩
  | some c => exact hk c _ _ h.2

theorem ok_bindAll {r r' : List (Option Clo) × RS} (h1 : r.1 = r'.1) (h2 : Rel r.2 r'.2)
    {k k' : List Clo → RS → Res} (hk : ∀ cs t t', Rel t t' → OK (k cs t) (k' cs t')) :
    OK (bindAll r k) (bindAll r' k') := by
  unfold bindAll
  rw [h1]
  cases allSome r'.1 with
  | none => exact ⟨rfl, h2⟩
  | some cs => exact hk cs _ _ h2

theorem ok_mapReq {rec : Step} (hrec : StepOK rec) (σ : List Loc) :
    ∀ (reqs : List (Loc × Hint)) (s s' : RS), Rel s s' →
      (mapReq rec σ reqs s).1 = (mapReq rec σ reqs s').1 ∧ Rel (mapReq rec σ reqs s).2 (mapReq rec σ reqs s').2
  | [], s, s', h => ⟨rfl, h⟩
  | (l, t) :: rs, s, s', h => by
    have a := hrec (l :: σ) t t s s' rfl h
    have b := ok_mapReq hrec σ rs _ _ a.2
    simp only [mapReq]
    exact ⟨by rw [a.1, b.1], b.2⟩

theorem userMatch_congr (U : Univ) (cfg : Cfg) (dir : Dir) (a b : Hint) (h : a.eqRep = b.eqRep) :
    userMatch Mode.fixed U cfg dir a = userMatch Mode.fixed U cfg dir b := by
  simp only [userMatch, canon_congr U a b h]

/-- dispatch on the normalised hint does not see the history -/
theorem routeSrc_ok (U : Univ) (cfg : Cfg) (dir : Dir) {rec : Step} (hrec : StepOK rec) (σ : List Loc)
    (src src' : Hint) (he : src.eqRep = src'.eqRep) (s s' : RS) (hr : Rel s s') :
    OK (routeSrc Mode.fixed U cfg dir rec σ src s) (routeSrc Mode.fixed U cfg dir rec σ src' s') := by
  unfold routeSrc
  rw [userMatch_congr U cfg dir src src' he]
  cases userMatch Mode.fixed U cfg dir src' with
  | some sv =>
    cases sv with
    | user fid => exact ok_pure hr
    | enumName pid cid => exact ok_cached rfl hr
    | enumExact pid cid => exact ok_cached rfl hr
  | none =>
    cases src with
    | cls u =>
      cases src' <;> simp [Hint.eqRep] at he
      subst he
      simp only
      cases U.kind u with
      | enum ms => exact ok_cached rfl hr
      | scalar sc =>
        cases dir <;> simp only <;> split <;> first | exact ok_cached rfl hr | exact ok_pure hr
      | noneType => exact ok_pure hr
      | unknown => exact ok_pure hr
      | newtype sup => exact hrec _ _ _ _ _ rfl hr
      | model fields =>
        simp only
        have m := ok_mapReq hrec σ (fields.map fun f => (Loc.field f.name f.required f.type.eqRep, f.type))
          _ _ (rel_cached (k := .shape u) hr)
        refine ok_bindAll m.1 m.2 ?_
        intro cs t t' ht
        cases dir <;> exact ok_cached rfl ht
    | lit args =>
      cases src' <;> simp [Hint.eqRep] at he
      simp only
      cases dir with
      | dump => exact ok_pure hr
      | load =>
        simp only
        refine ok_bindRes (hrec _ _ _ _ _ rfl hr) ?_
        intro bl t t' ht
        simp only [normLits, he]
        exact ok_cached rfl ht
    | seq fl e =>
      cases src' with
      | seq fl' e' =>
        simp [Hint.eqRep] at he
        simp only [he.1, he.2]
        refine ok_bindRes (hrec _ _ _ _ _ he.2 hr) ?_
        intro c t t' ht
        cases dir <;> exact ok_cached rfl ht
      | _ => simp [Hint.eqRep] at he
    | annotated b m =>
      cases src' with
      | annotated b' m' =>
        simp only [Hint.eqRep, Hint.annotated.injEq] at he
        simp only
        have : replaceTop b σ = replaceTop b' σ := by
          cases σ <;> simp [replaceTop, he.1]
        rw [this]
        exact hrec _ _ _ _ _ he.1 hr
      | _ => simp [Hint.eqRep] at he
    | union ms =>
      cases src' with
      | union ms' =>
        simp [Hint.eqRep] at he
        simp only [normUnion_fixed_congr U ms ms' he]
        split
        · split
          · exact ok_pure hr
          · refine ok_bindRes (hrec _ _ _ _ _ rfl hr) ?_
            intro c t t' ht
            cases dir
            · exact ok_cached (by simp [build]) ht
            · simp only; split
              · exact ok_pure ht
              · exact ok_cached rfl ht
        · have m := ok_mapReq hrec σ
            ((normUnion Mode.fixed U ms').zipIdx.map fun (m, i) => (Loc.gp (Hint.cls m) i, Hint.cls m)) _ _ hr
          refine ok_bindAll m.1 m.2 ?_
          intro cs t t' ht
          cases dir
          · exact ok_cached (by simp [build]) ht
          · simp only; split
            · exact ok_pure ht
            · exact ok_cached rfl ht
      | _ => simp [Hint.eqRep] at he

theorem route_ok (U : Univ) (cap : Nat) (cfg : Cfg) (dir : Dir) {rec : Step} (hrec : StepOK rec) :
    StepOK (route Mode.fixed U cap cfg dir rec) := by
  intro σ h h' s s' he hr
  unfold route
  apply routeSrc_ok U cfg dir hrec
  · rw [normSrc_eqRep, normSrc_eqRep, he]
  · exact hr.setNorm _ _

/-- **a request does not see the history**: `RecursiveRequestBus.send` with any fuel -/
theorem provide_ok (U : Univ) (cap : Nat) (cfg : Cfg) (dir : Dir) :
    ∀ fuel, StepOK (provide Mode.fixed U cap cfg dir fuel)
  | 0 => by
    intro σ h h' s s' _ hr
    exact ok_pure hr
  | fuel + 1 => by
    intro σ h h' s s' he hr
    unfold provide
    cases σ with
    | nil => exact ok_pure hr
    | cons loc rest =>
      simp only
      split
      · -- a repeated location: hand out the stub
        rw [hr.loc]
        split
        · exact ok_pure hr
        · refine ⟨rfl, ⟨?_, hr.inv, hr.inv'⟩⟩
          simp
      · have r := route_ok U cap cfg dir (provide_ok U cap cfg dir fuel) (loc :: rest) h h' s s' he hr
        revert r
        generalize route Mode.fixed U cap cfg dir (provide Mode.fixed U cap cfg dir fuel) (loc :: rest) h s = x
        generalize route Mode.fixed U cap cfg dir (provide Mode.fixed U cap cfg dir fuel) (loc :: rest) h' s' = y
        intro r
        rw [r.1]
        cases y.1 with
        | none => exact ⟨rfl, r.2⟩
        | some c =>
          simp only
          rw [r.2.loc]
          split
          · refine ⟨rfl, ⟨?_, r.2.inv, r.2.inv'⟩⟩
            simp
          · exact ⟨rfl, r.2⟩

end Adaptix.Cache
