/-
  C05 — relating what FIRST / ALL report to a specification list of faults
  (`FaultsRel`), generically over the element disciplines ("slots") and then for
  each container loader, parameterised by the relation for the children.
-/
import AdaptixProofs.Lemmas.MorphTrailReports

namespace Adaptix.Morph
open Adaptix.Py

abbrev TrailFaultList := List (List TrailEl × String)

/-- outcome `o` of loading in mode `m` agrees with the fault list `F` of the spec:
    success means no faults; a LoadError in ALL mode reports exactly the faults (as a
    multiset) and at least one; in FIRST mode it reports exactly one error, which is
    one of the faults. -/
def FaultsRel (m : DebugTrail) {α : Type} (o : Outcome α) (F : TrailFaultList) : Prop :=
  (∀ v, o = .ok v → F = []) ∧
  (∀ e, o = .err e →
    match m with
    | .all => (reportKeys e).Perm F ∧ reportKeys e ≠ []
    | .first => ∃ t l, reports e = [(t, l)] ∧ (t, l.cls) ∈ F
    | .disable => True)

theorem faults_rel_perm {m : DebugTrail} {α : Type} {o : Outcome α} {F F' : TrailFaultList}
    (h : FaultsRel m o F) (hp : F.Perm F') : FaultsRel m o F' := by
  refine ⟨fun v hv => ?_, fun e he => ?_⟩
  · have := h.1 v hv; subst this; exact hp.nil_eq.symm
  · have := h.2 e he
    cases m with
    | all => exact ⟨this.1.trans hp, this.2⟩
    | first =>
      obtain ⟨t, l, h1, h2⟩ := this
      exact ⟨t, l, h1, hp.mem_iff.mp h2⟩
    | disable => trivial

theorem faults_rel_err_ne_nil {m : DebugTrail} (hm : m ≠ .disable) {α : Type} {e : LErr}
    {F : TrailFaultList} (h : FaultsRel m (Outcome.err e : Outcome α) F) : F ≠ [] := by
  have := h.2 e rfl
  cases m with
  | disable => exact absurd rfl hm
  | all =>
    intro hF; subst hF
    exact this.2 this.1.eq_nil
  | first =>
    obtain ⟨t, l, _, h2⟩ := this
    intro hF; subst hF; simp at h2

theorem faults_rel_leaf {m : DebugTrail} {α : Type} {cls : String} (hcls : cls ≠ "AggregateLoadError")
    (d : Val) : FaultsRel m (Outcome.err (LErr.leaf cls d) : Outcome α) [([], cls)] := by
  refine ⟨fun v hv => (by cases hv), fun e he => ?_⟩
  cases he
  cases m with
  | all => rw [trail_reportKeys_leaf hcls]; exact ⟨List.Perm.refl _, by simp⟩
  | first => exact ⟨[], _, trail_reports_leaf hcls d, by simp [LErr.leaf, LErr.cls]⟩
  | disable => trivial

theorem faults_rel_leafD {m : DebugTrail} {α : Type} {cls : String} (hcls : cls ≠ "AggregateLoadError")
    (d : Val) (det : List String) :
    FaultsRel m (Outcome.err (LErr.leafD cls d det) : Outcome α) [([], cls)] := by
  refine ⟨fun v hv => (by cases hv), fun e he => ?_⟩
  cases he
  cases m with
  | all => rw [trail_reportKeys_leafD hcls]; exact ⟨List.Perm.refl _, by simp⟩
  | first => exact ⟨[], _, trail_reports_leafD hcls d det, by simp [LErr.leafD, LErr.cls]⟩
  | disable => trivial

theorem faults_rel_ok {m : DebugTrail} {α : Type} (v : α) : FaultsRel m (Outcome.ok v) [] :=
  ⟨fun _ _ => rfl, fun e he => by cases he⟩

theorem faults_rel_bind {m : DebugTrail} {α β : Type} {o : Outcome α} {k : α → Outcome β}
    {F : TrailFaultList} (h : FaultsRel m o F) (hk : ∀ a e, k a ≠ .err e) : FaultsRel m (bindO o k) F := by
  refine ⟨fun v hv => ?_, fun e he => ?_⟩
  · obtain ⟨a, ha, _⟩ := trail_bindO_ok hv
    exact h.1 a ha
  · rcases trail_bindO_err he with h1 | ⟨a, _, h2⟩
    · exact h.2 e h1
    · exact absurd h2 (hk a e)

/-! ### the element disciplines over "slots" (an item with the fault list of its child) -/

abbrev FaultSlot := Option TrailEl × Outcome Val × TrailFaultList

def FaultSlot.item (sl : FaultSlot) : Option TrailEl × Outcome Val := (sl.1, sl.2.1)
def FaultSlot.faults (sl : FaultSlot) : TrailFaultList := trailPreO sl.1 sl.2.2

theorem faults_seqMode {m : DebugTrail} (hm : m ≠ .disable) (slots : List FaultSlot)
    (hrel : ∀ sl ∈ slots, FaultsRel m sl.2.1 sl.2.2) :
    FaultsRel m (seqMode m (slots.map FaultSlot.item)) (slots.flatMap FaultSlot.faults) := by
  have hokdir : (∀ it ∈ slots.map FaultSlot.item, ∃ v, it.2 = Outcome.ok v) →
      slots.flatMap FaultSlot.faults = [] := by
    intro hok
    simp only [List.flatMap_eq_nil_iff]
    intro sl hsl
    obtain ⟨v, hv⟩ := hok sl.item (List.mem_map.mpr ⟨sl, hsl, rfl⟩)
    have := (hrel sl hsl).1 v hv
    simp only [FaultSlot.faults, this]
    cases sl.1 <;> simp [trailPreO, trailPre]
  cases m with
  | disable => exact absurd rfl hm
  | first =>
    refine ⟨fun vs h => hokdir (trail_seqFirst_ok h), fun e h => ?_⟩
    obtain ⟨el, e0, hmem, rfl⟩ := trail_seqFirst_err h
    obtain ⟨sl, hsl, hit⟩ := List.mem_map.mp hmem
    simp only [FaultSlot.item, Prod.mk.injEq] at hit
    obtain ⟨t, l, h1, h2⟩ := (hrel sl hsl).2 e0 hit.2
    have hsub : ∀ q ∈ sl.faults, q ∈ slots.flatMap FaultSlot.faults :=
      fun q hq => List.mem_flatMap.mpr ⟨sl, hsl, hq⟩
    cases hel : el with
    | none =>
      refine ⟨t, l, by simp [LErr.pushO, h1], hsub _ ?_⟩
      simp only [FaultSlot.faults, hit.1, hel, trailPreO]; exact h2
    | some el' =>
      refine ⟨el' :: t, l, by simp [LErr.pushO, trail_reports_push, h1], hsub _ ?_⟩
      simp only [FaultSlot.faults, hit.1, hel, trailPreO, trailPre]
      exact List.mem_map.mpr ⟨(t, l.cls), h2, rfl⟩
  | all =>
    have := faults_sweep_finish (items := slots.map FaultSlot.item) (F := slots.flatMap FaultSlot.faults) ?_ ?_
    · exact ⟨this.1, fun e he => this.2 e he⟩
    · intro hclean
      simp only [trailItemKeys, List.flatMap_map]
      apply trail_perm_flatMap
      intro sl hsl
      have hc := hclean sl.item (List.mem_map.mpr ⟨sl, hsl, rfl⟩)
      exact faults_item sl.1 hc (hrel sl hsl).1 (fun e he => ((hrel sl hsl).2 e he).1)
    · intro el e0 hmem
      obtain ⟨sl, hsl, hit⟩ := List.mem_map.mp hmem
      simp only [FaultSlot.item, Prod.mk.injEq] at hit
      exact ((hrel sl hsl).2 e0 hit.2).2

/-! ### index-addressed children (iterables, tuples) -/

theorem faults_seq_idx {m : DebugTrail} (hm : m ≠ .disable) {α : Type} {g : α → Outcome Val}
    {Fc : α → TrailFaultList} (ys : List α) (hc : ∀ y, FaultsRel m (g y) (Fc y)) :
    FaultsRel m (seqMode m (idxItems (ys.map g)))
      (ys.zipIdx.flatMap (fun p => trailPre (.idx p.2) (Fc p.1))) := by
  have h := faults_seqMode hm (ys.zipIdx.map (fun p => ((some (TrailEl.idx p.2), g p.1, Fc p.1) : FaultSlot)))
    (by
      intro sl hsl
      obtain ⟨p, _, rfl⟩ := List.mem_map.mp hsl
      exact hc p.1)
  rw [List.map_map, List.flatMap_map] at h
  rw [trail_idxItems_map]
  exact h

/-! ### dict -/

theorem faults_seq_dict {m : DebugTrail} (hm : m ≠ .disable) {gk gv : Val → Outcome Val}
    {FK FV : Val → TrailFaultList} (kvs : List (Val × Val))
    (hk : ∀ x, FaultsRel m (gk x) (FK x)) (hv : ∀ x, FaultsRel m (gv x) (FV x)) :
    FaultsRel m (seqMode m (dictItems false gk gv kvs))
      (kvs.flatMap (fun p => trailPre (.itemKey p.1) (FK p.1) ++ trailPre (.key p.1) (FV p.2))) := by
  have h := faults_seqMode hm
    (kvs.flatMap (fun p => ([(some (TrailEl.itemKey p.1), gk p.1, FK p.1),
                             (some (TrailEl.key p.1), gv p.2, FV p.2)] : List FaultSlot)))
    (by
      intro sl hsl
      obtain ⟨p, _, hp⟩ := List.mem_flatMap.mp hsl
      simp only [List.mem_cons, List.not_mem_nil, or_false] at hp
      rcases hp with rfl | rfl
      · exact hk p.1
      · exact hv p.2)
  have e1 : (kvs.flatMap (fun p => ([(some (TrailEl.itemKey p.1), gk p.1, FK p.1),
                             (some (TrailEl.key p.1), gv p.2, FV p.2)] : List FaultSlot))).map FaultSlot.item
      = dictItems false gk gv kvs := by
    rw [trail_dictItems_all, List.map_flatMap]
    rfl
  have e2 : (kvs.flatMap (fun p => ([(some (TrailEl.itemKey p.1), gk p.1, FK p.1),
                             (some (TrailEl.key p.1), gv p.2, FV p.2)] : List FaultSlot))).flatMap FaultSlot.faults
      = kvs.flatMap (fun p => trailPre (.itemKey p.1) (FK p.1) ++ trailPre (.key p.1) (FV p.2)) := by
    rw [List.flatMap_assoc]
    congr 1
    funext p
    simp [FaultSlot.faults, trailPreO]
  rw [e1, e2] at h
  exact h

/-! ### models -/

/-- the slots of the generated model loader: `modelItems` with each item's fault list -/
def faultsModelSlots (fl : Field → Val → Outcome Val) (Fc : Field → Val → TrailFaultList)
    (kvs : List (Val × Val)) (missing : List String) : List Field → Bool → List FaultSlot
  | [], _ => []
  | f :: rest, reported =>
    match Val.lookup (.str f.name) kvs with
    | some v => (some (TrailEl.key (.str f.name)), fl f v, Fc f v)
                  :: faultsModelSlots fl Fc kvs missing rest reported
    | none =>
      if f.required then
        if reported then faultsModelSlots fl Fc kvs missing rest reported
        else (none, .err (LErr.leafD "NoRequiredFieldsLoadError" (.dict kvs) missing),
                [([], "NoRequiredFieldsLoadError")])
              :: faultsModelSlots fl Fc kvs missing rest true
      else (none, .ok f.default, []) :: faultsModelSlots fl Fc kvs missing rest reported

theorem faults_modelSlots_items (fl : Field → Val → Outcome Val) (Fc : Field → Val → TrailFaultList)
    (kvs : List (Val × Val)) (missing : List String) (fields : List Field) (rep : Bool) :
    (faultsModelSlots fl Fc kvs missing fields rep).map FaultSlot.item = modelItems fl kvs missing fields rep := by
  induction fields generalizing rep with
  | nil => simp [faultsModelSlots, modelItems]
  | cons f rest ih =>
    simp only [faultsModelSlots, modelItems]
    cases hl : Val.lookup (.str f.name) kvs with
    | some v => simp [ih, FaultSlot.item]
    | none =>
      cases hr : f.required
      · simp [ih, FaultSlot.item]
      · cases rep <;> simp [ih, FaultSlot.item]

/-- the local fault of a model node: some required field is absent -/
def faultsModelMissing (kvs : List (Val × Val)) (fields : List Field) : Bool :=
  fields.any (fun f => f.required && (Val.lookup (.str f.name) kvs).isNone)

/-- faults of the present fields -/
def faultsModelPresent (Fc : Field → Val → TrailFaultList) (kvs : List (Val × Val)) (f : Field) : TrailFaultList :=
  match Val.lookup (.str f.name) kvs with
  | some x => trailPre (.key (.str f.name)) (Fc f x)
  | none => []

theorem faults_modelSlots_faults (fl : Field → Val → Outcome Val) (Fc : Field → Val → TrailFaultList)
    (kvs : List (Val × Val)) (missing : List String) (fields : List Field) (rep : Bool) :
    ((faultsModelSlots fl Fc kvs missing fields rep).flatMap FaultSlot.faults).Perm
      ((if !rep && faultsModelMissing kvs fields then [([], "NoRequiredFieldsLoadError")] else [])
        ++ fields.flatMap (faultsModelPresent Fc kvs)) := by
  induction fields generalizing rep with
  | nil => simp [faultsModelSlots, faultsModelMissing]
  | cons f rest ih =>
    simp only [faultsModelSlots, List.flatMap_cons]
    cases hl : Val.lookup (.str f.name) kvs with
    | some v =>
      have hmiss : faultsModelMissing kvs (f :: rest) = faultsModelMissing kvs rest := by
        simp [faultsModelMissing, hl]
      have hpres : faultsModelPresent Fc kvs f = trailPre (.key (.str f.name)) (Fc f v) := by
        simp [faultsModelPresent, hl]
      simp only [List.flatMap_cons, hmiss, hpres, FaultSlot.faults, trailPreO]
      refine ((ih rep).append_left _).trans ?_
      rw [← List.append_assoc, ← List.append_assoc]
      exact List.Perm.append_right _ List.perm_append_comm
    | none =>
      have hpres : faultsModelPresent Fc kvs f = [] := by simp [faultsModelPresent, hl]
      cases hr : f.required
      · have hmiss : faultsModelMissing kvs (f :: rest) = faultsModelMissing kvs rest := by
          simp [faultsModelMissing, hr]
        simp only [Bool.false_eq_true, ↓reduceIte, List.flatMap_cons, hmiss, hpres, FaultSlot.faults,
          trailPreO, List.nil_append]
        exact ih rep
      · have hmiss : faultsModelMissing kvs (f :: rest) = true := by
          simp [faultsModelMissing, hr, hl]
        cases rep
        · simp only [↓reduceIte, Bool.false_eq_true, List.flatMap_cons, hmiss, hpres, FaultSlot.faults,
            trailPreO, List.nil_append, Bool.not_false, Bool.and_self]
          have := ih true
          simp only [Bool.not_true, Bool.false_and, Bool.false_eq_true, ↓reduceIte,
            List.nil_append] at this
          exact this.append_left _
        · simp only [↓reduceIte, hpres, List.nil_append]
          have := ih true
          simpa using this

theorem faults_seq_model {m : DebugTrail} (hm : m ≠ .disable) {fl : Field → Val → Outcome Val}
    {Fc : Field → Val → TrailFaultList} (kvs : List (Val × Val)) (missing : List String)
    (fields : List Field) (hc : ∀ f x, FaultsRel m (fl f x) (Fc f x)) :
    FaultsRel m (seqMode m (modelItems fl kvs missing fields false))
      ((if faultsModelMissing kvs fields then [([], "NoRequiredFieldsLoadError")] else [])
        ++ fields.flatMap (faultsModelPresent Fc kvs)) := by
  have hslots : ∀ (fields : List Field) (rep : Bool),
      ∀ sl ∈ faultsModelSlots fl Fc kvs missing fields rep, FaultsRel m sl.2.1 sl.2.2 := by
    intro fields
    induction fields with
    | nil => intro rep sl hsl; simp [faultsModelSlots] at hsl
    | cons f rest ih =>
      intro rep sl hsl
      simp only [faultsModelSlots] at hsl
      cases hl : Val.lookup (.str f.name) kvs with
      | some v =>
        simp only [hl] at hsl
        rcases List.mem_cons.mp hsl with rfl | hsl
        · exact hc f v
        · exact ih rep sl hsl
      | none =>
        simp only [hl] at hsl
        cases hr : f.required
        · simp only [hr, Bool.false_eq_true, ↓reduceIte] at hsl
          rcases List.mem_cons.mp hsl with rfl | hsl
          · exact faults_rel_ok _
          · exact ih rep sl hsl
        · simp only [hr, ↓reduceIte] at hsl
          cases rep
          · simp only [Bool.false_eq_true, ↓reduceIte] at hsl
            rcases List.mem_cons.mp hsl with rfl | hsl
            · exact faults_rel_leafD (by decide) _ _
            · exact ih true sl hsl
          · simp only [↓reduceIte] at hsl
            exact ih true sl hsl
  have h := faults_seqMode hm (faultsModelSlots fl Fc kvs missing fields false) (hslots fields false)
  rw [faults_modelSlots_items] at h
  have hp := faults_modelSlots_faults fl Fc kvs missing fields false
  simp only [Bool.not_false, Bool.true_and] at hp
  exact faults_rel_perm h hp

end Adaptix.Morph
