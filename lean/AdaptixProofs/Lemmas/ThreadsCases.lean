import AdaptixProofs.Lemmas.ThreadsStep

/-
  `Inv` is preserved by each kind of atomic action (one lemma per branch of `step`).
-/
namespace Adaptix.Threads

theorem ThreadInv.transport_same {sys : Sys} {s s' : State} {t : Tid} {th : Thread}
    (h : ThreadInv sys s t th) (e : Ext s s') (hheap : s'.heap = s.heap) (hstubs : s'.stubs = s.stubs) :
    ThreadInv sys s' t th where
  stack := fun ha a hm => (h.stack ha a hm).mono e
  sub := fun pc sub hp => by
    obtain ⟨h1, h2, h3⟩ := h.sub pc sub hp
    exact ⟨h1, h2, h3.mono e⟩
  putEmpty := h.putEmpty
  call := fun r hr => (h.call r hr).mono e
  bal := h.bal
  nodup := h.nodup
  nodupVals := h.nodupVals
  locs := fun loc x hm => by rw [hstubs]; exact h.locs loc x hm
  live := fun x sd hx ho => by rw [hstubs] at hx; exact h.live x sd hx ho
  fresh := fun hi j cd hj hc => by rw [hheap] at hj; exact h.fresh hi j cd hj hc
  res := h.res

/-- frame rule for an action that touches nothing shared -/
theorem Inv.frame_local {sys : Sys} {s s' : State} {t : Tid} {th th' : Thread} (hinv : Inv sys s)
    (hth : s.threads[t]? = some th)
    (hheap : s'.heap = s.heap) (hstubs : s'.stubs = s.stubs) (hcc : s'.callCache = s.callCache)
    (hlc : s'.loaderCache = s.loaderCache) (hthreads : s'.threads = s.threads.set t th')
    (hc : th.phase.isClosed = true → th'.phase.isClosed = true)
    (hself : ThreadInv sys s t th') : Inv sys s' := by
  have e : ExtBy s s' t := extBy_same hth hthreads hc hheap hstubs
  refine hinv.frame e hthreads ?_ ?_ ?_ ?_ (fun _ => hself.transport_same e.toExt hheap hstubs)
  · intro j cd h1 h2; rw [hheap, h2] at h1; cases h1
  · intro en hen; rw [hcc] at hen; exact Or.inl hen
  · intro x sd' r hx hr; rw [hstubs] at hx; exact Or.inl ⟨sd', hx, hr⟩
  · intro en hen; rw [hlc] at hen; exact Or.inl hen

variable {sys : Sys} {s : State} {t : Tid} {th : Thread}

/-- loader cache hit -/
theorem inv_idle_hit (hinv : Inv sys s) (hth : s.threads[t]? = some th) (hp : th.phase = .idle) {r : Ref}
    (hl : lcLookup s.loaderCache th.ty = some r) {l : Label} :
    Inv sys (emit (setThread s t { th with phase := .call r }) l) := by
  have hT := hinv.threads t th hth
  refine hinv.frame_local hth rfl rfl rfl rfl rfl (by simp [hp, Phase.isClosed]) ?_
  obtain ⟨e, he, her⟩ := lcLookup_some hl
  exact {
    stack := fun ha => by simp [Phase.isActive] at ha
    sub := fun pc sub h => by simp at h
    putEmpty := fun h => by simp at h
    call := fun r' h => by simp at h; subst h; rw [← her]; exact hinv.lc e he
    bal := hT.bal
    nodup := hT.nodup
    nodupVals := hT.nodupVals
    locs := hT.locs
    live := fun x sd hx ho => absurd hp (hT.live x sd hx ho).1
    fresh := fun h => by simp at h
    res := hT.res }

/-- loader cache miss: the request starts -/
theorem inv_idle_miss (hinv : Inv sys s) (hth : s.threads[t]? = some th) (hp : th.phase = .idle) {l : Label} :
    Inv sys (emit (setThread s t { th with phase := nextPhase (sys.body th.ty).length 0, stack := [],
                                           locToStub := [] }) l) := by
  have hT := hinv.threads t th hth
  refine hinv.frame_local hth rfl rfl rfl rfl rfl (by simp [hp, Phase.isClosed]) ?_
  exact {
    stack := fun _ a ha => by simp at ha
    sub := fun pc sub h => by
      simp only [nextPhase] at h
      split at h
      · rename_i hlt
        cases h
        exact ⟨hlt, by simp, trivial⟩
      · cases h
    putEmpty := fun _ => rfl
    call := fun r h => absurd h (nextPhase_ne_call _ _ _)
    bal := hT.bal
    nodup := by simp
    nodupVals := by simp
    locs := fun loc x h => by simp at h
    live := fun x sd hx ho => absurd hp (hT.live x sd hx ho).1
    fresh := fun h => absurd h (nextPhase_ne_idle _ _)
    res := hT.res }

/-- the program counter ran off the program (does not happen: `ThreadInv.sub`) -/
theorem inv_run_none (hinv : Inv sys s) (hth : s.threads[t]? = some th) {pc : Nat} {sub : Sub}
    (hp : th.phase = .run pc sub) (hnone : (sys.body th.ty)[pc]? = none) {l : Label} :
    Inv sys (emit (setThread s t { th with phase := .put }) l) := by
  have hT := hinv.threads t th hth
  have := (hT.sub pc sub hp).1
  rw [List.getElem?_eq_none_iff] at hnone
  omega

theorem vals_unique : ∀ {m : List (Loc × Nat)} {l1 l2 : Loc} {x : Nat}, (m.map (·.2)).Nodup →
    (l1, x) ∈ m → (l2, x) ∈ m → l1 = l2
  | [], _, _, _, _, h, _ => by cases h
  | e :: es, l1, l2, x, hn, h1, h2 => by
    simp only [List.map_cons, List.nodup_cons] at hn
    rcases List.mem_cons.mp h1 with h1 | h1 <;> rcases List.mem_cons.mp h2 with h2 | h2
    · rw [← h2] at h1; exact (Prod.mk.inj h1).1
    · exact absurd (List.mem_map.mpr ⟨(l2, x), h2, by rw [← h1]⟩) hn.1
    · exact absurd (List.mem_map.mpr ⟨(l1, x), h1, by rw [← h2]⟩) hn.1
    · exact vals_unique hn.2 h1 h2

/-- `ThreadInv` of a thread that has just completed the instruction at `pc` (in any state `s'`) -/
theorem threadInv_advance {s' : State} {pc : Nat} {ins : Instr} (hbal : balanced (sys.body th.ty) = true)
    (hins : (sys.body th.ty)[pc]? = some ins) {stack' : List Ref} {locs' : List (Loc × Nat)}
    (hstack : ∀ a ∈ stack', OwnedBy s' t a)
    (hkeys : locs'.map (·.1) ⊆ openStep (openAt (sys.body th.ty) pc) ins)
    (hnodup : (locs'.map (·.1)).Nodup) (hnodupV : (locs'.map (·.2)).Nodup)
    (hlocs : ∀ (loc : Loc) (x : Nat), (loc, x) ∈ locs' →
      ∃ sd : StubData, s'.stubs[x]? = some sd ∧ sd.owner = t ∧ sd.target = none)
    (hlive : ∀ (x : Nat) (sd : StubData), s'.stubs[x]? = some sd → sd.owner = t →
      sd.target ≠ none ∨ ∃ loc, (loc, x) ∈ locs')
    (hres : th.result ≠ some .unbound) :
    ThreadInv sys s' t { th with phase := nextPhase (sys.body th.ty).length (pc + 1), stack := stack',
                                 locToStub := locs' } := by
  have hc := next_ctrl (s := s') (sys := sys)
    (th' := { th with phase := nextPhase (sys.body th.ty).length (pc + 1), stack := stack', locToStub := locs' })
    (ty := th.ty) rfl hins hbal rfl hkeys
  exact {
    stack := fun _ => hstack
    sub := hc.1
    putEmpty := hc.2
    call := fun r h => absurd h (nextPhase_ne_call _ _ _)
    bal := hbal
    nodup := hnodup
    nodupVals := hnodupV
    locs := hlocs
    live := fun x sd hx ho => by
      refine ⟨nextPhase_ne_idle _ _, ?_⟩
      rcases hlive x sd hx ho with h | h
      · exact Or.inl h
      · exact Or.inr ⟨nextPhase_active _ _, h⟩
    fresh := fun h => absurd h (nextPhase_ne_idle _ _)
    res := hres }

/-- `ThreadInv` of a running thread that only moves to another micro-state of the same instruction -/
theorem ThreadInv.set_sub {s' : State} {pc : Nat} {sub sub' : Sub} (h : ThreadInv sys s' t th)
    (hp : th.phase = .run pc sub)
    (hsub : SubOk s' th (instrNargs ((sys.body th.ty)[pc]?.getD (.stubGet 0))) sub') :
    ThreadInv sys s' t { th with phase := .run pc sub' } where
  stack := fun _ => h.stack (by rw [hp]; rfl)
  sub := fun pc' sub'' hp' => by
    cases hp'
    obtain ⟨h1, h2, _⟩ := h.sub pc sub hp
    exact ⟨h1, h2, hsub⟩
  putEmpty := fun hp' => by cases hp'
  call := fun r hp' => by cases hp'
  bal := h.bal
  nodup := h.nodup
  nodupVals := h.nodupVals
  locs := h.locs
  live := fun x sd hx ho => by
    obtain ⟨_, h2⟩ := h.live x sd hx ho
    refine ⟨by simp, ?_⟩
    rcases h2 with h2 | ⟨_, h2⟩
    · exact Or.inl h2
    · exact Or.inr ⟨rfl, h2⟩
  fresh := fun hp' => by cases hp'
  res := h.res

theorem ThreadInv.transport_stubs_same {s' : State} (h : ThreadInv sys s t th) (e : Ext s s')
    (hstubs : s'.stubs = s.stubs) (hni : th.phase ≠ .idle) : ThreadInv sys s' t th where
  stack := fun ha a hm => (h.stack ha a hm).mono e
  sub := fun pc sub hp => by
    obtain ⟨h1, h2, h3⟩ := h.sub pc sub hp
    exact ⟨h1, h2, h3.mono e⟩
  putEmpty := h.putEmpty
  call := fun r hr => (h.call r hr).mono e
  bal := h.bal
  nodup := h.nodup
  nodupVals := h.nodupVals
  locs := fun loc x hm => by rw [hstubs]; exact h.locs loc x hm
  live := fun x sd hx ho => by rw [hstubs] at hx; exact h.live x sd hx ho
  fresh := fun hi => absurd hi hni
  res := h.res

theorem run_active {pc : Nat} {sub : Sub} (hp : th.phase = .run pc sub) : th.phase.isActive = true := by
  rw [hp]; rfl

theorem run_not_closed {pc : Nat} {sub : Sub} (hp : th.phase = .run pc sub) :
    th.phase.isClosed = true → False := by
  rw [hp]; simp [Phase.isClosed]

/-- the stubs of a running thread are bound or in its resolver -/
theorem live_of_run (hT : ThreadInv sys s t th) (x : Nat) (sd : StubData) (hx : s.stubs[x]? = some sd)
    (ho : sd.owner = t) : sd.target ≠ none ∨ ∃ loc, (loc, x) ∈ th.locToStub := by
  rcases (hT.live x sd hx ho).2 with h | ⟨_, h⟩
  · exact Or.inl h
  · exact Or.inr h

/-- `track_request`: the stub of this location already exists in the resolver -/
theorem inv_stubGet_reuse (hinv : Inv sys s) (hth : s.threads[t]? = some th) {pc : Nat} {sub : Sub}
    (hp : th.phase = .run pc sub) {loc : Loc} (hins : (sys.body th.ty)[pc]? = some (.stubGet loc)) {x : Nat}
    (hl : lookupLoc th.locToStub loc = some x) {l : Label} :
    Inv sys (emit (setThread s t { th with phase := nextPhase (sys.body th.ty).length (pc + 1),
                                           stack := .stub x :: th.stack }) l) := by
  have hT := hinv.threads t th hth
  refine hinv.frame_local hth rfl rfl rfl rfl rfl (fun h => (run_not_closed hp h).elim) ?_
  have := threadInv_advance (sys := sys) (s' := s) (t := t) (th := th) hT.bal hins
    (stack' := .stub x :: th.stack) (locs' := th.locToStub) ?_ ?_ hT.nodup hT.nodupVals hT.locs (live_of_run hT) hT.res
  · exact this
  · intro a ha
    rcases List.mem_cons.mp ha with ha | ha
    · obtain ⟨sd, h1, h2, _⟩ := hT.locs loc x (lookupLoc_mem hl)
      rw [ha]; exact ⟨sd, h1, h2⟩
    · exact hT.stack (run_active hp) a ha
  · have hk := (hT.sub pc sub hp).2.1
    intro a ha
    simp only [openStep]
    split
    · exact hk ha
    · exact List.mem_cons_of_mem _ (hk ha)

theorem stubs_lt_of_locs (hT : ThreadInv sys s t th) : ∀ v ∈ th.locToStub.map (·.2), v < s.stubs.length := by
  intro v hv
  obtain ⟨e, he, hev⟩ := List.mem_map.mp hv
  obtain ⟨sd, h1, _⟩ := hT.locs e.1 e.2 he
  rw [← hev]
  exact lt_length_of_getElem? h1

/-- `track_request`: a new stub -/
theorem inv_stubGet_new (hinv : Inv sys s) (hth : s.threads[t]? = some th) {pc : Nat} {sub : Sub}
    (hp : th.phase = .run pc sub) {loc : Loc} (hins : (sys.body th.ty)[pc]? = some (.stubGet loc))
    (hl : lookupLoc th.locToStub loc = none) {l : Label} :
    Inv sys (emit (setThread { s with stubs := s.stubs ++ [{ loc := loc, owner := t, target := none }] } t
      { th with phase := nextPhase (sys.body th.ty).length (pc + 1), stack := .stub s.stubs.length :: th.stack,
                locToStub := (loc, s.stubs.length) :: th.locToStub }) l) := by
  have hT := hinv.threads t th hth
  have e : ExtBy s (emit (setThread { s with stubs := s.stubs ++ [{ loc := loc, owner := t, target := none }] } t
      { th with phase := nextPhase (sys.body th.ty).length (pc + 1), stack := .stub s.stubs.length :: th.stack,
                locToStub := (loc, s.stubs.length) :: th.locToStub }) l) t :=
    extBy_stub (loc := loc) hth rfl (fun h => (run_not_closed hp h).elim) rfl rfl
  have hnew : (s.stubs ++ [({ loc := loc, owner := t, target := none } : StubData)])[s.stubs.length]? =
      some { loc := loc, owner := t, target := none } := by simp
  have hold : ∀ (x : Nat) (sd : StubData), s.stubs[x]? = some sd →
      (s.stubs ++ [({ loc := loc, owner := t, target := none } : StubData)])[x]? = some sd := by
    intro x sd hx
    rw [List.getElem?_append_left (lt_length_of_getElem? hx)]; exact hx
  refine hinv.frame e rfl ?_ ?_ ?_ ?_ (fun _ => ?_)
  · intro j cd h1 h2; simp at h1; rw [h2] at h1; cases h1
  · intro en hen; exact Or.inl hen
  · intro x sd' r hx hr
    rcases e.stubsNew x sd' hx with ⟨sd, h1, _, _, _⟩ | ⟨h1, _⟩
    · have := hold x sd h1
      simp only [emit_stubs, setThread_stubs] at hx
      have hh : sd = sd' := by rw [this] at hx; exact Option.some.inj hx
      subst hh
      exact Or.inl ⟨sd, h1, hr⟩
    · simp only [emit_stubs, setThread_stubs] at hx
      have hxl : x = s.stubs.length := by
        have h2 := lt_length_of_getElem? hx
        rw [List.getElem?_eq_none_iff] at h1
        simp at h2; omega
      subst hxl
      rw [hnew] at hx; cases hx; cases hr
  · intro en hen; exact Or.inl hen
  · refine threadInv_advance (sys := sys) (t := t) (th := th) hT.bal hins ?_ ?_ ?_ ?_ ?_ ?_ hT.res
    · intro a ha
      rcases List.mem_cons.mp ha with ha | ha
      · rw [ha]; exact ⟨_, hnew, rfl⟩
      · exact (hT.stack (run_active hp) a ha).mono e.toExt
    · have hk := (hT.sub pc sub hp).2.1
      intro a ha
      simp only [openStep]
      simp only [List.map_cons, List.mem_cons] at ha
      split
      · rename_i hc
        rcases ha with ha | ha
        · rw [ha]; simpa using hc
        · exact hk ha
      · rcases ha with ha | ha
        · rw [ha]; exact List.mem_cons_self
        · exact List.mem_cons_of_mem _ (hk ha)
    · simp only [List.map_cons, List.nodup_cons]
      exact ⟨lookupLoc_none hl, hT.nodup⟩
    · simp only [List.map_cons, List.nodup_cons]
      refine ⟨fun hm => ?_, hT.nodupVals⟩
      exact Nat.lt_irrefl _ (stubs_lt_of_locs hT _ hm)
    · intro loc' x hm
      rcases List.mem_cons.mp hm with hm | hm
      · cases hm; exact ⟨_, hnew, rfl, rfl⟩
      · obtain ⟨sd, h1, h2, h3⟩ := hT.locs loc' x hm
        exact ⟨sd, hold x sd h1, h2, h3⟩
    · intro x sd hx ho
      simp only [emit_stubs, setThread_stubs] at hx
      rcases Nat.lt_or_ge x s.stubs.length with hxl | hxl
      · rw [List.getElem?_append_left hxl] at hx
        rcases live_of_run hT x sd hx ho with h | ⟨loc', h⟩
        · exact Or.inl h
        · exact Or.inr ⟨loc', List.mem_cons_of_mem _ h⟩
      · have h2 := lt_length_of_getElem? hx
        simp at h2
        have : x = s.stubs.length := by omega
        subst this
        exact Or.inr ⟨loc, List.mem_cons_self⟩

theorem mem_eraseLoc {m : List (Loc × Nat)} {loc : Loc} {e : Loc × Nat} :
    e ∈ eraseLoc m loc ↔ e ∈ m ∧ e.1 ≠ loc := by
  simp [eraseLoc]

/-- `track_response` binds the stub of the location: `set_func` -/
theorem inv_stubBind (hinv : Inv sys s) (hth : s.threads[t]? = some th) {pc : Nat} {sub : Sub}
    (hp : th.phase = .run pc sub) {loc : Loc} (hins : (sys.body th.ty)[pc]? = some (.stubBind loc)) {x : Nat}
    (hl : lookupLoc th.locToStub loc = some x) {l : Label} :
    Inv sys (emit (setThread
      { s with stubs := s.stubs.modify x (fun sd => { sd with target := some (th.stack.headD (.prim 0)) }) } t
      { th with phase := nextPhase (sys.body th.ty).length (pc + 1),
                locToStub := eraseLoc th.locToStub loc }) l) := by
  have hT := hinv.threads t th hth
  have hmem := lookupLoc_mem hl
  obtain ⟨sd0, hx0, hown0, hun0⟩ := hT.locs loc x hmem
  have e : ExtBy s (emit (setThread
      { s with stubs := s.stubs.modify x (fun sd => { sd with target := some (th.stack.headD (.prim 0)) }) } t
      { th with phase := nextPhase (sys.body th.ty).length (pc + 1),
                locToStub := eraseLoc th.locToStub loc }) l) t :=
    extBy_bind hth rfl (fun h => (run_not_closed hp h).elim) rfl hx0 hown0 hun0 rfl
  have hr : OwnedBy s t (th.stack.headD (.prim 0)) := by
    cases hs : th.stack with
    | nil => simp [OwnedBy]
    | cons a as => simp; exact hT.stack (run_active hp) a (by rw [hs]; exact List.mem_cons_self)
  have hother : ∀ (y : Nat), x ≠ y →
      (s.stubs.modify x (fun sd => { sd with target := some (th.stack.headD (.prim 0)) }))[y]? = s.stubs[y]? := by
    intro y hxy
    rw [List.getElem?_modify]; simp [hxy]
  have hsame : (s.stubs.modify x (fun sd => { sd with target := some (th.stack.headD (.prim 0)) }))[x]? =
      some { sd0 with target := some (th.stack.headD (.prim 0)) } := by
    rw [List.getElem?_modify]; simp [hx0]
  refine hinv.frame e rfl ?_ ?_ ?_ ?_ (fun _ => ?_)
  · intro j cd h1 h2; simp at h1; rw [h2] at h1; cases h1
  · intro en hen; exact Or.inl hen
  · intro y sd' r hy hr'
    simp only [emit_stubs, setThread_stubs] at hy
    by_cases hxy : x = y
    · subst hxy
      rw [hsame] at hy; cases hy
      have hr2 : some (th.stack.headD (.prim 0)) = some r := hr'
      cases hr2
      exact Or.inr (by show OwnedBy _ sd0.owner _; rw [hown0]; exact hr.mono e.toExt)
    · rw [hother y hxy] at hy
      exact Or.inl ⟨sd', hy, hr'⟩
  · intro en hen; exact Or.inl hen
  · refine threadInv_advance (sys := sys) (t := t) (th := th) hT.bal hins ?_ ?_ ?_ ?_ ?_ ?_ hT.res
    · intro a ha; exact (hT.stack (run_active hp) a ha).mono e.toExt
    · have hk := (hT.sub pc sub hp).2.1
      intro a ha
      obtain ⟨en, hen, hea⟩ := List.mem_map.mp ha
      obtain ⟨h1, h2⟩ := mem_eraseLoc.mp hen
      simp only [openStep, List.mem_filter]
      refine ⟨hk (List.mem_map.mpr ⟨en, h1, hea⟩), ?_⟩
      rw [← hea]; simpa using h2
    · exact (List.Sublist.map _ List.filter_sublist).nodup hT.nodup
    · exact (List.Sublist.map _ List.filter_sublist).nodup hT.nodupVals
    · intro loc' y hm
      obtain ⟨h1, h2⟩ := mem_eraseLoc.mp hm
      obtain ⟨sd, h3, h4, h5⟩ := hT.locs loc' y h1
      have hxy : x ≠ y := by
        intro hxy; subst hxy
        exact h2 (vals_unique hT.nodupVals h1 hmem)
      exact ⟨sd, by simp only [emit_stubs, setThread_stubs]; rw [hother y hxy]; exact h3, h4, h5⟩
    · intro y sd hy ho
      simp only [emit_stubs, setThread_stubs] at hy
      by_cases hxy : x = y
      · subst hxy
        rw [hsame] at hy; cases hy
        exact Or.inl (by simp)
      · rw [hother y hxy] at hy
        rcases live_of_run hT y sd hy ho with h | ⟨loc', h⟩
        · exact Or.inl h
        · refine Or.inr ⟨loc', mem_eraseLoc.mpr ⟨h, ?_⟩⟩
          intro hll
          simp at hll; subst hll
          exact hxy (keys_unique hT.nodup hmem h)

/-- `track_response` for a location without stub (the compiler never emits it) -/
theorem inv_stubBind_none (hinv : Inv sys s) (hth : s.threads[t]? = some th) {pc : Nat} {sub : Sub}
    (hp : th.phase = .run pc sub) {loc : Loc} (hins : (sys.body th.ty)[pc]? = some (.stubBind loc))
    (hl : lookupLoc th.locToStub loc = none) {l : Label} :
    Inv sys (emit (setThread s t { th with phase := nextPhase (sys.body th.ty).length (pc + 1) }) l) := by
  have hT := hinv.threads t th hth
  refine hinv.frame_local hth rfl rfl rfl rfl rfl (fun h => (run_not_closed hp h).elim) ?_
  have := threadInv_advance (sys := sys) (s' := s) (t := t) (th := th) hT.bal hins
    (stack' := th.stack) (locs' := th.locToStub) (hT.stack (run_active hp)) ?_ hT.nodup hT.nodupVals hT.locs
    (live_of_run hT) hT.res
  · exact this
  · have hk := (hT.sub pc sub hp).2.1
    intro a ha
    simp only [openStep, List.mem_filter]
    refine ⟨hk ha, ?_⟩
    have := lookupLoc_none hl
    simp
    intro h; subst h; exact this ha

end Adaptix.Threads
