/-
  C08 lemmas, part 1: facts about the extracted tables and the small pure
  helpers of the literal renderer model.
-/
import AdaptixModel.Layout.Default

namespace Adaptix.Default
open Generated

/-- the objects of `builtins`: `None`, `True/False`, or a named builtin -/
def Val.flatB : Val → Bool
  | .none | .bool _ | .builtin _ => true
  | _ => false

def beqFlat : Val → Val → Bool
  | .none, .none => true
  | .bool a, .bool b => a == b
  | .builtin a, .builtin b => a == b
  | _, _ => false

theorem beqFlat_eq {a b : Val} (h : beqFlat a b = true) : a = b := by
  cases a <;> cases b <;> simp_all [beqFlat]

/-- Every entry of adaptix's `NAME_TO_BUILTIN` is an object of `builtins` and
    is what that name evaluates to in Python's `builtins` namespace. -/
def nameTableOK (tbl : List (List Char × Val)) (bi : Builtins) : Bool :=
  tbl.all fun p => p.2.flatB && (match lookupName p.1 bi with
    | some y => beqFlat y p.2
    | Option.none => false)

set_option maxRecDepth 100000 in
theorem nameTable_ok : nameTableOK nameToBuiltin pyBuiltins = true := by decide

theorem lookupName_mem {n : List Char} {x : Val} :
    ∀ {tbl : List (List Char × Val)}, lookupName n tbl = some x → (n, x) ∈ tbl := by
  intro tbl
  induction tbl with
  | nil => simp [lookupName]
  | cons hd tl ih =>
    obtain ⟨k, a⟩ := hd
    unfold lookupName
    by_cases hk : (k == n) = true
    · simp only [hk, if_true]
      intro h
      have hk' : k = n := by simpa using hk
      cases h
      simp [hk']
    · simp only [hk]
      intro h
      exact List.mem_cons_of_mem _ (ih h)

/-- The identity guard's table: a hit in `NAME_TO_BUILTIN` is the object the
    name denotes in Python, and it is a builtins object. -/
theorem nameToBuiltin_sound {cs : List Char} {x : Val}
    (h : lookupName cs nameToBuiltin = some x) :
    lookupName cs pyBuiltins = some x ∧ x.flatB = true := by
  have hm := lookupName_mem h
  have hall := nameTable_ok
  unfold nameTableOK at hall
  rw [List.all_eq_true] at hall
  have := hall _ hm
  simp only [Bool.and_eq_true] at this
  obtain ⟨hf, hl⟩ := this
  refine ⟨?_, hf⟩
  cases hq : lookupName cs pyBuiltins with
  | none => simp [hq] at hl
  | some y =>
    simp only [hq] at hl
    rw [beqFlat_eq hl]

theorem asLit_lit (cs : List Char) : Txt.asLit (lit cs) = some cs := by
  induction cs with
  | nil => rfl
  | cons c cs ih => simp [lit, Txt.asLit] at ih ⊢; exact ih

/-- identity with a builtins object is determined, and `True` only for the
    object itself -/
theorem pyIs_flat {x v : Val} (hx : x.flatB = true) :
    (pyIs x v = some true ∧ v = x) ∨ pyIs x v = some false := by
  cases x with
  | none => cases v <;> simp [pyIs]
  | bool a =>
    cases v with
    | bool b =>
      by_cases h : a = b
      · subst h; simp [pyIs]
      · simp [pyIs, h]
    | _ => simp [pyIs]
  | builtin a =>
    cases v with
    | builtin b =>
      by_cases h : a = b
      · subst h; simp [pyIs]
      · simp [pyIs, h]
    | _ => simp [pyIs]
  | _ => simp [Val.flatB] at hx

end Adaptix.Default
