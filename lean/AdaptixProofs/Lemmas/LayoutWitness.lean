/-
  C03 — concrete, non-degenerate programs used by the non-vacuity witnesses of `Props/C03.lean`.

  One schema (`wSch`: a `map` with two list positions leaving two gaps, a nested path ending in `...`,
  trim, a skip predicate, omit_default on one field), one shape with five fields (required, optional
  with default, skipped), the layouts the *provider model* builds from them — proved, not assumed:
  `wInp_ok`, `wOut_ok` — and loader / dumper configurations with non-identity field codecs.
  `List.mergeSort` is defined by well-founded recursion, so the kernel cannot evaluate the crown builder by
  `rfl`; the two layout facts are evaluated by `simp` with the equation lemmas instead.
-/
import AdaptixProofs.Lemmas.LayoutLoadPaths
import AdaptixProofs.Lemmas.LayoutDump
import AdaptixProofs.Lemmas.LayoutPlacement

namespace Adaptix.Layout.Witness

open Adaptix.Layout

/-- an (irrelevant here, `style = none`) name-style function that is not the identity -/
def wStyle : Style → String → String := fun st s => if st == "upper" then s.toUpper else s

/-- `name_mapping(map={"a": ("x", 1), "b": ("x", 3), "c_": ("y", ...)}, skip="secret",
    omit_default="d", extra_in=ExtraForbid())` over the builtin defaults -/
def wSch : Schema :=
  { skip := fun f => f.id == "secret", only := fun _ => true,
    map := [.dict [("a", some [.key (.s "x"), .key (.i 1)]), ("b", some [.key (.s "x"), .key (.i 3)]),
                   ("c_", some [.key (.s "y"), .ellipsis])]],
    trim := true, style := none, asList := false, omitDefault := fun f => f.id == "d",
    extraIn := .forbid, extraOut := .skip }

def wFields : List Field :=
  [{ id := "a" }, { id := "b" }, { id := "c_", required := false, default := some (.int 7) },
   { id := "d", required := true, default := some (.int 7) }, { id := "secret", required := false }]

/-- `paths_to_leaves`: four field leaves in field order, then the gap fillers of the list node `x` -/
def wLeaves : List (Path × Leaf) :=
  [([.s "x", .i 1], .field "a"), ([.s "x", .i 3], .field "b"), ([.s "y", .s "c"], .field "c_"),
   ([.s "d"], .field "d"), ([.s "x", .i 0], .none), ([.s "x", .i 2], .none)]

def wCrown : Crown :=
  .dict [("d", .leaf (.field "d")),
         ("x", .list [.leaf .none, .leaf (.field "a"), .leaf .none, .leaf (.field "b")]),
         ("y", .dict [("c", .leaf (.field "c_"))])]

def wInp : InpLayout :=
  { crown := .dict [("d", .field "d"), ("x", .list [.none, .field "a", .none, .field "b"] .forbid),
                    ("y", .dict [("c", .field "c_")] .forbid)] .forbid,
    move := .none }

def wOut : OutLayout :=
  { crown := .dict [("d", .field "d"), ("x", .list [.none .none, .field "a", .none .none, .field "b"]),
                    ("y", .dict [("c", .field "c_")] [])] [("d", .int 7)],
    move := .none }

theorem wStructure_inp : makeStructure .inp wSch wStyle wFields [] = .ok wLeaves := rfl
theorem wStructure_out : makeStructure .out wSch wStyle wFields [] = .ok wLeaves := rfl

set_option maxRecDepth 4000 in
theorem wBuild : buildCrown wLeaves = .ok wCrown := by
  simp +decide [buildCrown, wLeaves, wCrown, List.mergeSort, pathLe, keyLe, build, splitHeads, groupRuns,
    buildEntry, buildItem, sortEntries, orderLe, orderOf, maxPathLen, List.mapM_cons, List.idxOf, List.findIdx,
    List.findIdx.go, bind, Except.bind, pure, Except.pure]

/-- **the provider model builds an input layout for the witness program** -/
theorem wInp_ok : inputLayout wSch wStyle wFields = .ok wInp := by
  unfold inputLayout
  simp only [bind, Except.bind, pure, Except.pure]
  have h1 : makeStructure .inp wSch wStyle wFields (makeInpExtraMove wSch.extraIn).targetIds = .ok wLeaves :=
    wStructure_inp
  rw [h1]
  simp only []
  have h2 : checkExtraPolicies (extraPolicy wSch.extraIn) wLeaves = .ok () := rfl
  rw [h2]
  simp only []
  have h3 : wLeaves.isEmpty = false := rfl
  rw [h3]
  simp only [Bool.false_eq_true, ↓reduceIte, wBuild]
  rfl

/-- **… and an output layout** (sieve of `d`, `None` placeholders at the gaps) -/
theorem wOut_ok : outputLayout wSch wStyle wFields = .ok wOut := by
  unfold outputLayout
  simp only [bind, Except.bind, pure, Except.pure]
  have h1 : makeStructure .out wSch wStyle wFields (makeOutExtraMove wSch.extraOut).targetIds = .ok wLeaves :=
    wStructure_out
  rw [h1]
  simp only []
  have h3 : wLeaves.isEmpty = false := rfl
  rw [h3]
  simp only [Bool.false_eq_true, ↓reduceIte, wBuild]
  rfl

/-- loader configuration: field loaders that change the value (`n ↦ n + 1`) and reject non-ints -/
def wLoadCfg (mode : DebugTrail) (strict : Bool) : LoadCfg :=
  { mode, strict, move := .none, fields := wFields,
    loader := fun _ v => match v with
      | .int n => .ok (.int (n + 1))
      | v => .error ⟨[], .typeLoad "int" v⟩ }

/-- a datum with both gaps filled by junk, the optional `c_` absent -/
def wData : Val := .dict [("x", .list [.str "gap", .int 1, .none, .int 2]), ("d", .int 4), ("y", .dict [])]

def wArgs : List (String × Val) := [("d", .int 5), ("a", .int 2), ("b", .int 3), ("c_", .int 7)]

theorem wLoad_ok (mode : DebugTrail) (strict : Bool) :
    loadModel (wLoadCfg mode strict) wInp.crown wData = .ok wArgs none := by
  cases mode <;> cases strict <;> rfl

/-- dumper configuration: field dumpers that change the value (`n ↦ 10 n`) -/
def wDumpCfg (mode : DebugTrail) : DumpCfg :=
  { mode, move := .none, fields := wFields, extracted := .ok (.dict []),
    dumper := fun _ v => match v with
      | .int n => .ok (.int (n * 10))
      | _ => .error "TypeError" }

/-- an object whose `d` equals its default (omitted by the sieve) and whose `c_` equals a default that is
    not selected by omit_default (kept) -/
def wObj : List (String × Val) :=
  [("a", .int 1), ("b", .int 2), ("c_", .int 7), ("d", .int 7), ("secret", .str "s")]

def wDumped : Val :=
  .dict [("x", .list [.none, .int 10, .none, .int 20]), ("y", .dict [("c", .int 70)])]

theorem wDump_ok (mode : DebugTrail) : dumpModel (wDumpCfg mode) wOut.crown wObj = .ok wDumped := by
  cases mode <;> simp [dumpModel, wDumpCfg, wOut, wObj, wDumped, wFields, OutCrown.fieldIds, OutCrown.fieldIds.goD,
    OutCrown.fieldIds.goL, OutExtraMove.targetIds, extractFields, extractOne, Val.lookup, dumpCrown, dumpDictReq,
    dumpDictOpt, dumpList, isRequiredCrown, DumpCfg.field, sieveKeeps, Val.pyEq, List.lookup]

theorem wOut_wf (mode : DebugTrail) : wOut.crown.wf (wDumpCfg mode) = true := by cases mode <;> rfl

theorem wOut_fields (mode : DebugTrail) : ∀ id ∈ wOut.crown.fieldIds,
    ∃ f ∈ (wDumpCfg mode).fields, f.id = id ∧ f.required = ((wDumpCfg mode).field id).required := by
  intro id hid
  simp only [wOut, OutCrown.fieldIds, OutCrown.fieldIds.goD, OutCrown.fieldIds.goL, List.cons_append, List.nil_append,
    List.append_nil, List.mem_cons, List.not_mem_nil, or_false] at hid
  rcases hid with rfl | rfl | rfl | rfl <;> simp [wDumpCfg, wFields, DumpCfg.field]

/-! ### a flat dict layout with three fields and an extra-target field, for the unknown-key theorems -/

def fCfg (mode : DebugTrail) (move : InpExtraMove) : LoadCfg :=
  { mode, strict := true, move,
    fields := [{ id := "a" }, { id := "b" }, { id := "c", required := false, default := some (.int 7) },
               { id := "kw", required := false }],
    loader := fun id v => if id = "kw" then .ok v else match v with
      | .int n => .ok (.int (n + 1))
      | v => .error ⟨[], .typeLoad "int" v⟩ }

def fMap : List (String × InpCrown) := [("A", .field "a"), ("B", .field "b"), ("C", .field "c")]

/-- a dict datum holding the required keys in reverse order with `unknown` items in between -/
def fData (unknown : List (String × Val)) : Val := .dict ([("B", .int 2)] ++ unknown ++ [("A", .int 1)])

/-- two unknown items, mixed case, one of them a container -/
def fUnknown : List (String × Val) := [("zz", .int 0), ("Yy", .dict [])]

/-! ### a crown without sieves and identity codecs, for the round trip -/

def rtCrown : OutCrown :=
  .dict [("x", .list [.none .none, .field "a", .field "b"]), ("y", .dict [("c", .field "c_")] [])] []

def rtD : DumpCfg :=
  { mode := .first, move := .none, fields := wFields, extracted := .ok (.dict []), dumper := fun _ v => .ok v }

def rtL (mode : DebugTrail) (strict : Bool) : LoadCfg :=
  { mode, strict, move := .none, fields := wFields, loader := fun _ v => .ok v }

theorem rtCrown_ids (P : String → Prop) (ha : P "a") (hb : P "b") (hc : P "c_") : ∀ id ∈ rtCrown.fieldIds, P id := by
  intro id hid
  simp only [rtCrown, OutCrown.fieldIds, OutCrown.fieldIds.goD, OutCrown.fieldIds.goL, List.cons_append,
    List.nil_append, List.append_nil, List.mem_cons, List.not_mem_nil, or_false] at hid
  rcases hid with rfl | rfl | rfl <;> assumption

end Adaptix.Layout.Witness
