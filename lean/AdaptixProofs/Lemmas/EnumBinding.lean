/-
  Lemmas about the binding model (AdaptixModel/Morph/EnumBinding.lean): the retort cache only ever holds what
  the recipe search answers, so an answer does not depend on the requests made before.
  Specification-level definitions used by the theorems of Props/C18.lean.
-/
import AdaptixModel.Morph.EnumBinding
import AdaptixProofs.Lemmas.EnumSpec

namespace Adaptix.Enum

theorem Cache.mem_of_get {cache : Cache} {k : Key} {a : Option Nat} (h : cache.get k = some a) :
    (k, a) ∈ cache := by
  induction cache with
  | nil => simp [Cache.get] at h
  | cons e rest ih =>
    obtain ⟨k', a'⟩ := e
    unfold Cache.get at h
    by_cases hk : k' = k
    · simp [hk] at h
      simp [hk, h]
    · simp [hk] at h
      exact List.mem_cons_of_mem _ (ih h)

/-- every cached entry is what the recipe search answers for its request -/
def Cache.Coherent (recipe : List Bound) (cache : Cache) : Prop :=
  ∀ k a, (k, a) ∈ cache → a = selectIdx recipe k.1

theorem Cache.coherent_nil (recipe : List Bound) : Cache.Coherent recipe [] := by
  intro k a h; simp at h

theorem request_answer {recipe : List Bound} {cache : Cache} (hc : Cache.Coherent recipe cache) (k : Key) :
    (request recipe cache k).2 = selectIdx recipe k.1 := by
  unfold request
  cases hg : cache.get k with
  | none => rfl
  | some a => exact hc k a (Cache.mem_of_get hg)

theorem request_coherent {recipe : List Bound} {cache : Cache} (hc : Cache.Coherent recipe cache) (k : Key) :
    Cache.Coherent recipe (request recipe cache k).1 := by
  unfold request
  cases hg : cache.get k with
  | some a => exact hc
  | none =>
    intro k' a' hmem
    simp only [List.mem_cons] at hmem
    rcases hmem with h | h
    · cases h; rfl
    · exact hc k' a' h

theorem serve_spec {recipe : List Bound} (h : List Key) :
    ∀ {cache : Cache}, Cache.Coherent recipe cache →
      Cache.Coherent recipe (serve recipe cache h).1 ∧
      (serve recipe cache h).2 = h.map (fun k => selectIdx recipe k.1) := by
  induction h with
  | nil => intro cache hc; exact ⟨hc, rfl⟩
  | cons k rest ih =>
    intro cache hc
    have h1 := request_answer hc k
    have h2 := request_coherent hc k
    obtain ⟨ih1, ih2⟩ := ih h2
    simp only [serve, List.map_cons]
    exact ⟨ih1, by rw [h1, ih2]⟩

/-- the representation the retort serves for a request after a history of other requests -/
def servedRepr (recipe : List Bound) (h : List Key) (k : Key) : ReprProvider :=
  reprAt recipe k.1.family (request recipe (serve recipe [] h).1 k).2

end Adaptix.Enum

namespace Adaptix.Enum.C18
open Adaptix.Enum

/-- hypothesis of the round trip per representation: injective names (by name), value type covers the
    member's value (by value) -/
def EnumReprOK (c : EnumClass) (m : Member) : ReprProvider → Prop
  | .enumName cfg => InjectiveNames c cfg
  | .enumValue k => k.accepts m.value = true
  | _ => True

/-- `S`: the members whose union is dumped; the name list uses the cases the options select and needs
    injective names -/
def FlagReprOK (c : FlagClass) (S : List FlagCase) : ReprProvider → Prop
  | .flagList cfg o => InjectiveCaseNames c cfg o ∧ ∀ s ∈ S, s ∈ c.getCases o
  | _ => ∀ s ∈ S, s ∈ c.membersValues

end Adaptix.Enum.C18
