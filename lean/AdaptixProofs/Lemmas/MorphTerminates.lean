/-
  Termination of `load`: with enough fuel the fuel-indexed loader never answers `diverge`.

  `load W cfg 0 T d = .diverge`, so every statement of the form "`load … n T d` is not X" is
  trivially true at fuel 0 (and at every fuel that is too small).  This file proves that the
  fuel can always be chosen: for every world whose scalar leaves do not diverge, every mode,
  type and datum there is `N` with `load W cfg m T d ≠ .diverge` for all `m ≥ N`.

  The class table may be recursive (`class Node: next: Optional[Node]`), so the measure is
  lexicographic: (dict-nesting depth of the datum, size of the type).  A model node consumes a
  `dict` level of the datum (field values are values of the dict); every other node passes the
  datum or parts of it (never deeper in dict nesting) to strictly smaller types.
-/
import AdaptixModel.Morph.Load
import AdaptixProofs.Lemmas.MorphModesFuel

namespace Adaptix.Morph
open Adaptix.Py

/-! ### dict-nesting depth of a datum -/

mutual
  def ddVal : Val → Nat
    | .list xs => ddList xs
    | .tuple xs => ddList xs
    | .set xs => ddList xs
    | .frozenset xs => ddList xs
    | .deque xs => ddList xs
    | .iter xs => ddList xs
    | .dict kvs => ddPairs kvs + 1
    | _ => 0
  def ddList : List Val → Nat
    | [] => 0
    | x :: xs => max (ddVal x) (ddList xs)
  def ddPairs : List (Val × Val) → Nat
    | [] => 0
    | (k, v) :: rest => max (max (ddVal k) (ddVal v)) (ddPairs rest)
end

theorem ddList_mem {x : Val} : ∀ {xs : List Val}, x ∈ xs → ddVal x ≤ ddList xs
  | [], h => by cases h
  | y :: ys, h => by
    simp only [ddList]
    rcases List.mem_cons.1 h with rfl | h
    · exact Nat.le_max_left _ _
    · exact Nat.le_trans (ddList_mem h) (Nat.le_max_right _ _)

theorem ddPairs_mem {p : Val × Val} : ∀ {kvs : List (Val × Val)}, p ∈ kvs →
    ddVal p.1 ≤ ddPairs kvs ∧ ddVal p.2 ≤ ddPairs kvs
  | [], h => by cases h
  | (k, v) :: rest, h => by
    simp only [ddPairs]
    rcases List.mem_cons.1 h with rfl | h
    · exact ⟨by simp only []; omega, by simp only []; omega⟩
    · have := ddPairs_mem h
      exact ⟨by omega, by omega⟩

theorem ddPairs_keys {x : Val} {kvs : List (Val × Val)} (h : x ∈ kvs.map (·.1)) : ddVal x ≤ ddPairs kvs := by
  obtain ⟨p, hp, rfl⟩ := List.mem_map.1 h
  exact (ddPairs_mem hp).1

/-- iterating a datum never yields something nested deeper in dicts -/
theorem dd_iterElems {d : Val} {xs : List Val} (h : d.iterElems = some xs) : ∀ x ∈ xs, ddVal x ≤ ddVal d := by
  intro x hx
  cases d <;> simp only [Val.iterElems, Option.some.injEq] at h <;> try (cases h)
  all_goals (try subst h)
  · -- str
    obtain ⟨c, _, rfl⟩ := List.mem_map.1 hx
    simp [ddVal]
  · obtain ⟨c, _, rfl⟩ := List.mem_map.1 hx
    simp [ddVal]
  · obtain ⟨c, _, rfl⟩ := List.mem_map.1 hx
    simp [ddVal]
  · simpa [ddVal] using ddList_mem hx
  · simpa [ddVal] using ddList_mem hx
  · simpa [ddVal] using ddList_mem hx
  · simpa [ddVal] using ddList_mem hx
  · simpa [ddVal] using ddList_mem hx
  · have := ddPairs_keys hx
    simp only [ddVal]; omega
  · simpa [ddVal] using ddList_mem hx

theorem dd_lookup {k v : Val} : ∀ {kvs : List (Val × Val)}, Val.lookup k kvs = some v → ddVal v ≤ ddPairs kvs
  | [], h => by simp [Val.lookup] at h
  | (k', v') :: rest, h => by
    simp only [Val.lookup] at h
    simp only [ddPairs]
    split at h
    · cases h; omega
    · have := dd_lookup h; omega

/-! ### the folds do not diverge when no item does -/

theorem nd_seqDisable : ∀ (items : List (Option TrailEl × Outcome Val)),
    (∀ it ∈ items, it.2 ≠ .diverge) → seqDisable items ≠ .diverge
  | [], _ => by simp [seqDisable]
  | (el, o) :: rest, h => by
    have ho : o ≠ .diverge := h (el, o) (by simp)
    have ih := nd_seqDisable rest fun it hit => h it (by simp [hit])
    cases o with
    | ok y => simp only [seqDisable]; cases hr : seqDisable rest <;> simp_all
    | err e => simp [seqDisable]
    | escape e => simp [seqDisable]
    | diverge => exact absurd rfl ho

theorem nd_seqFirst : ∀ (items : List (Option TrailEl × Outcome Val)),
    (∀ it ∈ items, it.2 ≠ .diverge) → seqFirst items ≠ .diverge
  | [], _ => by simp [seqFirst]
  | (el, o) :: rest, h => by
    have ho : o ≠ .diverge := h (el, o) (by simp)
    have ih := nd_seqFirst rest fun it hit => h it (by simp [hit])
    cases o with
    | ok y => simp only [seqFirst]; cases hr : seqFirst rest <;> simp_all
    | err e => simp [seqFirst]
    | escape e => simp [seqFirst]
    | diverge => exact absurd rfl ho

theorem nd_sweepAll : ∀ (items : List (Option TrailEl × Outcome Val)),
    (∀ it ∈ items, it.2 ≠ .diverge) → (sweepAll items).diverged = false
  | [], _ => rfl
  | (el, o) :: rest, h => by
    have ho : o ≠ .diverge := h (el, o) (by simp)
    have ih := nd_sweepAll rest fun it hit => h it (by simp [hit])
    cases o with
    | ok y => simpa [sweepAll] using ih
    | err e => simpa [sweepAll] using ih
    | escape e => simpa [sweepAll] using ih
    | diverge => exact absurd rfl ho

theorem nd_finish (s : Sweep) (h : s.diverged = false) : s.finish ≠ .diverge := by
  unfold Sweep.finish
  simp only [h]
  (repeat' split) <;> simp_all

theorem nd_seqMode (t : DebugTrail) (items : List (Option TrailEl × Outcome Val))
    (h : ∀ it ∈ items, it.2 ≠ .diverge) : seqMode t items ≠ .diverge := by
  cases t with
  | disable => exact nd_seqDisable items h
  | first => exact nd_seqFirst items h
  | all => exact nd_finish _ (nd_sweepAll items h)

theorem nd_bindO {α β : Type} {o : Outcome α} {k : α → Outcome β} (ho : o ≠ .diverge)
    (hk : ∀ a, k a ≠ .diverge) : bindO o k ≠ .diverge := by
  cases o with
  | ok a => exact hk a
  | err e => simp [bindO]
  | escape e => simp [bindO]
  | diverge => exact absurd rfl ho

theorem nd_build (f : Factory) (xs : List Val) : f.build xs ≠ .diverge := by
  cases f <;> simp only [Factory.build] <;> (repeat' split) <;> simp

theorem nd_buildDict (vf : Bool) : ∀ (flat : List Val) (acc : List (Val × Val)), buildDict vf flat acc ≠ .diverge
  | [], acc => by simp [buildDict]
  | [_], acc => by simp [buildDict]
  | a :: b :: rest, acc => by
    simp only [buildDict]
    (repeat' split) <;> first | exact nd_buildDict vf rest _ | simp

theorem nd_idxItems {os : List (Outcome Val)} (h : ∀ o ∈ os, o ≠ .diverge) :
    ∀ it ∈ idxItems os, it.2 ≠ .diverge := by
  intro it hit
  unfold idxItems at hit
  simp only [List.mem_map, Prod.exists] at hit
  obtain ⟨o, i, hm, rfl⟩ := hit
  exact h o ((List.mem_zipIdx hm).2.2 ▸ List.getElem_mem _)

/-! ### the loaders of the providers -/

theorem nd_loadLiteral (strict : Bool) (vals : List Val) (d : Val) : loadLiteral strict vals d ≠ .diverge := by
  unfold loadLiteral
  simp only
  (repeat' split) <;> simp

theorem nd_loadIter (cfg : Cfg) (f : Factory) (elem : Val → Outcome Val) (d : Val)
    (h : ∀ xs, d.iterElems = some xs → ∀ x ∈ xs, elem x ≠ .diverge) : loadIter cfg f elem d ≠ .diverge := by
  unfold loadIter
  split
  · simp
  · cases hx : d.iterElems with
    | none => simp
    | some xs =>
      simp only
      apply nd_bindO _ (nd_build f)
      apply nd_seqMode
      apply nd_idxItems
      intro o ho
      obtain ⟨x, hxm, rfl⟩ := List.mem_map.1 ho
      exact h xs hx x hxm

theorem mem_zipApply {o : Outcome Val} : ∀ {ls : List (Val → Outcome Val)} {xs : List Val},
    o ∈ zipApply ls xs → ∃ l ∈ ls, ∃ x ∈ xs, o = l x
  | [], _, h => by simp [zipApply] at h
  | _ :: _, [], h => by simp [zipApply] at h
  | l :: ls, x :: xs, h => by
    simp only [zipApply, List.mem_cons] at h
    rcases h with rfl | h
    · exact ⟨l, by simp, x, by simp, rfl⟩
    · obtain ⟨l', hl', x', hx', hox⟩ := mem_zipApply h
      exact ⟨l', by simp [hl'], x', by simp [hx'], hox⟩

theorem nd_loadTuple (cfg : Cfg) (loaders : List (Val → Outcome Val)) (d : Val)
    (h : ∀ xs, d.iterElems = some xs → ∀ l ∈ loaders, ∀ x ∈ xs, l x ≠ .diverge) :
    loadTuple cfg loaders d ≠ .diverge := by
  unfold loadTuple
  split
  · simp
  · cases hx : d.iterElems with
    | none => simp
    | some xs =>
      simp only
      split
      · simp
      · split
        · simp
        · apply nd_bindO _ (fun _ => by simp)
          apply nd_seqMode
          apply nd_idxItems
          intro o ho
          obtain ⟨l, hl, x, hxm, rfl⟩ := mem_zipApply ho
          exact h xs hx l hl x hxm

theorem mem_dictItems {vf : Bool} {key value : Val → Outcome Val} {it : Option TrailEl × Outcome Val} :
    ∀ {kvs : List (Val × Val)}, it ∈ dictItems vf key value kvs →
      ∃ p ∈ kvs, it.2 = key p.1 ∨ it.2 = value p.2
  | [], h => by simp [dictItems] at h
  | (k, v) :: rest, h => by
    simp only [dictItems] at h
    split at h
    · simp only [List.mem_cons] at h
      rcases h with rfl | rfl | h
      · exact ⟨(k, v), by simp, .inr rfl⟩
      · exact ⟨(k, v), by simp, .inl rfl⟩
      · obtain ⟨p, hp, hh⟩ := mem_dictItems h
        exact ⟨p, by simp [hp], hh⟩
    · simp only [List.mem_cons] at h
      rcases h with rfl | rfl | h
      · exact ⟨(k, v), by simp, .inl rfl⟩
      · exact ⟨(k, v), by simp, .inr rfl⟩
      · obtain ⟨p, hp, hh⟩ := mem_dictItems h
        exact ⟨p, by simp [hp], hh⟩

theorem nd_loadDict (cfg : Cfg) (key value : Val → Outcome Val) (d : Val)
    (h : ∀ kvs, d = .dict kvs → ∀ p ∈ kvs, key p.1 ≠ .diverge ∧ value p.2 ≠ .diverge) :
    loadDict cfg key value d ≠ .diverge := by
  unfold loadDict
  split
  · rename_i kvs
    simp only
    apply nd_bindO _ (fun _ => nd_buildDict _ _ _)
    apply nd_seqMode
    intro it hit
    obtain ⟨p, hp, hh⟩ := mem_dictItems hit
    rcases hh with hh | hh
    · rw [hh]; exact (h kvs rfl p hp).1
    · rw [hh]; exact (h kvs rfl p hp).2
  · simp

theorem nd_unionFirstOk : ∀ (os : List (Outcome Val)) (errs : List LErr),
    (∀ o ∈ os, o ≠ .diverge) → (unionFirstOk os errs).1 ≠ .diverge
  | [], errs, _ => by simp [unionFirstOk]
  | o :: os, errs, h => by
    have ho : o ≠ .diverge := h o (by simp)
    cases o with
    | err e => simp only [unionFirstOk]; exact nd_unionFirstOk os _ fun o ho => h o (by simp [ho])
    | ok v => simp [unionFirstOk]
    | escape e => simp [unionFirstOk]
    | diverge => exact absurd rfl ho

theorem nd_unionAll : ∀ (os : List (Outcome Val)) (errs : List LErr) (u : Bool),
    (∀ o ∈ os, o ≠ .diverge) → unionAll os errs u ≠ .diverge
  | [], errs, u, _ => by simp only [unionAll]; split <;> simp
  | o :: os, errs, u, h => by
    have ho : o ≠ .diverge := h o (by simp)
    have ih := fun errs u => nd_unionAll os errs u fun o ho => h o (by simp [ho])
    cases o with
    | err e => simp only [unionAll]; exact ih _ _
    | ok v => simp only [unionAll]; split; exact ih _ _; simp
    | escape e => simp only [unionAll]; exact ih _ _
    | diverge => exact absurd rfl ho

theorem nd_general (cfg : Cfg) (cases : List Ty) (ld : Ty → Val → Outcome Val) (d : Val)
    (h : ∀ c ∈ cases, ld c d ≠ .diverge) : loadUnion.general cfg cases ld d ≠ .diverge := by
  have hos : ∀ o ∈ cases.map (fun c => ld c d), o ≠ .diverge := by
    intro o ho
    obtain ⟨c, hc, rfl⟩ := List.mem_map.1 ho
    exact h c hc
  unfold loadUnion.general
  simp only
  cases cfg.trail with
  | disable =>
    simp only
    have := nd_unionFirstOk _ [] hos
    generalize unionFirstOk (cases.map fun c => ld c d) [] = r at this
    obtain ⟨o, errs⟩ := r
    cases o <;> simp_all
  | first =>
    simp only
    have := nd_unionFirstOk _ [] hos
    generalize unionFirstOk (cases.map fun c => ld c d) [] = r at this
    obtain ⟨o, errs⟩ := r
    cases o <;> simp_all
  | all => exact nd_unionAll _ [] false hos

theorem nd_loadUnion (cfg : Cfg) (cases : List Ty) (ld : Ty → Val → Outcome Val) (d : Val)
    (h : ∀ c ∈ cases, ld c d ≠ .diverge) : loadUnion cfg cases ld d ≠ .diverge := by
  unfold loadUnion
  split
  · rename_i a b
    split
    · simp only
      split
      · simp
      · have hother : ld (if isNoneTy a = true then b else a) d ≠ .diverge := by
          split
          · exact h b (by simp)
          · exact h a (by simp)
        generalize ld (if isNoneTy a = true then b else a) d = o at hother
        cases cfg.trail <;> cases o <;> simp_all
    · exact nd_general cfg _ ld d h
  · exact nd_general cfg _ ld d h

theorem mem_modelItems {fl : Field → Val → Outcome Val} {kvs : List (Val × Val)} {missing : List String}
    {it : Option TrailEl × Outcome Val} :
    ∀ {fields : List Field} {reported : Bool}, it ∈ modelItems fl kvs missing fields reported →
      it.2 ≠ .diverge ∨ ∃ f ∈ fields, ∃ v, Val.lookup (.str f.name) kvs = some v ∧ it.2 = fl f v
  | [], _, h => by simp [modelItems] at h
  | f :: rest, reported, h => by
    simp only [modelItems] at h
    split at h
    · rename_i v hv
      rcases List.mem_cons.1 h with rfl | h
      · exact .inr ⟨f, by simp, v, hv, rfl⟩
      · rcases mem_modelItems h with h' | ⟨g, hg, w, hw, hh⟩
        · exact .inl h'
        · exact .inr ⟨g, by simp [hg], w, hw, hh⟩
    · have lift : ∀ {r : Bool}, it ∈ modelItems fl kvs missing rest r →
          it.2 ≠ .diverge ∨ ∃ f' ∈ f :: rest, ∃ v, Val.lookup (.str f'.name) kvs = some v ∧ it.2 = fl f' v := by
        intro r h
        rcases mem_modelItems h with h' | ⟨g, hg, w, hw, hh⟩
        · exact .inl h'
        · exact .inr ⟨g, by simp [hg], w, hw, hh⟩
      split at h
      · split at h
        · exact lift h
        · rcases List.mem_cons.1 h with rfl | h
          · exact .inl (by simp)
          · exact lift h
      · rcases List.mem_cons.1 h with rfl | h
        · exact .inl (by simp)
        · exact lift h

theorem nd_loadModel (cfg : Cfg) (cls : String) (fields : List Field) (fl : Field → Val → Outcome Val) (d : Val)
    (h : ∀ kvs, d = .dict kvs → ∀ f ∈ fields, ∀ v, Val.lookup (.str f.name) kvs = some v → fl f v ≠ .diverge) :
    loadModel cfg cls fields fl d ≠ .diverge := by
  unfold loadModel
  split
  · rename_i kvs
    apply nd_bindO _ (fun _ => by simp)
    apply nd_seqMode
    intro it hit
    rcases mem_modelItems hit with h' | ⟨f, hf, v, hv, hh⟩
    · exact h'
    · rw [hh]; exact h kvs rfl f hf v hv
  · split <;> simp

/-! ### a fuel common to finitely many sub-runs -/

theorem common_fuel {α : Type} (P : Nat → α → Prop) : ∀ (l : List α),
    (∀ a ∈ l, ∃ n, ∀ m, n ≤ m → P m a) → ∃ n, ∀ m, n ≤ m → ∀ a ∈ l, P m a
  | [], _ => ⟨0, fun _ _ a ha => by cases ha⟩
  | a :: l, h => by
    obtain ⟨n1, h1⟩ := h a (by simp)
    obtain ⟨n2, h2⟩ := common_fuel P l fun b hb => h b (by simp [hb])
    refine ⟨max n1 n2, fun m hm b hb => ?_⟩
    rcases List.mem_cons.1 hb with rfl | hb
    · exact h1 m (by omega)
    · exact h2 m (by omega) b hb

/-! ### the theorem -/

/-- the scalar leaves always answer (the translated closures do: `scalarLoadGen` returns, raises a
    LoadError or lets an exception escape) -/
def LeavesAnswer (W : World) : Prop := ∀ s name d, W.scalarLoad s name d ≠ .diverge

theorem load_terminates_aux (W : World) (hL : LeavesAnswer W) (cfg : Cfg) :
    ∀ (k j : Nat) (T : Ty) (d : Val), ddVal d ≤ k → sizeOf T ≤ j →
      ∃ n, ∀ m, n ≤ m → load W cfg m T d ≠ .diverge := by
  intro k
  induction k using Nat.strongRecOn with
  | _ k ihk =>
    intro j
    induction j with
    | zero => intro T d _ hj; cases T <;> simp at hj
    | succ j ih =>
      intro T d hd hj
      cases T with
      | scalar s => exact ⟨1, fun m hm => by obtain ⟨m', rfl⟩ : ∃ m', m = m' + 1 := ⟨m - 1, by omega⟩; exact hL _ _ _⟩
      | any => exact ⟨1, fun m hm => by obtain ⟨m', rfl⟩ : ∃ m', m = m' + 1 := ⟨m - 1, by omega⟩; simp [load]⟩
      | literal vals =>
        exact ⟨1, fun m hm => by
          obtain ⟨m', rfl⟩ : ∃ m', m = m' + 1 := ⟨m - 1, by omega⟩
          exact nd_loadLiteral _ _ _⟩
      | union cases keys =>
        have hc : ∀ c ∈ cases, ∃ n, ∀ m, n ≤ m → load W cfg m c d ≠ .diverge := fun c hc =>
          ih c d hd (by have := List.sizeOf_lt_of_mem hc; simp at hj; omega)
        obtain ⟨N, hN⟩ := common_fuel (fun m c => load W cfg m c d ≠ .diverge) cases hc
        exact ⟨N + 1, fun m hm => by
          obtain ⟨m', rfl⟩ : ∃ m', m = m' + 1 := ⟨m - 1, by omega⟩
          exact nd_loadUnion cfg cases _ d (hN m' (by omega))⟩
      | iter f dl e =>
        have hx : ∀ x ∈ d.iterElems.getD [], ∃ n, ∀ m, n ≤ m → load W cfg m e x ≠ .diverge := by
          intro x hx
          cases hi : d.iterElems with
          | none => simp [hi] at hx
          | some xs =>
            simp [hi] at hx
            exact ih e x (Nat.le_trans (dd_iterElems hi x hx) hd) (by simp at hj; omega)
        obtain ⟨N, hN⟩ := common_fuel (fun m x => load W cfg m e x ≠ .diverge) _ hx
        exact ⟨N + 1, fun m hm => by
          obtain ⟨m', rfl⟩ : ∃ m', m = m' + 1 := ⟨m - 1, by omega⟩
          exact nd_loadIter cfg f _ d fun xs hxs x hxm => hN m' (by omega) x (by simp [hxs, hxm])⟩
      | tuple es =>
        have ht : ∀ t ∈ es, ∃ n, ∀ m, n ≤ m → ∀ x ∈ d.iterElems.getD [], load W cfg m t x ≠ .diverge := by
          intro t ht
          apply common_fuel (fun m x => load W cfg m t x ≠ .diverge)
          intro x hx
          cases hi : d.iterElems with
          | none => simp [hi] at hx
          | some xs =>
            simp [hi] at hx
            exact ih t x (Nat.le_trans (dd_iterElems hi x hx) hd)
              (by have := List.sizeOf_lt_of_mem ht; simp at hj; omega)
        obtain ⟨N, hN⟩ := common_fuel
          (fun m t => ∀ x ∈ d.iterElems.getD [], load W cfg m t x ≠ .diverge) es ht
        exact ⟨N + 1, fun m hm => by
          obtain ⟨m', rfl⟩ : ∃ m', m = m' + 1 := ⟨m - 1, by omega⟩
          refine nd_loadTuple cfg _ d fun xs hxs l hl x hxm => ?_
          obtain ⟨t, ht', rfl⟩ := List.mem_map.1 hl
          exact hN m' (by omega) t ht' x (by simp [hxs, hxm])⟩
      | dict kt vt =>
        have hp : ∀ p ∈ (match d with | .dict kvs => kvs | _ => []),
            ∃ n, ∀ m, n ≤ m → load W cfg m kt p.1 ≠ .diverge ∧ load W cfg m vt p.2 ≠ .diverge := by
          intro p hp
          cases d with
          | dict kvs =>
            simp only at hp
            have hdd := ddPairs_mem hp
            simp only [ddVal] at hd
            obtain ⟨n1, h1⟩ := ih kt p.1 (by omega) (by simp at hj; omega)
            obtain ⟨n2, h2⟩ := ih vt p.2 (by omega) (by simp at hj; omega)
            exact ⟨max n1 n2, fun m hm => ⟨h1 m (by omega), h2 m (by omega)⟩⟩
          | _ => simp at hp
        obtain ⟨N, hN⟩ := common_fuel
          (fun m (p : Val × Val) => load W cfg m kt p.1 ≠ .diverge ∧ load W cfg m vt p.2 ≠ .diverge) _ hp
        exact ⟨N + 1, fun m hm => by
          obtain ⟨m', rfl⟩ : ∃ m', m = m' + 1 := ⟨m - 1, by omega⟩
          refine nd_loadDict cfg _ _ d fun kvs hkvs p hpm => ?_
          subst hkvs
          exact hN m' (by omega) p hpm⟩
      | model cls =>
        cases hc : W.classes cls with
        | none => exact ⟨1, fun m hm => by
            obtain ⟨m', rfl⟩ : ∃ m', m = m' + 1 := ⟨m - 1, by omega⟩
            simp [load, hc]⟩
        | some fields =>
          have hf : ∀ f ∈ fields, ∃ n, ∀ m, n ≤ m →
              ∀ kvs, d = .dict kvs → ∀ v, Val.lookup (.str f.name) kvs = some v →
                load W cfg m f.ty v ≠ .diverge := by
            intro f _
            cases d with
            | dict kvs =>
              cases hl : Val.lookup (.str f.name) kvs with
              | none => exact ⟨0, fun m _ kvs' h v hv => by cases h; rw [hl] at hv; cases hv⟩
              | some v =>
                have hdv := dd_lookup hl
                simp only [ddVal] at hd
                obtain ⟨n, hn⟩ := ihk (ddPairs kvs) (by omega) (sizeOf f.ty) f.ty v hdv (Nat.le_refl _)
                exact ⟨n, fun m hm kvs' h v' hv' => by
                  cases h; rw [hl] at hv'; cases hv'; exact hn m hm⟩
            | _ => exact ⟨0, fun m _ kvs h => by cases h⟩
          obtain ⟨N, hN⟩ := common_fuel
            (fun m (f : Field) => ∀ kvs, d = .dict kvs → ∀ v, Val.lookup (.str f.name) kvs = some v →
              load W cfg m f.ty v ≠ .diverge) fields hf
          exact ⟨N + 1, fun m hm => by
            obtain ⟨m', rfl⟩ : ∃ m', m = m' + 1 := ⟨m - 1, by omega⟩
            simp only [load, hc]
            exact nd_loadModel cfg cls fields _ d fun kvs hkvs f hfm v hv =>
              hN m' (by omega) f hfm kvs hkvs v hv⟩

/-- **`load` terminates**: whatever the class table (recursive or not), mode, type and datum,
    from some fuel on the loader never answers `diverge`. -/
theorem load_terminates (W : World) (hL : LeavesAnswer W) (cfg : Cfg) (T : Ty) (d : Val) :
    ∃ N, ∀ m, N ≤ m → load W cfg m T d ≠ .diverge :=
  load_terminates_aux W hL cfg (ddVal d) (sizeOf T) T d (Nat.le_refl _) (Nat.le_refl _)

end Adaptix.Morph
