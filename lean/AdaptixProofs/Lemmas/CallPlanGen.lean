/-
  C08 lemmas: the shape of the argument list `_gen_constructor_call` emits.
-/
import AdaptixProofs.Lemmas.CallPlanBind

namespace Adaptix.CallPlan

variable {V : Type}

theorem field?_id {s : Shape} {x : String} {f : Field} (h : s.field? x = some f) : f.id = x := by
  have := List.find?_some h
  simpa using this

/-- the parameter's field is skipped by the name layout -/
def skippedP (s : Shape) (c : Cfg) (p : Param) : Bool :=
  match s.field? p.fieldId with
  | some f => c.skipped.contains f.id
  | Option.none => false

/-- the parameter's field is packed (and not skipped) -/
def packedP (s : Shape) (c : Cfg) (p : Param) : Bool :=
  match s.field? p.fieldId with
  | some f => !c.skipped.contains f.id && isPacked c f
  | Option.none => false

/-- the parameter is passed explicitly in the call -/
def passed (s : Shape) (c : Cfg) (p : Param) : Bool :=
  match s.field? p.fieldId with
  | some f => !c.skipped.contains f.id && !isPacked c f
  | Option.none => false

/-- passed, and positionally while nothing has been left out before it -/
def good (s : Shape) (c : Cfg) (p : Param) : Bool := passed s c p && p.kind != .kwOnly

def kwT (p : Param) : ArgT := .kw p.name p.fieldId
def posT (p : Param) : ArgT := .pos p.fieldId

theorem passed_of {s : Shape} {c : Cfg} {p : Param} {f : Field} (hfield : s.field? p.fieldId = some f) :
    passed s c p = (!c.skipped.contains f.id && !isPacked c f) := by
  unfold passed; rw [hfield]

theorem map_ok_cons {ε α : Type} (a : α) (l : List α) :
    (Except.ok l : Except ε (List α)).map (a :: ·) = .ok (a :: l) := rfl

/-- once the call has switched to keywords (a parameter was left out, or only
    keyword-only parameters remain) every passed parameter is a keyword argument;
    holds for the code before and after the fix -/
theorem genParams_kwMode (fix : Bool) (s : Shape) (c : Cfg) :
    ∀ (ps : List Param) (hs : Bool), (hs = true ∨ ∀ p ∈ ps, p.kind = .kwOnly) →
      (∀ p ∈ ps, (s.field? p.fieldId).isSome = true) →
      genParams fix s c hs ps = .ok ((ps.filter (passed s c)).map kwT) := by
  intro ps
  induction ps with
  | nil => intro hs _ _; rfl
  | cons p ps ih =>
    intro hs hmode hf
    have hfp := hf p (List.mem_cons_self ..)
    have hf' : ∀ q ∈ ps, (s.field? q.fieldId).isSome = true := fun q hq => hf q (List.mem_cons_of_mem _ hq)
    cases hfield : s.field? p.fieldId with
    | none => rw [hfield] at hfp; cases hfp
    | some f =>
      have hid := field?_id hfield
      have hpassed := passed_of (c := c) hfield
      unfold genParams
      rw [hfield]
      simp only []
      cases hsk : c.skipped.contains f.id with
      | true =>
        rw [hsk] at hpassed
        simp only [if_true]
        rw [ih true (Or.inl rfl) hf', List.filter_cons]
        simp [hpassed]
      | false =>
        rw [hsk] at hpassed
        simp only [Bool.false_eq_true, if_false]
        cases hpk : isPacked c f with
        | true =>
          rw [hpk] at hpassed
          have hmode' : ((hs || fix) = true ∨ ∀ q ∈ ps, q.kind = .kwOnly) := by
            rcases hmode with h | h
            · left; simp [h]
            · right; exact fun q hq => h q (List.mem_cons_of_mem _ hq)
          simp only [if_true]
          rw [ih (hs || fix) hmode' hf', List.filter_cons]
          simp [hpassed]
        | false =>
          rw [hpk] at hpassed
          have hkw : (p.kind == Kind.kwOnly || hs) = true := by
            rcases hmode with h | h
            · simp [h]
            · simp [h p (List.mem_cons_self ..)]
          have hmode' : (hs = true ∨ ∀ q ∈ ps, q.kind = .kwOnly) := by
            rcases hmode with h | h
            · exact Or.inl h
            · exact Or.inr (fun q hq => h q (List.mem_cons_of_mem _ hq))
          simp only [Bool.false_eq_true, if_false, hkw, if_true]
          rw [ih hs hmode' hf', List.filter_cons, map_ok_cons]
          simp [hpassed, kwT, hid]

theorem kind_kwOnly_of_le {k : Kind} (h : Kind.kwOnly.value ≤ k.value) : k = .kwOnly := by
  cases k <;> simp [Kind.value] at h ⊢

/-- **Shape of the emitted call (repaired code)**: positional arguments for
    the longest prefix of parameters that are all passed and not keyword-only,
    keywords for every later passed parameter. -/
theorem genParams_shape (s : Shape) (c : Cfg) :
    ∀ (ps : List Param), ps.Pairwise (fun a b => a.kind.value ≤ b.kind.value) →
      (∀ p ∈ ps, (s.field? p.fieldId).isSome = true) →
      genParams true s c false ps =
        .ok ((ps.takeWhile (good s c)).map posT ++ ((ps.dropWhile (good s c)).filter (passed s c)).map kwT) := by
  intro ps
  induction ps with
  | nil => intro _ _; rfl
  | cons p ps ih =>
    intro hsorted hf
    have hfp := hf p (List.mem_cons_self ..)
    have hf' : ∀ q ∈ ps, (s.field? q.fieldId).isSome = true := fun q hq => hf q (List.mem_cons_of_mem _ hq)
    obtain ⟨hhead, htail⟩ := List.pairwise_cons.mp hsorted
    cases hfield : s.field? p.fieldId with
    | none => rw [hfield] at hfp; cases hfp
    | some f =>
      have hid := field?_id hfield
      have hpassed := passed_of (c := c) hfield
      unfold genParams
      rw [hfield]
      simp only []
      cases hsk : c.skipped.contains f.id with
      | true =>
        rw [hsk] at hpassed
        have hg : good s c p = false := by simp [good, hpassed]
        simp only [if_true]
        rw [genParams_kwMode true s c ps true (Or.inl rfl) hf', List.takeWhile_cons, List.dropWhile_cons,
          hg]
        simp [List.filter_cons, hpassed]
      | false =>
        rw [hsk] at hpassed
        simp only [Bool.false_eq_true, if_false]
        cases hpk : isPacked c f with
        | true =>
          rw [hpk] at hpassed
          have hg : good s c p = false := by simp [good, hpassed]
          simp only [if_true, Bool.or_true]
          rw [genParams_kwMode true s c ps true (Or.inl rfl) hf', List.takeWhile_cons, List.dropWhile_cons,
            hg]
          simp [List.filter_cons, hpassed]
        | false =>
          rw [hpk] at hpassed
          simp only [Bool.false_eq_true, if_false, Bool.or_false, Bool.and_false]
          by_cases hk : p.kind = .kwOnly
          · have hg : good s c p = false := by simp [good, hk]
            have hall : ∀ q ∈ ps, q.kind = .kwOnly := fun q hq =>
              kind_kwOnly_of_le (by have := hhead q hq; rw [hk] at this; exact this)
            have hk' : (p.kind == Kind.kwOnly) = true := by simp [hk]
            simp only [hk', if_true]
            rw [genParams_kwMode true s c ps false (Or.inr hall) hf', List.takeWhile_cons, List.dropWhile_cons,
              hg, map_ok_cons]
            simp [List.filter_cons, hpassed, kwT, hid]
          · have hk' : (p.kind == Kind.kwOnly) = false := by simpa using hk
            have hg : good s c p = true := by simp [good, hpassed, hk]
            simp only [hk', Bool.false_eq_true, if_false]
            rw [ih htail hf', List.takeWhile_cons, List.dropWhile_cons, hg, map_ok_cons]
            simp [posT, hid]

end Adaptix.CallPlan
