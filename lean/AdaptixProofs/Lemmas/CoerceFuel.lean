/-
  C14 helper lemmas: an answer other than `outOfFuel` does not depend on the fuel.
-/
import AdaptixProofs.Lemmas.CoerceBasic

namespace Adaptix.Conv

/-- `r2` agrees with `r1` wherever `r1` did not run out of fuel -/
def Extends (r1 r2 : Ty → Ty → Answer) : Prop :=
  ∀ s d, r1 s d ≠ .outOfFuel → r2 s d = r1 s d

theorem mandatory_mono {a1 a2 : Answer} {k : Coercer → Step}
    (h : a1 ≠ .outOfFuel → a2 = a1) (hne : mandatory a1 k ≠ .outOfFuel) :
    mandatory a2 k = mandatory a1 k := by
  cases a1 with
  | outOfFuel => simp [mandatory] at hne
  | ok c => rw [h (by simp)]
  | notFound => rw [h (by simp)]

theorem planFields_mono {r1 r2 : Ty → Ty → Answer} (hext : Extends r1 r2) (policy : Field → Bool)
    (sfs : List Field) : ∀ ds, planFields r1 policy sfs ds ≠ none →
      planFields r2 policy sfs ds = planFields r1 policy sfs ds
  | [], _ => by simp [planFields]
  | d :: ds, hne => by
    unfold planFields at hne ⊢
    split
    · split
      · rfl
      · split
        · rename_i hnone hreq hallowed
          simp only [hnone, hreq, hallowed] at hne
          have hrec : planFields r1 policy sfs ds ≠ none := by
            intro hc; rw [hc] at hne; simp at hne
          rw [planFields_mono hext policy sfs ds hrec]
        · rfl
    · rename_i s hs
      simp only [hs] at hne
      cases h1 : r1 s.ty d.ty with
      | outOfFuel => simp [h1] at hne
      | notFound =>
        rw [hext _ _ (by rw [h1]; simp), h1]
      | ok c =>
        rw [hext _ _ (by rw [h1]; simp), h1]
        simp only [h1] at hne
        have hrec : planFields r1 policy sfs ds ≠ none := by
          intro hc; rw [hc] at hne; simp at hne
        rw [planFields_mono hext policy sfs ds hrec]

theorem step_mono {r1 r2 : Ty → Ty → Answer} (hext : Extends r1 r2) (cfg : Cfg) (src dst : Ty)
    (p : Prov) (hne : step r1 cfg src dst p ≠ .outOfFuel) :
    step r2 cfg src dst p = step r1 cfg src dst p := by
  cases p with
  | sameType => rfl
  | dstAny => rfl
  | unionSubcase => rfl
  | subclass => rfl
  | model =>
    simp only [step, stepModel] at hne ⊢
    split
    · split
      · rename_i sc sa dc da _ _ sfs dfs hss hds
        simp only [hss, hds] at hne
        have hrec : planFields r1 (cfg.policy.allowed dc) sfs dfs ≠ none := by
          intro hc; rw [hc] at hne; simp at hne
        rw [planFields_mono hext (cfg.policy.allowed dc) sfs dfs hrec]
      · rfl
    · rfl
  | iterable =>
    simp only [step, stepIterable] at hne ⊢
    cases hs : parseIterSrc src with
    | none => rfl
    | some se =>
      cases hd : parseIterDst dst with
      | none => rfl
      | some fd =>
        obtain ⟨f, de⟩ := fd
        simp only [hs, hd] at hne ⊢
        exact mandatory_mono (hext _ _) hne
  | dict =>
    simp only [step, stepDict] at hne ⊢
    cases hs : parseDictSrc src with
    | none => rfl
    | some skv =>
      obtain ⟨sk, sv⟩ := skv
      cases hd : parseDictDst dst with
      | none => rfl
      | some dkv =>
        obtain ⟨dk, dv⟩ := dkv
        simp only [hs, hd] at hne ⊢
        cases h1 : r1 sk dk with
        | outOfFuel => simp [h1, mandatory] at hne
        | notFound => rw [hext _ _ (by rw [h1]; simp), h1]; rfl
        | ok kc =>
          rw [hext _ _ (by rw [h1]; simp), h1]
          simp only [h1, mandatory] at hne ⊢
          exact mandatory_mono (hext _ _) hne
  | optional =>
    simp only [step, stepOptional] at hne ⊢
    by_cases hopt : (isOptional dst && isOptional src) = true
    · simp only [hopt, if_true] at hne ⊢
      cases hgs : getNotNone src with
      | none => rfl
      | some s =>
        cases hgd : getNotNone dst with
        | none => rfl
        | some d =>
          simp only [hgs, hgd] at hne ⊢
          exact mandatory_mono (hext _ _) hne
    · simp [hopt]
  | unwrap =>
    simp only [step, stepUnwrap] at hne ⊢
    split
    · rfl
    · rename_i hcond
      simp only [hcond] at hne
      cases h1 : r1 (stripTags src) (stripTags dst) with
      | outOfFuel => simp [h1] at hne
      | notFound => rw [hext _ _ (by rw [h1]; simp), h1]
      | ok c => rw [hext _ _ (by rw [h1]; simp), h1]

theorem runRecipe_mono {f1 f2 : Prov → Step} (h : ∀ p, f1 p ≠ .outOfFuel → f2 p = f1 p) :
    ∀ ps, runRecipe f1 ps ≠ .outOfFuel → runRecipe f2 ps = runRecipe f1 ps
  | [], _ => rfl
  | p :: ps, hne => by
    unfold runRecipe at hne ⊢
    cases h1 : f1 p with
    | outOfFuel => simp [h1] at hne
    | ok c => rw [h p (by rw [h1]; simp), h1]
    | fail => rw [h p (by rw [h1]; simp), h1]
    | skip =>
      rw [h p (by rw [h1]; simp), h1]
      simp only [h1] at hne
      exact runRecipe_mono h ps hne

theorem provide_extends (cfg : Cfg) : ∀ n, Extends (provide cfg n) (provide cfg (n + 1))
  | 0 => by intro s d h; simp [provide] at h
  | n + 1 => by
    intro s d hne
    have ih := provide_extends cfg n
    show runRecipe (step (provide cfg (n + 1)) cfg s d) cfg.recipe
        = runRecipe (step (provide cfg n) cfg s d) cfg.recipe
    exact runRecipe_mono (fun p hp => step_mono ih cfg s d p hp) cfg.recipe hne

end Adaptix.Conv
