import AdaptixProofs.Lemmas.Threads

/-
  Every compiled request program is balanced: each stub the request creates is bound before the request returns
  (the outer occurrence of a location always answers after the inner ones).
-/
namespace Adaptix.Threads

theorem foldl_openStep_pre (nd : Node) (o : List Loc) : (preInstrs nd).foldl openStep o = o := by
  unfold preInstrs
  induction nd.pre with
  | nil => rfl
  | cons p ps ih => simpa [List.foldl_cons, openStep] using ih

/-- `provide` returns exactly the resolver domain its code produces, and only locations that are still on the
    stack can stay open. -/
theorem provide_spec (G : Graph) : ∀ (f : Nat) (stack : List Loc) (loc : Loc) (opened : List Loc),
    (provide G f stack loc opened).1.foldl openStep opened = (provide G f stack loc opened).2 ∧
    ∀ l ∈ (provide G f stack loc opened).2, l ∈ opened ∨ l ∈ stack := by
  intro f
  induction f with
  | zero => intro stack loc opened; simp only [provide, List.foldl_nil, true_and]; exact fun l hl => Or.inl hl
  | succ f ih =>
    intro stack loc opened
    unfold provide
    simp only
    split
    · -- a stub is handed out
      rename_i hcount
      have hmem : loc ∈ stack := by
        have : List.count loc stack ≠ 0 := by
          simp only [List.count_cons_self, bne_iff_ne, ne_eq] at hcount
          omega
        exact List.count_pos_iff.mp (Nat.pos_of_ne_zero this)
      refine ⟨by simp [openStep], ?_⟩
      intro l hl
      split at hl
      · exact Or.inl hl
      · rcases List.mem_cons.mp hl with hl | hl
        · rw [hl]; exact Or.inr hmem
        · exact Or.inl hl
    · -- the provider of the type answers
      have hfold : ∀ (cs : List Loc) (acc : List Instr × List Loc),
          acc.1.foldl openStep opened = acc.2 → (∀ l ∈ acc.2, l ∈ opened ∨ l ∈ loc :: stack) →
          (cs.foldl (fun (acc : List Instr × List Loc) c =>
              ((acc.1 ++ (provide G f (loc :: stack) c acc.2).1, (provide G f (loc :: stack) c acc.2).2)))
            acc).1.foldl openStep opened =
          (cs.foldl (fun (acc : List Instr × List Loc) c =>
              ((acc.1 ++ (provide G f (loc :: stack) c acc.2).1, (provide G f (loc :: stack) c acc.2).2)))
            acc).2 ∧
          ∀ l ∈ (cs.foldl (fun (acc : List Instr × List Loc) c =>
              ((acc.1 ++ (provide G f (loc :: stack) c acc.2).1, (provide G f (loc :: stack) c acc.2).2)))
            acc).2, l ∈ opened ∨ l ∈ loc :: stack := by
        intro cs
        induction cs with
        | nil => intro acc h1 h2; exact ⟨h1, h2⟩
        | cons c cs ihc =>
          intro acc h1 h2
          simp only [List.foldl_cons]
          obtain ⟨h3, h4⟩ := ih (loc :: stack) c acc.2
          apply ihc
          · simp only [List.foldl_append, h1]; exact h3
          · intro l hl
            rcases h4 l hl with h | h
            · exact h2 l h
            · exact Or.inr h
      obtain ⟨h1, h2⟩ := hfold (G.node (G.locTy loc)).children ([], opened) rfl (fun l hl => Or.inl hl)
      split
      · rename_i hc
        constructor
        · simp only [List.foldl_append, foldl_openStep_pre, h1, List.foldl_cons, List.foldl_nil, openStep]
        · intro l hl
          simp only [List.mem_filter, bne_iff_ne, ne_eq] at hl
          rcases h2 l hl.1 with h | h
          · exact Or.inl h
          · rcases List.mem_cons.mp h with h | h
            · exact absurd h hl.2
            · exact Or.inr h
      · rename_i hc
        constructor
        · simp only [List.foldl_append, foldl_openStep_pre, h1, List.foldl_cons, List.foldl_nil, openStep]
        · intro l hl
          rcases h2 l hl with h | h
          · exact Or.inl h
          · rcases List.mem_cons.mp h with h | h
            · rw [h] at hl
              simp only [List.contains_eq_mem, decide_eq_true_eq] at hc
              exact absurd hl hc
            · exact Or.inr h

theorem compile_balanced (G : Graph) (fuel : Nat) (ty : TyId) : balanced (compile G fuel ty) = true := by
  unfold balanced compile
  obtain ⟨h1, h2⟩ := provide_spec G fuel [] (G.topLoc ty) []
  rw [h1]
  cases h : (provide G fuel [] (G.topLoc ty) []).2 with
  | nil => rfl
  | cons l ls =>
    have := h2 l (by rw [h]; exact List.mem_cons_self)
    simp at this

end Adaptix.Threads
