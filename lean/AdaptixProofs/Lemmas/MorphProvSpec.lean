/-
  C20 specification vocabulary (definitions only, no proofs about the loaders):
  typed positions inside a result, the "documented as-is" witnesses and the
  per-node clauses of the freshness theorems.  None of this mentions `loadP` /
  `dumpP`: positions are defined from the *type* and the *result tree* alone.
-/
import AdaptixModel.Morph.Prov

namespace Adaptix.Morph
open Adaptix.Py

/-- what a position inside a loaded value is declared as -/
inductive Slot where
  | ty (T : Ty)                       -- a position of declared type `T`
  | dflt (cls : String) (f : Field)   -- the default of the optional field `f` of model class `cls`

/-- `LPos W T p S q`: inside the loaded value `p` of declared type `T`, the sub-value `q`
    occupies slot `S`.  (Union: the position belongs to some case.) -/
inductive LPos (W : World) : Ty → PVal → Slot → PVal → Prop
  | here (T : Ty) (p : PVal) : LPos W T p (.ty T) p
  | iter {f : Factory} {dl : Bool} {elem : Ty} {pr : Prov} {sh : Shape} {kids : List PVal} {q : PVal}
      {S : Slot} {r : PVal} :
      q ∈ kids → LPos W elem q S r → LPos W (.iter f dl elem) (.node pr sh kids) S r
  | tuple {elems : List Ty} {pr : Prov} {sh : Shape} {kids : List PVal} {E : Ty} {q : PVal}
      {S : Slot} {r : PVal} :
      (E, q) ∈ elems.zip kids → LPos W E q S r → LPos W (.tuple elems) (.node pr sh kids) S r
  | dictKey {k v : Ty} {pr : Prov} {sh : Shape} {kids : List PVal} {q q' : PVal} {S : Slot} {r : PVal} :
      (q, q') ∈ pairUp kids → LPos W k q S r → LPos W (.dict k v) (.node pr sh kids) S r
  | dictVal {k v : Ty} {pr : Prov} {sh : Shape} {kids : List PVal} {q q' : PVal} {S : Slot} {r : PVal} :
      (q', q) ∈ pairUp kids → LPos W v q S r → LPos W (.dict k v) (.node pr sh kids) S r
  | union {cases : List Ty} {keys : List String} {c : Ty} {p : PVal} {S : Slot} {r : PVal} :
      c ∈ cases → LPos W c p S r → LPos W (.union cases keys) p S r
  | field {cls : String} {fields : List Field} {f : Field} {pr : Prov} {sh : Shape} {kids : List PVal}
      {q : PVal} {S : Slot} {r : PVal} :
      W.classes cls = some fields → (f, q) ∈ fields.zip kids → LPos W f.ty q S r →
      LPos W (.model cls) (.node pr sh kids) S r
  | default {cls : String} {fields : List Field} {f : Field} {pr : Prov} {sh : Shape} {kids : List PVal}
      {q : PVal} :
      W.classes cls = some fields → (f, q) ∈ fields.zip kids → f.required = false →
      LPos W (.model cls) (.node pr sh kids) (.dflt cls f) q

/-- the loader of this position is documented to hand the datum through:
    `Any`/`object`; `Literal[...]` (`return data`); a scalar leaf whose result is the datum
    (`int`/`str`/`bool`/`None` strict loaders, `float(data)` of a float, …); `return None` of
    `Optional[...]` when the datum is None. -/
inductive AsIsLoad (W : World) (cfg : Cfg) : Ty → PVal → Prop
  | any (q : PVal) : AsIsLoad W cfg .any q
  | literal {vs : List Val} {q : PVal} :
      loadLiteral cfg.strict vs q.erase = .ok q.erase → AsIsLoad W cfg (.literal vs) q
  | scalar {s : String} {d : Val} {q : PVal} :
      W.scalarLoad cfg.strict s d = .ok q.erase → Val.same q.erase d = true → AsIsLoad W cfg (.scalar s) q
  | optNone {cases : List Ty} {keys : List String} {q : PVal} :
      q.erase = .none → AsIsLoad W cfg (.union cases keys) q

/-- the C20 clause for one node of a loaded value `p : T` -/
def LoadClause (W : World) (cfg : Cfg) (dp : String → String → Prov) (T : Ty) (p node : PVal) : Prop :=
  node.prov = .fresh
  ∨ (node.prov = .arg ∧ ∃ T' q, LPos W T p (.ty T') q ∧ AsIsLoad W cfg T' q
        ∧ q = PVal.ofVal .arg q.erase ∧ node ∈ q.nodes)
  ∨ (node.prov = .const ∧ ∃ cls f q, LPos W T p (.dflt cls f) q ∧ dp cls f.name = .const
        ∧ q = PVal.ofVal .const f.default ∧ node ∈ q.nodes)

/-- `DPos W T p T' q`: inside the dumped value `p` of a `T`, the sub-value `q` is the dump of a
    position declared `T'` (a dumped model is a dict whose keys are the field-name constants) -/
inductive DPos (W : World) : Ty → PVal → Ty → PVal → Prop
  | here (T : Ty) (p : PVal) : DPos W T p T p
  | iter {f : Factory} {dl : Bool} {elem : Ty} {pr : Prov} {sh : Shape} {kids : List PVal} {q : PVal}
      {T' : Ty} {r : PVal} :
      q ∈ kids → DPos W elem q T' r → DPos W (.iter f dl elem) (.node pr sh kids) T' r
  | tuple {elems : List Ty} {pr : Prov} {sh : Shape} {kids : List PVal} {E : Ty} {q : PVal}
      {T' : Ty} {r : PVal} :
      (E, q) ∈ elems.zip kids → DPos W E q T' r → DPos W (.tuple elems) (.node pr sh kids) T' r
  | dictKey {k v : Ty} {pr : Prov} {sh : Shape} {kids : List PVal} {q q' : PVal} {T' : Ty} {r : PVal} :
      (q, q') ∈ pairUp kids → DPos W k q T' r → DPos W (.dict k v) (.node pr sh kids) T' r
  | dictVal {k v : Ty} {pr : Prov} {sh : Shape} {kids : List PVal} {q q' : PVal} {T' : Ty} {r : PVal} :
      (q', q) ∈ pairUp kids → DPos W v q T' r → DPos W (.dict k v) (.node pr sh kids) T' r
  | union {cases : List Ty} {keys : List String} {c : Ty} {p : PVal} {T' : Ty} {r : PVal} :
      c ∈ cases → DPos W c p T' r → DPos W (.union cases keys) p T' r
  | field {cls : String} {fields : List Field} {f : Field} {pr : Prov} {sh : Shape} {kids : List PVal}
      {q : PVal} {T' : Ty} {r : PVal} :
      W.classes cls = some fields → f ∈ fields →
      (PVal.node .const (.str f.name) [], q) ∈ pairUp kids → DPos W f.ty q T' r →
      DPos W (.model cls) (.node pr sh kids) T' r

/-- the dumper of this position hands the object through: `Any`/`object`, `Literal` (`as_is_stub`),
    a scalar whose dumper is the identity (`as_is_dumper`), and in a Union the `None` fast path and
    the `if data in literal_cases: return data` branch -/
inductive AsIsDump (W : World) : Ty → PVal → Prop
  | any (q : PVal) : AsIsDump W .any q
  | literal (vs : List Val) (q : PVal) : AsIsDump W (.literal vs) q
  | scalar {s : String} {x : Val} {q : PVal} :
      W.scalarDump s x = .ok q.erase → Val.same q.erase x = true → AsIsDump W (.scalar s) q
  | optNone {cases : List Ty} {keys : List String} {q : PVal} :
      q.erase = .none → AsIsDump W (.union cases keys) q
  | unionLiteral {cases : List Ty} {keys : List String} {vs : List Val} {q : PVal} :
      literalVals cases = some vs → Val.memOf q.erase vs = true → AsIsDump W (.union cases keys) q

/-- the C20 clause for one node of a dumped value -/
def DumpClause (W : World) (T : Ty) (p node : PVal) : Prop :=
  node.prov = .fresh
  ∨ (node.prov = .arg ∧ ∃ T' q, DPos W T p T' q ∧ AsIsDump W T' q
        ∧ q = PVal.ofVal .arg q.erase ∧ node ∈ q.nodes)
  ∨ (node.prov = .const ∧ ∃ name, node = PVal.node .const (.str name) [])

/-- members a `Literal[...]` has in the model (`Ty.literal`: None/bool/int/str) -/
def litScalar : Val → Bool
  | .none | .bool _ | .int _ | .str _ => true
  | _ => false

end Adaptix.Morph
