import AdaptixProofs.Lemmas.Threads

/-
  Why the call may be one atomic action of the model: closures are immutable and a stub target only ever changes
  from unbound to bound (`Ext`), so a call that succeeds on the state at its start returns the same value on every
  later state -- reading the stubs later, one by one, cannot change the outcome.
-/
namespace Adaptix.Threads

theorem seqRes_ok_all (tag : Nat) : ∀ (l : List Res) (acc o : List Nat), seqRes tag l acc = .ok o →
    ∀ r ∈ l, ∃ o', r = .ok o'
  | [], _, _, _, _, h => by cases h
  | r :: rest, acc, o, h, r', hr' => by
    cases r with
    | ok o1 =>
      simp only [seqRes] at h
      rcases List.mem_cons.mp hr' with hr' | hr'
      · exact ⟨o1, hr'⟩
      · exact seqRes_ok_all tag rest _ o h r' hr'
    | unbound => simp [seqRes] at h
    | stubChain => simp [seqRes] at h
    | outOfFuel => simp [seqRes] at h
    | dangling => simp [seqRes] at h
    | notFound => simp [seqRes] at h

theorem evalNode_ok_stable {heap heap' : List CloData} {rec rec' : Nat → Ref → Res} {d j : Nat} {o : List Nat}
    (hheap : ∀ cd, heap[j]? = some cd → heap'[j]? = some cd)
    (hrec : ∀ d' a o', rec d' a = .ok o' → rec' d' a = .ok o')
    (h : evalNode heap rec d j = .ok o) : evalNode heap' rec' d j = .ok o := by
  unfold evalNode at h ⊢
  cases hj : heap[j]? with
  | none => rw [hj] at h; cases h
  | some cd =>
    rw [hj] at h
    rw [hheap cd hj]
    simp only at h ⊢
    split
    · rename_i hc; rw [if_pos hc] at h; exact h
    · rename_i hc
      rw [if_neg hc] at h
      have hall := seqRes_ok_all _ _ _ _ h
      have : cd.args.map (rec' (if cd.nullable then d - 1 else d)) =
          cd.args.map (rec (if cd.nullable then d - 1 else d)) := by
        apply List.map_congr_left
        intro a ha
        obtain ⟨o', ho'⟩ := hall (rec (if cd.nullable then d - 1 else d) a) (List.mem_map.mpr ⟨a, ha, rfl⟩)
        rw [ho', hrec _ a o' ho']
      rw [this]; exact h

/-- a successful call is stable under every later state -/
theorem eval_ok_stable {s s' : State} (e : Ext s s') : ∀ (n d : Nat) (r : Ref) (o : List Nat),
    eval s.heap s.stubs n d r = .ok o → eval s'.heap s'.stubs n d r = .ok o := by
  intro n
  induction n with
  | zero => intro d r o h; simp [eval] at h
  | succ n ih =>
    intro d r o h
    cases r with
    | prim p => simpa [eval] using h
    | clo j =>
      simp only [eval] at h ⊢
      exact evalNode_ok_stable (fun cd hj => e.heap_get hj) (fun d' a o' => ih d' a o') h
    | stub x =>
      simp only [eval] at h ⊢
      cases hx : s.stubs[x]? with
      | none => rw [hx] at h; cases h
      | some sd =>
        rw [hx] at h
        simp only at h
        obtain ⟨sd', hx', _, _, htg⟩ := e.stubs x sd hx
        rw [hx']
        simp only
        cases ht : sd.target with
        | none => rw [ht] at h; cases h
        | some r' =>
          rw [ht] at h
          rw [htg r' ht]
          cases r' with
          | stub y => cases h
          | prim p => exact h
          | clo j => exact evalNode_ok_stable (fun cd hj => e.heap_get hj) (fun d' a o' => ih d' a o') h

end Adaptix.Threads
