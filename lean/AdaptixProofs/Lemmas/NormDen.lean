/-
  C15 helper lemmas, part 3: every pass of the normaliser preserves the value
  denotation, hence `denN (normalize h) = den h`.
-/
import AdaptixProofs.Lemmas.NormBasic

set_option linter.unusedSectionVars false

namespace Adaptix.Types

variable {α : Type} [DecidableEq α]

theorem denAny_iff (v : Val α) : ∀ (l : List (Norm α)), denAny l v ↔ ∃ n, n ∈ l ∧ denN n v
  | [] => by simp [denAny]
  | n :: ns => by simp [denAny, denAny_iff v ns]

theorem denHAny_iff (v : Val α) : ∀ (l : List (Hint α)), denHAny l v ↔ ∃ h, h ∈ l ∧ den h v
  | [] => by simp [denHAny]
  | h :: hs => by simp [denHAny, denHAny_iff v hs]

theorem denN_union (args : List (Norm α)) (v : Val α) : denN (.node .union args) v ↔ denAny args v := by
  simp [denN]

theorem denN_literal (args : List (Norm α)) (v : Val α) :
    denN (.node .literal args) v ↔ ∃ w, w ∈ litArgs args ∧ v = .lit w := by
  simp [denN]

theorem denAny_alts (n : Norm α) (v : Val α) : denAny (alts n) v ↔ denN n v := by
  cases n with
  | node o args => cases o <;> simp [alts, denAny, denN]
  | ellipsis => simp [alts, denAny]
  | lit w => simp [alts, denAny]
  | mdata m => simp [alts, denAny]

theorem denAny_unfold (v : Val α) (ns : List (Norm α)) : denAny (unfoldUnion ns) v ↔ denAny ns v := by
  rw [denAny_iff, denAny_iff]
  constructor
  · rintro ⟨x, hx, hv⟩
    obtain ⟨n, hn, hxn⟩ := (mem_unfoldUnion x ns).mp hx
    exact ⟨n, hn, (denAny_alts n v).mp ((denAny_iff v _).mpr ⟨x, hxn, hv⟩)⟩
  · rintro ⟨n, hn, hv⟩
    obtain ⟨x, hx, hxv⟩ := (denAny_iff v _).mp ((denAny_alts n v).mpr hv)
    exact ⟨x, (mem_unfoldUnion x ns).mpr ⟨n, hn, hx⟩, hxv⟩

theorem denAny_dedup (v : Val α) (l : List (Norm α)) : denAny (dedupNorms l) v ↔ denAny l v := by
  simp [denAny_iff, mem_dedupNorms]

theorem denN_mkUnion (W : World α) (l : List (Norm α)) (v : Val α) : denN (mkUnion W l) v ↔ denAny l v := by
  simp only [mkUnion, denN_union, denAny_iff, mem_stableSort]

theorem denN_mkLiteral (W : World α) (vs : List (LitVal α)) (v : Val α) :
    denN (mkLiteral W vs) v ↔ ∃ w, w ∈ vs ∧ v = .lit w := by
  simp only [mkLiteral, denN_literal, litArgs_map_lit, mem_sortLits]

theorem denN_createNormLiteral (W : World α) (vs : List (LitVal α)) (v : Val α) :
    denN (createNormLiteral W vs) v ↔ ∃ w, w ∈ vs ∧ v = .lit w := by
  simp only [createNormLiteral, denN_mkLiteral, mem_dedupLits]

theorem denAny_merge (W : World α) (l : List (Norm α)) (v : Val α) : denAny (mergeLiterals W l) v ↔ denAny l v := by
  have key : denAny l v ↔ denAny (l.filter fun n => !isLiteralNorm n) v ∨ ∃ w, w ∈ collectLits l ∧ v = .lit w := by
    rw [denAny_iff, denAny_iff]
    constructor
    · rintro ⟨n, hn, hv⟩
      by_cases hl : isLiteralNorm n = true
      · obtain ⟨args, rfl⟩ := (isLiteralNorm_iff n).mp hl
        obtain ⟨w, hw, rfl⟩ := (denN_literal args v).mp hv
        exact .inr ⟨w, (mem_collectLits w l).mpr ⟨args, hn, hw⟩, rfl⟩
      · exact .inl ⟨n, List.mem_filter.mpr ⟨hn, by simpa using hl⟩, hv⟩
    · rintro (⟨n, hn, hv⟩ | ⟨w, hw, rfl⟩)
      · exact ⟨n, (List.mem_filter.mp hn).1, hv⟩
      · obtain ⟨args, ha, hwa⟩ := (mem_collectLits w l).mp hw
        exact ⟨_, ha, (denN_literal args _).mpr ⟨w, hwa, rfl⟩⟩
  rw [key]
  unfold mergeLiterals
  simp only
  split
  · rename_i h
    simp [h]
  · rw [denAny_iff]
    simp only [List.mem_append, List.mem_singleton]
    constructor
    · rintro ⟨n, hn | rfl, hv⟩
      · exact .inl ((denAny_iff v _).mpr ⟨n, hn, hv⟩)
      · exact .inr ((denN_createNormLiteral W _ v).mp hv)
    · rintro (h | h)
      · obtain ⟨n, hn, hv⟩ := (denAny_iff v _).mp h
        exact ⟨n, .inl hn, hv⟩
      · exact ⟨_, .inr rfl, (denN_createNormLiteral W _ v).mpr h⟩

theorem denN_remake (W : World α) (n : Norm α) (v : Val α) : denN (remake W n) v ↔ denN n v := by
  cases n with
  | node o args =>
    cases o <;> simp only [remake]
    · rw [denN_mkUnion, denN_union]
    · rw [denN_mkLiteral, denN_literal]
  | ellipsis => rfl
  | lit w => rfl
  | mdata m => rfl

theorem denN_normUnion (W : World α) (ns : List (Norm α)) (v : Val α) : denN (normUnion W ns) v ↔ denAny ns v := by
  have h := (denAny_merge W (dedupNorms (unfoldUnion ns)) v).trans
    ((denAny_dedup v _).trans (denAny_unfold v ns))
  unfold normUnion
  simp only
  split
  · rename_i arg heq
    rw [denN_remake, ← h, heq]
    simp [denAny]
  · rw [denN_mkUnion]; exact h

theorem denN_normType (W : World α) (n : Norm α) (v : Val α) :
    denN (normType W n) v ↔ ∃ w, v = .box .type [[w]] ∧ denN n w := by
  have generic : denN (.node .type [n]) v ↔ ∃ w, v = .box .type [[w]] ∧ denN n w := by
    simp [denN, denAny]
  cases n with
  | node o args =>
    cases o <;> try exact generic
    simp only [normType, denN_mkUnion, denAny_iff, List.mem_map, denN_union]
    constructor
    · rintro ⟨x, ⟨a, ha, rfl⟩, hv⟩
      have hv' : ∃ w, v = .box .type [[w]] ∧ denN a w := by simpa [denN, denAny] using hv
      obtain ⟨w, rfl, hw⟩ := hv'
      exact ⟨w, rfl, a, ha, hw⟩
    · rintro ⟨w, rfl, a, ha, hw⟩
      exact ⟨_, ⟨a, ha, rfl⟩, by simpa [denN, denAny] using hw⟩
  | ellipsis => exact generic
  | lit w => exact generic
  | mdata m => exact generic

theorem denN_noneN (v : Val α) : denN (noneN : Norm α) v ↔ v = .lit .none := by simp [noneN, denN]

theorem denN_normLiteral (W : World α) (vs : List (LitVal α)) (v : Val α) :
    denN (normLiteral W vs) v ↔ ∃ w, w ∈ vs ∧ v = .lit w := by
  unfold normLiteral
  split
  · rename_i h; subst h; simp [denN_noneN]
  · split
    · rename_i hne hmem
      rw [denN_mkUnion]
      simp only [denAny, denN_noneN, denN_createNormLiteral, or_false]
      constructor
      · rintro (rfl | ⟨w, hw, rfl⟩)
        · exact ⟨.none, hmem, rfl⟩
        · exact ⟨w, List.mem_of_mem_erase hw, rfl⟩
      · rintro ⟨w, hw, rfl⟩
        by_cases hn : w = .none
        · subst hn; exact .inl rfl
        · exact .inr ⟨w, (List.mem_erase_of_ne hn).mpr hw, rfl⟩
    · exact denN_mkLiteral W vs v

theorem denN_normAnnotated (inner : Norm α) (metas : List Str) (v : Val α) :
    denN (normAnnotated inner (metas.map .mdata)) v ↔ denN inner v := by
  have generic : denN (.node .annotated (inner :: metas.map .mdata)) v ↔ denN inner v := by simp [denN, denHead]
  cases inner with
  | node o args =>
    cases o <;> try exact generic
    simp only [normAnnotated]
    cases args with
    | nil =>
      cases metas <;> simp [denN, denHead]
    | cons a rest => simp [denN, denHead]
  | ellipsis => exact generic
  | lit w => exact generic
  | mdata m => exact generic

theorem denSlots_nil (slots : List (List (Val α))) : denSlots ([] : List (Norm α)) slots ↔ slots = [] := by
  cases slots <;> simp [denSlots]

theorem denSlots_cons (n : Norm α) (ns : List (Norm α)) (slots : List (List (Val α))) :
    denSlots (n :: ns) slots ↔ ∃ s ss, slots = s :: ss ∧ (∀ v, v ∈ s → denN n v) ∧ denSlots ns ss := by
  cases slots with
  | nil => simp [denSlots]
  | cons s ss =>
    simp only [denSlots, List.cons.injEq]
    constructor
    · intro h; exact ⟨s, ss, ⟨rfl, rfl⟩, h⟩
    · rintro ⟨s', ss', ⟨rfl, rfl⟩, h⟩; exact h

theorem denN_obj (a : α) (args : List (Norm α)) (v : Val α) :
    denN (.node (.obj a) args) v ↔ ∃ slots, v = .box (.obj a) slots ∧ denSlots args slots := by
  simp [denN]

theorem denN_tuple (args : List (Norm α)) (v : Val α) :
    denN (.node .tuple args) v ↔ ∃ slots, v = .box .tuple slots ∧ denSlots args slots := by
  simp [denN]

theorem denN_ellipsis_slot (e : List (Val α)) : (∀ v, v ∈ e → denN (Norm.ellipsis : Norm α) v) ↔ e = [] := by
  simp only [denN]
  exact List.eq_nil_iff_forall_not_mem.symm

theorem denN_anyN (v : Val α) : denN (anyN : Norm α) v ↔ True := by simp [anyN, denN]

mutual
theorem den_normalize (W : World α) : ∀ (h : Hint α) (v : Val α), denN (normalize W h) v ↔ den h v
  | .none _, v => by simp [normalize, denN_noneN, den]
  | .any, v => by simp [normalize, denN_anyN, den]
  | .cls a, v => by simp [normalize, denN_obj, denSlots_nil, den]
  | .newType a, v => by simp [normalize, denN_obj, denSlots_nil, den]
  | .typeVar a _ _, v => by simp [normalize, denN_obj, denSlots_nil, den]
  | .bare _ a ps, v => by simp only [normalize, denN_obj, den, den_implicitList W ps]
  | .app _ a args, v => by simp only [normalize, denN_obj, den, den_normalizeList_slots W args]
  | .tupleBare _, v => by
    simp only [normalize, denN_tuple, den, denSlots_cons, denSlots_nil, denN_ellipsis_slot, denN_anyN]
    constructor
    · rintro ⟨slots, rfl, s, ss, rfl, -, e, ss', rfl, rfl, rfl⟩; exact ⟨s, rfl⟩
    · rintro ⟨s, rfl⟩; exact ⟨_, rfl, s, _, rfl, fun _ _ => trivial, [], [], rfl, rfl, rfl⟩
  | .tupleVar _ h, v => by
    simp only [normalize, denN_tuple, den, denSlots_cons, denSlots_nil, denN_ellipsis_slot, den_normalize W h]
    constructor
    · rintro ⟨slots, rfl, s, ss, rfl, hs, e, ss', rfl, rfl, rfl⟩; exact ⟨s, rfl, hs⟩
    · rintro ⟨s, rfl, hs⟩; exact ⟨_, rfl, s, _, rfl, hs, [], [], rfl, rfl, rfl⟩
  | .tupleFix _ hs, v => by simp only [normalize, denN_tuple, den, den_normalizeList_slots W hs]
  | .typeBare _, v => by simp [normalize, denN, denAny, denN_anyN, den]
  | .typeOf _ h, v => by simp only [normalize, denN_normType, den, den_normalize W h]
  | .union _ ms, v => by simp only [normalize, denN_normUnion, den, den_normalizeList_any W ms]
  | .optional h, v => by simp [normalize, denN_normUnion, den, denAny, denN_noneN, den_normalize W h]
  | .literal vs, v => by simp only [normalize, denN_normLiteral, den]
  | .annotated h ms, v => by simp only [normalize, denN_normAnnotated, den, den_normalize W h]
theorem den_normalizeList_any (W : World α) : ∀ (hs : List (Hint α)) (v : Val α),
    denAny (normalizeList W hs) v ↔ denHAny hs v
  | [], v => by simp [normalizeList, denAny, denHAny]
  | h :: hs, v => by simp only [normalizeList, denAny, denHAny, den_normalize W h, den_normalizeList_any W hs]
theorem den_normalizeList_slots (W : World α) : ∀ (hs : List (Hint α)) (slots : List (List (Val α))),
    denSlots (normalizeList W hs) slots ↔ denHSlots hs slots
  | [], [] => by simp [normalizeList, denSlots, denHSlots]
  | [], _ :: _ => by simp [normalizeList, denSlots, denHSlots]
  | _ :: _, [] => by simp [normalizeList, denSlots, denHSlots]
  | h :: hs, s :: ss => by
    simp only [normalizeList, denSlots, denHSlots, den_normalize W h, den_normalizeList_slots W hs ss]
theorem den_implicitParam (W : World α) : ∀ (p : Hint α) (v : Val α), denN (implicitParam W p) v ↔ denImplicit p v
  | .typeVar _ true cs, v => by simp only [implicitParam, denN_normUnion, denImplicit, den_normalizeList_any W cs]
  | .typeVar _ false [], v => by simp [implicitParam, denN_anyN, denImplicit]
  | .typeVar _ false (b :: _), v => by simp only [implicitParam, denImplicit, den_normalize W b]
  | .none _, v => by simp [implicitParam, denN_anyN, denImplicit]
  | .any, v => by simp [implicitParam, denN_anyN, denImplicit]
  | .cls _, v => by simp [implicitParam, denN_anyN, denImplicit]
  | .newType _, v => by simp [implicitParam, denN_anyN, denImplicit]
  | .bare _ _ _, v => by simp [implicitParam, denN_anyN, denImplicit]
  | .app _ _ _, v => by simp [implicitParam, denN_anyN, denImplicit]
  | .tupleBare _, v => by simp [implicitParam, denN_anyN, denImplicit]
  | .tupleVar _ _, v => by simp [implicitParam, denN_anyN, denImplicit]
  | .tupleFix _ _, v => by simp [implicitParam, denN_anyN, denImplicit]
  | .typeBare _, v => by simp [implicitParam, denN_anyN, denImplicit]
  | .typeOf _ _, v => by simp [implicitParam, denN_anyN, denImplicit]
  | .union _ _, v => by simp [implicitParam, denN_anyN, denImplicit]
  | .optional _, v => by simp [implicitParam, denN_anyN, denImplicit]
  | .literal _, v => by simp [implicitParam, denN_anyN, denImplicit]
  | .annotated _ _, v => by simp [implicitParam, denN_anyN, denImplicit]
theorem den_implicitList (W : World α) : ∀ (ps : List (Hint α)) (slots : List (List (Val α))),
    denSlots (implicitList W ps) slots ↔ denImplicitSlots ps slots
  | [], [] => by simp [implicitList, denSlots, denImplicitSlots]
  | [], _ :: _ => by simp [implicitList, denSlots, denImplicitSlots]
  | _ :: _, [] => by simp [implicitList, denSlots, denImplicitSlots]
  | p :: ps, s :: ss => by
    simp only [implicitList, denSlots, denImplicitSlots, den_implicitParam W p, den_implicitList W ps ss]
end

end Adaptix.Types
