/-
  Helper lemmas for C13: option/list plumbing, evaluation of argument lists,
  access to extra parameters through the ctx value.
-/
import AdaptixModel.Conv.Convert

set_option linter.unusedSimpArgs false

namespace Adaptix.Conv13

/-! ### mapM in Option -/

theorem mapM_some_of_forall {α β : Type} (f : α → Option β) (g : α → β) :
    ∀ (l : List α), (∀ x ∈ l, f x = some (g x)) → l.mapM f = some (l.map g)
  | [], _ => by simp
  | x :: xs, h => by
    have hx : f x = some (g x) := h x (by simp)
    have ih := mapM_some_of_forall f g xs (fun y hy => h y (by simp [hy]))
    simp [List.mapM_cons, hx, ih]

theorem mapM_none_of_exists {α β : Type} (f : α → Option β) :
    ∀ (l : List α), (∃ x ∈ l, f x = none) → l.mapM f = none
  | [], h => by simp at h
  | x :: xs, h => by
    cases hx : f x with
    | none => simp [List.mapM_cons, hx]
    | some b =>
      have : ∃ y ∈ xs, f y = none := by
        obtain ⟨y, hy, hfy⟩ := h
        simp at hy
        rcases hy with rfl | hy
        · simp [hx] at hfy
        · exact ⟨y, hy, hfy⟩
      simp [List.mapM_cons, hx, mapM_none_of_exists f xs this]

theorem mapM_congr {α β : Type} (f g : α → Option β) :
    ∀ (l : List α), (∀ x ∈ l, f x = g x) → l.mapM f = l.mapM g
  | [], _ => by simp
  | x :: xs, h => by
    have hx := h x (by simp)
    have ih := mapM_congr f g xs (fun y hy => h y (by simp [hy]))
    simp [List.mapM_cons, hx, ih]

theorem mapM_eq_some_forall {α β : Type} (f : α → Option β) :
    ∀ (l : List α) (r : List β), l.mapM f = some r → ∀ x ∈ l, ∃ b, f x = some b
  | [], _, _ => by simp
  | x :: xs, r, h => by
    cases hx : f x with
    | none => simp [List.mapM_cons, hx] at h
    | some b =>
      cases hr : xs.mapM f with
      | none => simp [List.mapM_cons, hx, hr] at h
      | some bs =>
        intro y hy
        simp at hy
        rcases hy with rfl | hy
        · exact ⟨b, hx⟩
        · exact mapM_eq_some_forall f xs bs hr y hy

/-! ### evaluation of argument lists -/

theorem evalArgs_append (data ctx : Val) :
    ∀ (a b : List (Option Name × Plan)),
      evalArgs data ctx (a ++ b) =
        match evalArgs data ctx a, evalArgs data ctx b with
        | some x, some y => some (x ++ y)
        | _, _ => none
  | [], b => by
    cases h : evalArgs data ctx b <;> simp [evalArgs, h]
  | (k, p) :: a, b => by
    have ih := evalArgs_append data ctx a b
    cases hp : evalPlan data ctx p <;> cases ha : evalArgs data ctx a <;>
      cases hb : evalArgs data ctx b <;> simp [evalArgs, hp, ha, hb, ih]

/-- all argument plans evaluate: the argument values, position by position -/
theorem evalArgs_some_of_forall (data ctx : Val) (g : Plan → Val) :
    ∀ (a : List (Option Name × Plan)), (∀ e ∈ a, evalPlan data ctx e.2 = some (g e.2)) →
      evalArgs data ctx a = some (a.map (fun e => (e.1, g e.2)))
  | [], _ => by simp [evalArgs]
  | (k, p) :: a, h => by
    have hp := h (k, p) (by simp)
    have ih := evalArgs_some_of_forall data ctx g a (fun e he => h e (by simp [he]))
    simp [evalArgs, hp, ih]

theorem evalArgs_none_of_exists (data ctx : Val) :
    ∀ (a : List (Option Name × Plan)), (∃ e ∈ a, evalPlan data ctx e.2 = none) → evalArgs data ctx a = none
  | [], h => by simp at h
  | (k, p) :: a, h => by
    cases hp : evalPlan data ctx p with
    | none => simp [evalArgs, hp]
    | some v =>
      have : ∃ e ∈ a, evalPlan data ctx e.2 = none := by
        obtain ⟨e, he, hev⟩ := h
        simp at he
        rcases he with rfl | he
        · simp [hp] at hev
        · exact ⟨e, he, hev⟩
      simp [evalArgs, hp, evalArgs_none_of_exists data ctx a this]

end Adaptix.Conv13

namespace Adaptix.Conv13

/-! ### extra parameters: tuple position versus name -/

/-- a source produced by linking refers to an existing extra parameter -/
def Source.OK (params : List CtxParam) : Source → Prop
  | .field _ => True
  | .param i p => params[i]? = some p

/-- the by-name view of the extra arguments used by the specification -/
def pvalsOf (params : List CtxParam) (ctxVals : List Val) : List (Name × Val) :=
  (params.map (·.name)).zip ctxVals

theorem lookup_zip_of_nodup {β : Type} :
    ∀ (ks : List Name) (vs : List β) (i : Nat) (k : Name),
      ks.Nodup → ks[i]? = some k → ks.length = vs.length → (ks.zip vs).lookup k = vs[i]?
  | [], _, i, k, _, h, _ => by simp at h
  | k0 :: ks, [], _, _, _, _, hl => by simp at hl
  | k0 :: ks, v :: vs, 0, k, _, h, _ => by
    simp at h
    subst h
    simp [List.lookup]
  | k0 :: ks, v :: vs, i + 1, k, hnd, h, hl => by
    simp at h hl
    have hnd' := List.nodup_cons.mp hnd
    have hk : k ∈ ks := List.mem_of_getElem? h
    have hne : (k == k0) = false := by
      apply beq_false_of_ne
      intro e
      subst e
      exact hnd'.1 hk
    simp [List.lookup, hne]
    exact lookup_zip_of_nodup ks vs i k hnd'.2 h hl

theorem packCtx_of_two_le (vs : List Val) (h : 2 ≤ vs.length) : packCtx vs = .seq .tuple vs := by
  match vs, h with
  | _ :: _ :: _, _ => rfl

/-- `_get_field_coercer_data_arg` reads what the specification means by the
    value of the source: the accessor applied to `data`, or the extra argument
    of that *name* (found by its position in the ctx tuple). -/
theorem dataArg_correct (params : List CtxParam) (ctxVals : List Val)
    (hlen : ctxVals.length = params.length) (hnd : (params.map (·.name)).Nodup)
    (data : Val) (s : Source) (hs : s.OK params) :
    evalPlan data (packCtx ctxVals) (dataArg params.length s) = sourceValue data (pvalsOf params ctxVals) s := by
  cases s with
  | field f => simp [dataArg, evalPlan, sourceValue]
  | param i p =>
    simp only [Source.OK] at hs
    have hi : i < params.length := by
      rcases Nat.lt_or_ge i params.length with h | h
      · exact h
      · rw [List.getElem?_eq_none h] at hs; cases hs
    have hname : (params.map (·.name))[i]? = some p.name := by simp [hs]
    have hlook : (pvalsOf params ctxVals).lookup p.name = ctxVals[i]? :=
      lookup_zip_of_nodup _ _ i p.name hnd hname (by simp [hlen])
    simp only [dataArg, sourceValue, hlook]
    by_cases h1 : params.length = 1
    · have hi0 : i = 0 := by omega
      subst hi0
      match ctxVals, hlen with
      | [v], _ => simp [h1, evalPlan, packCtx]
      | [], hl => simp [h1] at hl
      | _ :: _ :: _, hl => simp [h1] at hl
    · have h2 : 2 ≤ ctxVals.length := by omega
      have hne : (params.length == 1) = false := by simp [h1]
      simp [hne, evalPlan, packCtx_of_two_le ctxVals h2, Val.access]

end Adaptix.Conv13
