/-
  Helper lemmas for C17, converter side: the *parameter list* each introspector model reports for the
  canonical declaration of a logical model is well formed — distinct parameter names, no
  positional-only parameter, exactly one parameter per field.  (For the real `InputShape` part of this
  is enforced by `InputShape._validate`; here it is derived from the introspector models themselves.)
-/
import AdaptixProofs.Lemmas.KindsProjections
import AdaptixProofs.Lemmas.KindsConvert
import AdaptixProofs.Lemmas.KindsSemantics

set_option linter.unusedSimpArgs false

namespace Adaptix.Kinds

/-- what `_make_constructor_call` + Python's call binding need of a parameter list -/
structure ParamsWF (i : InputShape) : Prop where
  names : (i.params.map (·.name)).Nodup
  noPosOnly : ∀ p ∈ i.params, p.kind ≠ .posOnly
  fields : (i.params.map (·.fieldId)).Perm (i.fields.map (·.id))

theorem shapeOf_namesOk {k : Kind} {m : LogicalModel} {s : Shape} (h : shapeOf k m = .ok s) :
    (m.fields.map (·.name)).Nodup := by
  unfold shapeOf at h
  split at h
  · cases h
  · rename_i hn
    have hn' : m.namesOk = true := by
      cases hb : m.namesOk
      · simp [hb] at hn
      · rfl
    simp only [LogicalModel.namesOk, Bool.and_eq_true, Bool.not_eq_eq_eq_not, Bool.not_true] at hn'
    exact (hasDup_eq_false_iff _).mp hn'.2

/-- `filter (¬kw) ++ filter kw` is a permutation -/
theorem sig_perm {α : Type} (p : α → Bool) (l : List α) : (l.filter (fun x => !p x) ++ l.filter p).Perm l :=
  List.perm_append_comm.trans (List.filter_append_perm p l)

/-! ### dataclass -/

theorem shapeOf_dataclass_params {m : LogicalModel} {i : InputShape} {o : OutputShape}
    (h : shapeOf .dataclass m = .ok (i, o)) :
    i.params = ((m.fields.map (declField .dataclass false)).filter (fun f => !f.kwOnly)
      ++ (m.fields.map (declField .dataclass false)).filter (fun f => f.kwOnly)).map dcParam := by
  unfold shapeOf at h
  split at h
  · cases h
  · simp only [shapeOfDecl, declOf, dataclassShape, declFields_eq_map .dataclass (by decide)] at h
    have hini : (m.fields.map (declField .dataclass false)).filter dcInit = m.fields.map (declField .dataclass false) :=
      filter_map_all _ _ _ (fun a => by simp [dcInit, declField])
    rw [hini] at h
    split at h
    · cases h
    · split at h
      · cases h
      · split at h
        · cases h
        · cases h
          rfl

/-! ### NamedTuple -/

theorem shapeOf_namedTuple_params {m : LogicalModel} {i : InputShape} {o : OutputShape}
    (h : shapeOf .namedTuple m = .ok (i, o)) :
    i.params = (m.fields.map (declField .namedTuple false)).map ntParam := by
  unfold shapeOf at h
  split at h
  · cases h
  · simp only [shapeOfDecl, declOf, namedTupleShape, declFields_eq_map .namedTuple (by decide)] at h
    split at h
    · cases h
    · split at h
      · cases h
      · split at h
        · cases h
        · cases h
          rfl

/-! ### TypedDict -/

theorem shapeOf_typedDict_params {m : LogicalModel} {i : InputShape} {o : OutputShape}
    (h : shapeOf .typedDict m = .ok (i, o)) :
    i.params = (sortByName (m.fields.map (declField .typedDict false))).map tdParam := by
  unfold shapeOf at h
  split at h
  · cases h
  · simp only [shapeOfDecl, declOf, typedDictShape, declFields_eq_map .typedDict (by decide)] at h
    cases h
    rfl

/-! ### attrs -/

theorem shapeOf_attrs_params {m : LogicalModel} {i : InputShape} {o : OutputShape}
    (h : shapeOf .attrs m = .ok (i, o)) :
    i.params = ((m.fields.map (declField .attrs false)).filter (fun f => !f.kwOnly)
      ++ (m.fields.map (declField .attrs false)).filter (fun f => f.kwOnly)).map attrsParam ∧
    hasDup ((m.fields.map (declField .attrs false)).map attrsAlias) = false := by
  unfold shapeOf at h
  split at h
  · cases h
  · simp only [shapeOfDecl, declOf, attrsShape, declFields_eq_map .attrs (by decide)] at h
    have hini : (m.fields.map (declField .attrs false)).filter (·.init) = m.fields.map (declField .attrs false) :=
      filter_map_all _ _ _ (fun a => by simp [declField])
    rw [hini] at h
    split at h
    · cases h
    · split at h
      · cases h
      · split at h
        · cases h
        · rename_i hdup
          cases h
          exact ⟨rfl, by simpa using hdup⟩

/-! ### pydantic -/

theorem pydParams_plain (o : Opts) : ∀ (fs : List DField) (ps : List Param),
    (∀ f ∈ fs, f.alias = none) → pydParams o fs = some ps →
    ps = fs.map (fun f => ({ fieldId := f.name, name := f.name, kind := .kwOnly } : Param))
  | [], ps, _, h => by
    simp only [pydParams, Option.some.injEq] at h
    simp [← h]
  | f :: rest, ps, ha, h => by
    have hf : f.alias = none := ha f List.mem_cons_self
    simp only [pydParams] at h
    cases hn : pydParamName o f with
    | none => simp [hn] at h
    | some n =>
      cases hr : pydParams o rest with
      | none => simp [hn, hr] at h
      | some ps' =>
        simp only [hn, hr, Option.some.injEq] at h
        have ih := pydParams_plain o rest ps' (fun g hg => ha g (List.mem_cons_of_mem _ hg)) hr
        have hname : n = f.name := by
          simp only [pydParamName, hf] at hn
          by_cases hid : isIdentifier f.name = true
          · simp [List.filter, hid] at hn
            exact hn.symm
          · simp [List.filter, hid] at hn
        subst hname
        simp [← h, ih]

theorem shapeOf_pydantic_params {m : LogicalModel} {i : InputShape} {o : OutputShape}
    (h : shapeOf .pydantic m = .ok (i, o)) :
    i.params = (m.fields.map (declField .pydantic false)).map
      (fun f => ({ fieldId := f.name, name := f.name, kind := .kwOnly } : Param)) := by
  unfold shapeOf at h
  split at h
  · cases h
  · simp only [shapeOfDecl, declOf, pydanticShape, declFields_eq_map .pydantic (by decide)] at h
    have hreg : (m.fields.map (declField .pydantic false)).filter (fun f => f.cat == .regular)
        = m.fields.map (declField .pydantic false) :=
      filter_map_all _ _ _ (fun a => by simp [declField])
    rw [hreg] at h
    split at h
    · cases h
    · split at h
      · cases h
      · split at h
        · cases h
        · split at h
          · cases h
          · rename_i ps hps
            cases h
            refine pydParams_plain _ _ ps ?_ hps
            intro f hf
            obtain ⟨a, _, rfl⟩ := List.mem_map.mp hf
            simp [declField]

/-! ### SQLAlchemy -/

theorem shapeOf_sqlalchemy_params {m : LogicalModel} {i : InputShape} {o : OutputShape}
    (h : shapeOf .sqlalchemy m = .ok (i, o)) :
    ∃ f rest, m.fields = f :: rest ∧ i.params = (saDecl f rest).map saParam := by
  unfold shapeOf at h
  split at h
  · cases h
  · cases hm : m.fields with
    | nil => simp [shapeOfDecl, declOf, sqlalchemyShape, hm, declFields] at h
    | cons f rest =>
      refine ⟨f, rest, rfl, ?_⟩
      simp only [shapeOfDecl, declOf, hm, declFields_sqlalchemy] at h
      have h' : sqlalchemyShape { kind := .sqlalchemy, fields := saDecl f rest } = .ok (i, o) := h
      simp only [sqlalchemyShape, saDecl_cols, saDecl_rels, saDecl_pks] at h'
      split at h'
      · cases h'
      · split at h'
        · cases h'
        · split at h'
          · cases h'
          · split at h'
            · cases h'
            · cases h'
              simp

/-! ### all six kinds -/

theorem shape_params_wf {k : Kind} {m : LogicalModel} {i : InputShape} {o : OutputShape}
    (h : shapeOf k m = .ok (i, o)) : ParamsWF i := by
  have hnd := shapeOf_namesOk h
  cases k with
  | dataclass =>
    have hp := shapeOf_dataclass_params h
    obtain ⟨hi, _⟩ := shapeOf_dataclass_ok h
    have hperm := sig_perm (fun f : DField => f.kwOnly) (m.fields.map (declField .dataclass false))
    refine ⟨?_, ?_, ?_⟩
    · rw [hp, List.map_map]
      have := (hperm.map (dcParam · |>.name))
      refine (List.Perm.nodup_iff this).mpr ?_
      simpa [List.map_map, Function.comp_def, dcParam] using hnd
    · rw [hp]
      intro p hpm
      obtain ⟨f, _, rfl⟩ := List.mem_map.mp hpm
      simp only [dcParam]
      split <;> simp
    · rw [hp, hi, List.map_map]
      have := (hperm.map (dcParam · |>.fieldId))
      refine this.trans (List.Perm.of_eq ?_)
      simp [List.map_map, Function.comp_def, dcParam, dcInField]
  | namedTuple =>
    have hp := shapeOf_namedTuple_params h
    obtain ⟨_, hi, _⟩ := shapeOf_namedTuple_ok h
    refine ⟨?_, ?_, ?_⟩
    · rw [hp]
      simpa [List.map_map, Function.comp_def, ntParam] using hnd
    · rw [hp]
      intro p hpm
      obtain ⟨f, _, rfl⟩ := List.mem_map.mp hpm
      simp [ntParam]
    · rw [hp, hi]
      simp [List.map_map, Function.comp_def, ntParam, ntInField]
  | typedDict =>
    have hp := shapeOf_typedDict_params h
    obtain ⟨hi, _⟩ := shapeOf_typedDict_ok h
    have hperm := sortByName_perm (m.fields.map (declField .typedDict false))
    refine ⟨?_, ?_, ?_⟩
    · rw [hp, List.map_map]
      have := hperm.map (tdParam · |>.name)
      refine (List.Perm.nodup_iff this).mpr ?_
      simpa [List.map_map, Function.comp_def, tdParam] using hnd
    · rw [hp]
      intro p hpm
      obtain ⟨f, _, rfl⟩ := List.mem_map.mp hpm
      simp [tdParam]
    · rw [hp, hi]
      simp [List.map_map, Function.comp_def, tdParam, tdInField]
  | attrs =>
    obtain ⟨hp, hdup⟩ := shapeOf_attrs_params h
    obtain ⟨hi, _⟩ := shapeOf_attrs_ok h
    have hperm := sig_perm (fun f : DField => f.kwOnly) (m.fields.map (declField .attrs false))
    refine ⟨?_, ?_, ?_⟩
    · rw [hp, List.map_map]
      have := (hperm.map (attrsParam · |>.name))
      refine (List.Perm.nodup_iff this).mpr ?_
      have := (hasDup_eq_false_iff _).mp hdup
      simpa [List.map_map, Function.comp_def, attrsParam] using this
    · rw [hp]
      intro p hpm
      obtain ⟨f, _, rfl⟩ := List.mem_map.mp hpm
      simp only [attrsParam]
      split <;> simp
    · rw [hp, hi, List.map_map]
      have := (hperm.map (attrsParam · |>.fieldId))
      refine this.trans (List.Perm.of_eq ?_)
      simp [List.map_map, Function.comp_def, attrsParam, attrsInField]
  | pydantic =>
    have hp := shapeOf_pydantic_params h
    obtain ⟨hi, _⟩ := shapeOf_pydantic_ok h
    refine ⟨?_, ?_, ?_⟩
    · rw [hp]
      simpa [List.map_map, Function.comp_def] using hnd
    · rw [hp]
      intro p hpm
      obtain ⟨f, _, rfl⟩ := List.mem_map.mp hpm
      simp
    · rw [hp, hi]
      simp [List.map_map, Function.comp_def, pydInField]
  | sqlalchemy =>
    obtain ⟨f, rest, hm, hp⟩ := shapeOf_sqlalchemy_params h
    obtain ⟨f', rest', hm', hi, _, _⟩ := shapeOf_sqlalchemy_ok h
    rw [hm] at hm'
    obtain ⟨rfl, rfl⟩ := List.cons.inj hm'
    rw [hm] at hnd
    refine ⟨?_, ?_, ?_⟩
    · rw [hp]
      simpa [List.map_map, Function.comp_def, saParam, saDecl] using hnd
    · rw [hp]
      intro p hpm
      obtain ⟨g, _, rfl⟩ := List.mem_map.mp hpm
      simp [saParam]
    · rw [hp, hi]
      simp [List.map_map, Function.comp_def, saParam]

end Adaptix.Kinds

/-! ### the converter of one model pair, in closed form -/

namespace Adaptix.Kinds

section
variable {V W : Type}

/-- the source shape has a field of this id (the default linking: same id) -/
def linkedIn (src : OutputShape) (id : String) : Bool := src.fields.any (fun g => g.id == id)

/-- a destination field without source that is required, or optional under a forbidding policy -/
def Refuses (allow : String → Bool) (src : OutputShape) (f : InField) : Bool :=
  !linkedIn src f.id && (f.required || !allow f.id)

/-- **field-wise specification** of what the destination constructor is to receive for the field
    `id`: the (coerced) value the source object holds under the same id, nothing when the source has
    no such field -/
def lookSpec (co : String → V → W) (src : OutputShape) (obj : List (String × V)) (id : String) : Option W :=
  if linkedIn src id then (obj.lookup id).map (co id) else none

theorem fetchLinking_linked {allow : String → Bool} {src : OutputShape} {f : InField}
    (h : linkedIn src f.id = true) : fetchLinking allow src f = .linked f.id := by
  unfold fetchLinking
  cases hf : src.fields.find? (fun g => g.id == f.id) with
  | none =>
    rw [List.find?_eq_none] at hf
    simp only [linkedIn, List.any_eq_true] at h
    obtain ⟨g, hg, hgf⟩ := h
    exact absurd hgf (hf g hg)
  | some g =>
    have := List.find?_some hf
    simp only [beq_iff_eq] at this
    simp [this]

theorem fetchLinking_unlinked {allow : String → Bool} {src : OutputShape} {f : InField}
    (h : linkedIn src f.id = false) :
    fetchLinking allow src f = if f.required then .refused else if allow f.id then .skipped else .refused := by
  unfold fetchLinking
  cases hf : src.fields.find? (fun g => g.id == f.id) with
  | none => rfl
  | some g =>
    have h1 := List.find?_some hf
    have h2 := List.mem_of_find?_eq_some hf
    have : linkedIn src f.id = true := by
      simp only [linkedIn, List.any_eq_true]
      exact ⟨g, h2, h1⟩
    rw [h] at this
    cases this

theorem fetchLinking_isRefused (allow : String → Bool) (src : OutputShape) (f : InField) :
    (fetchLinking allow src f).isRefused = Refuses allow src f := by
  cases hl : linkedIn src f.id
  · rw [fetchLinking_unlinked hl]
    cases hr : f.required <;> cases ha : allow f.id <;> simp [Refuses, hl, hr, ha, Linking.isRefused]
  · rw [fetchLinking_linked hl]
    simp [Refuses, hl, Linking.isRefused]

theorem lookup_map_key {α β : Type} (key : α → String) (val : α → β) :
    ∀ (l : List α), (l.map key).Nodup → ∀ a ∈ l, (l.map fun x => (key x, val x)).lookup (key a) = some (val a)
  | [], _, a, ha => by simp at ha
  | x :: xs, hnd, a, ha => by
    rw [List.map_cons, List.nodup_cons] at hnd
    rcases List.mem_cons.mp ha with rfl | hmem
    · simp [List.lookup_cons]
    · have hne : key a ≠ key x := fun h => hnd.1 (h ▸ List.mem_map_of_mem hmem)
      have hb : (key a == key x) = false := by simpa using hne
      simp only [List.map_cons, List.lookup_cons, hb]
      exact lookup_map_key key val xs hnd.2 a hmem

/-- **The converter, field by field.**  For a destination shape with a well-formed parameter list:
    the converter is refused exactly when some destination field refuses; otherwise the destination
    constructor receives — as a multiset of `(field id, value)` — exactly `lookSpec` of every field:
    the value of the source field of the same id for the linked ones, nothing for the others. -/
theorem convertModel_spec (allow : String → Bool) (co : String → V → W) (dst : InputShape) (src : OutputShape)
    (obj : List (String × V)) (hwf : ParamsWF dst) (hids : (dst.fields.map (·.id)).Nodup)
    (hobj : ∀ f ∈ dst.fields, linkedIn src f.id = true → (obj.lookup f.id).isSome) :
    (dst.fields.any (Refuses allow src) = true → convertModel allow co dst src obj = .noConverter) ∧
    (dst.fields.any (Refuses allow src) = false →
      ∃ args, convertModel allow co dst src obj = .ok args ∧
        args.Perm ((dst.fields.map (·.id)).filterMap fun id => (lookSpec co src obj id).map (id, ·))) := by
  have hany : (dst.fields.map fun f => (f.id, fetchLinking allow src f)).any (fun l => l.2.isRefused)
      = dst.fields.any (Refuses allow src) := by
    simp [List.any_map, Function.comp_def, fetchLinking_isRefused]
  constructor
  · intro hr
    simp [convertModel, hany, hr]
  · intro hr
    -- no accessor fails: every linked source field is held by the object
    have hacc : (dst.fields.map fun f => (f.id, fetchLinking allow src f)).any
        (fun l => l.2.accessFails obj) = false := by
      rw [List.any_eq_false]
      intro l hl
      obtain ⟨f, hfm, rfl⟩ := List.mem_map.mp hl
      cases hlk : linkedIn src f.id
      · rw [fetchLinking_unlinked hlk]
        cases f.required <;> cases allow f.id <;> simp [Linking.accessFails]
      · rw [fetchLinking_linked hlk]
        have := hobj f hfm hlk
        simp only [Linking.accessFails]
        cases ho : obj.lookup f.id with
        | none => simp [ho] at this
        | some v => simp
    -- the sub-plan table agrees with the specification on every field id
    have hlook : ∀ f ∈ dst.fields,
        subPlanOf co obj (dst.fields.map fun f => (f.id, fetchLinking allow src f)) f.id = lookSpec co src obj f.id := by
      intro f hf
      unfold subPlanOf
      rw [lookup_map_key (fun f : InField => f.id) (fun f => fetchLinking allow src f) dst.fields hids f hf]
      cases hlk : linkedIn src f.id
      · have hnr : Refuses allow src f = false := by
          rw [List.any_eq_false] at hr
          simpa using hr f hf
        rw [fetchLinking_unlinked hlk]
        simp only [Refuses, hlk, Bool.not_false, Bool.true_and, Bool.or_eq_false_iff, Bool.not_eq_false'] at hnr
        simp [hnr.1, hnr.2, lookSpec, hlk]
      · rw [fetchLinking_linked hlk]
        simp [lookSpec, hlk]
    obtain ⟨args, hplan, hbind⟩ := bindCall_planCall
      (subPlanOf co obj (dst.fields.map fun f => (f.id, fetchLinking allow src f))) dst.params dst.kwargs
      hwf.names hwf.noPosOnly
    refine ⟨linkedArgs (subPlanOf co obj (dst.fields.map fun f => (f.id, fetchLinking allow src f))) dst.params,
      by simp [convertModel, hany, hr, hacc, hplan, hbind], ?_⟩
    have hcongr : linkedArgs (subPlanOf co obj (dst.fields.map fun f => (f.id, fetchLinking allow src f))) dst.params
        = (dst.params.map (·.fieldId)).filterMap fun id => (lookSpec co src obj id).map (id, ·) := by
      simp only [linkedArgs, List.filterMap_map, Function.comp_def]
      apply filterMap_congr_mem
      intro p hp
      have : p.fieldId ∈ dst.fields.map (·.id) := hwf.fields.mem_iff.mp (List.mem_map_of_mem hp)
      obtain ⟨f, hf, hfid⟩ := List.mem_map.mp this
      rw [← hfid, hlook f hf]
    rw [hcongr]
    exact hwf.fields.filterMap _

/-- a linked source field the object does not hold (a TypedDict source with an absent `NotRequired`
    key): the generated converter raises, whatever the destination's parameter list looks like -/
theorem convertModel_callError (allow : String → Bool) (co : String → V → W) (dst : InputShape) (src : OutputShape)
    (obj : List (String × V)) (hr : dst.fields.any (Refuses allow src) = false)
    (f : InField) (hf : f ∈ dst.fields) (hl : linkedIn src f.id = true) (ha : obj.lookup f.id = none) :
    convertModel allow co dst src obj = .callError := by
  have hany : (dst.fields.map fun f => (f.id, fetchLinking allow src f)).any (fun l => l.2.isRefused)
      = dst.fields.any (Refuses allow src) := by
    simp [List.any_map, Function.comp_def, fetchLinking_isRefused]
  have hacc : (dst.fields.map fun f => (f.id, fetchLinking allow src f)).any
      (fun l => l.2.accessFails obj) = true := by
    rw [List.any_eq_true]
    refine ⟨(f.id, fetchLinking allow src f), List.mem_map_of_mem hf, ?_⟩
    rw [fetchLinking_linked hl]
    simp [Linking.accessFails, ha]
  simp [convertModel, hany, hr, hacc]

/-! ### from "the same multiset of arguments" to "the same argument for every field" -/

theorem filterMap_keys_sublist {α β : Type} (key : α → String) (g : α → Option β) :
    ∀ l : List α, ((l.filterMap fun x => (g x).map (key x, ·)).map (·.1)).Sublist (l.map key)
  | [] => by simp
  | x :: xs => by
    cases hg : g x with
    | none =>
      simp only [List.filterMap_cons, hg, Option.map_none, List.map_cons]
      exact (filterMap_keys_sublist key g xs).cons _
    | some b =>
      simp only [List.filterMap_cons, hg, Option.map_some, List.map_cons]
      exact (filterMap_keys_sublist key g xs).cons_cons _

theorem lookup_filterMap_key {α β : Type} (key : α → String) (g : α → Option β) :
    ∀ (l : List α), (l.map key).Nodup → ∀ a ∈ l, (l.filterMap fun x => (g x).map (key x, ·)).lookup (key a) = g a
  | [], _, a, ha => by simp at ha
  | x :: xs, hnd, a, ha => by
    rw [List.map_cons, List.nodup_cons] at hnd
    rcases List.mem_cons.mp ha with rfl | hmem
    · cases hg : g a with
      | none =>
        simp only [List.filterMap_cons, hg, Option.map_none]
        rw [List.lookup_eq_none_iff]
        intro kv hkv
        have : kv.1 ∈ xs.map key := (filterMap_keys_sublist key g xs).subset (List.mem_map_of_mem hkv)
        simp only [bne_iff_ne, ne_eq]
        intro h
        exact hnd.1 (h ▸ this)
      | some b => simp [List.filterMap_cons, hg, List.lookup_cons]
    · have hne : key a ≠ key x := fun h => hnd.1 (h ▸ List.mem_map_of_mem hmem)
      have hb : (key a == key x) = false := by simpa using hne
      cases hg : g x with
      | none =>
        simp only [List.filterMap_cons, hg, Option.map_none]
        exact lookup_filterMap_key key g xs hnd.2 a hmem
      | some b =>
        simp only [List.filterMap_cons, hg, Option.map_some, List.lookup_cons, hb]
        exact lookup_filterMap_key key g xs hnd.2 a hmem

theorem perm_lookup {β : Type} {l₁ l₂ : List (String × β)} (h : l₁.Perm l₂) (hnd : (l₁.map (·.1)).Nodup) (k : String) :
    l₁.lookup k = l₂.lookup k := by
  induction h with
  | nil => rfl
  | cons x _ ih =>
    rw [List.map_cons, List.nodup_cons] at hnd
    obtain ⟨a, b⟩ := x
    simp only [List.lookup_cons]
    split
    · rfl
    · exact ih hnd.2
  | swap x y l =>
    obtain ⟨a, b⟩ := x
    obtain ⟨c, d⟩ := y
    simp only [List.map_cons, List.nodup_cons, List.mem_cons, not_or] at hnd
    have hne : c ≠ a := hnd.1.1
    simp only [List.lookup_cons]
    cases h1 : k == c <;> cases h2 : k == a <;> simp_all
  | trans h1 _ ih1 ih2 =>
    exact (ih1 hnd).trans (ih2 ((h1.map (·.1)).nodup_iff.mp hnd))

end

end Adaptix.Kinds
