/-
  C15 helper lemmas, part 4: the tail of `_norm_union` computes a canonical
  representative of the *content* of the flattened members (the set of
  non-literal alternatives and the set of literal values).
-/
import AdaptixProofs.Lemmas.NormBasic

set_option linter.unusedSectionVars false

namespace Adaptix.Types

variable {α : Type} [DecidableEq α]

/-- `_norm_union` after `_unfold_union_args` -/
def collapse (W : World α) : List (Norm α) → Norm α
  | [arg] => remake W arg
  | merged => mkUnion W merged

def finishUnion (W : World α) (flat : List (Norm α)) : Norm α :=
  collapse W (mergeLiterals W (dedupNorms flat))

theorem normUnion_eq (W : World α) (ns : List (Norm α)) : normUnion W ns = finishUnion W (unfoldUnion ns) := by
  unfold normUnion finishUnion collapse
  simp only
  split <;> rename_i h
  · rw [h]
  · split <;> rename_i h'
    · exact absurd h' (h _)
    · rfl

/-! ### content -/

/-- same non-literal members and same literal values -/
def SameContent (l1 l2 : List (Norm α)) : Prop :=
  (∀ n, isLiteralNorm n = false → (n ∈ l1 ↔ n ∈ l2)) ∧ (∀ v, v ∈ collectLits l1 ↔ v ∈ collectLits l2)

theorem SameContent.refl (l : List (Norm α)) : SameContent l l := ⟨fun _ _ => Iff.rfl, fun _ => Iff.rfl⟩

theorem SameContent.symm {l1 l2 : List (Norm α)} (h : SameContent l1 l2) : SameContent l2 l1 :=
  ⟨fun n hn => (h.1 n hn).symm, fun v => (h.2 v).symm⟩

theorem SameContent.trans {l1 l2 l3 : List (Norm α)} (h : SameContent l1 l2) (h' : SameContent l2 l3) :
    SameContent l1 l3 :=
  ⟨fun n hn => (h.1 n hn).trans (h'.1 n hn), fun v => (h.2 v).trans (h'.2 v)⟩

theorem SameContent.of_mem_iff {l1 l2 : List (Norm α)} (h : ∀ x, x ∈ l1 ↔ x ∈ l2) : SameContent l1 l2 := by
  refine ⟨fun n _ => h n, fun v => ?_⟩
  simp only [mem_collectLits, h]

theorem collectLits_append (l1 l2 : List (Norm α)) : collectLits (l1 ++ l2) = collectLits l1 ++ collectLits l2 := by
  induction l1 with
  | nil => simp [collectLits]
  | cons n ns ih =>
    cases n with
    | node o args => cases o <;> simp [collectLits, ih]
    | ellipsis => simp [collectLits, ih]
    | lit v => simp [collectLits, ih]
    | mdata m => simp [collectLits, ih]

theorem SameContent.append {a a' b b' : List (Norm α)} (h1 : SameContent a a') (h2 : SameContent b b') :
    SameContent (a ++ b) (a' ++ b') := by
  refine ⟨fun n hn => ?_, fun v => ?_⟩
  · simp only [List.mem_append, h1.1 n hn, h2.1 n hn]
  · simp only [collectLits_append, List.mem_append, h1.2 v, h2.2 v]

theorem SameContent.dedup (l : List (Norm α)) : SameContent (dedupNorms l) l :=
  SameContent.of_mem_iff (fun x => mem_dedupNorms x l)

theorem collectLits_filter_nonlit (l : List (Norm α)) :
    collectLits (l.filter fun n => !isLiteralNorm n) = [] := by
  apply List.eq_nil_iff_forall_not_mem.mpr
  intro v hv
  obtain ⟨args, h, _⟩ := (mem_collectLits v _).mp hv
  have := (List.mem_filter.mp h).2
  simp [isLiteralNorm] at this

theorem collectLits_createNormLiteral (W : World α) (vs : List (LitVal α)) (v : LitVal α) :
    v ∈ collectLits [createNormLiteral W vs] ↔ v ∈ vs := by
  simp only [createNormLiteral, mkLiteral, collectLits, litArgs_map_lit, List.append_nil, mem_sortLits, mem_dedupLits]

/-- `_merge_literals` keeps the content -/
theorem SameContent.merge (W : World α) (d : List (Norm α)) : SameContent (mergeLiterals W d) d := by
  unfold mergeLiterals
  simp only
  split <;> rename_i hL
  · refine ⟨fun n hn => ?_, fun v => ?_⟩
    · simp [List.mem_filter, hn]
    · rw [collectLits_filter_nonlit, hL]
  · refine ⟨fun n hn => ?_, fun v => ?_⟩
    · simp only [List.mem_append, List.mem_filter, List.mem_singleton, hn, Bool.not_false, and_true]
      constructor
      · rintro (h | h)
        · exact h
        · rw [h] at hn; simp [createNormLiteral, mkLiteral, isLiteralNorm] at hn
      · exact fun h => .inl h
    · rw [collectLits_append, collectLits_filter_nonlit, List.nil_append, collectLits_createNormLiteral]

/-! ### canonicity -/

variable (W : World α)

theorem keyLe_total (a b : Norm α) :
    (orderKey W a).le (orderKey W b) = true ∨ (orderKey W b).le (orderKey W a) = true := OKey.le_total _ _
theorem keyLe_trans (a b c : Norm α) (h1 : (orderKey W a).le (orderKey W b) = true)
    (h2 : (orderKey W b).le (orderKey W c) = true) : (orderKey W a).le (orderKey W c) = true := OKey.le_trans _ _ _ h1 h2
theorem litLe_total (a b : LitVal α) :
    (litKey W a).le (litKey W b) = true ∨ (litKey W b).le (litKey W a) = true := OKey.le_total _ _
theorem litLe_trans (a b c : LitVal α) (h1 : (litKey W a).le (litKey W b) = true)
    (h2 : (litKey W b).le (litKey W c) = true) : (litKey W a).le (litKey W c) = true := OKey.le_trans _ _ _ h1 h2

/-- `_LiteralNormType` of two duplicate-free value lists with the same members -/
theorem sortLits_canonical (hK : DistinctOrderKeys W) (l1 l2 : List (LitVal α)) (n1 : l1.Nodup) (n2 : l2.Nodup)
    (hm : ∀ x, x ∈ l1 ↔ x ∈ l2) : sortLits W l1 = sortLits W l2 := by
  apply stableSort_canonical _ (litLe_total W) (litLe_trans W) l1 l2 _ n1 n2 hm
  intro a b _ _ h1 h2
  exact hK.literals a b (OKey.le_antisymm _ _ h1 h2)

theorem createNormLiteral_congr (hK : DistinctOrderKeys W) (l1 l2 : List (LitVal α)) (hm : ∀ x, x ∈ l1 ↔ x ∈ l2) :
    createNormLiteral W l1 = createNormLiteral W l2 := by
  unfold createNormLiteral mkLiteral
  rw [sortLits_canonical W hK _ _ (dedupLits_nodup l1) (dedupLits_nodup l2)]
  intro x; rw [mem_dedupLits, mem_dedupLits]; exact hm x

theorem mkLiteral_congr (hK : DistinctOrderKeys W) (l1 l2 : List (LitVal α)) (n1 : l1.Nodup) (n2 : l2.Nodup)
    (hm : ∀ x, x ∈ l1 ↔ x ∈ l2) : mkLiteral W l1 = mkLiteral W l2 := by
  unfold mkLiteral
  rw [sortLits_canonical W hK _ _ n1 n2 hm]

theorem mkUnion_canonical (hK : DistinctOrderKeys W) (m1 m2 : List (Norm α)) (n1 : m1.Nodup) (n2 : m2.Nodup)
    (hm : ∀ x, x ∈ m1 ↔ x ∈ m2) (hr : ∀ x, x ∈ m1 → Reach W x) : mkUnion W m1 = mkUnion W m2 := by
  unfold mkUnion
  congr 1
  apply stableSort_canonical _ (keyLe_total W) (keyLe_trans W) m1 m2 _ n1 n2 hm
  intro a b ha hb h1 h2
  exact hK.members a b (hr a ha) (hr b hb) (OKey.le_antisymm _ _ h1 h2)

theorem collapse_congr (hK : DistinctOrderKeys W) (m1 m2 : List (Norm α)) (n1 : m1.Nodup) (n2 : m2.Nodup)
    (hm : ∀ x, x ∈ m1 ↔ x ∈ m2) (hr : ∀ x, x ∈ m1 → Reach W x) : collapse W m1 = collapse W m2 := by
  have hp : m1.Perm m2 := (List.perm_ext_iff_of_nodup n1 n2).mpr hm
  match m1, m2, hp with
  | [], m2, hp => rw [List.nil_perm.mp hp]
  | [a], m2, hp => rw [List.singleton_perm.mp hp]
  | a :: b :: t, [], hp => exact absurd hp.length_eq (by simp)
  | a :: b :: t, [c], hp => exact absurd hp.length_eq (by simp)
  | a :: b :: t, c :: d :: t', hp =>
    simp only [collapse]
    exact mkUnion_canonical W hK _ _ n1 n2 hm hr

theorem mergeLiterals_nodup (d : List (Norm α)) (hd : d.Nodup) : (mergeLiterals W d).Nodup := by
  unfold mergeLiterals
  simp only
  split
  · exact hd.filter _
  · apply List.nodup_append.mpr
    refine ⟨hd.filter _, by simp, ?_⟩
    intro a ha b hb
    rw [List.mem_singleton] at hb
    subst hb
    intro e; subst e
    have := (List.mem_filter.mp ha).2
    simp [createNormLiteral, mkLiteral, isLiteralNorm] at this

theorem reach_createNormLiteral (vs : List (LitVal α)) : Reach W (createNormLiteral W vs) := .inr ⟨_, rfl⟩

theorem mem_mergeLiterals_reach (d : List (Norm α)) (hr : ∀ x, x ∈ d → Reach W x) :
    ∀ x, x ∈ mergeLiterals W d → Reach W x := by
  intro x hx
  unfold mergeLiterals at hx
  simp only at hx
  split at hx
  · exact hr x (List.mem_filter.mp hx).1
  · rcases List.mem_append.mp hx with h | h
    · exact hr x (List.mem_filter.mp h).1
    · rw [List.mem_singleton.mp h]; exact reach_createNormLiteral W _

/-- membership in `_merge_literals`' result is determined by the content -/
theorem mergeLiterals_mem_congr (hK : DistinctOrderKeys W) (d1 d2 : List (Norm α)) (h : SameContent d1 d2) :
    ∀ x, x ∈ mergeLiterals W d1 ↔ x ∈ mergeLiterals W d2 := by
  have hnil : collectLits d1 = [] ↔ collectLits d2 = [] := by
    simp only [List.eq_nil_iff_forall_not_mem, h.2]
  have hlit := createNormLiteral_congr W hK (collectLits d1) (collectLits d2) h.2
  have hfil : ∀ x, x ∈ d1.filter (fun n => !isLiteralNorm n) ↔ x ∈ d2.filter (fun n => !isLiteralNorm n) := by
    intro x
    simp only [List.mem_filter, Bool.not_eq_true']
    constructor
    · rintro ⟨h1, h2⟩; exact ⟨(h.1 x h2).mp h1, h2⟩
    · rintro ⟨h1, h2⟩; exact ⟨(h.1 x h2).mpr h1, h2⟩
  intro x
  unfold mergeLiterals
  simp only
  by_cases h1 : collectLits d1 = []
  · have h2 := hnil.mp h1
    simp only [h1, h2, if_true]
    exact hfil x
  · have h2 : ¬ collectLits d2 = [] := fun e => h1 (hnil.mpr e)
    simp only [h1, h2, if_false, List.mem_append, hfil x, hlit]

/-- **(C)** the union built from two flattened member lists with the same content is the same -/
theorem finishUnion_congr (hK : DistinctOrderKeys W) (l1 l2 : List (Norm α)) (hr : ∀ x, x ∈ l1 → Reach W x)
    (h : SameContent l1 l2) : finishUnion W l1 = finishUnion W l2 := by
  unfold finishUnion
  apply collapse_congr W hK
  · exact mergeLiterals_nodup W _ (dedupNorms_nodup l1)
  · exact mergeLiterals_nodup W _ (dedupNorms_nodup l2)
  · exact mergeLiterals_mem_congr W hK _ _
      ((SameContent.dedup l1).trans (h.trans (SameContent.dedup l2).symm))
  · exact mem_mergeLiterals_reach W _ (fun x hx => hr x ((mem_dedupNorms x l1).mp hx))

/-! ### `make_norm_type` on the single remaining member changes nothing -/

theorem isUnionNorm_of_literal {n : Norm α} (h : isLiteralNorm n = true) : isUnionNorm n = false := by
  obtain ⟨args, rfl⟩ := (isLiteralNorm_iff n).mp h
  rfl

theorem remake_of_other {n : Norm α} (h1 : isUnionNorm n = false) (h2 : isLiteralNorm n = false) : remake W n = n := by
  cases n with
  | node o args => cases o <;> simp_all [remake, isUnionNorm, isLiteralNorm]
  | ellipsis => rfl
  | lit v => rfl
  | mdata m => rfl

theorem sortLits_idem (vs : List (LitVal α)) : sortLits W (sortLits W vs) = sortLits W vs :=
  stableSort_idem _ (litLe_total W) (litLe_trans W) vs

theorem remake_mkLiteral (vs : List (LitVal α)) : remake W (mkLiteral W vs) = mkLiteral W vs := by
  simp only [mkLiteral, remake, litArgs_map_lit, sortLits_idem]

theorem remake_createNormLiteral (vs : List (LitVal α)) : remake W (createNormLiteral W vs) = createNormLiteral W vs :=
  remake_mkLiteral W _

theorem alts_mkUnion (m : List (Norm α)) :
    alts (mkUnion W m) = stableSort (fun a b => (orderKey W a).le (orderKey W b)) m := rfl

/-- the alternatives of the collapsed/sorted result have the content of the merged list -/
theorem alts_collapse_content (m : List (Norm α)) (h1 : ∀ x, x ∈ m → isUnionNorm x = false)
    (h2 : ∀ x, x ∈ m → isLiteralNorm x = true → remake W x = x) : SameContent (alts (collapse W m)) m := by
  match m with
  | [] => exact SameContent.of_mem_iff (fun x => by simp [collapse, alts_mkUnion, stableSort])
  | [x] =>
    have hx : remake W x = x := by
      by_cases hl : isLiteralNorm x = true
      · exact h2 x (by simp) hl
      · exact remake_of_other W (h1 x (by simp)) (by simpa using hl)
    simp only [collapse, hx, alts_of_not_union (h1 x (by simp))]
    exact SameContent.refl _
  | a :: b :: t =>
    simp only [collapse, alts_mkUnion]
    exact SameContent.of_mem_iff (fun x => mem_stableSort _ x _)

theorem mem_mergeLiterals_cases (d : List (Norm α)) (x : Norm α) (hx : x ∈ mergeLiterals W d) :
    (x ∈ d ∧ isLiteralNorm x = false) ∨ x = createNormLiteral W (collectLits d) := by
  unfold mergeLiterals at hx
  simp only at hx
  split at hx
  · have := List.mem_filter.mp hx
    exact .inl ⟨this.1, by simpa using this.2⟩
  · rcases List.mem_append.mp hx with h | h
    · have := List.mem_filter.mp h
      exact .inl ⟨this.1, by simpa using this.2⟩
    · exact .inr (List.mem_singleton.mp h)

/-- **(K)** the alternatives of a normalised union have the content of its flattened members -/
theorem alts_finishUnion_content (l : List (Norm α)) (hl : ∀ x, x ∈ l → isUnionNorm x = false) :
    SameContent (alts (finishUnion W l)) l := by
  unfold finishUnion
  refine (alts_collapse_content W _ ?_ ?_).trans ((SameContent.merge W _).trans (SameContent.dedup l))
  · intro x hx
    rcases mem_mergeLiterals_cases W _ x hx with ⟨h, _⟩ | h
    · exact hl x ((mem_dedupNorms x l).mp h)
    · rw [h]; rfl
  · intro x hx hlit
    rcases mem_mergeLiterals_cases W _ x hx with ⟨_, h⟩ | h
    · rw [h] at hlit; cases hlit
    · rw [h]; exact remake_createNormLiteral W _

theorem finishUnion_alts_not_union (l : List (Norm α)) (hl : ∀ x, x ∈ l → isUnionNorm x = false) :
    ∀ y, y ∈ alts (finishUnion W l) → isUnionNorm y = false := by
  intro y hy
  by_cases hlit : isLiteralNorm y = true
  · exact isUnionNorm_of_literal hlit
  · exact hl y (((alts_finishUnion_content W l hl).1 y (by simpa using hlit)).mp hy)

/-! ### invariants of normalised hints -/

theorem alts_node_of_ne_union {o : Origin α} (args : List (Norm α)) (h : o ≠ .union) :
    alts (.node o args) = [.node o args] := by
  cases o <;> simp_all [alts]

theorem normLiteral_alts_not_union (vs : List (LitVal α)) :
    ∀ y, y ∈ alts (normLiteral W vs) → isUnionNorm y = false := by
  intro y hy
  unfold normLiteral at hy
  split at hy
  · simp [noneN, alts] at hy; rw [hy]; rfl
  · split at hy
    · rw [alts_mkUnion, mem_stableSort] at hy
      simp only [List.mem_cons, List.not_mem_nil, or_false] at hy
      rcases hy with rfl | rfl <;> rfl
    · simp [mkLiteral, alts] at hy; rw [hy]; rfl

theorem normType_alts_not_union (n : Norm α) : ∀ y, y ∈ alts (normType W n) → isUnionNorm y = false := by
  intro y hy
  have generic : ∀ m : Norm α, y ∈ alts (Norm.node .type [m]) → isUnionNorm y = false := by
    intro m h; simp [alts] at h; rw [h]; rfl
  cases n with
  | node o args =>
    cases o <;> try exact generic _ hy
    simp only [normType, alts_mkUnion, mem_stableSort, List.mem_map] at hy
    obtain ⟨a, _, rfl⟩ := hy
    rfl
  | ellipsis => exact generic _ hy
  | lit v => exact generic _ hy
  | mdata m => exact generic _ hy

theorem normAnnotated_isNode (inner : Norm α) (ms : List (Norm α)) :
    ∃ args, normAnnotated inner ms = .node .annotated args := by
  cases inner with
  | node o args => cases o <;> simp [normAnnotated]
  | ellipsis => simp [normAnnotated]
  | lit v => simp [normAnnotated]
  | mdata m => simp [normAnnotated]

theorem normalizeList_eq_map (hs : List (Hint α)) : normalizeList W hs = hs.map (normalize W) := by
  induction hs with
  | nil => rfl
  | cons h t ih => simp [normalizeList, ih]

mutual
/-- no nested unions: the alternatives of a normalised hint are not unions -/
theorem alts_normalize_not_union : ∀ (h : Hint α) (y : Norm α), y ∈ alts (normalize W h) → isUnionNorm y = false
  | .none _, y, hy => by simp [normalize, noneN, alts] at hy; rw [hy]; rfl
  | .any, y, hy => by simp [normalize, anyN, alts] at hy; rw [hy]; rfl
  | .cls _, y, hy => by simp [normalize, alts] at hy; rw [hy]; rfl
  | .newType _, y, hy => by simp [normalize, alts] at hy; rw [hy]; rfl
  | .typeVar _ _ _, y, hy => by simp [normalize, alts] at hy; rw [hy]; rfl
  | .bare _ _ _, y, hy => by simp [normalize, alts] at hy; rw [hy]; rfl
  | .app _ _ _, y, hy => by simp [normalize, alts] at hy; rw [hy]; rfl
  | .tupleBare _, y, hy => by simp [normalize, alts] at hy; rw [hy]; rfl
  | .tupleVar _ _, y, hy => by simp [normalize, alts] at hy; rw [hy]; rfl
  | .tupleFix _ _, y, hy => by simp [normalize, alts] at hy; rw [hy]; rfl
  | .typeBare _, y, hy => by simp [normalize, alts] at hy; rw [hy]; rfl
  | .typeOf _ h, y, hy => normType_alts_not_union W _ y (by simpa [normalize] using hy)
  | .union _ ms, y, hy => by
    simp only [normalize, normUnion_eq] at hy
    exact finishUnion_alts_not_union W _ (unfold_normalizeList_not_union ms) y hy
  | .optional h, y, hy => by
    simp only [normalize, normUnion_eq] at hy
    refine finishUnion_alts_not_union W _ ?_ y hy
    intro x hx
    rw [unfoldUnion_cons, unfoldUnion_cons] at hx
    simp only [unfoldUnion, List.append_nil, List.mem_append] at hx
    rcases hx with hx | hx
    · exact alts_normalize_not_union h x hx
    · simp [noneN, alts] at hx; rw [hx]; rfl
  | .literal vs, y, hy => normLiteral_alts_not_union W vs y (by simpa [normalize] using hy)
  | .annotated h ms, y, hy => by
    simp only [normalize] at hy
    obtain ⟨args, e⟩ := normAnnotated_isNode (normalize W h) (ms.map Norm.mdata)
    rw [e] at hy
    simp [alts] at hy; rw [hy]; rfl
theorem unfold_normalizeList_not_union : ∀ (hs : List (Hint α)) (y : Norm α),
    y ∈ unfoldUnion (normalizeList W hs) → isUnionNorm y = false
  | [], y, hy => by simp [normalizeList, unfoldUnion] at hy
  | h :: hs, y, hy => by
    rw [normalizeList, unfoldUnion_cons, List.mem_append] at hy
    rcases hy with hy | hy
    · exact alts_normalize_not_union h y hy
    · exact unfold_normalizeList_not_union hs y hy
end

theorem unfold_normalizeList_reach (hs : List (Hint α)) : ∀ x, x ∈ unfoldUnion (normalizeList W hs) → Reach W x := by
  intro x hx
  obtain ⟨n, hn, hxn⟩ := (mem_unfoldUnion x _).mp hx
  rw [normalizeList_eq_map, List.mem_map] at hn
  obtain ⟨h, _, rfl⟩ := hn
  exact .inl ⟨h, hxn⟩

end Adaptix.Types
