/-
  C01 helper lemmas: Optional and general unions.
-/
import AdaptixProofs.Lemmas.MorphRTMono

namespace Adaptix.Morph
open Adaptix.Py Adaptix.Morph.C01

theorem rt_isNoneTyD_eq (t : Ty) : isNoneTyD t = isNoneTy t := by
  unfold isNoneTyD isNoneTy
  split
  · rfl
  · split
    · rename_i h; exact absurd rfl h
    · rfl

theorem rt_isNoneTy_eq {t : Ty} (h : isNoneTy t = true) : t = .scalar "none" := by
  unfold isNoneTy at h
  split at h
  · rfl
  · cases h

theorem rt_dumpUnion_optional {DW : DumpWorld} {cases : List Ty} {keys : List String}
    {dm : Ty → Val → Outcome Val} {x : Val} (h : isSingleOptional cases = true) :
    dumpUnion DW cases keys dm x =
      if x.isNone then .ok .none else dm (optionalOther cases) x := by
  cases cases with
  | nil => simp [isSingleOptional] at h
  | cons a l =>
    cases l with
    | nil => simp [isSingleOptional] at h
    | cons b l =>
      cases l with
      | nil =>
        simp only [isSingleOptional] at h
        simp only [dumpUnion, rt_isNoneTyD_eq, h, if_true, optionalOther]
      | cons c l => simp [isSingleOptional] at h

theorem rt_dumpUnion_general {DW : DumpWorld} {cases : List Ty} {keys : List String}
    {dm : Ty → Val → Outcome Val} {x : Val} (h : isSingleOptional cases = false) :
    dumpUnion DW cases keys dm x = dumpUnion.general DW cases keys dm x := by
  cases cases with
  | nil => simp [dumpUnion]
  | cons a l =>
    cases l with
    | nil => simp [dumpUnion]
    | cons b l =>
      cases l with
      | nil =>
        simp only [isSingleOptional] at h
        simp [dumpUnion, rt_isNoneTyD_eq, h]
      | cons c l => simp [dumpUnion]

/-- what the general union dumper returns for the case `UnionPick` names -/
theorem rt_dumpUnion_pick {DW : DumpWorld} {cases : List Ty} {keys : List String}
    {dm : Ty → Val → Outcome Val} {x : Val} {t : Ty} (h : UnionPick DW cases keys x t) :
    (dumpUnion.general DW cases keys dm x = .ok x ∧ ∃ ws, t = .literal ws) ∨
    dumpUnion.general DW cases keys dm x = dm t x := by
  rcases h with ⟨vs, ws, h1, h2, h3⟩ | ⟨h1, h2⟩
  · left
    exact ⟨by simp [dumpUnion.general, h1, h2], ws, h3⟩
  · right
    unfold dumpUnion.general
    cases hl : literalVals cases with
    | none => simp [dumpUnion.byClass, h2]
    | some vs => simp [h1 vs hl, dumpUnion.byClass, h2]

theorem rt_dumpUnion_lit {DW : DumpWorld} {cases : List Ty} {keys : List String}
    {dm : Ty → Val → Outcome Val} {x : Val} {vs : List Val} (h1 : literalVals cases = some vs)
    (h2 : Val.memOf x vs = true) : dumpUnion.general DW cases keys dm x = .ok x := by
  simp [dumpUnion.general, h1, h2]

theorem rt_dumpUnion_cls {DW : DumpWorld} {cases : List Ty} {keys : List String}
    {dm : Ty → Val → Outcome Val} {x : Val} {t : Ty}
    (h1 : ∀ vs, literalVals cases = some vs → Val.memOf x vs = false)
    (h2 : dispatchCase DW (dispatchTable keys cases []) x = some t) :
    dumpUnion.general DW cases keys dm x = dm t x := by
  unfold dumpUnion.general
  cases hl : literalVals cases with
  | none => simp [dumpUnion.byClass, h2]
  | some vs => simp [h1 vs hl, dumpUnion.byClass, h2]

/-! ### the loader finds the case -/

theorem rt_unionFirstOk_hit {ld : Ty → Val → Outcome Val} {d x : Val} {pre post : List Ty} {t : Ty}
    (hpre : ∀ u ∈ pre, ∃ e, ld u d = .err e) (ht : ld t d = .ok x) (errs : List LErr) :
    (unionFirstOk ((pre ++ t :: post).map fun c => ld c d) errs).1 = .ok x := by
  induction pre generalizing errs with
  | nil => simp [unionFirstOk, ht]
  | cons u pre ih =>
    obtain ⟨e, he⟩ := hpre u (by simp)
    simp only [List.cons_append, List.map_cons, he, unionFirstOk]
    exact ih (fun u' hu' => hpre u' (by simp [hu'])) _

theorem rt_unionAll_hit {ld : Ty → Val → Outcome Val} {d x : Val} {pre post : List Ty} {t : Ty}
    (hpre : ∀ u ∈ pre, ∃ e, ld u d = .err e) (ht : ld t d = .ok x) (errs : List LErr) :
    unionAll ((pre ++ t :: post).map fun c => ld c d) errs false = .ok x := by
  induction pre generalizing errs with
  | nil => simp [unionAll, ht]
  | cons u pre ih =>
    obtain ⟨e, he⟩ := hpre u (by simp)
    simp only [List.cons_append, List.map_cons, he, unionAll]
    exact ih (fun u' hu' => hpre u' (by simp [hu'])) _

/-- **general unions**: earlier cases reject, the picked case loads -/
theorem rt_loadUnion_general_hit {cfg : Cfg} {ld : Ty → Val → Outcome Val} {d x : Val}
    {pre post : List Ty} {t : Ty}
    (hpre : ∀ u ∈ pre, ∃ e, ld u d = .err e) (ht : ld t d = .ok x) :
    loadUnion.general cfg (pre ++ t :: post) ld d = .ok x := by
  unfold loadUnion.general
  have hfo := rt_unionFirstOk_hit (post := post) hpre ht []
  cases htr : cfg.trail with
  | disable =>
    simp only
    generalize unionFirstOk ((pre ++ t :: post).map fun c => ld c d) [] = r at hfo
    obtain ⟨o, es⟩ := r
    simp only at hfo; subst hfo; rfl
  | first =>
    simp only
    generalize unionFirstOk ((pre ++ t :: post).map fun c => ld c d) [] = r at hfo
    obtain ⟨o, es⟩ := r
    simp only at hfo; subst hfo; rfl
  | all => exact rt_unionAll_hit hpre ht []

/-- **Optional**: the single-optional shortcut on a non-None datum returns what the other case loads -/
theorem rt_optWrap_ok {cfg : Cfg} {d x : Val} : rtOptWrap cfg d (.ok x) = .ok x := by
  cases htr : cfg.trail <;> simp [rtOptWrap, htr]

end Adaptix.Morph
