/-
  C05 — what a raised tree reports (`reports`, `reportKeys`): behaviour under
  `append_trail`, groups, unions; the reports of an ALL-mode sweep; exactly located
  trees have exactly located reports.
-/
import AdaptixProofs.Lemmas.MorphTrailExact

namespace Adaptix.Morph
open Adaptix.Py

/-! ### `reports` -/

theorem trail_reportsL_eq (cs : List LErr) : reportsL cs = cs.flatMap reports := by
  induction cs with
  | nil => simp [reportsL]
  | cons c cs ih => simp [reportsL, ih]

theorem trail_reports_push (el : TrailEl) (e : LErr) :
    reports (e.push el) = (reports e).map (fun p => (el :: p.1, p.2)) := by
  obtain ⟨cls, t, i, det, ch⟩ := e
  simp only [LErr.push, reports]
  split <;> simp

theorem trail_reportKeys_push (el : TrailEl) (e : LErr) :
    reportKeys (e.push el) = trailPre el (reportKeys e) := by
  simp [reportKeys, trail_reports_push, trailPre]

/-- prefix with an optional trail element -/
def trailPreO {α : Type} : Option TrailEl → List (List TrailEl × α) → List (List TrailEl × α)
  | some el, fs => trailPre el fs
  | none, fs => fs

theorem trail_reportKeys_pushO (el : Option TrailEl) (e : LErr) :
    reportKeys (e.pushO el) = trailPreO el (reportKeys e) := by
  cases el <;> simp [LErr.pushO, trailPreO, trail_reportKeys_push]

theorem trail_reports_agg (errs : List LErr) : reports (LErr.agg errs) = errs.flatMap reports := by
  simp [LErr.agg, reports, trail_reportsL_eq]

theorem trail_reportKeys_agg (errs : List LErr) :
    reportKeys (LErr.agg errs) = errs.flatMap reportKeys := by
  simp only [reportKeys, trail_reports_agg, List.map_flatMap]
  rfl

theorem trail_reports_union (errs : List LErr) :
    reports (LErr.union errs) = [([], LErr.union errs)] := by
  simp [LErr.union, reports]

theorem trail_reports_leaf {cls : String} (h : cls ≠ "AggregateLoadError") (d : Val) :
    reports (LErr.leaf cls d) = [([], LErr.leaf cls d)] := by
  simp [LErr.leaf, reports, h]

theorem trail_reports_leafD {cls : String} (h : cls ≠ "AggregateLoadError") (d : Val) (det : List String) :
    reports (LErr.leafD cls d det) = [([], LErr.leafD cls d det)] := by
  simp [LErr.leafD, reports, h]

theorem trail_reportKeys_leaf {cls : String} (h : cls ≠ "AggregateLoadError") (d : Val) :
    reportKeys (LErr.leaf cls d) = [([], cls)] := by
  rw [reportKeys, trail_reports_leaf h]; rfl

theorem trail_reportKeys_leafD {cls : String} (h : cls ≠ "AggregateLoadError") (d : Val) (det : List String) :
    reportKeys (LErr.leafD cls d det) = [([], cls)] := by
  rw [reportKeys, trail_reports_leafD h]; rfl

theorem trail_reportKeys_union (errs : List LErr) :
    reportKeys (LErr.union errs) = [([], "UnionLoadError")] := by
  rw [reportKeys, trail_reports_union]; rfl

/-- a scalar leaf's error is one report at the empty trail -/
theorem trail_reports_scalar {W : World} (hW : LeafReportsInput W) (hG : LeafNotGroup W)
    {s : Bool} {name : String} {d : Val} {e : LErr} (h : W.scalarLoad s name d = .err e) :
    reports e = [([], e)] := by
  obtain ⟨h1, _, _⟩ := hW _ _ _ _ h
  have h2 := hG _ _ _ _ h
  obtain ⟨cls, t, i, det, ch⟩ := e
  simp only [LErr.trail, LErr.cls] at h1 h2
  subst h1
  simp [reports, h2]

/-! ### the reports of an ALL-mode sweep -/

/-- (trail, class) pairs one item contributes -/
def trailItemKeys1 (it : Option TrailEl × Outcome Val) : List (List TrailEl × String) :=
  match it.2 with
  | .err e => trailPreO it.1 (reportKeys e)
  | _ => []

def trailItemKeys (items : List (Option TrailEl × Outcome Val)) : List (List TrailEl × String) :=
  items.flatMap trailItemKeys1

theorem trail_reportKeys_sweep (items : List (Option TrailEl × Outcome Val)) :
    reportKeys (LErr.agg (trailSweepErrs items)) = trailItemKeys items := by
  rw [trail_reportKeys_agg]
  induction items with
  | nil => simp [trailSweepErrs, trailItemKeys]
  | cons it rest ih =>
    obtain ⟨el, o⟩ := it
    simp only [trailSweepErrs, trailItemKeys] at ih
    cases o <;>
      simp [trailSweepErrs, trailItemKeys, trailItemKeys1, ih, trail_reportKeys_pushO]

theorem trail_itemKeys_of_ok {items : List (Option TrailEl × Outcome Val)}
    (h : ∀ it ∈ items, ∃ v, it.2 = .ok v) : trailItemKeys items = [] := by
  simp only [trailItemKeys, List.flatMap_eq_nil_iff]
  intro it hit
  obtain ⟨v, hv⟩ := h it hit
  simp [trailItemKeys1, hv]

theorem trail_preO_ne_nil {α : Type} (el : Option TrailEl) {fs : List (List TrailEl × α)}
    (h : fs ≠ []) : trailPreO el fs ≠ [] := by
  cases el <;> simp [trailPreO, trailPre, h]

theorem trail_perm_flatMap {α β : Type} {l : List α} {f g : α → List β}
    (h : ∀ a ∈ l, (f a).Perm (g a)) : (l.flatMap f).Perm (l.flatMap g) := by
  induction l with
  | nil => simp
  | cons a l ih =>
    simp only [List.flatMap_cons]
    exact (h a List.mem_cons_self).append (ih fun b hb => h b (List.mem_cons_of_mem _ hb))

/-- how an ALL-mode sweep relates to a specification list `F`, given that the items'
    contributions are a permutation of `F` whenever nothing escaped or diverged -/
theorem faults_sweep_finish {items : List (Option TrailEl × Outcome Val)}
    {F : List (List TrailEl × String)}
    (hperm : (∀ it ∈ items, trailClean it.2) → (trailItemKeys items).Perm F)
    (hne : ∀ el e0, (el, Outcome.err e0) ∈ items → reportKeys e0 ≠ []) :
    (∀ vs, (sweepAll items).finish = .ok vs → F = []) ∧
    (∀ e, (sweepAll items).finish = .err e → (reportKeys e).Perm F ∧ reportKeys e ≠ []) := by
  refine ⟨?_, ?_⟩
  · intro vs h
    have hok := trail_finish_ok h
    have hp := hperm (fun it hit => Or.inl (hok it hit))
    rw [trail_itemKeys_of_ok hok] at hp
    exact hp.nil_eq.symm
  · intro e h
    obtain ⟨rfl, hnn, hclean⟩ := trail_finish_err h
    rw [trail_reportKeys_sweep]
    refine ⟨hperm hclean, ?_⟩
    obtain ⟨c, cs, hcs⟩ := List.exists_cons_of_ne_nil hnn
    have hc : c ∈ trailSweepErrs items := by rw [hcs]; exact List.mem_cons_self
    obtain ⟨el, e0, hmem, rfl⟩ := trail_mem_sweepErrs hc
    intro hnil
    have hsub : trailItemKeys1 (el, Outcome.err e0) = [] := by
      simp only [trailItemKeys, List.flatMap_eq_nil_iff] at hnil
      exact hnil _ hmem
    exact trail_preO_ne_nil el (hne el e0 hmem) (by simpa [trailItemKeys1] using hsub)

/-- one item against the faults of its child -/
theorem faults_item {o : Outcome Val} {F : List (List TrailEl × String)} (el : Option TrailEl)
    (hclean : trailClean o) (hok : ∀ v, o = .ok v → F = [])
    (herr : ∀ e, o = .err e → (reportKeys e).Perm F) :
    (trailItemKeys1 (el, o)).Perm (trailPreO el F) := by
  rcases hclean with ⟨v, rfl⟩ | ⟨e, rfl⟩
  · rw [hok v rfl]; cases el <;> simp [trailItemKeys1, trailPreO, trailPre]
  · have := herr e rfl
    cases el with
    | none => simpa [trailItemKeys1, trailPreO] using this
    | some el => simpa [trailItemKeys1, trailPreO, trailPre] using this.map _

/-! ### exactly located trees have exactly located reports -/

theorem trail_follow_append (d : Val) (a b : List TrailEl) :
    follow d (a ++ b) = (follow d a).bind (fun y => follow y b) := by
  induction a generalizing d with
  | nil => simp [follow]
  | cons el a ih =>
    simp only [List.cons_append, follow]
    cases trailStep d el with
    | none => simp
    | some y => simp [ih]

/-- every report of an exactly located tree: its absolute trail leads from the root to
    a sub-value, which is the recorded input; and the report's own sub-exceptions (the
    alternatives of a union) are exactly located relative to that sub-value -/
theorem trail_exact_reports {d : Val} {e : LErr} (h : TrailExact d e) :
    ∀ p ∈ reports e, p.2.cls ≠ "AggregateLoadError" ∧
      ∃ x, follow d p.1 = some x ∧ TrailInputOk x p.2.cls p.2.input ∧
        ∀ c ∈ p.2.children, TrailExact x c := by
  induction h with
  | @mk d x cls t i det ch hf hi hc ih =>
    intro p hp
    simp only [reports] at hp
    split at hp
    · rw [trail_reportsL_eq] at hp
      obtain ⟨q, hq, rfl⟩ := List.mem_map.mp hp
      obtain ⟨c, hcm, hqc⟩ := List.mem_flatMap.mp hq
      obtain ⟨hne, y, hy1, hy2, hy3⟩ := ih c hcm q hqc
      refine ⟨hne, y, ?_, hy2, hy3⟩
      simp [trail_follow_append, hf, hy1]
    · rename_i hcls
      simp only [List.mem_singleton] at hp
      subst hp
      exact ⟨by simpa [LErr.cls] using hcls, x, hf, hi, hc⟩

end Adaptix.Morph
