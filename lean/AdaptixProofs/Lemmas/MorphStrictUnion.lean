/-
  C07 helper lemmas, part 3: unions, the overlap hypothesis `NoLaxOverlap`, and
  the two fuel inductions.
-/
import AdaptixProofs.Lemmas.MorphStrictLoad

namespace Adaptix.Morph
open Adaptix.Py

/-! ### the union loader on lists of case outcomes -/

theorem strict_firstNonErr_some {os : List (Outcome Val)} {o : Outcome Val} (h : firstNonErr os = some o) :
    ∃ pre post, os = pre ++ o :: post ∧ ∀ p ∈ pre, p.isErr = true := by
  induction os with
  | nil => simp [firstNonErr] at h
  | cons a rest ih =>
    cases a with
    | err e =>
      obtain ⟨pre, post, h1, h2⟩ := ih (by simpa [firstNonErr] using h)
      refine ⟨.err e :: pre, post, by simp [h1], ?_⟩
      intro p hp
      rcases List.mem_cons.mp hp with rfl | hp
      · rfl
      · exact h2 p hp
    | ok v => simp [firstNonErr] at h; subst h; exact ⟨[], rest, rfl, by simp⟩
    | escape x => simp [firstNonErr] at h; subst h; exact ⟨[], rest, rfl, by simp⟩
    | diverge => simp [firstNonErr] at h; subst h; exact ⟨[], rest, rfl, by simp⟩

theorem strict_firstNonErr_none {os : List (Outcome Val)} (h : firstNonErr os = none) :
    ∀ o ∈ os, o.isErr = true := by
  induction os with
  | nil => intro o ho; cases ho
  | cons a rest ih =>
    cases a with
    | err e =>
      intro o ho
      rcases List.mem_cons.mp ho with rfl | ho
      · rfl
      · exact ih (by simpa [firstNonErr] using h) o ho
    | ok v => simp [firstNonErr] at h
    | escape x => simp [firstNonErr] at h
    | diverge => simp [firstNonErr] at h

theorem strict_unionAll_ok {os : List (Outcome Val)} {errs : List LErr} {v : Val}
    (h : unionAll os errs false = .ok v) :
    ∃ pre post, os = pre ++ .ok v :: post ∧ ∀ p ∈ pre, p.isErr = true := by
  induction os generalizing errs with
  | nil => simp [unionAll] at h
  | cons a rest ih =>
    cases a with
    | err e =>
      obtain ⟨pre, post, h1, h2⟩ := ih (errs := errs ++ [e]) (by simpa [unionAll] using h)
      refine ⟨.err e :: pre, post, by simp [h1], ?_⟩
      intro p hp
      rcases List.mem_cons.mp hp with rfl | hp
      · rfl
      · exact h2 p hp
    | ok w => simp [unionAll] at h; subst h; exact ⟨[], rest, rfl, by simp⟩
    | escape x =>
      simp only [unionAll] at h
      rcases modes_unionAll_true rest errs with h1 | h1 <;> rw [h1] at h <;> cases h
    | diverge => simp [unionAll] at h

theorem strict_unionAll_err {os : List (Outcome Val)} {errs : List LErr} {u : Bool} {e : LErr}
    (h : unionAll os errs u = .err e) : ∀ o ∈ os, o.isErr = true := by
  cases u with
  | true => rcases modes_unionAll_true os errs with h1 | h1 <;> rw [h1] at h <;> cases h
  | false =>
    induction os generalizing errs with
    | nil => intro o ho; cases ho
    | cons a rest ih =>
      cases a with
      | err e' =>
        intro o ho
        rcases List.mem_cons.mp ho with rfl | ho
        · rfl
        · exact ih (errs := errs ++ [e']) (by simpa [unionAll] using h) o ho
      | ok w => simp [unionAll] at h
      | escape x =>
        simp only [unionAll] at h
        rcases modes_unionAll_true rest errs with h1 | h1 <;> rw [h1] at h <;> cases h
      | diverge => simp [unionAll] at h

/-- a successful general union: the winning case and the failing cases before it -/
theorem strict_generalUnion_ok {m : DebugTrail} {os : List (Outcome Val)} {v : Val}
    (h : generalUnion m os = .ok v) :
    ∃ pre post, os = pre ++ .ok v :: post ∧ ∀ p ∈ pre, p.isErr = true := by
  cases m with
  | disable =>
    simp only [generalUnion] at h
    cases hf : firstNonErr os with
    | none => rw [hf] at h; simp at h
    | some o => rw [hf] at h; simp at h; subst h; exact strict_firstNonErr_some hf
  | first =>
    simp only [generalUnion, unionFirstResult] at h
    cases hf : firstNonErr os with
    | none => rw [hf] at h; simp at h
    | some o => rw [hf] at h; simp at h; subst h; exact strict_firstNonErr_some hf
  | all => exact strict_unionAll_ok h

/-- a general union is a LoadError only if every case is -/
theorem strict_generalUnion_noErr {m : DebugTrail} {os : List (Outcome Val)}
    (h : ∃ o ∈ os, o.isErr = false) : (generalUnion m os).isErr = false := by
  obtain ⟨o, ho, hne⟩ := h
  cases m with
  | disable =>
    simp only [generalUnion]
    cases hf : firstNonErr os with
    | none => rw [strict_firstNonErr_none hf o ho] at hne; cases hne
    | some o' =>
      have := modes_firstNonErr_not_err hf
      cases o' with
      | err e => exact absurd rfl (this e)
      | _ => rfl
  | first =>
    simp only [generalUnion, unionFirstResult]
    cases hf : firstNonErr os with
    | none => rw [strict_firstNonErr_none hf o ho] at hne; cases hne
    | some o' =>
      have := modes_firstNonErr_not_err hf
      cases o' with
      | err e => exact absurd rfl (this e)
      | _ => rfl
  | all =>
    simp only [generalUnion]
    cases hu : unionAll os [] false with
    | err e => rw [strict_unionAll_err hu o ho] at hne; cases hne
    | _ => rfl

theorem strict_firstNonErr_decomp {pre post : List (Outcome Val)} {o : Outcome Val}
    (hpre : ∀ p ∈ pre, p.isErr = true) (ho : o.isErr = false) :
    firstNonErr (pre ++ o :: post) = some o := by
  induction pre with
  | nil => cases o <;> first | rfl | cases ho
  | cons a rest ih =>
    have ha : a.isErr = true := hpre a (by simp)
    cases a with
    | err e => simpa [firstNonErr] using ih fun p hp => hpre p (by simp [hp])
    | _ => cases ha

theorem strict_unionAll_decomp {pre post : List (Outcome Val)} {v : Val} (errs : List LErr)
    (hpre : ∀ p ∈ pre, p.isErr = true) : unionAll (pre ++ .ok v :: post) errs false = .ok v := by
  induction pre generalizing errs with
  | nil => rfl
  | cons a rest ih =>
    have ha : a.isErr = true := hpre a (by simp)
    cases a with
    | err e => simpa [unionAll] using ih (errs ++ [e]) fun p hp => hpre p (by simp [hp])
    | _ => cases ha

theorem strict_generalUnion_decomp (m : DebugTrail) {pre post : List (Outcome Val)} {v : Val}
    (hpre : ∀ p ∈ pre, p.isErr = true) : generalUnion m (pre ++ .ok v :: post) = .ok v := by
  cases m with
  | disable => simp [generalUnion, strict_firstNonErr_decomp hpre (o := .ok v) rfl]
  | first => simp [generalUnion, unionFirstResult, strict_firstNonErr_decomp hpre (o := .ok v) rfl]
  | all => exact strict_unionAll_decomp [] hpre

theorem strict_singleOptional_mem {cases : List Ty} {other : Ty} (h : singleOptional? cases = some other) :
    other ∈ cases := by
  unfold singleOptional? at h
  split at h
  · rename_i a b
    by_cases hc : (isNoneTy a || isNoneTy b) = true
    · simp only [hc, if_true, Option.some.injEq] at h
      subst h
      by_cases ha : isNoneTy a = true <;> simp [ha]
    · simp [hc] at h
  · cases h

theorem strict_wrapOptional_ok {m : DebugTrail} {d : Val} {o : Outcome Val} {v : Val}
    (h : wrapOptional m d o = .ok v) : o = .ok v := by
  cases m <;> cases o <;> simp_all [wrapOptional]

theorem strict_wrapOptional_noErr (m : DebugTrail) (d : Val) {o : Outcome Val} (h : o.isErr = false) :
    (wrapOptional m d o).isErr = false := by
  cases m <;> cases o <;> first | rfl | cases h

theorem strict_narrowA_loadUnion (m : DebugTrail) (cases : List Ty) (ld ld' : Ty → Val → Outcome Val) (d : Val)
    (h : ∀ c ∈ cases, NarrowA (ld c d) (ld' c d)) :
    NarrowA (loadUnion ⟨m, true⟩ cases ld d) (loadUnion ⟨m, false⟩ cases ld' d) := by
  rw [modes_loadUnion_eq, modes_loadUnion_eq]
  cases hso : singleOptional? cases with
  | some other =>
    simp only
    split
    · exact fun _ => rfl
    · intro hok
      obtain ⟨v, hv⟩ := strict_isOk_iff.mp hok
      have := strict_wrapOptional_ok hv
      exact strict_wrapOptional_noErr m d (h other (strict_singleOptional_mem hso) (by rw [this]; rfl))
  | none =>
    simp only
    intro hok
    obtain ⟨v, hv⟩ := strict_isOk_iff.mp hok
    obtain ⟨pre, post, hdec, _⟩ := strict_generalUnion_ok hv
    have hmem : Outcome.ok v ∈ cases.map fun c => ld c d := by rw [hdec]; simp
    obtain ⟨c, hc, hcv⟩ := List.mem_map.mp hmem
    exact strict_generalUnion_noErr
      ⟨ld' c d, List.mem_map.mpr ⟨c, hc, rfl⟩, h c hc (by rw [hcv]; rfl)⟩

/-! ### the overlap hypothesis -/

/-- **No lax overlap** along the strict run of `load W ⟨m, true⟩ n T d`: at every general
    `Union` node the run reaches, the cases *preceding* the strictly winning case are rejected
    (with a LoadError) by their lax loaders too — so the laxer rules do not let an earlier
    case win. Defined by recursion on the fuel, following the structure of `load`.
    (`Optional[T]` cannot overlap: `None` is tested by identity in both modes.) -/
def NoLaxOverlap (W : World) (m : DebugTrail) : Nat → Ty → Val → Prop
  | 0, _, _ => True
  | n + 1, ty, d =>
    match ty with
    | .union cases _ =>
      match singleOptional? cases with
      | some other => NoLaxOverlap W m n other d
      | none =>
        ∀ pre c post, cases = pre ++ c :: post →
          (∀ p ∈ pre, (load W ⟨m, true⟩ n p d).isErr = true) → (load W ⟨m, true⟩ n c d).isOk = true →
          (∀ p ∈ pre, (load W ⟨m, false⟩ n p d).isErr = true) ∧ NoLaxOverlap W m n c d
    | .iter _ _ e => ∀ xs, d.iterElems = some xs → ∀ x ∈ xs, NoLaxOverlap W m n e x
    | .tuple es => ∀ xs, d.iterElems = some xs → ∀ p ∈ es.zip xs, NoLaxOverlap W m n p.1 p.2
    | .dict k v => ∀ kvs, d = .dict kvs → ∀ p ∈ kvs, NoLaxOverlap W m n k p.1 ∧ NoLaxOverlap W m n v p.2
    | .model cls =>
      ∀ fields kvs, W.classes cls = some fields → d = .dict kvs →
        ∀ f ∈ fields, ∀ x, Val.lookup (.str f.name) kvs = some x → NoLaxOverlap W m n f.ty x
    | _ => True

theorem strict_narrowV_loadUnion (m : DebugTrail) (cases : List Ty) (ld ld' : Ty → Val → Outcome Val) (d : Val)
    (hopt : ∀ other, singleOptional? cases = some other → NarrowV (ld other d) (ld' other d))
    (hgen : singleOptional? cases = none → ∀ pre c post, cases = pre ++ c :: post →
      (∀ p ∈ pre, (ld p d).isErr = true) → (ld c d).isOk = true →
      (∀ p ∈ pre, (ld' p d).isErr = true) ∧ NarrowV (ld c d) (ld' c d)) :
    NarrowV (loadUnion ⟨m, true⟩ cases ld d) (loadUnion ⟨m, false⟩ cases ld' d) := by
  rw [modes_loadUnion_eq, modes_loadUnion_eq]
  cases hso : singleOptional? cases with
  | some other =>
    simp only
    split
    · exact fun _ h => h
    · intro v hv
      have := hopt other hso v (strict_wrapOptional_ok hv)
      rw [this]; cases m <;> rfl
  | none =>
    simp only
    intro v hv
    obtain ⟨pre, post, hdec, hpre⟩ := strict_generalUnion_ok hv
    obtain ⟨cpre, crest, hc1, hc2, hc3⟩ := List.map_eq_append_iff.mp hdec
    obtain ⟨c, cpost, hc4, hc5, hc6⟩ := List.map_eq_cons_iff.mp hc3
    subst hc1 hc4
    have hpre' : ∀ p ∈ cpre, (ld p d).isErr = true := fun p hp =>
      hpre (ld p d) (by rw [← hc2]; exact List.mem_map.mpr ⟨p, hp, rfl⟩)
    obtain ⟨hlax, hV⟩ := hgen hso cpre c cpost rfl hpre' (by rw [hc5]; rfl)
    have : (List.map (fun c => ld' c d) (cpre ++ c :: cpost)) =
        (cpre.map fun c => ld' c d) ++ .ok v :: (cpost.map fun c => ld' c d) := by
      simp [hV v hc5]
    rw [this]
    exact strict_generalUnion_decomp m fun p hp => by
      obtain ⟨q, hq, rfl⟩ := List.mem_map.mp hp
      exact hlax q hq

/-! ### the two inductions -/

section inductions
variable (W : World) (hW : LeafNarrowing W) (hWl : WorldNodes W litNodeFlat)
include hW hWl

theorem strict_narrowA_load (m : DebugTrail) (n : Nat) :
    ∀ (T : Ty) (d : Val), T.litFlat = true →
      NarrowA (load W ⟨m, true⟩ n T d) (load W ⟨m, false⟩ n T d) := by
  induction n with
  | zero => intro T d _; exact strict_narrowA_of_not_ok rfl
  | succ n ih =>
    intro T d hT
    cases T with
    | scalar sc =>
      intro hok
      obtain ⟨v, hv⟩ := strict_isOk_iff.mp hok
      rw [modes_load_scalar] at hv ⊢
      rw [hW sc d v hv]; rfl
    | any => exact strict_narrowA_refl_ok _
    | literal vals =>
      intro hok
      obtain ⟨v, hv⟩ := strict_isOk_iff.mp hok
      rw [modes_load_literal] at hv ⊢
      have hf : ∀ l ∈ vals, l.flat = true := by
        simpa [Ty.litFlat, Ty.allNodes, litNodeFlat] using hT
      rw [strict_loadLiteral_narrow vals hf d v hv]; rfl
    | union cases keys =>
      rw [modes_load_union, modes_load_union]
      have hc : ∀ c ∈ cases, c.litFlat = true := by
        have : allNodesList litNodeFlat cases = true := by
          simpa [Ty.litFlat, Ty.allNodes, litNodeFlat] using hT
        exact strict_allNodesList_mem this
      exact strict_narrowA_loadUnion m _ _ _ _ fun c hcm => ih c d (hc c hcm)
    | iter f dl e =>
      rw [modes_load_iter, modes_load_iter]
      have he : e.litFlat = true := by simpa [Ty.litFlat, Ty.allNodes, litNodeFlat] using hT
      exact strict_narrowA_loadIter m _ _ _ _ fun x => ih e x he
    | tuple elems =>
      rw [modes_load_tuple, modes_load_tuple]
      have hc : ∀ c ∈ elems, c.litFlat = true := by
        have : allNodesList litNodeFlat elems = true := by
          simpa [Ty.litFlat, Ty.allNodes, litNodeFlat] using hT
        exact strict_allNodesList_mem this
      exact strict_narrowA_loadTuple m _ _ _ _ fun t ht x => ih t x (hc t ht)
    | dict k v =>
      rw [modes_load_dict, modes_load_dict]
      have hkv : k.litFlat = true ∧ v.litFlat = true := by
        simpa [Ty.litFlat, Ty.allNodes, litNodeFlat] using hT
      exact strict_narrowA_loadDict m _ _ _ _ _ (fun x => ih k x hkv.1) (fun x => ih v x hkv.2)
    | model cls =>
      rw [modes_load_model, modes_load_model]
      cases hcl : W.classes cls with
      | none => exact strict_narrowA_of_not_ok rfl
      | some fields =>
        exact strict_narrowA_loadModel m _ _ _ _ _ fun f hf x => ih f.ty x (hWl cls fields hcl f hf)

theorem strict_narrowV_load (m : DebugTrail) (n : Nat) :
    ∀ (T : Ty) (d : Val), T.litFlat = true → NoLaxOverlap W m n T d →
      NarrowV (load W ⟨m, true⟩ n T d) (load W ⟨m, false⟩ n T d) := by
  induction n with
  | zero => intro T d _ _ v hv; cases hv
  | succ n ih =>
    intro T d hT hN
    cases T with
    | scalar sc =>
      intro v hv
      rw [modes_load_scalar] at hv ⊢
      exact hW sc d v hv
    | any => exact strict_narrowV_refl _
    | literal vals =>
      intro v hv
      rw [modes_load_literal] at hv ⊢
      have hf : ∀ l ∈ vals, l.flat = true := by
        simpa [Ty.litFlat, Ty.allNodes, litNodeFlat] using hT
      exact strict_loadLiteral_narrow vals hf d v hv
    | union cases keys =>
      rw [modes_load_union, modes_load_union]
      have hc : ∀ c ∈ cases, c.litFlat = true := by
        have : allNodesList litNodeFlat cases = true := by
          simpa [Ty.litFlat, Ty.allNodes, litNodeFlat] using hT
        exact strict_allNodesList_mem this
      simp only [NoLaxOverlap] at hN
      refine strict_narrowV_loadUnion m _ _ _ _ ?_ ?_
      · intro other hso
        rw [hso] at hN
        exact ih other d (hc other (strict_singleOptional_mem hso)) hN
      · intro hso pre c post hdec hpre hcok
        rw [hso] at hN
        obtain ⟨h1, h2⟩ := hN pre c post hdec hpre hcok
        exact ⟨h1, ih c d (hc c (by rw [hdec]; simp)) h2⟩
    | iter f dl e =>
      rw [modes_load_iter, modes_load_iter]
      have he : e.litFlat = true := by simpa [Ty.litFlat, Ty.allNodes, litNodeFlat] using hT
      simp only [NoLaxOverlap] at hN
      exact strict_narrowV_loadIter m _ _ _ _ fun xs hxs x hx => ih e x he (hN xs hxs x hx)
    | tuple elems =>
      rw [modes_load_tuple, modes_load_tuple]
      have hc : ∀ c ∈ elems, c.litFlat = true := by
        have : allNodesList litNodeFlat elems = true := by
          simpa [Ty.litFlat, Ty.allNodes, litNodeFlat] using hT
        exact strict_allNodesList_mem this
      simp only [NoLaxOverlap] at hN
      exact strict_narrowV_loadTuple m _ _ _ _ fun xs hxs p hp =>
        ih p.1 p.2 (hc p.1 (List.of_mem_zip hp).1) (hN xs hxs p hp)
    | dict k v =>
      rw [modes_load_dict, modes_load_dict]
      have hkv : k.litFlat = true ∧ v.litFlat = true := by
        simpa [Ty.litFlat, Ty.allNodes, litNodeFlat] using hT
      simp only [NoLaxOverlap] at hN
      exact strict_narrowV_loadDict m _ _ _ _ _ fun kvs hd p hp =>
        ⟨ih k p.1 hkv.1 (hN kvs hd p hp).1, ih v p.2 hkv.2 (hN kvs hd p hp).2⟩
    | model cls =>
      rw [modes_load_model, modes_load_model]
      cases hcl : W.classes cls with
      | none => intro v hv; cases hv
      | some fields =>
        simp only [NoLaxOverlap] at hN
        exact strict_narrowV_loadModel m _ _ _ _ _ fun kvs hd f hf x hl =>
          ih f.ty x (hWl cls fields hcl f hf) (hN fields kvs hcl hd f hf x hl)

end inductions

/-- a union-free type (in a union-free class table) has no union node to overlap at -/
theorem strict_noLaxOverlap_of_unionFree (W : World) (hWu : WorldNodes W notUnionNode) (m : DebugTrail)
    (n : Nat) : ∀ (T : Ty) (d : Val), T.unionFree = true → NoLaxOverlap W m n T d := by
  induction n with
  | zero => intro T d _; trivial
  | succ n ih =>
    intro T d hT
    cases T with
    | scalar sc => trivial
    | any => trivial
    | literal vals => trivial
    | union cases keys => simp [Ty.unionFree, Ty.allNodes, notUnionNode] at hT
    | iter f dl e =>
      have he : e.unionFree = true := by simpa [Ty.unionFree, Ty.allNodes, notUnionNode] using hT
      simp only [NoLaxOverlap]
      exact fun xs _ x _ => ih e x he
    | tuple elems =>
      have hc : ∀ c ∈ elems, c.unionFree = true := by
        have : allNodesList notUnionNode elems = true := by
          simpa [Ty.unionFree, Ty.allNodes, notUnionNode] using hT
        exact strict_allNodesList_mem this
      simp only [NoLaxOverlap]
      exact fun xs _ p hp => ih p.1 p.2 (hc p.1 (List.of_mem_zip hp).1)
    | dict k v =>
      have hkv : k.unionFree = true ∧ v.unionFree = true := by
        simpa [Ty.unionFree, Ty.allNodes, notUnionNode] using hT
      simp only [NoLaxOverlap]
      exact fun kvs _ p _ => ⟨ih k p.1 hkv.1, ih v p.2 hkv.2⟩
    | model cls =>
      simp only [NoLaxOverlap]
      exact fun fields kvs hcl _ f hf x _ => ih f.ty x (hWu cls fields hcl f hf)

end Adaptix.Morph
