/-
  C05 over name layouts — specification side.

  The generated model loader of a name layout (`Adaptix.Layout.loadModel`, Layout/ModelLoad.lean) walks ONE
  input crown with several dict / list nodes.  This file says, without running it, which errors it has to
  report for a datum:

  * `Fault`        one expected report: raised by the generated code at a crown node (`node`), or returned by
                   the loader of a field (`field`, with the crown path of the field, the value handed to the
                   loader and the error as the loader returned it, i.e. with its *relative* trail);
  * `Fault.abs` / `Fault.rel` / `Fault.report`  what FIRST / ALL (absolute trail) and DISABLE (nothing attached) show;
  * `faults cfg crown p d`  the expected faults of the crown at crown path `p` on the datum `d`: plain structural
                   recursion over the crown, NO state, NO flags — per dict node "missing required keys"
                   (`nrfFault`), then the faults of the children that are present, then "unknown keys"
                   (`extraFault`); per list node the children and the length fault; a node whose datum has the
                   wrong kind is ONE fault and nothing below it is looked at;
  * `Reaches`      which crown nodes are visited with which sub-datum;
  * `evts`         the same faults in the order in which the generated code meets them (the "missing keys" fault
                   sits where the first missing key is subscripted) — proof device, see LayoutTrailRun.lean.
-/
import AdaptixModel.Layout.ModelLoad

namespace Adaptix.Layout.Trail

open Adaptix.Layout

/-- one expected error report -/
inductive Fault where
  /-- raised by the generated loader itself for the crown node at path `p` -/
  | node (p : Path) (e : LErr)
  /-- the loader of field `id`, whose crown path is `q`, was called on `v` and returned `e` -/
  | field (q : Path) (id : String) (v : Val) (e : TErr)
deriving Repr, Inhabited

namespace Fault

/-- where the fault sits in the crown -/
def pos : Fault → Path
  | .node p _ => p
  | .field q _ _ _ => q

/-- the report with the trail from the root of the datum (FIRST, ALL) -/
def abs : Fault → TErr
  | .node p e => ⟨p, e⟩
  | .field q _ _ e => ⟨q ++ e.trail, e.err⟩

/-- the report with nothing attached by this loader (DISABLE) -/
def rel : Fault → TErr
  | .node _ e => ⟨[], e⟩
  | .field _ _ _ e => e

def report (m : DebugTrail) (f : Fault) : TErr :=
  match m with
  | .disable => f.rel
  | _ => f.abs

end Fault

/-! ### node-local faults -/

/-- the keys a dict node subscripts as required (`data[key]`): required fields and nested branches.
    A none-crown is never subscripted (`_gen_none_crown` is `pass`) although `requiredKeys` lists it. -/
def demandedKeys (cfg : LoadCfg) : List (String × InpCrown) → List String
  | [] => []
  | (_, .none) :: r => demandedKeys cfg r
  | (k, .field id) :: r => if (cfg.field id).required then k :: demandedKeys cfg r else demandedKeys cfg r
  | (k, _) :: r => k :: demandedKeys cfg r

/-- `NoRequiredFieldsLoadError` of a dict node at `p` with the mapping datum `d`: present iff a demanded key
    is absent; names the absent required keys -/
def nrfFault (cfg : LoadCfg) (p : Path) (m : List (String × InpCrown)) (d : Val) : List Fault :=
  if (demandedKeys cfg m).any (fun k => !d.keys.contains k) then
    [.node p (.noRequiredFields ((requiredKeys cfg m).filter fun k => !d.keys.contains k) d)]
  else []

/-- `ExtraFieldsLoadError` of a dict node: ExtraForbid and some key of the datum is unknown -/
def extraFault (p : Path) (pol : Policy) (m : List (String × InpCrown)) (d : Val) : List Fault :=
  if pol = .forbid ∧ (unknownKeys (knownKeys m) d) ≠ [] then
    [.node p (.extraFields (unknownKeys (knownKeys m) d) d)]
  else []

/-- length fault of a list node with `n` positions -/
def lengthFault (p : Path) (pol : Policy) (n : Nat) (d : Val) : List Fault :=
  if d.len < n then [.node p (.noRequiredItems n d)]
  else if pol = .forbid ∧ n < d.len then [.node p (.extraItems n d)]
  else []

/-- the loader of field `id` (crown path `q`) on the value `v` -/
def fieldFault (cfg : LoadCfg) (q : Path) (id : String) (v : Val) : List Fault :=
  match cfg.loader id v with
  | .ok _ => []
  | .error e => [.field q id v e]

/-- the datum has the kind the node needs -/
def goodKind (cfg : LoadCfg) : InpCrown → Val → Bool
  | .dict _ _, d => d.isMapping
  | .list _ _, d => d.isSequence && !(cfg.strict && d.isStr)
  | _, _ => false

/-- the fault of a node whose datum has the wrong kind -/
def kindErr (cfg : LoadCfg) : InpCrown → Val → LErr
  | .list _ _, d => if cfg.strict && d.isStr then .excludedType d else .typeLoad "Sequence" d
  | _, d => .typeLoad "Mapping" d

def isBranch : InpCrown → Bool
  | .dict _ _ => true
  | .list _ _ => true
  | _ => false

/-! ### the specification -/

mutual
/-- expected faults of crown `c` at crown path `p` on datum `d` -/
def faults (cfg : LoadCfg) : InpCrown → Path → Val → List Fault
  | .dict m pol, p, d =>
    if d.isMapping then nrfFault cfg p m d ++ faultsDict cfg p d m ++ extraFault p pol m d
    else [.node p (.typeLoad "Mapping" d)]
  | .list m pol, p, d =>
    if cfg.strict && d.isStr then [.node p (.excludedType d)]
    else if d.isSequence then faultsList cfg p d 0 m ++ lengthFault p pol m.length d
    else [.node p (.typeLoad "Sequence" d)]
  | .field _, _, _ => []
  | .none, _, _ => []
/-- the children of a dict node: whatever is present is examined -/
def faultsDict (cfg : LoadCfg) (p : Path) (d : Val) : List (String × InpCrown) → List Fault
  | [] => []
  | (_, .none) :: r => faultsDict cfg p d r
  | (k, .field id) :: r =>
    (match d.getItem (.s k) with
     | .found v => fieldFault cfg (p ++ [.s k]) id v
     | _ => []) ++ faultsDict cfg p d r
  | (k, .dict m pol) :: r =>
    (match d.getItem (.s k) with
     | .found v => faults cfg (.dict m pol) (p ++ [.s k]) v
     | _ => []) ++ faultsDict cfg p d r
  | (k, .list m pol) :: r =>
    (match d.getItem (.s k) with
     | .found v => faults cfg (.list m pol) (p ++ [.s k]) v
     | _ => []) ++ faultsDict cfg p d r
/-- the children of a list node, `i` = position of the first one -/
def faultsList (cfg : LoadCfg) (p : Path) (d : Val) : Nat → List InpCrown → List Fault
  | _, [] => []
  | i, .none :: r => faultsList cfg p d (i + 1) r
  | i, .field id :: r =>
    (match d.getItem (.i i) with
     | .found v => fieldFault cfg (p ++ [.i i]) id v
     | _ => []) ++ faultsList cfg p d (i + 1) r
  | i, .dict m pol :: r =>
    (match d.getItem (.i i) with
     | .found v => faults cfg (.dict m pol) (p ++ [.i i]) v
     | _ => []) ++ faultsList cfg p d (i + 1) r
  | i, .list m pol :: r =>
    (match d.getItem (.i i) with
     | .found v => faults cfg (.list m pol) (p ++ [.i i]) v
     | _ => []) ++ faultsList cfg p d (i + 1) r
end

/-! ### which nodes are visited -/

/-- `Reaches cfg c p d c' p' d'`: loading crown `c` (crown path `p`) on `d` visits the crown `c'` at crown
    path `p'` with the sub-datum `d'` — every node on the way has a datum of the right kind and the key /
    index is present -/
inductive Reaches (cfg : LoadCfg) : InpCrown → Path → Val → InpCrown → Path → Val → Prop where
  | here (c : InpCrown) (p : Path) (d : Val) : Reaches cfg c p d c p d
  | dict {m : List (String × InpCrown)} {pol : Policy} {p : Path} {d v : Val} {k : String} {c1 c' : InpCrown}
      {p' : Path} {d' : Val} :
      d.isMapping = true → (k, c1) ∈ m → d.getItem (.s k) = .found v →
      Reaches cfg c1 (p ++ [.s k]) v c' p' d' → Reaches cfg (.dict m pol) p d c' p' d'
  | list {m : List InpCrown} {pol : Policy} {p : Path} {d v : Val} {i : Nat} {c1 c' : InpCrown}
      {p' : Path} {d' : Val} :
      goodKind cfg (.list m pol) d = true → m[i]? = some c1 → d.getItem (.i i) = .found v →
      Reaches cfg c1 (p ++ [.i i]) v c' p' d' → Reaches cfg (.list m pol) p d c' p' d'

/-! ### the same faults in generation order (proof device) -/

mutual
def evts (cfg : LoadCfg) : InpCrown → Path → Val → List Fault
  | .dict m pol, p, d =>
    if d.isMapping then
      evtsDict cfg p d
        [.node p (.noRequiredFields ((requiredKeys cfg m).filter fun k => !d.keys.contains k) d)] m
        ++ extraFault p pol m d
    else [.node p (.typeLoad "Mapping" d)]
  | .list m pol, p, d =>
    if cfg.strict && d.isStr then [.node p (.excludedType d)]
    else if d.isSequence then evtsList cfg p d 0 m ++ lengthFault p pol m.length d
    else [.node p (.typeLoad "Sequence" d)]
  | .field _, _, _ => []
  | .none, _, _ => []
/-- `nrf` = what is reported at the next missing demanded key (`[]` once it has been reported) -/
def evtsDict (cfg : LoadCfg) (p : Path) (d : Val) : List Fault → List (String × InpCrown) → List Fault
  | _, [] => []
  | nrf, (_, .none) :: r => evtsDict cfg p d nrf r
  | nrf, (k, .field id) :: r =>
    match d.getItem (.s k) with
    | .found v => fieldFault cfg (p ++ [.s k]) id v ++ evtsDict cfg p d nrf r
    | _ => if (cfg.field id).required then nrf ++ evtsDict cfg p d [] r else evtsDict cfg p d nrf r
  | nrf, (k, .dict m pol) :: r =>
    match d.getItem (.s k) with
    | .found v => evts cfg (.dict m pol) (p ++ [.s k]) v ++ evtsDict cfg p d nrf r
    | _ => nrf ++ evtsDict cfg p d [] r
  | nrf, (k, .list m pol) :: r =>
    match d.getItem (.s k) with
    | .found v => evts cfg (.list m pol) (p ++ [.s k]) v ++ evtsDict cfg p d nrf r
    | _ => nrf ++ evtsDict cfg p d [] r
def evtsList (cfg : LoadCfg) (p : Path) (d : Val) : Nat → List InpCrown → List Fault
  | _, [] => []
  | i, .none :: r => evtsList cfg p d (i + 1) r
  | i, .field id :: r =>
    (match d.getItem (.i i) with
     | .found v => fieldFault cfg (p ++ [.i i]) id v
     | _ => []) ++ evtsList cfg p d (i + 1) r
  | i, .dict m pol :: r =>
    (match d.getItem (.i i) with
     | .found v => evts cfg (.dict m pol) (p ++ [.i i]) v
     | _ => []) ++ evtsList cfg p d (i + 1) r
  | i, .list m pol :: r =>
    (match d.getItem (.i i) with
     | .found v => evts cfg (.list m pol) (p ++ [.i i]) v
     | _ => []) ++ evtsList cfg p d (i + 1) r
end

end Adaptix.Layout.Trail
