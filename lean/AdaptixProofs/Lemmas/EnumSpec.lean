/-
  C18 — specification vocabulary: the notions the property theorems of
  `AdaptixProofs/Props/C18.lean` are stated with (definitions only, independent of the
  algorithms of the model).
-/
import AdaptixModel.Morph.Enum
import AdaptixModel.Morph.Flag
import AdaptixProofs.Lemmas.EnumNames
import AdaptixProofs.Lemmas.EnumFlag

namespace Adaptix.Enum.C18

open Adaptix.Enum

/-- "`d` is the representation of member `m`": equal (Python `==`) to its value, or —
    when no member value is equal to it — what the class's own `_missing_` hook maps to `m`. -/
def ReprByValue (c : EnumClass) (d : PyVal) (m : Member) : Prop :=
  m ∈ c.iter ∧ (m.value.pyEq d = true ∨
    ((∀ m' ∈ c.iter, m'.value.pyEq d = false) ∧ c.missingHook d = some m))

/-- the (decidable) hypothesis of the by-name round trip: the configured name mapping
    sends different members to different strings -/
abbrev InjectiveNames (c : EnumClass) (cfg : NameCfg) : Prop :=
  InjectiveOn Member.name cfg c.membersValues

instance (c : EnumClass) (cfg : NameCfg) : Decidable (InjectiveNames c cfg) :=
  inferInstanceAs (Decidable (∀ a ∈ c.membersValues, ∀ b ∈ c.membersValues,
    cfg.mapped a.name = cfg.mapped b.name → a = b))

/-- a union of (any) members of the class: "a member or any combination of flags" -/
def unionOf (S : List FlagCase) : Nat := orAll (S.map (·.bits))

/-- CPython's own notion of a valid value of the class within the mask: a STRICT flag
    refuses a value that contains members but also bits no contained member accounts for. -/
def ValidValue (c : FlagClass) (v : Nat) : Prop :=
  c.strict = true → c.cover v = 0 ∨ c.cover v = v

/-- the (decidable) hypothesis of the name-list round trip: different cases the provider
    may use get different names -/
abbrev InjectiveCaseNames (c : FlagClass) (cfg : NameCfg) (o : ListOpts) : Prop :=
  InjectiveOn FlagCase.name cfg (c.getCases o)

instance (c : FlagClass) (cfg : NameCfg) (o : ListOpts) : Decidable (InjectiveCaseNames c cfg o) :=
  inferInstanceAs (Decidable (∀ a ∈ c.getCases o, ∀ b ∈ c.getCases o,
    cfg.mapped a.name = cfg.mapped b.name → a = b))

/-- every member is a union of single-bit members of the class -/
def EveryBitNamed (c : FlagClass) : Prop :=
  ∀ m ∈ c.membersValues, ∃ T : List FlagCase, (∀ t ∈ T, t ∈ c.nonCompound) ∧ m.bits = unionOf T

/-- how the loader obtains the sequence of items it processes -/
def Container (o : ListOpts) (d : PyVal) (items : List Atom) : Prop :=
  d = .list items ∨ d = .tuple items ∨ (d = .mapping items ∧ o.strictCoercion = false) ∨
    ∃ s, d = .atom (.str s) ∧ o.allowSingleValue = true ∧ items = [.str s]

/-- `v` is a combination of members of the class -/
def IsUnionOfMembers (c : FlagClass) (v : Nat) : Prop :=
  ∃ S : List FlagCase, (∀ s ∈ S, s ∈ c.membersValues) ∧ v = unionOf S

/-- `v` contains no member of the class (but, possibly, zero-valued ones) -/
def ContainsNoMember (c : FlagClass) (v : Nat) : Prop :=
  ∀ s ∈ c.membersValues, flagIn s.bits v = true → s.bits = 0

theorem orAll_eq_zero_iff (l : List Nat) : orAll l = 0 ↔ ∀ x ∈ l, x = 0 := by
  induction l with
  | nil => simp [orAll]
  | cons a t ih =>
    have : orAll (a :: t) = a ||| orAll t := rfl
    rw [this, Nat.or_eq_zero_iff, ih]
    simp

theorem cover_eq_members (c : FlagClass) (v : Nat) :
    c.cover v = unionOf (c.membersValues.filter fun s => flagIn s.bits v) := by
  rw [FlagClass.cover_eq]
  unfold unionOf FlagClass.membersValues
  simp [List.filter_map, Function.comp_def]

theorem cover_eq_self_iff (c : FlagClass) (v : Nat) : c.cover v = v ↔ IsUnionOfMembers c v := by
  constructor
  · intro h
    exact ⟨c.membersValues.filter fun s => flagIn s.bits v, fun s hs => (List.mem_filter.1 hs).1,
      by rw [← cover_eq_members, h]⟩
  · rintro ⟨S, hS, rfl⟩
    exact FlagClass.cover_of_union hS

theorem cover_eq_zero_iff (c : FlagClass) (v : Nat) : c.cover v = 0 ↔ ContainsNoMember c v := by
  rw [cover_eq_members]
  unfold unionOf ContainsNoMember
  rw [orAll_eq_zero_iff]
  constructor
  · intro h s hs hin
    exact h s.bits (List.mem_map.2 ⟨s, List.mem_filter.2 ⟨hs, hin⟩, rfl⟩)
  · intro h x hx
    obtain ⟨s, hs, rfl⟩ := List.mem_map.1 hx
    exact h s (List.mem_filter.1 hs).1 (List.mem_filter.1 hs).2


end Adaptix.Enum.C18
