import AdaptixProofs.Lemmas.ThreadsInv
import AdaptixProofs.Lemmas.ThreadsAtomicCall

/-
  C12 — every atomic action EXTENDS the state (`Ext`): the heap only grows, a stub keeps its location and owner
  and a bound stub stays bound to the same target, completed requests stay completed.  `Ext` was so far only a
  hypothesis of `successful_call_is_stable`; here it is proved for `step` (under the invariant, which is what
  guarantees that `set_func` only ever hits an unbound stub) and for whole schedules, so that the stability of
  a returned value holds along every run.
-/
namespace Adaptix.Threads

theorem Ext.trans {s1 s2 s3 : State} (a : Ext s1 s2) (b : Ext s2 s3) : Ext s1 s3 where
  heap := by
    obtain ⟨e1, h1⟩ := a.heap
    obtain ⟨e2, h2⟩ := b.heap
    exact ⟨e1 ++ e2, by rw [h2, h1, List.append_assoc]⟩
  stubs := fun x sd h => by
    obtain ⟨sd', h1, h2, h3, h4⟩ := a.stubs x sd h
    obtain ⟨sd'', g1, g2, g3, g4⟩ := b.stubs x sd' h1
    exact ⟨sd'', g1, by rw [g2, h2], by rw [g3, h3], fun r hr => g4 r (h4 r hr)⟩
  closed := fun t h => b.closed t (a.closed t h)

variable {sys : Sys} {s : State}

theorem created_shape {t : Tid} {site : Site} {const : Nat} {args : List Ref} {kind : Kind} {s1 : State} {r : Ref}
    (h : created s t site const args kind = some (s1, r)) :
    (∃ ext, s1.heap = s.heap ++ ext) ∧ s1.stubs = s.stubs ∧ s1.threads = s.threads := by
  rcases created_spec h with ⟨rfl, _⟩ | ⟨cd, rfl, _⟩
  · exact ⟨⟨[], by simp⟩, rfl, rfl⟩
  · exact ⟨⟨[cd], rfl⟩, rfl, rfl⟩

/-- an action of `t` that only appends to the heap and leaves the stubs alone -/
theorem ext_heap_only {s' : State} {t : Tid} {th th' : Thread} (hth : s.threads[t]? = some th)
    (hthreads : s'.threads = s.threads.set t th') (hc : th.phase.isClosed = true → th'.phase.isClosed = true)
    (hheap : ∃ ext, s'.heap = s.heap ++ ext) (hstubs : s'.stubs = s.stubs) : Ext s s' where
  heap := hheap
  stubs := fun x sd h => ⟨sd, by rw [hstubs]; exact h, rfl, rfl, fun _ h => h⟩
  closed := closed_set hth hthreads hc

/-- **every atomic action extends the state** -/
theorem step_ext (hinv : Inv sys s) (t : Tid) : Ext s (step sys s t) := by
  unfold step
  cases hth : s.threads[t]? with
  | none => exact Ext.refl s
  | some th =>
    simp only
    have hT := hinv.threads t th hth
    cases hp : th.phase with
    | idle =>
      simp only [stepIdle]
      cases hl : lcLookup s.loaderCache th.ty with
      | some r => exact ext_heap_only hth rfl (by simp [hp, Phase.isClosed]) ⟨[], by simp⟩ rfl
      | none => exact ext_heap_only hth rfl (by simp [hp, Phase.isClosed]) ⟨[], by simp⟩ rfl
    | put =>
      simp only
      split
      · exact ext_heap_only hth rfl (by simp [hp, Phase.isClosed]) ⟨[], by simp [stepRaise]⟩ rfl
      · exact ext_heap_only hth rfl (by simp [hp, Phase.isClosed]) ⟨[], by simp [stepPut]⟩ rfl
    | call r => exact ext_heap_only hth rfl (by simp [Phase.isClosed]) ⟨[], by simp [stepCall]⟩ rfl
    | done => exact Ext.refl s
    | run pc sub =>
      simp only
      have hnc : ∀ {p : Phase}, th.phase.isClosed = true → p.isClosed = true :=
        fun h => (run_not_closed hp h).elim
      cases hins : (sys.body th.ty)[pc]? with
      | none => exact ext_heap_only hth rfl hnc ⟨[], by simp⟩ rfl
      | some ins =>
        simp only
        cases ins with
        | stubGet loc =>
          simp only [stepInstr]
          cases hl : lookupLoc th.locToStub loc with
          | some x => exact ext_heap_only hth rfl hnc ⟨[], by simp⟩ rfl
          | none => exact ExtBy.toExt (extBy_stub (loc := loc) hth rfl hnc rfl rfl)
        | stubBind loc =>
          simp only [stepInstr]
          cases hl : lookupLoc th.locToStub loc with
          | some x =>
            obtain ⟨sd0, hx0, hown0, hun0⟩ := hT.locs loc x (lookupLoc_mem hl)
            exact ExtBy.toExt (extBy_bind hth rfl hnc rfl hx0 hown0 hun0 rfl)
          | none => exact ext_heap_only hth rfl hnc ⟨[], by simp⟩ rfl
        | cached site const nargs kind =>
          simp only [stepInstr]
          have hmiss : ∀ (l : Label),
              Ext s (match created s t site const (th.stack.take nargs).reverse kind with
                | none =>
                  emit (setThread s t { th with phase := nextPhase (sys.body th.ty).length (pc + 1),
                                                 stack := th.stack.drop nargs }) l
                | some (s', r) => emit (setThread s' t { th with phase := .run pc (.store r) }) l) := by
            intro l
            cases hcr : created s t site const (th.stack.take nargs).reverse kind with
            | none => exact ext_heap_only hth rfl hnc ⟨[], by simp⟩ rfl
            | some p =>
              obtain ⟨s1, r⟩ := p
              obtain ⟨hh, hs, ht⟩ := created_shape hcr
              exact ext_heap_only hth (by rw [emit_threads, setThread_threads, ht]) hnc (by simpa using hh) (by simpa using hs)
          cases sub with
          | look =>
            simp only
            cases hl : ccLookup sys.mode s.stubs s.callCache
                { site := site, const := const, aux := kind.isAux, args := (th.stack.take nargs).reverse } with
            | some v => exact ext_heap_only hth rfl hnc ⟨[], by simp⟩ rfl
            | none => exact hmiss _
          | get =>
            simp only
            cases hl : ccLookup sys.mode s.stubs s.callCache
                { site := site, const := const, aux := kind.isAux, args := (th.stack.take nargs).reverse } with
            | some v => exact ext_heap_only hth rfl hnc ⟨[], by simp⟩ rfl
            | none => exact hmiss _
          | store r => exact ext_heap_only hth rfl hnc ⟨[], by simp⟩ rfl

/-- every schedule extends the state it starts from -/
theorem run_ext (hmode : sys.mode = .byId) (σ : List Tid) : ∀ {s : State}, Inv sys s → Ext s (run sys s σ) := by
  induction σ with
  | nil => exact fun _ => Ext.refl _
  | cons t σ ih => exact fun h => (step_ext h t).trans (ih (step_inv hmode h t))

end Adaptix.Threads
