/-
  Helper lemmas for the name-style model (`AdaptixModel/Layout/NameStyle.lean`).
-/
import AdaptixModel.Layout.NameStyle

namespace Adaptix.Layout.NameStyle

theorem toLower_toLower (c : Nat) : toLower (toLower c) = toLower c := by
  unfold toLower isUpper
  by_cases h : 65 ≤ c ∧ c ≤ 90
  · simp [h]; omega
  · simp [h]

theorem toLower_toUpper (c : Nat) : toLower (toUpper c) = toLower c := by
  unfold toLower toUpper isUpper isLower
  by_cases h : 97 ≤ c ∧ c ≤ 122
  · have h1 : 65 ≤ c - 32 ∧ c - 32 ≤ 90 := by omega
    have h2 : ¬ (65 ≤ c ∧ c ≤ 90) := by omega
    simp [h, h1, h2]; omega
  · simp [h]

theorem toLower_us : toLower US = US := by decide
theorem isLetter_us : isLetter US = false := by decide

/-- lower-casing forgets what `title` did -/
theorem titleGo_lower (b : Bool) (w : List Nat) : (titleGo b w).map toLower = w.map toLower := by
  induction w generalizing b with
  | nil => rfl
  | cons c cs ih =>
    unfold titleGo
    split
    · split <;> simp [toLower_toLower, toLower_toUpper, ih]
    · simp [ih]

theorem applyCase_lower (k : Case) (w : List Nat) : (applyCase k w).map toLower = w.map toLower := by
  cases k with
  | lower => simp [applyCase, toLower_toLower]
  | upper => simp [applyCase, toLower_toUpper]
  | title => exact titleGo_lower false w

/-- map the separator back to `_` and lower-case -/
def unstyle (sep : Nat) (c : Nat) : Nat := if c = sep then US else toLower c

theorem unstyle_of_word {sep c : Nat} (hw : isWord c = true) (hs : isWord sep = false ∨ sep = US) :
    unstyle sep c = toLower c := by
  unfold unstyle
  split
  · rename_i h
    subst h
    rcases hs with hs | hs
    · rw [hs] at hw; cases hw
    · rw [hs]; exact toLower_us.symm
  · rfl

theorem isWord_toLower {c : Nat} (h : isWord c = true) : isWord (toLower c) = true := by
  unfold toLower
  split
  · rename_i hu
    simp only [isUpper, decide_eq_true_eq] at hu
    simp [isWord, isLetter, isLower, isUpper, isDigit, US]; omega
  · exact h

theorem isWord_toUpper {c : Nat} (h : isWord c = true) : isWord (toUpper c) = true := by
  unfold toUpper
  split
  · rename_i hu
    simp only [isLower, decide_eq_true_eq] at hu
    simp [isWord, isLetter, isLower, isUpper, isDigit, US]; omega
  · exact h


theorem split_concat (n : List Nat) :
    (split n).front ++ (split n).first ++ (split n).rest ++ (split n).trailing = n := by
  simp only [split, List.append_assoc, List.take_append_drop, List.takeWhile_append_dropWhile]

theorem mem_parts {n : List Nat} {c : Nat}
    (h : c ∈ (split n).front ∨ c ∈ (split n).first ∨ c ∈ (split n).rest ∨ c ∈ (split n).trailing) : c ∈ n := by
  have := split_concat n
  rw [← this]
  simp only [List.mem_append]
  rcases h with h | h | h | h
  · exact .inl (.inl (.inl h))
  · exact .inl (.inl (.inr h))
  · exact .inl (.inr h)
  · exact .inr h

theorem map_unstyle_of_words {s : Nat} {l : List Nat} (hs : isWord s = false ∨ s = US)
    (h : ∀ c ∈ l, isWord c = true) : l.map (unstyle s) = l.map toLower := by
  apply List.map_congr_left
  intro c hc
  exact unstyle_of_word (h c hc) hs

theorem titleGo_words (b : Bool) {w : List Nat} (h : ∀ c ∈ w, isWord c = true) :
    ∀ c ∈ titleGo b w, isWord c = true := by
  induction w generalizing b with
  | nil => intro c hc; cases hc
  | cons x xs ih =>
    have hx := h x (by simp)
    have hxs : ∀ c ∈ xs, isWord c = true := fun c hc => h c (by simp [hc])
    intro c hc
    unfold titleGo at hc
    split at hc
    · split at hc <;> (rw [List.mem_cons] at hc; rcases hc with rfl | hc)
      · exact isWord_toLower hx
      · exact ih true hxs c hc
      · exact isWord_toUpper hx
      · exact ih true hxs c hc
    · rw [List.mem_cons] at hc
      rcases hc with rfl | hc
      · exact hx
      · exact ih false hxs c hc

theorem applyCase_words (k : Case) {w : List Nat} (h : ∀ c ∈ w, isWord c = true) :
    ∀ c ∈ applyCase k w, isWord c = true := by
  cases k with
  | lower =>
    intro c hc
    simp only [applyCase, List.mem_map] at hc
    obtain ⟨x, hx, rfl⟩ := hc
    exact isWord_toLower (h x hx)
  | upper =>
    intro c hc
    simp only [applyCase, List.mem_map] at hc
    obtain ⟨x, hx, rfl⟩ := hc
    exact isWord_toUpper (h x hx)
  | title => exact titleGo_words false h

/-- the rest: separators back to `_`, lower-cased, is the lower-cased rest -/
theorem subRest_unstyle {cv : Conv} {s : Nat} (hsep : cv.sep = [s]) (hs : isWord s = false ∨ s = US)
    (b : Bool) {xs : List Nat} (h : ∀ c ∈ xs, isWord c = true) :
    (subRest cv b xs).map (unstyle s) = xs.map toLower := by
  induction xs generalizing b with
  | nil => rfl
  | cons x xs ih =>
    have hx := h x (by simp)
    have hxs : ∀ c ∈ xs, isWord c = true := fun c hc => h c (by simp [hc])
    unfold subRest
    split
    · rename_i hu
      subst hu
      simp [hsep, ih false hxs, unstyle, toLower_us]
    · split
      · simp [ih false hxs, unstyle_of_word (isWord_toLower hx) hs, toLower_toLower]
      · simp [ih false hxs, unstyle_of_word (isWord_toUpper hx) hs, toLower_toUpper]
      · split
        · split
          · simp [ih true hxs, unstyle_of_word (isWord_toLower hx) hs, toLower_toLower]
          · simp [ih true hxs, unstyle_of_word (isWord_toUpper hx) hs, toLower_toUpper]
        · simp [ih false hxs, unstyle_of_word hx hs]

/-- without a separator: lower-casing the rest gives the lower-cased rest without underscores -/
theorem subRest_nosep {cv : Conv} (hsep : cv.sep = []) (b : Bool) (xs : List Nat) :
    (subRest cv b xs).map toLower = (xs.filter (· != US)).map toLower := by
  induction xs generalizing b with
  | nil => rfl
  | cons x xs ih =>
    unfold subRest
    split
    · rename_i hu
      subst hu
      simp [hsep, ih false]
    · rename_i hu
      have hf : (x :: xs).filter (· != US) = x :: xs.filter (· != US) := by
        simp [hu]
      rw [hf]
      simp only [List.map_cons]
      split
      · simp [ih false, toLower_toLower]
      · simp [ih false, toLower_toUpper]
      · split
        · split
          · simp [ih true, toLower_toLower]
          · simp [ih true, toLower_toUpper]
        · simp [ih false]

end Adaptix.Layout.NameStyle
