/-
  C20 helper lemmas, part 1: the provenance model refines the frozen model
  (`erase` after `loadP`/`dumpP` is `load`/`dump`).
-/
import AdaptixModel.Morph.Prov

namespace Adaptix.Morph
open Adaptix.Py

/-! ### erase / ofVal -/

theorem PVal.eraseL_eq_map (xs : List PVal) : PVal.eraseL xs = xs.map PVal.erase := by
  induction xs with
  | nil => rfl
  | cons x xs ih => simp [PVal.eraseL, ih]

theorem PVal.nodesL_eq (xs : List PVal) : PVal.nodesL xs = (xs.map PVal.nodes).flatten := by
  induction xs with
  | nil => rfl
  | cons x xs ih => simp [PVal.nodesL, ih]

@[simp] theorem PVal.erase_node (p : Prov) (sh : Shape) (ks : List PVal) :
    (PVal.node p sh ks).erase = sh.build (ks.map PVal.erase) := by
  simp [PVal.erase, PVal.eraseL_eq_map]

mutual
  theorem PVal.erase_ofVal (p : Prov) : ∀ v : Val, (PVal.ofVal p v).erase = v
    | .none => rfl
    | .bool _ => rfl
    | .int _ => rfl
    | .float _ => rfl
    | .str _ => rfl
    | .bytes _ => rfl
    | .bytearray _ => rfl
    | .list xs => by simp [PVal.ofVal, Shape.build, PVal.eraseL_ofValL p xs]
    | .tuple xs => by simp [PVal.ofVal, Shape.build, PVal.eraseL_ofValL p xs]
    | .set xs => by simp [PVal.ofVal, Shape.build, PVal.eraseL_ofValL p xs]
    | .frozenset xs => by simp [PVal.ofVal, Shape.build, PVal.eraseL_ofValL p xs]
    | .deque xs => by simp [PVal.ofVal, Shape.build, PVal.eraseL_ofValL p xs]
    | .iter xs => by simp [PVal.ofVal, Shape.build, PVal.eraseL_ofValL p xs]
    | .dict kvs => by simp [PVal.ofVal, Shape.build, PVal.pairUp_eraseL_ofValKV p kvs]
    | .obj c fs => by simp [PVal.ofVal, Shape.build, PVal.zip_eraseL_ofValF p fs]
    | .atom _ _ => rfl
    | .opaque _ => rfl
  theorem PVal.eraseL_ofValL (p : Prov) : ∀ xs : List Val, (PVal.ofValL p xs).map PVal.erase = xs
    | [] => rfl
    | x :: xs => by simp [PVal.ofValL, PVal.erase_ofVal p x, PVal.eraseL_ofValL p xs]
  theorem PVal.pairUp_eraseL_ofValKV (p : Prov) :
      ∀ kvs : List (Val × Val), pairUp ((PVal.ofValKV p kvs).map PVal.erase) = kvs
    | [] => rfl
    | (k, v) :: rest => by
      simp [PVal.ofValKV, pairUp, PVal.erase_ofVal p k, PVal.erase_ofVal p v,
        PVal.pairUp_eraseL_ofValKV p rest]
  theorem PVal.zip_eraseL_ofValF (p : Prov) :
      ∀ fs : List (String × Val), (fs.map (·.1)).zip ((PVal.ofValF p fs).map PVal.erase) = fs
    | [] => rfl
    | (n, v) :: rest => by
      simp [PVal.ofValF, PVal.erase_ofVal p v, PVal.zip_eraseL_ofValF p rest]
end

theorem erase_scalarP (d r : Val) : (scalarP d r).erase = r := by
  unfold scalarP; split <;> exact PVal.erase_ofVal _ _

/-! ### Outcome.map / bindO -/

@[simp] theorem Outcome.map_ok {α β : Type} (f : α → β) (a : α) : (Outcome.ok a).map f = .ok (f a) := rfl
@[simp] theorem Outcome.map_err {α β : Type} (f : α → β) (e : LErr) :
    (Outcome.err e : Outcome α).map f = .err e := rfl
@[simp] theorem Outcome.map_escape {α β : Type} (f : α → β) (e : String) :
    (Outcome.escape e : Outcome α).map f = .escape e := rfl
@[simp] theorem Outcome.map_diverge {α β : Type} (f : α → β) :
    (Outcome.diverge : Outcome α).map f = .diverge := rfl

theorem Outcome.map_map {α β γ : Type} (f : α → β) (g : β → γ) (o : Outcome α) :
    (o.map f).map g = o.map (g ∘ f) := by cases o <;> rfl

theorem Outcome.map_eq_ok {α β : Type} {f : α → β} {o : Outcome α} {b : β} (h : o.map f = .ok b) :
    ∃ a, o = .ok a ∧ f a = b := by
  cases o <;> simp [Outcome.map] at h
  exact ⟨_, rfl, h⟩

/-- the shape every provider ends with: fold the element outcomes, then build the container -/
theorem bindO_erase {o : Outcome (List PVal)} {o' : Outcome (List Val)}
    {kP : List PVal → Outcome PVal} {k : List Val → Outcome Val}
    (ho : o.map (List.map PVal.erase) = o')
    (hk : ∀ ys, (kP ys).map PVal.erase = k (ys.map PVal.erase)) :
    (bindO o kP).map PVal.erase = bindO o' k := by
  subst ho
  cases o <;> simp [bindO, Outcome.map]
  exact hk _

/-! ### the element-processing disciplines commute with a map of the results -/

def mapItems {α β : Type} (f : α → β) (items : List (Option TrailEl × Outcome α)) :
    List (Option TrailEl × Outcome β) :=
  items.map fun p => (p.1, p.2.map f)

@[simp] theorem mapItems_nil {α β : Type} (f : α → β) : mapItems f [] = [] := rfl
@[simp] theorem mapItems_cons {α β : Type} (f : α → β) (el : Option TrailEl) (o : Outcome α)
    (rest : List (Option TrailEl × Outcome α)) :
    mapItems f ((el, o) :: rest) = (el, o.map f) :: mapItems f rest := rfl

theorem seqDisableG_map {α : Type} (f : α → Val) (items : List (Option TrailEl × Outcome α)) :
    (seqDisableG items).map (List.map f) = seqDisable (mapItems f items) := by
  induction items with
  | nil => rfl
  | cons hd tl ih =>
    obtain ⟨el, o⟩ := hd
    cases o with
    | ok y =>
      simp only [mapItems_cons, Outcome.map_ok, seqDisableG, seqDisable, ← ih]
      cases seqDisableG tl <;> rfl
    | err e => rfl
    | escape e => rfl
    | diverge => rfl

theorem seqFirstG_map {α : Type} (f : α → Val) (items : List (Option TrailEl × Outcome α)) :
    (seqFirstG items).map (List.map f) = seqFirst (mapItems f items) := by
  induction items with
  | nil => rfl
  | cons hd tl ih =>
    obtain ⟨el, o⟩ := hd
    cases o with
    | ok y =>
      simp only [mapItems_cons, Outcome.map_ok, seqFirstG, seqFirst, ← ih]
      cases seqFirstG tl <;> rfl
    | err e => rfl
    | escape e => rfl
    | diverge => rfl

theorem sweepAllG_map {α : Type} (f : α → Val) (items : List (Option TrailEl × Outcome α)) :
    (sweepAll (mapItems f items)).vals = (sweepAllG items).vals.map f ∧
    (sweepAll (mapItems f items)).errs = (sweepAllG items).errs ∧
    (sweepAll (mapItems f items)).unexpected = (sweepAllG items).unexpected ∧
    (sweepAll (mapItems f items)).diverged = (sweepAllG items).diverged := by
  induction items with
  | nil => simp [sweepAll, sweepAllG]
  | cons hd tl ih =>
    obtain ⟨el, o⟩ := hd
    obtain ⟨h1, h2, h3, h4⟩ := ih
    cases o <;> simp [sweepAll, sweepAllG, Outcome.map, h1, h2, h3, h4]

theorem seqModeG_map {α : Type} (f : α → Val) (t : DebugTrail)
    (items : List (Option TrailEl × Outcome α)) :
    (seqModeG t items).map (List.map f) = seqMode t (mapItems f items) := by
  cases t with
  | disable => exact seqDisableG_map f items
  | first => exact seqFirstG_map f items
  | all =>
    obtain ⟨h1, h2, h3, h4⟩ := sweepAllG_map f items
    simp only [seqModeG, seqMode, SweepG.finish, Sweep.finish, h1, h2, h3, h4]
    repeat' split
    all_goals rfl

theorem seqModeDumpG_map {α : Type} (f : α → Val) (t : DebugTrail)
    (items : List (Option TrailEl × Outcome α)) :
    (seqModeDumpG t items).map (List.map f) = seqModeDump t (mapItems f items) := by
  cases t with
  | disable => exact seqDisableG_map f items
  | first => exact seqFirstG_map f items
  | all =>
    obtain ⟨h1, h2, h3, h4⟩ := sweepAllG_map f items
    simp only [seqModeDumpG, seqModeDump, h1, h2, h3, h4]
    repeat' split
    all_goals rfl

/-! ### item lists -/

theorem mapItems_idxItemsG {α : Type} (f : α → Val) (os : List (Outcome α)) :
    mapItems f (idxItemsG os) = idxItems (os.map (Outcome.map f)) := by
  simp [mapItems, idxItemsG, idxItems, List.zipIdx_map, Function.comp_def]

theorem mapItems_idxItemsG_D {α : Type} (f : α → Val) (os : List (Outcome α)) :
    mapItems f (idxItemsG os) = idxItemsD (os.map (Outcome.map f)) := by
  simp [mapItems, idxItemsG, idxItemsD, List.zipIdx_map, Function.comp_def]

theorem zipApplyG_map {α : Type} (f : α → Val) (ls : List (Val → Outcome α)) (xs : List Val) :
    (zipApplyG ls xs).map (Outcome.map f) = zipApply (ls.map fun l x => (l x).map f) xs := by
  induction ls generalizing xs with
  | nil => simp [zipApplyG, zipApply]
  | cons l ls ih =>
    cases xs with
    | nil => simp [zipApplyG, zipApply]
    | cons x xs => simp [zipApplyG, zipApply, ih]

theorem zipApplyG_map_D {α : Type} (f : α → Val) (ls : List (Val → Outcome α)) (xs : List Val) :
    (zipApplyG ls xs).map (Outcome.map f) = zipApplyD (ls.map fun l x => (l x).map f) xs := by
  induction ls generalizing xs with
  | nil => simp [zipApplyG, zipApplyD]
  | cons l ls ih =>
    cases xs with
    | nil => simp [zipApplyG, zipApplyD]
    | cons x xs => simp [zipApplyG, zipApplyD, ih]

theorem mapItems_dictItemsG {α : Type} (f : α → Val) (vf : Bool) (key value : Val → Outcome α)
    (kvs : List (Val × Val)) :
    mapItems f (dictItemsG vf key value kvs)
      = dictItems vf (fun x => (key x).map f) (fun x => (value x).map f) kvs := by
  induction kvs with
  | nil => rfl
  | cons hd tl ih =>
    obtain ⟨k, v⟩ := hd
    cases vf <;> simp [dictItemsG, dictItems, ih]

theorem mapItems_dictItemsG_D {α : Type} (f : α → Val) (vf : Bool) (key value : Val → Outcome α)
    (kvs : List (Val × Val)) :
    mapItems f (dictItemsG vf key value kvs)
      = dictItemsD vf (fun x => (key x).map f) (fun x => (value x).map f) kvs := by
  induction kvs with
  | nil => rfl
  | cons hd tl ih =>
    obtain ⟨k, v⟩ := hd
    cases vf <;> simp [dictItemsG, dictItemsD, ih]

/-! ### containers -/

theorem map_erase_dedupP (xs : List PVal) :
    (dedupP xs).map PVal.erase = Val.dedup (xs.map PVal.erase) := by
  induction xs with
  | nil => rfl
  | cons x xs ih =>
    simp only [dedupP, Val.dedup, List.map_cons, ← ih, List.filter_map]
    rfl

theorem buildP_erase (f : Factory) (ys : List PVal) :
    (buildP f ys).map PVal.erase = f.build (ys.map PVal.erase) := by
  cases f <;> simp only [buildP, Factory.build]
  · simp [Shape.build]
  · simp [Shape.build]
  · split <;> simp [Shape.build, map_erase_dedupP]
  · split <;> simp [Shape.build, map_erase_dedupP]
  · simp [Shape.build]

def er2 (p : PVal × PVal) : Val × Val := (p.1.erase, p.2.erase)

theorem map_er2_dictSetP (kvs : List (PVal × PVal)) (k v : PVal) :
    (dictSetP kvs k v).map er2 = Val.dictSet (kvs.map er2) k.erase v.erase := by
  unfold dictSetP Val.dictSet
  have hany : (kvs.map er2).any (fun p => Val.pyEq p.1 k.erase)
      = kvs.any (fun p => Val.pyEq p.1.erase k.erase) := by
    simp [List.any_map, Function.comp_def, er2]
  rw [hany]
  split
  · simp only [List.map_map]
    apply List.map_congr_left
    intro p _
    simp only [Function.comp, er2]
    split <;> simp_all
  · simp [er2]

theorem pairUp_flatKV {α : Type} (l : List (α × α)) : pairUp (flatKV l) = l := by
  induction l with
  | nil => rfl
  | cons hd tl ih => obtain ⟨k, v⟩ := hd; simp [flatKV, pairUp, ih]

theorem map_flatKV {α β : Type} (f : α → β) (l : List (α × α)) :
    (flatKV l).map f = flatKV (l.map fun p => (f p.1, f p.2)) := by
  induction l with
  | nil => rfl
  | cons hd tl ih => obtain ⟨k, v⟩ := hd; simp [flatKV, ih]

theorem buildDictP_erase (vf : Bool) : ∀ (flat : List PVal) (acc : List (PVal × PVal)),
    (buildDictP vf flat acc).map PVal.erase = buildDict vf (flat.map PVal.erase) (acc.map er2)
  | a :: b :: rest, acc => by
    simp only [buildDictP, List.map_cons, buildDict]
    cases vf
    · simp only [Bool.false_eq_true, if_false]
      split
      · rw [buildDictP_erase false rest, map_er2_dictSetP]
      · rfl
    · simp only [if_true]
      split
      · rw [buildDictP_erase true rest, map_er2_dictSetP]
      · rfl
  | [], acc => by simp [buildDictP, buildDict, Shape.build, map_flatKV, pairUp_flatKV, er2]
  | [a], acc => by simp [buildDictP, buildDict, Shape.build, map_flatKV, pairUp_flatKV, er2]

theorem buildDictD_eq_buildDict (vf : Bool) : ∀ (l : List Val) (a : List (Val × Val)),
    buildDictD vf l a = buildDict vf l a
  | a :: b :: rest, acc => by
    simp only [buildDictD, buildDict, buildDictD_eq_buildDict vf rest]
  | [], acc => by simp [buildDictD, buildDict]
  | [a], acc => by simp [buildDictD, buildDict]

theorem buildDictP_erase_D (vf : Bool) (flat : List PVal) (acc : List (PVal × PVal)) :
    (buildDictP vf flat acc).map PVal.erase = buildDictD vf (flat.map PVal.erase) (acc.map er2) := by
  rw [buildDictD_eq_buildDict]; exact buildDictP_erase vf flat acc

end Adaptix.Morph
