/-
  C13 helper lemmas: the constructor call assembled by `_make_constructor_call`
  (positional while nothing was skipped and the parameter is not keyword-only,
  keywords afterwards), bound by Python's call rules, builds exactly the object
  the specification describes field by field.
-/
import AdaptixProofs.Lemmas.ConvBasic

set_option linter.unusedSimpArgs false

namespace Adaptix.Conv13

/-- the order every Python signature has: positional-only, then
    positional-or-keyword, then keyword-only parameters -/
def ParamOrder (p q : Param) : Prop :=
  (q.kind = .posOnly → p.kind = .posOnly) ∧ (p.kind = .kwOnly → q.kind = .kwOnly)

/-- well-formedness of an input shape (holds for every shape adaptix's
    introspection produces from a Python callable) -/
structure ShapeWF (s : InShape) : Prop where
  fieldIds : (s.fields.map (·.id)).Nodup
  paramNames : (s.params.map (·.name)).Nodup
  fieldParam : ∀ f ∈ s.fields, ∃ p ∈ s.params, p.fieldId = f.id
  order : s.params.Pairwise ParamOrder
  posOnlyRequired : ∀ p ∈ s.params, p.kind = .posOnly → ∀ f ∈ s.fields, f.id = p.fieldId → f.required = true

abbrev Look := Name → Option (Option Plan)

def kwArgs (look : Look) (ps : List Param) : List (Option Name × Plan) :=
  ps.filterMap (fun p => match look p.fieldId with | some (some pl) => some (some p.name, pl) | _ => none)

def posArgs (look : Look) (ps : List Param) : List (Option Name × Plan) :=
  ps.filterMap (fun p => match look p.fieldId with | some (some pl) => some (none, pl) | _ => none)

theorem ctorArgs_kw (look : Look) :
    ∀ (ps : List Param) (sk : Bool), (∀ p ∈ ps, look p.fieldId ≠ none) →
      (sk = true ∨ ∀ p ∈ ps, p.kind = .kwOnly) → ctorArgs look ps sk = some (kwArgs look ps)
  | [], _, _, _ => by simp [ctorArgs, kwArgs]
  | p :: ps, sk, h, hk => by
    have hrest : ∀ q ∈ ps, look q.fieldId ≠ none := fun q hq => h q (by simp [hq])
    cases hl : look p.fieldId with
    | none => exact absurd hl (h p (by simp))
    | some o =>
      cases o with
      | none =>
        have ih := ctorArgs_kw look ps true hrest (Or.inl rfl)
        simp [ctorArgs, kwArgs, hl, ih]
      | some pl =>
        have hcond : (p.kind == ParamKind.kwOnly || sk) = true := by
          rcases hk with hk | hk
          · simp [hk]
          · simp [hk p (by simp)]
        have hk' : sk = true ∨ ∀ q ∈ ps, q.kind = .kwOnly := by
          rcases hk with hk | hk
          · exact Or.inl hk
          · exact Or.inr (fun q hq => hk q (by simp [hq]))
        have ih := ctorArgs_kw look ps sk hrest hk'
        simp [ctorArgs, kwArgs, hl, hcond, ih]

/-- shape of the generated argument list when nothing was skipped yet -/
theorem ctorArgs_split (look : Look) :
    ∀ (ps : List Param), (∀ p ∈ ps, look p.fieldId ≠ none) → ps.Pairwise ParamOrder →
      ∃ pre rest, ps = pre ++ rest ∧
        (∀ p ∈ pre, p.kind ≠ .kwOnly ∧ ∃ pl, look p.fieldId = some (some pl)) ∧
        ctorArgs look ps false = some (posArgs look pre ++ kwArgs look rest) ∧
        (∀ q, rest.head? = some q → q.kind = .kwOnly ∨ look q.fieldId = some none)
  | [], _, _ => ⟨[], [], by simp, by simp, by simp [ctorArgs, posArgs, kwArgs], by simp⟩
  | p :: ps, h, hord => by
    have hrest : ∀ q ∈ ps, look q.fieldId ≠ none := fun q hq => h q (by simp [hq])
    have hord' := List.pairwise_cons.mp hord
    cases hl : look p.fieldId with
    | none => exact absurd hl (h p (by simp))
    | some o =>
      cases o with
      | none =>
        refine ⟨[], p :: ps, by simp, by simp, ?_, ?_⟩
        · have := ctorArgs_kw look ps true hrest (Or.inl rfl)
          simp [ctorArgs, posArgs, kwArgs, hl, this]
        · intro q hq
          simp at hq
          subst hq
          exact Or.inr hl
      | some pl =>
        by_cases hkw : p.kind = .kwOnly
        · refine ⟨[], p :: ps, by simp, by simp, ?_, ?_⟩
          · have hall : ∀ q ∈ p :: ps, q.kind = .kwOnly := by
              intro q hq
              simp at hq
              rcases hq with rfl | hq
              · exact hkw
              · exact (hord'.1 q hq).2 hkw
            have := ctorArgs_kw look (p :: ps) false h (Or.inr hall)
            simpa [posArgs] using this
          · intro q hq
            simp at hq
            subst hq
            exact Or.inl hkw
        · obtain ⟨pre, rest, hps, hpre, hargs, hhead⟩ := ctorArgs_split look ps hrest hord'.2
          refine ⟨p :: pre, rest, by simp [hps], ?_, ?_, hhead⟩
          · intro q hq
            simp at hq
            rcases hq with rfl | hq
            · exact ⟨hkw, pl, hl⟩
            · exact hpre q hq
          · have hc : (p.kind == ParamKind.kwOnly || false) = false := by simp [hkw]
            have hc2 : (p.kind == ParamKind.posOnly && false) = false := by simp
            simp [ctorArgs, hl, hc, hargs, posArgs]

/-! ### binding -/

theorem bindPositional_prefix (val : Param → Val) :
    ∀ (pre rest : List Param), (∀ p ∈ pre, p.kind ≠ .kwOnly) →
      bindPositional (pre ++ rest) (pre.map val) = some (pre.map (fun p => (p.name, val p)))
  | [], rest, _ => by cases rest <;> simp [bindPositional]
  | p :: pre, rest, h => by
    have hp : (p.kind == ParamKind.kwOnly) = false := by simp [h p (by simp)]
    have ih := bindPositional_prefix val pre rest (fun q hq => h q (by simp [hq]))
    simp [bindPositional, hp, ih]

theorem lookup_eq_none_of_not_mem {β : Type} (k : Name) :
    ∀ (l : List (Name × β)), k ∉ l.map (·.1) → l.lookup k = none
  | [], _ => rfl
  | (k', v) :: l, h => by
    simp at h
    have hne : (k == k') = false := by simp [h.1]
    simp [List.lookup, hne, lookup_eq_none_of_not_mem k l (by simpa using h.2)]

theorem bindKeywords_all (params : List Param) :
    ∀ (kws bound : List (Name × Val)),
      (∀ kv ∈ kws, (∃ p ∈ params, p.name = kv.1) ∧ ∀ p ∈ params, p.name = kv.1 → p.kind ≠ .posOnly) →
      ((bound ++ kws).map (·.1)).Nodup →
      bindKeywords params bound kws = some (bound ++ kws)
  | [], bound, _, _ => by simp [bindKeywords]
  | (k, v) :: kws, bound, h, hnd => by
    obtain ⟨⟨p0, hp0, hp0n⟩, hkind⟩ := h (k, v) (by simp)
    cases hf : params.find? (fun p => p.name == k) with
    | none =>
      have := List.find?_eq_none.mp hf p0 hp0
      simp [hp0n] at this
    | some p =>
      have hpm : p ∈ params := List.mem_of_find?_eq_some hf
      have hpn : p.name = k := by
        have := List.find?_some hf
        simpa using this
      have hk : (p.kind == ParamKind.posOnly) = false := by simp [hkind p hpm hpn]
      have hnb : k ∉ bound.map (·.1) := by
        intro hmem
        rw [List.map_append, List.nodup_append] at hnd
        exact hnd.2.2 k hmem k (by simp) rfl
      have hlk : bound.lookup k = none := lookup_eq_none_of_not_mem k bound hnb
      have ih := bindKeywords_all params kws (bound ++ [(k, v)])
        (fun kv hkv => h kv (by simp [hkv])) (by simpa using hnd)
      simp [bindKeywords, hf, hk, hlk, ih]

/-! ### the bound arguments -/

/-- (parameter name, value) of every linked parameter, in parameter order -/
def linkedVals (look : Look) (g : Plan → Val) (ps : List Param) : List (Name × Val) :=
  ps.filterMap (fun p => match look p.fieldId with | some (some pl) => some (p.name, g pl) | _ => none)

def valOf (look : Look) (g : Plan → Val) (p : Param) : Val :=
  match look p.fieldId with
  | some (some pl) => g pl
  | _ => default

theorem linkedVals_all_linked (look : Look) (g : Plan → Val) :
    ∀ (pre : List Param), (∀ p ∈ pre, ∃ pl, look p.fieldId = some (some pl)) →
      linkedVals look g pre = pre.map (fun p => (p.name, valOf look g p))
  | [], _ => by simp [linkedVals]
  | p :: pre, h => by
    obtain ⟨pl, hpl⟩ := h p (by simp)
    have ih := linkedVals_all_linked look g pre (fun q hq => h q (by simp [hq]))
    simp only [linkedVals] at ih ⊢
    simp [List.filterMap_cons, hpl, valOf, ih]

theorem positionalOf_args (look : Look) (g : Plan → Val) :
    ∀ (pre : List Param), (∀ p ∈ pre, ∃ pl, look p.fieldId = some (some pl)) →
      positionalOf ((posArgs look pre).map (fun e => (e.1, g e.2))) = pre.map (valOf look g)
  | [], _ => by simp [posArgs, positionalOf]
  | p :: pre, h => by
    obtain ⟨pl, hpl⟩ := h p (by simp)
    have ih := positionalOf_args look g pre (fun q hq => h q (by simp [hq]))
    simp only [posArgs, positionalOf] at ih ⊢
    simp [List.filterMap_cons, hpl, valOf, ih]

theorem positionalOf_kwArgs (look : Look) (g : Plan → Val) :
    ∀ (ps : List Param), positionalOf ((kwArgs look ps).map (fun e => (e.1, g e.2))) = []
  | [] => by simp [kwArgs, positionalOf]
  | p :: ps => by
    have ih := positionalOf_kwArgs look g ps
    simp only [kwArgs, positionalOf] at ih ⊢
    cases hl : look p.fieldId with
    | none => simp [List.filterMap_cons, hl, ih]
    | some o => cases o <;> simp [List.filterMap_cons, hl, ih]

theorem keywordsOf_posArgs (look : Look) (g : Plan → Val) :
    ∀ (ps : List Param), keywordsOf ((posArgs look ps).map (fun e => (e.1, g e.2))) = []
  | [] => by simp [posArgs, keywordsOf]
  | p :: ps => by
    have ih := keywordsOf_posArgs look g ps
    simp only [posArgs, keywordsOf] at ih ⊢
    cases hl : look p.fieldId with
    | none => simp [List.filterMap_cons, hl, ih]
    | some o => cases o <;> simp [List.filterMap_cons, hl, ih]

theorem keywordsOf_kwArgs (look : Look) (g : Plan → Val) :
    ∀ (ps : List Param), keywordsOf ((kwArgs look ps).map (fun e => (e.1, g e.2))) = linkedVals look g ps
  | [] => by simp [kwArgs, keywordsOf, linkedVals]
  | p :: ps => by
    have ih := keywordsOf_kwArgs look g ps
    simp only [kwArgs, keywordsOf, linkedVals] at ih ⊢
    cases hl : look p.fieldId with
    | none => simp [List.filterMap_cons, hl, ih]
    | some o => cases o <;> simp [List.filterMap_cons, hl, ih]

theorem positionalOf_append (a b : List (Option Name × Val)) :
    positionalOf (a ++ b) = positionalOf a ++ positionalOf b := by
  simp [positionalOf, List.filterMap_append]

theorem keywordsOf_append (a b : List (Option Name × Val)) :
    keywordsOf (a ++ b) = keywordsOf a ++ keywordsOf b := by
  simp [keywordsOf, List.filterMap_append]

theorem linkedVals_names_sublist (look : Look) (g : Plan → Val) :
    ∀ (ps : List Param), ((linkedVals look g ps).map (·.1)).Sublist (ps.map (·.name))
  | [] => by simp [linkedVals]
  | p :: ps => by
    have ih := linkedVals_names_sublist look g ps
    simp only [linkedVals] at ih ⊢
    cases hl : look p.fieldId with
    | none => simpa [List.filterMap_cons, hl] using List.Sublist.cons p.name ih
    | some o =>
      cases o with
      | none => simpa [List.filterMap_cons, hl] using List.Sublist.cons p.name ih
      | some pl => simpa [List.filterMap_cons, hl] using List.Sublist.cons_cons p.name ih

theorem mem_linkedVals (look : Look) (g : Plan → Val) (ps : List Param) (kv : Name × Val)
    (h : kv ∈ linkedVals look g ps) : ∃ p ∈ ps, p.name = kv.1 ∧ ∃ pl, look p.fieldId = some (some pl) := by
  simp only [linkedVals, List.mem_filterMap] at h
  obtain ⟨p, hp, hm⟩ := h
  cases hl : look p.fieldId with
  | none => simp [hl] at hm
  | some o =>
    cases o with
    | none => simp [hl] at hm
    | some pl =>
      simp [hl] at hm
      exact ⟨p, hp, by simp [← hm], pl, hl⟩

/-- what a parameter was bound to -/
theorem lookup_linkedVals (look : Look) (g : Plan → Val) :
    ∀ (ps : List Param), (ps.map (·.name)).Nodup → ∀ p ∈ ps,
      (linkedVals look g ps).lookup p.name =
        match look p.fieldId with
        | some (some pl) => some (g pl)
        | _ => none
  | [], _, p, hp => by simp at hp
  | q :: ps, hnd, p, hp => by
    have hnd' : q.name ∉ ps.map (·.name) ∧ (ps.map (·.name)).Nodup := by
      rw [List.map_cons, List.nodup_cons] at hnd
      exact hnd
    have ih := lookup_linkedVals look g ps hnd'.2
    have hcons : linkedVals look g (q :: ps) =
        (match look q.fieldId with | some (some pl) => [(q.name, g pl)] | _ => []) ++ linkedVals look g ps := by
      simp only [linkedVals, List.filterMap_cons]
      cases hl : look q.fieldId with
      | none => simp
      | some o => cases o <;> simp
    by_cases hpq : p.name = q.name
    · -- then p is q: names are distinct
      have hnot : p ∉ ps := by
        intro hmem
        exact hnd'.1 (by rw [← hpq]; exact List.mem_map_of_mem hmem)
      have hpe : p = q := by
        simp at hp
        rcases hp with h | h
        · exact h
        · exact absurd h hnot
      subst hpe
      have hnone : (linkedVals look g ps).lookup p.name = none := by
        apply lookup_eq_none_of_not_mem
        intro hmem
        exact hnd'.1 ((linkedVals_names_sublist look g ps).subset hmem)
      rw [hcons]
      cases hl : look p.fieldId with
      | none => simp [hnone]
      | some o => cases o <;> simp [List.lookup, hnone]
    · have hpm : p ∈ ps := by
        simp at hp
        rcases hp with h | h
        · exact absurd (by rw [h]) hpq
        · exact h
      have hne : (p.name == q.name) = false := by simp [hpq]
      rw [hcons]
      cases hl : look q.fieldId with
      | none => simpa using ih p hpm
      | some o =>
        cases o with
        | none => simpa using ih p hpm
        | some pl => simpa [List.lookup, hne] using ih p hpm

/-! ### building the object -/

/-- the value of a field as the specification sees it, from the per-field plans -/
def fieldValOf (look : Look) (ev : Plan → Option Val) (f : InField) : Option (Option Val) :=
  match look f.id with
  | none => none
  | some none => some none
  | some (some pl) => (ev pl).map some

theorem specFields_none_of_exists (fv : InField → Option (Option Val)) :
    ∀ (fs : List InField), (∃ f ∈ fs, fv f = none) → specFields fv fs = none
  | [], h => by simp at h
  | f :: fs, h => by
    cases hf : fv f with
    | none => simp [specFields, hf]
    | some o =>
      have hex : ∃ f' ∈ fs, fv f' = none := by
        obtain ⟨f', hf', hn⟩ := h
        simp at hf'
        rcases hf' with rfl | hf'
        · simp [hf] at hn
        · exact ⟨f', hf', hn⟩
      have ih := specFields_none_of_exists fv fs hex
      cases o with
      | some v => simp [specFields, hf, ih]
      | none =>
        cases hd : f.default <;> by_cases hr : f.required <;> simp [specFields, hf, ih, hd, hr]

theorem specFields_congr (fv fv' : InField → Option (Option Val)) :
    ∀ (fs : List InField), (∀ f ∈ fs, fv f = fv' f) → specFields fv fs = specFields fv' fs
  | [], _ => by simp [specFields]
  | f :: fs, h => by
    have hf := h f (by simp)
    have ih := specFields_congr fv fv' fs (fun f' hf' => h f' (by simp [hf']))
    simp [specFields, hf, ih]

theorem buildFields_eq_spec (look : Look) (g : Plan → Val) (params : List Param)
    (hnd : (params.map (·.name)).Nodup) :
    ∀ (fs : List InField), (∀ f ∈ fs, ∃ p ∈ params, p.fieldId = f.id) → (∀ f ∈ fs, look f.id ≠ none) →
      buildFields params (linkedVals look g params) fs = specFields (fieldValOf look (fun pl => some (g pl))) fs
  | [], _, _ => by simp [buildFields, specFields]
  | f :: fs, hp, hl => by
    have ih := buildFields_eq_spec look g params hnd fs (fun f' hf' => hp f' (by simp [hf']))
      (fun f' hf' => hl f' (by simp [hf']))
    obtain ⟨p0, hp0, hp0f⟩ := hp f (by simp)
    -- the parameter found for the field
    cases hfind : params.find? (fun p => p.fieldId == f.id) with
    | none =>
      have := List.find?_eq_none.mp hfind p0 hp0
      simp [hp0f] at this
    | some p =>
      have hpm : p ∈ params := List.mem_of_find?_eq_some hfind
      have hpf : p.fieldId = f.id := by
        have := List.find?_some hfind
        simpa using this
      have hpassed : (paramNameOf params f.id).bind (fun n => (linkedVals look g params).lookup n) =
          match look f.id with
          | some (some pl) => some (g pl)
          | _ => none := by
        simp [paramNameOf, hfind, lookup_linkedVals look g params hnd p hpm, hpf]
      cases hlk : look f.id with
      | none => exact absurd hlk (hl f (by simp))
      | some o =>
        cases o with
        | none =>
          rw [hlk] at hpassed
          simp only [buildFields, specFields, fieldValOf, hlk, hpassed, ih]
        | some pl =>
          rw [hlk] at hpassed
          simp only [buildFields, specFields, fieldValOf, hlk, hpassed, ih, Option.map_some]

/-! ### the whole constructor call -/

theorem ctorArgs_some_look (look : Look) :
    ∀ (ps : List Param) (sk : Bool) (args : List (Option Name × Plan)),
      ctorArgs look ps sk = some args → ∀ p ∈ ps, look p.fieldId ≠ none
  | [], _, _, _ => by simp
  | p :: ps, sk, args, h => by
    intro q hq
    cases hl : look p.fieldId with
    | none => simp [ctorArgs, hl] at h
    | some o =>
      have hrest : ∃ sk' args', ctorArgs look ps sk' = some args' := by
        cases o with
        | none => exact ⟨true, args, by simpa [ctorArgs, hl] using h⟩
        | some pl =>
          simp only [ctorArgs, hl] at h
          split at h
          · cases hr : ctorArgs look ps sk with
            | none => simp [hr] at h
            | some a => exact ⟨sk, a, hr⟩
          · split at h
            · cases h
            · cases hr : ctorArgs look ps sk with
              | none => simp [hr] at h
              | some a => exact ⟨sk, a, hr⟩
      obtain ⟨sk', args', hr⟩ := hrest
      simp at hq
      rcases hq with rfl | hq
      · simp [hl]
      · exact ctorArgs_some_look look ps sk' args' hr q hq

theorem eq_of_name_eq :
    ∀ (ps : List Param), (ps.map (·.name)).Nodup → ∀ p ∈ ps, ∀ q ∈ ps, p.name = q.name → p = q
  | [], _, p, hp, _, _, _ => by simp at hp
  | r :: ps, hnd, p, hp, q, hq, hn => by
    rw [List.map_cons, List.nodup_cons] at hnd
    simp at hp hq
    rcases hp with rfl | hp <;> rcases hq with rfl | hq
    · rfl
    · exact absurd (by rw [hn]; exact List.mem_map_of_mem hq) hnd.1
    · exact absurd (by rw [← hn]; exact List.mem_map_of_mem hp) hnd.1
    · exact eq_of_name_eq ps hnd.2 p hp q hq hn

theorem mem_posArgs (look : Look) (ps : List Param) (p : Param) (pl : Plan)
    (hp : p ∈ ps) (hl : look p.fieldId = some (some pl)) : (none, pl) ∈ posArgs look ps := by
  simp only [posArgs, List.mem_filterMap]
  exact ⟨p, hp, by simp [hl]⟩

theorem mem_kwArgs (look : Look) (ps : List Param) (p : Param) (pl : Plan)
    (hp : p ∈ ps) (hl : look p.fieldId = some (some pl)) : (some p.name, pl) ∈ kwArgs look ps := by
  simp only [kwArgs, List.mem_filterMap]
  exact ⟨p, hp, by simp [hl]⟩

theorem mem_args_linked (look : Look) (pre rest : List Param) (e : Option Name × Plan)
    (he : e ∈ posArgs look pre ++ kwArgs look rest) :
    ∃ p ∈ pre ++ rest, look p.fieldId = some (some e.2) := by
  simp only [List.mem_append, posArgs, kwArgs, List.mem_filterMap] at he
  rcases he with ⟨p, hp, hm⟩ | ⟨p, hp, hm⟩
  all_goals
    cases hl : look p.fieldId with
    | none => simp [hl] at hm
    | some o =>
      cases o with
      | none => simp [hl] at hm
      | some pl =>
        simp [hl] at hm
        refine ⟨p, by simp [hp], ?_⟩
        rw [hl, ← hm]

/-- **The constructor call.**  For a well-formed shape, the arguments generated
    by `_make_constructor_call`, evaluated and bound by Python's call rules,
    build the object the specification describes field by field. -/
theorem ctor_correct (s : InShape) (hwf : ShapeWF s) (look : Look) (data ctx : Val)
    (h1 : ∀ f ∈ s.fields, look f.id ≠ none)
    (h2 : ∀ f ∈ s.fields, look f.id = some none → f.required = false)
    (h3 : ∀ p ∈ s.params, look p.fieldId ≠ none → ∃ f ∈ s.fields, f.id = p.fieldId)
    (args : List (Option Name × Plan)) (hargs : ctorArgs look s.params false = some args) :
    evalPlan data ctx (.call (.ctor s) args) =
      (specFields (fieldValOf look (evalPlan data ctx)) s.fields).map (Val.obj s.cls) := by
  have hlook := ctorArgs_some_look look s.params false args hargs
  obtain ⟨pre, rest, hps, hpre, hsplit, hhead⟩ := ctorArgs_split look s.params hlook hwf.order
  have hargs' : args = posArgs look pre ++ kwArgs look rest := by
    rw [hsplit] at hargs
    exact (Option.some.inj hargs).symm
  by_cases hfail : ∃ f ∈ s.fields, ∃ pl, look f.id = some (some pl) ∧ evalPlan data ctx pl = none
  · -- some linked field cannot be evaluated: both sides are undefined
    obtain ⟨f, hf, pl, hfl, hev⟩ := hfail
    have hspec : specFields (fieldValOf look (evalPlan data ctx)) s.fields = none :=
      specFields_none_of_exists _ _ ⟨f, hf, by simp [fieldValOf, hfl, hev]⟩
    obtain ⟨p, hp, hpf⟩ := hwf.fieldParam f hf
    have hpl : look p.fieldId = some (some pl) := by rw [hpf]; exact hfl
    have hmem : ∃ e ∈ args, evalPlan data ctx e.2 = none := by
      rw [hps] at hp
      rw [hargs']
      rcases List.mem_append.mp hp with hp | hp
      · exact ⟨(none, pl), List.mem_append_left _ (mem_posArgs look pre p pl hp hpl), hev⟩
      · exact ⟨(some p.name, pl), List.mem_append_right _ (mem_kwArgs look rest p pl hp hpl), hev⟩
    simp [evalPlan, evalArgs_none_of_exists data ctx args hmem, hspec]
  · -- every linked field evaluates
    let g : Plan → Val := fun pl => (evalPlan data ctx pl).getD default
    have hev : ∀ p ∈ s.params, ∀ pl, look p.fieldId = some (some pl) → evalPlan data ctx pl = some (g pl) := by
      intro p hp pl hpl
      obtain ⟨f, hf, hfid⟩ := h3 p hp (by simp [hpl])
      cases he : evalPlan data ctx pl with
      | none => exact absurd ⟨f, hf, pl, by rw [hfid]; exact hpl, he⟩ hfail
      | some v => simp [g, he]
    have hevargs : ∀ e ∈ args, evalPlan data ctx e.2 = some (g e.2) := by
      intro e he
      rw [hargs'] at he
      obtain ⟨p, hp, hpl⟩ := mem_args_linked look pre rest e he
      exact hev p (by rw [hps]; exact hp) e.2 hpl
    have heval := evalArgs_some_of_forall data ctx g args hevargs
    have hprel : ∀ p ∈ pre, ∃ pl, look p.fieldId = some (some pl) := fun p hp => (hpre p hp).2
    -- positional and keyword parts of the evaluated arguments
    have hpos : positionalOf (args.map (fun e => (e.1, g e.2))) = pre.map (valOf look g) := by
      rw [hargs', List.map_append, positionalOf_append, positionalOf_args look g pre hprel,
        positionalOf_kwArgs]
      simp
    have hkw : keywordsOf (args.map (fun e => (e.1, g e.2))) = linkedVals look g rest := by
      rw [hargs', List.map_append, keywordsOf_append, keywordsOf_posArgs, keywordsOf_kwArgs]
      simp
    have hbp : bindPositional s.params (pre.map (valOf look g)) =
        some (pre.map (fun p => (p.name, valOf look g p))) := by
      rw [hps]
      exact bindPositional_prefix (valOf look g) pre rest (fun p hp => (hpre p hp).1)
    have hall : pre.map (fun p => (p.name, valOf look g p)) ++ linkedVals look g rest =
        linkedVals look g s.params := by
      rw [hps, ← linkedVals_all_linked look g pre hprel]
      simp [linkedVals, List.filterMap_append]
    -- a skipped parameter is never positional-only
    have hskip : ∀ p ∈ s.params, look p.fieldId = some none → p.kind ≠ .posOnly := by
      intro p hp hl hk
      obtain ⟨f, hf, hfid⟩ := h3 p hp (by simp [hl])
      have hreq := hwf.posOnlyRequired p hp hk f hf hfid
      have hnr := h2 f hf (by rw [hfid]; exact hl)
      rw [hreq] at hnr
      cases hnr
    have hrestkind : ∀ r ∈ rest, (∃ pl, look r.fieldId = some (some pl)) → r.kind ≠ .posOnly := by
      cases hrest : rest with
      | nil => simp
      | cons q rest' =>
        have hq := hhead q (by simp [hrest])
        have hord : (q :: rest').Pairwise ParamOrder := by
          have := hwf.order
          rw [hps, hrest] at this
          exact this.sublist (List.sublist_append_right _ _)
        have hord' := List.pairwise_cons.mp hord
        have hqmem : q ∈ s.params := by rw [hps, hrest]; simp
        intro r hr hlinked hk
        simp at hr
        rcases hr with rfl | hr
        · rcases hq with hq | hq
          · rw [hq] at hk; cases hk
          · obtain ⟨pl, hpl⟩ := hlinked
            rw [hq] at hpl; cases hpl
        · have hqk := (hord'.1 r hr).1 hk
          rcases hq with hq | hq
          · rw [hq] at hqk; cases hqk
          · exact hskip q hqmem hq hqk
    have hbk : bindKeywords s.params (pre.map (fun p => (p.name, valOf look g p))) (linkedVals look g rest) =
        some (linkedVals look g s.params) := by
      rw [← hall]
      apply bindKeywords_all
      · intro kv hkv
        obtain ⟨p, hp, hpn, hpl⟩ := mem_linkedVals look g rest kv hkv
        have hpm : p ∈ s.params := by rw [hps]; simp [hp]
        refine ⟨⟨p, hpm, hpn⟩, ?_⟩
        intro p' hp' hp'n
        have : p' = p := eq_of_name_eq s.params hwf.paramNames p' hp' p hpm (by rw [hp'n, hpn])
        subst this
        exact hrestkind p' hp hpl
      · rw [hall]
        exact (linkedVals_names_sublist look g s.params).nodup hwf.paramNames
    have hbuild := buildFields_eq_spec look g s.params hwf.paramNames s.fields hwf.fieldParam h1
    have hcongr : specFields (fieldValOf look (fun pl => some (g pl))) s.fields =
        specFields (fieldValOf look (evalPlan data ctx)) s.fields := by
      apply specFields_congr
      intro f hf
      cases hl : look f.id with
      | none => simp [fieldValOf, hl]
      | some o =>
        cases o with
        | none => simp [fieldValOf, hl]
        | some pl =>
          obtain ⟨p, hp, hpf⟩ := hwf.fieldParam f hf
          have := hev p hp pl (by rw [hpf]; exact hl)
          simp [fieldValOf, hl, this]
    simp [evalPlan, heval, applyCallee, callCtor, bindCall, hpos, hkw, hbp, hbk, hbuild, hcongr]

end Adaptix.Conv13
