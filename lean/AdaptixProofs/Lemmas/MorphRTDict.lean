/-
  C01 helper lemmas: the dict provider.
-/
import AdaptixProofs.Lemmas.MorphRTLoad

namespace Adaptix.Morph
open Adaptix.Py Adaptix.Morph.C01

theorem rt_all2_mem_right {α β : Type} {R : α → β → Prop} {xs : List α} {ys : List β}
    (h : RtAll2 R xs ys) {b : β} (hb : b ∈ ys) : ∃ a ∈ xs, R a b := by
  induction h with
  | nil => cases hb
  | @cons a0 b0 as bs hab _ ih =>
    rcases List.mem_cons.1 hb with rfl | hb
    · exact ⟨a0, by simp, hab⟩
    · obtain ⟨a, ha, hr⟩ := ih hb
      exact ⟨a, by simp [ha], hr⟩

theorem rt_all2_pairwise {α β : Type} {R : α → β → Prop} {P : α → α → Prop} {Q : β → β → Prop}
    {xs : List α} {ys : List β} (h : RtAll2 R xs ys) (hp : xs.Pairwise P)
    (hpq : ∀ a b a' b', a ∈ xs → b ∈ xs → R a a' → R b b' → P a b → Q a' b') :
    ys.Pairwise Q := by
  induction h with
  | nil => exact .nil
  | @cons a0 b0 as bs hab hrest ih =>
    obtain ⟨hp1, hp2⟩ := List.pairwise_cons.1 hp
    refine List.pairwise_cons.2 ⟨?_, ?_⟩
    · intro b' hb'
      obtain ⟨a, ha, hr⟩ := rt_all2_mem_right hrest hb'
      exact hpq a0 a b0 b' (by simp) (by simp [ha]) hab hr (hp1 a ha)
    · exact ih hp2 (fun a b a' b' ha hb => hpq a b a' b' (by simp [ha]) (by simp [hb]))

/-- what a successful sweep over the dict dumper's items says about the pairs -/
theorem rt_dictItemsD_inv {vf : Bool} {dk dv : Val → Outcome Val} {kvs : List (Val × Val)}
    {flat : List Val} (h : (dictItemsD vf dk dv kvs).map (·.2) = flat.map .ok) :
    ∃ dkvs, flat = rtFlat vf dkvs ∧
      RtAll2 (fun p q => dk p.1 = .ok q.1 ∧ dv p.2 = .ok q.2) kvs dkvs := by
  induction kvs generalizing flat with
  | nil =>
    cases flat with
    | nil => exact ⟨[], rfl, .nil⟩
    | cons a flat => simp [dictItemsD] at h
  | cons p kvs ih =>
    obtain ⟨k, v⟩ := p
    cases flat with
    | nil => cases vf <;> simp [dictItemsD] at h
    | cons a flat =>
      cases flat with
      | nil => cases vf <;> simp [dictItemsD] at h
      | cons b flat =>
        cases vf with
        | false =>
          simp only [dictItemsD, Bool.false_eq_true, if_false, List.map_cons, List.cons.injEq] at h
          obtain ⟨ha, hb, hrest⟩ := h
          obtain ⟨dkvs, rfl, hall⟩ := ih hrest
          exact ⟨(a, b) :: dkvs, by simp [rtFlat], .cons ⟨ha, hb⟩ hall⟩
        | true =>
          simp only [dictItemsD, if_true, List.map_cons, List.cons.injEq] at h
          obtain ⟨ha, hb, hrest⟩ := h
          obtain ⟨dkvs, rfl, hall⟩ := ih hrest
          exact ⟨(b, a) :: dkvs, by simp [rtFlat], .cons ⟨hb, ha⟩ hall⟩

/-- the dict loader's items when every key and value loads -/
theorem rt_dictItems_ok {vf : Bool} {lk lv : Val → Outcome Val} {kvs' kvs : List (Val × Val)}
    (h : RtAll2 (fun p' p => lk p'.1 = .ok p.1 ∧ lv p'.2 = .ok p.2) kvs' kvs) :
    (dictItems vf lk lv kvs').map (·.2) = (rtFlat vf kvs).map .ok := by
  induction h with
  | nil => simp [dictItems, rtFlat]
  | @cons p' p _ _ hpp _ ih =>
    obtain ⟨k', v'⟩ := p'
    obtain ⟨k, v⟩ := p
    cases vf <;> simp_all [dictItems, rtFlat]

theorem rt_all2_trans {α β γ : Type} {R : α → β → Prop} {S : β → γ → Prop} {T : γ → α → Prop}
    {xs : List α} {ys : List β} {zs : List γ} (h1 : RtAll2 R xs ys) (h2 : RtAll2 S ys zs)
    (hrs : ∀ a b c, a ∈ xs → R a b → S b c → T c a) : RtAll2 T zs xs := by
  induction h1 generalizing zs with
  | nil => cases h2; exact .nil
  | @cons a b as bs hab _ ih =>
    cases h2 with
    | @cons _ c _ cs hbc h2 =>
      exact .cons (hrs a b c (by simp) hab hbc)
        (ih h2 (fun a b c ha => hrs a b c (by simp [ha])))

/-- **dicts** -/
theorem rt_dict {cfg : Cfg} {j : Bool} {dk dv lk lv : Val → Outcome Val}
    {kvs : List (Val × Val)} {d d' : Val}
    (hhash : Val.hashableAll (kvs.map (·.1)) = true) (hdist : Distinct (kvs.map (·.1)))
    (hdhash : ∀ p ∈ kvs, ∀ e, dk p.1 = .ok e → e.hashable = true)
    (hdinj : ∀ p ∈ kvs, ∀ q ∈ kvs, ∀ e e', Val.pyEq p.1 q.1 = false → dk p.1 = .ok e →
      dk q.1 = .ok e' → Val.pyEq e e' = false)
    (hdump : dumpDict cfg dk dv (.dict kvs) = .ok d) (htr : Trav j d d')
    (hrtk : ∀ p ∈ kvs, ∀ e e', dk p.1 = .ok e → Trav j e e' → lk e' = .ok p.1)
    (hrtv : ∀ p ∈ kvs, ∀ e e', dv p.2 = .ok e → Trav j e e' → lv e' = .ok p.2) :
    loadDict cfg lk lv d' = .ok (.dict kvs) := by
  simp only [dumpDict] at hdump
  obtain ⟨flat, hflat, hd⟩ := rt_bindO_ok hdump
  obtain ⟨dkvs, rfl, hall⟩ := rt_dictItemsD_inv (rt_seqModeDump_inv hflat)
  -- the dumped dict is exactly the list of dumped pairs
  have hdk : ∀ q ∈ dkvs, q.1.hashable = true := by
    intro q hq
    obtain ⟨p, hp, hpq⟩ := rt_all2_mem_right hall hq
    exact hdhash p hp _ hpq.1
  have hdd : Distinct ((([] : List (Val × Val)) ++ dkvs).map (·.1)) := by
    simp only [List.nil_append, Distinct]
    rw [List.pairwise_map]
    have hp : kvs.Pairwise (fun a b => Val.pyEq a.1 b.1 = false) := by
      have := hdist; simp only [Distinct] at this; rwa [List.pairwise_map] at this
    exact rt_all2_pairwise hall hp
      (fun a b a' b' ha hb haa hbb hab => hdinj a ha b hb _ _ hab haa.1 hbb.1)
  rw [rt_buildDictD hdk hdd] at hd
  simp only [List.nil_append, Outcome.ok.injEq] at hd
  subst hd
  obtain ⟨kvs', rfl, htrav⟩ := rt_trav_dict htr
  have hload : RtAll2 (fun p' p => lk p'.1 = .ok p.1 ∧ lv p'.2 = .ok p.2) kvs' kvs := by
    refine rt_all2_trans hall htrav ?_
    intro p q p' hp hpq hqp'
    obtain ⟨h1, h2, h3⟩ := hqp'
    exact ⟨by rw [h1]; exact hrtk p hp _ _ hpq.1 h2, hrtv p hp _ _ hpq.2 h3⟩
  have hitems := rt_dictItems_ok (vf := cfg.trail == .disable) hload
  have hkh : ∀ p ∈ kvs, p.1.hashable = true := by
    intro p hp
    exact rt_hashableAll_iff.1 hhash p.1 (List.mem_map_of_mem hp)
  simp only [loadDict, rt_seqMode_ok cfg.trail hitems, bindO]
  have := rt_buildDict (vf := cfg.trail == .disable) (acc := []) hkh (by simpa using hdist)
  simpa using this

end Adaptix.Morph
