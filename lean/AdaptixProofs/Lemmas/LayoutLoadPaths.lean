/-
  Pure lemmas: the denotational reading of a crown (`specArgs`, `specOk`) reads every field from
  the path of its leaf, and nothing else (C03).
-/
import AdaptixProofs.Lemmas.LayoutLoad

namespace Adaptix.Layout

/-- what "the loader takes field `id` from exactly path `q`" means for a successful load producing `args` -/
def ReadsLeaf (cfg : LoadCfg) (args : List (String × Val)) (d : Val) (q : Path) (id : String) : Prop :=
  (∀ v, d.getPath q = some v → ∃ x, cfg.loader id v = .ok x ∧ (id, x) ∈ args) ∧
  (d.getPath q = none → (cfg.field id).required = false ∧
      ∀ dv, (cfg.field id).default = some dv → (id, dv) ∈ args)

theorem ReadsLeaf.mono {cfg : LoadCfg} {args : List (String × Val)} {d : Val} {q : Path} {id : String}
    (h : ReadsLeaf cfg args d q id) (a b : List (String × Val)) : ReadsLeaf cfg (a ++ args ++ b) d q id := by
  obtain ⟨h1, h2⟩ := h
  constructor
  · intro v hv
    obtain ⟨x, hx, hm⟩ := h1 v hv
    exact ⟨x, hx, by simp [hm]⟩
  · intro hn
    obtain ⟨hr, hd⟩ := h2 hn
    exact ⟨hr, fun dv hdv => by simp [hd dv hdv]⟩

/-- prefixing the path with a key that is found moves the statement to the sub-datum -/
theorem ReadsLeaf.cons {cfg : LoadCfg} {args : List (String × Val)} {d v : Val} {k : Key} {q : Path} {id : String}
    (hk : d.getItem k = .found v) (h : ReadsLeaf cfg args v q id) : ReadsLeaf cfg args d (k :: q) id := by
  unfold ReadsLeaf at *
  simpa [Val.getPath, hk] using h

theorem getItem_found_of_lt {d : Val} {i : Nat} (hs : d.isSequence = true) (hi : i < d.len) :
    ∃ v, d.getItem (.i i) = .found v := by
  cases d <;> simp [Val.isSequence] at hs
  · rename_i s
    simp only [Val.len] at hi
    have : i < s.toList.length := by rw [String.length_toList]; exact hi
    simp only [Val.getItem]
    rw [List.getElem?_eq_getElem this]
    exact ⟨_, rfl⟩
  · rename_i xs
    simp only [Val.len] at hi
    simp only [Val.getItem]
    rw [List.getElem?_eq_getElem hi]
    exact ⟨_, rfl⟩

theorem readsLeaf_fieldDict (cfg : LoadCfg) (d : Val) (k id : String) (hok : okFieldDict cfg d k id = true) :
    ReadsLeaf cfg (specFieldDict cfg d k id) d [.s k] id := by
  unfold ReadsLeaf okFieldDict specFieldDict at *
  cases hg : d.getItem (.s k) with
  | found v =>
    simp only [hg] at hok
    simp only [Val.getPath, hg]
    unfold loaderOk at hok
    cases hl : cfg.loader id v with
    | ok x => simp [hl]
    | error e => simp [hl] at hok
  | keyError => simp_all [Val.getPath]
  | indexError => simp_all [Val.getPath]
  | typeError => simp_all [Val.getPath]

mutual
theorem specArgs_reads (cfg : LoadCfg) : ∀ (c : InpCrown) (d : Val), specOk cfg c d = true →
    ∀ q id, (q, Leaf.field id) ∈ c.leaves → ReadsLeaf cfg (specArgs cfg c d) d q id
  | .dict m pol, d, hok, q, id, hm => by
    simp only [specOk, Bool.and_eq_true] at hok
    simp only [InpCrown.leaves] at hm
    simpa [specArgs] using specArgsDict_reads cfg m d hok.1.2 q id hm
  | .list m pol, d, hok, q, id, hm => by
    simp only [specOk, Bool.and_eq_true, decide_eq_true_eq] at hok
    simp only [InpCrown.leaves] at hm
    simpa [specArgs] using specArgsList_reads cfg m d 0 hok.1.1.2 (by omega) hok.1.1.1.1 q id hm
  | .field _, d, hok, q, id, hm => by simp [specOk] at hok
  | .none, d, hok, q, id, hm => by simp [specOk] at hok

theorem specArgsDict_reads (cfg : LoadCfg) : ∀ (m : List (String × InpCrown)) (d : Val),
    specOkDict cfg d m = true →
    ∀ q id, (q, Leaf.field id) ∈ InpCrown.leaves.goD m → ReadsLeaf cfg (specArgsDict cfg d m) d q id
  | [], d, hok, q, id, hm => by simp [InpCrown.leaves.goD] at hm
  | (k, .none) :: r, d, hok, q, id, hm => by
    simp only [specOkDict] at hok
    simp [InpCrown.leaves.goD, InpCrown.leaves] at hm
    simpa [specArgsDict] using specArgsDict_reads cfg r d hok q id hm
  | (k, .field id') :: r, d, hok, q, id, hm => by
    simp only [specOkDict, Bool.and_eq_true] at hok
    simp only [InpCrown.leaves.goD, InpCrown.leaves, List.map_cons, List.map_nil, List.cons_append,
      List.nil_append, List.mem_cons] at hm
    simp only [specArgsDict]
    rcases hm with hm | hm
    · simp at hm
      obtain ⟨rfl, rfl⟩ := hm
      simpa using (readsLeaf_fieldDict cfg d k id hok.1).mono [] (specArgsDict cfg d r)
    · simpa using (specArgsDict_reads cfg r d hok.2 q id hm).mono (specFieldDict cfg d k id') []
  | (k, .dict m' pol) :: r, d, hok, q, id, hm => by
    simp only [specOkDict, Bool.and_eq_true] at hok
    simp only [InpCrown.leaves.goD, List.mem_append, List.mem_map] at hm
    simp only [specArgsDict]
    rcases hm with ⟨⟨xp, xl⟩, hx, hq⟩ | hm
    · cases hg : d.getItem (.s k) with
      | found v =>
        simp only [hg] at hok ⊢
        simp at hq
        obtain ⟨rfl, rfl⟩ := hq
        have := specArgs_reads cfg (.dict m' pol) v hok.1 xp id hx
        simpa using (ReadsLeaf.cons hg this).mono [] (specArgsDict cfg d r)
      | keyError => simp [hg] at hok
      | indexError => simp [hg] at hok
      | typeError => simp [hg] at hok
    · simpa using (specArgsDict_reads cfg r d hok.2 q id hm).mono _ []
  | (k, .list m' pol) :: r, d, hok, q, id, hm => by
    simp only [specOkDict, Bool.and_eq_true] at hok
    simp only [InpCrown.leaves.goD, List.mem_append, List.mem_map] at hm
    simp only [specArgsDict]
    rcases hm with ⟨⟨xp, xl⟩, hx, hq⟩ | hm
    · cases hg : d.getItem (.s k) with
      | found v =>
        simp only [hg] at hok ⊢
        simp at hq
        obtain ⟨rfl, rfl⟩ := hq
        have := specArgs_reads cfg (.list m' pol) v hok.1 xp id hx
        simpa using (ReadsLeaf.cons hg this).mono [] (specArgsDict cfg d r)
      | keyError => simp [hg] at hok
      | indexError => simp [hg] at hok
      | typeError => simp [hg] at hok
    · simpa using (specArgsDict_reads cfg r d hok.2 q id hm).mono _ []

theorem specArgsList_reads (cfg : LoadCfg) : ∀ (m : List InpCrown) (d : Val) (i : Nat),
    specOkList cfg d i m = true → i + m.length ≤ d.len → d.isSequence = true →
    ∀ q id, (q, Leaf.field id) ∈ InpCrown.leaves.goL i m → ReadsLeaf cfg (specArgsList cfg d i m) d q id
  | [], d, i, hok, hlen, hs, q, id, hm => by simp [InpCrown.leaves.goL] at hm
  | .none :: r, d, i, hok, hlen, hs, q, id, hm => by
    simp only [specOkList] at hok
    simp [InpCrown.leaves.goL, InpCrown.leaves] at hm
    simp only [List.length_cons] at hlen
    simpa [specArgsList] using specArgsList_reads cfg r d (i + 1) hok (by omega) hs q id hm
  | .field id' :: r, d, i, hok, hlen, hs, q, id, hm => by
    simp only [specOkList, Bool.and_eq_true] at hok
    simp only [List.length_cons] at hlen
    simp only [InpCrown.leaves.goL, InpCrown.leaves, List.map_cons, List.map_nil, List.cons_append,
      List.nil_append, List.mem_cons] at hm
    simp only [specArgsList]
    rcases hm with hm | hm
    · simp at hm
      obtain ⟨rfl, rfl⟩ := hm
      obtain ⟨v, hv⟩ := getItem_found_of_lt hs (show i < d.len by omega)
      have h1 : ReadsLeaf cfg (specFieldList cfg d i id) d [.i i] id := by
        unfold ReadsLeaf specFieldList
        simp only [hv, Val.getPath] at hok ⊢
        unfold loaderOk at hok
        cases hl : cfg.loader id v with
        | ok x => simp [hl]
        | error e => simp [hl] at hok
      simpa using h1.mono [] (specArgsList cfg d (i + 1) r)
    · simpa using (specArgsList_reads cfg r d (i + 1) hok.2 (by omega) hs q id hm).mono (specFieldList cfg d i id') []
  | .dict m' pol :: r, d, i, hok, hlen, hs, q, id, hm => by
    simp only [specOkList, Bool.and_eq_true] at hok
    simp only [List.length_cons] at hlen
    simp only [InpCrown.leaves.goL, List.mem_append, List.mem_map] at hm
    simp only [specArgsList]
    rcases hm with ⟨⟨xp, xl⟩, hx, hq⟩ | hm
    · obtain ⟨v, hg⟩ := getItem_found_of_lt hs (show i < d.len by omega)
      simp only [hg] at hok ⊢
      simp at hq
      obtain ⟨rfl, rfl⟩ := hq
      have := specArgs_reads cfg (.dict m' pol) v hok.1 xp id hx
      simpa using (ReadsLeaf.cons hg this).mono [] (specArgsList cfg d (i + 1) r)
    · simpa using (specArgsList_reads cfg r d (i + 1) hok.2 (by omega) hs q id hm).mono _ []
  | .list m' pol :: r, d, i, hok, hlen, hs, q, id, hm => by
    simp only [specOkList, Bool.and_eq_true] at hok
    simp only [List.length_cons] at hlen
    simp only [InpCrown.leaves.goL, List.mem_append, List.mem_map] at hm
    simp only [specArgsList]
    rcases hm with ⟨⟨xp, xl⟩, hx, hq⟩ | hm
    · obtain ⟨v, hg⟩ := getItem_found_of_lt hs (show i < d.len by omega)
      simp only [hg] at hok ⊢
      simp at hq
      obtain ⟨rfl, rfl⟩ := hq
      have := specArgs_reads cfg (.list m' pol) v hok.1 xp id hx
      simpa using (ReadsLeaf.cons hg this).mono [] (specArgsList cfg d (i + 1) r)
    · simpa using (specArgsList_reads cfg r d (i + 1) hok.2 (by omega) hs q id hm).mono _ []
end

/-- where an argument comes from: the value found at the path of a field leaf (loaded), or the
    default of a field whose path is absent -/
def FromLeaf (cfg : LoadCfg) (d : Val) (q : Path) (id : String) (x : Val) : Prop :=
  (∃ v, d.getPath q = some v ∧ cfg.loader id v = .ok x) ∨
  (d.getPath q = none ∧ (cfg.field id).default = some x)

mutual
theorem specArgs_from (cfg : LoadCfg) : ∀ (c : InpCrown) (d : Val) (id : String) (x : Val),
    (id, x) ∈ specArgs cfg c d → ∃ q, (q, Leaf.field id) ∈ c.leaves ∧ FromLeaf cfg d q id x
  | .dict m pol, d, id, x, hm => by
    simp only [specArgs] at hm
    simpa [InpCrown.leaves] using specArgsDict_from cfg m d id x hm
  | .list m pol, d, id, x, hm => by
    simp only [specArgs] at hm
    simpa [InpCrown.leaves] using specArgsList_from cfg m d 0 id x hm
  | .field _, d, id, x, hm => by simp [specArgs] at hm
  | .none, d, id, x, hm => by simp [specArgs] at hm

theorem specArgsDict_from (cfg : LoadCfg) : ∀ (m : List (String × InpCrown)) (d : Val) (id : String) (x : Val),
    (id, x) ∈ specArgsDict cfg d m → ∃ q, (q, Leaf.field id) ∈ InpCrown.leaves.goD m ∧ FromLeaf cfg d q id x
  | [], d, id, x, hm => by simp [specArgsDict] at hm
  | (k, .none) :: r, d, id, x, hm => by
    simp only [specArgsDict] at hm
    obtain ⟨q, hq, hc⟩ := specArgsDict_from cfg r d id x hm
    exact ⟨q, by simp [InpCrown.leaves.goD, hq], hc⟩
  | (k, .field id') :: r, d, id, x, hm => by
    simp only [specArgsDict, List.mem_append] at hm
    rcases hm with hm | hm
    · refine ⟨[.s k], ?_, ?_⟩
      · unfold specFieldDict at hm
        have : id = id' := by
          split at hm
          · split at hm <;> simp at hm <;> exact hm.1
          · split at hm <;> simp at hm <;> exact hm.1
        subst this
        simp [InpCrown.leaves.goD, InpCrown.leaves]
      · unfold specFieldDict at hm
        unfold FromLeaf
        split at hm
        · rename_i v hv
          split at hm
          · rename_i y hy
            simp at hm
            obtain ⟨rfl, rfl⟩ := hm
            exact .inl ⟨v, by simp [Val.getPath, hv], hy⟩
          · simp at hm
        · rename_i hv
          split at hm
          · rename_i dv hdv
            simp at hm
            obtain ⟨rfl, rfl⟩ := hm
            refine .inr ⟨?_, hdv⟩
            simp only [Val.getPath]
            try (split <;> first | rfl | (rename_i w hw; exact absurd hw (hv w)))
          · simp at hm
    · obtain ⟨q, hq, hc⟩ := specArgsDict_from cfg r d id x hm
      exact ⟨q, by simp [InpCrown.leaves.goD, hq], hc⟩
  | (k, .dict m' pol) :: r, d, id, x, hm => by
    simp only [specArgsDict, List.mem_append] at hm
    rcases hm with hm | hm
    · cases hg : d.getItem (.s k) with
      | found v =>
        simp only [hg] at hm
        obtain ⟨q, hq, hc⟩ := specArgs_from cfg (.dict m' pol) v id x hm
        refine ⟨.s k :: q, ?_, ?_⟩
        · simp only [InpCrown.leaves.goD, List.mem_append, List.mem_map]
          exact .inl ⟨(q, Leaf.field id), hq, rfl⟩
        · unfold FromLeaf at hc ⊢
          simpa [Val.getPath, hg] using hc
      | keyError => simp [hg] at hm
      | indexError => simp [hg] at hm
      | typeError => simp [hg] at hm
    · obtain ⟨q, hq, hc⟩ := specArgsDict_from cfg r d id x hm
      exact ⟨q, by simp [InpCrown.leaves.goD, hq], hc⟩
  | (k, .list m' pol) :: r, d, id, x, hm => by
    simp only [specArgsDict, List.mem_append] at hm
    rcases hm with hm | hm
    · cases hg : d.getItem (.s k) with
      | found v =>
        simp only [hg] at hm
        obtain ⟨q, hq, hc⟩ := specArgs_from cfg (.list m' pol) v id x hm
        refine ⟨.s k :: q, ?_, ?_⟩
        · simp only [InpCrown.leaves.goD, List.mem_append, List.mem_map]
          exact .inl ⟨(q, Leaf.field id), hq, rfl⟩
        · unfold FromLeaf at hc ⊢
          simpa [Val.getPath, hg] using hc
      | keyError => simp [hg] at hm
      | indexError => simp [hg] at hm
      | typeError => simp [hg] at hm
    · obtain ⟨q, hq, hc⟩ := specArgsDict_from cfg r d id x hm
      exact ⟨q, by simp [InpCrown.leaves.goD, hq], hc⟩

theorem specArgsList_from (cfg : LoadCfg) : ∀ (m : List InpCrown) (d : Val) (i : Nat) (id : String) (x : Val),
    (id, x) ∈ specArgsList cfg d i m → ∃ q, (q, Leaf.field id) ∈ InpCrown.leaves.goL i m ∧ FromLeaf cfg d q id x
  | [], d, i, id, x, hm => by simp [specArgsList] at hm
  | .none :: r, d, i, id, x, hm => by
    simp only [specArgsList] at hm
    obtain ⟨q, hq, hc⟩ := specArgsList_from cfg r d (i + 1) id x hm
    exact ⟨q, by simp [InpCrown.leaves.goL, hq], hc⟩
  | .field id' :: r, d, i, id, x, hm => by
    simp only [specArgsList, List.mem_append] at hm
    rcases hm with hm | hm
    · unfold specFieldList at hm
      split at hm
      · rename_i v hv
        split at hm
        · rename_i y hy
          simp at hm
          obtain ⟨rfl, rfl⟩ := hm
          exact ⟨[.i i], by simp [InpCrown.leaves.goL, InpCrown.leaves], .inl ⟨v, by simp [Val.getPath, hv], hy⟩⟩
        · simp at hm
      · simp at hm
    · obtain ⟨q, hq, hc⟩ := specArgsList_from cfg r d (i + 1) id x hm
      exact ⟨q, by simp [InpCrown.leaves.goL, hq], hc⟩
  | .dict m' pol :: r, d, i, id, x, hm => by
    simp only [specArgsList, List.mem_append] at hm
    rcases hm with hm | hm
    · cases hg : d.getItem (.i i) with
      | found v =>
        simp only [hg] at hm
        obtain ⟨q, hq, hc⟩ := specArgs_from cfg (.dict m' pol) v id x hm
        refine ⟨.i i :: q, ?_, ?_⟩
        · simp only [InpCrown.leaves.goL, List.mem_append, List.mem_map]
          exact .inl ⟨(q, Leaf.field id), hq, rfl⟩
        · unfold FromLeaf at hc ⊢
          simpa [Val.getPath, hg] using hc
      | keyError => simp [hg] at hm
      | indexError => simp [hg] at hm
      | typeError => simp [hg] at hm
    · obtain ⟨q, hq, hc⟩ := specArgsList_from cfg r d (i + 1) id x hm
      exact ⟨q, by simp [InpCrown.leaves.goL, hq], hc⟩
  | .list m' pol :: r, d, i, id, x, hm => by
    simp only [specArgsList, List.mem_append] at hm
    rcases hm with hm | hm
    · cases hg : d.getItem (.i i) with
      | found v =>
        simp only [hg] at hm
        obtain ⟨q, hq, hc⟩ := specArgs_from cfg (.list m' pol) v id x hm
        refine ⟨.i i :: q, ?_, ?_⟩
        · simp only [InpCrown.leaves.goL, List.mem_append, List.mem_map]
          exact .inl ⟨(q, Leaf.field id), hq, rfl⟩
        · unfold FromLeaf at hc ⊢
          simpa [Val.getPath, hg] using hc
      | keyError => simp [hg] at hm
      | indexError => simp [hg] at hm
      | typeError => simp [hg] at hm
    · obtain ⟨q, hq, hc⟩ := specArgsList_from cfg r d (i + 1) id x hm
      exact ⟨q, by simp [InpCrown.leaves.goL, hq], hc⟩
end

/-! ### the reading depends on the field loaders and the shape only (not on the debug / coercion mode) -/

theorem specFieldDict_congr (c1 c2 : LoadCfg) (hl : c1.loader = c2.loader) (hf : c1.fields = c2.fields)
    (d : Val) (k id : String) : specFieldDict c1 d k id = specFieldDict c2 d k id := by
  unfold specFieldDict LoadCfg.field
  rw [hl, hf]

theorem specFieldList_congr (c1 c2 : LoadCfg) (hl : c1.loader = c2.loader)
    (d : Val) (i : Nat) (id : String) : specFieldList c1 d i id = specFieldList c2 d i id := by
  unfold specFieldList
  rw [hl]

mutual
theorem specArgs_congr (c1 c2 : LoadCfg) (hl : c1.loader = c2.loader) (hf : c1.fields = c2.fields) :
    ∀ (c : InpCrown) (d : Val), specArgs c1 c d = specArgs c2 c d
  | .dict m pol, d => by simpa [specArgs] using specArgsDict_congr c1 c2 hl hf m d
  | .list m pol, d => by simpa [specArgs] using specArgsList_congr c1 c2 hl hf m d 0
  | .field _, d => by simp [specArgs]
  | .none, d => by simp [specArgs]
theorem specArgsDict_congr (c1 c2 : LoadCfg) (hl : c1.loader = c2.loader) (hf : c1.fields = c2.fields) :
    ∀ (m : List (String × InpCrown)) (d : Val), specArgsDict c1 d m = specArgsDict c2 d m
  | [], d => by simp [specArgsDict]
  | (k, .none) :: r, d => by simpa [specArgsDict] using specArgsDict_congr c1 c2 hl hf r d
  | (k, .field id) :: r, d => by
    simp [specArgsDict, specFieldDict_congr c1 c2 hl hf, specArgsDict_congr c1 c2 hl hf r d]
  | (k, .dict m' pol) :: r, d => by
    simp only [specArgsDict, specArgsDict_congr c1 c2 hl hf r d]
    cases d.getItem (.s k) <;> simp [specArgs_congr c1 c2 hl hf (.dict m' pol)]
  | (k, .list m' pol) :: r, d => by
    simp only [specArgsDict, specArgsDict_congr c1 c2 hl hf r d]
    cases d.getItem (.s k) <;> simp [specArgs_congr c1 c2 hl hf (.list m' pol)]
theorem specArgsList_congr (c1 c2 : LoadCfg) (hl : c1.loader = c2.loader) (hf : c1.fields = c2.fields) :
    ∀ (m : List InpCrown) (d : Val) (i : Nat), specArgsList c1 d i m = specArgsList c2 d i m
  | [], d, i => by simp [specArgsList]
  | .none :: r, d, i => by simpa [specArgsList] using specArgsList_congr c1 c2 hl hf r d (i + 1)
  | .field id :: r, d, i => by
    simp [specArgsList, specFieldList_congr c1 c2 hl, specArgsList_congr c1 c2 hl hf r d (i + 1)]
  | .dict m' pol :: r, d, i => by
    simp only [specArgsList, specArgsList_congr c1 c2 hl hf r d (i + 1)]
    cases d.getItem (.i i) <;> simp [specArgs_congr c1 c2 hl hf (.dict m' pol)]
  | .list m' pol :: r, d, i => by
    simp only [specArgsList, specArgsList_congr c1 c2 hl hf r d (i + 1)]
    cases d.getItem (.i i) <;> simp [specArgs_congr c1 c2 hl hf (.list m' pol)]
end

theorem specTargets_congr (c1 c2 : LoadCfg) (hl : c1.loader = c2.loader) (hf : c1.fields = c2.fields)
    (pol : Policy) (ex : Val) : ∀ (ts : List String), specTargets c1 pol ex ts = specTargets c2 pol ex ts
  | [] => by simp [specTargets]
  | t :: r => by
    simp only [specTargets, specTargets_congr c1 c2 hl hf pol ex r, LoadCfg.field, hl, hf]
    rfl

/-! ### a dict node looks at its datum through its known keys only -/

theorem dictReading_congr (cfg : LoadCfg) (d1 d2 : Val) : ∀ (m : List (String × InpCrown)),
    (∀ k ∈ knownKeys m, d1.getItem (.s k) = d2.getItem (.s k)) →
    specOkDict cfg d1 m = specOkDict cfg d2 m ∧ specArgsDict cfg d1 m = specArgsDict cfg d2 m ∧
      specExtraDict d1 m = specExtraDict d2 m
  | [], _ => by simp [specOkDict, specArgsDict, specExtraDict]
  | (k, .none) :: r, h => by
    have ih := dictReading_congr cfg d1 d2 r (fun k' hk' => h k' (by simp [knownKeys, hk']))
    simpa [specOkDict, specArgsDict, specExtraDict] using ih
  | (k, .field id) :: r, h => by
    have ih := dictReading_congr cfg d1 d2 r (fun k' hk' => h k' (by simp [knownKeys, hk']))
    have hk := h k (by simp [knownKeys])
    simp [specOkDict, specArgsDict, specExtraDict, okFieldDict, specFieldDict, hk, ih.1, ih.2.1, ih.2.2]
  | (k, .dict m' pol) :: r, h => by
    have ih := dictReading_congr cfg d1 d2 r (fun k' hk' => h k' (by simp [knownKeys, hk']))
    have hk := h k (by simp [knownKeys])
    simp [specOkDict, specArgsDict, specExtraDict, hk, ih.1, ih.2.1, ih.2.2]
  | (k, .list m' pol) :: r, h => by
    have ih := dictReading_congr cfg d1 d2 r (fun k' hk' => h k' (by simp [knownKeys, hk']))
    have hk := h k (by simp [knownKeys])
    simp [specOkDict, specArgsDict, specExtraDict, hk, ih.1, ih.2.1, ih.2.2]

/-- a dict layout is flat when all its children are leaves (no field is mapped to a nested path) -/
def flat : List (String × InpCrown) → Bool
  | [] => true
  | (_, .field _) :: r => flat r
  | (_, .none) :: r => flat r
  | _ => false

/-! ### a concrete program for the non-vacuity examples of Props/C03 -/

def exCfg (mode : DebugTrail) : LoadCfg :=
  { mode, strict := true, move := .none,
    fields := [{ id := "a" }, { id := "b", required := false, default := some (.int 7) }],
    loader := fun _ v => match v with
      | .int n => .ok (.int n)
      | v => .error ⟨[], .typeLoad "int" v⟩ }

def exCrown : InpCrown :=
  .dict [("x", .list [.field "a", .none] .forbid), ("B", .field "b")] .forbid

end Adaptix.Layout
